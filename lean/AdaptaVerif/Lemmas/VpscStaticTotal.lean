/-
Totality of `Solver::satisfy` in the static VPSC solver's model: none of its loops exhausts the fuel the
model gives it.
 * the `while` loops of `findMinInConstraint` / `findMinOutConstraint` delete the root in every round, and
   `deleteMin` of the pairing heap strictly shrinks the heap (`len_deleteMin`);
 * every round of the `while` loop of `Blocks::mergeLeft` merges two different owning blocks, so the number
   of owning blocks `nOwn` strictly decreases (`nOwn_mergeDir`) and bounds the number of rounds;
 * `Blocks::totalOrder` is total (`Lemmas/VpscStaticOrder.totalOrder_ok`).
Hence `init_satisfy_total`: from `Solver(vs, cs)`, `satisfy()` returns normally or throws — never "out of fuel".
(`refine` is not covered: the fuel of the tree traversals `compute_dfdv` / `populateSplitBlock` is not
analysed, as in the IncSolver model.)
-/
import AdaptaVerif.Lemmas.VpscStaticRun
namespace AdaptaVerif.Lemmas.VpscStaticMem
open AdaptaVerif.Model.Vpsc AdaptaVerif.Model.VpscStatic
open AdaptaVerif.Lemmas.VpscInv AdaptaVerif.Lemmas.VpscMerge
open AdaptaVerif.Lemmas.VpscStatic AdaptaVerif.Lemmas.VpscLoop AdaptaVerif.Lemmas.VpscStaticOrder
open AdaptaVerif.Model.PairingHeap

/-! ### the heap loops never exhaust their fuel: `deleteMin` shrinks the heap -/

theorem len_link {lt : Nat → Nat → Bool} (a b : PTree Nat) :
    (elems (link lt a b)).length ≤ (elems a).length + (elems b).length := by
  cases a with
  | nil => cases b <;> simp [link, elems]
  | node ka ia ca sa =>
    cases b with
    | nil => simp [link, elems]
    | node kb ib cb sb =>
      simp only [link]
      split <;> simp only [elems, List.length_cons, List.length_append] <;> omega

theorem len_siblings : ∀ (t : PTree Nat), (elemsL' (siblings t)).length = (elems t).length
  | .nil => by simp [siblings, elemsL', elems]
  | .node k i c s => by
    have ih := len_siblings s
    simp only [siblings, elemsL', List.flatMap_cons, elems, List.length_append, List.length_cons,
      List.append_nil] at ih ⊢
    omega

theorem len_pass1 {lt : Nat → Nat → Bool} : ∀ (l : List (PTree Nat)),
    (elemsL' (pass1 lt l)).length ≤ (elemsL' l).length
  | [] => by simp [pass1]
  | [a] => by simp [pass1]
  | a :: b :: rest => by
    have ih := len_pass1 (lt := lt) rest
    have hl := len_link (lt := lt) a b
    simp only [pass1, elemsL', List.flatMap_cons, List.length_append] at ih ⊢
    omega

theorem len_pass2 {lt : Nat → Nat → Bool} : ∀ (l : List (PTree Nat)),
    (elems (pass2 lt l)).length ≤ (elemsL' l).length
  | [] => by simp [pass2, elems, elemsL']
  | [a] => by simp [pass2, elemsL']
  | a :: b :: rest => by
    have ih := len_pass2 (lt := lt) (b :: rest)
    have hl := len_link (lt := lt) a (pass2 lt (b :: rest))
    simp only [pass2]
    simp only [elemsL', List.flatMap_cons, List.length_append] at ih ⊢
    omega

theorem len_deleteMin {lt : Nat → Nat → Bool} (h : PTree Nat) (x : Nat × Nat) (hx : findMin h = some x) :
    (heapElems (deleteMin lt h)).length < (heapElems h).length := by
  cases h with
  | nil => simp [findMin] at hx
  | node k i c s =>
    have h1 := len_pass2 (lt := lt) (pass1 lt (siblings c))
    have h2 := len_pass1 (lt := lt) (siblings c)
    have h3 := len_siblings c
    simp only [heapElems, List.length_map, deleteMin, combineSiblings, elems, List.length_cons,
      List.length_append]
    omega

theorem findMinInLoop_fuel (st : St) : ∀ (fuel : Nat) (hs : HS) (h : Heap) (ood : List Nat),
    (heapElems h).length < fuel → (findMinInLoop st fuel hs h ood).1.fuelOut = hs.fuelOut
  | 0, _, _, _, hlt => by omega
  | fuel + 1, hs, h, ood, hlt => by
    unfold findMinInLoop
    split
    · rfl
    · rename_i v i hv
      have hd := len_deleteMin (lt := conLt st hs) h (v, i) hv
      split
      · rw [findMinInLoop_fuel st fuel _ _ _ (by omega)]
      · split
        · rw [findMinInLoop_fuel st fuel _ _ _ (by omega)]
        · rfl

theorem findMinOutLoop_fuel (st : St) : ∀ (fuel : Nat) (hs : HS) (h : Heap),
    (heapElems h).length < fuel → (findMinOutLoop st fuel hs h).1.fuelOut = hs.fuelOut
  | 0, _, _, hlt => by omega
  | fuel + 1, hs, h, hlt => by
    unfold findMinOutLoop
    split
    · rfl
    · rename_i v i hv
      have hd := len_deleteMin (lt := conLt st hs) h (v, i) hv
      split
      · rw [findMinOutLoop_fuel st fuel _ _ (by omega)]
      · rfl

/-! ### which functions can set the heap-side fuel flag -/

theorem noteKeys_fo (st : St) (hs : HS) (cs : List Nat) : (hs.noteKeys st cs).fuelOut = hs.fuelOut := by
  simp only [HS.noteKeys, HS.note]

theorem setUpStep_fo (st : St) (b : Nat) (isIn : Bool) (acc : HS × Heap) (ci : Nat) :
    (setUpStep st b isIn acc ci).1.fuelOut = acc.1.fuelOut := by
  simp only [setUpStep]
  split <;> split <;> rfl

theorem setUp_fold_fo (st : St) (b : Nat) (isIn : Bool) (l : List Nat) : ∀ (acc : HS × Heap),
    (l.foldl (setUpStep st b isIn) acc).1.fuelOut = acc.1.fuelOut := by
  induction l with
  | nil => intro acc; rfl
  | cons ci rest ih =>
    intro acc
    rw [List.foldl_cons, ih, setUpStep_fo]

theorem setUpHeap_fo (st : St) (hs : HS) (b : Nat) (isIn : Bool) : (setUpHeap st hs b isIn).1.fuelOut = hs.fuelOut := by
  simp only [setUpHeap, HS.noteKeys, HS.note]
  exact setUp_fold_fo st b isIn _ _

theorem setUpIn_fo (st : St) (hs : HS) (b : Nat) : (setUpIn st hs b).fuelOut = hs.fuelOut := by
  simp only [setUpIn]; exact setUpHeap_fo st hs b true

theorem setUpOut_fo (st : St) (hs : HS) (b : Nat) : (setUpOut st hs b).fuelOut = hs.fuelOut := by
  simp only [setUpOut]; exact setUpHeap_fo st hs b false

theorem reinsert_fo (st : St) (l : List Nat) : ∀ (acc : HS × Heap),
    (l.foldl (reinsertStep st) acc).1.fuelOut = acc.1.fuelOut := by
  induction l with
  | nil => intro acc; rfl
  | cons v rest ih =>
    intro acc
    rw [List.foldl_cons, ih]
    rfl

theorem findMinInHeap_fo (st : St) (hs : HS) (h : Heap) : (findMinInHeap st hs h).1.fuelOut = hs.fuelOut := by
  unfold findMinInHeap
  simp only
  have hl := findMinInLoop_fuel st ((heapElems h).length + 1) (hs.noteKeys st (heapElems h)) h [] (by omega)
  split
  · rw [reinsert_fo]; exact hl
  · rw [noteKeys_fo, reinsert_fo]; exact hl

theorem findMinIn_fo (st : St) (hs : HS) (b : Nat) : (findMinIn st hs b).1.fuelOut = hs.fuelOut := by
  unfold findMinIn; exact findMinInHeap_fo st hs _

theorem findMinOut_fo (st : St) (hs : HS) (b : Nat) : (findMinOut st hs b).1.fuelOut = hs.fuelOut := by
  unfold findMinOut
  simp only
  exact findMinOutLoop_fuel st _ _ _ (by omega)

theorem mergeIn_fo (st : St) (hs : HS) (dst src : Nat) : (mergeIn st hs dst src).fuelOut = hs.fuelOut := by
  unfold mergeIn
  simp only
  rw [noteKeys_fo, findMinIn_fo, findMinIn_fo]

theorem mergeOut_fo (st : St) (hs : HS) (dst src : Nat) : (mergeOut st hs dst src).fuelOut = hs.fuelOut := by
  unfold mergeOut
  simp only
  rw [noteKeys_fo, findMinOut_fo, findMinOut_fo]

theorem checkExact_fo (hs : HS) (st : St) (b : Nat) : (hs.checkExact st b).fuelOut = hs.fuelOut := by
  unfold HS.checkExact; split <;> rfl

theorem noteCmp_fo (hs : HS) (x : Rat) : (hs.noteCmp x).fuelOut = hs.fuelOut := by
  unfold HS.noteCmp; split <;> rfl

theorem mergeLeftPre_fo (s : SSt) (r c : Nat) : (mergeLeftPre s r c).fuelOut = s.hs.fuelOut := by
  unfold mergeLeftPre
  simp only
  split
  · rw [setUpIn_fo]; rfl
  · rfl

theorem mergeLeftStep_fo (s : SSt) (r c : Nat) : (mergeLeftStep s r c).1.hs.fuelOut = s.hs.fuelOut := by
  simp only [mergeLeftStep]
  rw [mergeIn_fo, checkExact_fo, mergeLeftPre_fo]

/-! ### `mergeLeft` never exhausts its fuel: every merge removes an owning block -/

/-- number of blocks that own a variable -/
def nOwn (st : St) : Nat :=
  ((List.range st.blocks.size).filter fun b => (List.range st.vars.size).any fun v => blkOf st v == b).length

theorem ownsB_iff (st : St) (b : Nat) :
    ((List.range st.vars.size).any fun v => blkOf st v == b) = true ↔ Owns st b := by
  simp only [List.any_eq_true, List.mem_range, beq_iff_eq]
  rfl

theorem nOwn_le (st : St) : nOwn st ≤ st.blocks.size := by
  unfold nOwn
  calc _ ≤ (List.range st.blocks.size).length := List.length_filter_le _ _
    _ = st.blocks.size := List.length_range

theorem nOwn_mergeDir (st : St) (ci dst src : Nat) (d : Rat) (hI : IC st) (hm : MergeHyp st dst src) :
    nOwn (mergeDir st ci dst src d) < nOwn st := by
  unfold nOwn
  rw [(mergeDir_core st ci dst src d).2.2.1]
  obtain ⟨w, hw, hwb⟩ := hm.osrc
  have hsrclt : src < st.blocks.size := hwb ▸ hI.fresh w hw
  apply filter_len_lt _ _ _ src
  · exact (ownsB_iff st src).2 hm.osrc
  · cases hq : ((List.range (mergeDir st ci dst src d).vars.size).any fun v => blkOf (mergeDir st ci dst src d) v == src) with
    | false => rfl
    | true =>
      exfalso
      rcases owns_mergeDir ((ownsB_iff _ src).1 hq) with h | ⟨_, h⟩
      · exact hm.ne h.symm
      · exact h rfl
  · exact List.mem_range.2 hsrclt
  · intro b hb
    rcases owns_mergeDir ((ownsB_iff _ b).1 hb) with h | ⟨h, _⟩
    · rw [h]; exact (ownsB_iff st dst).2 hm.odst
    · exact (ownsB_iff st b).2 h

theorem mergeLeftStep_nOwn (s : SSt) (r c : Nat) (hI : IC s.st) (hint : internal s.st c = false)
    (hr : blkOf s.st (s.st.cons[c]!).r = r) : nOwn (mergeLeftStep s r c).1.st < nOwn s.st := by
  have hne := internal_false s.st c hint
  rw [mergeLeftStep_st]
  by_cases hsw : blockSize s.st r < blockSize s.st (blkOf s.st (s.st.cons[c]!).l)
  · simp only [hsw, if_true]
    exact nOwn_mergeDir _ _ _ _ _ hI (mergeHyp_of s.st c _ _ hI hne (Or.inr ⟨hr.symm, rfl⟩))
  · simp only [hsw, if_false]
    exact nOwn_mergeDir _ _ _ _ _ hI (mergeHyp_of s.st c _ _ hI hne (Or.inl ⟨rfl, hr.symm⟩))

theorem nOwn_pos (st : St) (b : Nat) (hI : IC st) (ho : Owns st b) : 0 < nOwn st := by
  obtain ⟨w, hw, hwb⟩ := ho
  have hblt : b < st.blocks.size := hwb ▸ hI.fresh w hw
  unfold nOwn
  apply List.length_pos_of_mem (a := b)
  simp only [List.mem_filter, List.mem_range]
  exact ⟨hblt, (ownsB_iff st b).2 ⟨w, hw, hwb⟩⟩

/-- with at least as much fuel as there are owning blocks, the `while` loop of `mergeLeft` ends by itself -/
theorem mergeLeftLoop_total : ∀ (fuel : Nat) (s : SSt) (r : Nat), WF s → Owns s.st r → nOwn s.st ≤ fuel →
    (mergeLeftLoop fuel s r).hs.fuelOut = s.hs.fuelOut ∧ (mergeLeftLoop fuel s r).st.fuelOut = s.st.fuelOut ∧
    (mergeLeftLoop fuel s r).st.blocks.size = s.st.blocks.size ∧ WF (mergeLeftLoop fuel s r)
  | 0, s, r, hw, ho, hle => by
    have := nOwn_pos s.st r hw.ic ho
    omega
  | fuel + 1, s, r, hw, ho, hle => by
    obtain ⟨f1, f2, _, _, f5⟩ := findMinIn_ok s.st s.hs r hw.hin hw.hout
    unfold mergeLeftLoop
    simp only
    split
    · exact ⟨findMinIn_fo _ _ _, rfl, rfl, hw.with_hs f1 f2⟩
    · rename_i c hc
      have hw' : WF { s with hs := (findMinIn s.st s.hs r).1.noteCmp (rawSlack s.st c) } :=
        hw.with_hs (inOK_of_eq f1 (noteCmp_same _ _).1) (outOK_of_eq f2 (noteCmp_same _ _).2)
      split
      · have hint := findMinIn_ext _ _ _ _ hc
        have hr := f5 c hc ho
        have hlt := mergeLeftStep_nOwn { s with hs := (findMinIn s.st s.hs r).1.noteCmp (rawSlack s.st c) } r c hw.ic hint hr
        obtain ⟨a, b, d, e⟩ := mergeLeftLoop_total fuel _ _ (mergeLeftStep_WF _ r c hw' hint hr)
          (mergeLeftStep_owns _ r c hw.ic hint hr) (by
            have : nOwn ({ s with hs := (findMinIn s.st s.hs r).1.noteCmp (rawSlack s.st c) } : SSt).st = nOwn s.st := rfl
            omega)
        refine ⟨a.trans ?_, b.trans ?_, d.trans ?_, e⟩
        · rw [mergeLeftStep_fo]
          show ((findMinIn s.st s.hs r).1.noteCmp (rawSlack s.st c)).fuelOut = s.hs.fuelOut
          rw [noteCmp_fo, findMinIn_fo]
        · rw [mergeLeftStep_st, mergeDir_fuel]
        · rw [mergeLeftStep_st, (mergeDir_core _ _ _ _ _).2.2.1]
      · refine ⟨?_, rfl, rfl, hw'⟩
        show ((findMinIn s.st s.hs r).1.noteCmp (rawSlack s.st c)).fuelOut = s.hs.fuelOut
        rw [noteCmp_fo, findMinIn_fo]

theorem mergeLeft_total (s : SSt) (r : Nat) (hw : WF s) (ho : Owns s.st r)
    (hle : s.st.blocks.size ≤ s.st.cons.size + s.st.vars.size + 2) :
    (mergeLeft s r).hs.fuelOut = s.hs.fuelOut ∧ (mergeLeft s r).st.fuelOut = s.st.fuelOut ∧
    (mergeLeft s r).st.blocks.size = s.st.blocks.size ∧ WF (mergeLeft s r) := by
  rw [mergeLeft_eq]
  have hin0 : InOK s.st (stampL s.hs r) := inOK_of_eq hw.hin rfl
  have hout0 : OutOK s.st (stampL s.hs r) := outOK_of_eq hw.hout rfl
  obtain ⟨a, b⟩ := setUpIn_ok s.st (stampL s.hs r) r hw.ic hw.mem hin0 hout0
  obtain ⟨t1, t2, t3, t4⟩ := mergeLeftLoop_total (loopFuel s.st) { st := s.st, hs := setUpIn s.st (stampL s.hs r) r } r
    ⟨hw.ic, hw.mem, a, b⟩ ho (le_trans (nOwn_le s.st) hle)
  exact ⟨t1.trans (by rw [setUpIn_fo]; rfl), t2, t3, t4⟩

/-! ### `Solver::satisfy` never exhausts the model's fuel -/

/-- the part of the state the fuel argument needs to stay put -/
structure Quiet (s s' : SSt) : Prop where
  hfo : s'.hs.fuelOut = s.hs.fuelOut
  sfo : s'.st.fuelOut = s.st.fuelOut
  bsz : s'.st.blocks.size = s.st.blocks.size
  vsz : s'.st.vars.size = s.st.vars.size
  csz : s'.st.cons.size = s.st.cons.size

theorem Quiet.refl (s : SSt) : Quiet s s := ⟨rfl, rfl, rfl, rfl, rfl⟩
theorem Quiet.trans {a b c : SSt} (h1 : Quiet a b) (h2 : Quiet b c) : Quiet a c :=
  ⟨h2.hfo.trans h1.hfo, h2.sfo.trans h1.sfo, h2.bsz.trans h1.bsz, h2.vsz.trans h1.vsz, h2.csz.trans h1.csz⟩

theorem satisfyStep_total (s : SSt) (v : Nat) (hw : WF s) (hv : v < s.st.vars.size)
    (hle : s.st.blocks.size ≤ s.st.cons.size + s.st.vars.size + 2) :
    Quiet s (satisfyStep s v) ∧ WF (satisfyStep s v) := by
  unfold satisfyStep
  simp only
  split
  · exact ⟨⟨rfl, rfl, rfl, rfl, rfl⟩, hw.with_hs (inOK_of_eq hw.hin rfl) (outOK_of_eq hw.hout rfl)⟩
  · obtain ⟨t1, t2, t3, t4⟩ := mergeLeft_total s (blkOf s.st v) hw ⟨v, hv, rfl⟩ hle
    obtain ⟨f1, f2, _⟩ := mergeLeft_frame s (blkOf s.st v)
    exact ⟨⟨t1, t2, t3, f1, f2⟩, t4⟩

theorem foldl_satisfyStep_total : ∀ (l : List Nat) (s : SSt), WF s → (∀ v ∈ l, v < s.st.vars.size) →
    s.st.blocks.size ≤ s.st.cons.size + s.st.vars.size + 2 →
    Quiet s (l.foldl satisfyStep s) ∧ WF (l.foldl satisfyStep s)
  | [], s, hw, _, _ => ⟨Quiet.refl s, hw⟩
  | v :: rest, s, hw, hl, hle => by
    rw [List.foldl_cons]
    obtain ⟨q, w⟩ := satisfyStep_total s v hw (hl v (by simp)) hle
    obtain ⟨q', w'⟩ := foldl_satisfyStep_total rest _ w
      (fun x hx => by rw [q.vsz]; exact hl x (by simp [hx])) (by rw [q.bsz, q.csz, q.vsz]; exact hle)
    exact ⟨q.trans q', w'⟩

theorem satisfy_total (s : SSt) (hw : WF s) (hle : s.st.blocks.size ≤ s.st.cons.size + s.st.vars.size + 2)
    (h1 : s.hs.fuelOut = false) (h2 : s.st.fuelOut = false) : (s.satisfy).1.bad = false := by
  rw [satisfy_fst]
  have hok := totalOrder_ok s.st hw.ic
  have hcore : (satisfyCore s).hs.fuelOut = false ∧ (satisfyCore s).st.fuelOut = false := by
    unfold satisfyCore SSt.cleanup
    simp only [hok, if_true]
    obtain ⟨q, _⟩ := foldl_satisfyStep_total (totalOrder s.st).1 s hw
      (fun v hv => totalOrder_bound s.st hw.ic v hv) hle
    exact ⟨q.hfo.trans h1, q.sfo.trans h2⟩
  unfold SSt.bad
  simp only
  rw [(show (noteScan (satisfyCore s).st (satisfyCore s).hs).fuelOut = (satisfyCore s).hs.fuelOut from by
    unfold noteScan
    have : ∀ (l : List Nat) (a : HS), (l.foldl (fun hs ci =>
        if rawSlack (satisfyCore s).st ci < 0 then hs.note (rawSlack (satisfyCore s).st ci - ZERO_UPPERBOUND) else hs) a).fuelOut
          = a.fuelOut := by
      intro l
      induction l with
      | nil => intro a; rfl
      | cons c r ih =>
        intro a
        rw [List.foldl_cons, ih]
        split <;> rfl
    exact this _ _), hcore.1, hcore.2]
  rfl

theorem foldl_addConstraint_fuel : ∀ (cs : List Con) (st : St),
    (cs.foldl (fun st c => st.addConstraint c) st).fuelOut = st.fuelOut ∧
    (cs.foldl (fun st c => st.addConstraint c) st).cons.size = st.cons.size + cs.length
  | [], _ => ⟨rfl, rfl⟩
  | c :: rest, st => by
    rw [List.foldl_cons]
    obtain ⟨a, b⟩ := foldl_addConstraint_fuel rest (st.addConstraint c)
    refine ⟨a.trans rfl, b.trans ?_⟩
    have : (st.addConstraint c).cons.size = st.cons.size + 1 := by simp [St.addConstraint, St.linkCon]
    rw [this, List.length_cons]; omega

/-- **`Solver(vs, cs); satisfy()` always terminates within the model's fuel** -/
theorem init_satisfy_total (vs : Array (Rat × Rat × Rat)) (cs : Array Con)
    (hv : ∀ c ∈ cs, c.l < vs.size ∧ c.r < vs.size ∧ c.unsat = false) :
    ((SSt.init vs cs).satisfy).1.bad = false := by
  apply satisfy_total _ (init_WF vs cs hv)
  · show (St.init vs cs).blocks.size ≤ (St.init vs cs).cons.size + (St.init vs cs).vars.size + 2
    unfold St.init
    simp only
    rw [← Array.foldl_toList]
    obtain ⟨fb, fs, _⟩ := foldl_addConstraint_frame cs.toList
      { vars := vs.mapIdx fun i x => ({ desired := x.1, weight := x.2.1, scale := x.2.2, block := i } : Var),
        cons := #[], lm := #[],
        blocks := vs.mapIdx fun i x => ({ vars := #[i], scale := x.2.2, posn := x.1 } : Block),
        order := Array.range vs.size, inactive := #[] }
    rw [fb, fs]
    simp only [Array.size_mapIdx]
    omega
  · rfl
  · show (St.init vs cs).fuelOut = false
    unfold St.init
    simp only
    rw [← Array.foldl_toList, (foldl_addConstraint_fuel _ _).1]

/-! ### the same for `mergeRight` -/

theorem mergeRightPre_fo (s : SSt) (l c : Nat) : (mergeRightPre s l c).fuelOut = s.hs.fuelOut := by
  simp only [mergeRightPre]
  rw [setUpOut_fo]; rfl

theorem mergeRightStep_fo (s : SSt) (l c : Nat) : (mergeRightStep s l c).1.hs.fuelOut = s.hs.fuelOut := by
  simp only [mergeRightStep]
  rw [mergeOut_fo, checkExact_fo, mergeRightPre_fo]

theorem mergeRightStep_nOwn (s : SSt) (l c : Nat) (hI : IC s.st) (hint : internal s.st c = false)
    (hl : blkOf s.st (s.st.cons[c]!).l = l) : nOwn (mergeRightStep s l c).1.st < nOwn s.st := by
  have hne := internal_false s.st c hint
  rw [mergeRightStep_st]
  by_cases hsw : blockSize s.st l > blockSize s.st (blkOf s.st (s.st.cons[c]!).r)
  · simp only [hsw, if_true]
    exact nOwn_mergeDir _ _ _ _ _ hI (mergeHyp_of s.st c _ _ hI hne (Or.inl ⟨hl.symm, rfl⟩))
  · simp only [hsw, if_false]
    exact nOwn_mergeDir _ _ _ _ _ hI (mergeHyp_of s.st c _ _ hI hne (Or.inr ⟨rfl, hl.symm⟩))

/-- with at least as much fuel as there are owning blocks, the `while` loop of `mergeRight` ends by itself -/
theorem mergeRightLoop_total : ∀ (fuel : Nat) (s : SSt) (l : Nat), WF s → Owns s.st l → nOwn s.st ≤ fuel →
    (mergeRightLoop fuel s l).hs.fuelOut = s.hs.fuelOut ∧ (mergeRightLoop fuel s l).st.fuelOut = s.st.fuelOut ∧
    (mergeRightLoop fuel s l).st.blocks.size = s.st.blocks.size ∧ WF (mergeRightLoop fuel s l)
  | 0, s, l, hw, ho, hle => by
    have := nOwn_pos s.st l hw.ic ho
    omega
  | fuel + 1, s, l, hw, ho, hle => by
    obtain ⟨f1, f2, _, _, f5⟩ := findMinOut_ok s.st s.hs l hw.hin hw.hout
    unfold mergeRightLoop
    simp only
    split
    · exact ⟨findMinOut_fo _ _ _, rfl, rfl, hw.with_hs f1 f2⟩
    · rename_i c hc
      have hw' : WF { s with hs := (findMinOut s.st s.hs l).1.noteCmp (rawSlack s.st c) } :=
        hw.with_hs (inOK_of_eq f1 (noteCmp_same _ _).1) (outOK_of_eq f2 (noteCmp_same _ _).2)
      split
      · have hint := findMinOut_ext _ _ _ _ hc
        have hl := f5 c hc ho
        have hlt := mergeRightStep_nOwn { s with hs := (findMinOut s.st s.hs l).1.noteCmp (rawSlack s.st c) } l c hw.ic hint hl
        obtain ⟨a, b, d, e⟩ := mergeRightLoop_total fuel _ _ (mergeRightStep_WF _ l c hw' hint hl)
          (mergeRightStep_owns _ l c hw.ic hint hl) (by
            have : nOwn ({ s with hs := (findMinOut s.st s.hs l).1.noteCmp (rawSlack s.st c) } : SSt).st = nOwn s.st := rfl
            omega)
        refine ⟨a.trans ?_, b.trans ?_, d.trans ?_, e⟩
        · rw [mergeRightStep_fo]
          show ((findMinOut s.st s.hs l).1.noteCmp (rawSlack s.st c)).fuelOut = s.hs.fuelOut
          rw [noteCmp_fo, findMinOut_fo]
        · rw [mergeRightStep_st, mergeDir_fuel]
        · rw [mergeRightStep_st, (mergeDir_core _ _ _ _ _).2.2.1]
      · refine ⟨?_, rfl, rfl, hw'⟩
        show ((findMinOut s.st s.hs l).1.noteCmp (rawSlack s.st c)).fuelOut = s.hs.fuelOut
        rw [noteCmp_fo, findMinOut_fo]

theorem mergeRight_total (s : SSt) (l : Nat) (hw : WF s) (ho : Owns s.st l)
    (hle : s.st.blocks.size ≤ s.st.cons.size + s.st.vars.size + 2) :
    (mergeRight s l).hs.fuelOut = s.hs.fuelOut ∧ (mergeRight s l).st.fuelOut = s.st.fuelOut ∧
    (mergeRight s l).st.blocks.size = s.st.blocks.size ∧ WF (mergeRight s l) := by
  rw [mergeRight_eq]
  obtain ⟨a, b⟩ := setUpOut_ok s.st s.hs l hw.ic hw.mem hw.hin hw.hout
  obtain ⟨t1, t2, t3, t4⟩ := mergeRightLoop_total (loopFuel s.st) { st := s.st, hs := setUpOut s.st s.hs l } l
    ⟨hw.ic, hw.mem, a, b⟩ ho (le_trans (nOwn_le s.st) hle)
  exact ⟨t1.trans (by rw [setUpOut_fo]), t2, t3, t4⟩

/-! ### the number of owning blocks -/

open Classical in
/-- there are at most as many owning blocks as variables -/
theorem nOwn_le_vars (st : St) : nOwn st ≤ st.vars.size := by
  unfold nOwn
  set L := (List.range st.blocks.size).filter fun b => (List.range st.vars.size).any fun v => blkOf st v == b with hL
  have hLnd : L.Nodup := List.Nodup.filter _ List.nodup_range
  have hLo : ∀ b ∈ L, Owns st b := fun b hb => (ownsB_iff st b).1 (List.mem_filter.1 hb).2
  let g : Nat → Nat := fun b => if h : Owns st b then Classical.choose h else 0
  have hg : ∀ b ∈ L, g b < st.vars.size ∧ blkOf st (g b) = b := by
    intro b hb
    have h := hLo b hb
    simp only [g, dif_pos h]
    exact Classical.choose_spec h
  have hinj : ∀ a ∈ L, ∀ b ∈ L, g a = g b → a = b := by
    intro a ha b hb e
    rw [← (hg a ha).2, ← (hg b hb).2, e]
  have hmnd : (L.map g).Nodup := List.Nodup.map_on hinj hLnd
  have hsub : L.map g ⊆ List.range st.vars.size := by
    intro x hx
    obtain ⟨b, hb, rfl⟩ := List.mem_map.1 hx
    exact List.mem_range.2 (hg b hb).1
  have := (List.subperm_of_subset hmnd hsub).length_le
  simpa using this


/-- `mergeLeft` / `mergeRight` from ANY `WF` state (also inside `refine`, where `Blocks::split` has allocated
    new blocks): the fuel `m + n + 2` covers the number of owning blocks, which is at most `n` -/
theorem mergeLeft_total' (s : SSt) (r : Nat) (hw : WF s) (ho : Owns s.st r) :
    (mergeLeft s r).hs.fuelOut = s.hs.fuelOut ∧ (mergeLeft s r).st.fuelOut = s.st.fuelOut ∧ WF (mergeLeft s r) := by
  rw [mergeLeft_eq]
  have hin0 : InOK s.st (stampL s.hs r) := inOK_of_eq hw.hin rfl
  have hout0 : OutOK s.st (stampL s.hs r) := outOK_of_eq hw.hout rfl
  obtain ⟨a, b⟩ := setUpIn_ok s.st (stampL s.hs r) r hw.ic hw.mem hin0 hout0
  obtain ⟨t1, t2, _, t4⟩ := mergeLeftLoop_total (loopFuel s.st) { st := s.st, hs := setUpIn s.st (stampL s.hs r) r } r
    ⟨hw.ic, hw.mem, a, b⟩ ho (le_trans (nOwn_le_vars s.st) (by unfold loopFuel; omega))
  exact ⟨t1.trans (by rw [setUpIn_fo]; rfl), t2, t4⟩

theorem mergeRight_total' (s : SSt) (l : Nat) (hw : WF s) (ho : Owns s.st l) :
    (mergeRight s l).hs.fuelOut = s.hs.fuelOut ∧ (mergeRight s l).st.fuelOut = s.st.fuelOut ∧ WF (mergeRight s l) := by
  rw [mergeRight_eq]
  obtain ⟨a, b⟩ := setUpOut_ok s.st s.hs l hw.ic hw.mem hw.hin hw.hout
  obtain ⟨t1, t2, _, t4⟩ := mergeRightLoop_total (loopFuel s.st) { st := s.st, hs := setUpOut s.st s.hs l } l
    ⟨hw.ic, hw.mem, a, b⟩ ho (le_trans (nOwn_le_vars s.st) (by unfold loopFuel; omega))
  exact ⟨t1.trans (by rw [setUpOut_fo]), t2, t4⟩

/-! ### a feasible start is a fixed point of `satisfy` -/

/-- every constraint holds as the solver evaluates it -/
def AllSat (st : St) : Prop := ∀ ci : Nat, 0 ≤ rawSlack st ci

theorem mergeLeftLoop_idle (fuel : Nat) (s : SSt) (r : Nat) (h : AllSat s.st) (hf : 0 < fuel) :
    (mergeLeftLoop fuel s r).st = s.st ∧ (mergeLeftLoop fuel s r).hs.fuelOut = s.hs.fuelOut := by
  cases fuel with
  | zero => omega
  | succ fuel =>
    unfold mergeLeftLoop
    simp only
    split
    · exact ⟨rfl, findMinIn_fo _ _ _⟩
    · rename_i c hc
      rw [if_neg (not_lt.2 (h c))]
      refine ⟨rfl, ?_⟩
      show ((findMinIn s.st s.hs r).1.noteCmp (rawSlack s.st c)).fuelOut = s.hs.fuelOut
      rw [noteCmp_fo, findMinIn_fo]

theorem mergeLeft_idle (s : SSt) (r : Nat) (h : AllSat s.st) :
    (mergeLeft s r).st = s.st ∧ (mergeLeft s r).hs.fuelOut = s.hs.fuelOut := by
  rw [mergeLeft_eq]
  obtain ⟨a, b⟩ := mergeLeftLoop_idle (loopFuel s.st) { st := s.st, hs := setUpIn s.st (stampL s.hs r) r } r h
    (by unfold loopFuel; omega)
  exact ⟨a, b.trans (by rw [setUpIn_fo]; rfl)⟩

theorem satisfyStep_idle (s : SSt) (v : Nat) (h : AllSat s.st) :
    (satisfyStep s v).st = s.st ∧ (satisfyStep s v).hs.fuelOut = s.hs.fuelOut := by
  unfold satisfyStep
  simp only
  split
  · exact ⟨rfl, rfl⟩
  · exact mergeLeft_idle s _ h

theorem foldl_satisfyStep_idle : ∀ (l : List Nat) (s : SSt), AllSat s.st →
    (l.foldl satisfyStep s).st = s.st ∧ (l.foldl satisfyStep s).hs.fuelOut = s.hs.fuelOut
  | [], _, _ => ⟨rfl, rfl⟩
  | v :: rest, s, h => by
    rw [List.foldl_cons]
    obtain ⟨a, b⟩ := satisfyStep_idle s v h
    obtain ⟨c, d⟩ := foldl_satisfyStep_idle rest (satisfyStep s v) (by rw [a]; exact h)
    exact ⟨c.trans a, d.trans b⟩

/-- if every constraint holds in a state, `satisfy()` merges nothing: it returns normally (given the fuel
    flags are clear and `totalOrder` is total) and the variable / constraint / block arrays are unchanged -/
theorem satisfy_idle (s : SSt) (h : AllSat s.st) (hok : (totalOrder s.st).2 = true)
    (h1 : s.hs.fuelOut = false) (h2 : s.st.fuelOut = false) :
    ∃ s', s.satisfy = (s', .ok s.st.positions (s.st.cons.any (·.active))) ∧ s'.st = s.st.cleanup := by
  have hcore : (satisfyCore s).st = s.st.cleanup ∧ (satisfyCore s).hs.fuelOut = false := by
    unfold satisfyCore SSt.cleanup
    simp only [hok, if_true]
    obtain ⟨a, b⟩ := foldl_satisfyStep_idle (totalOrder s.st).1 s h
    exact ⟨by rw [a], b.trans h1⟩
  have hscan : scanStatic (satisfyCore s).st = true := by
    rw [scanStatic_iff]
    intro ci _
    have : rawSlack (satisfyCore s).st ci = rawSlack s.st ci := by rw [hcore.1]; rfl
    rw [this]
    have := h ci
    unfold ZERO_UPPERBOUND
    linarith
  have hbad : ({ satisfyCore s with hs := noteScan (satisfyCore s).st (satisfyCore s).hs } : SSt).bad = false := by
    unfold SSt.bad
    simp only
    have e1 : (noteScan (satisfyCore s).st (satisfyCore s).hs).fuelOut = (satisfyCore s).hs.fuelOut := by
      unfold noteScan
      have : ∀ (l : List Nat) (a : HS), (l.foldl (fun hs ci =>
          if rawSlack (satisfyCore s).st ci < 0 then hs.note (rawSlack (satisfyCore s).st ci - ZERO_UPPERBOUND) else hs) a).fuelOut
            = a.fuelOut := by
        intro l
        induction l with
        | nil => intro a; rfl
        | cons c r ih => intro a; rw [List.foldl_cons, ih]; split <;> rfl
      exact this _ _
    have e2 : (satisfyCore s).st.fuelOut = false := by rw [hcore.1]; exact h2
    rw [e1, hcore.2, e2]; rfl
  refine ⟨{ satisfyCore s with hs := noteScan (satisfyCore s).st (satisfyCore s).hs }, ?_, hcore.1⟩
  unfold SSt.satisfy
  simp only
  rw [if_neg (by rw [hbad]; simp), if_pos hscan, hcore.1]
  rfl

end AdaptaVerif.Lemmas.VpscStaticMem
