/-
`Block::merge` (model: `St.mergeAcross`) preserves the full block invariant.
-/
import AdaptaVerif.Lemmas.VpscInv
namespace AdaptaVerif.Lemmas.VpscMerge
open AdaptaVerif.Model.Vpsc
open AdaptaVerif.Lemmas.VpscGraph AdaptaVerif.Lemmas.VpscModel AdaptaVerif.Lemmas.VpscHistory
open AdaptaVerif.Lemmas.VpscInv
open AdaptaVerif.Lemmas.VpscFlag (toC)
open Relation

/-! ### setting a flag of one constraint -/

/-- an update of constraint `ci` that keeps everything but the flags -/
def SameData (a b : Con) : Prop := a.l = b.l ∧ a.r = b.r ∧ a.gap = b.gap ∧ a.eq = b.eq

theorem set!_size {α} (xs : Array α) (i : Nat) (v : α) : (xs.set! i v).size = xs.size := by simp

theorem cons_set_get (cons : Array Con) (ci : Nat) (c' : Con) (j : Nat) :
    (cons.set! ci c')[j]! = if ci = j ∧ j < cons.size then c' else cons[j]! := get!_set! _ _ _ _

theorem toC_set (cons : Array Con) (ci : Nat) (c' : Con) (hd : SameData c' (cons[ci]!)) :
    (cons.set! ci c').toList.map toC = cons.toList.map toC := by
  apply List.ext_getElem
  · simp
  · intro n h1 h2
    simp only [List.getElem_map, Array.getElem_toList]
    have hn : n < cons.size := by simpa using h2
    have hn' : n < (cons.set! ci c').size := by simpa using hn
    have e1 : (cons.set! ci c')[n] = (cons.set! ci c')[n]! := (getElem!_pos _ n hn').symm
    have e2 : cons[n] = cons[n]! := (getElem!_pos _ n hn).symm
    rw [e1, e2, cons_set_get]
    split
    · rename_i h
      obtain ⟨rfl, _⟩ := h
      obtain ⟨a, b, c, d⟩ := hd
      simp [toC, a, b, c, d]
    · rfl

/-! ### shiftVars, field by field -/

theorem shiftVars_blk (vars : Array Var) (s d : Nat) (x : Rat) (u : Nat) (hu : u < vars.size) :
    blk (shiftVars vars s d x) u = if blk vars u = s then d else blk vars u := by
  unfold blk
  rw [shiftVars_get _ _ _ _ _ hu]
  by_cases h : (vars[u]!).block = s <;> simp [h]

theorem shiftVars_offs (vars : Array Var) (s d : Nat) (x : Rat) (u : Nat) (hu : u < vars.size) :
    offs (shiftVars vars s d x) u = if blk vars u = s then offs vars u + x else offs vars u := by
  unfold offs blk
  rw [shiftVars_get _ _ _ _ _ hu]
  by_cases h : (vars[u]!).block = s <;> simp [h]

theorem shiftVars_ins (vars : Array Var) (s d : Nat) (x : Rat) (u : Nat) :
    ((shiftVars vars s d x)[u]!).ins = (vars[u]!).ins := by
  by_cases hu : u < vars.size
  · rw [shiftVars_get _ _ _ _ _ hu]
    split <;> rfl
  · have h1 : ¬ u < (shiftVars vars s d x).size := by rw [shiftVars_size]; exact hu
    rw [getElem!_neg _ u h1, getElem!_neg vars u hu]

/-! ### the core of merge: activate `ci`, shift one of the two blocks rigidly into the other -/

theorem merge_core (vars : Array Var) (cons : Array Con) (n : Nat) (ia : Array Nat)
    (h : InvC vars cons n ia) (ci : Nat) (hci : ci < cons.size)
    (hne : blk vars (cons[ci]!).l ≠ blk vars (cons[ci]!).r)
    (src dst : Nat) (d : Rat)
    (hsd : (src = blk vars (cons[ci]!).l ∧ dst = blk vars (cons[ci]!).r ∧
              d = offs vars (cons[ci]!).r - offs vars (cons[ci]!).l - (cons[ci]!).gap) ∨
           (src = blk vars (cons[ci]!).r ∧ dst = blk vars (cons[ci]!).l ∧
              d = -(offs vars (cons[ci]!).r - offs vars (cons[ci]!).l - (cons[ci]!).gap))) :
    InvC (shiftVars vars src dst d) (cons.set! ci { cons[ci]! with active := true }) n ia := by
  -- abbreviations
  have hl : (cons[ci]!).l < vars.size := h.l_lt ci hci
  have hr : (cons[ci]!).r < vars.size := h.r_lt ci hci
  have hsz : (cons.set! ci { cons[ci]! with active := true }).size = cons.size := set!_size _ _ _
  have hvsz : (shiftVars vars src dst d).size = vars.size := shiftVars_size _ _ _ _
  have hget : ∀ j : Nat, j ≠ ci →
      (cons.set! ci { cons[ci]! with active := true })[j]! = cons[j]! := by
    intro j hj
    rw [cons_set_get]
    split
    · rename_i hh; exact absurd hh.1.symm hj
    · rfl
  have hgetci : (cons.set! ci { cons[ci]! with active := true })[ci]! = { cons[ci]! with active := true } := by
    rw [cons_set_get]; simp [hci]
  -- all data fields are unchanged at every index
  have hdata : ∀ j : Nat, SameData ((cons.set! ci { cons[ci]! with active := true })[j]!) (cons[j]!) ∧
      ((cons.set! ci { cons[ci]! with active := true })[j]!).unsat = (cons[j]!).unsat := by
    intro j
    by_cases hj : j = ci
    · subst hj; rw [hgetci]; exact ⟨⟨rfl, rfl, rfl, rfl⟩, rfl⟩
    · rw [hget j hj]; exact ⟨⟨rfl, rfl, rfl, rfl⟩, rfl⟩
  have hactive : ∀ j : Nat, ((cons.set! ci { cons[ci]! with active := true })[j]!).active = true →
      j = ci ∨ (cons[j]!).active = true := by
    intro j ha
    by_cases hj : j = ci
    · exact Or.inl hj
    · rw [hget j hj] at ha; exact Or.inr ha
  -- active edges
  have hae1 : ∀ j x y, AE cons j x y → AE (cons.set! ci { cons[ci]! with active := true }) j x y := by
    intro j x y ⟨h1, h2, h3⟩
    refine ⟨by rw [hsz]; exact h1, ?_, ?_⟩
    · by_cases hj : j = ci
      · subst hj; rw [hgetci]
      · rw [hget j hj]; exact h2
    · rw [(hdata j).1.1, (hdata j).1.2.1]; exact h3
  have hae2 : ∀ j x y, AE (cons.set! ci { cons[ci]! with active := true }) j x y →
      (j ≠ ci ∧ AE cons j x y) ∨
      (j = ci ∧ (((cons[ci]!).l = x ∧ (cons[ci]!).r = y) ∨ ((cons[ci]!).l = y ∧ (cons[ci]!).r = x))) := by
    intro j x y ⟨h1, h2, h3⟩
    rw [(hdata j).1.1, (hdata j).1.2.1] at h3
    by_cases hj : j = ci
    · subst hj; exact Or.inr ⟨rfl, h3⟩
    · rw [hget j hj] at h2
      exact Or.inl ⟨hj, by rw [hsz] at h1; exact h1, h2, h3⟩
  have hreach : ∀ {x y}, Reach cons x y → Reach (cons.set! ci { cons[ci]! with active := true }) x y :=
    fun hxy => reflTransGen_adj_mono (fun j a b hp hj => ⟨hp, hae1 j a b hj⟩) hxy
  have hedge : Reach (cons.set! ci { cons[ci]! with active := true }) (cons[ci]!).l (cons[ci]!).r :=
    ReflTransGen.single ⟨ci, trivial, by rw [hsz]; exact hci, by rw [hgetci], by
      rw [hgetci]; exact Or.inl ⟨rfl, rfl⟩⟩
  -- blocks / offsets after the shift
  have hb : ∀ u, u < vars.size →
      blk (shiftVars vars src dst d) u = if blk vars u = src then dst else blk vars u :=
    fun u hu => shiftVars_blk _ _ _ _ _ hu
  have ho : ∀ u, u < vars.size →
      offs (shiftVars vars src dst d) u = if blk vars u = src then offs vars u + d else offs vars u :=
    fun u hu => shiftVars_offs _ _ _ _ _ hu
  refine
    { outs_sound := ?_, outs_complete := ?_, ins_sound := ?_, ins_complete := ?_, tight := ?_,
      bridge := ?_, conn := ?_, fresh := ?_, cover := ?_, inact_lt := ?_, flags := ?_,
      outs_nodup := fun u => by rw [shiftVars_outs]; exact h.outs_nodup u,
      ins_nodup := fun u => by rw [shiftVars_ins]; exact h.ins_nodup u }
  · intro u j hj
    rw [shiftVars_outs] at hj
    obtain ⟨h1, h2⟩ := h.outs_sound u j hj
    exact ⟨by rw [hsz]; exact h1, by rw [(hdata j).1.1]; exact h2⟩
  · intro j hj
    rw [hsz] at hj
    rw [shiftVars_outs, (hdata j).1.1]
    exact h.outs_complete j hj
  · intro u j hj
    rw [shiftVars_ins] at hj
    obtain ⟨h1, h2⟩ := h.ins_sound u j hj
    exact ⟨by rw [hsz]; exact h1, by rw [(hdata j).1.2.1]; exact h2⟩
  · intro j hj
    rw [hsz] at hj
    rw [shiftVars_ins, (hdata j).1.2.1]
    exact h.ins_complete j hj
  · -- tight
    intro j hj ha
    rw [hsz] at hj
    rw [(hdata j).1.1, (hdata j).1.2.1, (hdata j).1.2.2.1]
    have hjl := h.l_lt j hj
    have hjr := h.r_lt j hj
    rw [hb _ hjl, hb _ hjr, ho _ hjl, ho _ hjr]
    by_cases hjc : j = ci
    · subst hjc
      rcases hsd with ⟨h1, h2, h3⟩ | ⟨h1, h2, h3⟩
      · have hr' : ¬ blk vars (cons[j]!).r = src := by rw [h1]; exact fun e => hne e.symm
        rw [if_pos h1.symm, if_pos h1.symm, if_neg hr', if_neg hr']
        exact ⟨h2, by rw [h3]; ring⟩
      · have hl' : ¬ blk vars (cons[j]!).l = src := by rw [h1]; exact hne
        rw [if_pos h1.symm, if_pos h1.symm, if_neg hl', if_neg hl']
        exact ⟨h2.symm, by rw [h3]; ring⟩
    · rcases hactive j ha with hh | hh
      · exact absurd hh hjc
      · obtain ⟨t1, t2⟩ := h.tight j hj hh
        rw [← t1]
        split
        · exact ⟨rfl, by linarith⟩
        · exact ⟨rfl, t2⟩
  · -- bridge
    intro j hj ha hreachj
    rw [hsz] at hj
    rw [(hdata j).1.1, (hdata j).1.2.1] at hreachj
    by_cases hjc : j = ci
    · subst hjc
      -- avoiding the new edge, only old edges remain: they never leave a block
      have : ReachAvoid cons j (cons[j]!).l (cons[j]!).r :=
        reflTransGen_adj_mono (fun k a b hp hk => by
          rcases hae2 k a b hk with ⟨_, hk'⟩ | ⟨hk', _⟩
          · exact ⟨hp, hk'⟩
          · exact absurd hk' hp) hreachj
      exact hne (h.reach_blk this)
    · have haold : (cons[j]!).active = true := by
        rcases hactive j ha with hh | hh
        · exact absurd hh hjc
        · exact hh
      have hdec := reach_add_edge (R := Adj (fun k => k ≠ j) cons)
        (R' := Adj (fun k => k ≠ j) (cons.set! ci { cons[ci]! with active := true }))
        (l := (cons[ci]!).l) (r := (cons[ci]!).r) (by
          intro a b ⟨k, hp, hk⟩
          rcases hae2 k a b hk with ⟨_, hk'⟩ | ⟨_, hk'⟩
          · exact Or.inl ⟨k, hp, hk'⟩
          · rcases hk' with ⟨rfl, rfl⟩ | ⟨rfl, rfl⟩
            · exact Or.inr (Or.inl ⟨rfl, rfl⟩)
            · exact Or.inr (Or.inr ⟨rfl, rfl⟩)) hreachj
      have hjb := (h.tight j hj haold).1
      rcases hdec with h1 | ⟨h1, h2⟩ | ⟨h1, h2⟩
      · exact h.bridge j hj haold h1
      · have e1 := h.reach_blk h1
        have e2 := h.reach_blk h2
        exact hne (by rw [← e1, hjb, ← e2])
      · have e1 := h.reach_blk h1
        have e2 := h.reach_blk h2
        exact hne (by rw [e2, ← hjb, e1])
  · -- conn
    intro x y hx hy hxy
    rw [hvsz] at hx hy
    rw [hb x hx, hb y hy] at hxy
    by_cases hbxy : blk vars x = blk vars y
    · exact hreach (h.conn x y hx hy hbxy)
    · -- x and y are in the two merged blocks
      have key : (blk vars x = blk vars (cons[ci]!).l ∧ blk vars y = blk vars (cons[ci]!).r) ∨
                 (blk vars x = blk vars (cons[ci]!).r ∧ blk vars y = blk vars (cons[ci]!).l) := by
        rcases hsd with ⟨h1, h2, _⟩ | ⟨h1, h2, _⟩ <;>
        · by_cases hxs : blk vars x = src <;> by_cases hys : blk vars y = src
          · exact absurd (hxs.trans hys.symm) hbxy
          · rw [if_pos hxs, if_neg hys] at hxy
            first
              | exact Or.inl ⟨hxs.trans h1, hxy.symm.trans h2⟩
              | exact Or.inr ⟨hxs.trans h1, hxy.symm.trans h2⟩
          · rw [if_neg hxs, if_pos hys] at hxy
            first
              | exact Or.inr ⟨hxy.trans h2, hys.trans h1⟩
              | exact Or.inl ⟨hxy.trans h2, hys.trans h1⟩
          · rw [if_neg hxs, if_neg hys] at hxy
            exact absurd hxy hbxy
      rcases key with ⟨kx, ky⟩ | ⟨kx, ky⟩
      · exact (hreach (h.conn x _ hx hl kx)).trans (hedge.trans (hreach (h.conn _ y hr hy ky.symm)))
      · exact (hreach (h.conn x _ hx hr kx)).trans
          (hedge.symm.trans (hreach (h.conn _ y hl hy ky.symm)))
  · -- fresh
    intro x hx
    rw [hvsz] at hx
    rw [hb x hx]
    split
    · rcases hsd with ⟨_, h2, _⟩ | ⟨_, h2, _⟩
      · rw [h2]; exact h.fresh _ hr
      · rw [h2]; exact h.fresh _ hl
    · exact h.fresh x hx
  · -- cover
    intro j hj
    rw [hsz] at hj
    by_cases hjc : j = ci
    · subst hjc; left; rw [hgetci]
    · rw [hget j hjc]; exact h.cover j hj
  · intro j hj
    rw [hsz]; exact h.inact_lt j hj
  · intro hineq j hj hun
    rw [hsz] at hj
    rw [(hdata j).2] at hun
    have htc := toC_set cons ci { cons[ci]! with active := true } ⟨rfl, rfl, rfl, rfl⟩
    rw [htc]
    exact h.flags (fun k hk => by
      have := hineq k (by rw [hsz]; exact hk)
      rw [(hdata k).1.2.2.2] at this
      exact this) j hj hun

theorem mergeAcross_frame (st : St) (ci : Nat) :
    (st.mergeAcross ci).1.blocks.size = st.blocks.size ∧
    (st.mergeAcross ci).1.inactive = st.inactive ∧
    (st.mergeAcross ci).1.fuelOut = st.fuelOut := by
  unfold St.mergeAcross
  simp only [St.refreshBlock]
  split <;> simp

/-- **`merge` preserves the invariant** -/
theorem mergeAcross_inv (st : St) (ci : Nat) (h : Inv st) (hci : ci < st.cons.size)
    (hne : blk st.vars (st.cons[ci]!).l ≠ blk st.vars (st.cons[ci]!).r) :
    Inv (st.mergeAcross ci).1 := by
  unfold VpscInv.Inv
  rw [(mergeAcross_frame st ci).1, (mergeAcross_frame st ci).2.1, mergeAcross_cons, mergeAcross_vars]
  simp only
  split
  · exact merge_core _ _ _ _ h ci hci hne _ _ _ (Or.inl ⟨rfl, rfl, rfl⟩)
  · exact merge_core _ _ _ _ h ci hci hne _ _ _ (Or.inr ⟨rfl, rfl, rfl⟩)

end AdaptaVerif.Lemmas.VpscMerge
