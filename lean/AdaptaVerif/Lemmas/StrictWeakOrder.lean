/-
Strict weak orders for the comparators adaptagrams hands to `std::set`, `std::sort`,
`std::list::sort` and the pairing heap (C++ [alg.sorting]: a comparator that is not a strict weak
order is undefined behaviour, and what it treats as equivalent decides which elements a set keeps).

`cmpBy k rest` is the shape almost all of them have: "if the keys differ, compare the keys, else
`rest`".  A chain of `cmpBy` over linearly ordered keys ending in `fun _ _ => false` is a strict
weak order whose equivalence is equality of all keys.  Core Lean only.
-/
namespace AdaptaVerif.Lemmas.SWO

/-- strict weak order, the requirement of C++ `Compare` -/
structure IsSWO {α : Type} (lt : α → α → Bool) : Prop where
  irrefl : ∀ a, lt a a = false
  trans : ∀ a b c, lt a b = true → lt b c = true → lt a c = true
  incomp_trans : ∀ a b c, lt a b = false → lt b a = false → lt b c = false → lt c b = false →
      lt a c = false ∧ lt c a = false

/-- what `std::set` treats as "the same element" -/
def Incomp {α : Type} (lt : α → α → Bool) (a b : α) : Prop := lt a b = false ∧ lt b a = false

theorem IsSWO.asymm {α : Type} {lt : α → α → Bool} (h : IsSWO lt) (a b : α) : lt a b = true → lt b a = false := by
  intro hab
  cases hba : lt b a with
  | false => rfl
  | true => have := h.trans a b a hab hba; rw [h.irrefl] at this; exact absurd this (by simp)

/-- linearly ordered key types (stated without Mathlib so that models stay core-only) -/
class LinKey (κ : Type) [LT κ] [DecidableEq κ] [DecidableLT κ] : Prop where
  irrefl : ∀ a : κ, ¬ a < a
  trans : ∀ a b c : κ, a < b → b < c → a < c
  tri : ∀ a b : κ, a < b ∨ a = b ∨ b < a

instance : LinKey Nat := ⟨by omega, by omega, by omega⟩
instance : LinKey Int := ⟨by omega, by omega, by omega⟩
instance : LinKey Rat := ⟨by grind, by grind, by grind⟩

/-- "if the keys differ compare them, otherwise `rest`" -/
def cmpBy {α κ : Type} [LT κ] [DecidableEq κ] [DecidableLT κ] (k : α → κ) (rest : α → α → Bool) (a b : α) : Bool :=
  if k a ≠ k b then decide (k a < k b) else rest a b

theorem swo_false {α : Type} : IsSWO (fun (_ _ : α) => false) := ⟨by simp, by simp, by simp⟩

theorem incomp_false {α : Type} (a b : α) : Incomp (fun (_ _ : α) => false) a b := ⟨rfl, rfl⟩

theorem swo_cmpBy {α κ : Type} [LT κ] [DecidableEq κ] [DecidableLT κ] [LinKey κ] (k : α → κ) {rest : α → α → Bool}
    (h : IsSWO rest) : IsSWO (cmpBy k rest) := by
  constructor
  · intro a; simp [cmpBy, h.irrefl]
  · intro a b c
    simp only [cmpBy]
    have t1 := LinKey.tri (k a) (k b); have t2 := LinKey.tri (k b) (k c); have t3 := LinKey.tri (k a) (k c)
    have i1 := LinKey.irrefl (k a); have i2 := LinKey.irrefl (k b); have i3 := LinKey.irrefl (k c)
    have tr := @LinKey.trans κ _ _ _ _
    have hr := h.trans a b c
    grind
  · intro a b c
    simp only [cmpBy]
    have t1 := LinKey.tri (k a) (k b); have t2 := LinKey.tri (k b) (k c); have t3 := LinKey.tri (k a) (k c)
    have i1 := LinKey.irrefl (k a); have i2 := LinKey.irrefl (k b); have i3 := LinKey.irrefl (k c)
    have tr := @LinKey.trans κ _ _ _ _
    have hr := h.incomp_trans a b c
    grind

theorem incomp_cmpBy {α κ : Type} [LT κ] [DecidableEq κ] [DecidableLT κ] [LinKey κ] (k : α → κ) (rest : α → α → Bool) (a b : α) :
    Incomp (cmpBy k rest) a b ↔ k a = k b ∧ Incomp rest a b := by
  simp only [Incomp, cmpBy]
  have t1 := LinKey.tri (k a) (k b)
  have i1 := LinKey.irrefl (k a); have i2 := LinKey.irrefl (k b)
  have tr := @LinKey.trans κ _ _ _ _
  grind

/-- a `cmpBy` whose keys differ does not look at `rest` at all -/
theorem cmpBy_of_ne {α κ : Type} [LT κ] [DecidableEq κ] [DecidableLT κ] (k : α → κ) (r1 r2 : α → α → Bool) (a b : α)
    (h : k a ≠ k b) : cmpBy k r1 a b = cmpBy k r2 a b := by
  simp [cmpBy, h]

/-- total on elements with different keys: exactly one of `a<b`, `b<a` -/
theorem cmpBy_total_of_ne {α κ : Type} [LT κ] [DecidableEq κ] [DecidableLT κ] [LinKey κ] (k : α → κ) (rest : α → α → Bool) (a b : α)
    (h : k a ≠ k b) : cmpBy k rest a b = !cmpBy k rest b a := by
  simp only [cmpBy]
  have t1 := LinKey.tri (k a) (k b)
  have i1 := LinKey.irrefl (k a)
  have tr := @LinKey.trans κ _ _ _ _
  grind

end AdaptaVerif.Lemmas.SWO
