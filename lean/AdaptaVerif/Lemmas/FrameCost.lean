/-
C20 helper lemmas: the reverse-direction rule of `cost()` (Model/RouteCost.lean) and the path costs built on it are
the same in every frame (8 symmetries of the square, translations), for ALL source→destination displacements —
zero components included — and all edges.
-/
import AdaptaVerif.Lemmas.FrameRoute
import AdaptaVerif.Model.RouteCost
namespace AdaptaVerif.Lemmas.FrameCost
open AdaptaVerif.Model.Geometry AdaptaVerif.Model.Frame AdaptaVerif.Model.RouteCost
open AdaptaVerif.Lemmas.FrameRoute AdaptaVerif.Lemmas.FrameGeom

theorem dimDir_neg (d : Rat) : dimDir (-d) = - dimDir d := by
  unfold dimDir
  rcases lt_trichotomy d 0 with h | h | h
  · have h1 : 0 < -d := by linarith
    have h2 : ¬ 0 < d := by linarith
    simp [h1, h2, h]
  · subst h; simp
  · have h1 : ¬ 0 < -d := by linarith
    have h2 : -d < 0 := by linarith
    have h3 : ¬ d < 0 := by linarith
    simp [h1, h2, h]

theorem int_aux (x y : Int) : ((-x != 0) && (- -x == -y)) = ((x != 0) && (-x == y)) := by
  apply Bool.eq_iff_iff.mpr
  simp only [Bool.and_eq_true, bne_iff_ne, beq_iff_eq, ne_eq]
  constructor <;> rintro ⟨h1, h2⟩ <;> constructor <;> omega

/-- both the connector's component and the edge's component negated: same verdict -/
theorem axisReverses_neg (a b : Rat) : axisReverses (-a) (-b) = axisReverses a b := by
  unfold axisReverses
  rw [dimDir_neg, dimDir_neg]
  exact int_aux _ _

theorem ar_add (a b c d t : Rat) :
    axisReverses ((a + t) - (b + t)) ((c + t) - (d + t)) = axisReverses (a - b) (c - d) := by
  congr 1 <;> ring

theorem ar_neg_add (a b c d t : Rat) :
    axisReverses ((-a + t) - (-b + t)) ((-c + t) - (-d + t)) = axisReverses (a - b) (c - d) := by
  rw [show (-a + t) - (-b + t) = -(a - b) by ring, show (-c + t) - (-d + t) = -(c - d) by ring, axisReverses_neg]

theorem ar_neg (a b c d : Rat) : axisReverses (-a - -b) (-c - -d) = axisReverses (a - b) (c - d) := by
  rw [show -a - -b = -(a - b) by ring, show -c - -d = -(c - d) by ring, axisReverses_neg]

/-- the rule "this edge heads against the source→destination displacement on an axis on which the displacement is
    not zero" gives the same verdict in every frame -/
theorem reverses_act (F : Frame) (s d p q : Pt) :
    reverses (F.act s) (F.act d) (F.act p) (F.act q) = reverses s d p q := by
  rcases F with ⟨S, t⟩
  cases S <;> simp only [reverses, Frame.act, Sym.apply, ar_add, ar_neg_add, ar_neg] <;>
    first | rfl | exact Bool.or_comm _ _

theorem revEdges_act (F : Frame) (s d : Pt) (r : Route) :
    revEdges (F.act s) (F.act d) (F.actRoute r) = revEdges s d r := by
  unfold Frame.actRoute
  fun_induction revEdges s d r with
  | case1 a b rest ih =>
    simp only [List.map_cons, revEdges, reverses_act] at ih ⊢
    rw [ih]
  | case2 r h =>
    match r, h with
    | [], _ => rfl
    | [a], _ => rfl
    | a :: b :: rest, h => exact absurd rfl (h a b rest)

theorem dropLast_act (F : Frame) (r : Route) : (F.actRoute r).dropLast = F.actRoute r.dropLast := by
  unfold Frame.actRoute
  induction r with
  | nil => rfl
  | cons a r ih =>
    cases r with
    | nil => rfl
    | cons b r => simp only [List.map_cons, List.dropLast_cons₂] at ih ⊢; rw [ih]

theorem penalties_act (F : Frame) (seg rev : Rat) (s d : Pt) (r : Route) :
    penalties seg rev (F.act s) (F.act d) (F.actRoute r) = penalties seg rev s d r := by
  simp only [penalties, bends_act, revEdges_act]

theorem fullPathCost_act (F : Frame) (seg rev : Rat) (s d : Pt) (r : Route) :
    fullPathCost seg rev (F.act s) (F.act d) (F.actRoute r) = fullPathCost seg rev s d r := by
  simp only [fullPathCost, manhattanLen_act, penalties_act]

theorem orthPathCost_act (F : Frame) (seg rev : Rat) (s d : Pt) (r : Route) :
    orthPathCost seg rev (F.act s) (F.act d) (F.actRoute r) = orthPathCost seg rev s d r := by
  simp only [orthPathCost, manhattanLen_act, bends_act, dropLast_act, revEdges_act]

/-- the optimal cost of an orthogonal vertex path, reverse-direction penalty included, is the same in every frame -/
theorem isOptOrthPathCost_act (F : Frame) (seg rev : Rat) (sc : Scene) (s d : Pt) (c : Rat) :
    IsOptOrthPathCost seg rev (F.actScene sc) (F.act s) (F.act d) c ↔ IsOptOrthPathCost seg rev sc s d c := by
  unfold IsOptOrthPathCost
  constructor
  · rintro ⟨⟨r, hv, hc⟩, hmin⟩
    refine ⟨⟨F.inv.actRoute r, ?_, ?_⟩, ?_⟩
    · rw [← orthRouteValid_act F, actRoute_act_inv]; exact hv
    · rw [← orthPathCost_act F, actRoute_act_inv]; exact hc
    · intro r' hv'
      have := hmin (F.actRoute r') ((orthRouteValid_act F sc s d r').2 hv')
      rwa [orthPathCost_act] at this
  · rintro ⟨⟨r, hv, hc⟩, hmin⟩
    refine ⟨⟨F.actRoute r, (orthRouteValid_act F sc s d r).2 hv, by rw [orthPathCost_act]; exact hc⟩, ?_⟩
    intro r' hv'
    have hv'' : OrthRouteValid sc s d (F.inv.actRoute r') := by
      rw [← orthRouteValid_act F, actRoute_act_inv]; exact hv'
    have := hmin _ hv''
    rwa [← orthPathCost_act F, actRoute_act_inv] at this

/-- the order of `dummyLt` on explicit endpoint pairs is lexicographic in the four coordinates, then the address -/
theorem dummyLt_aux (p1 p2 q1 q2 : Pt) (a b : Nat) :
    (if p1 ≠ q1 then ptLt p1 q1 else if p2 ≠ q2 then ptLt p2 q2 else decide (a < b)) =
    (if p1.x ≠ q1.x then decide (p1.x < q1.x) else if p1.y ≠ q1.y then decide (p1.y < q1.y)
     else if p2.x ≠ q2.x then decide (p2.x < q2.x) else if p2.y ≠ q2.y then decide (p2.y < q2.y)
     else if a ≠ b then decide (a < b) else false) := by
  rcases p1 with ⟨a1, b1⟩; rcases p2 with ⟨c1, d1⟩; rcases q1 with ⟨e1, f1⟩; rcases q2 with ⟨g1, h1⟩
  simp only [ptLt, ne_eq, Pt.mk.injEq]
  grind

end AdaptaVerif.Lemmas.FrameCost
