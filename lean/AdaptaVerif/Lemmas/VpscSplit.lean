/-
`Block::split` (model: `St.split`, built on the marking DFS `populateSplit`) preserves the full
block invariant: the two new blocks are exactly the two components of the active tree minus the
removed edge.
-/
import AdaptaVerif.Lemmas.VpscMerge
namespace AdaptaVerif.Lemmas.VpscSplit
open AdaptaVerif.Model.Vpsc
open AdaptaVerif.Lemmas.VpscGraph AdaptaVerif.Lemmas.VpscModel AdaptaVerif.Lemmas.VpscHistory
open AdaptaVerif.Lemmas.VpscInv AdaptaVerif.Lemmas.VpscMerge
open Relation

/-- `b` arises from `a` by moving some variables of block `old` to block `nb`; nothing else changes -/
structure Mono (old nb : Nat) (a b : Array Var) : Prop where
  size : b.size = a.size
  offs : ∀ i : Nat, (b[i]!).offset = (a[i]!).offset
  ins : ∀ i : Nat, (b[i]!).ins = (a[i]!).ins
  outs : ∀ i : Nat, (b[i]!).outs = (a[i]!).outs
  blkc : ∀ i : Nat, blk b i = blk a i ∨ (blk a i = old ∧ blk b i = nb)

theorem Mono.refl (old nb : Nat) (a : Array Var) : Mono old nb a a :=
  ⟨rfl, fun _ => rfl, fun _ => rfl, fun _ => rfl, fun _ => Or.inl rfl⟩

theorem Mono.trans {old nb : Nat} (hnb : nb ≠ old) {a b c : Array Var}
    (h1 : Mono old nb a b) (h2 : Mono old nb b c) : Mono old nb a c := by
  refine ⟨h2.size.trans h1.size, fun i => (h2.offs i).trans (h1.offs i),
    fun i => (h2.ins i).trans (h1.ins i), fun i => (h2.outs i).trans (h1.outs i), fun i => ?_⟩
  rcases h1.blkc i with e1 | ⟨e1, e1'⟩ <;> rcases h2.blkc i with e2 | ⟨e2, e2'⟩
  · exact Or.inl (e2.trans e1)
  · exact Or.inr ⟨e1 ▸ e2, e2'⟩
  · exact Or.inr ⟨e1, e2.trans e1'⟩
  · exact absurd (e1'.symm.trans e2) hnb

/-- a variable that has left block `old` (or never was in it) stays out of it -/
theorem Mono.stay {old nb : Nat} (_hnb : nb ≠ old) {a b : Array Var} (h : Mono old nb a b) {y : Nat}
    (hy : blk a y ≠ old) : blk b y ≠ old := by
  rcases h.blkc y with e | ⟨e, _⟩
  · rw [e]; exact hy
  · exact absurd e hy

theorem Mono.stay_eq {old nb : Nat} {a b : Array Var} (h : Mono old nb a b) {y : Nat}
    (hy : blk a y ≠ old) : blk b y = blk a y := by
  rcases h.blkc y with e | ⟨e, _⟩
  · exact e
  · exact absurd e hy

theorem Mono.stay_nb {old nb : Nat} (hnb : nb ≠ old) {a b : Array Var} (h : Mono old nb a b) {y : Nat}
    (hy : blk a y = nb) : blk b y = nb := by
  rcases h.blkc y with e | ⟨e, _⟩
  · rw [e]; exact hy
  · exact absurd (hy.symm.trans e) hnb

theorem mono_setBlock (old nb : Nat) (vars : Array Var) (v : Nat) (hb : blk vars v = old) :
    Mono old nb vars (vars.set! v { vars[v]! with block := nb }) := by
  refine ⟨by simp, fun i => ?_, fun i => ?_, fun i => ?_, fun i => ?_⟩
  · rw [get!_set!]; split
    · rename_i h; rw [h.1]
    · rfl
  · rw [get!_set!]; split
    · rename_i h; rw [h.1]
    · rfl
  · rw [get!_set!]; split
    · rename_i h; rw [h.1]
    · rfl
  · unfold VpscInv.blk
    rw [get!_set!]; split
    · rename_i h
      obtain ⟨rfl, _⟩ := h
      exact Or.inr ⟨hb, rfl⟩
    · exact Or.inl rfl

theorem blk_setBlock (nb : Nat) (vars : Array Var) (v : Nat) (hv : v < vars.size) :
    blk (vars.set! v { vars[v]! with block := nb }) v = nb := by
  unfold VpscInv.blk
  rw [get!_set!]
  simp [hv]

/-- the `in`/`out` lists agree with the constraint array -/
structure LinkOK (cons : Array Con) (vars : Array Var) : Prop where
  outs_sound : ∀ u j : Nat, j ∈ (vars[u]!).outs → j < cons.size ∧ (cons[j]!).l = u
  outs_complete : ∀ j : Nat, j < cons.size → j ∈ (vars[(cons[j]!).l]!).outs
  ins_sound : ∀ u j : Nat, j ∈ (vars[u]!).ins → j < cons.size ∧ (cons[j]!).r = u
  ins_complete : ∀ j : Nat, j < cons.size → j ∈ (vars[(cons[j]!).r]!).ins

theorem LinkOK.of_mono {cons : Array Con} {old nb : Nat} {a b : Array Var} (hm : Mono old nb a b)
    (h : LinkOK cons a) : LinkOK cons b :=
  ⟨fun u j hj => h.outs_sound u j (by rw [← hm.outs u]; exact hj),
   fun j hj => by rw [hm.outs]; exact h.outs_complete j hj,
   fun u j hj => h.ins_sound u j (by rw [← hm.ins u]; exact hj),
   fun j hj => by rw [hm.ins]; exact h.ins_complete j hj⟩

theorem LinkOK.l_lt {cons : Array Con} {vars : Array Var} (h : LinkOK cons vars) (j : Nat)
    (hj : j < cons.size) : (cons[j]!).l < vars.size := by
  by_contra hlt
  have := h.outs_complete j hj
  rw [getElem!_neg vars _ hlt, default_outs] at this
  simp at this

theorem LinkOK.r_lt {cons : Array Con} {vars : Array Var} (h : LinkOK cons vars) (j : Nat)
    (hj : j < cons.size) : (cons[j]!).r < vars.size := by
  by_contra hlt
  have := h.ins_complete j hj
  rw [getElem!_neg vars _ hlt, default_ins] at this
  simp at this

/-! ### the marking DFS `populateSplit` -/

/-- what one call of `populateSplit` (with `ok = true`) achieves -/
structure PSpec (cons : Array Con) (old nb : Nat) (vars vars' : Array Var) (v : Nat) (u : Option Nat) : Prop where
  mono : Mono old nb vars vars'
  root : blk vars' v = nb
  clos : ∀ i : Nat, blk vars i = old → blk vars' i = nb → ∀ j y : Nat, AE cons j i y →
    (i = v ∧ u = some y) ∨ blk vars' y ≠ old
  snd : ∀ i : Nat, blk vars i = old → blk vars' i = nb → Reach cons v i

/-- invariant of the two neighbour loops of one `populateSplit` call rooted at `v` -/
structure G (cons : Array Con) (old nb : Nat) (vars0 : Array Var) (v : Nat) (vs : Array Var) : Prop where
  mono : Mono old nb vars0 vs
  root : blk vs v = nb
  clos : ∀ i : Nat, i ≠ v → blk vars0 i = old → blk vs i = nb → ∀ j y : Nat, AE cons j i y →
    blk vs y ≠ old
  snd : ∀ i : Nat, blk vars0 i = old → blk vs i = nb → Reach cons v i

/-- one neighbour loop, generic in which end of the constraint is the neighbour -/
def stepF (cons : Array Con) (old nb fuel : Nat) (u : Option Nat) (v : Nat) (far : Con → Nat)
    (x : Array Var × Array Nat × Bool) (ci : Nat) : Array Var × Array Nat × Bool :=
  if (x.1[far cons[ci]!]!.block == old && cons[ci]!.active && u != some (far cons[ci]!)) = true then
    ((populateSplit cons old nb fuel x.1 x.2.1 (far cons[ci]!) (some v)).1,
      (populateSplit cons old nb fuel x.1 x.2.1 (far cons[ci]!) (some v)).2.1,
      x.2.2 && (populateSplit cons old nb fuel x.1 x.2.1 (far cons[ci]!) (some v)).2.2)
  else (x.1, x.2.1, x.2.2)

theorem fold_lemma (cons : Array Con) (old nb : Nat) (hnb : nb ≠ old) (fuel : Nat)
    (ih : ∀ (vars : Array Var) (mem : Array Nat) (v : Nat) (u : Option Nat),
      LinkOK cons vars → v < vars.size → blk vars v = old →
      (populateSplit cons old nb fuel vars mem v u).2.2 = true →
      PSpec cons old nb vars (populateSplit cons old nb fuel vars mem v u).1 v u)
    (vars0 : Array Var) (hlk : LinkOK cons vars0) (v : Nat) (u : Option Nat) (far : Con → Nat)
    (arr : Array Nat)
    (hadj : ∀ ci ∈ arr, (cons[ci]!).active = true →
      AE cons ci v (far (cons[ci]!)) ∧ far (cons[ci]!) < vars0.size)
    (Q : Nat → Prop) (x0 : Array Var × Array Nat × Bool)
    (h0 : x0.2.2 = true → G cons old nb vars0 v x0.1 ∧ ∀ w, Q w → blk x0.1 w ≠ old)
    (hres : (arr.foldl (stepF cons old nb fuel u v far) x0).2.2 = true) :
    G cons old nb vars0 v (arr.foldl (stepF cons old nb fuel u v far) x0).1 ∧
    (∀ w, Q w → blk (arr.foldl (stepF cons old nb fuel u v far) x0).1 w ≠ old) ∧
    (∀ ci ∈ arr, (cons[ci]!).active = true → u ≠ some (far (cons[ci]!)) →
      blk (arr.foldl (stepF cons old nb fuel u v far) x0).1 (far (cons[ci]!)) ≠ old) := by
  have key := Array.foldl_induction
    (motive := fun (k : Nat) (acc : Array Var × Array Nat × Bool) => acc.2.2 = true →
      G cons old nb vars0 v acc.1 ∧ (∀ w, Q w → blk acc.1 w ≠ old) ∧
      (∀ k' : Nat, k' < k → ∀ hk : k' < arr.size, (cons[arr[k']]!).active = true →
        u ≠ some (far (cons[arr[k']]!)) → blk acc.1 (far (cons[arr[k']]!)) ≠ old))
    (as := arr) (init := x0) (f := stepF cons old nb fuel u v far)
    (by
      intro hx
      obtain ⟨g, q⟩ := h0 hx
      exact ⟨g, q, fun k' hk' => absurd hk' (Nat.not_lt_zero _)⟩)
    (by
      intro i acc hm hacc
      unfold stepF at hacc ⊢
      by_cases hg : (acc.1[far cons[arr[i]]!]!.block == old && cons[arr[i]]!.active &&
          u != some (far cons[arr[i]]!)) = true
      · rw [if_pos hg] at hacc ⊢
        simp only [Bool.and_eq_true] at hacc
        obtain ⟨g, q, pf⟩ := hm hacc.1
        simp only [Bool.and_eq_true, beq_iff_eq, bne_iff_ne, ne_eq] at hg
        obtain ⟨⟨hbo, hact⟩, hu⟩ := hg
        obtain ⟨hae, hlt⟩ := hadj arr[i] (Array.getElem_mem i.2) hact
        have hlk' : LinkOK cons acc.1 := hlk.of_mono g.mono
        have sub := ih acc.1 acc.2.1 (far cons[arr[i]]!) (some v) hlk'
          (by rw [g.mono.size]; exact hlt) hbo hacc.2
        refine ⟨⟨Mono.trans hnb g.mono sub.mono, sub.mono.stay_nb hnb g.root, ?_, ?_⟩, ?_, ?_⟩
        · intro x hxv hx0 hx2 j y hjy
          by_cases hx1 : blk acc.1 x = nb
          · exact sub.mono.stay hnb (g.clos x hxv hx0 hx1 j y hjy)
          · have hx1' : blk acc.1 x = old := by
              rcases g.mono.blkc x with e | ⟨_, e⟩
              · rw [e]; exact hx0
              · exact absurd e hx1
            rcases sub.clos x hx1' hx2 j y hjy with ⟨_, hy⟩ | hy
            · have : y = v := by simpa using hy.symm
              subst this
              rw [sub.mono.stay_nb hnb g.root]; exact hnb
            · exact hy
        · intro x hx0 hx2
          by_cases hx1 : blk acc.1 x = nb
          · exact g.snd x hx0 hx1
          · have hx1' : blk acc.1 x = old := by
              rcases g.mono.blkc x with e | ⟨_, e⟩
              · rw [e]; exact hx0
              · exact absurd e hx1
            exact (ReflTransGen.single ⟨arr[i], trivial, hae⟩).trans (sub.snd x hx1' hx2)
        · intro w hw
          exact sub.mono.stay hnb (q w hw)
        · intro k' hk' hk'' ha hu'
          rcases Nat.lt_succ_iff_lt_or_eq.1 hk' with hlt' | heq
          · exact sub.mono.stay hnb (pf k' hlt' hk'' ha hu')
          · subst heq
            exact fun e => hnb (sub.root.symm.trans e)
      · rw [if_neg hg] at hacc ⊢
        obtain ⟨g, q, pf⟩ := hm hacc
        refine ⟨g, q, ?_⟩
        intro k' hk' hk'' ha hu'
        rcases Nat.lt_succ_iff_lt_or_eq.1 hk' with hlt' | heq
        · exact pf k' hlt' hk'' ha hu'
        · subst heq
          intro hbo
          apply hg
          simp only [Bool.and_eq_true, beq_iff_eq, bne_iff_ne, ne_eq]
          exact ⟨⟨hbo, ha⟩, hu'⟩)
  obtain ⟨g, q, pf⟩ := key hres
  refine ⟨g, q, ?_⟩
  intro ci hci ha hu
  obtain ⟨k, hk, rfl⟩ := Array.mem_iff_getElem.1 hci
  exact pf k hk hk ha hu

theorem populateSplit_spec (cons : Array Con) (old nb : Nat) (hnb : nb ≠ old) :
    ∀ (fuel : Nat) (vars : Array Var) (mem : Array Nat) (v : Nat) (u : Option Nat),
      LinkOK cons vars → v < vars.size → blk vars v = old →
      (populateSplit cons old nb fuel vars mem v u).2.2 = true →
      PSpec cons old nb vars (populateSplit cons old nb fuel vars mem v u).1 v u := by
  intro fuel
  induction fuel with
  | zero => intro vars mem v u _ _ _ h; simp [populateSplit] at h
  | succ fuel ih =>
    intro vars mem v u hlk hv hb hok
    unfold populateSplit at hok ⊢
    simp only at hok ⊢
    -- the state after marking `v`
    have g1 : G cons old nb vars v (vars.set! v { vars[v]! with block := nb }) := by
      have hm := mono_setBlock old nb vars v hb
      have hother : ∀ i : Nat, i ≠ v → blk (vars.set! v { vars[v]! with block := nb }) i = blk vars i := by
        intro i hi
        unfold VpscInv.blk
        rw [get!_set!]
        split
        · rename_i hh; exact absurd hh.1.symm hi
        · rfl
      refine ⟨hm, blk_setBlock nb vars v hv, ?_, ?_⟩
      · intro i hi h0 h1
        rw [hother i hi, h0] at h1
        exact absurd h1.symm hnb
      · intro i h0 h1
        by_cases hi : i = v
        · subst hi; exact ReflTransGen.refl
        · rw [hother i hi, h0] at h1
          exact absurd h1.symm hnb
    -- neighbours through `in` constraints
    have hadjIn : ∀ ci ∈ (vars[v]!).ins, (cons[ci]!).active = true →
        AE cons ci v ((fun c : Con => c.l) (cons[ci]!)) ∧ (fun c : Con => c.l) (cons[ci]!) < vars.size := by
      intro ci hci ha
      obtain ⟨h1, h2⟩ := hlk.ins_sound v ci hci
      exact ⟨⟨h1, ha, Or.inr ⟨rfl, h2⟩⟩, hlk.l_lt ci h1⟩
    have hadjOut : ∀ ci ∈ (vars[v]!).outs, (cons[ci]!).active = true →
        AE cons ci v ((fun c : Con => c.r) (cons[ci]!)) ∧ (fun c : Con => c.r) (cons[ci]!) < vars.size := by
      intro ci hci ha
      obtain ⟨h1, h2⟩ := hlk.outs_sound v ci hci
      exact ⟨⟨h1, ha, Or.inl ⟨h2, rfl⟩⟩, hlk.r_lt ci h1⟩
    -- `ok` of the outer loop implies `ok` of the inner one (it only ever gets and-ed)
    have hokIn : ((vars[v]!).ins.foldl (stepF cons old nb fuel u v (fun c => c.l))
        (vars.set! v { vars[v]! with block := nb }, mem.push v, true)).2.2 = true := by
      by_contra hne
      have : ∀ (arr : Array Nat) (x : Array Var × Array Nat × Bool), x.2.2 = false →
          (arr.foldl (stepF cons old nb fuel u v (fun c => c.r)) x).2.2 = false := by
        intro arr x hx
        apply Array.foldl_induction (motive := fun _ (acc : Array Var × Array Nat × Bool) => acc.2.2 = false)
        · exact hx
        · intro i acc hacc
          unfold stepF
          split
          · simp [hacc]
          · exact hacc
      have hf := this (vars[v]!).outs _ ((Bool.not_eq_true _).mp hne)
      have hok' : ((vars[v]!).outs.foldl (stepF cons old nb fuel u v (fun c => c.r))
          ((vars[v]!).ins.foldl (stepF cons old nb fuel u v (fun c => c.l))
            (vars.set! v { vars[v]! with block := nb }, mem.push v, true))).2.2 = true := hok
      exact Bool.noConfusion (hok'.symm.trans hf)
    obtain ⟨gIn, _, pIn⟩ := fold_lemma cons old nb hnb fuel ih vars hlk v u (fun c => c.l)
      (vars[v]!).ins hadjIn (fun _ => False)
      (vars.set! v { vars[v]! with block := nb }, mem.push v, true)
      (fun _ => ⟨g1, fun _ hw => hw.elim⟩) hokIn
    obtain ⟨gOut, qOut, pOut⟩ := fold_lemma cons old nb hnb fuel ih vars hlk v u (fun c => c.r)
      (vars[v]!).outs hadjOut
      (fun w => ∃ ci ∈ (vars[v]!).ins, (cons[ci]!).active = true ∧ u ≠ some (cons[ci]!).l ∧ w = (cons[ci]!).l)
      _ (fun _ => ⟨gIn, fun w ⟨ci, hci, ha, hu, hw⟩ => hw ▸ pIn ci hci ha hu⟩) hok
    refine ⟨gOut.mono, gOut.root, ?_, gOut.snd⟩
    intro i h0 h1 j y hjy
    by_cases hi : i = v
    · subst hi
      by_cases huy : u = some y
      · exact Or.inl ⟨rfl, huy⟩
      · right
        obtain ⟨hj, ha, hends⟩ := hjy
        rcases hends with ⟨hl, hr⟩ | ⟨hl, hr⟩
        · -- j : i → y, so j ∈ outs i
          have hmem := hlk.outs_complete j hj
          rw [hl] at hmem
          have := pOut j hmem ha (by rw [hr]; exact huy)
          rw [hr] at this
          exact this
        · have hmem := hlk.ins_complete j hj
          rw [hr] at hmem
          exact qOut y ⟨j, hmem, ha, by rw [hl]; exact huy, hl.symm⟩
    · exact Or.inr (gOut.clos i hi h0 h1 j y hjy)

/-! ### the core of split -/

theorem split_core (vars : Array Var) (cons : Array Con) (n : Nat) (ia : Array Nat)
    (h : InvC vars cons n ia) (ci : Nat) (hci : ci < cons.size) (hact : (cons[ci]!).active = true)
    (fuel : Nat) (m1 m2 : Array Nat)
    (hok1 : (populateSplit (cons.set! ci { cons[ci]! with active := false })
      (blk vars (cons[ci]!).l) n fuel vars m1 (cons[ci]!).l (some (cons[ci]!).r)).2.2 = true)
    (hok2 : (populateSplit (cons.set! ci { cons[ci]! with active := false })
      (blk vars (cons[ci]!).l) (n + 1) fuel
      (populateSplit (cons.set! ci { cons[ci]! with active := false })
        (blk vars (cons[ci]!).l) n fuel vars m1 (cons[ci]!).l (some (cons[ci]!).r)).1
      m2 (cons[ci]!).r (some (cons[ci]!).l)).2.2 = true) :
    InvC
      (populateSplit (cons.set! ci { cons[ci]! with active := false })
        (blk vars (cons[ci]!).l) (n + 1) fuel
        (populateSplit (cons.set! ci { cons[ci]! with active := false })
          (blk vars (cons[ci]!).l) n fuel vars m1 (cons[ci]!).l (some (cons[ci]!).r)).1
        m2 (cons[ci]!).r (some (cons[ci]!).l)).1
      (cons.set! ci { cons[ci]! with active := false }) (n + 2) (ia.push ci) ∧
    (∀ x, ReachAvoid cons ci (cons[ci]!).l x →
      blk (populateSplit (cons.set! ci { cons[ci]! with active := false })
        (blk vars (cons[ci]!).l) (n + 1) fuel
        (populateSplit (cons.set! ci { cons[ci]! with active := false })
          (blk vars (cons[ci]!).l) n fuel vars m1 (cons[ci]!).l (some (cons[ci]!).r)).1
        m2 (cons[ci]!).r (some (cons[ci]!).l)).1 x = n) ∧
    (∀ x, ReachAvoid cons ci (cons[ci]!).r x →
      blk (populateSplit (cons.set! ci { cons[ci]! with active := false })
        (blk vars (cons[ci]!).l) (n + 1) fuel
        (populateSplit (cons.set! ci { cons[ci]! with active := false })
          (blk vars (cons[ci]!).l) n fuel vars m1 (cons[ci]!).l (some (cons[ci]!).r)).1
        m2 (cons[ci]!).r (some (cons[ci]!).l)).1 x = n + 1) := by
  -- names
  generalize hcons1 : cons.set! ci { cons[ci]! with active := false } = cons1 at *
  generalize hold : blk vars (cons[ci]!).l = old at *
  generalize hl0 : (cons[ci]!).l = l at *
  generalize hr0 : (cons[ci]!).r = r at *
  generalize hv1 : (populateSplit cons1 old n fuel vars m1 l (some r)).1 = vars1 at *
  generalize hv2 : (populateSplit cons1 old (n + 1) fuel vars1 m2 r (some l)).1 = vars2 at *
  have hl : l < vars.size := hl0 ▸ h.l_lt ci hci
  have hr : r < vars.size := hr0 ▸ h.r_lt ci hci
  have hbr : blk vars r = old := by
    have := (h.tight ci hci hact).1
    rw [hl0, hr0, hold] at this
    exact this.symm
  have hbridge : ¬ ReachAvoid cons ci l r := by
    have := h.bridge ci hci hact
    rwa [hl0, hr0] at this
  have holdlt : old < n := hold ▸ h.fresh l hl
  have hn1 : n ≠ old := by omega
  have hn2 : n + 1 ≠ old := by omega
  -- the constraint array after deactivating `ci`
  have hsz : cons1.size = cons.size := by rw [← hcons1]; exact set!_size _ _ _
  have hget : ∀ j : Nat, j ≠ ci → cons1[j]! = cons[j]! := by
    intro j hj
    rw [← hcons1, cons_set_get]
    split
    · rename_i hh; exact absurd hh.1.symm hj
    · rfl
  have hgetci : cons1[ci]! = { cons[ci]! with active := false } := by
    rw [← hcons1, cons_set_get]; simp [hci]
  have hdata : ∀ j : Nat, SameData (cons1[j]!) (cons[j]!) ∧ (cons1[j]!).unsat = (cons[j]!).unsat := by
    intro j
    by_cases hj : j = ci
    · subst hj; rw [hgetci]; exact ⟨⟨rfl, rfl, rfl, rfl⟩, rfl⟩
    · rw [hget j hj]; exact ⟨⟨rfl, rfl, rfl, rfl⟩, rfl⟩
  have hae : ∀ j x y, AE cons1 j x y ↔ (j ≠ ci ∧ AE cons j x y) := by
    intro j x y
    constructor
    · rintro ⟨h1, h2, h3⟩
      have hj : j ≠ ci := by
        rintro rfl
        rw [hgetci] at h2
        simp at h2
      rw [hget j hj] at h2 h3
      exact ⟨hj, by rw [hsz] at h1; exact h1, h2, h3⟩
    · rintro ⟨hj, h1, h2, h3⟩
      exact ⟨by rw [hsz]; exact h1, by rw [hget j hj]; exact h2, by rw [hget j hj]; exact h3⟩
  have hreach1 : ∀ {x y}, Reach cons1 x y → ReachAvoid cons ci x y :=
    fun hxy => reflTransGen_adj_mono (fun j a b _ hj => ⟨((hae j a b).1 hj).1, ((hae j a b).1 hj).2⟩) hxy
  have hreach1' : ∀ {x y}, Reach cons1 x y → Reach cons x y := fun hxy => (hreach1 hxy).toReach
  -- an edge of the new graph never joins l and r
  have hnolr : ∀ j, ¬ AE cons1 j l r := by
    intro j hj
    obtain ⟨hjc, hj'⟩ := (hae j l r).1 hj
    exact hbridge (ReflTransGen.single ⟨j, hjc, hj'⟩)
  have hlk : LinkOK cons1 vars :=
    ⟨fun u j hj => by
        obtain ⟨a, b⟩ := h.outs_sound u j hj
        exact ⟨by rw [hsz]; exact a, by rw [(hdata j).1.1]; exact b⟩,
     fun j hj => by rw [(hdata j).1.1]; exact h.outs_complete j (by rw [hsz] at hj; exact hj),
     fun u j hj => by
        obtain ⟨a, b⟩ := h.ins_sound u j hj
        exact ⟨by rw [hsz]; exact a, by rw [(hdata j).1.2.1]; exact b⟩,
     fun j hj => by rw [(hdata j).1.2.1]; exact h.ins_complete j (by rw [hsz] at hj; exact hj)⟩
  -- the two passes
  have s1 : PSpec cons1 old n vars vars1 l (some r) := by
    have := populateSplit_spec cons1 old n hn1 fuel vars m1 l (some r) hlk hl hold hok1
    rwa [hv1] at this
  have hr1 : blk vars1 r = old := by
    rcases s1.mono.blkc r with e | ⟨_, e⟩
    · rw [e]; exact hbr
    · exact absurd (hreach1 (s1.snd r hbr e)) hbridge
  have hlk1 : LinkOK cons1 vars1 := hlk.of_mono s1.mono
  have s2 : PSpec cons1 old (n + 1) vars1 vars2 r (some l) := by
    have := populateSplit_spec cons1 old (n + 1) hn2 fuel vars1 m2 r (some l) hlk1
      (by rw [s1.mono.size]; exact hr) hr1 hok2
    rwa [hv2] at this
  have hsize2 : vars2.size = vars.size := s2.mono.size.trans s1.mono.size
  -- in-range endpoints
  have hends : ∀ {j x y}, AE cons1 j x y → x < vars.size ∧ y < vars.size := by
    intro j x y hj
    obtain ⟨_, h1, _, h3⟩ := (hae j x y).1 hj
    rcases h3 with ⟨rfl, rfl⟩ | ⟨rfl, rfl⟩
    · exact ⟨h.l_lt j h1, h.r_lt j h1⟩
    · exact ⟨h.r_lt j h1, h.l_lt j h1⟩
  have hblk0 : ∀ {j x y}, AE cons1 j x y → blk vars x = blk vars y :=
    fun hj => h.ae_blk ((hae _ _ _).1 hj).2
  -- classification of the final block of a variable
  have hlid1 : ∀ x, x < vars.size → blk vars1 x = n → blk vars x = old := by
    intro x hx e
    rcases s1.mono.blkc x with e' | ⟨e', _⟩
    · have := h.fresh x hx
      omega
    · exact e'
  -- pass 1 is closed along edges
  have hstep1 : ∀ {j a b}, AE cons1 j a b → blk vars1 a = n → blk vars1 b = n := by
    intro j a b hj ha
    have ha0 := hlid1 a (hends hj).1 ha
    rcases s1.clos a ha0 ha j b hj with ⟨rfl, hb⟩ | hb
    · have : b = r := by simpa using hb.symm
      subst this
      exact absurd hj (hnolr j)
    · rcases s1.mono.blkc b with e | ⟨_, e⟩
      · rw [e, ← hblk0 hj, ha0] at hb
        exact absurd rfl hb
      · exact e
  have hrid2 : ∀ x, x < vars.size → blk vars2 x = n + 1 → blk vars1 x = old := by
    intro x hx e
    rcases s2.mono.blkc x with e' | ⟨e', _⟩
    · rcases s1.mono.blkc x with e'' | ⟨_, e''⟩
      · have := h.fresh x hx
        omega
      · omega
    · exact e'
  have hl1 : blk vars1 l = n := s1.root
  have hstep2 : ∀ {j a b}, AE cons1 j a b → blk vars2 a = n + 1 → blk vars2 b = n + 1 := by
    intro j a b hj ha
    have ha1 := hrid2 a (hends hj).1 ha
    have hb1 : blk vars1 b = old := by
      rcases s1.mono.blkc b with e | ⟨_, e⟩
      · rw [e, ← hblk0 hj]
        rcases s1.mono.blkc a with e2 | ⟨e2, _⟩
        · rw [← e2]; exact ha1
        · exact e2
      · have := hstep1 hj.symm e
        omega
    rcases s2.clos a ha1 ha j b hj with ⟨rfl, hb⟩ | hb
    · have : b = l := by simpa using hb.symm
      subst this
      omega
    · rcases s2.mono.blkc b with e | ⟨_, e⟩
      · rw [e] at hb
        exact absurd hb1 hb
      · exact e
  -- completeness: everything reachable from l (resp. r) is moved
  have hcomp1 : ∀ {x}, Reach cons1 l x → blk vars1 x = n := by
    intro x hx
    induction hx with
    | refl => exact hl1
    | tail _ hbc ih =>
      obtain ⟨j, _, hj⟩ := hbc
      exact hstep1 hj ih
  have hcomp2 : ∀ {x}, Reach cons1 r x → blk vars2 x = n + 1 := by
    intro x hx
    induction hx with
    | refl => exact s2.root
    | tail _ hbc ih =>
      obtain ⟨j, _, hj⟩ := hbc
      exact hstep2 hj ih
  -- old reachability splits along the removed edge
  have hdecomp : ∀ {x y}, Reach cons x y →
      Reach cons1 x y ∨ (Reach cons1 x l ∧ Reach cons1 r y) ∨ (Reach cons1 x r ∧ Reach cons1 l y) := by
    intro x y hxy
    refine reach_add_edge (R := Adj (fun _ => True) cons1) (R' := Adj (fun _ => True) cons)
      (l := l) (r := r) ?_ hxy
    intro a b ⟨j, _, hj⟩
    by_cases hjc : j = ci
    · subst hjc
      obtain ⟨_, _, h3⟩ := hj
      rw [hl0, hr0] at h3
      rcases h3 with ⟨rfl, rfl⟩ | ⟨rfl, rfl⟩
      · exact Or.inr (Or.inl ⟨rfl, rfl⟩)
      · exact Or.inr (Or.inr ⟨rfl, rfl⟩)
    · exact Or.inl ⟨j, trivial, (hae j a b).2 ⟨hjc, hj⟩⟩
  have hnoleft : ∀ x, x < vars.size → blk vars x = old → blk vars2 x = n ∨ blk vars2 x = n + 1 := by
    intro x hx hxo
    have hlx : Reach cons l x := h.conn l x hl hx (hold.trans hxo.symm)
    rcases hdecomp hlx with h1 | ⟨_, h2⟩ | ⟨h1, _⟩
    · left
      have := hcomp1 h1
      rw [s2.mono.stay_eq (by rw [this]; exact hn1), this]
    · right; exact hcomp2 h2
    · exact absurd (hreach1 h1) hbridge
  have hfinal : ∀ x, x < vars.size →
      (blk vars x ≠ old ∧ blk vars2 x = blk vars x) ∨
      (blk vars x = old ∧ (blk vars2 x = n ∨ blk vars2 x = n + 1)) := by
    intro x hx
    by_cases hxo : blk vars x = old
    · exact Or.inr ⟨hxo, hnoleft x hx hxo⟩
    · left
      have e1 := s1.mono.stay_eq hxo
      have e2 := s2.mono.stay_eq (by rw [e1]; exact hxo)
      exact ⟨hxo, e2.trans e1⟩
  have hn_back : ∀ x, blk vars2 x = n → blk vars1 x = n := by
    intro x e
    rcases s2.mono.blkc x with e' | ⟨_, e'⟩
    · rw [← e']; exact e
    · omega
  have hoffs : ∀ x, offs vars2 x = offs vars x := fun x => (s2.mono.offs x).trans (s1.mono.offs x)
  have hactive : ∀ j : Nat, (cons1[j]!).active = true → j ≠ ci ∧ (cons[j]!).active = true := by
    intro j ha
    have hj : j ≠ ci := by
      rintro rfl
      rw [hgetci] at ha
      simp at ha
    rw [hget j hj] at ha
    exact ⟨hj, ha⟩
  have hlkf : LinkOK cons1 vars2 := hlk1.of_mono s2.mono
  have hreach1c : ∀ {x y}, ReachAvoid cons ci x y → Reach cons1 x y :=
    fun hxy => reflTransGen_adj_mono (fun j a b hp hj => ⟨trivial, (hae j a b).2 ⟨hp, hj⟩⟩) hxy
  refine ⟨?_, fun x hx => by
      have := hcomp1 (hreach1c hx)
      rw [s2.mono.stay_eq (by rw [this]; exact hn1), this],
    fun x hx => hcomp2 (hreach1c hx)⟩
  refine
    { outs_sound := hlkf.outs_sound, outs_complete := hlkf.outs_complete,
      ins_sound := hlkf.ins_sound, ins_complete := hlkf.ins_complete, tight := ?_,
      bridge := ?_, conn := ?_, fresh := ?_, cover := ?_, inact_lt := ?_, flags := ?_,
      outs_nodup := fun u => by rw [s2.mono.outs, s1.mono.outs]; exact h.outs_nodup u,
      ins_nodup := fun u => by rw [s2.mono.ins, s1.mono.ins]; exact h.ins_nodup u }
  · -- tight
    intro j hj ha
    rw [hsz] at hj
    obtain ⟨hjc, ha0⟩ := hactive j ha
    rw [hget j hjc]
    obtain ⟨t1, t2⟩ := h.tight j hj ha0
    refine ⟨?_, by rw [hoffs, hoffs]; exact t2⟩
    have haej : AE cons1 j (cons[j]!).l (cons[j]!).r :=
      (hae _ _ _).2 ⟨hjc, hj, ha0, Or.inl ⟨rfl, rfl⟩⟩
    rcases hfinal _ (h.l_lt j hj) with ⟨a1, a2⟩ | ⟨a1, a2⟩
    · have b1 : blk vars (cons[j]!).r ≠ old := by rw [← t1]; exact a1
      rcases hfinal _ (h.r_lt j hj) with ⟨_, b2⟩ | ⟨b2, _⟩
      · rw [a2, b2]; exact t1
      · exact absurd b2 b1
    · rcases a2 with a2 | a2
      · have := hstep1 haej (hn_back _ a2)
        rw [a2, s2.mono.stay_eq (by rw [this]; exact hn1), this]
      · rw [a2, hstep2 haej a2]
  · -- bridge
    intro j hj ha hre
    rw [hsz] at hj
    obtain ⟨hjc, ha0⟩ := hactive j ha
    rw [hget j hjc] at hre
    exact h.bridge j hj ha0
      (reflTransGen_adj_mono (fun k a b hp hk => ⟨hp, ((hae k a b).1 hk).2⟩) hre)
  · -- conn
    intro x y hx hy hxy
    rw [hsize2] at hx hy
    rcases hfinal x hx with ⟨a1, a2⟩ | ⟨a1, a2⟩
    · rcases hfinal y hy with ⟨b1, b2⟩ | ⟨_, b2⟩
      · have hxy0 : blk vars x = blk vars y := by rw [← a2, ← b2]; exact hxy
        rcases hdecomp (h.conn x y hx hy hxy0) with h1 | ⟨h1, _⟩ | ⟨h1, _⟩
        · exact h1
        · exact absurd ((h.reach_blk (hreach1' h1)).trans hold) a1
        · exact absurd ((h.reach_blk (hreach1' h1)).trans hbr) a1
      · have := h.fresh x hx
        rw [a2] at hxy
        omega
    · rcases hfinal y hy with ⟨_, b2⟩ | ⟨b1, b2⟩
      · have := h.fresh y hy
        rw [b2] at hxy
        omega
      · rcases a2 with a2 | a2
        · have hy2 : blk vars2 y = n := by rw [← hxy]; exact a2
          have rx := s1.snd x a1 (hn_back _ a2)
          have ry := s1.snd y b1 (hn_back _ hy2)
          exact rx.symm.trans ry
        · have hy2 : blk vars2 y = n + 1 := by rw [← hxy]; exact a2
          have rx := s2.snd x (hrid2 x hx a2) a2
          have ry := s2.snd y (hrid2 y hy hy2) hy2
          exact rx.symm.trans ry
  · -- fresh
    intro x hx
    rw [hsize2] at hx
    rcases hfinal x hx with ⟨_, a2⟩ | ⟨_, a2 | a2⟩
    · have := h.fresh x hx
      omega
    · omega
    · omega
  · -- cover
    intro j hj
    rw [hsz] at hj
    by_cases hjc : j = ci
    · exact Or.inr (Or.inr (Array.mem_push.2 (Or.inr hjc)))
    · rw [hget j hjc]
      rcases h.cover j hj with c1 | c1 | c1
      · exact Or.inl c1
      · exact Or.inr (Or.inl c1)
      · exact Or.inr (Or.inr (Array.mem_push.2 (Or.inl c1)))
  · intro j hj
    rw [hsz]
    rcases Array.mem_push.1 hj with h1 | rfl
    · exact h.inact_lt j h1
    · exact hci
  · intro hineq j hj hun
    rw [hsz] at hj
    rw [(hdata j).2] at hun
    have htc := toC_set cons ci { cons[ci]! with active := false } ⟨rfl, rfl, rfl, rfl⟩
    rw [← hcons1, htc]
    exact h.flags (fun k hk => by
      have := hineq k (by rw [hsz]; exact hk)
      rw [(hdata k).1.2.2.2] at this
      exact this) j hj hun

/-! ### `St.split` -/

theorem split_frame (st : St) (old ci : Nat) :
    (st.split old ci).1.inactive = st.inactive ∧
    ((st.split old ci).1.fuelOut = false → st.fuelOut = false) ∧
    (st.split old ci).1.order = st.order := by
  unfold St.split
  simp only [St.refreshBlock]
  refine ⟨trivial, ?_, trivial⟩
  intro hf
  simp only [Bool.or_eq_false_iff] at hf
  exact hf.1.1

/-- **`split` preserves the invariant** (once the split constraint is put back on the `inactive`
    list, as all callers do), provided the two traversals did not run out of fuel -/
theorem split_inv (st : St) (ci : Nat) (h : Inv st) (hci : ci < st.cons.size)
    (hact : (st.cons[ci]!).active = true)
    (hfo : (st.split (blk st.vars (st.cons[ci]!).l) ci).1.fuelOut = false) :
    InvC (st.split (blk st.vars (st.cons[ci]!).l) ci).1.vars
      (st.split (blk st.vars (st.cons[ci]!).l) ci).1.cons
      (st.split (blk st.vars (st.cons[ci]!).l) ci).1.blocks.size
      (st.inactive.push ci) := by
  unfold St.split at hfo ⊢
  simp only [St.refreshBlock] at hfo ⊢
  simp only [Bool.or_eq_false_iff, Bool.not_eq_false'] at hfo
  obtain ⟨⟨_, hok1⟩, hok2⟩ := hfo
  have := (split_core st.vars st.cons st.blocks.size st.inactive h ci hci hact (st.vars.size + 1) #[] #[]
    hok1 hok2).1
  simpa using this

end AdaptaVerif.Lemmas.VpscSplit
