/-
`Block::split` (model: `St.split`, built on the marking DFS `populateSplit`) preserves the full
block invariant: the two new blocks are exactly the two components of the active tree minus the
removed edge.
-/
import AdaptaVerif.Lemmas.VpscMerge
namespace AdaptaVerif.Lemmas.VpscSplit
open AdaptaVerif.Model.Vpsc
open AdaptaVerif.Lemmas.VpscGraph AdaptaVerif.Lemmas.VpscModel AdaptaVerif.Lemmas.VpscHistory
open AdaptaVerif.Lemmas.VpscInv AdaptaVerif.Lemmas.VpscMerge
open Relation

/-- `b` arises from `a` by moving some variables of block `old` to block `nb`; nothing else changes -/
structure Mono (old nb : Nat) (a b : Array Var) : Prop where
  size : b.size = a.size
  offs : ∀ i : Nat, (b[i]!).offset = (a[i]!).offset
  ins : ∀ i : Nat, (b[i]!).ins = (a[i]!).ins
  outs : ∀ i : Nat, (b[i]!).outs = (a[i]!).outs
  blkc : ∀ i : Nat, blk b i = blk a i ∨ (blk a i = old ∧ blk b i = nb)

theorem Mono.refl (old nb : Nat) (a : Array Var) : Mono old nb a a :=
  ⟨rfl, fun _ => rfl, fun _ => rfl, fun _ => rfl, fun _ => Or.inl rfl⟩

theorem Mono.trans {old nb : Nat} (hnb : nb ≠ old) {a b c : Array Var}
    (h1 : Mono old nb a b) (h2 : Mono old nb b c) : Mono old nb a c := by
  refine ⟨h2.size.trans h1.size, fun i => (h2.offs i).trans (h1.offs i),
    fun i => (h2.ins i).trans (h1.ins i), fun i => (h2.outs i).trans (h1.outs i), fun i => ?_⟩
  rcases h1.blkc i with e1 | ⟨e1, e1'⟩ <;> rcases h2.blkc i with e2 | ⟨e2, e2'⟩
  · exact Or.inl (e2.trans e1)
  · exact Or.inr ⟨e1 ▸ e2, e2'⟩
  · exact Or.inr ⟨e1, e2.trans e1'⟩
  · exact absurd (e1'.symm.trans e2) hnb

/-- a variable that has left block `old` (or never was in it) stays out of it -/
theorem Mono.stay {old nb : Nat} (hnb : nb ≠ old) {a b : Array Var} (h : Mono old nb a b) {y : Nat}
    (hy : blk a y ≠ old) : blk b y ≠ old := by
  rcases h.blkc y with e | ⟨e, _⟩
  · rw [e]; exact hy
  · exact absurd e hy

theorem Mono.stay_nb {old nb : Nat} (hnb : nb ≠ old) {a b : Array Var} (h : Mono old nb a b) {y : Nat}
    (hy : blk a y = nb) : blk b y = nb := by
  rcases h.blkc y with e | ⟨e, _⟩
  · rw [e]; exact hy
  · exact absurd (hy.symm.trans e) hnb

theorem mono_setBlock (old nb : Nat) (vars : Array Var) (v : Nat) (hb : blk vars v = old) :
    Mono old nb vars (vars.set! v { vars[v]! with block := nb }) := by
  refine ⟨by simp, fun i => ?_, fun i => ?_, fun i => ?_, fun i => ?_⟩
  · rw [get!_set!]; split
    · rename_i h; rw [h.1]
    · rfl
  · rw [get!_set!]; split
    · rename_i h; rw [h.1]
    · rfl
  · rw [get!_set!]; split
    · rename_i h; rw [h.1]
    · rfl
  · unfold VpscInv.blk
    rw [get!_set!]; split
    · rename_i h
      obtain ⟨rfl, _⟩ := h
      exact Or.inr ⟨hb, rfl⟩
    · exact Or.inl rfl

theorem blk_setBlock (nb : Nat) (vars : Array Var) (v : Nat) (hv : v < vars.size) :
    blk (vars.set! v { vars[v]! with block := nb }) v = nb := by
  unfold VpscInv.blk
  rw [get!_set!]
  simp [hv]

/-- the `in`/`out` lists agree with the constraint array -/
structure LinkOK (cons : Array Con) (vars : Array Var) : Prop where
  outs_sound : ∀ u j : Nat, j ∈ (vars[u]!).outs → j < cons.size ∧ (cons[j]!).l = u
  outs_complete : ∀ j : Nat, j < cons.size → j ∈ (vars[(cons[j]!).l]!).outs
  ins_sound : ∀ u j : Nat, j ∈ (vars[u]!).ins → j < cons.size ∧ (cons[j]!).r = u
  ins_complete : ∀ j : Nat, j < cons.size → j ∈ (vars[(cons[j]!).r]!).ins

theorem LinkOK.of_mono {cons : Array Con} {old nb : Nat} {a b : Array Var} (hm : Mono old nb a b)
    (h : LinkOK cons a) : LinkOK cons b :=
  ⟨fun u j hj => h.outs_sound u j (by rw [← hm.outs u]; exact hj),
   fun j hj => by rw [hm.outs]; exact h.outs_complete j hj,
   fun u j hj => h.ins_sound u j (by rw [← hm.ins u]; exact hj),
   fun j hj => by rw [hm.ins]; exact h.ins_complete j hj⟩

theorem LinkOK.l_lt {cons : Array Con} {vars : Array Var} (h : LinkOK cons vars) (j : Nat)
    (hj : j < cons.size) : (cons[j]!).l < vars.size := by
  by_contra hlt
  have := h.outs_complete j hj
  rw [getElem!_neg vars _ hlt, default_outs] at this
  simp at this

theorem LinkOK.r_lt {cons : Array Con} {vars : Array Var} (h : LinkOK cons vars) (j : Nat)
    (hj : j < cons.size) : (cons[j]!).r < vars.size := by
  by_contra hlt
  have := h.ins_complete j hj
  rw [getElem!_neg vars _ hlt, default_ins] at this
  simp at this

/-! ### the marking DFS `populateSplit` -/

/-- what one call of `populateSplit` (with `ok = true`) achieves -/
structure PSpec (cons : Array Con) (old nb : Nat) (vars vars' : Array Var) (v : Nat) (u : Option Nat) : Prop where
  mono : Mono old nb vars vars'
  root : blk vars' v = nb
  clos : ∀ i : Nat, blk vars i = old → blk vars' i = nb → ∀ j y : Nat, AE cons j i y →
    (i = v ∧ u = some y) ∨ blk vars' y ≠ old
  snd : ∀ i : Nat, blk vars i = old → blk vars' i = nb → Reach cons v i

/-- invariant of the two neighbour loops of one `populateSplit` call rooted at `v` -/
structure G (cons : Array Con) (old nb : Nat) (vars0 : Array Var) (v : Nat) (vs : Array Var) : Prop where
  mono : Mono old nb vars0 vs
  root : blk vs v = nb
  clos : ∀ i : Nat, i ≠ v → blk vars0 i = old → blk vs i = nb → ∀ j y : Nat, AE cons j i y →
    blk vs y ≠ old
  snd : ∀ i : Nat, blk vars0 i = old → blk vs i = nb → Reach cons v i

/-- one neighbour loop, generic in which end of the constraint is the neighbour -/
def stepF (cons : Array Con) (old nb fuel : Nat) (u : Option Nat) (v : Nat) (far : Con → Nat)
    (x : Array Var × Array Nat × Bool) (ci : Nat) : Array Var × Array Nat × Bool :=
  if (x.1[far cons[ci]!]!.block == old && cons[ci]!.active && u != some (far cons[ci]!)) = true then
    ((populateSplit cons old nb fuel x.1 x.2.1 (far cons[ci]!) (some v)).1,
      (populateSplit cons old nb fuel x.1 x.2.1 (far cons[ci]!) (some v)).2.1,
      x.2.2 && (populateSplit cons old nb fuel x.1 x.2.1 (far cons[ci]!) (some v)).2.2)
  else (x.1, x.2.1, x.2.2)

theorem fold_lemma (cons : Array Con) (old nb : Nat) (hnb : nb ≠ old) (fuel : Nat)
    (ih : ∀ (vars : Array Var) (mem : Array Nat) (v : Nat) (u : Option Nat),
      LinkOK cons vars → v < vars.size → blk vars v = old →
      (populateSplit cons old nb fuel vars mem v u).2.2 = true →
      PSpec cons old nb vars (populateSplit cons old nb fuel vars mem v u).1 v u)
    (vars0 : Array Var) (hlk : LinkOK cons vars0) (v : Nat) (u : Option Nat) (far : Con → Nat)
    (arr : Array Nat)
    (hadj : ∀ ci ∈ arr, (cons[ci]!).active = true →
      AE cons ci v (far (cons[ci]!)) ∧ far (cons[ci]!) < vars0.size)
    (Q : Nat → Prop) (x0 : Array Var × Array Nat × Bool)
    (h0 : x0.2.2 = true → G cons old nb vars0 v x0.1 ∧ ∀ w, Q w → blk x0.1 w ≠ old)
    (hres : (arr.foldl (stepF cons old nb fuel u v far) x0).2.2 = true) :
    G cons old nb vars0 v (arr.foldl (stepF cons old nb fuel u v far) x0).1 ∧
    (∀ w, Q w → blk (arr.foldl (stepF cons old nb fuel u v far) x0).1 w ≠ old) ∧
    (∀ ci ∈ arr, (cons[ci]!).active = true → u ≠ some (far (cons[ci]!)) →
      blk (arr.foldl (stepF cons old nb fuel u v far) x0).1 (far (cons[ci]!)) ≠ old) := by
  have key := Array.foldl_induction
    (motive := fun (k : Nat) (acc : Array Var × Array Nat × Bool) => acc.2.2 = true →
      G cons old nb vars0 v acc.1 ∧ (∀ w, Q w → blk acc.1 w ≠ old) ∧
      (∀ k' : Nat, k' < k → ∀ hk : k' < arr.size, (cons[arr[k']]!).active = true →
        u ≠ some (far (cons[arr[k']]!)) → blk acc.1 (far (cons[arr[k']]!)) ≠ old))
    (as := arr) (init := x0) (f := stepF cons old nb fuel u v far)
    (by
      intro hx
      obtain ⟨g, q⟩ := h0 hx
      exact ⟨g, q, fun k' hk' => absurd hk' (Nat.not_lt_zero _)⟩)
    (by
      intro i acc hm hacc
      unfold stepF at hacc ⊢
      by_cases hg : (acc.1[far cons[arr[i]]!]!.block == old && cons[arr[i]]!.active &&
          u != some (far cons[arr[i]]!)) = true
      · rw [if_pos hg] at hacc ⊢
        simp only [Bool.and_eq_true] at hacc
        obtain ⟨g, q, pf⟩ := hm hacc.1
        simp only [Bool.and_eq_true, beq_iff_eq, bne_iff_ne, ne_eq] at hg
        obtain ⟨⟨hbo, hact⟩, hu⟩ := hg
        obtain ⟨hae, hlt⟩ := hadj arr[i] (Array.getElem_mem i.2) hact
        have hlk' : LinkOK cons acc.1 := hlk.of_mono g.mono
        have sub := ih acc.1 acc.2.1 (far cons[arr[i]]!) (some v) hlk'
          (by rw [g.mono.size]; exact hlt) hbo hacc.2
        refine ⟨⟨Mono.trans hnb g.mono sub.mono, sub.mono.stay_nb hnb g.root, ?_, ?_⟩, ?_, ?_⟩
        · intro x hxv hx0 hx2 j y hjy
          by_cases hx1 : blk acc.1 x = nb
          · exact sub.mono.stay hnb (g.clos x hxv hx0 hx1 j y hjy)
          · have hx1' : blk acc.1 x = old := by
              rcases g.mono.blkc x with e | ⟨_, e⟩
              · rw [e]; exact hx0
              · exact absurd e hx1
            rcases sub.clos x hx1' hx2 j y hjy with ⟨_, hy⟩ | hy
            · have : y = v := by simpa using hy.symm
              subst this
              rw [sub.mono.stay_nb hnb g.root]; exact hnb
            · exact hy
        · intro x hx0 hx2
          by_cases hx1 : blk acc.1 x = nb
          · exact g.snd x hx0 hx1
          · have hx1' : blk acc.1 x = old := by
              rcases g.mono.blkc x with e | ⟨_, e⟩
              · rw [e]; exact hx0
              · exact absurd e hx1
            exact (ReflTransGen.single ⟨arr[i], trivial, hae⟩).trans (sub.snd x hx1' hx2)
        · intro w hw
          exact sub.mono.stay hnb (q w hw)
        · intro k' hk' hk'' ha hu'
          rcases Nat.lt_succ_iff_lt_or_eq.1 hk' with hlt' | heq
          · exact sub.mono.stay hnb (pf k' hlt' hk'' ha hu')
          · subst heq
            exact fun e => hnb (sub.root.symm.trans e)
      · rw [if_neg hg] at hacc ⊢
        obtain ⟨g, q, pf⟩ := hm hacc
        refine ⟨g, q, ?_⟩
        intro k' hk' hk'' ha hu'
        rcases Nat.lt_succ_iff_lt_or_eq.1 hk' with hlt' | heq
        · exact pf k' hlt' hk'' ha hu'
        · subst heq
          intro hbo
          apply hg
          simp only [Bool.and_eq_true, beq_iff_eq, bne_iff_ne, ne_eq]
          exact ⟨⟨hbo, ha⟩, hu'⟩)
  obtain ⟨g, q, pf⟩ := key hres
  refine ⟨g, q, ?_⟩
  intro ci hci ha hu
  obtain ⟨k, hk, rfl⟩ := Array.mem_iff_getElem.1 hci
  exact pf k hk hk ha hu

theorem populateSplit_spec (cons : Array Con) (old nb : Nat) (hnb : nb ≠ old) :
    ∀ (fuel : Nat) (vars : Array Var) (mem : Array Nat) (v : Nat) (u : Option Nat),
      LinkOK cons vars → v < vars.size → blk vars v = old →
      (populateSplit cons old nb fuel vars mem v u).2.2 = true →
      PSpec cons old nb vars (populateSplit cons old nb fuel vars mem v u).1 v u := by
  intro fuel
  induction fuel with
  | zero => intro vars mem v u _ _ _ h; simp [populateSplit] at h
  | succ fuel ih =>
    intro vars mem v u hlk hv hb hok
    unfold populateSplit at hok ⊢
    simp only at hok ⊢
    -- the state after marking `v`
    have g1 : G cons old nb vars v (vars.set! v { vars[v]! with block := nb }) := by
      have hm := mono_setBlock old nb vars v hb
      have hother : ∀ i : Nat, i ≠ v → blk (vars.set! v { vars[v]! with block := nb }) i = blk vars i := by
        intro i hi
        unfold VpscInv.blk
        rw [get!_set!]
        split
        · rename_i hh; exact absurd hh.1.symm hi
        · rfl
      refine ⟨hm, blk_setBlock nb vars v hv, ?_, ?_⟩
      · intro i hi h0 h1
        rw [hother i hi, h0] at h1
        exact absurd h1.symm hnb
      · intro i h0 h1
        by_cases hi : i = v
        · subst hi; exact ReflTransGen.refl
        · rw [hother i hi, h0] at h1
          exact absurd h1.symm hnb
    -- neighbours through `in` constraints
    have hadjIn : ∀ ci ∈ (vars[v]!).ins, (cons[ci]!).active = true →
        AE cons ci v ((fun c : Con => c.l) (cons[ci]!)) ∧ (fun c : Con => c.l) (cons[ci]!) < vars.size := by
      intro ci hci ha
      obtain ⟨h1, h2⟩ := hlk.ins_sound v ci hci
      exact ⟨⟨h1, ha, Or.inr ⟨rfl, h2⟩⟩, hlk.l_lt ci h1⟩
    have hadjOut : ∀ ci ∈ (vars[v]!).outs, (cons[ci]!).active = true →
        AE cons ci v ((fun c : Con => c.r) (cons[ci]!)) ∧ (fun c : Con => c.r) (cons[ci]!) < vars.size := by
      intro ci hci ha
      obtain ⟨h1, h2⟩ := hlk.outs_sound v ci hci
      exact ⟨⟨h1, ha, Or.inl ⟨h2, rfl⟩⟩, hlk.r_lt ci h1⟩
    -- `ok` of the outer loop implies `ok` of the inner one (it only ever gets and-ed)
    have hokIn : ((vars[v]!).ins.foldl (stepF cons old nb fuel u v (fun c => c.l))
        (vars.set! v { vars[v]! with block := nb }, mem.push v, true)).2.2 = true := by
      by_contra hne
      have : ∀ (arr : Array Nat) (x : Array Var × Array Nat × Bool), x.2.2 = false →
          (arr.foldl (stepF cons old nb fuel u v (fun c => c.r)) x).2.2 = false := by
        intro arr x hx
        apply Array.foldl_induction (motive := fun _ (acc : Array Var × Array Nat × Bool) => acc.2.2 = false)
        · exact hx
        · intro i acc hacc
          unfold stepF
          split
          · simp [hacc]
          · exact hacc
      have hf := this (vars[v]!).outs _ ((Bool.not_eq_true _).mp hne)
      have hok' : ((vars[v]!).outs.foldl (stepF cons old nb fuel u v (fun c => c.r))
          ((vars[v]!).ins.foldl (stepF cons old nb fuel u v (fun c => c.l))
            (vars.set! v { vars[v]! with block := nb }, mem.push v, true))).2.2 = true := hok
      exact Bool.noConfusion (hok'.symm.trans hf)
    obtain ⟨gIn, _, pIn⟩ := fold_lemma cons old nb hnb fuel ih vars hlk v u (fun c => c.l)
      (vars[v]!).ins hadjIn (fun _ => False)
      (vars.set! v { vars[v]! with block := nb }, mem.push v, true)
      (fun _ => ⟨g1, fun _ hw => hw.elim⟩) hokIn
    obtain ⟨gOut, qOut, pOut⟩ := fold_lemma cons old nb hnb fuel ih vars hlk v u (fun c => c.r)
      (vars[v]!).outs hadjOut
      (fun w => ∃ ci ∈ (vars[v]!).ins, (cons[ci]!).active = true ∧ u ≠ some (cons[ci]!).l ∧ w = (cons[ci]!).l)
      _ (fun _ => ⟨gIn, fun w ⟨ci, hci, ha, hu, hw⟩ => hw ▸ pIn ci hci ha hu⟩) hok
    refine ⟨gOut.mono, gOut.root, ?_, gOut.snd⟩
    intro i h0 h1 j y hjy
    by_cases hi : i = v
    · subst hi
      by_cases huy : u = some y
      · exact Or.inl ⟨rfl, huy⟩
      · right
        obtain ⟨hj, ha, hends⟩ := hjy
        rcases hends with ⟨hl, hr⟩ | ⟨hl, hr⟩
        · -- j : i → y, so j ∈ outs i
          have hmem := hlk.outs_complete j hj
          rw [hl] at hmem
          have := pOut j hmem ha (by rw [hr]; exact huy)
          rw [hr] at this
          exact this
        · have hmem := hlk.ins_complete j hj
          rw [hr] at hmem
          exact qOut y ⟨j, hmem, ha, by rw [hl]; exact huy, hl.symm⟩
    · exact Or.inr (gOut.clos i hi h0 h1 j y hjy)

end AdaptaVerif.Lemmas.VpscSplit
