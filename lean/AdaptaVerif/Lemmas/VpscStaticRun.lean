/-
The invariant `SW` (block invariant `InvC` + sound member lists + sound heap contents, see
`Lemmas/VpscStaticMem.lean`) along every run of the static VPSC solver's model: `mergeLeft`, `mergeRight`,
`Blocks::split`, `Solver::satisfy`, `Solver::refine`, `Solver::solve`, from `Solver(vs, cs)`.
The heap facts are what makes the merge steps applicable: the constraint handed back by the in-heap of block
`r` joins another block to `r` (`findMinIn_ok` + `findMinIn_ext`), so `Block::merge` is the merge of the two
blocks of that constraint (`merge_core`).
-/
import AdaptaVerif.Lemmas.VpscStaticMem
import AdaptaVerif.Lemmas.VpscStaticOrder
namespace AdaptaVerif.Lemmas.VpscStaticMem
open AdaptaVerif.Model.Vpsc AdaptaVerif.Model.VpscStatic
open AdaptaVerif.Lemmas.VpscGraph AdaptaVerif.Lemmas.VpscModel AdaptaVerif.Lemmas.VpscHistory
open AdaptaVerif.Lemmas.VpscInv AdaptaVerif.Lemmas.VpscMerge AdaptaVerif.Lemmas.VpscSplit
open AdaptaVerif.Lemmas.VpscStatic AdaptaVerif.Lemmas.VpscLoop
open AdaptaVerif.Model.PairingHeap
open Relation

theorem mergeDir_fuel (st : St) (ci dst src : Nat) (d : Rat) : (mergeDir st ci dst src d).fuelOut = st.fuelOut :=
  (mergeDir_core st ci dst src d).2.2.2

/-! ### the loops -/

theorem noteCmp_same (hs : HS) (x : Rat) : SameH (hs.noteCmp x) hs := by
  unfold HS.noteCmp; split <;> exact ⟨rfl, rfl⟩

theorem WF.with_hs {s : SSt} (hw : WF s) {hs' : HS} (hin : InOK s.st hs') (hout : OutOK s.st hs') :
    WF { s with hs := hs' } := ⟨hw.ic, hw.mem, hin, hout⟩

theorem owns_dst {st : St} {ci dst src : Nat} {d : Rat} (hm : MergeHyp st dst src) :
    Owns (mergeDir st ci dst src d) dst := by
  obtain ⟨v, hv, hb⟩ := hm.osrc
  exact ⟨v, by rw [mergeDir_size]; exact hv, by rw [blkOf_mergeDir _ _ _ _ _ _ hv, if_pos hb]⟩

theorem mergeLeftStep_snd (s : SSt) (r c : Nat) :
    (mergeLeftStep s r c).2 =
      if blockSize s.st r < blockSize s.st (blkOf s.st (s.st.cons[c]!).l) then blkOf s.st (s.st.cons[c]!).l else r := by
  simp only [mergeLeftStep]

theorem mergeRightStep_snd (s : SSt) (l c : Nat) :
    (mergeRightStep s l c).2 =
      if blockSize s.st l > blockSize s.st (blkOf s.st (s.st.cons[c]!).r) then blkOf s.st (s.st.cons[c]!).r else l := by
  simp only [mergeRightStep]

theorem mergeLeftStep_owns (s : SSt) (r c : Nat) (hI : IC s.st) (hint : internal s.st c = false)
    (hr : blkOf s.st (s.st.cons[c]!).r = r) : Owns (mergeLeftStep s r c).1.st (mergeLeftStep s r c).2 := by
  have hne := internal_false s.st c hint
  rw [mergeLeftStep_st, mergeLeftStep_snd]
  by_cases hsw : blockSize s.st r < blockSize s.st (blkOf s.st (s.st.cons[c]!).l)
  · simp only [hsw, if_true]
    exact owns_dst (mergeHyp_of s.st c _ _ hI hne (Or.inr ⟨hr.symm, rfl⟩))
  · simp only [hsw, if_false]
    exact owns_dst (mergeHyp_of s.st c _ _ hI hne (Or.inl ⟨rfl, hr.symm⟩))

theorem mergeRightStep_owns (s : SSt) (l c : Nat) (hI : IC s.st) (hint : internal s.st c = false)
    (hl : blkOf s.st (s.st.cons[c]!).l = l) : Owns (mergeRightStep s l c).1.st (mergeRightStep s l c).2 := by
  have hne := internal_false s.st c hint
  rw [mergeRightStep_st, mergeRightStep_snd]
  by_cases hsw : blockSize s.st l > blockSize s.st (blkOf s.st (s.st.cons[c]!).r)
  · simp only [hsw, if_true]
    exact owns_dst (mergeHyp_of s.st c _ _ hI hne (Or.inl ⟨hl.symm, rfl⟩))
  · simp only [hsw, if_false]
    exact owns_dst (mergeHyp_of s.st c _ _ hI hne (Or.inr ⟨rfl, hl.symm⟩))

theorem mergeLeftLoop_frame : ∀ (fuel : Nat) (s : SSt) (r : Nat),
    (mergeLeftLoop fuel s r).st.vars.size = s.st.vars.size ∧
    (mergeLeftLoop fuel s r).st.cons.size = s.st.cons.size ∧
    (s.st.fuelOut = true → (mergeLeftLoop fuel s r).st.fuelOut = true)
  | 0, _, _ => ⟨rfl, rfl, fun h => h⟩
  | fuel + 1, s, r => by
    unfold mergeLeftLoop
    simp only
    split
    · exact ⟨rfl, rfl, fun h => h⟩
    · split
      · obtain ⟨a, a', b⟩ := mergeLeftLoop_frame fuel
          (mergeLeftStep { s with hs := (findMinIn s.st s.hs r).1.noteCmp (rawSlack s.st _) } r _).1
          (mergeLeftStep { s with hs := (findMinIn s.st s.hs r).1.noteCmp (rawSlack s.st _) } r _).2
        refine ⟨a.trans (by rw [mergeLeftStep_st, mergeDir_size]), a'.trans (by rw [mergeLeftStep_st, mergeDir_cons_size]),
          fun h => b (by rw [mergeLeftStep_st, mergeDir_fuel]; exact h)⟩
      · exact ⟨rfl, rfl, fun h => h⟩

theorem mergeRightLoop_frame : ∀ (fuel : Nat) (s : SSt) (l : Nat),
    (mergeRightLoop fuel s l).st.vars.size = s.st.vars.size ∧
    (mergeRightLoop fuel s l).st.cons.size = s.st.cons.size ∧
    (s.st.fuelOut = true → (mergeRightLoop fuel s l).st.fuelOut = true)
  | 0, _, _ => ⟨rfl, rfl, fun h => h⟩
  | fuel + 1, s, l => by
    unfold mergeRightLoop
    simp only
    split
    · exact ⟨rfl, rfl, fun h => h⟩
    · split
      · obtain ⟨a, a', b⟩ := mergeRightLoop_frame fuel
          (mergeRightStep { s with hs := (findMinOut s.st s.hs l).1.noteCmp (rawSlack s.st _) } l _).1
          (mergeRightStep { s with hs := (findMinOut s.st s.hs l).1.noteCmp (rawSlack s.st _) } l _).2
        refine ⟨a.trans (by rw [mergeRightStep_st, mergeDir_size]), a'.trans (by rw [mergeRightStep_st, mergeDir_cons_size]),
          fun h => b (by rw [mergeRightStep_st, mergeDir_fuel]; exact h)⟩
      · exact ⟨rfl, rfl, fun h => h⟩

theorem mergeLeftLoop_SW : ∀ (fuel : Nat) (s : SSt) (r : Nat), SW s → Owns s.st r → SW (mergeLeftLoop fuel s r)
  | 0, s, r, h, _ => by
    rcases h with h | h
    · exact Or.inl h
    · exact Or.inr (h.with_hs (inOK_of_eq h.hin rfl) (outOK_of_eq h.hout rfl))
  | fuel + 1, s, r, h, ho => by
    rcases h with hf | hw
    · exact Or.inl ((mergeLeftLoop_frame (fuel + 1) s r).2.2 hf)
    · obtain ⟨f1, f2, _, _, f5⟩ := findMinIn_ok s.st s.hs r hw.hin hw.hout
      unfold mergeLeftLoop
      simp only
      split
      · exact Or.inr (hw.with_hs f1 f2)
      · rename_i c hc
        have hw' : WF { s with hs := (findMinIn s.st s.hs r).1.noteCmp (rawSlack s.st c) } :=
          hw.with_hs (inOK_of_eq f1 (noteCmp_same _ _).1) (outOK_of_eq f2 (noteCmp_same _ _).2)
        split
        · have hint := findMinIn_ext _ _ _ _ hc
          have hr := f5 c hc ho
          exact mergeLeftLoop_SW fuel _ _ (Or.inr (mergeLeftStep_WF _ r c hw' hint hr))
            (mergeLeftStep_owns _ r c hw.ic hint hr)
        · exact Or.inr hw'

theorem mergeRightLoop_SW : ∀ (fuel : Nat) (s : SSt) (l : Nat), SW s → Owns s.st l → SW (mergeRightLoop fuel s l)
  | 0, s, l, h, _ => by
    rcases h with h | h
    · exact Or.inl h
    · exact Or.inr (h.with_hs (inOK_of_eq h.hin rfl) (outOK_of_eq h.hout rfl))
  | fuel + 1, s, l, h, ho => by
    rcases h with hf | hw
    · exact Or.inl ((mergeRightLoop_frame (fuel + 1) s l).2.2 hf)
    · obtain ⟨f1, f2, _, _, f5⟩ := findMinOut_ok s.st s.hs l hw.hin hw.hout
      unfold mergeRightLoop
      simp only
      split
      · exact Or.inr (hw.with_hs f1 f2)
      · rename_i c hc
        have hw' : WF { s with hs := (findMinOut s.st s.hs l).1.noteCmp (rawSlack s.st c) } :=
          hw.with_hs (inOK_of_eq f1 (noteCmp_same _ _).1) (outOK_of_eq f2 (noteCmp_same _ _).2)
        split
        · have hint := findMinOut_ext _ _ _ _ hc
          have hl := f5 c hc ho
          exact mergeRightLoop_SW fuel _ _ (Or.inr (mergeRightStep_WF _ l c hw' hint hl))
            (mergeRightStep_owns _ l c hw.ic hint hl)
        · exact Or.inr hw'

/-- `r->timeStamp=++blockTimeCtr;` -/
def stampL (hs : HS) (r : Nat) : HS :=
  { { hs with ctr := hs.ctr + 1 } with bts := ({ hs with ctr := hs.ctr + 1 } : HS).bts.set! r (hs.ctr + 1) }

theorem mergeLeft_eq (s : SSt) (r : Nat) :
    mergeLeft s r = mergeLeftLoop (loopFuel s.st) { st := s.st, hs := setUpIn s.st (stampL s.hs r) r } r := rfl

theorem mergeRight_eq (s : SSt) (l : Nat) :
    mergeRight s l = mergeRightLoop (loopFuel s.st) { st := s.st, hs := setUpOut s.st s.hs l } l := rfl

theorem mergeLeft_SW (s : SSt) (r : Nat) (h : SW s) (ho : Owns s.st r) : SW (mergeLeft s r) := by
  rw [mergeLeft_eq]
  refine mergeLeftLoop_SW _ { st := s.st, hs := setUpIn s.st (stampL s.hs r) r } r ?_ ho
  rcases h with h | h
  · exact Or.inl h
  · have hin0 : InOK s.st (stampL s.hs r) := inOK_of_eq h.hin rfl
    have hout0 : OutOK s.st (stampL s.hs r) := outOK_of_eq h.hout rfl
    obtain ⟨a, b⟩ := setUpIn_ok s.st (stampL s.hs r) r h.ic h.mem hin0 hout0
    exact Or.inr ⟨h.ic, h.mem, a, b⟩

theorem mergeRight_SW (s : SSt) (l : Nat) (h : SW s) (ho : Owns s.st l) : SW (mergeRight s l) := by
  rw [mergeRight_eq]
  refine mergeRightLoop_SW _ { st := s.st, hs := setUpOut s.st s.hs l } l ?_ ho
  rcases h with h | h
  · exact Or.inl h
  · obtain ⟨a, b⟩ := setUpOut_ok s.st s.hs l h.ic h.mem h.hin h.hout
    exact Or.inr ⟨h.ic, h.mem, a, b⟩

theorem mergeLeft_frame (s : SSt) (r : Nat) :
    (mergeLeft s r).st.vars.size = s.st.vars.size ∧ (mergeLeft s r).st.cons.size = s.st.cons.size ∧
    (s.st.fuelOut = true → (mergeLeft s r).st.fuelOut = true) := by
  rw [mergeLeft_eq]; exact mergeLeftLoop_frame _ _ _

theorem mergeRight_frame (s : SSt) (l : Nat) :
    (mergeRight s l).st.vars.size = s.st.vars.size ∧ (mergeRight s l).st.cons.size = s.st.cons.size ∧
    (s.st.fuelOut = true → (mergeRight s l).st.fuelOut = true) := by
  rw [mergeRight_eq]; exact mergeRightLoop_frame _ _ _

/-! ### `Solver::satisfy` -/

theorem satisfyStep_SW (s : SSt) (v : Nat) (h : SW s) (hv : v < s.st.vars.size) :
    SW (satisfyStep s v) ∧ (satisfyStep s v).st.vars.size = s.st.vars.size ∧
    (s.st.fuelOut = true → (satisfyStep s v).st.fuelOut = true) := by
  unfold satisfyStep
  simp only
  split
  · refine ⟨?_, rfl, fun h => h⟩
    rcases h with h | h
    · exact Or.inl h
    · exact Or.inr (h.with_hs (inOK_of_eq h.hin rfl) (outOK_of_eq h.hout rfl))
  · obtain ⟨a, _, b⟩ := mergeLeft_frame s (blkOf s.st v)
    exact ⟨mergeLeft_SW s _ h ⟨v, hv, rfl⟩, a, b⟩

theorem foldl_satisfyStep_SW : ∀ (l : List Nat) (s : SSt), SW s → (∀ v ∈ l, v < s.st.vars.size) →
    SW (l.foldl satisfyStep s)
  | [], _, h, _ => h
  | v :: rest, s, h, hl => by
    rw [List.foldl_cons]
    obtain ⟨a, b, _⟩ := satisfyStep_SW s v h (hl v (by simp))
    exact foldl_satisfyStep_SW rest _ a (fun w hw => by rw [b]; exact hl w (by simp [hw]))

theorem foldl_satisfyStep_fuel : ∀ (l : List Nat) (s : SSt), s.st.fuelOut = true →
    (l.foldl satisfyStep s).st.fuelOut = true
  | [], _, h => h
  | v :: rest, s, h => by
    rw [List.foldl_cons]
    apply foldl_satisfyStep_fuel rest
    unfold satisfyStep
    simp only
    split
    · exact h
    · exact (mergeLeft_frame s _).2.2 h

theorem ic_cleanup {st : St} (h : IC st) : IC st.cleanup := h
theorem memOK_cleanup {st : St} (h : MemOK st) : MemOK st.cleanup := memOK_congr rfl (fun _ => rfl) h

theorem SW.cleanup {s : SSt} (h : SW s) : SW s.cleanup := by
  rcases h with h | h
  · exact Or.inl h
  · exact Or.inr ⟨ic_cleanup h.ic, memOK_cleanup h.mem, inOK_congr rfl rfl h.hin, outOK_congr rfl rfl h.hout⟩

theorem satisfyCore_SW (s : SSt) (h : SW s) : SW (satisfyCore s) := by
  unfold satisfyCore
  simp only
  apply SW.cleanup
  rcases h with h | h
  · exact Or.inl (foldl_satisfyStep_fuel _ _ h)
  · apply foldl_satisfyStep_SW
    · refine Or.inr (h.with_hs ?_ ?_)
      · split
        · exact h.hin
        · exact inOK_of_eq h.hin rfl
      · split
        · exact h.hout
        · exact outOK_of_eq h.hout rfl
    · exact fun v hv => AdaptaVerif.Lemmas.VpscStaticOrder.totalOrder_bound s.st h.ic v hv

theorem noteScan_same (st : St) (hs : HS) : SameH (noteScan st hs) hs := by
  unfold noteScan
  have : ∀ (l : List Nat) (a : HS), SameH (l.foldl (fun hs ci =>
      if rawSlack st ci < 0 then hs.note (rawSlack st ci - ZERO_UPPERBOUND) else hs) a) a := by
    intro l
    induction l with
    | nil => intro a; exact SameH.refl a
    | cons c r ih =>
      intro a
      rw [List.foldl_cons]
      refine (ih _).trans ?_
      split <;> exact ⟨rfl, rfl⟩
  exact this _ _

theorem SW.scan {s : SSt} (h : SW s) : SW { s with hs := noteScan s.st s.hs } := by
  rcases h with h | h
  · exact Or.inl h
  · exact Or.inr (h.with_hs (inOK_of_eq h.hin (noteScan_same _ _).1) (outOK_of_eq h.hout (noteScan_same _ _).2))

theorem satisfy_fst (s : SSt) :
    (s.satisfy).1 = { satisfyCore s with hs := noteScan (satisfyCore s).st (satisfyCore s).hs } := by
  unfold SSt.satisfy
  simp only
  split
  · rfl
  · split <;> rfl

theorem satisfy_SW (s : SSt) (h : SW s) : SW (s.satisfy).1 := by
  rw [satisfy_fst]
  exact (satisfyCore_SW s h).scan

/-! ### `Blocks::split` -/

theorem IC.of_same {a b : St} (hs : Same a b) (h : IC b) : IC a := by
  obtain ⟨hv, hc, hb, _⟩ := hs
  unfold IC at *
  rw [hv, hc, hb]
  exact h

theorem setPosn_vars (st : St) (b : Nat) (p : Rat) (x : Nat) :
    ((setPosn st b p).blocks[x]!).vars = (st.blocks[x]!).vars := by
  unfold setPosn
  simp only
  rw [get!_set!]
  split
  · rename_i h; rw [h.1]
  · rfl

theorem markDeleted_vars (st : St) (b x : Nat) : ((st.markDeleted b).blocks[x]!).vars = (st.blocks[x]!).vars := by
  unfold St.markDeleted
  simp only
  rw [get!_set!]
  split
  · rename_i h; rw [h.1]
  · rfl

theorem refreshBlock_vc (st : St) (b : Nat) : (st.refreshBlock b).vars = st.vars ∧ (st.refreshBlock b).cons = st.cons :=
  ⟨(refreshBlock_core st b).1, (refreshBlock_core st b).2.1⟩

theorem WF.build {st st' : St} {hs hs' : HS} (ic : IC st) (mem : MemOK st) (hin : InOK st hs) (hout : OutOK st hs)
    (hsame : Same st' st) (hb : ∀ x : Nat, (st'.blocks[x]!).vars = (st.blocks[x]!).vars) (hh : SameH hs' hs) :
    WF { st := st', hs := hs' } :=
  ⟨IC.of_same hsame ic, memOK_congr hsame.1 hb mem,
   inOK_congr hsame.1 hsame.2.1 (inOK_of_eq hin hh.1), outOK_congr hsame.1 hsame.2.1 (outOK_of_eq hout hh.2)⟩

/-- transfer of `WF` to a state that differs only in block records (not their member lists), order, lm -/
theorem WF.transfer {s : SSt} (hw : WF s) {st' : St} {hs' : HS} (hsame : Same st' s.st)
    (hb : ∀ x : Nat, (st'.blocks[x]!).vars = (s.st.blocks[x]!).vars) (hh : SameH hs' s.hs) :
    WF { st := st', hs := hs' } :=
  ⟨IC.of_same hsame hw.ic, memOK_congr hsame.1 hb hw.mem,
   inOK_congr hsame.1 hsame.2.1 (inOK_of_eq hw.hin hh.1), outOK_congr hsame.1 hsame.2.1 (outOK_of_eq hw.hout hh.2)⟩

theorem splitPre_hs (s : SSt) (b c : Nat) :
    SameH (splitPre s b c).1.hs (s.hs.newBlocks (s.st.split b c).2.1 (s.st.split b c).2.2) := by
  have : SameH (splitPre s b c).1.hs
      ((s.hs.newBlocks (s.st.split b c).2.1 (s.st.split b c).2.2).checkExact (splitPre s b c).1.st (s.st.split b c).2.1) :=
    ⟨by simp only [splitPre], by simp only [splitPre]⟩
  exact this.trans (checkExact_same _ _ _)

theorem splitPre_snd (s : SSt) (b c : Nat) : (splitPre s b c).2 = s.st.blocks.size := rfl

theorem splitMid_snd (s : SSt) (c : Nat) : (splitMid s c).2 = blkOf s.st (s.st.cons[c]!).r := rfl

theorem splitMid_hs (s : SSt) (c : Nat) : SameH (splitMid s c).1.hs s.hs := by
  have : SameH (splitMid s c).1.hs (s.hs.checkExact (splitMid s c).1.st (blkOf s.st (s.st.cons[c]!).r)) :=
    ⟨by simp only [splitMid], by simp only [splitMid]⟩
  exact this.trans (checkExact_same _ _ _)

theorem splitStatic_eq (s : SSt) (b c : Nat) :
    splitStatic s b c =
      { mergeRight (splitMid (mergeLeft (splitPre s b c).1 (splitPre s b c).2) c).1
          (splitMid (mergeLeft (splitPre s b c).1 (splitPre s b c).2) c).2 with
        st := (mergeRight (splitMid (mergeLeft (splitPre s b c).1 (splitPre s b c).2) c).1
          (splitMid (mergeLeft (splitPre s b c).1 (splitPre s b c).2) c).2).st.markDeleted b } := rfl

theorem splitStatic_fuel (s : SSt) (b c : Nat) (h : (splitPre s b c).1.st.fuelOut = true) :
    (splitStatic s b c).st.fuelOut = true := by
  rw [splitStatic_st]
  simp only [St.markDeleted]
  apply (mergeRight_frame _ _).2.2
  rw [splitMid_st, (refreshBlock_core _ _).2.2.2.2]
  exact (mergeLeft_frame _ _).2.2 h

theorem splitPre_fuel (s : SSt) (b c : Nat) : (splitPre s b c).1.st.fuelOut = (s.st.split b c).1.fuelOut := by
  rw [splitPre_st]; simp [setPosn, St.insertBlocks]

theorem splitStatic_SW (s : SSt) (b c : Nat) (h : SW s) (hact : (s.st.cons[c]!).active = true)
    (hb : blkOf s.st (s.st.cons[c]!).l = b) : SW (splitStatic s b c) := by
  by_cases hfo : (s.st.split b c).1.fuelOut = true
  · exact Or.inl (splitStatic_fuel s b c (by rw [splitPre_fuel]; exact hfo))
  have hfo' : (s.st.split b c).1.fuelOut = false := by simpa using hfo
  rcases h with h | hw
  · rw [split_fuel_true s.st b c h] at hfo'; cases hfo'
  have hb' : blk s.st.vars (s.st.cons[c]!).l = b := hb
  subst hb'
  obtain ⟨w1, w2, w3, w4, w5, w6⟩ := split_WF s.st s.hs c hw.ic hw.mem hw.hin hw.hout hact hfo'
  have hcsz : (s.st.split (blk s.st.vars (s.st.cons[c]!).l) c).1.cons.size = s.st.cons.size := by
    rw [split_cons, set!_size]
  -- after `splitPre`
  have hsamePre : Same (splitPre s (blk s.st.vars (s.st.cons[c]!).l) c).1.st (s.st.split (blk s.st.vars (s.st.cons[c]!).l) c).1 := by
    rw [splitPre_st]
    exact ⟨by simp [setPosn, St.insertBlocks], by simp [setPosn, St.insertBlocks],
      by simp [setPosn, St.insertBlocks], by simp [setPosn, St.insertBlocks]⟩
  have hwPre : WF (splitPre s (blk s.st.vars (s.st.cons[c]!).l) c).1 := by
    exact WF.build w1 w2 w3 w4 hsamePre
      (by intro x; rw [setPosn_vars]; rfl) (splitPre_hs s _ c)
  have hoPre : Owns (splitPre s (blk s.st.vars (s.st.cons[c]!).l) c).1.st (splitPre s (blk s.st.vars (s.st.cons[c]!).l) c).2 := by
    rw [splitPre_snd]
    exact owns_congr hsamePre.1 w5
  -- after `mergeLeft`
  have hs1 := mergeLeft_SW _ _ (Or.inr hwPre) hoPre
  obtain ⟨fv, fc, _⟩ := mergeLeft_frame (splitPre s (blk s.st.vars (s.st.cons[c]!).l) c).1
    (splitPre s (blk s.st.vars (s.st.cons[c]!).l) c).2
  generalize hS1 : mergeLeft (splitPre s (blk s.st.vars (s.st.cons[c]!).l) c).1
    (splitPre s (blk s.st.vars (s.st.cons[c]!).l) c).2 = s1 at *
  rw [splitStatic_eq, hS1]
  rcases hs1 with hf1 | hw1
  · -- fuel ran out in between (cannot happen after `hfo'`, but is covered all the same)
    left
    show ((mergeRight (splitMid s1 c).1 (splitMid s1 c).2).st.markDeleted _).fuelOut = true
    simp only [St.markDeleted]
    apply (mergeRight_frame _ _).2.2
    rw [splitMid_st, (refreshBlock_core _ _).2.2.2.2]
    exact hf1
  · have hclt : c < s1.st.cons.size := by
      rw [fc, hsamePre.2.1, hcsz]; exact active_lt _ _ hact
    have hwMid : WF (splitMid s1 c).1 := by
      have := WF.transfer (s := s1) hw1 (st' := (splitMid s1 c).1.st) (hs' := (splitMid s1 c).1.hs)
        (by rw [splitMid_st]; exact same_refreshBlock _ _)
        (by intro x; rw [splitMid_st, refresh_vars]) (splitMid_hs s1 c)
      exact this
    have hoMid : Owns (splitMid s1 c).1.st (splitMid s1 c).2 := by
      rw [splitMid_snd]
      exact owns_congr (by rw [splitMid_st]; exact (refreshBlock_vc _ _).1) ⟨_, hw1.ic.r_lt c hclt, rfl⟩
    have hs2 := mergeRight_SW _ _ (Or.inr hwMid) hoMid
    rcases hs2 with hf2 | hw2
    · left
      show ((mergeRight (splitMid s1 c).1 (splitMid s1 c).2).st.markDeleted _).fuelOut = true
      simp only [St.markDeleted]
      exact hf2
    · right
      exact WF.transfer hw2 (same_markDeleted _ _) (fun x => markDeleted_vars _ _ x) (SameH.refl _)

/-! ### `Solver::refine`, `Solver::solve` -/

theorem refineSetUp_SW (s : SSt) (h : SW s) : SW (refineSetUp s) := by
  rcases h with h | hw
  · exact Or.inl h
  · right
    have key : ∀ (l : List Nat) (hs : HS), InOK s.st hs → OutOK s.st hs →
        InOK s.st (l.foldl (fun hs b => setUpOut s.st (setUpIn s.st hs b) b) hs) ∧
        OutOK s.st (l.foldl (fun hs b => setUpOut s.st (setUpIn s.st hs b) b) hs) := by
      intro l
      induction l with
      | nil => intro hs a b; exact ⟨a, b⟩
      | cons x rest ih =>
        intro hs a b
        rw [List.foldl_cons]
        obtain ⟨a1, b1⟩ := setUpIn_ok s.st hs x hw.ic hw.mem a b
        obtain ⟨a2, b2⟩ := setUpOut_ok s.st _ x hw.ic hw.mem a1 b1
        exact ih _ a2 b2
    obtain ⟨a, b⟩ := key s.st.order.toList s.hs hw.hin hw.hout
    exact hw.with_hs a b

theorem findMinLM_state (s : SSt) (b : Nat) (h : SW s) (hs' : HS) (hh : SameH hs' s.hs) :
    SW { st := (s.st.findMinLM b).1, hs := hs' } := by
  obtain ⟨hv, hc, hb, _, hf, _⟩ := findMinLM_spec s.st b
  by_cases hfo : (s.st.findMinLM b).1.fuelOut = true
  · exact Or.inl hfo
  · have hfo' : (s.st.findMinLM b).1.fuelOut = false := by simpa using hfo
    rcases h with h | hw
    · rw [hf hfo'] at h; cases h
    · right
      exact WF.build hw.ic hw.mem hw.hin hw.hout ⟨hv, hc, by rw [hb], by rw [hfo', hf hfo']⟩
        (fun x => by rw [hb]) hh

theorem refineTry_SW (s : SSt) (b : Nat) (h : SW s) : SW (refineTry s b).1 := by
  obtain ⟨hv, hc, _, _, _, hact⟩ := findMinLM_spec s.st b
  unfold refineTry
  simp only
  split
  · exact findMinLM_state s b h s.hs (SameH.refl _)
  · rename_i ci lmv gap heq
    split
    · apply SW.cleanup
      have hst := findMinLM_state s b h ((s.hs.note (lmv - LAGRANGIAN_TOLERANCE)).noteCmp gap)
        ((noteCmp_same _ _).trans ⟨rfl, rfl⟩)
      have ha : ((s.st.findMinLM b).1.cons[ci]!).active = true := by
        rw [hc]; exact hact ci lmv gap heq
      rcases hst with hf | hw'
      · exact Or.inl (splitStatic_fuel _ b ci (by rw [splitPre_fuel]; exact split_fuel_true _ _ _ hf))
      · have hblk : blkOf (s.st.findMinLM b).1 ((s.st.findMinLM b).1.cons[ci]!).l = b := by
          have hic : InvC s.st.vars s.st.cons (s.st.findMinLM b).1.blocks.size
              (Array.range (s.st.findMinLM b).1.cons.size) := by
            have := hw'.ic; unfold IC at this; rw [hv, hc] at this; rw [hc]; exact this
          have := findMinLM_blk s.st b hic ci lmv gap heq
          unfold blkOf; rw [hv, hc]; exact this
        exact splitStatic_SW _ b ci (Or.inr hw') ha hblk
    · exact findMinLM_state s b h _ ⟨rfl, rfl⟩

theorem refineScan_SW : ∀ (l : List Nat) (s : SSt), SW s → SW (refineScan s l).1
  | [], _, h => h
  | b :: rest, s, h => by
    unfold refineScan
    have h1 := refineTry_SW s b h
    simp only
    split
    · exact h1
    · exact refineScan_SW rest _ h1

theorem refineLoop_SW : ∀ (tries : Nat) (s : SSt), SW s → SW (refineLoop tries s)
  | 0, _, h => h
  | tries + 1, s, h => by
    unfold refineLoop
    simp only
    have h0 : SW { s with hs := { s.hs with nRounds := s.hs.nRounds + 1 } } := by
      rcases h with h | h
      · exact Or.inl h
      · exact Or.inr (h.with_hs (inOK_of_eq h.hin rfl) (outOK_of_eq h.hout rfl))
    have h1 := refineScan_SW (refineSetUp { s with hs := { s.hs with nRounds := s.hs.nRounds + 1 } }).st.order.toList
      _ (refineSetUp_SW _ h0)
    split
    · exact refineLoop_SW tries _ h1
    · exact h1

theorem refineCore_SW (s : SSt) (h : SW s) : SW (refineCore s) := refineLoop_SW 100 s h

theorem solve_SW (s : SSt) (h : SW s) : SW (s.solve).1 := by
  unfold SSt.solve
  split
  · rename_i s1 p r heq
    have e1 : (s.satisfy).1 = s1 := by rw [heq]
    have h2 : SW (refineCore s1) := refineCore_SW _ (by rw [← e1]; exact satisfy_SW s h)
    simp only
    split
    · exact h2.scan
    · split
      · exact h2.scan
      · exact h2.scan
  · exact satisfy_SW s h

/-! ### the constructor -/

theorem foldl_addConstraint_frame : ∀ (cs : List Con) (st : St),
    (cs.foldl (fun st c => st.addConstraint c) st).blocks = st.blocks ∧
    (cs.foldl (fun st c => st.addConstraint c) st).vars.size = st.vars.size ∧
    ∀ x, blk (cs.foldl (fun st c => st.addConstraint c) st).vars x = blk st.vars x
  | [], _ => ⟨rfl, rfl, fun _ => rfl⟩
  | c :: rest, st => by
    rw [List.foldl_cons]
    obtain ⟨a, b, d⟩ := foldl_addConstraint_frame rest (st.addConstraint c)
    refine ⟨a.trans rfl, b.trans (addConstraint_size st c), fun x => (d x).trans (addConstraint_blk st c x)⟩

theorem init_WF (vs : Array (Rat × Rat × Rat)) (cs : Array Con)
    (hv : ∀ c ∈ cs, c.l < vs.size ∧ c.r < vs.size ∧ c.unsat = false) : WF (SSt.init vs cs) := by
  have hI : IC (SSt.init vs cs).st := InvC.toRange (init_inv vs cs hv)
  refine ⟨hI, ?_, ?_, ?_⟩
  · -- member lists: block i = #[i], variable i in block i
    intro b v _ hmem hvlt
    show blk (St.init vs cs).vars v = b
    change v ∈ ((St.init vs cs).blocks[b]!).vars at hmem
    change v < (St.init vs cs).vars.size at hvlt
    unfold St.init at hmem hvlt ⊢
    simp only at hmem hvlt ⊢
    rw [← Array.foldl_toList] at hmem hvlt ⊢
    obtain ⟨fb, fs, fk⟩ := foldl_addConstraint_frame cs.toList
      { vars := vs.mapIdx fun i x => ({ desired := x.1, weight := x.2.1, scale := x.2.2, block := i } : Var),
        cons := #[], lm := #[],
        blocks := vs.mapIdx fun i x => ({ vars := #[i], scale := x.2.2, posn := x.1 } : Block),
        order := Array.range vs.size, inactive := #[] }
    rw [fb] at hmem
    rw [fs] at hvlt
    rw [fk]
    simp only [Array.size_mapIdx] at hvlt
    have hbv : b = v := by
      by_cases hb : b < vs.size
      · rw [mapIdx_get! _ _ _ hb] at hmem
        have : v = b := by simpa using hmem
        exact this.symm
      · rw [getElem!_neg _ _ (by simpa using hb)] at hmem
        simp [default_block_vars] at hmem
    subst hbv
    unfold VpscInv.blk
    rw [mapIdx_get! _ _ _ hvlt]
  · intro b h hb
    have : (SSt.init vs cs).hs.inH[b]! = none := by
      show (Array.replicate vs.size (none : Option Heap))[b]! = none
      by_cases hlt : b < vs.size
      · rw [getElem!_pos _ b (by simpa using hlt)]; simp
      · rw [getElem!_neg _ b (by simpa using hlt)]; rfl
    rw [this] at hb; cases hb
  · intro b h hb
    have : (SSt.init vs cs).hs.outH[b]! = none := by
      show (Array.replicate vs.size (none : Option Heap))[b]! = none
      by_cases hlt : b < vs.size
      · rw [getElem!_pos _ b (by simpa using hlt)]; simp
      · rw [getElem!_neg _ b (by simpa using hlt)]; rfl
    rw [this] at hb; cases hb

end AdaptaVerif.Lemmas.VpscStaticMem
