/-
C17 — the pairing-heap model refines a multiset of `(key, id)` pairs:
heap order (`Ordered`) is preserved by every operation, the root is a minimum, and the stored
elements change as the multiset operations prescribe (stated with `List.Perm`).
-/
import AdaptaVerif.Model.PairingHeap
import Mathlib.Tactic.Linarith
namespace AdaptaVerif.Lemmas.PairingHeap
open AdaptaVerif.Model.PairingHeap

variable {κ : Type} [DecidableEq κ]

/-- what the proofs need from the comparison `lt` (a strict weak order):
    with `a ≤ b :⇔ lt b a = false` -/
structure LtLaws (lt : κ → κ → Bool) : Prop where
  asymm : ∀ a b, lt a b = true → lt b a = false
  le_trans : ∀ a b c, lt b a = false → lt c b = false → lt c a = false

/-- `a ≤ b` in the order given by `lt` -/
def le (lt : κ → κ → Bool) (a b : κ) : Prop := lt b a = false

theorem le_refl' {lt : κ → κ → Bool} (hl : LtLaws lt) (a : κ) : le lt a a := by
  unfold le
  cases h : lt a a with
  | false => rfl
  | true => have := hl.asymm a a h; rw [h] at this; cases this

theorem le_of_lt' {lt : κ → κ → Bool} (hl : LtLaws lt) {a b : κ} (h : lt a b = true) : le lt a b := hl.asymm a b h

theorem le_of_not_lt' {lt : κ → κ → Bool} {a b : κ} (h : ¬ lt b a = true) : le lt a b := by
  unfold le; simpa using h

theorem le_trans' {lt : κ → κ → Bool} (hl : LtLaws lt) {a b c : κ} (h1 : le lt a b) (h2 : le lt b c) : le lt a c :=
  hl.le_trans a b c h1 h2

theorem ltRat_laws : LtLaws ltRat := by
  constructor
  · intro a b h; simp only [ltRat, decide_eq_true_eq, decide_eq_false_iff_not] at *; linarith
  · intro a b c h1 h2; simp only [ltRat, decide_eq_false_iff_not] at *; linarith

theorem ltDist_laws : LtLaws ltDist := by
  constructor
  · intro a b h
    cases a <;> cases b <;> simp only [ltDist, decide_eq_true_eq, decide_eq_false_iff_not] at * <;> first | rfl | linarith | trivial
  · intro a b c h1 h2
    cases a <;> cases b <;> cases c <;> simp only [ltDist, decide_eq_false_iff_not] at * <;>
      first | rfl | linarith | trivial | (exfalso; simp at h1) | (exfalso; simp at h2)

/-- `k ≤` every key stored in `t` -/
def keyLe (lt : κ → κ → Bool) (k : κ) (t : PTree κ) : Prop := ∀ x ∈ elems t, le lt k x.1

/-- heap order: every node's key is `≤` all keys below it -/
def Ordered (lt : κ → κ → Bool) : PTree κ → Prop
  | .nil => True
  | .node k _ c s => keyLe lt k c ∧ Ordered lt c ∧ Ordered lt s

/-- a root: no sibling -/
def Single : PTree κ → Prop
  | .nil => True
  | .node _ _ _ s => s = .nil

variable {lt : κ → κ → Bool}

theorem ordered_node {k : κ} {i : Nat} {c s : PTree κ} :
    Ordered lt (.node k i c s) ↔ keyLe lt k c ∧ Ordered lt c ∧ Ordered lt s := Iff.rfl

theorem ordered_nil : Ordered lt (.nil : PTree κ) := trivial

theorem keyLe_nil (k : κ) : keyLe lt k .nil := fun x hx => by cases hx

theorem keyLe_node {k k' : κ} {i : Nat} {c s : PTree κ} :
    keyLe lt k (.node k' i c s) ↔ le lt k k' ∧ keyLe lt k c ∧ keyLe lt k s := by
  unfold keyLe
  simp only [elems, List.mem_cons, List.mem_append]
  constructor
  · intro h
    exact ⟨h (k', i) (Or.inl rfl), fun x hx => h x (Or.inr (Or.inl hx)), fun x hx => h x (Or.inr (Or.inr hx))⟩
  · rintro ⟨h1, h2, h3⟩ x (rfl | hx | hx)
    · exact h1
    · exact h2 x hx
    · exact h3 x hx

theorem keyLe_mono (hl : LtLaws lt) {k k' : κ} {t : PTree κ} (h : keyLe lt k' t) (hk : le lt k k') : keyLe lt k t :=
  fun x hx => le_trans' hl hk (h x hx)

/-! ### link -/

theorem link_nil_right (a : PTree κ) : link lt a .nil = a := by cases a <;> rfl
theorem link_nil_left (b : PTree κ) : link lt .nil b = b := by cases b <;> rfl

theorem elems_link {a b : PTree κ} (ha : Single a) : (elems (link lt a b)).Perm (elems a ++ elems b) := by
  cases a with
  | nil => rw [link_nil_left]; simp [elems]
  | node ka ia ca sa =>
    cases b with
    | nil => rw [link_nil_right]; simp [elems]
    | node kb ib cb sb =>
      have hsa : sa = .nil := ha
      subst hsa
      by_cases hlt : lt kb ka = true
      · simp only [link, if_pos hlt]
        rw [List.perm_iff_count]
        intro x
        simp only [elems, List.count_cons, List.count_append, List.count_nil]
        omega
      · simp only [link, if_neg hlt]
        rw [List.perm_iff_count]
        intro x
        simp only [elems, List.count_cons, List.count_append, List.count_nil]
        omega

theorem ordered_link (hl : LtLaws lt) {a b : PTree κ} (ha : Ordered lt a) (hb : Ordered lt b) :
    Ordered lt (link lt a b) := by
  cases a with
  | nil => rw [link_nil_left]; exact hb
  | node ka ia ca sa =>
    cases b with
    | nil => rw [link_nil_right]; exact ha
    | node kb ib cb sb =>
      obtain ⟨ha1, ha2, _⟩ := ordered_node.mp ha
      obtain ⟨hb1, hb2, hb3⟩ := ordered_node.mp hb
      by_cases hlt : lt kb ka = true
      · simp only [link, if_pos hlt]
        have hle : le lt kb ka := le_of_lt' hl hlt
        exact ordered_node.mpr ⟨keyLe_node.mpr ⟨hle, keyLe_mono hl ha1 hle, hb1⟩,
          ordered_node.mpr ⟨ha1, ha2, hb2⟩, hb3⟩
      · simp only [link, if_neg hlt]
        have hle : le lt ka kb := le_of_not_lt' hlt
        exact ordered_node.mpr ⟨keyLe_node.mpr ⟨hle, keyLe_mono hl hb1 hle, ha1⟩,
          ordered_node.mpr ⟨hb1, hb2, ha2⟩, hb3⟩

theorem single_link {a b : PTree κ} (ha : Single a) (hb : Single b) : Single (link lt a b) := by
  cases a with
  | nil => rw [link_nil_left]; exact hb
  | node ka ia ca sa =>
    cases b with
    | nil => rw [link_nil_right]; exact ha
    | node kb ib cb sb =>
      by_cases hlt : lt kb ka = true
      · simp only [link, if_pos hlt]; exact hb
      · simp only [link, if_neg hlt]; exact hb

/-! ### insert, findMin, merge -/

theorem insert_spec (hl : LtLaws lt) {h : PTree κ} (hs : Single h) (ho : Ordered lt h) (k : κ) (i : Nat) :
    (elems (Model.PairingHeap.insert lt h k i)).Perm ((k, i) :: elems h) ∧
      Ordered lt (Model.PairingHeap.insert lt h k i) ∧ Single (Model.PairingHeap.insert lt h k i) := by
  have hnew : Ordered lt (.node k i .nil .nil) := ordered_node.mpr ⟨keyLe_nil k, ordered_nil, ordered_nil⟩
  have hsn : Single (.node k i .nil .nil : PTree κ) := rfl
  cases h with
  | nil => exact ⟨by simp [Model.PairingHeap.insert, elems], hnew, hsn⟩
  | node kh ih ch sh =>
    refine ⟨?_, ordered_link hl ho hnew, single_link hs hsn⟩
    have := elems_link (lt := lt) (b := .node k i .nil .nil) hs
    refine this.trans ?_
    simp only [elems, List.append_nil]
    exact List.perm_append_comm

/-- `findMin` returns an element of the heap whose key is minimal -/
theorem findMin_spec (hl : LtLaws lt) {h : PTree κ} (hs : Single h) (ho : Ordered lt h) {k : κ} {i : Nat}
    (hf : findMin h = some (k, i)) : (k, i) ∈ elems h ∧ ∀ x ∈ elems h, le lt k x.1 := by
  cases h with
  | nil => simp [findMin] at hf
  | node kh ih ch sh =>
    simp only [findMin, Option.some.injEq, Prod.mk.injEq] at hf
    obtain ⟨rfl, rfl⟩ := hf
    have hsh : sh = .nil := hs
    subst hsh
    refine ⟨by simp [elems], ?_⟩
    intro x hx
    simp only [elems, List.append_nil, List.mem_cons] at hx
    rcases hx with rfl | hx
    · exact le_refl' hl _
    · exact (ordered_node.mp ho).1 x hx

theorem findMin_none {h : PTree κ} : findMin h = none ↔ elems h = [] := by
  cases h <;> simp [findMin, elems]

theorem merge_spec (hl : LtLaws lt) {h r : PTree κ} (hs : Single h) (ho : Ordered lt h) (rs : Single r) (ro : Ordered lt r) :
    (elems (merge lt h r)).Perm (elems h ++ elems r) ∧ Ordered lt (merge lt h r) ∧ Single (merge lt h r) := by
  cases h with
  | nil => exact ⟨by simp [merge, elems], ro, rs⟩
  | node kh ih ch sh => exact ⟨elems_link hs, ordered_link hl ho ro, single_link hs rs⟩

/-! ### deleteMin (two-pass combineSiblings) -/

/-- all trees of a list are ordered roots -/
def Roots (lt : κ → κ → Bool) (l : List (PTree κ)) : Prop := ∀ t ∈ l, Single t ∧ Ordered lt t

def elemsL (l : List (PTree κ)) : List (κ × Nat) := l.flatMap elems

theorem siblings_spec : ∀ (t : PTree κ), Ordered lt t → Roots lt (siblings t) ∧ (elemsL (siblings t)).Perm (elems t) := by
  intro t
  induction t with
  | nil => intro _; exact ⟨fun t ht => by simp [siblings] at ht, by simp [siblings, elemsL, elems]⟩
  | node k i c s _ ihs =>
    intro ho
    obtain ⟨ho1, ho2, ho3⟩ := ordered_node.mp ho
    obtain ⟨h1, h2⟩ := ihs ho3
    constructor
    · intro t ht
      simp only [siblings, List.mem_cons] at ht
      rcases ht with rfl | ht
      · exact ⟨rfl, ordered_node.mpr ⟨ho1, ho2, ordered_nil⟩⟩
      · exact h1 t ht
    · simp only [siblings, elemsL, List.flatMap_cons, elems, List.append_nil]
      simp only [elemsL] at h2
      exact List.Perm.cons _ (List.Perm.append_left _ h2)

theorem pass1_spec (hl : LtLaws lt) : ∀ (l : List (PTree κ)), Roots lt l →
    Roots lt (pass1 lt l) ∧ (elemsL (pass1 lt l)).Perm (elemsL l) := by
  intro l
  induction l using pass1.induct with
  | case1 a b rest ih =>
    intro hr
    have ha := hr a (by simp)
    have hb := hr b (by simp)
    obtain ⟨h1, h2⟩ := ih (fun t ht => hr t (by simp [ht]))
    unfold pass1
    constructor
    · intro t ht
      rcases List.mem_cons.mp ht with rfl | ht
      · exact ⟨single_link ha.1 hb.1, ordered_link hl ha.2 hb.2⟩
      · exact h1 t ht
    · simp only [elemsL, List.flatMap_cons] at h2 ⊢
      rw [← List.append_assoc]
      exact List.Perm.append (elems_link ha.1) h2
  | case2 l hne =>
    intro hr
    have : pass1 lt l = l := by
      unfold pass1
      split
      · rename_i a b rest; exact absurd rfl (hne a b rest)
      · rfl
    rw [this]; exact ⟨hr, List.Perm.refl _⟩

theorem pass2_spec (hl : LtLaws lt) : ∀ (l : List (PTree κ)), Roots lt l →
    Single (pass2 lt l) ∧ Ordered lt (pass2 lt l) ∧ (elems (pass2 lt l)).Perm (elemsL l) := by
  intro l
  induction l using pass2.induct with
  | case1 => intro _; exact ⟨trivial, ordered_nil, by simp [pass2, elems, elemsL]⟩
  | case2 a => intro hr; exact ⟨(hr a (by simp)).1, (hr a (by simp)).2, by simp [pass2, elemsL]⟩
  | case3 a rest hne ih =>
    intro hr
    have ha := hr a (by simp)
    obtain ⟨h1, h2, h3⟩ := ih (fun t ht => hr t (by simp [ht]))
    have hp : pass2 lt (a :: rest) = link lt a (pass2 lt rest) := by
      cases rest with
      | nil => exact absurd rfl hne
      | cons b r => rfl
    rw [hp]
    refine ⟨single_link ha.1 h1, ordered_link hl ha.2 h2, ?_⟩
    simp only [elemsL, List.flatMap_cons] at h3 ⊢
    exact (elems_link ha.1).trans (List.Perm.append_left _ h3)

/-- `deleteMin` removes exactly the root element and re-establishes a heap-ordered root -/
theorem deleteMin_spec (hl : LtLaws lt) {k : κ} {i : Nat} {c : PTree κ} (ho : Ordered lt (.node k i c .nil)) :
    (elems (.node k i c .nil)).Perm ((k, i) :: elems (deleteMin lt (.node k i c .nil))) ∧
    Ordered lt (deleteMin lt (.node k i c .nil)) ∧ Single (deleteMin lt (.node k i c .nil)) := by
  obtain ⟨hs1, hs2⟩ := siblings_spec c (ordered_node.mp ho).2.1
  obtain ⟨hp1, hp2⟩ := pass1_spec hl _ hs1
  obtain ⟨h1, h2, h3⟩ := pass2_spec hl _ hp1
  refine ⟨?_, h2, h1⟩
  simp only [elems, List.append_nil, deleteMin, combineSiblings]
  exact List.Perm.cons _ ((h3.trans (hp2.trans hs2)).symm)

/-! ### decreaseKey -/

theorem detach_spec (id : Nat) : ∀ (t : PTree κ), Ordered lt t →
    (∀ t' d, detach id t = (t', some d) →
      (∃ kd cd, d = .node kd id cd .nil) ∧ Ordered lt d ∧ Ordered lt t' ∧ (elems t).Perm (elems d ++ elems t')) ∧
    (∀ t', detach id t = (t', none) → t' = t ∧ ∀ x ∈ elems t, x.2 ≠ id) := by
  intro t
  induction t with
  | nil =>
    intro _
    exact ⟨fun t' d h => by simp [detach] at h,
      fun t' h => by simp [detach] at h; exact ⟨h.symm, fun x hx => by cases hx⟩⟩
  | node k i c s ihc ihs =>
    intro ho
    obtain ⟨hkc, hoc, hos⟩ := ordered_node.mp ho
    obtain ⟨ihc1, ihc2⟩ := ihc hoc
    obtain ⟨ihs1, ihs2⟩ := ihs hos
    unfold detach
    by_cases hid : i = id
    · rw [if_pos hid]
      constructor
      · intro t' d h
        simp only [Prod.mk.injEq, Option.some.injEq] at h
        obtain ⟨rfl, rfl⟩ := h
        refine ⟨⟨k, c, by rw [hid]⟩, ordered_node.mpr ⟨hkc, hoc, ordered_nil⟩, hos, ?_⟩
        simp [elems]
      · intro t' h; simp at h
    · rw [if_neg hid]
      cases hdc : detach id c with
      | mk c' rc =>
        cases rc with
        | some dt =>
          simp only
          constructor
          · intro t' d h
            simp only [Prod.mk.injEq, Option.some.injEq] at h
            obtain ⟨rfl, rfl⟩ := h
            obtain ⟨hform, hod, hoc', hperm⟩ := ihc1 c' dt hdc
            refine ⟨hform, hod, ordered_node.mpr ⟨?_, hoc', hos⟩, ?_⟩
            · intro x hx
              exact hkc x (hperm.mem_iff.mpr (List.mem_append_right _ hx))
            · simp only [elems]
              rw [List.perm_iff_count] at hperm ⊢
              intro x
              have := hperm x
              simp only [List.count_cons, List.count_append] at this ⊢
              omega
          · intro t' h; simp at h
        | none =>
          simp only
          obtain ⟨hc', hcno⟩ := ihc2 c' hdc
          cases hds : detach id s with
          | mk s' rs =>
            simp only
            constructor
            · intro t' d h
              simp only [Prod.mk.injEq] at h
              obtain ⟨rfl, rfl⟩ := h
              obtain ⟨hform, hod, hos', hperm⟩ := ihs1 s' d hds
              refine ⟨hform, hod, ordered_node.mpr ⟨hkc, hoc, hos'⟩, ?_⟩
              simp only [elems]
              rw [List.perm_iff_count] at hperm ⊢
              intro x
              have := hperm x
              simp only [List.count_cons, List.count_append] at this ⊢
              omega
            · intro t' h
              simp only [Prod.mk.injEq] at h
              obtain ⟨rfl, rfl⟩ := h
              obtain ⟨hs', hsno⟩ := ihs2 s' hds
              refine ⟨by rw [hs'], ?_⟩
              intro x hx
              simp only [elems, List.mem_cons, List.mem_append] at hx
              rcases hx with rfl | hx | hx
              · exact hid
              · exact hcno x hx
              · exact hsno x hx

/-- `decreaseKey` on an ordered root: either `id` is not stored and nothing changes, or exactly one
    stored pair `(old, id)` becomes `(new, id)`, the result is a root, and heap order survives when
    the new key is not larger than the old one -/
theorem decreaseKey_spec (hl : LtLaws lt) {h : PTree κ} (hs : Single h) (ho : Ordered lt h) (id : Nat) (nk : κ) :
    (decreaseKey lt h id nk = h ∧ ∀ x ∈ elems h, x.2 ≠ id) ∨
    (∃ ok rest, (elems h).Perm ((ok, id) :: rest) ∧ (elems (decreaseKey lt h id nk)).Perm ((nk, id) :: rest) ∧
      Single (decreaseKey lt h id nk) ∧ (le lt nk ok → Ordered lt (decreaseKey lt h id nk))) := by
  cases h with
  | nil => left; exact ⟨rfl, fun x hx => by cases hx⟩
  | node k i c s =>
    have hsn : s = .nil := hs
    subst hsn
    obtain ⟨hkc, hoc, _⟩ := ordered_node.mp ho
    by_cases hid : i = id
    · simp only [decreaseKey, if_pos hid]
      right
      refine ⟨k, elems c ++ [], ?_, ?_, rfl, ?_⟩
      · rw [← hid]; simp [elems]
      · rw [← hid]; simp [elems]
      · intro hle; exact ordered_node.mpr ⟨keyLe_mono hl hkc hle, hoc, ordered_nil⟩
    · simp only [decreaseKey, if_neg hid]
      obtain ⟨hd1, hd2⟩ := detach_spec (lt := lt) id c hoc
      cases hdc : detach id c with
      | mk c' rc =>
        cases rc with
        | none =>
          left
          obtain ⟨_, hno⟩ := hd2 c' hdc
          refine ⟨rfl, ?_⟩
          intro x hx
          simp only [elems, List.append_nil, List.mem_cons] at hx
          rcases hx with rfl | hx
          · exact hid
          · exact hno x hx
        | some d =>
          simp only
          right
          obtain ⟨⟨kd, cd, rfl⟩, hod, hoc', hperm⟩ := hd1 c' _ hdc
          have hroot : Single (.node k i c' .nil : PTree κ) := rfl
          have hkc' : keyLe lt k c' := fun x hx => hkc x (hperm.mem_iff.mpr (List.mem_append_right _ hx))
          refine ⟨kd, (k, i) :: (elems cd ++ elems c'), ?_, ?_, single_link hroot rfl, ?_⟩
          · simp only [elems, List.append_nil]
            rw [List.perm_iff_count] at hperm ⊢
            intro x
            have := hperm x
            simp only [elems, List.append_nil, List.count_cons, List.count_append] at this ⊢
            omega
          · refine (elems_link hroot).trans ?_
            simp only [setKey, elems, List.append_nil]
            rw [List.perm_iff_count]
            intro x
            simp only [List.count_cons, List.count_append]
            omega
          · intro hle
            apply ordered_link hl (ordered_node.mpr ⟨hkc', hoc', ordered_nil⟩)
            exact ordered_node.mpr ⟨keyLe_mono hl (ordered_node.mp hod).1 hle, (ordered_node.mp hod).2.1, ordered_nil⟩

/-! ### arbitrary operation sequences -/

inductive Op (κ : Type) where
  | insert (key : κ) (id : Nat)
  | deleteMin
  | decreaseKey (id : Nat) (newKey : κ)
  | merge (items : List (κ × Nat))      -- a second heap built by inserting `items`, then merged

def build (lt : κ → κ → Bool) (items : List (κ × Nat)) : PTree κ :=
  items.foldl (fun h x => Model.PairingHeap.insert lt h x.1 x.2) .nil

def applyOp (lt : κ → κ → Bool) (h : PTree κ) : Op κ → PTree κ
  | .insert k i => Model.PairingHeap.insert lt h k i
  | .deleteMin => deleteMin lt h
  | .decreaseKey i nk => decreaseKey lt h i nk
  | .merge items => merge lt h (build lt items)

/-- the documented precondition of `decreaseKey`: the new value is not larger than the stored one -/
def Legal (lt : κ → κ → Bool) (h : PTree κ) : Op κ → Prop
  | .decreaseKey i nk => ∀ x ∈ elems h, x.2 = i → le lt nk x.1
  | _ => True

/-- every operation of a legal sequence is legal in the state it is applied to -/
def LegalSeq (lt : κ → κ → Bool) : PTree κ → List (Op κ) → Prop
  | _, [] => True
  | h, op :: rest => Legal lt h op ∧ LegalSeq lt (applyOp lt h op) rest

/-- a heap-ordered root (or the empty heap) -/
def Good (lt : κ → κ → Bool) (h : PTree κ) : Prop := Single h ∧ Ordered lt h

theorem good_nil : Good lt (.nil : PTree κ) := ⟨trivial, ordered_nil⟩

theorem good_insert (hl : LtLaws lt) {h : PTree κ} (hg : Good lt h) (k : κ) (i : Nat) :
    Good lt (Model.PairingHeap.insert lt h k i) :=
  ⟨(insert_spec hl hg.1 hg.2 k i).2.2, (insert_spec hl hg.1 hg.2 k i).2.1⟩

theorem good_deleteMin (hl : LtLaws lt) {h : PTree κ} (hg : Good lt h) : Good lt (deleteMin lt h) := by
  cases h with
  | nil => exact ⟨trivial, ordered_nil⟩
  | node k i c s =>
    have hs : s = .nil := hg.1
    subst hs
    exact ⟨(deleteMin_spec hl hg.2).2.2, (deleteMin_spec hl hg.2).2.1⟩

theorem good_build (hl : LtLaws lt) (items : List (κ × Nat)) : Good lt (build lt items) := by
  unfold build
  have : ∀ (l : List (κ × Nat)) (h : PTree κ), Good lt h →
      Good lt (l.foldl (fun h x => Model.PairingHeap.insert lt h x.1 x.2) h) := by
    intro l
    induction l with
    | nil => intro h hg; exact hg
    | cons x rest ih => intro h hg; exact ih _ (good_insert hl hg x.1 x.2)
  exact this items .nil good_nil

theorem good_applyOp (hl : LtLaws lt) {h : PTree κ} (hg : Good lt h) {op : Op κ} (hlg : Legal lt h op) :
    Good lt (applyOp lt h op) := by
  cases op with
  | insert k i => exact good_insert hl hg k i
  | deleteMin => exact good_deleteMin hl hg
  | decreaseKey i nk =>
    rcases decreaseKey_spec hl hg.1 hg.2 i nk with ⟨e, _⟩ | ⟨ok, rest, hp, _, hs, ho⟩
    · show Good lt (decreaseKey lt h i nk); rw [e]; exact hg
    · refine ⟨hs, ho ?_⟩
      exact hlg (ok, i) (hp.mem_iff.mpr (List.mem_cons_self)) rfl
  | merge items =>
    have hb := good_build hl items
    exact ⟨(merge_spec hl hg.1 hg.2 hb.1 hb.2).2.2, (merge_spec hl hg.1 hg.2 hb.1 hb.2).2.1⟩

theorem good_run (hl : LtLaws lt) : ∀ (ops : List (Op κ)) (h : PTree κ), Good lt h → LegalSeq lt h ops →
    Good lt (ops.foldl (applyOp lt) h) := by
  intro ops
  induction ops with
  | nil => intro h hg _; exact hg
  | cons op rest ih => intro h hg hlg; exact ih _ (good_applyOp hl hg hlg.1) hlg.2

end AdaptaVerif.Lemmas.PairingHeap
