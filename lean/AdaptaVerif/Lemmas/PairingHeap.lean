/-
C17 — the pairing-heap model refines a multiset of `(key, id)` pairs:
heap order (`Ordered`) is preserved by every operation, the root is a minimum, and the stored
elements change as the multiset operations prescribe (stated with `List.Perm`).
-/
import AdaptaVerif.Model.PairingHeap
import Mathlib.Tactic.Linarith
namespace AdaptaVerif.Lemmas.PairingHeap
open AdaptaVerif.Model.PairingHeap

/-- `k ≤` every key stored in `t` -/
def keyLe (k : Rat) (t : PTree) : Prop := ∀ x ∈ elems t, k ≤ x.1

/-- heap order: every node's key is `≤` all keys below it -/
def Ordered : PTree → Prop
  | .nil => True
  | .node k _ c s => keyLe k c ∧ Ordered c ∧ Ordered s

/-- a root: no sibling -/
def Single : PTree → Prop
  | .nil => True
  | .node _ _ _ s => s = .nil

theorem ordered_node {k : Rat} {i : Nat} {c s : PTree} :
    Ordered (.node k i c s) ↔ keyLe k c ∧ Ordered c ∧ Ordered s := Iff.rfl

theorem ordered_nil : Ordered .nil := trivial

theorem keyLe_nil (k : Rat) : keyLe k .nil := fun x hx => by cases hx

theorem keyLe_node {k k' : Rat} {i : Nat} {c s : PTree} :
    keyLe k (.node k' i c s) ↔ k ≤ k' ∧ keyLe k c ∧ keyLe k s := by
  unfold keyLe
  simp only [elems, List.mem_cons, List.mem_append]
  constructor
  · intro h
    exact ⟨h (k', i) (Or.inl rfl), fun x hx => h x (Or.inr (Or.inl hx)), fun x hx => h x (Or.inr (Or.inr hx))⟩
  · rintro ⟨h1, h2, h3⟩ x (rfl | hx | hx)
    · exact h1
    · exact h2 x hx
    · exact h3 x hx

theorem keyLe_mono {k k' : Rat} {t : PTree} (h : keyLe k' t) (hk : k ≤ k') : keyLe k t :=
  fun x hx => le_trans hk (h x hx)

theorem keyLe_perm {k : Rat} {t t' : PTree} (hp : (elems t').Perm (elems t)) (h : keyLe k t) : keyLe k t' :=
  fun x hx => h x (hp.mem_iff.mp hx)

/-! ### link -/

theorem link_nil_right (a : PTree) : link a .nil = a := by cases a <;> rfl
theorem link_nil_left (b : PTree) : link .nil b = b := by cases b <;> rfl

theorem elems_link {a b : PTree} (ha : Single a) : (elems (link a b)).Perm (elems a ++ elems b) := by
  cases a with
  | nil => rw [link_nil_left]; simp [elems]
  | node ka ia ca sa =>
    cases b with
    | nil => rw [link_nil_right]; simp [elems]
    | node kb ib cb sb =>
      have hsa : sa = .nil := ha
      subst hsa
      by_cases hlt : kb < ka
      · simp only [link, if_pos hlt]
        rw [List.perm_iff_count]
        intro x
        simp only [elems, List.count_cons, List.count_append, List.count_nil]
        omega
      · simp only [link, if_neg hlt]
        rw [List.perm_iff_count]
        intro x
        simp only [elems, List.count_cons, List.count_append, List.count_nil]
        omega

theorem ordered_link {a b : PTree} (ha : Ordered a) (hb : Ordered b) : Ordered (link a b) := by
  cases a with
  | nil => rw [link_nil_left]; exact hb
  | node ka ia ca sa =>
    cases b with
    | nil => rw [link_nil_right]; exact ha
    | node kb ib cb sb =>
      obtain ⟨ha1, ha2, _⟩ := ordered_node.mp ha
      obtain ⟨hb1, hb2, hb3⟩ := ordered_node.mp hb
      by_cases hlt : kb < ka
      · simp only [link, if_pos hlt]
        exact ordered_node.mpr ⟨keyLe_node.mpr ⟨le_of_lt hlt, keyLe_mono ha1 (le_of_lt hlt), hb1⟩,
          ordered_node.mpr ⟨ha1, ha2, hb2⟩, hb3⟩
      · simp only [link, if_neg hlt]
        have hle : ka ≤ kb := not_lt.mp hlt
        exact ordered_node.mpr ⟨keyLe_node.mpr ⟨hle, keyLe_mono hb1 hle, ha1⟩,
          ordered_node.mpr ⟨hb1, hb2, ha2⟩, hb3⟩

theorem single_link {a b : PTree} (ha : Single a) (hb : Single b) : Single (link a b) := by
  cases a with
  | nil => rw [link_nil_left]; exact hb
  | node ka ia ca sa =>
    cases b with
    | nil => rw [link_nil_right]; exact ha
    | node kb ib cb sb =>
      by_cases hlt : kb < ka
      · simp only [link, if_pos hlt]; exact hb
      · simp only [link, if_neg hlt]; exact hb

/-! ### insert, findMin, merge -/

theorem insert_spec {h : PTree} (hs : Single h) (ho : Ordered h) (k : Rat) (i : Nat) :
    (elems (insert h k i)).Perm ((k, i) :: elems h) ∧ Ordered (insert h k i) ∧ Single (insert h k i) := by
  have hnew : Ordered (.node k i .nil .nil) := ordered_node.mpr ⟨keyLe_nil k, ordered_nil, ordered_nil⟩
  have hsn : Single (.node k i .nil .nil) := rfl
  cases h with
  | nil => exact ⟨by simp [Model.PairingHeap.insert, elems], hnew, hsn⟩
  | node kh ih ch sh =>
    refine ⟨?_, ordered_link ho hnew, single_link hs hsn⟩
    have := elems_link (b := .node k i .nil .nil) hs
    refine this.trans ?_
    simp only [elems, List.append_nil]
    exact List.perm_append_comm

/-- `findMin` returns an element of the heap whose key is minimal -/
theorem findMin_spec {h : PTree} (hs : Single h) (ho : Ordered h) {k : Rat} {i : Nat}
    (hf : findMin h = some (k, i)) : (k, i) ∈ elems h ∧ ∀ x ∈ elems h, k ≤ x.1 := by
  cases h with
  | nil => simp [findMin] at hf
  | node kh ih ch sh =>
    simp only [findMin, Option.some.injEq, Prod.mk.injEq] at hf
    obtain ⟨rfl, rfl⟩ := hf
    have hsh : sh = .nil := hs
    subst hsh
    refine ⟨by simp [elems], ?_⟩
    intro x hx
    simp only [elems, List.append_nil, List.mem_cons] at hx
    rcases hx with rfl | hx
    · exact le_refl _
    · exact (ordered_node.mp ho).1 x hx

theorem findMin_none {h : PTree} : findMin h = none ↔ elems h = [] := by
  cases h <;> simp [findMin, elems]

theorem merge_spec {h r : PTree} (hs : Single h) (ho : Ordered h) (rs : Single r) (ro : Ordered r) :
    (elems (merge h r)).Perm (elems h ++ elems r) ∧ Ordered (merge h r) ∧ Single (merge h r) := by
  cases h with
  | nil => exact ⟨by simp [merge, elems], ro, rs⟩
  | node kh ih ch sh => exact ⟨elems_link hs, ordered_link ho ro, single_link hs rs⟩

/-! ### deleteMin (two-pass combineSiblings) -/

/-- all trees of a list are ordered roots -/
def Roots (l : List PTree) : Prop := ∀ t ∈ l, Single t ∧ Ordered t

def elemsL (l : List PTree) : List (Rat × Nat) := l.flatMap elems

theorem siblings_spec : ∀ (t : PTree), Ordered t → Roots (siblings t) ∧ (elemsL (siblings t)).Perm (elems t) := by
  intro t
  induction t with
  | nil => intro _; exact ⟨fun t ht => by simp [siblings] at ht, by simp [siblings, elemsL, elems]⟩
  | node k i c s _ ihs =>
    intro ho
    obtain ⟨ho1, ho2, ho3⟩ := ordered_node.mp ho
    obtain ⟨h1, h2⟩ := ihs ho3
    constructor
    · intro t ht
      simp only [siblings, List.mem_cons] at ht
      rcases ht with rfl | ht
      · exact ⟨rfl, ordered_node.mpr ⟨ho1, ho2, ordered_nil⟩⟩
      · exact h1 t ht
    · simp only [siblings, elemsL, List.flatMap_cons, elems, List.append_nil]
      simp only [elemsL] at h2
      exact List.Perm.cons _ (List.Perm.append_left _ h2)

theorem pass1_spec : ∀ (l : List PTree), Roots l → Roots (pass1 l) ∧ (elemsL (pass1 l)).Perm (elemsL l) := by
  intro l
  induction l using pass1.induct with
  | case1 a b rest ih =>
    intro hr
    have ha := hr a (by simp)
    have hb := hr b (by simp)
    obtain ⟨h1, h2⟩ := ih (fun t ht => hr t (by simp [ht]))
    unfold pass1
    constructor
    · intro t ht
      rcases List.mem_cons.mp ht with rfl | ht
      · exact ⟨single_link ha.1 hb.1, ordered_link ha.2 hb.2⟩
      · exact h1 t ht
    · simp only [elemsL, List.flatMap_cons] at h2 ⊢
      rw [← List.append_assoc]
      exact List.Perm.append (elems_link ha.1) h2
  | case2 l hne =>
    intro hr
    have : pass1 l = l := by
      unfold pass1
      split
      · rename_i a b rest; exact absurd rfl (hne a b rest)
      · rfl
    rw [this]; exact ⟨hr, List.Perm.refl _⟩

theorem pass2_spec : ∀ (l : List PTree), Roots l →
    Single (pass2 l) ∧ Ordered (pass2 l) ∧ (elems (pass2 l)).Perm (elemsL l) := by
  intro l
  induction l using pass2.induct with
  | case1 => intro _; exact ⟨trivial, ordered_nil, by simp [pass2, elems, elemsL]⟩
  | case2 a => intro hr; exact ⟨(hr a (by simp)).1, (hr a (by simp)).2, by simp [pass2, elemsL]⟩
  | case3 a rest hne ih =>
    intro hr
    have ha := hr a (by simp)
    obtain ⟨h1, h2, h3⟩ := ih (fun t ht => hr t (by simp [ht]))
    have hp : pass2 (a :: rest) = link a (pass2 rest) := by
      cases rest with
      | nil => exact absurd rfl hne
      | cons b r => rfl
    rw [hp]
    refine ⟨single_link ha.1 h1, ordered_link ha.2 h2, ?_⟩
    simp only [elemsL, List.flatMap_cons] at h3 ⊢
    exact (elems_link ha.1).trans (List.Perm.append_left _ h3)

/-- `deleteMin` removes exactly the root element and re-establishes a heap-ordered root -/
theorem deleteMin_spec {k : Rat} {i : Nat} {c : PTree} (ho : Ordered (.node k i c .nil)) :
    (elems (.node k i c .nil)).Perm ((k, i) :: elems (deleteMin (.node k i c .nil))) ∧
    Ordered (deleteMin (.node k i c .nil)) ∧ Single (deleteMin (.node k i c .nil)) := by
  obtain ⟨hs1, hs2⟩ := siblings_spec c (ordered_node.mp ho).2.1
  obtain ⟨hp1, hp2⟩ := pass1_spec _ hs1
  obtain ⟨h1, h2, h3⟩ := pass2_spec _ hp1
  refine ⟨?_, h2, h1⟩
  simp only [elems, List.append_nil, deleteMin, combineSiblings]
  exact List.Perm.cons _ ((h3.trans (hp2.trans hs2)).symm)

/-! ### decreaseKey -/

theorem detach_spec (id : Nat) : ∀ (t : PTree), Ordered t →
    (∀ t' d, detach id t = (t', some d) →
      (∃ kd cd, d = .node kd id cd .nil) ∧ Ordered d ∧ Ordered t' ∧ (elems t).Perm (elems d ++ elems t')) ∧
    (∀ t', detach id t = (t', none) → t' = t) := by
  intro t
  induction t with
  | nil =>
    intro _
    exact ⟨fun t' d h => by simp [detach] at h, fun t' h => by simp [detach] at h; exact h.symm⟩
  | node k i c s ihc ihs =>
    intro ho
    obtain ⟨hkc, hoc, hos⟩ := ordered_node.mp ho
    obtain ⟨ihc1, ihc2⟩ := ihc hoc
    obtain ⟨ihs1, ihs2⟩ := ihs hos
    unfold detach
    by_cases hid : i = id
    · rw [if_pos hid]
      constructor
      · intro t' d h
        simp only [Prod.mk.injEq, Option.some.injEq] at h
        obtain ⟨rfl, rfl⟩ := h
        refine ⟨⟨k, c, by rw [hid]⟩, ordered_node.mpr ⟨hkc, hoc, ordered_nil⟩, hos, ?_⟩
        simp [elems]
      · intro t' h; simp at h
    · rw [if_neg hid]
      cases hdc : detach id c with
      | mk c' rc =>
        cases rc with
        | some dt =>
          simp only
          constructor
          · intro t' d h
            simp only [Prod.mk.injEq, Option.some.injEq] at h
            obtain ⟨rfl, rfl⟩ := h
            obtain ⟨hform, hod, hoc', hperm⟩ := ihc1 c' dt hdc
            refine ⟨hform, hod, ordered_node.mpr ⟨?_, hoc', hos⟩, ?_⟩
            · intro x hx
              exact hkc x (hperm.mem_iff.mpr (List.mem_append_right _ hx))
            · simp only [elems]
              rw [List.perm_iff_count] at hperm ⊢
              intro x
              have := hperm x
              simp only [List.count_cons, List.count_append] at this ⊢
              omega
          · intro t' h; simp at h
        | none =>
          simp only
          have hc' : c' = c := ihc2 c' hdc
          cases hds : detach id s with
          | mk s' rs =>
            simp only
            constructor
            · intro t' d h
              simp only [Prod.mk.injEq] at h
              obtain ⟨rfl, rfl⟩ := h
              obtain ⟨hform, hod, hos', hperm⟩ := ihs1 s' d hds
              refine ⟨hform, hod, ordered_node.mpr ⟨hkc, hoc, hos'⟩, ?_⟩
              simp only [elems]
              rw [List.perm_iff_count] at hperm ⊢
              intro x
              have := hperm x
              simp only [List.count_cons, List.count_append] at this ⊢
              omega
            · intro t' h
              simp only [Prod.mk.injEq] at h
              obtain ⟨rfl, rfl⟩ := h
              rw [ihs2 s' hds]

/-- `decreaseKey` on an ordered root: heap order survives when the new key is not larger than the
    old one, and exactly one stored pair `(old, id)` becomes `(new, id)` (or nothing changes when
    `id` is not in the heap) -/
theorem decreaseKey_spec {h : PTree} (hs : Single h) (ho : Ordered h) (id : Nat) (nk : Rat) :
    decreaseKey h id nk = h ∨
    (∃ ok rest, (elems h).Perm ((ok, id) :: rest) ∧ (elems (decreaseKey h id nk)).Perm ((nk, id) :: rest) ∧
      Single (decreaseKey h id nk) ∧ (nk ≤ ok → Ordered (decreaseKey h id nk))) := by
  cases h with
  | nil => left; rfl
  | node k i c s =>
    have hsn : s = .nil := hs
    subst hsn
    obtain ⟨hkc, hoc, _⟩ := ordered_node.mp ho
    by_cases hid : i = id
    · simp only [decreaseKey, if_pos hid]
      right
      refine ⟨k, elems c ++ [], ?_, ?_, rfl, ?_⟩
      · rw [← hid]; simp [elems]
      · rw [← hid]; simp [elems]
      · intro hle; exact ordered_node.mpr ⟨keyLe_mono hkc hle, hoc, ordered_nil⟩
    · simp only [decreaseKey, if_neg hid]
      obtain ⟨hd1, hd2⟩ := detach_spec id c hoc
      cases hdc : detach id c with
      | mk c' rc =>
        cases rc with
        | none => left; rfl
        | some d =>
          simp only
          right
          obtain ⟨⟨kd, cd, rfl⟩, hod, hoc', hperm⟩ := hd1 c' _ hdc
          have hroot : Single (.node k i c' .nil) := rfl
          have hkc' : keyLe k c' := fun x hx => hkc x (hperm.mem_iff.mpr (List.mem_append_right _ hx))
          refine ⟨kd, (k, i) :: (elems cd ++ elems c'), ?_, ?_, single_link hroot rfl, ?_⟩
          · simp only [elems, List.append_nil]
            rw [List.perm_iff_count] at hperm ⊢
            intro x
            have := hperm x
            simp only [elems, List.append_nil, List.count_cons, List.count_append] at this ⊢
            omega
          · refine (elems_link hroot).trans ?_
            simp only [setKey, elems, List.append_nil]
            rw [List.perm_iff_count]
            intro x
            simp only [List.count_cons, List.count_append]
            omega
          · intro hle
            apply ordered_link (ordered_node.mpr ⟨hkc', hoc', ordered_nil⟩)
            exact ordered_node.mpr ⟨keyLe_mono (ordered_node.mp hod).1 hle, (ordered_node.mp hod).2.1, ordered_nil⟩

/-! ### arbitrary operation sequences -/

inductive Op where
  | insert (key : Rat) (id : Nat)
  | deleteMin
  | decreaseKey (id : Nat) (newKey : Rat)
  | merge (items : List (Rat × Nat))      -- a second heap built by inserting `items`, then merged

def build (items : List (Rat × Nat)) : PTree :=
  items.foldl (fun h x => Model.PairingHeap.insert h x.1 x.2) .nil

def applyOp (h : PTree) : Op → PTree
  | .insert k i => Model.PairingHeap.insert h k i
  | .deleteMin => deleteMin h
  | .decreaseKey i nk => decreaseKey h i nk
  | .merge items => merge h (build items)

/-- the documented precondition of `decreaseKey`: the new value is not larger than the stored one -/
def Legal (h : PTree) : Op → Prop
  | .decreaseKey i nk => ∀ x ∈ elems h, x.2 = i → nk ≤ x.1
  | _ => True

/-- every operation of a legal sequence is legal in the state it is applied to -/
def LegalSeq : PTree → List Op → Prop
  | _, [] => True
  | h, op :: rest => Legal h op ∧ LegalSeq (applyOp h op) rest

/-- a heap-ordered root (or the empty heap) -/
def Good (h : PTree) : Prop := Single h ∧ Ordered h

theorem good_build (items : List (Rat × Nat)) : Good (build items) := by
  unfold build
  have : ∀ (l : List (Rat × Nat)) (h : PTree), Good h →
      Good (l.foldl (fun h x => Model.PairingHeap.insert h x.1 x.2) h) := by
    intro l
    induction l with
    | nil => intro h hg; exact hg
    | cons x rest ih => intro h hg; exact ih _ ⟨(insert_spec hg.1 hg.2 x.1 x.2).2.2, (insert_spec hg.1 hg.2 x.1 x.2).2.1⟩
  exact this items .nil ⟨trivial, ordered_nil⟩

theorem good_applyOp {h : PTree} (hg : Good h) {op : Op} (hl : Legal h op) : Good (applyOp h op) := by
  cases op with
  | insert k i => exact ⟨(insert_spec hg.1 hg.2 k i).2.2, (insert_spec hg.1 hg.2 k i).2.1⟩
  | deleteMin =>
    cases h with
    | nil => exact ⟨trivial, ordered_nil⟩
    | node k i c s =>
      have hs : s = .nil := hg.1
      subst hs
      exact ⟨(deleteMin_spec hg.2).2.2, (deleteMin_spec hg.2).2.1⟩
  | decreaseKey i nk =>
    rcases decreaseKey_spec hg.1 hg.2 i nk with e | ⟨ok, rest, hp, _, hs, ho⟩
    · show Good (decreaseKey h i nk); rw [e]; exact hg
    · refine ⟨hs, ho ?_⟩
      exact hl (ok, i) (hp.mem_iff.mpr (List.mem_cons_self)) rfl
  | merge items =>
    have hb := good_build items
    exact ⟨(merge_spec hg.1 hg.2 hb.1 hb.2).2.2, (merge_spec hg.1 hg.2 hb.1 hb.2).2.1⟩

theorem good_run : ∀ (ops : List Op) (h : PTree), Good h → LegalSeq h ops → Good (ops.foldl applyOp h) := by
  intro ops
  induction ops with
  | nil => intro h hg _; exact hg
  | cons op rest ih => intro h hg hl; exact ih _ (good_applyOp hg hl.1) hl.2

end AdaptaVerif.Lemmas.PairingHeap
