/-
`getConnComps` satisfies the property-text specification `Spec.GraphParts.CompsSpec`
(bundle of the `comps_*` theorems of `Lemmas/PeelComps.lean`). Core Lean only.
-/
import AdaptaVerif.Lemmas.PeelComps
import AdaptaVerif.Spec.GraphParts

namespace AdaptaVerif.Lemmas.PeelComps
open AdaptaVerif.Spec.UGraph AdaptaVerif.Model.Peel
open AdaptaVerif.Spec.GraphParts (SameEdge HasEdge ExactlyOne CompsSpec)

/-- local copy (kept private so that it cannot clash with `PeelModel.exactlyOne_of_pairwise`) -/
private theorem exactlyOne_of_pw {α : Type} {l : List α} {P : α → Prop}
    (hpw : l.Pairwise (fun a b => ¬ (P a ∧ P b))) {a : α} (ha : a ∈ l) (hp : P a) :
    ExactlyOne l P := by
  obtain ⟨l1, l2, hl⟩ := List.append_of_mem ha
  rw [hl] at hpw
  have h2 := List.pairwise_append.1 hpw
  refine ⟨l1, a, l2, hl, hp, fun b hb hPb => ?_, fun b hb hPb => ?_⟩
  · exact h2.2.2 b hb a List.mem_cons_self ⟨hPb, hp⟩
  · exact (List.pairwise_cons.1 h2.2.1).1 b hb ⟨hp, hPb⟩

section
variable {ns : List Nat} {es : List (Nat × Nat)} {cs : List Comp}

/-- a component holding an edge (in either orientation) holds its source node -/
theorem comps_hasEdge_src (h : getConnComps ns es = some cs)
    (hE : ∀ e, e ∈ es → e.1 ∈ ns ∧ e.2 ∈ ns) {c : Comp} (hc : c ∈ cs) {e : Nat × Nat}
    (he : HasEdge c.edges e) : e.1 ∈ c.nodes := by
  obtain ⟨f, hf, hs⟩ := he
  cases hs with
  | inl heq => exact heq ▸ ((comps_edges_iff h hE c hc f).1 hf).2
  | inr heq =>
    rw [heq]
    exact ((comps_edges_iff' h hE c hc f).1 hf).2

theorem comps_node_once (h : getConnComps ns es = some cs)
    (hE : ∀ e, e ∈ es → e.1 ∈ ns ∧ e.2 ∈ ns) :
    ∀ v, v ∈ ns → ExactlyOne cs (fun c => v ∈ c.nodes) := by
  intro v hv
  obtain ⟨c, hc, hvc⟩ := comps_cover h hE v hv
  refine exactlyOne_of_pw ?_ hc hvc
  exact List.Pairwise.imp (fun {a b} hab hboth => hab v hboth.1 hboth.2) (comps_disjoint h hE)

theorem comps_edge_once (h : getConnComps ns es = some cs)
    (hE : ∀ e, e ∈ es → e.1 ∈ ns ∧ e.2 ∈ ns) :
    ∀ e, e ∈ es → ExactlyOne cs (fun c => HasEdge c.edges e) := by
  intro e he
  obtain ⟨c, hc, hec⟩ := comps_edge_cover h hE e he
  refine exactlyOne_of_pw ?_ hc ⟨e, hec, Or.inl rfl⟩
  refine List.Pairwise.imp_of_mem (fun {a b} ha hb hab hboth => ?_) (comps_disjoint h hE)
  exact hab e.1 (comps_hasEdge_src h hE ha hboth.1) (comps_hasEdge_src h hE hb hboth.2)

/-- `getConnComps` meets the connected-components specification -/
theorem getConnComps_compsSpec (h : getConnComps ns es = some cs)
    (hE : ∀ e, e ∈ es → e.1 ∈ ns ∧ e.2 ∈ ns) : CompsSpec ns es cs where
  node_once := comps_node_once h hE
  nodes_sub := fun c hc => ⟨comps_nonempty h hE c hc, comps_subset h hE c hc⟩
  edge_once := comps_edge_once h hE
  edges_sub := fun c hc f hf =>
    ⟨⟨f, ((comps_edges_iff h hE c hc f).1 hf).1, Or.inl rfl⟩,
      ((comps_edges_iff h hE c hc f).1 hf).2, ((comps_edges_iff' h hE c hc f).1 hf).2⟩
  connected := comps_connected h hE
  no_cross := comps_closed h hE

end

end AdaptaVerif.Lemmas.PeelComps
