/-
Helper lemmas for Props/C03Lee.lean (decision rule of Lee's sweep, Model/LeeSweep.lean).
-/
import AdaptaVerif.Lemmas.RouteGeom
import AdaptaVerif.Model.LeeSweep
namespace AdaptaVerif.Lemmas.LeeSweep
open AdaptaVerif.Model.Geometry (Pt area2 vecDir pointOnLine strictBetween)
open AdaptaVerif.Check.Route AdaptaVerif.Spec.Route AdaptaVerif.Lemmas.Route
open AdaptaVerif.Model.LeeSweep

/-- the edge does not end at the point (it is not skipped by the rule) -/
def NonEnd (p : Pt) (e : EP) : Prop := ¬ (p = e.p1 ∨ p = e.p2)

/-- the status list is sorted by the distance at which the current ray meets the edges
    (`e.sort()` before every `sweepVisible` call) -/
def SortedStatus (T : List EP) : Prop := T.Pairwise (fun a b => a.adist ≤ b.adist)

theorem skipEnds_of_mem (p : Pt) : ∀ (T : List EP) (e : EP), e ∈ T → NonEnd p e → SortedStatus T →
    ∃ f rest, skipEnds p T = f :: rest ∧ NonEnd p f ∧ f ∈ T ∧ f.adist ≤ e.adist
  | [], e, h, _, _ => by cases h
  | g :: gs, e, h, hne, hs => by
    unfold skipEnds
    by_cases hg : (p = g.p1 ∨ p = g.p2)
    · have hc : (decide (p = g.p1) || decide (p = g.p2)) = true := by
        rcases hg with h1 | h2
        · simp [h1]
        · simp [h2]
      rw [if_pos hc]
      have he : e ∈ gs := by
        rcases List.mem_cons.mp h with h1 | h1
        · subst h1; exact absurd hg hne
        · exact h1
      obtain ⟨f, rest, h1, h2, h3, h4⟩ := skipEnds_of_mem p gs e he hne (List.Pairwise.of_cons hs)
      exact ⟨f, rest, h1, h2, List.mem_cons_of_mem _ h3, h4⟩
    · have hc : ¬ ((decide (p = g.p1) || decide (p = g.p2)) = true) := by
        intro hh
        rcases Bool.or_eq_true _ _ |>.mp hh with h1 | h1
        · exact hg (Or.inl (of_decide_eq_true h1))
        · exact hg (Or.inr (of_decide_eq_true h1))
      rw [if_neg hc]
      refine ⟨g, gs, rfl, hg, List.mem_cons_self, ?_⟩
      rcases List.mem_cons.mp h with h1 | h1
      · subst h1; exact le_refl _
      · exact (List.pairwise_cons.mp hs).1 e h1

/-- `AHEAD` of the initial ray means strictly larger y (for finite x) -/
theorem ahead_iff (c q : Pt) (hfin : c.x < dblMax) : ahead c q = true ↔ c.y < q.y := by
  have hd : 0 < dblMax - c.x := by linarith
  unfold ahead vecDir area2
  simp only [sub_self, mul_zero, sub_zero, neg_zero]
  constructor
  · intro h
    by_contra hn
    have hle : q.y - c.y ≤ 0 := by linarith [not_lt.mp hn]
    have h2 : (dblMax - c.x) * (q.y - c.y) ≤ 0 := mul_nonpos_of_nonneg_of_nonpos (le_of_lt hd) hle
    have h3 : ¬ (dblMax - c.x) * (q.y - c.y) > 0 := not_lt.mpr h2
    by_cases h4 : (dblMax - c.x) * (q.y - c.y) < 0
    · simp [h4] at h
    · simp [h4, h3] at h
  · intro h
    have h2 : 0 < (dblMax - c.x) * (q.y - c.y) := mul_pos hd (by linarith)
    have h3 : ¬ (dblMax - c.x) * (q.y - c.y) < 0 := not_lt.mpr (le_of_lt h2)
    simp [h3, h2]

/-- the four `VertInf`s of the rectangle as `shapeVerts` builds them -/
theorem shapeVerts_rect (base obj : Nat) (x0 y0 x1 y1 : Rat) :
    shapeVerts base obj (rectPoly x0 y0 x1 y1) =
      [ { idx := base + 0, obj := obj, vn := 0, conn := false, pt := ⟨x1, y0⟩, prev := some (base + 3, ⟨x0, y0⟩), next := some (base + 1, ⟨x1, y1⟩) },
        { idx := base + 1, obj := obj, vn := 1, conn := false, pt := ⟨x1, y1⟩, prev := some (base + 0, ⟨x1, y0⟩), next := some (base + 2, ⟨x0, y1⟩) },
        { idx := base + 2, obj := obj, vn := 2, conn := false, pt := ⟨x0, y1⟩, prev := some (base + 1, ⟨x1, y1⟩), next := some (base + 3, ⟨x0, y0⟩) },
        { idx := base + 3, obj := obj, vn := 3, conn := false, pt := ⟨x0, y0⟩, prev := some (base + 2, ⟨x0, y1⟩), next := some (base + 0, ⟨x1, y0⟩) } ] := by
  simp [shapeVerts, rectPoly, List.range, List.range.loop]


/-! ### the model's status list is sorted when the rule is applied -/

theorem mem_insertBy {α : Type} (lt : α → α → Bool) (x z : α) : ∀ (l : List α), z ∈ insertBy lt x l ↔ z = x ∨ z ∈ l
  | [] => by simp [insertBy]
  | y :: ys => by
    unfold insertBy
    by_cases h : lt y x = true
    · rw [if_pos h, List.mem_cons, mem_insertBy lt x z ys, List.mem_cons]
      constructor
      · rintro (h1 | h1 | h1)
        · exact Or.inr (Or.inl h1)
        · exact Or.inl h1
        · exact Or.inr (Or.inr h1)
      · rintro (h1 | h1 | h1)
        · exact Or.inr (Or.inl h1)
        · exact Or.inl h1
        · exact Or.inr (Or.inr h1)
    · rw [if_neg h]; simp [List.mem_cons]

theorem adist_le_of_not_epLt (x y : EP) (h : ¬ epLt y x = true) : x.adist ≤ y.adist := by
  unfold epLt at h
  by_cases he : y.adist = x.adist
  · exact le_of_eq he.symm
  · rw [if_neg he] at h
    have : ¬ y.adist < x.adist := by simpa using h
    exact not_lt.mp this

theorem adist_le_of_epLt (x y : EP) (h : epLt y x = true) : y.adist ≤ x.adist := by
  unfold epLt at h
  by_cases he : y.adist = x.adist
  · exact le_of_eq he
  · rw [if_neg he] at h
    exact le_of_lt (by simpa using h)

theorem insertBy_sorted (x : EP) : ∀ (l : List EP), SortedStatus l → SortedStatus (insertBy epLt x l)
  | [], _ => by simp [insertBy, SortedStatus]
  | y :: ys, hs => by
    unfold insertBy
    have hy := List.pairwise_cons.mp hs
    by_cases h : epLt y x = true
    · rw [if_pos h]
      refine List.pairwise_cons.mpr ⟨?_, insertBy_sorted x ys hy.2⟩
      intro z hz
      rcases (mem_insertBy epLt x z ys).mp hz with h1 | h1
      · rw [h1]; exact adist_le_of_epLt x y h
      · exact hy.1 z h1
    · rw [if_neg h]
      have hxy := adist_le_of_not_epLt x y h
      refine List.pairwise_cons.mpr ⟨?_, hs⟩
      intro z hz
      rcases List.mem_cons.mp hz with h1 | h1
      · rw [h1]; exact hxy
      · exact le_trans hxy (hy.1 z h1)

theorem sortBy_epLt_sorted : ∀ (l : List EP), SortedStatus (sortBy epLt l)
  | [] => by simp [sortBy, SortedStatus]
  | x :: xs => by
    have := sortBy_epLt_sorted xs
    unfold sortBy at this ⊢
    rw [List.foldr_cons]
    exact insertBy_sorted x _ this

end AdaptaVerif.Lemmas.LeeSweep
