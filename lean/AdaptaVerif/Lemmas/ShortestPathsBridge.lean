/-
C17 — bridge between `floyd_warshall` as GENERATED from cola/libcola/shortest_paths.h
(`Gen/ShortestPathsK.lean`: three `for` nests over `T** D` with element assignment) and the hand
model `Model.ShortestPaths.floydWarshall` that `fw_correct` is about.
-/
import AdaptaVerif.Gen.ShortestPathsK
import AdaptaVerif.Lemmas.GenLoopBridge
import AdaptaVerif.Lemmas.ApspFWInit
namespace AdaptaVerif.Lemmas.ShortestPathsBridge
open AdaptaVerif.Gen AdaptaVerif.Gen.ShortestPathsK AdaptaVerif.Model.ShortestPaths AdaptaVerif.Model.PairingHeap
open AdaptaVerif.Lemmas.Apsp AdaptaVerif.Lemmas.GenLoopBridge

/-! ### `T** D` accesses = the model's `Mat.get` / `Mat.set` -/

theorem get_eq (D : Mat) (i j : Nat) : aget (aget D i) j = D.get i j := by
  simp [aget, Mat.get]
  rfl

theorem set_eq (D : Mat) (i j : Nat) (x : Dist) : aset D i (aset (aget D i) j x) = D.set i j x := by
  unfold aset aget Mat.set
  apply Array.ext_getElem?
  intro k
  rw [Array.getElem?_modify, Array.getElem?_setIfInBounds]
  by_cases hik : i = k
  · subst hik
    simp only [if_true]
    by_cases hi : i < D.size
    · simp [hi]
    · simp [hi]
  · simp [hik]

theorem WF_bounds {n : Nat} {D : Mat} (h : Mat.WF n D) {i j : Nat} (hi : i < n) (hj : j < n) :
    i < D.size ∧ j < (aget D i).size := by
  have hsz : i < D.size := by rw [h.1]; exact hi
  refine ⟨hsz, ?_⟩
  have hr : D[i]? = some D[i] := Array.getElem?_eq_getElem hsz
  have : aget D i = D[i] := by simp [aget, hsz]
  rw [this, h.2 i _ hr]; exact hj

theorem Mat.ext {n : Nat} {A B : Mat} (hA : Mat.WF n A) (hB : Mat.WF n B)
    (h : ∀ a b, a < n → b < n → A.get a b = B.get a b) : A = B := by
  apply Array.ext
  · rw [hA.1, hB.1]
  · intro i hiA hiB
    have hin : i < n := by rw [← hA.1]; exact hiA
    have hrA : A[i]? = some A[i] := Array.getElem?_eq_getElem hiA
    have hrB : B[i]? = some B[i] := Array.getElem?_eq_getElem hiB
    have hsA := hA.2 i _ hrA
    have hsB := hB.2 i _ hrB
    apply Array.ext
    · rw [hsA, hsB]
    · intro j hjA hjB
      have hjn : j < n := by rw [← hsA]; exact hjA
      have := h i j hin hjn
      unfold Mat.get at this
      rw [hrA, hrB] at this
      simp only [Option.getD_some] at this
      rw [Array.getElem?_eq_getElem hjA, Array.getElem?_eq_getElem hjB] at this
      simpa using this

/-! ### first nest: `D[i][j] = (i == j) ? 0 : max` on an arbitrary (uninitialised) `n × n` array -/

def valDiag (a b : Nat) : Dist := if a = b then some 0 else none

theorem body1_eq (i j : Nat) (D : Mat) : floyd_warshall_body1 i j D = D.set i j (valDiag i j) := by
  unfold floyd_warshall_body1 valDiag
  simp only [set_eq]
  by_cases h : i = j <;> simp [h]

theorem row_init {n : Nat} (i : Nat) (hi : i < n) (D : Mat) (hD : Mat.WF n D) :
    Mat.WF n (forRange (floyd_warshall_body1 i) (n - 0) 0 D) ∧
    (∀ b, b < n → Mat.get (forRange (floyd_warshall_body1 i) (n - 0) 0 D) i b = valDiag i b) ∧
    (∀ a b, a ≠ i → Mat.get (forRange (floyd_warshall_body1 i) (n - 0) 0 D) a b = D.get a b) := by
  have := forRange_inv
    (fun j (D' : Mat) => Mat.WF n D' ∧ (∀ b, b < j → D'.get i b = valDiag i b) ∧ (∀ a b, a ≠ i → D'.get a b = D.get a b))
    (floyd_warshall_body1 i) (n - 0) 0 D ⟨hD, fun b hb => absurd hb (Nat.not_lt_zero _), fun _ _ _ => rfl⟩
    (by
      intro j D' _ hj ⟨hwf, hrow, hoth⟩
      rw [body1_eq]
      have hjn : j < n := by omega
      refine ⟨Mat.WF_set hwf _ _ _, ?_, ?_⟩
      · intro b hb
        by_cases hbj : b = j
        · subst hbj; exact Mat.get_set_eq _ hwf i b _ hi hjn
        · rw [Mat.get_set_ne _ i j i b _ (Or.inr hbj)]; exact hrow b (by omega)
      · intro a b ha
        rw [Mat.get_set_ne _ i j a b _ (Or.inl ha)]; exact hoth a b ha)
  simp only [Nat.zero_add, Nat.sub_zero] at this ⊢
  exact ⟨this.1, fun b hb => this.2.1 b hb, this.2.2⟩

theorem body2_eq (n i : Nat) (D : Mat) : floyd_warshall_body2 n i D = forRange (floyd_warshall_body1 i) (n - 0) 0 D := rfl

theorem init_spec (n : Nat) (D : Mat) (hD : Mat.WF n D) :
    Mat.WF n (forRange (floyd_warshall_body2 n) (n - 0) 0 D) ∧
    ∀ a b, a < n → b < n → Mat.get (forRange (floyd_warshall_body2 n) (n - 0) 0 D) a b = valDiag a b := by
  have := forRange_inv
    (fun i (D' : Mat) => Mat.WF n D' ∧ ∀ a b, a < i → b < n → D'.get a b = valDiag a b)
    (floyd_warshall_body2 n) (n - 0) 0 D ⟨hD, fun a b ha => absurd ha (Nat.not_lt_zero _)⟩
    (by
      intro i D' _ hi ⟨hwf, hdone⟩
      have hin : i < n := by omega
      rw [body2_eq]
      obtain ⟨h1, h2, h3⟩ := row_init i hin D' hwf
      refine ⟨h1, ?_⟩
      intro a b ha hb
      by_cases hai : a = i
      · subst hai; exact h2 b hb
      · rw [h3 a b hai]; exact hdone a b (by omega) hb)
  simp only [Nat.zero_add, Nat.sub_zero] at this ⊢
  exact this

theorem fwDiag_get (n a b : Nat) (ha : a < n) (hb : b < n) : (fwDiag n).get a b = valDiag a b := by
  obtain ⟨_, hd, honly⟩ := fwDiag_inv n
  unfold valDiag
  by_cases hab : a = b
  · subst hab; rw [if_pos rfl]; exact hd a ha
  · rw [if_neg hab]
    cases h : (fwDiag n).get a b with
    | none => rfl
    | some d => exact absurd (honly a b d h).1 hab

/-- the two initialisation loops overwrite every entry: whatever the array held, the result is the model's `fwDiag n` -/
theorem init_eq (n : Nat) (D : Mat) (hD : Mat.WF n D) :
    forRange (floyd_warshall_body2 n) (n - 0) 0 D = fwDiag n := by
  obtain ⟨hwf, hval⟩ := init_spec n D hD
  exact Mat.ext hwf (fwDiag_inv n).1 (fun a b ha hb => by rw [hval a b ha hb, fwDiag_get n a b ha hb])

/-! ### second loop: edges -/

/-- the caller's edge vector / weight array for a model graph: `es[i] = (u, v)`, `eweights[i] = w` -/
def esOf (edges : List (Nat × Nat × Rat)) : List (Nat × Nat) := edges.map (fun e => (e.1, e.2.1))
def wsOf (edges : List (Nat × Nat × Rat)) : List Dist := edges.map (fun e => some e.2.2)
/-- the model graph of a call with an EMPTY weight array: every edge has weight 1 -/
def unitEdges (es : List (Nat × Nat)) : List (Nat × Nat × Rat) := es.map (fun e => (e.1, e.2, 1))

theorem ltDist_some (w : Rat) (d : Dist) : ltDist (some w) d = gtD d w := by
  cases d <;> simp [ltDist, gtD]

theorem edgeStep_eq (D : Mat) (u v : Nat) (w : Rat) :
    (if (decide (u ≠ v) && ltDist (some w) (aget (aget D u) v)) = true then
        aset (aset D v (aset (aget D v) u (some w))) u (aset (aget (aset D v (aset (aget D v) u (some w))) u) v (some w))
      else D) =
    (if u ≠ v ∧ gtD (D.get u v) w = true then (D.set v u (some w)).set u v (some w) else D) := by
  simp only [set_eq, get_eq, ltDist_some, Bool.and_eq_true, decide_eq_true_eq]

theorem edges_eq (n : Nat) (edges : List (Nat × Nat × Rat)) (D : Mat) :
    forRange (floyd_warshall_body3 n (esOf edges) (wsOf edges)) ((esOf edges).length - 0) 0 D = fwEdges edges D := by
  by_cases hne : edges = []
  · subst hne; rfl
  have hlen : (esOf edges).length = edges.length := by simp [esOf]
  have hpos : 0 < edges.length := List.length_pos_iff.mpr hne
  rw [Nat.sub_zero, hlen]
  unfold fwEdges
  apply forRange_list
  intro i hi s
  have h1 : (esOf edges).getD i default = (edges[i].1, edges[i].2.1) := by
    simp [esOf, List.getD, hi]
  have h2 : (wsOf edges).getD i default = some edges[i].2.2 := by
    simp [wsOf, List.getD, hi]
  have h3 : (wsOf edges).length > 0 := by simp [wsOf]; exact hpos
  unfold floyd_warshall_body3
  simp only [Nat.zero_add, h1, h2, h3, decide_true, if_true]
  exact edgeStep_eq s _ _ _

theorem edges_unit_eq (n : Nat) (es : List (Nat × Nat)) (D : Mat) :
    forRange (floyd_warshall_body3 n es []) (es.length - 0) 0 D = fwEdges (unitEdges es) D := by
  have hlen : (unitEdges es).length = es.length := by simp [unitEdges]
  rw [Nat.sub_zero, ← hlen]
  unfold fwEdges
  apply forRange_list
  intro i hi s
  have hi' : i < es.length := by rw [← hlen]; exact hi
  have h1 : es.getD i default = ((unitEdges es)[i].1, (unitEdges es)[i].2.1) := by
    simp [unitEdges, List.getD, hi']
  have h2 : (unitEdges es)[i].2.2 = 1 := by simp [unitEdges]
  unfold floyd_warshall_body3
  simp only [Nat.zero_add, h1, List.length_nil, gt_iff_lt, Nat.lt_irrefl, decide_false, Bool.false_eq_true, if_false]
  rw [← h2]
  exact edgeStep_eq s _ _ _

/-! ### third nest: the in-place triple loop -/

theorem body4_eq (k i j : Nat) (D : Mat) : floyd_warshall_body4 k i j D = relax D k i j := by
  unfold floyd_warshall_body4 relax
  simp only [set_eq, get_eq]

theorem body5_eq (n k i : Nat) (D : Mat) : floyd_warshall_body5 n k i D = fwRow n k i D := by
  unfold floyd_warshall_body5 fwRow
  simp only []
  rw [forRange_zero]
  congr 1
  funext D j
  exact body4_eq k i j D

theorem body6_eq (n k : Nat) (D : Mat) : floyd_warshall_body6 n k D = fwRound n k D := by
  unfold floyd_warshall_body6 fwRound
  simp only []
  rw [forRange_zero]
  congr 1
  funext D i
  exact body5_eq n k i D

theorem loop_eq (n : Nat) (D : Mat) : forRange (floyd_warshall_body6 n) (n - 0) 0 D = fwLoop n D := by
  unfold fwLoop
  rw [forRange_zero]
  congr 1
  funext D k
  exact body6_eq n k D

/-! ### the whole function -/

theorem floyd_warshall_eq (g : Graph) (D : Mat) (hD : Mat.WF g.n D) :
    floyd_warshall g.n D (esOf g.edges) (wsOf g.edges) = floydWarshall g := by
  unfold floyd_warshall floydWarshall fwInit
  simp only []
  rw [init_eq g.n D hD, edges_eq g.n g.edges, loop_eq]

theorem floyd_warshall_unit_eq (n : Nat) (es : List (Nat × Nat)) (D : Mat) (hD : Mat.WF n D) :
    floyd_warshall n D es [] = floydWarshall ⟨n, unitEdges es⟩ := by
  unfold floyd_warshall floydWarshall fwInit
  simp only []
  rw [init_eq n D hD, edges_unit_eq n es, loop_eq]

/-! ### `floyd_warshall_pre`: the assertions and every array access are in bounds -/

theorem body1_pre_true {n : Nat} (i j : Nat) (hi : i < n) (hj : j < n) (D : Mat) (hD : Mat.WF n D) :
    floyd_warshall_body1_pre i j D = true := by
  obtain ⟨h1, h2⟩ := WF_bounds hD hi hj
  unfold floyd_warshall_body1_pre
  by_cases h : i = j
  · subst h; simp [h1, h2]
  · simp [h, h1, h2]

theorem body1_WF {n : Nat} (i j : Nat) (D : Mat) (hD : Mat.WF n D) : Mat.WF n (floyd_warshall_body1 i j D) := by
  rw [body1_eq]; exact Mat.WF_set hD _ _ _

theorem body2_WF {n : Nat} (i : Nat) (D : Mat) (hD : Mat.WF n D) : Mat.WF n (floyd_warshall_body2 n i D) := by
  rw [body2_eq]
  have := forRange_inv (fun _ (D' : Mat) => Mat.WF n D') (floyd_warshall_body1 i) (n - 0) 0 D hD
    (fun j D' _ _ h => body1_WF i j D' h)
  exact this

theorem body2_pre_true {n : Nat} (i : Nat) (hi : i < n) (D : Mat) (hD : Mat.WF n D) :
    floyd_warshall_body2_pre n i D = true := by
  unfold floyd_warshall_body2_pre
  simp only [Bool.and_true]
  exact forRangePre_of_inv (fun _ (D' : Mat) => Mat.WF n D') _ _ _ _ _ hD
    (fun j D' _ hj h => ⟨body1_pre_true i j hi (by omega) D' h, body1_WF i j D' h⟩)

theorem body3_WF {n : Nat} (es : List (Nat × Nat)) (ws : List Dist) (i : Nat) (D : Mat) (hD : Mat.WF n D) :
    Mat.WF n (floyd_warshall_body3 n es ws i D) := by
  unfold floyd_warshall_body3
  simp only [set_eq]
  generalize (if decide (ws.length > 0) = true then ws.getD i default else (some 1 : Dist)) = w
  split
  · exact Mat.WF_set (Mat.WF_set hD _ _ _) _ _ _
  · exact hD

theorem body3_pre_true {n : Nat} (es : List (Nat × Nat)) (ws : List Dist) (i : Nat) (hi : i < es.length)
    (hw : ws.length = 0 ∨ ws.length = es.length) (hu : (es.getD i default).1 < n) (hv : (es.getD i default).2 < n)
    (D : Mat) (hD : Mat.WF n D) : floyd_warshall_body3_pre n es ws i D = true := by
  obtain ⟨h1, h2⟩ := WF_bounds hD hu hv
  obtain ⟨h3, h4⟩ := WF_bounds hD hv hu
  have hD' := Mat.WF_set hD (es.getD i default).2 (es.getD i default).1
  have hwi : ws.length > 0 → i < ws.length := by
    intro h; rcases hw with h0 | h0
    · omega
    · rw [h0]; exact hi
  unfold floyd_warshall_body3_pre
  simp only [set_eq]
  generalize (if decide (ws.length > 0) = true then ws.getD i default else (some 1 : Dist)) = w
  have hA : (if decide (ws.length > 0) = true then decide (i < ws.length) else true) = true := by
    by_cases hp : ws.length > 0
    · simp [hp, hwi hp]
    · simp [hp]
  have h5 := (WF_bounds (hD' w) hu hv).1
  have h6 := (WF_bounds (hD' w) hu hv).2
  simp only [hi, hu, hv, h1, h2, h3, h4, h5, h6, hA, decide_true, Bool.or_true, Bool.and_self, ite_self]

theorem body4_pre_true {n : Nat} (k i j : Nat) (hk : k < n) (hi : i < n) (hj : j < n) (D : Mat) (hD : Mat.WF n D) :
    floyd_warshall_body4_pre k i j D = true := by
  obtain ⟨h1, h2⟩ := WF_bounds hD hi hj
  obtain ⟨_, h3⟩ := WF_bounds hD hi hk
  obtain ⟨h4, h5⟩ := WF_bounds hD hk hj
  unfold floyd_warshall_body4_pre
  simp [h1, h2, h3, h4, h5]

theorem body4_WF {n : Nat} (k i j : Nat) (D : Mat) (hD : Mat.WF n D) : Mat.WF n (floyd_warshall_body4 k i j D) := by
  rw [body4_eq]; exact Mat.WF_set hD _ _ _

theorem body5_WF {n : Nat} (k i : Nat) (D : Mat) (hD : Mat.WF n D) : Mat.WF n (floyd_warshall_body5 n k i D) :=
  forRange_inv (fun _ (D' : Mat) => Mat.WF n D') (floyd_warshall_body4 k i) (n - 0) 0 D hD (fun j D' _ _ h => body4_WF k i j D' h)

theorem body5_pre_true {n : Nat} (k i : Nat) (hk : k < n) (hi : i < n) (D : Mat) (hD : Mat.WF n D) :
    floyd_warshall_body5_pre n k i D = true := by
  unfold floyd_warshall_body5_pre
  simp only [Bool.and_true]
  exact forRangePre_of_inv (fun _ (D' : Mat) => Mat.WF n D') _ _ _ _ _ hD
    (fun j D' _ hj h => ⟨body4_pre_true k i j hk hi (by omega) D' h, body4_WF k i j D' h⟩)

theorem body6_WF {n : Nat} (k : Nat) (D : Mat) (hD : Mat.WF n D) : Mat.WF n (floyd_warshall_body6 n k D) :=
  forRange_inv (fun _ (D' : Mat) => Mat.WF n D') (floyd_warshall_body5 n k) (n - 0) 0 D hD (fun i D' _ _ h => body5_WF k i D' h)

theorem body6_pre_true {n : Nat} (k : Nat) (hk : k < n) (D : Mat) (hD : Mat.WF n D) :
    floyd_warshall_body6_pre n k D = true := by
  unfold floyd_warshall_body6_pre
  simp only [Bool.and_true]
  exact forRangePre_of_inv (fun _ (D' : Mat) => Mat.WF n D') _ _ _ _ _ hD
    (fun i D' _ hi h => ⟨body5_pre_true k i hk (by omega) D' h, body5_WF k i D' h⟩)

/-- documented preconditions of `floyd_warshall` (`D` is an `n × n` array, the weight array is empty or has one entry
    per edge, edge end points are `< n`) ⇒ both assertions hold and every `D[·][·]`, `es[·]`, `eweights[·]` is in bounds -/
theorem floyd_warshall_pre_true (n : Nat) (D : Mat) (es : List (Nat × Nat)) (ws : List Dist) (hD : Mat.WF n D)
    (hw : ws.length = 0 ∨ ws.length = es.length) (hes : ∀ e ∈ es, e.1 < n ∧ e.2 < n) :
    floyd_warshall_pre n D es ws = true := by
  unfold floyd_warshall_pre
  simp only [Bool.and_true, Bool.and_eq_true, Bool.or_eq_true, decide_eq_true_eq]
  have hinit : Mat.WF n (forRange (floyd_warshall_body2 n) (n - 0) 0 D) := (init_spec n D hD).1
  have hedges : Mat.WF n (forRange (floyd_warshall_body3 n es ws) (es.length - 0) 0 (forRange (floyd_warshall_body2 n) (n - 0) 0 D)) :=
    forRange_inv (fun _ (D' : Mat) => Mat.WF n D') _ _ _ _ hinit (fun i D' _ _ h => body3_WF es ws i D' h)
  have p1 : forRangePre (floyd_warshall_body2_pre n) (floyd_warshall_body2 n) (n - 0) 0 D = true :=
    forRangePre_of_inv (fun _ (D' : Mat) => Mat.WF n D') _ _ _ _ _ hD
      (fun i D' _ hi h => ⟨body2_pre_true i (by omega) D' h, body2_WF i D' h⟩)
  have p2 : forRangePre (floyd_warshall_body3_pre n es ws) (floyd_warshall_body3 n es ws) (es.length - 0) 0
      (forRange (floyd_warshall_body2 n) (n - 0) 0 D) = true := by
    refine forRangePre_of_inv (fun _ (D' : Mat) => Mat.WF n D') _ _ _ _ _ hinit ?_
    intro i D' _ hi h
    have hi' : i < es.length := by omega
    have hmem : es.getD i default ∈ es := by
      simp only [List.getD, List.getElem?_eq_getElem hi', Option.getD_some]; exact List.getElem_mem hi'
    exact ⟨body3_pre_true es ws i hi' hw (hes _ hmem).1 (hes _ hmem).2 D' h, body3_WF es ws i D' h⟩
  have p3 := forRangePre_of_inv (fun _ (D' : Mat) => Mat.WF n D') (floyd_warshall_body6_pre n) (floyd_warshall_body6 n)
      (n - 0) 0 _ hedges (fun k D' _ hk h => ⟨body6_pre_true k (by omega) D' h, body6_WF k D' h⟩)
  simp only [p1, p2, p3, hw, and_self]

/-! ## `dijkstra_init`: the adjacency vectors it appends are the model's `adj` -/

open AdaptaVerif.Gen.KeysShortest

theorem aget_aset {α : Type} [Inhabited α] (a : Array α) (i j : Nat) (x : α) (h : i < a.size) :
    aget (aset a i x) j = if i = j then x else aget a j := by
  by_cases hij : i = j
  · subst hij; rw [if_pos rfl]; exact aget_aset_eq a i x h
  · rw [if_neg hij]; exact aget_aset_ne a i j x hij

/-- one iteration of `dijkstra_init`'s loop on the model edge `(a, b, w)` -/
def initStep (vs : Array NodeK) (e : Nat × Nat × Rat) : Array NodeK :=
  let vs2 := aset vs e.1 { (aget vs e.1) with neighbours := (aget vs e.1).neighbours ++ [e.2.1] }
  let vs3 := aset vs2 e.1 { (aget vs2 e.1) with nweights := (aget vs2 e.1).nweights ++ [some e.2.2] }
  let vs4 := aset vs3 e.2.1 { (aget vs3 e.2.1) with neighbours := (aget vs3 e.2.1).neighbours ++ [e.1] }
  aset vs4 e.2.1 { (aget vs4 e.2.1) with nweights := (aget vs4 e.2.1).nweights ++ [some e.2.2] }

theorem initStep_size (vs : Array NodeK) (e : Nat × Nat × Rat) : (initStep vs e).size = vs.size := by
  simp [initStep, aset_size]

theorem initStep_get (vs : Array NodeK) (e : Nat × Nat × Rat) (ha : e.1 < vs.size) (hb : e.2.1 < vs.size) (u : Nat) :
    (aget (initStep vs e) u).neighbours =
      (aget vs u).neighbours ++ ((if e.1 = u then [e.2.1] else []) ++ (if e.2.1 = u then [e.1] else [])) ∧
    (aget (initStep vs e) u).nweights =
      (aget vs u).nweights ++ ((if e.1 = u then [some e.2.2] else []) ++ (if e.2.1 = u then [some e.2.2] else [])) := by
  unfold initStep
  simp only [aget_aset, aset_size, ha, hb]
  by_cases h1 : e.1 = u <;> by_cases h2 : e.2.1 = u <;> simp [h1, h2]


theorem initFold_size (edges : List (Nat × Nat × Rat)) (vs : Array NodeK) : (edges.foldl initStep vs).size = vs.size := by
  induction edges generalizing vs with
  | nil => rfl
  | cons e es ih => rw [List.foldl_cons, ih, initStep_size]

theorem initFold_get (edges : List (Nat × Nat × Rat)) (vs : Array NodeK)
    (hv : ∀ e ∈ edges, e.1 < vs.size ∧ e.2.1 < vs.size) (u : Nat) :
    (aget (edges.foldl initStep vs) u).neighbours = (aget vs u).neighbours ++ (adj edges u).map (·.1) ∧
    (aget (edges.foldl initStep vs) u).nweights = (aget vs u).nweights ++ (adj edges u).map (fun p => some p.2) := by
  induction edges generalizing vs with
  | nil => simp [adj]
  | cons e es ih =>
    obtain ⟨a, b, w⟩ := e
    have hab := hv (a, b, w) (by simp)
    have ih' := ih (initStep vs (a, b, w)) (fun e he => by rw [initStep_size]; exact hv e (by simp [he]))
    have hs := initStep_get vs (a, b, w) hab.1 hab.2 u
    simp only [List.foldl_cons, adj]
    rw [ih'.1, ih'.2, hs.1, hs.2]
    constructor
    · by_cases h1 : a = u <;> by_cases h2 : b = u <;> simp [h1, h2]
    · by_cases h1 : a = u <;> by_cases h2 : b = u <;> simp [h1, h2]

theorem dijkstra_init_eq (edges : List (Nat × Nat × Rat)) (vs : Array NodeK) :
    dijkstra_init vs (esOf edges) (wsOf edges) = edges.foldl initStep vs := by
  unfold dijkstra_init
  simp only []
  by_cases hne : edges = []
  · subst hne; rfl
  have hlen : (esOf edges).length = edges.length := by simp [esOf]
  have hpos : 0 < edges.length := List.length_pos_iff.mpr hne
  rw [Nat.sub_zero, hlen]
  apply forRange_list
  intro i hi s
  have h1 : (esOf edges).getD i default = (edges[i].1, edges[i].2.1) := by
    simp [esOf, List.getD, hi]
  have h2 : (wsOf edges).getD i default = some edges[i].2.2 := by
    simp [wsOf, List.getD, hi]
  have h3 : (wsOf edges).length > 0 := by simp [wsOf]; exact hpos
  unfold dijkstra_init_body1 initStep
  simp only [Nat.zero_add, h1, h2, h3, decide_true, if_true]

theorem dijkstra_init_pre_true (vs : Array NodeK) (es : List (Nat × Nat)) (ws : List Dist)
    (hw : ws.length = 0 ∨ ws.length = es.length) (hes : ∀ e ∈ es, e.1 < vs.size ∧ e.2 < vs.size) :
    dijkstra_init_pre vs es ws = true := by
  unfold dijkstra_init_pre
  simp only [Bool.and_true, Bool.and_eq_true, Bool.or_eq_true, decide_eq_true_eq]
  refine ⟨hw, ?_⟩
  refine forRangePre_of_inv (fun _ (vs' : Array NodeK) => vs'.size = vs.size) _ _ _ _ _ rfl ?_
  intro i vs' _ hi hsz
  have hi' : i < es.length := by omega
  have hmem : es.getD i default ∈ es := by
    simp only [List.getD, List.getElem?_eq_getElem hi', Option.getD_some]; exact List.getElem_mem hi'
  have hu := (hes _ hmem).1
  have hv := (hes _ hmem).2
  have hwi : ws.length > 0 → i < ws.length := by
    intro h; rcases hw with h0 | h0
    · omega
    · rw [h0]; exact hi'
  have hA : (if decide (ws.length > 0) = true then decide (i < ws.length) else true) = true := by
    by_cases hp : ws.length > 0
    · simp [hp, hwi hp]
    · simp [hp]
  constructor
  · unfold dijkstra_init_body1_pre
    simp only [aset_size, hsz, hi', hu, hv, hA, decide_true, Bool.and_self]
  · unfold dijkstra_init_body1
    simp only [aset_size, hsz]


end AdaptaVerif.Lemmas.ShortestPathsBridge
