/-
Soundness and completeness of the executable route/rectangle checker `Check/RouteRect.lean`.
-/
import Mathlib.Tactic.Linarith
import Mathlib.Tactic.Ring
import Mathlib.Tactic.FieldSimp
import Mathlib.Tactic.Positivity
import Mathlib.Algebra.Order.Field.Rat
import AdaptaVerif.Check.RouteRect

namespace AdaptaVerif.Lemmas.RouteRect
open AdaptaVerif.Check.RouteRect

/-- characterisation of one clip axis: for `t ∈ [0,1]` the coordinate `pa + t*d` is strictly
    between the bounds iff `t` is in the open interval returned by `axisIv` -/
theorem axisIv_iff (a0 a1 pa d t : Rat) (h0 : 0 ≤ t) (h1 : t ≤ 1) :
    (a0 < pa + t * d ∧ pa + t * d < a1) ↔
      ((axisIv a0 a1 pa d).1 < t ∧ t < (axisIv a0 a1 pa d).2) := by
  unfold axisIv
  by_cases hd : d = 0
  · subst hd
    simp only [mul_zero, add_zero, if_true]
    by_cases hin : a0 < pa ∧ pa < a1
    · rw [if_pos hin]
      exact ⟨fun _ => ⟨by linarith, by linarith⟩, fun _ => hin⟩
    · rw [if_neg hin]
      exact ⟨fun h => absurd h hin, fun h => absurd (lt_trans h.1 h.2) (lt_irrefl _)⟩
  · rw [if_neg hd]
    by_cases hpos : 0 < d
    · rw [if_pos hpos]
      show _ ↔ ((a0 - pa) / d < t ∧ t < (a1 - pa) / d)
      rw [div_lt_iff₀ hpos, lt_div_iff₀ hpos]
      constructor
      · rintro ⟨h, h'⟩; exact ⟨by linarith, by linarith⟩
      · rintro ⟨h, h'⟩; exact ⟨by linarith, by linarith⟩
    · rw [if_neg hpos]
      have hneg : d < 0 := lt_of_le_of_ne (not_lt.mp hpos) hd
      show _ ↔ ((a1 - pa) / d < t ∧ t < (a0 - pa) / d)
      rw [div_lt_iff_of_neg hneg, lt_div_iff_of_neg hneg]
      constructor
      · rintro ⟨h, h'⟩; exact ⟨by linarith, by linarith⟩
      · rintro ⟨h, h'⟩; exact ⟨by linarith, by linarith⟩

theorem strictlyInside_lerp_iff (r : Rect) (p q : P) (t : Rat) (h0 : 0 ≤ t) (h1 : t ≤ 1) :
    StrictlyInside r (lerp p q t) ↔
      (((axisIv r.x0 r.x1 p.x (q.x - p.x)).1 < t ∧ t < (axisIv r.x0 r.x1 p.x (q.x - p.x)).2) ∧
       ((axisIv r.y0 r.y1 p.y (q.y - p.y)).1 < t ∧ t < (axisIv r.y0 r.y1 p.y (q.y - p.y)).2)) := by
  rw [← axisIv_iff _ _ _ _ t h0 h1, ← axisIv_iff _ _ _ _ t h0 h1]
  unfold StrictlyInside lerp
  constructor
  · rintro ⟨a, b, c, d⟩; exact ⟨⟨a, b⟩, ⟨c, d⟩⟩
  · rintro ⟨⟨a, b⟩, ⟨c, d⟩⟩; exact ⟨a, b, c, d⟩

theorem ivMeet_eq_true_iff (ix iy : Rat × Rat) :
    ivMeet ix iy = true ↔
      (ix.1 < ix.2 ∧ ix.1 < iy.2 ∧ iy.1 < ix.2 ∧ iy.1 < iy.2 ∧
        ix.1 < 1 ∧ iy.1 < 1 ∧ 0 < ix.2 ∧ 0 < iy.2) := by
  unfold ivMeet
  simp only [Bool.and_eq_true, decide_eq_true_eq, and_assoc]

/-- 1-D Helly for two open intervals and `[0,1]` -/
theorem ivMeet_iff_exists (ix iy : Rat × Rat) :
    ivMeet ix iy = true ↔
      ∃ t : Rat, 0 ≤ t ∧ t ≤ 1 ∧ (ix.1 < t ∧ t < ix.2) ∧ (iy.1 < t ∧ t < iy.2) := by
  rw [ivMeet_eq_true_iff]
  constructor
  · rintro ⟨h1, h2, h3, h4, h5, h6, h7, h8⟩
    have hL : max (max ix.1 iy.1) 0 < min (min ix.2 iy.2) 1 := by
      refine max_lt (max_lt ?_ ?_) ?_ <;> refine lt_min (lt_min ?_ ?_) ?_ <;>
        first | assumption | exact zero_lt_one
    refine ⟨(max (max ix.1 iy.1) 0 + min (min ix.2 iy.2) 1) / 2, ?_, ?_, ⟨?_, ?_⟩, ⟨?_, ?_⟩⟩
    · have := le_max_right (max ix.1 iy.1) (0 : Rat); linarith
    · have := min_le_right (min ix.2 iy.2) (1 : Rat); linarith
    · have := le_trans (le_max_left ix.1 iy.1) (le_max_left (max ix.1 iy.1) (0 : Rat)); linarith
    · have := le_trans (min_le_left (min ix.2 iy.2) (1 : Rat)) (min_le_left ix.2 iy.2); linarith
    · have := le_trans (le_max_right ix.1 iy.1) (le_max_left (max ix.1 iy.1) (0 : Rat)); linarith
    · have := le_trans (min_le_left (min ix.2 iy.2) (1 : Rat)) (min_le_right ix.2 iy.2); linarith
  · rintro ⟨t, h0, h1, ⟨a, b⟩, ⟨c, d⟩⟩
    exact ⟨by linarith, by linarith, by linarith, by linarith,
      by linarith, by linarith, by linarith, by linarith⟩

/-- exact specification of the decision procedure -/
theorem segHitsOpenRect_iff (r : Rect) (p q : P) :
    segHitsOpenRect r p q = true ↔
      ∃ t : Rat, 0 ≤ t ∧ t ≤ 1 ∧ StrictlyInside r (lerp p q t) := by
  unfold segHitsOpenRect
  rw [ivMeet_iff_exists]
  constructor
  · rintro ⟨t, h0, h1, h⟩
    exact ⟨t, h0, h1, (strictlyInside_lerp_iff r p q t h0 h1).mpr h⟩
  · rintro ⟨t, h0, h1, h⟩
    exact ⟨t, h0, h1, (strictlyInside_lerp_iff r p q t h0 h1).mp h⟩

/-- soundness: a `false` answer means no point of the closed segment is strictly inside `r` -/
theorem segHitsOpenRect_sound (r : Rect) (p q : P) :
    segHitsOpenRect r p q = false →
      ∀ t : Rat, 0 ≤ t → t ≤ 1 → ¬ StrictlyInside r (lerp p q t) := by
  intro hf t h0 h1 hin
  have : segHitsOpenRect r p q = true := (segHitsOpenRect_iff r p q).mpr ⟨t, h0, h1, hin⟩
  rw [hf] at this
  exact Bool.false_ne_true this

/-- completeness: a `true` answer is witnessed by a point of the segment strictly inside `r` -/
theorem segHitsOpenRect_complete (r : Rect) (p q : P) :
    segHitsOpenRect r p q = true →
      ∃ t : Rat, 0 ≤ t ∧ t ≤ 1 ∧ StrictlyInside r (lerp p q t) :=
  (segHitsOpenRect_iff r p q).mp

/-- every leg `route[i] – route[i+1]` of an accepted polyline avoids every open rectangle -/
theorem legsOk_sound (rects : List Rect) (route : List P) (h : legsOk rects route = true) :
    ∀ (i : Nat) (hi : i + 1 < route.length), ∀ r ∈ rects, ∀ t : Rat, 0 ≤ t → t ≤ 1 →
      ¬ StrictlyInside r (lerp (route[i]'(Nat.lt_of_succ_lt hi)) (route[i + 1]'hi) t) := by
  induction route with
  | nil => intro i hi; exact absurd hi (Nat.not_lt_zero _)
  | cons a rest ih =>
    cases rest with
    | nil => intro i hi; exact absurd hi (by simp)
    | cons b rest =>
      rw [legsOk, Bool.and_eq_true, List.all_eq_true] at h
      obtain ⟨hab, hrest⟩ := h
      intro i hi r hr t h0 h1
      cases i with
      | zero =>
        have hf : segHitsOpenRect r a b = false := by
          have := hab r hr
          simpa using this
        exact segHitsOpenRect_sound r a b hf t h0 h1
      | succ j =>
        have hj : j + 1 < (b :: rest).length := by
          simpa [List.length_cons] using hi
        exact ih hrest j hj r hr t h0 h1

/-- everything an accepted route guarantees -/
theorem routeValidRect_sound (rects : List Rect) (src dst : P) (route : List P)
    (h : routeValidRect rects src dst route = true) :
    route.length ≥ 2 ∧ route.head? = some src ∧ route.getLast? = some dst ∧
      ∀ (i : Nat) (hi : i + 1 < route.length), ∀ r ∈ rects, ∀ t : Rat, 0 ≤ t → t ≤ 1 →
        ¬ StrictlyInside r (lerp (route[i]'(Nat.lt_of_succ_lt hi)) (route[i + 1]'hi) t) := by
  unfold routeValidRect at h
  simp only [Bool.and_eq_true, decide_eq_true_eq] at h
  obtain ⟨⟨⟨hlen, hhead⟩, hlast⟩, hlegs⟩ := h
  exact ⟨hlen, hhead, hlast, legsOk_sound rects route hlegs⟩

/-! ### sanity checks
(`decide` gets stuck on `Rat` division, so these are evaluated with `norm_num`.) -/

-- crossing the unit square's interior
example : segHitsOpenRect ⟨0, 0, 1, 1⟩ ⟨-1, 1/2⟩ ⟨2, 1/2⟩ = true := by
  norm_num [segHitsOpenRect, axisIv, ivMeet]
-- sliding along the boundary (closed edge, not strictly inside)
example : segHitsOpenRect ⟨0, 0, 1, 1⟩ ⟨-1, 0⟩ ⟨2, 0⟩ = false := by
  norm_num [segHitsOpenRect, axisIv, ivMeet]
-- touching only a corner on the diagonal
example : segHitsOpenRect ⟨0, 0, 1, 1⟩ ⟨-1, 1⟩ ⟨1, -1⟩ = false := by
  norm_num [segHitsOpenRect, axisIv, ivMeet]
-- degenerate segment (p = q) inside / on the boundary
example : segHitsOpenRect ⟨0, 0, 1, 1⟩ ⟨1/2, 1/2⟩ ⟨1/2, 1/2⟩ = true := by
  norm_num [segHitsOpenRect, axisIv, ivMeet]
example : segHitsOpenRect ⟨0, 0, 1, 1⟩ ⟨1, 1/2⟩ ⟨1, 1/2⟩ = false := by
  norm_num [segHitsOpenRect, axisIv, ivMeet]
-- segment ends before reaching the rectangle
example : segHitsOpenRect ⟨0, 0, 1, 1⟩ ⟨-3, 1/2⟩ ⟨-1, 1/2⟩ = false := by
  norm_num [segHitsOpenRect, axisIv, ivMeet]
-- empty (inverted) rectangle is never hit
example : segHitsOpenRect ⟨1, 0, 0, 1⟩ ⟨-1, 1/2⟩ ⟨2, 1/2⟩ = false := by
  norm_num [segHitsOpenRect, axisIv, ivMeet]
-- a route around the square, and one through it
example : routeValidRect [⟨0, 0, 1, 1⟩] ⟨-1, 0⟩ ⟨2, 1⟩ [⟨-1, 0⟩, ⟨1, 0⟩, ⟨1, 1⟩, ⟨2, 1⟩] = true := by
  norm_num [routeValidRect, legsOk, segHitsOpenRect, axisIv, ivMeet]
example : routeValidRect [⟨0, 0, 1, 1⟩] ⟨-1, 0⟩ ⟨2, 1⟩ [⟨-1, 0⟩, ⟨2, 1⟩] = false := by
  norm_num [routeValidRect, legsOk, segHitsOpenRect, axisIv, ivMeet]

end AdaptaVerif.Lemmas.RouteRect
