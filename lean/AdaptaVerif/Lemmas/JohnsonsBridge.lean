/-
C17 — bridges for `johnsons(n, D, es, eweights)` and the top-level `dijkstra(s, n, d, es, eweights)` of
cola/libcola/shortest_paths.h as GENERATED into `Gen/JohnsonsK.lean` (they CALL the generated `dijkstra_init` and `dijkstra`;
the node vector is reused for every source): with the model's pairing heap and fuel `n`, the generated `johnsons` fills the
matrix with the model's `johnsonsHeap g` (what `johnsonsHeap_correct` is about) whatever it held before.
-/
import AdaptaVerif.Gen.JohnsonsK
import AdaptaVerif.Lemmas.DijkstraBufferBridge
namespace AdaptaVerif.Lemmas.JohnsonsBridge
open AdaptaVerif.Gen AdaptaVerif.Gen.JohnsonsK AdaptaVerif.Gen.KeysShortest
open AdaptaVerif.Model.ShortestPaths AdaptaVerif.Model.PairingHeap AdaptaVerif.Lemmas.GenLoopBridge
open AdaptaVerif.Lemmas.DijkstraRelaxBridge AdaptaVerif.Lemmas.DijkstraBridge AdaptaVerif.Lemmas.Apsp AdaptaVerif.Spec.Apsp
open AdaptaVerif.Lemmas.ShortestPathsBridge

/-- fresh nodes (`std::vector<Node<T>> vs(n)`) and what the generated `dijkstra_init` makes of them -/
theorem init_adj (g : Graph) (hv : Valid g) :
    AdjOf g.edges (AdaptaVerif.Gen.ShortestPathsK.dijkstra_init (Array.replicate g.n (default : NodeK)) (esOf g.edges) (wsOf g.edges)) ∧
    (AdaptaVerif.Gen.ShortestPathsK.dijkstra_init (Array.replicate g.n (default : NodeK)) (esOf g.edges) (wsOf g.edges)).size = g.n := by
  have hfresh : ∀ u, (aget (Array.replicate g.n (default : NodeK)) u).neighbours = [] ∧
      (aget (Array.replicate g.n (default : NodeK)) u).nweights = [] := by
    intro u
    simp only [aget, Array.getD_eq_getD_getElem?, Array.getElem?_replicate]
    split <;> exact ⟨rfl, rfl⟩
  have hv' : ∀ e ∈ g.edges, e.1 < (Array.replicate g.n (default : NodeK)).size ∧ e.2.1 < (Array.replicate g.n (default : NodeK)).size := by
    intro e he; simp only [Array.size_replicate]; exact ⟨(hv e he).1, (hv e he).2.1⟩
  rw [dijkstra_init_eq]
  refine ⟨fun u => ?_, by rw [initFold_size]; simp⟩
  have h := initFold_get g.edges _ hv' u
  rw [(hfresh u).1, (hfresh u).2] at h
  exact ⟨by simpa using h.1, by simpa using h.2⟩

theorem dijkstraHeap_size {g : Graph} (hv : Valid g) {s : Nat} (hs : s < g.n) : (dijkstraHeap g s).size = g.n := by
  obtain ⟨st', hrel, _⟩ := dijkstraHeapLoop_rel hv g.n _ _ (hrel_init hs) (by simp [dijkstraInit])
  unfold dijkstraHeap dijkstraHeapRun
  rw [hrel.oeq]; exact hrel.inv.osize

/-- the top-level `dijkstra(s, n, d, es, eweights)` as generated -/
theorem dijkstraTop_eq (g : Graph) (hv : Valid g) (s : Nat) (hs : s < g.n) (d : Array Dist) (hd : d.size = g.n) :
    dijkstraTop s g.n d (esOf g.edges) (wsOf g.edges) modelOps g.n = dijkstraHeap g s := by
  unfold dijkstraTop
  simp only []
  obtain ⟨h1, h2⟩ := init_adj g hv
  exact dijkstra_eq_any hv hs _ h1 h2 d hd

theorem body1_spec' (g : Graph) (hv : Valid g) (k : Nat) (hk : k < g.n) (st : Array (Array Dist) × Array NodeK)
    (hD : Mat.WF g.n st.1) (hadj : AdjOf g.edges st.2) (hsz : st.2.size = g.n) :
    let r := johnsons_body1 modelOps g.n k st
    Mat.WF g.n r.1 ∧ AdjOf g.edges r.2 ∧ r.2.size = g.n ∧ aget r.1 k = dijkstraHeap g k ∧
    (∀ j, j ≠ k → aget r.1 j = aget st.1 j) := by
  obtain ⟨D, vs⟩ := st
  have hkD : k < D.size := by rw [hD.1]; exact hk
  have hrow : (aget D k).size = g.n := by
    have : aget D k = D[k] := by simp [aget, hkD]
    rw [this]; exact hD.2 k _ (Array.getElem?_eq_getElem hkD)
  have e1 := dijkstra_eq_any hv hk vs hadj hsz (aget D k) hrow
  obtain ⟨e2, e3⟩ := dijkstra_vs_any hv hk vs hadj hsz (aget D k) hrow
  unfold johnsons_body1
  simp only []
  refine ⟨?_, e2, e3, ?_, ?_⟩
  · refine ⟨by simp [aset, hD.1], ?_⟩
    intro i r hr
    simp only [aset, Array.getElem?_setIfInBounds] at hr
    by_cases hik : k = i
    · subst hik
      simp only [if_true, hkD] at hr
      injection hr with hr
      rw [← hr, e1]
      exact dijkstraHeap_size hv hk
    · simp only [hik, if_false] at hr
      exact hD.2 i r hr
  · rw [aget_aset_eq _ _ _ hkD]; exact e1
  · intro j hj
    exact aget_aset_ne _ _ _ _ (Ne.symm hj)

/-- `johnsons(n, D, es, eweights)` as generated (fresh node vector, `dijkstra_init`, then `dijkstra(k, vs, D[k])` for every `k`
    on the SAME node vector), with the model heap and fuel `n`: the matrix is the model's `johnsonsHeap g`, whatever `D` held -/
theorem johnsons_eq (g : Graph) (hv : Valid g) (D : Array (Array Dist)) (hD : Mat.WF g.n D) :
    AdaptaVerif.Gen.JohnsonsK.johnsons g.n D (esOf g.edges) (wsOf g.edges) modelOps g.n = johnsonsHeap g := by
  unfold AdaptaVerif.Gen.JohnsonsK.johnsons
  simp only []
  obtain ⟨h1, h2⟩ := init_adj g hv
  generalize AdaptaVerif.Gen.ShortestPathsK.dijkstra_init (Array.replicate g.n (default : NodeK)) (esOf g.edges) (wsOf g.edges) = vs1 at h1 h2
  have := forRange_inv
    (fun k (st : Array (Array Dist) × Array NodeK) => Mat.WF g.n st.1 ∧ AdjOf g.edges st.2 ∧ st.2.size = g.n ∧
      ∀ j, j < k → aget st.1 j = dijkstraHeap g j)
    (johnsons_body1 modelOps g.n) (g.n - 0) 0 (D, vs1) ⟨hD, h1, h2, fun j hj => absurd hj (Nat.not_lt_zero _)⟩
    (by
      intro k st _ hk ⟨i1, i2, i3, i4⟩
      obtain ⟨b1, b2, b3, b4, b5⟩ := body1_spec' g hv k (by omega) st i1 i2 i3
      refine ⟨b1, b2, b3, ?_⟩
      intro j hj
      by_cases hjk : j = k
      · subst hjk; exact b4
      · rw [b5 j hjk]; exact i4 j (by omega))
  simp only [Nat.zero_add, Nat.sub_zero] at this ⊢
  obtain ⟨w1, _, _, w4⟩ := this
  unfold johnsonsHeap
  apply Array.ext
  · simp [w1.1]
  · intro i hi1 hi2
    have hin : i < g.n := by rw [← w1.1]; exact hi1
    have e : aget (forRange (johnsons_body1 modelOps g.n) g.n 0 (D, vs1)).1 i = (forRange (johnsons_body1 modelOps g.n) g.n 0 (D, vs1)).1[i] := by
      simp [aget, hi1]
    rw [← e, w4 i hin]
    simp

end AdaptaVerif.Lemmas.JohnsonsBridge
