/-
Kept EQUALITIES hold exactly (not just to −1e-10) at the end of `makeFeasible`: the witness of the
invariant (`Good.weq`, `Lemmas/MakeFeasibleInv.lean`) is the position vector of the last kept solve, and
in a returning flag-free `satisfy` after a public-API history every equality is active, hence tight
(`final_eq`), as long as the scales of the variables are non-zero (`solve_eq_exact`).
-/
import AdaptaVerif.Lemmas.MakeFeasibleInv
import AdaptaVerif.Lemmas.MakeFeasibleNoc
namespace AdaptaVerif.Lemmas.MakeFeasibleEq
open AdaptaVerif.Model.MakeFeasible AdaptaVerif.Model.Vpsc
open AdaptaVerif.Model.Compound (Dim)
open AdaptaVerif.Lemmas.MakeFeasibleInv AdaptaVerif.Lemmas.MakeFeasibleNoc

/-- the observable form of `Good.weq` -/
theorem Good.eq_wit {n : Nat} {ds : DimSt} (h : Good n ds)
    (hsc : ∀ i : Nat, i < ds.vars.size → (ds.vars[i]!).2.2 ≠ 0) :
    ∃ g : Array Rat, g.size = ds.vars.size ∧ (∀ i : Nat, i < n → g[i]! = ds.final[i]!) ∧
      ∀ c ∈ ds.valid, ZERO_UPPERBOUND ≤ slackOf ds.vars g c ∧ (c.eq = true → slackOf ds.vars g c = 0) := by
  obtain ⟨g, e1, e2, e3, e4⟩ := h.weq hsc
  exact ⟨g, e1, e2, fun c hc => ⟨e3 c hc, e4 c hc⟩⟩

/-- **kept equalities hold exactly** at the end of `makeFeasible` (one witness per dimension serves the
    inequalities to −1e-10 and the equalities exactly) -/
theorem makeFeasible_good_eq (n : Nat) (vx vy : Array (Rat × Rat × Rat)) (items : List Item)
    (hwf : itemsWf vx.size vy.size items = true)
    (hsx : ∀ i : Nat, i < vx.size → (vx[i]!).2.2 ≠ 0)
    (hsy : ∀ i : Nat, i < vy.size → (vy[i]!).2.2 ≠ 0)
    (hclean : (makeFeasible n vx vy items).combineFlags = #[])
    (hesc : (makeFeasible n vx vy items).escaped = false)
    (hfuel : (makeFeasible n vx vy items).fuelOut = false) :
    ∀ d, ∃ g : Array Rat, (∀ i : Nat, i < n → g[i]! = (makeFeasible n vx vy items).nodePos d i) ∧
      ∀ c ∈ ((makeFeasible n vx vy items).dim d).valid,
        ZERO_UPPERBOUND ≤ slackOf ((makeFeasible n vx vy items).dim d).vars g c ∧
        (c.eq = true → slackOf ((makeFeasible n vx vy items).dim d).vars g c = 0) := by
  obtain ⟨gx, gy, ex, ey, _⟩ := makeFeasible_good n vx vy items hwf hclean hesc hfuel
  intro d
  cases d with
  | x =>
    obtain ⟨g, _, e2, e3⟩ := Good.eq_wit gx (by rw [ex]; exact hsx)
    exact ⟨g, e2, e3⟩
  | y =>
    obtain ⟨g, _, e2, e3⟩ := Good.eq_wit gy (by rw [ey]; exact hsy)
    exact ⟨g, e2, e3⟩

/-- the same after the non-overlap phase -/
theorem makeFeasible_noc_good_eq (n : Nat) (vx vy : Array (Rat × Rat × Rat)) (items : List Item)
    (half : Array (Rat × Rat)) (cc fuel : Nat) (mf' : MF) (noc' : Noc)
    (hwf : itemsWf vx.size vy.size items = true) (hn : half.size ≤ vx.size ∧ half.size ≤ vy.size)
    (hsx : ∀ i : Nat, i < vx.size → (vx[i]!).2.2 ≠ 0)
    (hsy : ∀ i : Nat, i < vy.size → (vy[i]!).2.2 ≠ 0)
    (hrun : MF.runNoc cc fuel (makeFeasible n vx vy items) (Noc.ofSizes half) = some (mf', noc'))
    (hclean : mf'.combineFlags = #[]) (hesc : mf'.escaped = false) (hfuel : mf'.fuelOut = false) :
    ∀ d, ∃ g : Array Rat, (∀ i : Nat, i < n → g[i]! = mf'.nodePos d i) ∧
      ∀ c ∈ (mf'.dim d).valid,
        ZERO_UPPERBOUND ≤ slackOf (mf'.dim d).vars g c ∧
        (c.eq = true → slackOf (mf'.dim d).vars g c = 0) := by
  obtain ⟨gx, gy, ex, ey, _⟩ :=
    makeFeasible_noc_good n vx vy items half cc fuel mf' noc' hwf hn hrun hclean hesc hfuel
  intro d
  cases d with
  | x =>
    obtain ⟨g, _, e2, e3⟩ := Good.eq_wit gx (by rw [ex]; exact hsx)
    exact ⟨g, e2, e3⟩
  | y =>
    obtain ⟨g, _, e2, e3⟩ := Good.eq_wit gy (by rw [ey]; exact hsy)
    exact ⟨g, e2, e3⟩

end AdaptaVerif.Lemmas.MakeFeasibleEq
