/-
Lemmas about the C01 checkers (`Check/Vpsc.lean`) against the spec (`Spec/Vpsc.lean`).
-/
import AdaptaVerif.Check.Vpsc
import AdaptaVerif.Spec.Vpsc
import Mathlib.Tactic.Linarith
import Mathlib.Tactic.Ring
import Mathlib.Tactic.FieldSimp
import Mathlib.Algebra.Order.Field.Rat
namespace AdaptaVerif.Lemmas.Vpsc
open AdaptaVerif.Check.Vpsc AdaptaVerif.Spec.Vpsc

/-! ### telescoping along a walk -/

/-- If every edge of a walk from `a` to `b` holds up to `ε`, then `u a + Σw − ε·length ≤ u b`. -/
theorem walk_sum (u : Nat → Rat) (ε : Rat) :
    ∀ (es : List Edge) (a b : Nat), walkEnd a es = some b →
      (∀ e ∈ es, u e.a + e.w - ε ≤ u e.b) →
      u a + sumW es - ε * (es.length : Rat) ≤ u b := by
  intro es
  induction es with
  | nil =>
    intro a b h _
    simp only [walkEnd, Option.some.injEq] at h
    subst h
    simp [sumW]
  | cons e es ih =>
    intro a b h hall
    simp only [walkEnd] at h
    split at h
    · rename_i hea
      have h1 := ih e.b b h (fun x hx => hall x (List.mem_cons_of_mem _ hx))
      have h2 := hall e (List.mem_cons_self)
      simp only [sumW, List.length_cons, Nat.cast_add, Nat.cast_one]
      rw [hea] at h2
      linarith
    · exact absurd h (by simp)

/-- closed walk all of whose edges hold up to `ε`: total weight ≤ ε·length -/
theorem closed_walk_sum (u : Nat → Rat) (ε : Rat) (cyc : List Edge) (hc : ClosedWalk cyc)
    (hall : ∀ e ∈ cyc, u e.a + e.w - ε ≤ u e.b) : sumW cyc ≤ ε * (cyc.length : Rat) := by
  obtain ⟨e, rest, hcy, hw⟩ := hc
  have := walk_sum u ε cyc e.a e.a hw hall
  linarith

/-! ### constraints ↔ edges in scaled coordinates -/

theorem holds_iff_edges (scale pos : Nat → Rat) (cs : List C) :
    (∀ c ∈ cs, Holds scale pos c) ↔
    (∀ e ∈ edgesOf cs, EdgeHolds (fun i => scale i * pos i) e) := by
  constructor
  · intro h e he
    simp only [edgesOf, List.mem_flatMap] at he
    obtain ⟨c, hc, hec⟩ := he
    have hh := h c hc
    unfold Holds at hh
    by_cases heq : c.eq = true
    · simp only [heq, if_true] at hh hec
      simp only [List.mem_cons, List.not_mem_nil, or_false] at hec
      rcases hec with rfl | rfl <;> simp only [EdgeHolds] <;> linarith
    · simp only [heq] at hh hec
      simp only [List.mem_cons, List.not_mem_nil, or_false, Bool.false_eq_true, if_false] at hec hh
      subst hec
      simp only [EdgeHolds]
      exact hh
  · intro h c hc
    unfold Holds
    by_cases heq : c.eq = true
    · simp only [heq, if_true]
      have h1 := h ⟨c.l, c.r, c.gap⟩ (by
        simp only [edgesOf, List.mem_flatMap]
        exact ⟨c, hc, by simp [heq]⟩)
      have h2 := h ⟨c.r, c.l, -c.gap⟩ (by
        simp only [edgesOf, List.mem_flatMap]
        exact ⟨c, hc, by simp [heq]⟩)
      simp only [EdgeHolds] at h1 h2
      linarith
    · simp only [heq, Bool.false_eq_true, if_false]
      have h1 := h ⟨c.l, c.r, c.gap⟩ (by
        simp only [edgesOf, List.mem_flatMap]
        exact ⟨c, hc, by simp [heq]⟩)
      simpa only [EdgeHolds] using h1

/-- feasibility in positions ↔ feasibility of the difference system in scaled coordinates
    (all scales non-zero) -/
theorem feasible_iff_edges (scale : Nat → Rat) (hs : ∀ i, scale i ≠ 0) (cs : List C) :
    Feasible scale cs ↔ ∃ u : Nat → Rat, ∀ e ∈ edgesOf cs, EdgeHolds u e := by
  constructor
  · rintro ⟨pos, h⟩
    exact ⟨fun i => scale i * pos i, (holds_iff_edges scale pos cs).1 h⟩
  · rintro ⟨u, h⟩
    refine ⟨fun i => u i / scale i, (holds_iff_edges scale _ cs).2 ?_⟩
    have : (fun i => scale i * (u i / scale i)) = u := by
      funext i
      have := hs i
      field_simp
    rw [this]
    exact h

/-! ### the certificates -/

theorem holdsAll_iff (u : Nat → Rat) (es : List Edge) :
    holdsAll u es = true ↔ ∀ e ∈ es, EdgeHolds u e := by
  simp [holdsAll, EdgeHolds, List.all_eq_true]

theorem isPosCycle_spec (es cyc : List Edge) (h : isPosCycle es cyc = true) :
    (∀ e ∈ cyc, e ∈ es) ∧ ClosedWalk cyc ∧ 0 < sumW cyc := by
  unfold isPosCycle at h
  cases cyc with
  | nil => simp at h
  | cons e rest =>
    simp only [Bool.and_eq_true, List.all_eq_true, decide_eq_true_eq, beq_iff_eq] at h
    obtain ⟨⟨h1, h2⟩, h3⟩ := h
    refine ⟨?_, ⟨e, rest, rfl, h2⟩, h3⟩
    intro x hx
    have := h1 x hx
    simpa using this

/-- a positive closed walk of edges of a difference system makes it infeasible -/
theorem pos_cycle_infeasible_edges (es cyc : List Edge) (hsub : ∀ e ∈ cyc, e ∈ es)
    (hc : ClosedWalk cyc) (hpos : 0 < sumW cyc) : ¬ ∃ u : Nat → Rat, ∀ e ∈ es, EdgeHolds u e := by
  rintro ⟨u, hu⟩
  have := closed_walk_sum u 0 cyc hc (by
    intro e he
    have := hu e (hsub e he)
    simp only [EdgeHolds] at this
    linarith)
  linarith

/-! ### checkPost -/

theorem okWithin_iff (tol : Rat) (scale pos : Nat → Rat) (c : C) :
    okWithin tol scale pos c = true ↔ HoldsWithin tol scale pos c := by
  unfold okWithin HoldsWithin
  by_cases h : c.eq = true <;> simp [h]

theorem checkPost_iff (tol : Rat) (scale pos : Nat → Rat) (cs : List (C × Bool)) :
    checkPost tol scale pos cs = true ↔ ∀ p ∈ cs, p.2 = false → HoldsWithin tol scale pos p.1 := by
  unfold checkPost
  rw [List.all_eq_true]
  constructor
  · intro h p hp hf
    have := h p hp
    rw [hf] at this
    simpa [okWithin_iff] using this
  · intro h p hp
    cases hf : p.2 with
    | true => simp
    | false =>
      have := h p hp hf
      simpa [okWithin_iff] using this

end AdaptaVerif.Lemmas.Vpsc
