/-
The orthogonal router's problem (`Model/AStar.lean` part 2) satisfies the hypotheses of
`AStarOpt.search_optimal` on every graph on which the decidable check `Graph.consistent` (part 3)
succeeds: the check is sound.
-/
import AdaptaVerif.Lemmas.AStarOpt
namespace AdaptaVerif.Lemmas.AStarGraph
open AdaptaVerif.Model.AStar AdaptaVerif.Lemmas.AStarSpec AdaptaVerif.Lemmas.AStarOpt

theorem mem_insertByKey (key : Edge → Nat) (e x : Edge) (l : List Edge) :
    x ∈ insertByKey key e l ↔ x = e ∨ x ∈ l := by
  induction l with
  | nil => simp [insertByKey]
  | cons a rest ih =>
    unfold insertByKey
    split
    · simp
    · simp only [List.mem_cons, ih]
      constructor
      · rintro (h | h | h)
        · exact Or.inr (Or.inl h)
        · exact Or.inl h
        · exact Or.inr (Or.inr h)
      · rintro (h | h | h)
        · exact Or.inr (Or.inl h)
        · exact Or.inl h
        · exact Or.inr (Or.inr h)

theorem mem_foldl_insert (key : Edge → Nat) (x : Edge) (l acc : List Edge) :
    x ∈ l.foldl (fun acc e => insertByKey key e acc) acc ↔ x ∈ l ∨ x ∈ acc := by
  induction l generalizing acc with
  | nil => simp
  | cons a rest ih =>
    simp only [List.foldl_cons, ih, mem_insertByKey, List.mem_cons]
    constructor
    · rintro (h | h | h)
      · exact Or.inl (Or.inr h)
      · exact Or.inl (Or.inl h)
      · exact Or.inr h
    · rintro ((h | h) | h)
      · exact Or.inr (Or.inl h)
      · exact Or.inl h
      · exact Or.inr (Or.inr h)

/-- sorting the edge list keeps exactly its entries -/
theorem mem_sortEdges (key : Edge → Nat) (x : Edge) (l : List Edge) : x ∈ sortEdges key l ↔ x ∈ l := by
  unfold sortEdges
  rw [mem_foldl_insert]
  simp

/-- a successor comes from an edge of the expanded vertex's list -/
theorem succ_edge {g : Graph} {pv : Option Nat} {v : Nat} {s : Succ} (h : some s ∈ g.succs pv v) :
    ∃ e ∈ g.adj.getD v [], edgeSucc g pv v e = some s := by
  unfold Graph.succs at h
  rw [List.mem_map] at h
  obtain ⟨e, he, hs⟩ := h
  exact ⟨e, (mem_sortEdges _ _ _).1 he, hs⟩

theorem edgeSucc_w {g : Graph} {pv : Option Nat} {v : Nat} {e : Edge} {s : Succ}
    (h : edgeSucc g pv v e = some s) : s.w = e.to := by
  unfold edgeSucc at h
  simp only at h
  split at h; · simp at h
  split at h; · simp at h
  split at h; · simp at h
  split at h; · simp at h
  split at h
  · simp only [Option.some.injEq] at h; rw [← h]
  · simp only [Option.some.injEq] at h; rw [← h]

theorem edgeSucc_h {g : Graph} {pv : Option Nat} {v : Nat} {e : Edge} {s : Succ}
    (h : edgeSucc g pv v e = some s) : s.h = g.Hfun s.w (some v) := by
  unfold edgeSucc at h
  simp only at h
  split at h; · simp at h
  split at h; · simp at h
  split at h; · simp at h
  split at h; · simp at h
  split at h
  · rename_i hz
    simp only [Option.some.injEq] at h; rw [← h]
    simp [Graph.Hfun, hz.2]
  · simp only [Option.some.injEq] at h; rw [← h]
    simp [Graph.Hfun]

/-- the states the search can generate -/
def Legit (g : Graph) (pv : Option Nat) (v : Nat) : Prop := (pv, v) ∈ g.states

theorem legit_start (g : Graph) : Legit g none g.src := by
  unfold Legit Graph.states; simp

theorem legit_step (g : Graph) (pv : Option Nat) (v : Nat) (s : Succ)
    (hs : some s ∈ g.succs pv v) : Legit g (some v) s.w := by
  obtain ⟨e, he, hes⟩ := succ_edge hs
  have hw := edgeSucc_w hes
  have hv : v < g.adj.size := by
    rcases Nat.lt_or_ge v g.adj.size with hlt | hge
    · exact hlt
    · have : g.adj.getD v [] = [] := by
        simp [Array.getD, Nat.not_lt.2 hge]
      rw [this] at he; simp at he
  unfold Legit Graph.states
  refine List.mem_cons_of_mem _ ?_
  rw [List.mem_flatMap]
  refine ⟨v, List.mem_range.2 hv, ?_⟩
  rw [List.mem_map]
  exact ⟨e, he, by rw [hw]⟩

theorem bonus_nonneg (g : Graph) (h : (costTargets g).all (fun ct => decide (0 ≤ ct.2.2)) = true) (v : Nat) :
    0 ≤ g.bonus v := by
  unfold Graph.bonus
  split
  · rename_i ct hf
    have hm := List.mem_of_find?_eq_some hf
    have := (List.all_eq_true.1 h) ct hm
    simpa using this
  · exact Rat.le_refl

/-- soundness of `Graph.consistent`: the returned node minimises g + (uncharged last hop) over all
    source→target paths of the state graph -/
theorem graph_search_optimal (g : Graph) (hc : g.consistent = true) (heps : g.eps = 0)
    (fuel : Nat) (b : Node) (done : List Node)
    (h : search g.problem fuel (init g.problem) = .found b done) :
    ∀ u c path, Reach g.problem g.tar (some u) c path → g.tar ∉ path.tail →
      b.g + bonusOf g.bonus b.pv ≤ c + g.bonus u := by
  unfold Graph.consistent at hc
  simp only [Bool.and_eq_true, decide_eq_true_eq] at hc
  obtain ⟨⟨hst, hbn⟩, hall⟩ := hc
  have hat : ∀ pv v, Legit g pv v → ∀ s, some s ∈ g.succs pv v →
      (if s.w ≠ g.tar then decide (g.Hfun v pv ≤ s.c + g.Hfun s.w (some v))
       else decide (g.Hfun v pv ≤ s.c + g.bonus v) &&
            (decide (g.bonus v = 0) || decide (g.Hfun v pv = s.c + g.bonus v))) = true := by
    intro pv v hl s hs
    have h1 := (List.all_eq_true.1 hall) (pv, v) hl
    unfold Graph.consistentAt at h1
    exact (List.all_eq_true.1 h1) (some s) hs
  refine search_optimal g.problem g.Hfun g.bonus (Legit g) heps hst (legit_start g)
    (fun pv v s _ hs => legit_step g pv v s hs) ?_ ?_ ?_ (bonus_nonneg g hbn) ?_ ?_ fuel b done h
  · -- h0
    show (estimatedCost g none (g.pt g.src)).getD 0 = g.Hfun g.src none
    have : g.src ≠ g.tar := hst
    simp [Graph.Hfun, this]
  · intro pv v s _ hs
    obtain ⟨e, _, hes⟩ := succ_edge hs
    exact edgeSucc_h hes
  · intro pv; show g.Hfun g.tar pv = 0; simp [Graph.Hfun]
  · intro pv v s hl hs hw
    have := hat pv v hl s hs
    have hw' : s.w ≠ g.tar := hw
    rw [if_pos hw'] at this
    simpa using this
  · intro pv v s hl hs hw
    have := hat pv v hl s hs
    have hw' : ¬ s.w ≠ g.tar := fun hn => hn hw
    rw [if_neg hw'] at this
    simp only [Bool.and_eq_true, Bool.or_eq_true, decide_eq_true_eq] at this
    exact this

end AdaptaVerif.Lemmas.AStarGraph
