/-
Helper lemmas for C11: pin position arithmetic and the assignment state machine.
-/
import AdaptaVerif.Model.Pins
import AdaptaVerif.Spec.Pins
import Mathlib.Tactic.Linarith
import Mathlib.Tactic.Ring
import Mathlib.Algebra.Order.Field.Rat
namespace AdaptaVerif.Lemmas.Pins
open AdaptaVerif.Model.Pins AdaptaVerif.Spec.Pins

/-! ### pin position -/

theorem axisPos_translate (p : Bool) (off ins lo hi t : Rat) :
    axisPos p off ins (lo + t) (hi + t) = axisPos p off ins lo hi + t := by
  have hw : hi + t - (lo + t) = hi - lo := by ring
  unfold axisPos
  rw [hw]
  split_ifs <;> ring

theorem axisPos_in_range (p : Bool) (off ins lo hi : Rat) (h : AxisInRange p off ins lo hi) :
    lo ≤ axisPos p off ins lo hi ∧ axisPos p off ins lo hi ≤ hi := by
  obtain ⟨hlh, hi0, hiw, hoff⟩ := h
  unfold axisPos
  cases p with
  | true =>
    simp only [if_true] at hoff ⊢
    obtain ⟨h0, h1⟩ := hoff
    have hw : 0 ≤ hi - lo := by linarith
    split_ifs
    · constructor <;> linarith
    · constructor <;> linarith
    · have h2 : 0 ≤ off * (hi - lo) := mul_nonneg h0 hw
      have h3 : off * (hi - lo) ≤ 1 * (hi - lo) := mul_le_mul_of_nonneg_right h1 hw
      constructor <;> linarith
  | false =>
    simp only [Bool.false_eq_true, if_false] at hoff ⊢
    split_ifs with h0 h1
    · constructor <;> linarith
    · constructor <;> linarith
    · rcases hoff with hm | ⟨ha, hb⟩
      · exact absurd (Or.inl hm) h1
      · constructor <;> linarith

theorem axisPos_proportional (off ins lo hi : Rat) (h0 : off ≠ 0) (h1 : off ≠ 1) :
    axisPos true off ins lo hi - lo = off * (hi - lo) := by
  unfold axisPos
  simp only [if_true, h0, h1, if_false]
  ring

/-! ### state machine -/

theorem isFree_excl {p : PinState} (he : p.exclusive = true) (hf : isFree p = true) : p.users = [] := by
  unfold isFree at hf
  simp only [he, Bool.not_true, Bool.false_or] at hf
  exact List.isEmpty_iff.mp hf

theorem routePin_users_le (conn : Nat) (sp dp : Option Nat) (p : PinState)
    (hok : sp = none ∨ dp = none ∨ sp ≠ dp) (he : p.exclusive = true) (hlen : p.users.length ≤ 1) :
    (routePin conn sp dp p).users.length ≤ 1 := by
  unfold routePin
  simp only
  by_cases hf : isFree p = true
  · have hu := isFree_excl he hf
    by_cases hs : sp = some p.id <;> by_cases hd : dp = some p.id
    · exfalso
      rcases hok with h | h | h
      · rw [h] at hs; cases hs
      · rw [h] at hd; cases hd
      · exact h (hs.trans hd.symm)
    · simp [hs, hd, hf, hu]
    · simp [hs, hd, hf, hu]
    · simp [hs, hd, hlen]
  · simp [hf, hlen]

theorem routePin_exclusive (conn : Nat) (sp dp : Option Nat) (p : PinState) :
    (routePin conn sp dp p).exclusive = p.exclusive := rfl

theorem inv_step (s : State) (op : Op) (hinv : ExclInv s) (hok : Op.ok s op) : ExclInv (step s op) := by
  intro q hq hex
  cases op with
  | addPin id shape cls excl =>
    simp only [step, List.mem_append, List.mem_singleton] at hq
    rcases hq with hq | hq
    · exact hinv q hq hex
    · subst hq; simp
  | setExclusive id b =>
    simp only [step, List.mem_map] at hq
    obtain ⟨p, hp, rfl⟩ := hq
    by_cases hid : p.id = id
    · simp only [hid, if_true] at hex ⊢
      cases b with
      | true => exact hok p hp hid
      | false => simp at hex
    · simp only [hid, if_false] at hex ⊢
      exact hinv p hp hex
  | route conn sp dp =>
    simp only [step] at hq
    split at hq
    · exact hinv q hq hex
    · simp only [List.mem_map] at hq
      obtain ⟨p, hp, rfl⟩ := hq
      rw [routePin_exclusive] at hex
      exact routePin_users_le conn sp dp p hok hex (hinv p hp hex)
  | release conn =>
    simp only [step, List.mem_map] at hq
    obtain ⟨p, hp, rfl⟩ := hq
    simp only at hex ⊢
    exact le_trans (List.length_filter_le _ _) (hinv p hp hex)
  | freeAll =>
    simp only [step, List.mem_map] at hq
    obtain ⟨p, _, rfl⟩ := hq
    simp
  | deletePin id =>
    simp only [step, List.mem_filter] at hq
    exact hinv q hq.1 hex
  | deleteShape sh =>
    simp only [step, List.mem_filter] at hq
    exact hinv q hq.1 hex

theorem inv_run (ops : List Op) : ∀ (s : State), ExclInv s → runOk s ops → ExclInv (run s ops) := by
  induction ops with
  | nil => intro s h _; exact h
  | cons op ops ih =>
    intro s h hok
    obtain ⟨h1, h2⟩ := hok
    simp only [run, List.foldl_cons]
    exact ih (step s op) (inv_step s op h h1) h2

theorem inv_freeAll (s : State) : ExclInv (step s .freeAll) := by
  intro q hq _
  simp only [step, List.mem_map] at hq
  obtain ⟨p, _, rfl⟩ := hq
  simp

theorem invB_iff (s : State) : invB s = true ↔ ExclInv s := by
  unfold invB ExclInv
  simp only [List.all_eq_true, Bool.or_eq_true, Bool.not_eq_true', decide_eq_true_eq]
  constructor
  · intro h p hp he
    rcases h p hp with h1 | h1
    · rw [he] at h1; cases h1
    · exact h1
  · intro h p hp
    cases he : p.exclusive with
    | false => exact Or.inl rfl
    | true => exact Or.inr (h p hp he)

end AdaptaVerif.Lemmas.Pins
