/-
Lemmas about `Model/OrthVis.lean`, part 1: limits of the sweeps, candidate segments are clear of every
rectangle interior (end-point segments: of every rectangle that does not strictly contain the end point),
merging keeps that.
-/
import Mathlib.Tactic.Linarith
import Mathlib.Algebra.Order.Field.Rat
import AdaptaVerif.Model.OrthVis

namespace AdaptaVerif.Lemmas.OrthVis
open AdaptaVerif.Model.OrthVis

/-! ### `maxL` / `minL` -/

theorem foldl_max_ge (l : List Rat) (a : Rat) : a ≤ l.foldl max a ∧ ∀ x ∈ l, x ≤ l.foldl max a := by
  induction l generalizing a with
  | nil => simp
  | cons b r ih =>
    obtain ⟨h1, h2⟩ := ih (max a b)
    refine ⟨le_trans (le_max_left a b) h1, ?_⟩
    intro x hx
    rcases List.mem_cons.mp hx with rfl | hx
    · exact le_trans (le_max_right a x) h1
    · exact h2 x hx

theorem le_maxL (a : Rat) (l : List Rat) : a ≤ maxL a l := (foldl_max_ge l a).1
theorem mem_le_maxL {a : Rat} {l : List Rat} {x : Rat} (h : x ∈ l) : x ≤ maxL a l := (foldl_max_ge l a).2 x h

theorem maxL_le {a c : Rat} {l : List Rat} (ha : a ≤ c) (hl : ∀ x ∈ l, x ≤ c) : maxL a l ≤ c := by
  unfold maxL
  induction l generalizing a with
  | nil => simpa
  | cons b r ih =>
    exact ih (max_le ha (hl b (by simp))) (fun x hx => hl x (by simp [hx]))

theorem foldl_min_le (l : List Rat) (a : Rat) : l.foldl min a ≤ a ∧ ∀ x ∈ l, l.foldl min a ≤ x := by
  induction l generalizing a with
  | nil => simp
  | cons b r ih =>
    obtain ⟨h1, h2⟩ := ih (min a b)
    refine ⟨le_trans h1 (min_le_left a b), ?_⟩
    intro x hx
    rcases List.mem_cons.mp hx with rfl | hx
    · exact le_trans h1 (min_le_right a x)
    · exact h2 x hx

theorem minL_le (a : Rat) (l : List Rat) : minL a l ≤ a := (foldl_min_le l a).1
theorem minL_le_mem {a : Rat} {l : List Rat} {x : Rat} (h : x ∈ l) : minL a l ≤ x := (foldl_min_le l a).2 x h

theorem le_minL {a c : Rat} {l : List Rat} (ha : c ≤ a) (hl : ∀ x ∈ l, c ≤ x) : c ≤ minL a l := by
  unfold minL
  induction l generalizing a with
  | nil => simpa
  | cons b r ih =>
    exact ih (le_min ha (hl b (by simp))) (fun x hx => hl x (by simp [hx]))

/-! ### clearness -/

/-- `(x, y)` in the open rectangle -/
def StrictIn (R : Rect) (x y : Rat) : Prop := R.x0 < x ∧ x < R.x1 ∧ R.y0 < y ∧ y < R.y1

theorem StrictIn_tr (R : Rect) (x y : Rat) : StrictIn R.tr x y ↔ StrictIn R y x := by
  unfold StrictIn Rect.tr; constructor <;> (intro h; exact ⟨h.2.2.1, h.2.2.2, h.1, h.2.1⟩)

/-- the open horizontal segment `(b, f) × {y}` meets the interior of a rectangle `R` only if `P R` -/
def ClearX (P : Rect → Prop) (rects : List Rect) (y b f : Rat) : Prop :=
  ∀ R ∈ rects, ∀ t, b < t → t < f → StrictIn R t y → P R

/-- invariant of a line segment: well formed, clear, its vertices inside its extent -/
structure Good (P : Rect → Prop) (rects : List Rect) (s : Seg) : Prop where
  wf : s.b ≤ s.f
  clear : ClearX P rects s.p s.b s.f
  inr : ∀ q ∈ s.vs, s.b ≤ q.t ∧ q.t ≤ s.f

theorem mem_eraseIdx_or {α} (l : List α) (i : Nat) (v x : α) (hv : l[i]? = some v) (hx : x ∈ l) :
    x = v ∨ x ∈ l.eraseIdx i := by
  induction l generalizing i with
  | nil => simp at hx
  | cons a r ih =>
    cases i with
    | zero =>
      simp at hv; subst hv
      rcases List.mem_cons.mp hx with h | h
      · exact Or.inl h
      · exact Or.inr (by simpa using h)
    | succ j =>
      simp at hv
      rcases List.mem_cons.mp hx with h | h
      · exact Or.inr (by simp [h])
      · rcases ih j hv h with h' | h'
        · exact Or.inl h'
        · exact Or.inr (by simp [h'])

theorem mem_activeAt {rects : List Rect} {y : Rat} {R : Rect} (hR : R ∈ rects) (h0 : R.y0 < y) (h1 : y < R.y1) :
    R ∈ activeAt rects y := by
  unfold activeAt
  simp only [List.mem_filter, decide_eq_true_eq]
  exact ⟨hR, le_of_lt h0, le_of_lt h1⟩

/-- limits of a rectangle side against a strictly crossing rectangle of the scan line -/
theorem limits_block (lo hi : Rat) (act : List Rect) (v : Rect) (y : Rat) (R : Rect) (hR : R ∈ act)
    (h0 : R.y0 < y) (h1 : y < R.y1) :
    let L := findLimits lo hi act v y
    (R.x1 ≤ v.x0 → R.x1 ≤ L.minLimit) ∧ (¬ R.x1 ≤ v.x0 → R.x0 ≥ v.x1 → L.maxLimit ≤ R.x0) ∧
    (¬ R.x1 ≤ v.x0 → ¬ R.x0 ≥ v.x1 → L.minLimitMax ≤ R.x0 ∧ R.x1 ≤ L.maxLimitMin) := by
  intro L
  refine ⟨fun h => ?_, fun h h' => ?_, fun h h' => ?_⟩
  · apply mem_le_maxL
    simp only [List.mem_map, List.mem_filter]
    exact ⟨R, ⟨hR, by simp [leftOf, h]⟩, rfl⟩
  · apply minL_le_mem
    simp only [List.mem_map, List.mem_filter]
    exact ⟨R, ⟨hR, by simp [rightOf, leftOf, h, h']⟩, rfl⟩
  · have hs : samePos v R y = false := by
      unfold samePos
      have e1 : (y == R.y1) = false := by simpa using ne_of_lt h1
      have e0 : (y == R.y0) = false := by simpa using (ne_of_lt h0).symm
      simp [e1, e0]
    have ho : ovl v y R = true := by
      unfold ovl; simp only [leftOf, hs]; simp; exact ⟨lt_of_not_ge h, lt_of_not_ge h'⟩
    constructor
    · apply minL_le_mem
      simp only [List.mem_map, List.mem_filter]
      exact ⟨R, ⟨hR, ho⟩, rfl⟩
    · apply mem_le_maxL
      simp only [List.mem_map, List.mem_filter]
      exact ⟨R, ⟨hR, ho⟩, rfl⟩

theorem limits_bounds (lo hi : Rat) (act : List Rect) (v : Rect) (y : Rat) (hlo : lo ≤ v.x0) (hhi : v.x1 ≤ hi) :
    let L := findLimits lo hi act v y
    L.minLimit ≤ v.x0 ∧ v.x1 ≤ L.maxLimit ∧ L.minLimitMax ≤ v.x1 ∧ v.x0 ≤ L.maxLimitMin := by
  intro L
  refine ⟨?_, ?_, minL_le _ _, le_maxL _ _⟩
  · apply maxL_le hlo
    intro x hx
    simp only [List.mem_map, List.mem_filter, leftOf, decide_eq_true_eq] at hx
    obtain ⟨c, ⟨_, hc⟩, rfl⟩ := hx
    exact hc
  · apply le_minL hhi
    intro x hx
    simp only [List.mem_map, List.mem_filter, rightOf, leftOf, Bool.and_eq_true, decide_eq_true_eq] at hx
    obtain ⟨c, ⟨_, _, hc⟩, rfl⟩ := hx
    exact hc

/-- every candidate segment of a rectangle side is good (clear of ALL rectangle interiors), provided the
    side is a side of that rectangle -/
theorem sideSegsH_good (P : Rect → Prop) (lo hi : Rat) (rects : List Rect) (i : Nat) (v : Rect)
    (hv : rects[i]? = some v) (y : Rat) (hy : y = v.y0 ∨ y = v.y1)
    (hlo : lo ≤ v.x0) (hhi : v.x1 ≤ hi) :
    ∀ s ∈ sideSegsH lo hi rects i v y, Good P rects s ∧ s.p = y := by
  intro s hs
  unfold sideSegsH at hs
  have hb := limits_bounds lo hi (activeAt (rects.eraseIdx i) y) v y hlo hhi
  set L := findLimits lo hi (activeAt (rects.eraseIdx i) y) v y with hL
  obtain ⟨hb1, hb2, hb3, hb4⟩ := hb
  -- a strictly crossing rectangle is another rectangle of the scan line
  have key : ∀ R ∈ rects, ∀ t, StrictIn R t y →
      (R.x1 ≤ v.x0 → R.x1 ≤ L.minLimit) ∧ (¬ R.x1 ≤ v.x0 → R.x0 ≥ v.x1 → L.maxLimit ≤ R.x0) ∧
      (¬ R.x1 ≤ v.x0 → ¬ R.x0 ≥ v.x1 → L.minLimitMax ≤ R.x0 ∧ R.x1 ≤ L.maxLimitMin) := by
    intro R hR t hin
    rcases mem_eraseIdx_or rects i v R hv hR with rfl | hR'
    · exfalso
      rcases hy with rfl | rfl
      · exact lt_irrefl _ hin.2.2.1
      · exact lt_irrefl _ hin.2.2.2
    · exact limits_block lo hi _ v y R (mem_activeAt hR' hin.2.2.1 hin.2.2.2) hin.2.2.1 hin.2.2.2
  by_cases hn : L.minLimitMax ≥ L.maxLimitMin
  · rw [if_pos hn] at hs
    simp only [List.mem_singleton] at hs
    subst hs
    refine ⟨⟨by simp only; linarith, ?_, ?_⟩, rfl⟩
    · intro R hR t hbt htf hin
      exfalso
      obtain ⟨k1, k2, k3⟩ := key R hR t hin
      simp only at hbt htf
      by_cases c1 : R.x1 ≤ v.x0
      · have := k1 c1; linarith [hin.2.1]
      · by_cases c2 : R.x0 ≥ v.x1
        · have := k2 c1 c2; linarith [hin.1]
        · obtain ⟨a, b⟩ := k3 c1 c2
          linarith [hin.1, hin.2.1]
    · intro q hq
      simp only [List.mem_cons, List.not_mem_nil, or_false] at hq
      have hvv : v.x0 ≤ v.x1 := by linarith
      rcases hq with rfl | rfl <;> simp only <;> constructor <;> linarith
  · rw [if_neg hn] at hs
    rcases List.mem_append.mp hs with hs | hs
    · split at hs
      · rename_i hc
        simp only [List.mem_singleton] at hs
        subst hs
        refine ⟨⟨by simp only; linarith [hc.1], ?_, ?_⟩, rfl⟩
        · intro R hR t hbt htf hin
          exfalso
          obtain ⟨k1, k2, k3⟩ := key R hR t hin
          simp only at hbt htf
          by_cases c1 : R.x1 ≤ v.x0
          · have := k1 c1; linarith [hin.2.1]
          · by_cases c2 : R.x0 ≥ v.x1
            · linarith [hin.1]
            · obtain ⟨a, b⟩ := k3 c1 c2
              linarith [hin.1]
        · intro q hq
          simp only [List.mem_singleton] at hq
          subst hq
          simp only
          exact ⟨hb1, hc.2⟩
      · simp at hs
    · split at hs
      · rename_i hc
        simp only [List.mem_singleton] at hs
        subst hs
        refine ⟨⟨by simp only; linarith [hc.1], ?_, ?_⟩, rfl⟩
        · intro R hR t hbt htf hin
          exfalso
          obtain ⟨k1, k2, k3⟩ := key R hR t hin
          simp only at hbt htf
          by_cases c1 : R.x1 ≤ v.x0
          · linarith [hin.2.1]
          · by_cases c2 : R.x0 ≥ v.x1
            · have := k2 c1 c2; linarith [hin.1]
            · obtain ⟨a, b⟩ := k3 c1 c2
              linarith [hin.2.1]
        · intro q hq
          simp only [List.mem_singleton] at hq
          subst hq
          simp only
          exact ⟨hc.2, hb2⟩
      · simp at hs

/-- `firstAbove` / `firstBelow` against a strictly crossing rectangle -/
theorem first_block (lo hi : Rat) (act : List Rect) (px py : Rat) (R : Rect) (hR : R ∈ act)
    (h0 : R.y0 < py) (h1 : py < R.y1) :
    (R.x1 ≤ px → R.x1 ≤ firstAbove lo act px py) ∧ (R.x0 ≥ px → firstBelow hi act px py ≤ R.x0) := by
  have ho : offEdge py R = true := by
    unfold offEdge
    have e1 : (py == R.y1) = false := by simpa using ne_of_lt h1
    have e0 : (py == R.y0) = false := by simpa using (ne_of_lt h0).symm
    simp [e1, e0]
  constructor
  · intro h
    apply mem_le_maxL
    simp only [List.mem_map, List.mem_filter]
    exact ⟨R, ⟨hR, by simp [ho, h]⟩, rfl⟩
  · intro h
    apply minL_le_mem
    simp only [List.mem_map, List.mem_filter]
    exact ⟨R, ⟨hR, by simp [ho, h]⟩, rfl⟩

/-- the candidate segment of a connector end point is clear of every rectangle that does not strictly
    contain the end point -/
theorem connSegH_good (lo hi : Rat) (rects : List Rect) (i : Nat) (c : Conn) :
    Good (fun R => StrictIn R c.x c.y) rects (connSegH lo hi rects i c) ∧ (connSegH lo hi rects i c).p = c.y := by
  unfold connSegH
  set act := activeAt rects c.y
  set mn := firstAbove lo act c.x c.y
  set mx := firstBelow hi act c.x c.y
  refine ⟨⟨?_, ?_, ?_⟩, rfl⟩
  · simp only
    split <;> split <;> rename_i h1 h2 <;> simp only [Bool.and_eq_true, decide_eq_true_eq] at h1 h2 <;>
      first | linarith [h1.2, h2.2] | linarith [h1.2] | linarith [h2.2] | exact le_refl _
  · intro R hR t hbt htf hin
    simp only at hbt htf hin
    have hact := mem_activeAt hR hin.2.2.1 hin.2.2.2
    obtain ⟨fa, fb⟩ := first_block lo hi act c.x c.y R hact hin.2.2.1 hin.2.2.2
    refine ⟨?_, ?_, hin.2.2.1, hin.2.2.2⟩
    · by_contra hcon
      have hge : R.x0 ≥ c.x := not_lt.mp hcon
      have := fb hge
      split at htf
      · linarith [hin.1]
      · linarith [hin.1]
    · by_contra hcon
      have hle : R.x1 ≤ c.x := not_lt.mp hcon
      have := fa hle
      split at hbt
      · linarith [hin.2.1]
      · linarith [hin.2.1]
  · intro q hq
    simp only at hq ⊢
    have hqt : q.t = c.x := by
      rcases List.mem_cons.mp hq with rfl | hq
      · rfl
      · split at hq
        · simp only [List.mem_singleton] at hq; subst hq; rfl
        · simp at hq
    rw [hqt]
    constructor
    · split
      · rename_i h; simp only [Bool.and_eq_true, decide_eq_true_eq] at h; exact le_of_lt h.2
      · exact le_refl _
    · split
      · rename_i h; simp only [Bool.and_eq_true, decide_eq_true_eq] at h; exact le_of_lt h.2
      · exact le_refl _

theorem Good.mono {P Q : Rect → Prop} (hPQ : ∀ R, P R → Q R) {rects : List Rect} {s : Seg}
    (h : Good P rects s) : Good Q rects s :=
  ⟨h.wf, fun R hR t a b c => hPQ R (h.clear R hR t a b c), h.inr⟩

/-- vertical candidate segments of an end point (transposed scene) -/
theorem connSegsV_good (lo hi : Rat) (rects : List Rect) (c : Conn) :
    ∀ s ∈ connSegsV lo hi rects c, Good (fun R => StrictIn R c.x c.y) rects s ∧ s.p = c.y := by
  intro s hs
  unfold connSegsV at hs
  set act := activeAt rects c.y
  have blk : ∀ R ∈ rects, ∀ t, StrictIn R t c.y →
      (R.x1 ≤ c.x → R.x1 ≤ firstAbove lo act c.x c.y) ∧ (R.x0 ≥ c.x → firstBelow hi act c.x c.y ≤ R.x0) :=
    fun R hR t hin => first_block lo hi act c.x c.y R (mem_activeAt hR hin.2.2.1 hin.2.2.2) hin.2.2.1 hin.2.2.2
  rcases List.mem_append.mp hs with hs | hs
  · split at hs
    · rename_i h
      simp only [Bool.and_eq_true, decide_eq_true_eq] at h
      simp only [List.mem_singleton] at hs
      subst hs
      refine ⟨⟨le_of_lt h.2, ?_, by simp⟩, rfl⟩
      intro R hR t hbt htf hin
      simp only at hbt htf hin
      obtain ⟨fa, fb⟩ := blk R hR t hin
      refine ⟨by linarith [hin.1], ?_, hin.2.2.1, hin.2.2.2⟩
      by_contra hcon
      have := fa (not_lt.mp hcon)
      linarith [hin.2.1]
    · simp at hs
  · split at hs
    · rename_i h
      simp only [Bool.and_eq_true, decide_eq_true_eq] at h
      simp only [List.mem_singleton] at hs
      subst hs
      refine ⟨⟨le_of_lt h.2, ?_, by simp⟩, rfl⟩
      intro R hR t hbt htf hin
      simp only at hbt htf hin
      obtain ⟨fa, fb⟩ := blk R hR t hin
      refine ⟨?_, by linarith [hin.2.1], hin.2.2.1, hin.2.2.2⟩
      by_contra hcon
      have := fb (not_lt.mp hcon)
      linarith [hin.1]
    · simp at hs

/-! ### merging -/

theorem overlaps_common {a b : Seg} (h : a.overlaps b = true) (wa : a.b ≤ a.f) (wb : b.b ≤ b.f) :
    a.p = b.p ∧ ∃ u, a.b ≤ u ∧ u ≤ a.f ∧ b.b ≤ u ∧ u ≤ b.f := by
  unfold Seg.overlaps at h
  simp only [Bool.and_eq_true, Bool.or_eq_true, decide_eq_true_eq, beq_iff_eq] at h
  refine ⟨h.1, ?_⟩
  rcases h.2 with ⟨h1, h2⟩ | ⟨h1, h2⟩
  · exact ⟨a.b, le_refl _, wa, h1, h2⟩
  · exact ⟨b.b, h1, h2, le_refl _, wb⟩

/-- merging two good collinear segments that share a point gives a good segment -/
theorem Good.merge {P : Rect → Prop} {rects : List Rect} {a b : Seg} (ga : Good P rects a) (gb : Good P rects b)
    (hp : a.p = b.p) (u : Rat) (hu : a.b ≤ u ∧ u ≤ a.f ∧ b.b ≤ u ∧ u ≤ b.f) :
    Good P rects (a.merge b) := by
  obtain ⟨u1, u2, u3, u4⟩ := hu
  unfold Seg.merge
  refine ⟨?_, ?_, ?_⟩
  · simp only
    exact le_trans (min_le_left _ _) (le_trans ga.wf (le_max_left _ _))
  · intro R hR t hbt htf hin
    simp only at hbt htf hin
    have ca := ga.clear R hR
    have cb := gb.clear R hR
    rw [← hp] at cb
    -- t lies in the open part of a, of b, or exactly on the common point where they only touch
    by_cases h1 : a.b < t ∧ t < a.f
    · exact ca t h1.1 h1.2 hin
    by_cases h2 : b.b < t ∧ t < b.f
    · exact cb t h2.1 h2.2 hin
    -- otherwise the segments only touch in `t`; move a little towards the side on which one extends
    have hmin : a.b < t ∨ b.b < t := min_lt_iff.mp hbt
    have hmax : t < a.f ∨ t < b.f := lt_max_iff.mp htf
    rcases hmin with hm | hm
    · have h3 : a.f ≤ t := by by_contra hc; exact h1 ⟨hm, not_le.mp hc⟩
      set m := max a.b R.x0 with hmdef
      have hmt : m < t := max_lt hm hin.1
      have hma : a.b ≤ m := le_max_left _ _
      have hmr : R.x0 ≤ m := le_max_right _ _
      have hta : t ≤ a.f := by
        rcases hmax with h | h
        · exact le_of_lt h
        · have : t ≤ b.b := by by_contra hc; exact h2 ⟨not_le.mp hc, h⟩
          linarith
      refine ca ((m + t) / 2) (by linarith) (by linarith) ⟨by linarith, by linarith [hin.2.1], hin.2.2.1, hin.2.2.2⟩
    · have h3 : b.f ≤ t := by by_contra hc; exact h2 ⟨hm, not_le.mp hc⟩
      set m := max b.b R.x0 with hmdef
      have hmt : m < t := max_lt hm hin.1
      have hma : b.b ≤ m := le_max_left _ _
      have hmr : R.x0 ≤ m := le_max_right _ _
      have hta : t ≤ b.f := by
        rcases hmax with h | h
        · have : t ≤ a.b := by by_contra hc; exact h1 ⟨not_le.mp hc, h⟩
          linarith
        · exact le_of_lt h
      refine cb ((m + t) / 2) (by linarith) (by linarith) ⟨by linarith, by linarith [hin.2.1], hin.2.2.1, hin.2.2.2⟩
  · intro q hq
    simp only at hq ⊢
    rcases List.mem_append.mp hq with hq | hq
    · obtain ⟨h1, h2⟩ := ga.inr q hq
      exact ⟨le_trans (min_le_left _ _) h1, le_trans h2 (le_max_left _ _)⟩
    · obtain ⟨h1, h2⟩ := gb.inr q hq
      exact ⟨le_trans (min_le_right _ _) h1, le_trans h2 (le_max_right _ _)⟩

/-- one coordinate of a closed segment point that lies in an open interval: there is a point of the OPEN
    segment in the same open interval -/
theorem open_point_near {a b t r0 r1 : Rat} (hab : a < b) (h0 : 0 ≤ t) (h1 : t ≤ 1)
    (hr0 : r0 < a + t * (b - a)) (hr1 : a + t * (b - a) < r1) :
    ∃ m, a < m ∧ m < b ∧ r0 < m ∧ m < r1 := by
  have hd : 0 ≤ t * (b - a) := mul_nonneg h0 (by linarith)
  have hd' : 0 ≤ (1 - t) * (b - a) := mul_nonneg (by linarith) (by linarith)
  have hx0 : a ≤ a + t * (b - a) := by linarith
  have hx1 : a + t * (b - a) ≤ b := by nlinarith
  have l1 := le_max_left a r0
  have l2 := le_max_right a r0
  have u1 := min_le_left b r1
  have u2 := min_le_right b r1
  have hlt : max a r0 < min b r1 := by
    apply max_lt <;> apply lt_min <;> linarith
  exact ⟨(max a r0 + min b r1) / 2, by linarith, by linarith, by linarith, by linarith⟩

end AdaptaVerif.Lemmas.OrthVis
