/-
C15 (A) — helper lemmas, part 2: the pending-action queue (`Router::actionList`) between operations,
what `~Router` releases, and fault-freedom of strictly legal histories.
-/
import AdaptaVerif.Lemmas.Lifecycle
namespace AdaptaVerif.Lemmas.Lifecycle
open AdaptaVerif.Model.Lifecycle AdaptaVerif.Spec.Lifecycle

/-! ### `m_consolidate_actions` only changes in `setTransactionUse` -/

@[simp] theorem cons_addFault (s : St) (f : Fault) : (s.addFault f).consolidate = s.consolidate := rfl
@[simp] theorem cons_enqueue (s : St) (t : AType) (o : Id) : (s.enqueue t o).consolidate = s.consolidate := by
  unfold St.enqueue; split <;> rfl
@[simp] theorem cons_dropAction (s : St) (t : AType) (o : Id) : (s.dropAction t o).consolidate = s.consolidate := rfl
@[simp] theorem cons_removeFromQueue (s : St) (o : Id) : (s.removeFromQueue o).consolidate = s.consolidate := rfl
@[simp] theorem cons_modify (s : St) (c : Id) (d : Bool) (e : EndSpec) : (s.modify c d e).consolidate = s.consolidate := rfl
@[simp] theorem cons_addObst (s : St) (i : Id) (j a : Bool) : (s.addObst i j a).consolidate = s.consolidate := rfl
@[simp] theorem cons_addPin (s : St) (p o : Id) (c : Nat) : (s.addPin p o c).consolidate = s.consolidate := rfl
@[simp] theorem cons_addConn (s : St) (i : Id) (a : Bool) : (s.addConn i a).consolidate = s.consolidate := rfl
@[simp] theorem cons_unlinkPin (s : St) (p : Id) : (s.unlinkPin p).consolidate = s.consolidate := rfl
@[simp] theorem cons_releasePin (s : St) (p : Id) : (s.releasePin p).consolidate = s.consolidate := rfl
@[simp] theorem cons_freeObstacle (s : St) (o : Id) : (s.freeObstacle o).consolidate = s.consolidate := rfl
@[simp] theorem cons_freeConn (s : St) (c : Id) : (s.freeConn c).consolidate = s.consolidate := rfl
@[simp] theorem cons_addCluster (s : St) (k : Id) (r : List Id) : (s.addCluster k r).consolidate = s.consolidate := rfl
@[simp] theorem cons_setClusterRefs (s : St) (k : Id) (r : List Id) : (s.setClusterRefs k r).consolidate = s.consolidate := rfl
@[simp] theorem cons_routeClusters (s : St) : s.routeClusters.consolidate = s.consolidate := rfl
@[simp] theorem cons_freeCluster (s : St) (k : Id) : (s.freeCluster k).consolidate = s.consolidate := rfl
@[simp] theorem cons_reroute (s : St) : (reroute s).consolidate = s.consolidate := rfl
@[simp] theorem cons_setCheckpoints (s : St) (c : Id) (vs : List Id) :
    (s.setCheckpoints c vs).consolidate = s.consolidate := rfl

@[simp] theorem cons_procRemoveMove (s : St) (a : Action) : (procRemoveMove s a).consolidate = s.consolidate := by
  unfold procRemoveMove
  split
  · split
    · rfl
    · rfl
  · split
    · split
      · rfl
      · rfl
    · rfl

@[simp] theorem cons_procAddMove (s : St) (a : Action) : (procAddMove s a).consolidate = s.consolidate := by
  unfold procAddMove
  split
  · split <;> rfl
  · rfl

@[simp] theorem cons_applyEnd (s : St) (c : Id) (u : Bool × EndSpec) : (applyEnd s c u).consolidate = s.consolidate := by
  unfold applyEnd
  split
  · rfl
  · split <;> rfl

theorem cons_foldl {α : Type} (f : St → α → St) (hf : ∀ s a, (f s a).consolidate = s.consolidate)
    (l : List α) (s : St) : (l.foldl f s).consolidate = s.consolidate :=
  foldl_inv (fun t => t.consolidate = s.consolidate) f (fun t a ht => (hf t a).trans ht) l s rfl

@[simp] theorem cons_procConnChange (s : St) (a : Action) : (procConnChange s a).consolidate = s.consolidate := by
  unfold procConnChange
  split
  · split
    · rfl
    · exact cons_foldl _ (fun s u => cons_applyEnd s a.obj u) _ _
  · rfl

@[simp] theorem cons_processActions (s : St) : s.processActions.consolidate = s.consolidate := by
  unfold St.processActions
  show (List.foldl procConnChange _ _).consolidate = _
  rw [cons_foldl _ cons_procConnChange, cons_foldl _ cons_procAddMove, cons_foldl _ cons_procRemoveMove]

@[simp] theorem cons_processTransaction (s : St) : s.processTransaction.consolidate = s.consolidate := by
  unfold St.processTransaction
  split
  · rfl
  · simp

@[simp] theorem cons_maybeProcess (s : St) : s.maybeProcess.consolidate = s.consolidate := by
  unfold St.maybeProcess
  split
  · rfl
  · simp

theorem actions_processTransaction (s : St) : s.processTransaction.actions = [] := by
  unfold St.processTransaction
  split
  · rename_i h; simpa using h
  · rfl

theorem maybeProcess_on {s : St} (h : s.consolidate = true) : s.maybeProcess = s := by
  unfold St.maybeProcess; rw [if_pos h]

theorem maybeProcess_off {s : St} (h : s.consolidate = false) : s.maybeProcess.actions = [] := by
  unfold St.maybeProcess; rw [if_neg (by simp [h])]; exact actions_processTransaction s


/-! ### `NoDanglingAction` between operations -/

theorem nd_of_nil {s : St} (h : s.actions = []) : NoDanglingAction s := by
  intro a ha; rw [h] at ha; cases ha

/-- fewer actions, more objects -/
theorem nd_transfer {s t : St} (h : NoDanglingAction s) (hact : ∀ a ∈ t.actions, a ∈ s.actions)
    (hS : ∀ o, s.hasShape o = true → t.hasShape o = true)
    (hJ : ∀ o, s.hasJunction o = true → t.hasJunction o = true)
    (hC : ∀ o, s.hasConn o = true → t.hasConn o = true)
    (hO : ∀ o, s.hasObst o = true → t.hasObst o = true) : NoDanglingAction t := by
  intro a ha
  obtain ⟨h1, h2, h3⟩ := h a (hact a ha)
  refine ⟨fun x => hS _ (h1 x), fun x => hJ _ (h2 x), fun x => ⟨hC _ (h3 x).1, ?_⟩⟩
  intro u hu an han
  exact hO _ ((h3 x).2 u hu an han)

theorem nd_addFault {s : St} (h : NoDanglingAction s) (f : Fault) : NoDanglingAction (s.addFault f) :=
  nd_transfer h (fun _ x => x) (fun _ x => x) (fun _ x => x) (fun _ x => x) (fun _ x => x)

theorem nd_addObst {s : St} (h : NoDanglingAction s) (i : Id) (j a : Bool) :
    NoDanglingAction (s.addObst i j a) := by
  refine nd_transfer h (fun _ x => x) ?_ ?_ (fun _ x => x) ?_ <;>
  · intro o ho
    simp only [St.hasShape, St.hasJunction, St.hasObst, St.addObst, List.any_append, Bool.or_eq_true] at ho ⊢
    exact Or.inl ho

theorem nd_addPin {s : St} (h : NoDanglingAction s) (p o : Id) (c : Nat) :
    NoDanglingAction (s.addPin p o c) :=
  nd_transfer h (fun _ x => x) (fun _ x => x) (fun _ x => x) (fun _ x => x) (fun _ x => x)

theorem nd_addConn {s : St} (h : NoDanglingAction s) (i : Id) (a : Bool) :
    NoDanglingAction (s.addConn i a) := by
  refine nd_transfer h (fun _ x => x) (fun _ x => x) (fun _ x => x) ?_ (fun _ x => x)
  intro o ho
  simp only [St.hasConn, St.addConn, List.any_append, Bool.or_eq_true] at ho ⊢
  exact Or.inl ho

theorem nd_dropAction {s : St} (h : NoDanglingAction s) (t : AType) (o : Id) :
    NoDanglingAction (s.dropAction t o) :=
  nd_transfer h (fun a ha => by simp only [St.dropAction, List.mem_filter] at ha; exact ha.1)
    (fun _ x => x) (fun _ x => x) (fun _ x => x) (fun _ x => x)

theorem nd_unlinkPin {s : St} (h : NoDanglingAction s) (p : Id) : NoDanglingAction (s.unlinkPin p) :=
  nd_transfer h (fun _ x => x) (fun _ x => x) (fun _ x => x) (fun _ x => x) (fun _ x => x)

theorem nd_setConsolidate {s : St} (h : NoDanglingAction s) (b : Bool) :
    NoDanglingAction { s with consolidate := b } :=
  nd_transfer h (fun _ x => x) (fun _ x => x) (fun _ x => x) (fun _ x => x) (fun _ x => x)

theorem nd_enqueue {s : St} (h : NoDanglingAction s) (t : AType) (o : Id)
    (hS : isShapeAct t → s.hasShape o = true) (hJ : isJunctionAct t → s.hasJunction o = true)
    (hne : t ≠ .connChange) : NoDanglingAction (s.enqueue t o) := by
  unfold St.enqueue
  split
  · exact h
  · intro a ha
    simp only [List.mem_append, List.mem_singleton] at ha
    rcases ha with ha | rfl
    · exact h a ha
    · exact ⟨hS, hJ, fun x => absurd x hne⟩

/-- `Router::modifyConnector(conn)`: a bare ConnChange for an allocated connector -/
theorem nd_touch {s : St} (h : NoDanglingAction s) {c : Id} (hc : s.hasConn c = true) :
    NoDanglingAction (s.enqueue .connChange c) := by
  unfold St.enqueue
  split
  · exact h
  · intro a ha
    simp only [List.mem_append, List.mem_singleton] at ha
    rcases ha with ha | rfl
    · exact h a ha
    · refine ⟨fun x => ?_, fun x => ?_, fun _ => ⟨hc, fun u hu => by cases hu⟩⟩
      · rcases x with x | x | x <;> cases x
      · rcases x with x | x | x <;> cases x

theorem nd_clusters {s t : St} (h : NoDanglingAction s) (ha : t.actions = s.actions) (ho : t.obst = s.obst)
    (hc : t.conns = s.conns) : NoDanglingAction t := by
  refine nd_transfer h (fun a x => ha ▸ x) ?_ ?_ ?_ ?_ <;>
  · intro o hh
    simpa [St.hasShape, St.hasJunction, St.hasConn, St.hasObst, ho, hc] using hh

theorem mem_mergeEnd {ends : List (Bool × EndSpec)} {d : Bool} {e : EndSpec} {pm : Bool}
    {u : Bool × EndSpec} (h : u ∈ mergeEnd ends d e pm) : u ∈ ends ∨ u = (d, e) := by
  unfold mergeEnd at h
  split at h
  · split at h
    · exact Or.inl h
    · simp only [List.mem_map] at h
      obtain ⟨p, hp, rfl⟩ := h
      split
      · exact Or.inr rfl
      · exact Or.inl hp
  · simp only [List.mem_append, List.mem_singleton] at h
    exact h

/-- queue part of `NoDanglingAction`, on a bare action list -/
def ActsOk (s : St) (acts : List Action) : Prop :=
  ∀ a ∈ acts,
    (isShapeAct a.type → s.hasShape a.obj = true) ∧
    (isJunctionAct a.type → s.hasJunction a.obj = true) ∧
    (a.type = .connChange →
      s.hasConn a.obj = true ∧ ∀ u ∈ a.ends, ∀ an, u.2 = some an → s.hasObst an.obj = true)

theorem actsOk_modifyConn {s : St} {acts : List Action} (h : ActsOk s acts) {c : Id} (d : Bool)
    {e : EndSpec} (pm : Bool) (hc : s.hasConn c = true)
    (he : ∀ an, e = some an → s.hasObst an.obj = true) : ActsOk s (modifyConn acts c d e pm) := by
  unfold modifyConn
  split
  · intro a ha
    simp only [List.mem_map] at ha
    obtain ⟨a0, ha0, rfl⟩ := ha
    split
    · obtain ⟨h1, h2, h3⟩ := h a0 ha0
      refine ⟨h1, h2, fun x => ⟨(h3 x).1, ?_⟩⟩
      intro u hu an han
      rcases mem_mergeEnd hu with hu | rfl
      · exact (h3 x).2 u hu an han
      · exact he an han
    · exact h a0 ha0
  · intro a ha
    simp only [List.mem_append, List.mem_singleton] at ha
    rcases ha with ha | rfl
    · exact h a ha
    · refine ⟨fun x => ?_, fun x => ?_, fun _ => ⟨hc, ?_⟩⟩
      · rcases x with x | x | x <;> cases x
      · rcases x with x | x | x <;> cases x
      · intro u hu an han
        simp only [List.mem_singleton] at hu
        subst hu; exact he an han

theorem nd_modify {s : St} (h : NoDanglingAction s) {c : Id} (d : Bool) {e : EndSpec}
    (hc : s.hasConn c = true) (he : ∀ an, e = some an → s.hasObst an.obj = true) :
    NoDanglingAction (s.modify c d e) :=
  actsOk_modifyConn (s := s) h d false hc he

theorem specOk_obst {s : St} {e : EndSpec} (h : specOk s e = true) :
    ∀ an, e = some an → s.hasObst an.obj = true := by
  intro an han; subst han
  simp only [specOk, Bool.and_eq_true] at h
  exact h.1.1

theorem nd_maybeProcess {s : St} (h : s.consolidate = true → NoDanglingAction s) :
    NoDanglingAction s.maybeProcess := by
  cases hc : s.consolidate
  · exact nd_of_nil (maybeProcess_off hc)
  · rw [maybeProcess_on hc]; exact h hc

theorem nd_freeConn {s : St} (h : NoDanglingAction s) (c : Id) : NoDanglingAction (s.freeConn c) := by
  intro a ha
  simp only [St.freeConn, St.removeFromQueue, List.mem_filter, bne_iff_ne, ne_eq] at ha
  obtain ⟨h1, h2, h3⟩ := h a ha.1
  refine ⟨h1, h2, fun x => ⟨?_, (h3 x).2⟩⟩
  have := (h3 x).1
  simp only [St.hasConn, St.freeConn, List.any_eq_true, List.mem_filter, beq_iff_eq, bne_iff_ne] at this ⊢
  obtain ⟨y, hy, hya⟩ := this
  exact ⟨y, ⟨hy, by rw [hya]; exact ha.2⟩, hya⟩

theorem nd_deleteObstacleOp {s : St} (h : NoDanglingAction s) (o : Id) (j : Bool) :
    NoDanglingAction (deleteObstacleOp s o j) := by
  unfold deleteObstacleOp
  cases j <;> simp only [Bool.false_eq_true, ↓reduceIte] <;>
  · split
    · exact nd_addFault h _
    · rename_i hh
      split
      · exact nd_addFault h _
      · refine nd_maybeProcess (fun _ => nd_enqueue (nd_dropAction h _ _) _ _ ?_ ?_ (by decide))
        · intro x; first | (show St.hasShape s o = true; simpa using hh) | (show St.hasJunction s o = true; simpa using hh) | (rcases x with x | x | x <;> cases x)
        · intro x; first | (show St.hasShape s o = true; simpa using hh) | (show St.hasJunction s o = true; simpa using hh) | (rcases x with x | x | x <;> cases x)

theorem nd_moveObstacleOp {s : St} (h : NoDanglingAction s) (o : Id) (j : Bool) :
    NoDanglingAction (moveObstacleOp s o j) := by
  unfold moveObstacleOp
  cases j <;> simp only [Bool.false_eq_true, ↓reduceIte] <;>
  · split
    · exact nd_addFault h _
    · rename_i hh
      split
      · exact h
      · refine nd_maybeProcess (fun _ => nd_enqueue h _ _ ?_ ?_ (by decide))
        · intro x; first | (show St.hasShape s o = true; simpa using hh) | (show St.hasJunction s o = true; simpa using hh) | (rcases x with x | x | x <;> cases x)
        · intro x; first | (show St.hasShape s o = true; simpa using hh) | (show St.hasJunction s o = true; simpa using hh) | (rcases x with x | x | x <;> cases x)


theorem nd_releasePin {s : St} (h : NoDanglingAction s) (p : Id) : NoDanglingAction (s.releasePin p) := by
  refine nd_transfer h (fun _ x => x) (fun _ x => x) (fun _ x => x) ?_ (fun _ x => x)
  intro o ho
  simpa [St.hasConn, St.releasePin, unpin, List.any_map, Function.comp_def] using ho

theorem hasConn_setCheckpoints (s : St) (c : Id) (vs : List Id) (o : Id) :
    (s.setCheckpoints c vs).hasConn o = s.hasConn o := by
  simp only [St.hasConn, St.setCheckpoints, List.any_map]
  congr 1; funext x; simp only [Function.comp]; split <;> rfl

theorem nd_setCheckpoints {s : St} (h : NoDanglingAction s) (c : Id) (vs : List Id) :
    NoDanglingAction (s.setCheckpoints c vs) :=
  nd_transfer h (fun _ x => x) (fun _ x => x) (fun _ x => x)
    (fun o ho => by rw [hasConn_setCheckpoints]; exact ho) (fun _ x => x)

theorem not_shapeAct_of {t : AType} (h1 : t ≠ .shapeMove) (h2 : t ≠ .shapeAdd) (h3 : t ≠ .shapeRemove) :
    ¬ isShapeAct t := by
  rintro (x | x | x) <;> contradiction

theorem not_junctionAct_of {t : AType} (h1 : t ≠ .junctionMove) (h2 : t ≠ .junctionAdd)
    (h3 : t ≠ .junctionRemove) : ¬ isJunctionAct t := by
  rintro (x | x | x) <;> contradiction

theorem nd_step {s : St} (h : NoDanglingAction s) (op : Op) (hl : LegalDoc s op = true) :
    NoDanglingAction (step s op) := by
  unfold LegalDoc at hl
  simp only [Bool.and_eq_true] at hl
  obtain ⟨hal, hl⟩ := hl
  unfold step
  rw [if_neg (by simp [hal])]
  cases op with
  | newShape id =>
    refine nd_maybeProcess (fun _ => nd_enqueue (nd_addObst h _ _ _) _ _ ?_ ?_ (by decide))
    · intro _; simp [St.hasShape, St.addObst, List.any_append]
    · intro x; exact absurd x (not_junctionAct_of (by decide) (by decide) (by decide))
  | newJunction id pin =>
    refine nd_maybeProcess (fun hc => ?_)
    simp only [cons_enqueue, cons_maybeProcess, cons_addPin, cons_addObst] at hc
    rw [maybeProcess_on (by simpa using hc)]
    refine nd_enqueue (nd_enqueue (nd_addPin (nd_addObst h _ _ _) _ _ _) _ _ ?_ ?_ (by decide)) _ _ ?_ ?_ (by decide)
    · intro x; exact absurd x (not_shapeAct_of (by decide) (by decide) (by decide))
    · intro x; exact absurd x (not_junctionAct_of (by decide) (by decide) (by decide))
    · intro x; exact absurd x (not_shapeAct_of (by decide) (by decide) (by decide))
    · intro _
      have : ((s.addObst id true false).addPin pin id centreCls).hasJunction id = true := by
        simp [St.hasJunction, St.addObst, St.addPin, List.any_append]
      unfold St.enqueue; split <;> exact this
  | newConn id src dst ctor3 =>
    simp only [Bool.and_eq_true] at hl
    have hA := nd_addConn h id false
    have hcA : (s.addConn id false).hasConn id = true := by
      simp [St.hasConn, St.addConn, List.any_append]
    have hsrc : ∀ an, src = some an → (s.addConn id false).hasObst an.obj = true := specOk_obst hl.1.2
    have hdst : ∀ an, dst = some an → (s.addConn id false).hasObst an.obj = true := specOk_obst hl.2
    refine nd_maybeProcess (fun hc => ?_)
    simp only [cons_modify, cons_maybeProcess, cons_addConn] at hc
    rw [maybeProcess_on (by simpa using hc)]
    exact nd_modify (nd_modify hA _ hcA hsrc) _ hcA hdst
  | newPin pin shape cls =>
    simp only [Bool.and_eq_true] at hl
    dsimp only
    rw [if_neg (by simp [hl.1.2])]
    refine nd_maybeProcess (fun _ => nd_enqueue (nd_addPin h _ _ _) _ _ ?_ ?_ (by decide))
    · intro x; exact absurd x (not_shapeAct_of (by decide) (by decide) (by decide))
    · intro x; exact absurd x (not_junctionAct_of (by decide) (by decide) (by decide))
  | deleteShape id => exact nd_deleteObstacleOp h _ _
  | deleteJunction id => exact nd_deleteObstacleOp h _ _
  | deleteConn id =>
    dsimp only
    split
    · exact nd_addFault h _
    · exact nd_freeConn h _
  | deletePin pin =>
    dsimp only
    split
    · exact nd_addFault h _
    · refine nd_releasePin (nd_maybeProcess (fun _ => nd_enqueue (nd_unlinkPin h _) _ _ ?_ ?_ (by decide))) _
      · intro x; exact absurd x (not_shapeAct_of (by decide) (by decide) (by decide))
      · intro x; exact absurd x (not_junctionAct_of (by decide) (by decide) (by decide))
  | moveShape id => exact nd_moveObstacleOp h _ _
  | moveJunction id => exact nd_moveObstacleOp h _ _
  | setEndpoint c isDst e =>
    simp only [Bool.and_eq_true] at hl
    dsimp only
    split
    · exact nd_addFault h _
    · exact nd_maybeProcess (fun _ => nd_modify h _ hl.1 (specOk_obst hl.2))
  | setRoutingCheckpoints c vs =>
    dsimp only
    split
    · exact nd_addFault h _
    · exact nd_setCheckpoints h _ _
  | processTransaction => exact nd_of_nil (actions_processTransaction s)
  | setTransactionUse b => exact nd_setConsolidate h b
  | deleteRouter => exact nd_of_nil rfl
  | rDelConn id =>
    dsimp only
    split
    · exact nd_addFault h _
    · exact nd_freeConn h _
  | rDelJunction id =>
    simp only [Bool.and_eq_true, List.isEmpty_iff] at hl
    dsimp only
    split
    · exact nd_addFault h _
    · apply nd_of_nil
      simp [St.removeFromQueue, St.freeObstacle, hl.1.2]
  | rNewJunction id pin => exact nd_addPin (nd_addObst h _ _ _) _ _ _
  | rNewConn id => exact nd_addConn h _ _
  | newCluster id => exact nd_clusters h rfl rfl rfl
  | deleteCluster id =>
    dsimp only
    split
    · exact nd_addFault h _
    · exact nd_clusters h rfl rfl rfl
  | setClusterPoly id refs =>
    dsimp only
    split
    · exact nd_addFault h _
    · exact nd_clusters h rfl rfl rfl
  | touchConn c =>
    dsimp only
    split
    · exact nd_addFault h _
    · exact nd_maybeProcess (fun _ => nd_touch h hl)
  | touchPin pin =>
    dsimp only
    split
    · exact nd_addFault h _
    · refine nd_maybeProcess (fun _ => nd_enqueue h _ _ ?_ ?_ (by decide))
      · intro x; exact absurd x (not_shapeAct_of (by decide) (by decide) (by decide))
      · intro x; exact absurd x (not_junctionAct_of (by decide) (by decide) (by decide))
  | apiRouter => exact h
  | apiConn c =>
    dsimp only
    split
    · exact nd_addFault h _
    · exact h
  | apiObst o =>
    dsimp only
    split
    · exact nd_addFault h _
    · exact h

theorem nd_run_from {s : St} (h : NoDanglingAction s) (ops : List Op)
    (hl : legalFrom LegalDoc s ops = true) : NoDanglingAction (ops.foldl step s) := by
  induction ops generalizing s with
  | nil => exact h
  | cons op rest ih =>
    simp only [legalFrom, Bool.and_eq_true] at hl
    exact ih (nd_step h op hl.1) hl.2

theorem nd_run (ops : List Op) (hl : LegalDocHist ops = true) : NoDanglingAction (run ops) :=
  nd_run_from (nd_of_nil rfl) ops hl


/-! ### what `~Router` releases -/

theorem freeConns_spec (l : List Conn) (s : St) :
    (l.foldl (fun s c => s.freeConn c.id) s).obst = s.obst ∧
    (l.foldl (fun s c => s.freeConn c.id) s).pins = s.pins ∧
    ∀ x ∈ (l.foldl (fun s c => s.freeConn c.id) s).conns, x ∈ s.conns ∧ ∀ c ∈ l, x.id ≠ c.id := by
  induction l generalizing s with
  | nil => exact ⟨rfl, rfl, fun x hx => ⟨hx, fun c hc => by cases hc⟩⟩
  | cons a l ih =>
    obtain ⟨h1, h2, h3⟩ := ih (s.freeConn a.id)
    refine ⟨h1, h2, ?_⟩
    intro x hx
    obtain ⟨hx1, hx2⟩ := h3 x hx
    simp only [St.freeConn, List.mem_filter, bne_iff_ne, ne_eq] at hx1
    refine ⟨hx1.1, ?_⟩
    intro c hc
    rcases List.mem_cons.1 hc with rfl | hc
    · exact hx1.2
    · exact hx2 c hc

theorem freeObsts_spec (l : List Obst) (s : St) :
    (s.conns = [] → (l.foldl (fun s o => s.freeObstacle o.id) s).conns = []) ∧
    (∀ x ∈ (l.foldl (fun s o => s.freeObstacle o.id) s).obst, x ∈ s.obst ∧ ∀ o ∈ l, x.id ≠ o.id) ∧
    (∀ p ∈ (l.foldl (fun s o => s.freeObstacle o.id) s).pins, p ∈ s.pins ∧ ∀ o ∈ l, p.owner ≠ o.id) := by
  induction l generalizing s with
  | nil => exact ⟨fun h => h, fun x hx => ⟨hx, fun c hc => by cases hc⟩, fun x hx => ⟨hx, fun c hc => by cases hc⟩⟩
  | cons a l ih =>
    obtain ⟨h1, h2, h3⟩ := ih (s.freeObstacle a.id)
    refine ⟨?_, ?_, ?_⟩
    · intro hs; apply h1; simp [St.freeObstacle, detachAnchor, hs]
    · intro x hx
      obtain ⟨hx1, hx2⟩ := h2 x hx
      simp only [St.freeObstacle, List.mem_filter, bne_iff_ne, ne_eq] at hx1
      refine ⟨hx1.1, ?_⟩
      intro c hc
      rcases List.mem_cons.1 hc with rfl | hc
      · exact hx1.2
      · exact hx2 c hc
    · intro x hx
      obtain ⟨hx1, hx2⟩ := h3 x hx
      simp only [St.freeObstacle, List.mem_filter, bne_iff_ne, ne_eq] at hx1
      refine ⟨hx1.1, ?_⟩
      intro c hc
      rcases List.mem_cons.1 hc with rfl | hc
      · exact hx1.2
      · exact hx2 c hc

theorem freeClusters_spec (l : List Cluster) (s : St) :
    (l.foldl (fun s k => s.freeCluster k.id) s).obst = s.obst ∧
    (l.foldl (fun s k => s.freeCluster k.id) s).conns = s.conns ∧
    (l.foldl (fun s k => s.freeCluster k.id) s).pins = s.pins ∧
    ∀ x ∈ (l.foldl (fun s k => s.freeCluster k.id) s).clusters, x ∈ s.clusters ∧ ∀ k ∈ l, x.id ≠ k.id := by
  induction l generalizing s with
  | nil => exact ⟨rfl, rfl, rfl, fun x hx => ⟨hx, fun c hc => by cases hc⟩⟩
  | cons a l ih =>
    obtain ⟨h1, h2, h3, h4⟩ := ih (s.freeCluster a.id)
    refine ⟨h1, h2, h3, ?_⟩
    intro x hx
    obtain ⟨hx1, hx2⟩ := h4 x hx
    simp only [St.freeCluster, List.mem_filter, bne_iff_ne, ne_eq] at hx1
    refine ⟨hx1.1, ?_⟩
    intro c hc
    rcases List.mem_cons.1 hc with rfl | hc
    · exact hx1.2
    · exact hx2 c hc

theorem legal_deleteRouter {s : St} (hl : Legal s .deleteRouter = true) :
    s.alive = true ∧ (∀ o ∈ s.obst, o.active = true) ∧ (∀ c ∈ s.conns, c.active = true) := by
  simp only [Legal, LegalDoc, Bool.and_eq_true, List.all_eq_true, Bool.and_true] at hl
  exact ⟨hl.1, hl.2.1, hl.2.2⟩

theorem allocated_deleteRouter {s : St} (h : Core [] s) (hl : Legal s .deleteRouter = true) :
    (step s .deleteRouter).alive = false ∧ (step s .deleteRouter).allocated = [] := by
  obtain ⟨hal, hO, hC⟩ := legal_deleteRouter hl
  have hcore := core_step h .deleteRouter (legal_legalDoc hl)
  unfold step at hcore ⊢
  rw [if_neg (by simp [hal])] at hcore ⊢
  dsimp only at hcore ⊢
  have hf1 : s.conns.filter (·.active) = s.conns := by
    rw [List.filter_eq_self]; exact hC
  rw [hf1] at hcore ⊢
  obtain ⟨a1, a2, a3⟩ := freeConns_spec s.conns s
  have hc2 : Core [] (s.conns.foldl (fun s c => s.freeConn c.id) s) :=
    core_freeConns h _ (List.Sublist.refl _)
  generalize (s.conns.foldl (fun s c => s.freeConn c.id) s) = s2 at a1 a2 a3 hc2 hcore ⊢
  have hconns2 : s2.conns = [] := by
    rw [List.eq_nil_iff_forall_not_mem]
    intro x hx
    obtain ⟨hx1, hx2⟩ := a3 x hx
    exact hx2 x hx1 rfl
  have hf2 : s2.obst.filter (·.active) = s2.obst := by
    rw [List.filter_eq_self, a1]; exact hO
  rw [hf2] at hcore ⊢
  obtain ⟨b1, b2, b3⟩ := freeObsts_spec s2.obst s2
  have hc3 : Core [] (s2.obst.foldl (fun s o => s.freeObstacle o.id) s2) :=
    core_freeObsts hc2 _ (List.Sublist.refl _)
  generalize (s2.obst.foldl (fun s o => s.freeObstacle o.id) s2) = s3 at b1 b2 b3 hc3 hcore ⊢
  have hf3 : s3.clusters.filter (·.active) = s3.clusters := by
    rw [List.filter_eq_self]; exact hc3.clActive
  rw [hf3] at hcore ⊢
  obtain ⟨d1, d2, d3, d4⟩ := freeClusters_spec s3.clusters s3
  generalize (s3.clusters.foldl (fun s k => s.freeCluster k.id) s3) = s4 at d1 d2 d3 d4 hcore ⊢
  refine ⟨rfl, ?_⟩
  have hcl4 : s4.clusters = [] := by
    rw [List.eq_nil_iff_forall_not_mem]
    intro x hx
    obtain ⟨hx1, hx2⟩ := d4 x hx
    exact hx2 x hx1 rfl
  have hobst3 : s3.obst = [] := by
    rw [List.eq_nil_iff_forall_not_mem]
    intro x hx
    obtain ⟨hx1, hx2⟩ := b2 x hx
    exact hx2 x hx1 rfl
  have hpins3 : s3.pins = [] := by
    rw [List.eq_nil_iff_forall_not_mem]
    intro p hp
    obtain ⟨hp1, hp2⟩ := b3 p hp
    have := hc2.pinsOk p hp1
    simp only [oids, List.mem_map] at this
    obtain ⟨o, ho, hoid⟩ := this
    exact hp2 o ho hoid.symm
  simp [St.allocated, St.closeRouter, d1, d2, d3, hcl4, hobst3, hpins3, b1 hconns2]

theorem allReleased_of {s : St} (h : Core [] s) (hal : s.alive = false) (ha : s.allocated = []) :
    AllReleased s := by
  refine ⟨hal, ?_⟩
  intro x hx
  have := (core_liveSetsRefine h).2.2 x
  rw [ha] at this
  by_cases hf : x ∈ s.freed
  · exact hf
  · exact absurd (this.2 ⟨hx, hf⟩) (by simp)

theorem legalFrom_append (L : St → Op → Bool) (s : St) (h : List Op) (op : Op) :
    legalFrom L s (h ++ [op]) = (legalFrom L s h && L (h.foldl step s) op) := by
  induction h generalizing s with
  | nil => simp [legalFrom]
  | cons a l ih => simp [legalFrom, ih, Bool.and_assoc]


/-! ### `alive` only changes in `deleteRouter` -/

@[simp] theorem alive_addFault (s : St) (f : Fault) : (s.addFault f).alive = s.alive := rfl
@[simp] theorem alive_enqueue (s : St) (t : AType) (o : Id) : (s.enqueue t o).alive = s.alive := by
  unfold St.enqueue; split <;> rfl
@[simp] theorem alive_dropAction (s : St) (t : AType) (o : Id) : (s.dropAction t o).alive = s.alive := rfl
@[simp] theorem alive_removeFromQueue (s : St) (o : Id) : (s.removeFromQueue o).alive = s.alive := rfl
@[simp] theorem alive_modify (s : St) (c : Id) (d : Bool) (e : EndSpec) : (s.modify c d e).alive = s.alive := rfl
@[simp] theorem alive_addObst (s : St) (i : Id) (j a : Bool) : (s.addObst i j a).alive = s.alive := rfl
@[simp] theorem alive_addPin (s : St) (p o : Id) (c : Nat) : (s.addPin p o c).alive = s.alive := rfl
@[simp] theorem alive_addConn (s : St) (i : Id) (a : Bool) : (s.addConn i a).alive = s.alive := rfl
@[simp] theorem alive_unlinkPin (s : St) (p : Id) : (s.unlinkPin p).alive = s.alive := rfl
@[simp] theorem alive_releasePin (s : St) (p : Id) : (s.releasePin p).alive = s.alive := rfl
@[simp] theorem alive_freeObstacle (s : St) (o : Id) : (s.freeObstacle o).alive = s.alive := rfl
@[simp] theorem alive_freeConn (s : St) (c : Id) : (s.freeConn c).alive = s.alive := rfl
@[simp] theorem alive_addCluster (s : St) (k : Id) (r : List Id) : (s.addCluster k r).alive = s.alive := rfl
@[simp] theorem alive_setClusterRefs (s : St) (k : Id) (r : List Id) : (s.setClusterRefs k r).alive = s.alive := rfl
@[simp] theorem alive_routeClusters (s : St) : s.routeClusters.alive = s.alive := rfl
@[simp] theorem alive_freeCluster (s : St) (k : Id) : (s.freeCluster k).alive = s.alive := rfl
@[simp] theorem alive_reroute (s : St) : (reroute s).alive = s.alive := rfl
@[simp] theorem alive_setCheckpoints (s : St) (c : Id) (vs : List Id) :
    (s.setCheckpoints c vs).alive = s.alive := rfl

@[simp] theorem alive_procRemoveMove (s : St) (a : Action) : (procRemoveMove s a).alive = s.alive := by
  unfold procRemoveMove
  split
  · split
    · rfl
    · rfl
  · split
    · split
      · rfl
      · rfl
    · rfl

@[simp] theorem alive_procAddMove (s : St) (a : Action) : (procAddMove s a).alive = s.alive := by
  unfold procAddMove
  split
  · split <;> rfl
  · rfl

@[simp] theorem alive_applyEnd (s : St) (c : Id) (u : Bool × EndSpec) : (applyEnd s c u).alive = s.alive := by
  unfold applyEnd
  split
  · rfl
  · split <;> rfl

theorem alive_foldl {α : Type} (f : St → α → St) (hf : ∀ s a, (f s a).alive = s.alive)
    (l : List α) (s : St) : (l.foldl f s).alive = s.alive :=
  foldl_inv (fun t => t.alive = s.alive) f (fun t a ht => (hf t a).trans ht) l s rfl

@[simp] theorem alive_procConnChange (s : St) (a : Action) : (procConnChange s a).alive = s.alive := by
  unfold procConnChange
  split
  · split
    · rfl
    · exact alive_foldl _ (fun s u => alive_applyEnd s a.obj u) _ _
  · rfl

@[simp] theorem alive_processActions (s : St) : s.processActions.alive = s.alive := by
  unfold St.processActions
  show (List.foldl procConnChange _ _).alive = _
  rw [alive_foldl _ alive_procConnChange, alive_foldl _ alive_procAddMove, alive_foldl _ alive_procRemoveMove]

@[simp] theorem alive_processTransaction (s : St) : s.processTransaction.alive = s.alive := by
  unfold St.processTransaction
  split
  · rfl
  · simp

@[simp] theorem alive_maybeProcess (s : St) : s.maybeProcess.alive = s.alive := by
  unfold St.maybeProcess
  split
  · rfl
  · simp


theorem alive_deleteObstacleOp (s : St) (o : Id) (j : Bool) : (deleteObstacleOp s o j).alive = s.alive := by
  unfold deleteObstacleOp
  cases j <;> simp only [Bool.false_eq_true, ↓reduceIte] <;>
  · split
    · rfl
    · split
      · rfl
      · simp [St.dropAction]

theorem alive_moveObstacleOp (s : St) (o : Id) (j : Bool) : (moveObstacleOp s o j).alive = s.alive := by
  unfold moveObstacleOp
  cases j <;> simp only [Bool.false_eq_true, ↓reduceIte] <;>
  · split
    · rfl
    · split
      · rfl
      · simp

theorem alive_step (s : St) (op : Op) (hne : op ≠ .deleteRouter) : (step s op).alive = s.alive := by
  unfold step
  split
  · rfl
  · cases op with
    | newShape id => simp
    | newJunction id pin => simp
    | newConn id src dst ctor3 => simp
    | newPin pin shape cls =>
      dsimp only; split
      · rfl
      · simp only [alive_maybeProcess, alive_enqueue, alive_addPin]
    | deleteShape id => exact alive_deleteObstacleOp s _ _
    | deleteJunction id => exact alive_deleteObstacleOp s _ _
    | deleteConn id => dsimp only; split <;> simp
    | deletePin pin => dsimp only; split <;> simp
    | moveShape id => exact alive_moveObstacleOp s _ _
    | moveJunction id => exact alive_moveObstacleOp s _ _
    | setEndpoint c isDst e => dsimp only; split <;> simp
    | setRoutingCheckpoints c vs => dsimp only; split <;> simp
    | processTransaction => simp
    | setTransactionUse b => rfl
    | deleteRouter => exact absurd rfl hne
    | rDelConn id => dsimp only; split <;> simp
    | rDelJunction id => dsimp only; split <;> simp
    | rNewJunction id pin => simp
    | rNewConn id => simp
    | newCluster id => simp
    | deleteCluster id => dsimp only; split <;> simp
    | setClusterPoly id => dsimp only; split <;> simp
    | touchConn c => dsimp only; split <;> simp
    | touchPin pin => dsimp only; split <;> simp
    | apiRouter => rfl
    | apiConn c => dsimp only; split <;> simp
    | apiObst o => dsimp only; split <;> simp

/-- strictly legal histories: once the router is gone nothing is left allocated -/
theorem released_run_from {s : St} (h : Core [] s) (hinv : s.alive = false → s.allocated = [])
    (ops : List Op) (hl : legalFrom Legal s ops = true) :
    (ops.foldl step s).alive = false → (ops.foldl step s).allocated = [] := by
  induction ops generalizing s with
  | nil => exact hinv
  | cons op rest ih =>
    simp only [legalFrom, Bool.and_eq_true] at hl
    refine ih (core_step h op (legal_legalDoc hl.1)) ?_ hl.2
    have hal : s.alive = true := by
      have := legal_legalDoc hl.1
      unfold LegalDoc at this
      simp only [Bool.and_eq_true] at this
      exact this.1
    intro hdead
    by_cases hop : op = .deleteRouter
    · subst hop; exact (allocated_deleteRouter h hl.1).2
    · rw [alive_step s op hop, hal] at hdead; cases hdead

/-! ### clusters: `~Router` leaves none, for every documented-legal history -/

theorem clusters_deleteRouter {s : St} (h : Core [] s) (hal : s.alive = true) :
    (step s .deleteRouter).clusters = [] := by
  unfold step
  rw [if_neg (by simp [hal])]
  dsimp only
  have hc3 : Core [] (List.foldl (fun s o => s.freeObstacle o.id)
      (List.foldl (fun s c => s.freeConn c.id) s (s.conns.filter (·.active)))
      ((List.foldl (fun s c => s.freeConn c.id) s (s.conns.filter (·.active))).obst.filter (·.active))) :=
    core_freeObsts (core_freeConns h _ List.filter_sublist) _ List.filter_sublist
  generalize (List.foldl (fun s o => s.freeObstacle o.id)
      (List.foldl (fun s c => s.freeConn c.id) s (s.conns.filter (·.active)))
      ((List.foldl (fun s c => s.freeConn c.id) s (s.conns.filter (·.active))).obst.filter (·.active))) = s3
    at hc3 ⊢
  have hf3 : s3.clusters.filter (·.active) = s3.clusters := by
    rw [List.filter_eq_self]; exact hc3.clActive
  rw [hf3]
  obtain ⟨_, _, _, d4⟩ := freeClusters_spec s3.clusters s3
  show (s3.clusters.foldl (fun s k => s.freeCluster k.id) s3).clusters = []
  rw [List.eq_nil_iff_forall_not_mem]
  intro x hx
  obtain ⟨hx1, hx2⟩ := d4 x hx
  exact hx2 x hx1 rfl

theorem clusters_nil_of_dead {s : St} (h : Core [] s) (hinv : s.alive = false → s.clusters = [])
    (ops : List Op) (hl : legalFrom LegalDoc s ops = true) :
    (ops.foldl step s).alive = false → (ops.foldl step s).clusters = [] := by
  induction ops generalizing s with
  | nil => exact hinv
  | cons op rest ih =>
    simp only [legalFrom, Bool.and_eq_true] at hl
    refine ih (core_step h op hl.1) ?_ hl.2
    have hal : s.alive = true := by
      have := hl.1
      unfold LegalDoc at this
      simp only [Bool.and_eq_true] at this
      exact this.1
    intro hdead
    by_cases hop : op = .deleteRouter
    · subst hop; exact clusters_deleteRouter h hal
    · rw [alive_step s op hop, hal] at hdead; cases hdead

end AdaptaVerif.Lemmas.Lifecycle
