/-
Soundness of `Check.OrthGraph.checkCert` (potential argument on libavoid's own orthogonal
visibility graph).
-/
import AdaptaVerif.Check.OrthGraph
import AdaptaVerif.Lemmas.Hanan
namespace AdaptaVerif.Lemmas.OrthGraph
open AdaptaVerif.Check.OrthGraph
open AdaptaVerif.Lemmas.Hanan (Walk potential_lower_bound minList_le)

def GEdge (g : VG) (u v : VState) (w : Rat) : Prop := inRange g u ∧ (v, w) ∈ succ g u

/-- `c` is the cost of a route of the graph: a first hop out of the source, then a walk to the target -/
def IsRouteCost (g : VG) (c : Rat) : Prop :=
  ∃ v w t c', (v, w) ∈ firstMoves g ∧ Walk (GEdge g) v t c' ∧ isGoal g t = true ∧ c = w + c'

theorem mem_allStates {g : VG} {u : VState} (h : inRange g u) : u ∈ allStates g := by
  obtain ⟨h1, h2⟩ := h
  unfold allStates
  simp only [List.mem_flatMap, List.mem_map, List.mem_range]
  exact ⟨u.v, h1, u.h, h2, rfl⟩

theorem hop_lt {g : VG} {u w d : Nat} {len : Rat} (h : hop g u w = some (d, len)) : d < 4 := by
  unfold hop at h
  simp only at h
  split_ifs at h <;> simp only [Option.some.injEq, Prod.mk.injEq, reduceCtorEq] at h <;> omega

theorem edge_inRange {g : VG} {s v : VState} {w : Nat} {c : Rat} (h : edge g s w = some (v, c)) :
    inRange g v := by
  unfold edge at h
  split at h
  · simp at h
  · rename_i hc
    split at h
    · simp at h
    · rename_i d len hh
      simp only [Option.some.injEq, Prod.mk.injEq] at h
      rw [← h.1]
      refine ⟨?_, hop_lt hh⟩
      simp only [not_or, not_not] at hc
      exact hc.2.1

theorem succ_inRange {g : VG} {u v : VState} {w : Rat} (h : (v, w) ∈ succ g u) : inRange g v := by
  unfold succ at h
  simp only [List.mem_filterMap] at h
  obtain ⟨x, _, he⟩ := h
  exact edge_inRange he

theorem firstMoves_inRange {g : VG} {v : VState} {w : Rat} (h : (v, w) ∈ firstMoves g) :
    inRange g v := by
  unfold firstMoves at h
  simp only [List.mem_filterMap] at h
  obtain ⟨x, _, he⟩ := h
  split at he
  · simp at he
  · rename_i hc
    split at he
    · simp at he
    · rename_i d len hh
      simp only [Option.some.injEq, Prod.mk.injEq] at he
      rw [← he.1]
      refine ⟨?_, hop_lt hh⟩
      simp only [not_or, not_not] at hc
      exact hc.2

theorem walk_end_inRange {g : VG} {u t : VState} {c : Rat} (hu : inRange g u)
    (h : Walk (GEdge g) u t c) : inRange g t := by
  induction h with
  | nil u => exact hu
  | cons he _ ih => exact ih (succ_inRange he.2)

theorem feasible_spec {g : VG} {c : Cert} (h : feasible g c = true) :
    ∀ u v w, GEdge g u v w → potAt c u ≤ w + potAt c v := by
  intro u v w ⟨hr, hm⟩
  unfold feasible at h
  rw [List.all_eq_true] at h
  have h1 := h u (mem_allStates hr)
  rw [List.all_eq_true] at h1
  have h2 := h1 (v, w) hm
  simpa using h2

theorem goalsOk_spec {g : VG} {c : Cert} (h : goalsOk g c = true) :
    ∀ t, inRange g t → isGoal g t = true → potAt c t ≤ 0 := by
  intro t hr hg
  unfold goalsOk at h
  rw [List.all_eq_true] at h
  have h1 := h t (mem_allStates hr)
  simpa [hg] using h1

theorem walkCost_sound {g : VG} :
    ∀ (l : List VState) (u : VState) (c : Rat), walkCost g u l = some c →
      Walk (GEdge g) u (lastState u l) c := by
  intro l
  induction l with
  | nil =>
    intro u c h
    simp only [walkCost, Option.some.injEq] at h
    subst h
    exact Walk.nil u
  | cons v rest ih =>
    intro u c h
    unfold walkCost at h
    split at h
    · rename_i hr
      split at h
      · rename_i e hf
        split at h
        · rename_i c' hc'
          simp only [Option.some.injEq] at h
          subst h
          have hmem := List.mem_of_find?_eq_some hf
          have hev : e.1 = v := by simpa using List.find?_some hf
          have hw := ih v c' hc'
          have he : GEdge g u v e.2 := ⟨hr, by rw [← hev]; exact hmem⟩
          exact Walk.cons he hw
        · simp at h
      · simp at h
    · simp at h

theorem witnessCost_sound {g : VG} {c : Cert} {wc : Rat} (h : witnessCost g c = some wc) :
    IsRouteCost g wc := by
  unfold witnessCost at h
  split at h
  · simp at h
  · rename_i v rest _
    split at h
    · simp at h
    · rename_i e hf
      split at h
      · simp at h
      · rename_i w hw
        split at h
        · rename_i hg
          simp only [Option.some.injEq] at h
          have hmem := List.mem_of_find?_eq_some hf
          have hev : e.1 = v := by simpa using List.find?_some hf
          refine ⟨v, e.2, lastState v rest, w, ?_, walkCost_sound rest v w hw, hg, h.symm⟩
          rw [← hev]; exact hmem
        · simp at h

theorem checkCert_sound {g : VG} {c : Cert} {opt : Rat} (h : checkCert g c = some opt) :
    (∀ r, IsRouteCost g r → opt ≤ r) ∧ IsRouteCost g opt := by
  unfold checkCert at h
  split at h
  · rename_i hfg
    rw [Bool.and_eq_true] at hfg
    obtain ⟨hf, hg⟩ := hfg
    split at h
    · rename_i lb wc hlb hwc
      split at h
      · rename_i heq
        simp only [Option.some.injEq] at h
        subst h
        constructor
        · rintro r ⟨v, w, t, c', hfm, hwalk, hgoal, rfl⟩
          have hv := firstMoves_inRange hfm
          have ht := walk_end_inRange hv hwalk
          have hpot := potential_lower_bound (GEdge g) (potAt c)
            (fun t => inRange g t ∧ isGoal g t = true)
            (feasible_spec hf) (fun t ht => goalsOk_spec hg t ht.1 ht.2) hwalk ⟨ht, hgoal⟩
          have hmin := minList_le hlb (w + potAt c v) (List.mem_map.mpr ⟨(v, w), hfm, rfl⟩)
          linarith
        · rw [heq]; exact witnessCost_sound hwc
      · simp at h
    · simp at h
  · simp at h

end AdaptaVerif.Lemmas.OrthGraph
