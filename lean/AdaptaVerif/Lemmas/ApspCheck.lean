/-
C17 — soundness of the certificate check `Check.Apsp.checkApsp`:
lower bound from feasibility of the potential (induction on the walk), upper bound from the
tight-edge closure (every marked vertex carries a walk of exactly its claimed weight).
-/
import AdaptaVerif.Check.Apsp
import AdaptaVerif.Lemmas.ApspWalk
namespace AdaptaVerif.Lemmas.Apsp
open AdaptaVerif.Model.ShortestPaths AdaptaVerif.Spec.Apsp AdaptaVerif.Check.Apsp

theorem validGraph_valid {g : Graph} (h : validGraph g = true) : Valid g := by
  intro e he
  unfold validGraph at h
  rw [List.all_eq_true] at h
  have := h e he
  simp only [Bool.and_eq_true, decide_eq_true_eq] at this
  exact ⟨this.1.1, this.1.2, this.2⟩

theorem valid_validGraph {g : Graph} (h : Valid g) : validGraph g = true := by
  unfold validGraph
  rw [List.all_eq_true]
  intro e he
  have := h e he
  simp only [Bool.and_eq_true, decide_eq_true_eq]
  exact ⟨⟨this.1, this.2.1⟩, this.2.2⟩

theorem relaxOk_spec {d : Nat → Dist} {u v : Nat} {w a : Rat}
    (h : relaxOk d u v w = true) (hu : d u = some a) : ∃ b, d v = some b ∧ b ≤ a + w := by
  unfold relaxOk at h
  rw [hu] at h
  cases hv : d v with
  | none => rw [hv] at h; simp at h
  | some b => rw [hv] at h; exact ⟨b, rfl, by simpa using h⟩

theorem feasible_edge {g : Graph} {d : Nat → Dist} (hf : feasible g.edges d = true)
    {u v : Nat} {w : Rat} (he : HasEdge g u v w) : relaxOk d u v w = true := by
  unfold feasible at hf
  rw [List.all_eq_true] at hf
  rcases he with he | he
  · have := hf _ he
    simp only [Bool.and_eq_true] at this
    exact this.1
  · have := hf _ he
    simp only [Bool.and_eq_true] at this
    exact this.2

/-- a feasible potential with `d i = 0` bounds every walk from `i` from below and is finite on
    everything reachable -/
theorem feasible_lower {g : Graph} {d : Nat → Dist} {i : Nat}
    (hf : feasible g.edges d = true) (h0 : d i = some 0) {j : Nat} {c : Rat} (hw : Walk g i j c) :
    ∃ b, d j = some b ∧ b ≤ c := by
  induction hw with
  | nil _ => exact ⟨0, h0, le_refl _⟩
  | snoc _ he ih =>
    obtain ⟨a, ha, hac⟩ := ih
    obtain ⟨b, hb, hba⟩ := relaxOk_spec (feasible_edge hf he) ha
    exact ⟨b, hb, by linarith⟩

/-! ### the tight-edge closure -/

/-- every marked vertex has a walk from `i` of exactly the claimed weight -/
def MarkInv (g : Graph) (d : Nat → Dist) (i : Nat) (r : Array Bool) : Prop :=
  ∀ v, marked r v = true → ∃ c, d v = some c ∧ Walk g i v c

theorem marked_set {r : Array Bool} {v x : Nat} (h : marked (r.setIfInBounds v true) x = true) :
    x = v ∨ marked r x = true := by
  unfold marked at h
  rw [Array.getElem?_setIfInBounds] at h
  by_cases hvx : v = x
  · exact Or.inl hvx.symm
  · rw [if_neg hvx] at h; exact Or.inr h

theorem tight_spec {d : Nat → Dist} {u v : Nat} {w : Rat} (h : tight d u v w = true) :
    ∃ a b, d u = some a ∧ d v = some b ∧ b = a + w := by
  unfold tight at h
  cases hu : d u with
  | none => rw [hu] at h; simp at h
  | some a =>
    cases hv : d v with
    | none => rw [hu, hv] at h; simp at h
    | some b => rw [hu, hv] at h; exact ⟨a, b, rfl, rfl, by simpa using h⟩

theorem tryMark_inv {g : Graph} {d : Nat → Dist} {i : Nat} {st : Array Bool × Bool} {u v : Nat} {w : Rat}
    (he : HasEdge g u v w) (h : MarkInv g d i st.1) : MarkInv g d i (tryMark d st u v w).1 := by
  unfold tryMark
  split
  · rename_i hc
    simp only [Bool.and_eq_true] at hc
    obtain ⟨⟨hu, _⟩, ht⟩ := hc
    intro x hx
    rcases marked_set hx with rfl | hx'
    · obtain ⟨a, b, ha, hb, hab⟩ := tight_spec ht
      obtain ⟨c, hc, hwalk⟩ := h u hu
      rw [ha] at hc
      have hca : a = c := by injection hc
      subst hca
      exact ⟨b, hb, by rw [hab]; exact Walk.snoc hwalk he⟩
    · exact h x hx'
  · exact h

theorem sweep_fold_inv {g : Graph} {d : Nat → Dist} {i : Nat} :
    ∀ (es : List (Nat × Nat × Rat)), (∀ e ∈ es, e ∈ g.edges) → ∀ (st : Array Bool × Bool),
      MarkInv g d i st.1 →
      MarkInv g d i (es.foldl (fun st e => tryMark d (tryMark d st e.1 e.2.1 e.2.2) e.2.1 e.1 e.2.2) st).1 := by
  intro es
  induction es with
  | nil => intro _ st h; exact h
  | cons e rest ih =>
    intro hsub st h
    rw [List.foldl_cons]
    apply ih (fun e' he' => hsub e' (List.mem_cons_of_mem _ he'))
    have hmem : e ∈ g.edges := hsub e (List.mem_cons_self)
    have he1 : HasEdge g e.1 e.2.1 e.2.2 := Or.inl hmem
    exact tryMark_inv (HasEdge.symm he1) (tryMark_inv he1 h)

theorem sweep_inv {g : Graph} {d : Nat → Dist} {i : Nat} {r : Array Bool}
    (h : MarkInv g d i r) : MarkInv g d i (sweep g.edges d r).1 :=
  sweep_fold_inv g.edges (fun _ he => he) (r, false) h

theorem closure_inv {g : Graph} {d : Nat → Dist} {i : Nat} :
    ∀ (fuel : Nat) (r : Array Bool), MarkInv g d i r → MarkInv g d i (closure g.edges d fuel r) := by
  intro fuel
  induction fuel with
  | zero => intro r h; exact h
  | succ f ih =>
    intro r h
    unfold closure
    simp only
    split
    · exact ih _ (sweep_inv h)
    · exact sweep_inv h

theorem reachTight_inv {g : Graph} {d : Nat → Dist} {i : Nat} (hi : i < g.n) (h0 : d i = some 0) :
    MarkInv g d i (reachTight g d i) := by
  unfold reachTight
  apply closure_inv
  intro v hv
  rcases marked_set hv with rfl | hv'
  · exact ⟨0, h0, Walk.nil hi⟩
  · unfold marked at hv'
    rw [Array.getElem?_replicate] at hv'
    split at hv' <;> simp at hv'

/-- a row accepted by `sourceOk` is the exact single-source distance vector -/
theorem sourceOk_sound {g : Graph} {d : Nat → Dist} {i : Nat} (hi : i < g.n)
    (h : sourceOk g d i = true) {j : Nat} (hj : j < g.n) : IsDist g i j (d j) := by
  unfold sourceOk at h
  simp only [Bool.and_eq_true, decide_eq_true_eq] at h
  obtain ⟨⟨h0, hf⟩, hall⟩ := h
  rw [List.all_eq_true] at hall
  have hjr := hall j (List.mem_range.mpr hj)
  cases hd : d j with
  | none =>
    intro c hw
    obtain ⟨b, hb, _⟩ := feasible_lower hf h0 hw
    rw [hd] at hb; cases hb
  | some x =>
    rw [hd] at hjr
    simp only [Option.isNone_some, Bool.false_or] at hjr
    obtain ⟨c, hc, hwalk⟩ := reachTight_inv hi h0 j hjr
    rw [hd] at hc
    have hxc : x = c := by injection hc
    subst hxc
    refine ⟨hwalk, ?_⟩
    intro c' hw'
    obtain ⟨b, hb, hbc⟩ := feasible_lower hf h0 hw'
    rw [hd] at hb
    have : x = b := by injection hb
    subst this
    exact hbc

theorem symmetric_spec {n : Nat} {D : Nat → Nat → Dist} (h : symmetric n D = true)
    {i j : Nat} (hi : i < n) (hj : j < n) : D i j = D j i := by
  unfold symmetric at h
  rw [List.all_eq_true] at h
  have := h i (List.mem_range.mpr hi)
  rw [List.all_eq_true] at this
  simpa using this j (List.mem_range.mpr hj)

end AdaptaVerif.Lemmas.Apsp
