/-
A concrete state of the IncSolver model on which the hypotheses of the conditional theorems of
Props/C01.lean, Props/C02Model.lean and Props/C01Static.lean hold simultaneously (non-vacuity
witnesses; the `example`s that use them are in the Props files).

`nvSt` is what `IncSolver(vs, cs)` followed by the merge across the (violated) equality
`x0 + 2 == x1` produces: two variables with scales 1 and 2 in one block, one active tight constraint.
-/
import AdaptaVerif.Lemmas.VpscKktOpt
import AdaptaVerif.Lemmas.VpscKktFresh
import AdaptaVerif.Lemmas.VpscMerge
namespace AdaptaVerif.Lemmas.VpscNonVac
open AdaptaVerif.Model.Vpsc
open AdaptaVerif.Lemmas.VpscInv AdaptaVerif.Lemmas.VpscKkt AdaptaVerif.Lemmas.VpscKktOpt
open AdaptaVerif.Spec.Qp (sumTo listSum)

/-- `IncSolver(vs, cs)`: x0 (desired 0, weight 1, scale 1), x1 (desired 0, weight 1, scale 2), `x0 + 2 == x1` -/
def nvSt0 : St := St.init #[(0, 1, 1), (0, 1, 2)] #[mkCon 0 1 2 true]
/-- after `Block::merge` across constraint 0 -/
def nvSt : St := (nvSt0.mergeAcross 0).1

theorem nvSt0_vars : nvSt0.vars = #[{ desired := 0, weight := 1, scale := 1, block := 0, outs := #[0] },
    { desired := 0, weight := 1, scale := 2, block := 1, ins := #[0] }] := by rfl
theorem nvSt0_cons : nvSt0.cons = #[mkCon 0 1 2 true] := by rfl
theorem nvSt0_blocks : nvSt0.blocks =
    #[{ vars := #[0], scale := 1, posn := 0 }, { vars := #[1], scale := 2, posn := 0 }] := by rfl

theorem nvSt_vars : nvSt.vars = #[{ desired := 0, weight := 1, scale := 1, block := 0, outs := #[0] },
    { desired := 0, weight := 1, scale := 2, block := 0, offset := 2, ins := #[0] }] := by
  rw [nvSt, AdaptaVerif.Lemmas.VpscModel.mergeAcross_vars]
  simp [nvSt0_vars, nvSt0_cons, nvSt0_blocks, shiftVars, mkCon]

theorem nvSt_cons : nvSt.cons = #[{ l := 0, r := 1, gap := 2, eq := true, active := true }] := by
  simp [nvSt, St.mergeAcross, nvSt0_vars, nvSt0_cons, nvSt0_blocks, St.refreshBlock, mkCon]

theorem nvSt_blocks : nvSt.blocks =
    #[{ vars := #[0, 1], scale := 1, posn := -2/5 }, { vars := #[1], scale := 2, posn := 0, deleted := true }] := by
  simp [nvSt, St.mergeAcross, nvSt0_vars, nvSt0_cons, nvSt0_blocks, St.refreshBlock, mkCon, shiftVars,
    AdaptaVerif.Lemmas.VpscKktFresh.blockPosn_eq, listSum]
  norm_num

/-- the block invariant, through the model's own constructors (`init_inv`, `mergeAcross_inv`) -/
theorem nvSt_inv : Inv nvSt :=
  AdaptaVerif.Lemmas.VpscMerge.mergeAcross_inv nvSt0 0
    (init_inv _ _ (by
      intro c hc
      simp only [List.mem_toArray, List.mem_cons, List.not_mem_nil, or_false] at hc
      subst hc; simp [mkCon]))
    (by simp [nvSt0_cons]) (by simp [blk, nvSt0_vars, nvSt0_cons, mkCon])

theorem nvSt_lt (i : Nat) (hi : i < nvSt.vars.size) : i = 0 ∨ i = 1 := by
  rw [nvSt_vars] at hi; simp at hi; omega

theorem nvSt_weight : ∀ i : Nat, i < nvSt.vars.size → 0 < (nvSt.vars[i]!).weight := by
  intro i hi
  rcases nvSt_lt i hi with rfl | rfl <;> simp [nvSt_vars]

/-- the in-range scale hypothesis holds … -/
theorem nvSt_scale : ∀ i : Nat, i < nvSt.vars.size → (nvSt.vars[i]!).scale ≠ 0 := by
  intro i hi
  rcases nvSt_lt i hi with rfl | rfl <;> simp [nvSt_vars]

/-- … while the unbounded form that the theorems used to assume is false on this (on every) state -/
theorem nvSt_scale_unbounded_false : ¬ ∀ i : Nat, (nvSt.vars[i]!).scale ≠ 0 := by
  intro h
  exact h 2 (by simp [nvSt_vars]; rfl)

theorem nvSt_stationary : BlockStationary nvSt := by
  intro b
  simp [blockSum, nvSt_vars, nvSt_blocks, sumTo, qOf, St.dfdv, St.pos, posOf, blk]
  by_cases h : 0 = b <;> simp [h]
  norm_num

theorem nvSt_quiescent (eps : Rat) : Quiescent eps nvSt := by
  refine ⟨fun j hj => ?_, fun j hj ha he => ?_⟩
  · have : j = 0 := by rw [nvSt_cons] at hj; simp at hj; omega
    subst this
    simp [slackQ, AdaptaVerif.Spec.Qp.slack, problemOf, toQ, nvSt_cons, nvSt_vars, nvSt_blocks, St.pos, posOf]
    norm_num
  · have : j = 0 := by rw [nvSt_cons] at hj; simp at hj; omega
    subst this
    simp [nvSt_cons] at he

/-- `compute_dfdv` from the front variable of block 0 does not run out of fuel -/
theorem nvSt_dfdv_ok : (computeDfdv nvSt 0 3 #[0] #[] 0 none).2.2.2 = true := by decide +kernel

theorem nvSt_members (x : Nat) (hx : x < nvSt.vars.size) : x ∈ (#[0, 1] : Array Nat) ↔ blk nvSt.vars x = 0 := by
  rcases nvSt_lt x hx with rfl | rfl <;> simp [blk, nvSt_vars]

theorem nvSt_members_lt : ∀ x ∈ (#[0, 1] : Array Nat), x < nvSt.vars.size := by
  intro x hx
  simp at hx
  rcases hx with rfl | rfl <;> simp [nvSt_vars]

theorem nvSt_posn : ((nvSt.blocks[0]!).scale, (nvSt.blocks[0]!).posn) = blockPosn nvSt.vars #[0, 1] := by
  decide +kernel

theorem nvSt_A2 : listSum (fun i => (nvSt.vars[i]!).weight *
      ((nvSt.vars[(#[0, 1] : Array Nat)[0]!]!).scale / (nvSt.vars[i]!).scale) *
      ((nvSt.vars[(#[0, 1] : Array Nat)[0]!]!).scale / (nvSt.vars[i]!).scale)) (#[0, 1] : Array Nat).toList ≠ 0 := by
  decide +kernel

end AdaptaVerif.Lemmas.VpscNonVac
