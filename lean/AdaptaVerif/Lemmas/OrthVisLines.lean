/-
Lemmas about `Model/OrthVis.lean`, part 3: merged lines are good, breakpoints stay inside their line,
sentinels bound the scene, and the assembly: every edge of the model graph runs along a good line.
-/
import AdaptaVerif.Lemmas.OrthVis
import AdaptaVerif.Lemmas.OrthVisEdges

namespace AdaptaVerif.Lemmas.OrthVis
open AdaptaVerif.Model.OrthVis

/-! ### `mergeAll` -/

theorem foldl_merge_good {P : Rect → Prop} {rects : List Rect} (s : Seg) (ws : s.b ≤ s.f) :
    ∀ (ov : List Seg) (m : Seg), (Good P rects m ∧ m.p = s.p ∧ m.b ≤ s.b ∧ s.f ≤ m.f) →
      (∀ c ∈ ov, Good P rects c ∧ c.overlaps s = true) →
      Good P rects (ov.foldl Seg.merge m) := by
  intro ov
  induction ov with
  | nil => intro m hm _; exact hm.1
  | cons c r ih =>
    intro m hm hov
    obtain ⟨gm, hp, hb, hf⟩ := hm
    obtain ⟨gc, oc⟩ := hov c (by simp)
    obtain ⟨hcp, u, u1, u2, u3, u4⟩ := overlaps_common oc gc.wf ws
    have gm' : Good P rects (m.merge c) :=
      Good.merge gm gc (by rw [hp, hcp]) u ⟨le_trans hb u3, le_trans u4 hf, u1, u2⟩
    apply ih (m.merge c) ⟨gm', hp, ?_, ?_⟩ (fun c' hc' => hov c' (by simp [hc']))
    · exact le_trans (min_le_left _ _) hb
    · exact le_trans hf (le_max_left _ _)

theorem insertSeg_good {P : Rect → Prop} {rects : List Rect} {l : List Seg} {s : Seg}
    (hl : ∀ c ∈ l, Good P rects c) (hs : Good P rects s) : ∀ m ∈ insertSeg l s, Good P rects m := by
  intro m hm
  unfold insertSeg at hm
  rcases List.mem_append.mp hm with hm | hm
  · exact hl m (List.mem_filter.mp hm).1
  · simp only [List.mem_singleton] at hm
    subst hm
    apply foldl_merge_good s hs.wf _ s ⟨hs, rfl, le_refl _, le_refl _⟩
    intro c hc
    obtain ⟨h1, h2⟩ := List.mem_filter.mp hc
    exact ⟨hl c h1, h2⟩

theorem mergeAll_good {P : Rect → Prop} {rects : List Rect} {raw : List Seg}
    (h : ∀ s ∈ raw, Good P rects s) : ∀ m ∈ mergeAll raw, Good P rects m := by
  unfold mergeAll
  suffices H : ∀ (acc : List Seg), (∀ c ∈ acc, Good P rects c) → (∀ s ∈ raw, Good P rects s) →
      ∀ m ∈ raw.foldl insertSeg acc, Good P rects m from H [] (by simp) h
  induction raw with
  | nil => intro acc ha _ m hm; exact ha m hm
  | cons s r ih =>
    intro acc ha hr
    exact ih (fun s' hs' => h s' (by simp [hs'])) (insertSeg acc s)
      (insertSeg_good ha (hr s (by simp))) (fun s' hs' => hr s' (by simp [hs']))

/-! ### candidate segments of a whole sweep -/

/-- some connector end point lies strictly inside `R` -/
def HasConnIn (conns : List Conn) (R : Rect) : Prop := ∃ c ∈ conns, StrictIn R c.x c.y

theorem rawH_good (lo hi : Rat) (rects : List Rect) (conns : List Conn)
    (hb : ∀ v ∈ rects, lo ≤ v.x0 ∧ v.x1 ≤ hi) :
    ∀ s ∈ rawH lo hi rects conns, Good (HasConnIn conns) rects s := by
  intro s hs
  unfold rawH at hs
  rcases List.mem_append.mp hs with hs | hs
  · obtain ⟨⟨v, i⟩, hvi, hs⟩ := List.mem_flatMap.mp hs
    have hv : rects[i]? = some v := List.mem_zipIdx_iff_getElem?.mp hvi
    have hmem : v ∈ rects := List.mem_of_getElem? hv
    obtain ⟨b1, b2⟩ := hb v hmem
    simp only at hs
    rcases List.mem_append.mp hs with hs | hs
    · exact (sideSegsH_good _ lo hi rects i v hv v.y0 (Or.inl rfl) b1 b2 s hs).1
    · exact (sideSegsH_good _ lo hi rects i v hv v.y1 (Or.inr rfl) b1 b2 s hs).1
  · obtain ⟨⟨c, i⟩, hci, rfl⟩ := List.mem_map.mp hs
    have hc : c ∈ conns := by
      have := (List.mem_filter.mp hci).1
      exact List.mem_of_getElem? (List.mem_zipIdx_iff_getElem?.mp this)
    exact (connSegH_good lo hi rects i c).1.mono (fun R hR => ⟨c, hc, hR⟩)

theorem rawV_good (lo hi : Rat) (rects : List Rect) (conns : List Conn)
    (hb : ∀ v ∈ rects, lo ≤ v.x0 ∧ v.x1 ≤ hi) :
    ∀ s ∈ rawV lo hi rects conns, Good (HasConnIn conns) rects s := by
  intro s hs
  unfold rawV at hs
  rcases List.mem_append.mp hs with hs | hs
  · obtain ⟨⟨v, i⟩, hvi, hs⟩ := List.mem_flatMap.mp hs
    have hv : rects[i]? = some v := List.mem_zipIdx_iff_getElem?.mp hvi
    have hmem : v ∈ rects := List.mem_of_getElem? hv
    obtain ⟨b1, b2⟩ := hb v hmem
    simp only [sideSegsV] at hs
    rcases List.mem_append.mp hs with hs | hs
    · exact (sideSegsH_good _ lo hi rects i v hv v.y0 (Or.inl rfl) b1 b2 s hs).1
    · exact (sideSegsH_good _ lo hi rects i v hv v.y1 (Or.inr rfl) b1 b2 s hs).1
  · obtain ⟨c, hc, hs⟩ := List.mem_flatMap.mp hs
    have hc' : c ∈ conns := (List.mem_filter.mp hc).1
    exact (connSegsV_good lo hi rects c s hs).1.mono (fun R hR => ⟨c, hc', hR⟩)

/-! ### breakpoints stay inside their line -/

theorem mem_ensure {vs : List LV} {t : Rat} {q : LV} (h : q ∈ ensure vs t) : q ∈ vs ∨ q.t = t := by
  unfold ensure at h
  split at h
  · exact Or.inl h
  · rcases List.mem_append.mp h with h | h
    · exact Or.inl h
    · simp only [List.mem_singleton] at h; subst h; exact Or.inr rfl

theorem mem_foldl_ensure {ts : List Rat} {vs : List LV} {q : LV} (h : q ∈ ts.foldl ensure vs) :
    q ∈ vs ∨ q.t ∈ ts := by
  induction ts generalizing vs with
  | nil => exact Or.inl h
  | cons t r ih =>
    rcases ih h with h | h
    · rcases mem_ensure h with h | h
      · exact Or.inl h
      · exact Or.inr (by simp [h])
    · exact Or.inr (by simp [h])

theorem crosses_iff {h v : Seg} : crosses h v = true ↔ v.b ≤ h.p ∧ h.p ≤ v.f ∧ h.b ≤ v.p ∧ v.p ≤ h.f := by
  unfold crosses
  simp only [Bool.and_eq_true, decide_eq_true_eq]
  tauto

theorem mem_ensureFin {inf : Rat} {vs : List LV} {t : Rat} {q : LV} (h : q ∈ ensureFin inf vs t) :
    q ∈ vs ∨ q.t = t := by
  unfold ensureFin at h
  split at h
  · exact Or.inl h
  · exact mem_ensure h

theorem hVerts_range (lo hi : Rat) (vls : List Seg) (h : Seg) (wf : h.b ≤ h.f)
    (inr : ∀ q ∈ h.vs, h.b ≤ q.t ∧ q.t ≤ h.f) :
    ∀ q ∈ hVerts lo hi vls h, h.b ≤ q.t ∧ q.t ≤ h.f := by
  intro q hq
  unfold hVerts at hq
  have atb : ∀ q : LV, q.t = h.b → h.b ≤ q.t ∧ q.t ≤ h.f := fun q e => by rw [e]; exact ⟨le_refl _, wf⟩
  have atf : ∀ q : LV, q.t = h.f → h.b ≤ q.t ∧ q.t ≤ h.f := fun q e => by rw [e]; exact ⟨wf, le_refl _⟩
  rcases mem_foldl_ensure hq with hq | hq
  · rcases mem_ensureFin hq with hq | hq
    · rcases mem_ensureFin hq with hq | hq
      · unfold hBase at hq
        rcases List.mem_append.mp hq with hq | hq
        · exact inr q hq
        · obtain ⟨v, hv, rfl⟩ := List.mem_map.mp hq
          have hcond := (List.mem_filter.mp hv).2
          simp only [Bool.and_eq_true, Bool.or_eq_true, beq_iff_eq] at hcond
          rcases hcond.1 with e | e
          · exact atb _ e
          · exact atf _ e
      · exact atb q hq
    · exact atf q hq
  · obtain ⟨v, hv, hvp⟩ := List.mem_map.mp hq
    have hc := crosses_iff.mp (List.mem_filter.mp hv).2
    rw [← hvp]
    exact ⟨hc.2.2.1, hc.2.2.2⟩

theorem vVerts_range (lo hi : Rat) (hls : List (Seg × List LV)) (v : Seg) (wf : v.b ≤ v.f) :
    ∀ q ∈ vVerts lo hi hls v, v.b ≤ q.t ∧ q.t ≤ v.f := by
  intro q hq
  unfold vVerts at hq
  rcases mem_ensureFin hq with hq | hq
  · rcases mem_ensureFin hq with hq | hq
    · obtain ⟨⟨h, hv⟩, _, hq⟩ := List.mem_flatMap.mp hq
      unfold vFrom at hq
      simp only at hq
      split at hq
      · rename_i hc
        have hc := crosses_iff.mp hc
        obtain ⟨_, _, rfl⟩ := List.mem_map.mp hq
        exact ⟨hc.1, hc.2.1⟩
      · simp at hq
    · rw [hq]; exact ⟨le_refl _, wf⟩
  · rw [hq]; exact ⟨wf, le_refl _⟩

/-! ### sentinels -/

theorem lo_hi_bound (s : Scene) : ∀ x ∈ s.coords, s.lo ≤ x ∧ x ≤ s.hi := by
  intro x hx
  unfold Scene.lo Scene.hi
  have h1 : minL 0 s.coords ≤ x := minL_le_mem hx
  have h2 : x ≤ maxL 0 s.coords := mem_le_maxL hx
  constructor <;> linarith

theorem rect_bounds (s : Scene) : ∀ v ∈ s.rects, (s.lo ≤ v.x0 ∧ v.x1 ≤ s.hi) ∧ (s.lo ≤ v.y0 ∧ v.y1 ≤ s.hi) := by
  intro v hv
  have hm : ∀ x ∈ [v.x0, v.y0, v.x1, v.y1], x ∈ s.coords := by
    intro x hx
    unfold Scene.coords
    exact List.mem_append_left _ (List.mem_flatMap.mpr ⟨v, hv, hx⟩)
  exact ⟨⟨(lo_hi_bound s _ (hm _ (by simp))).1, (lo_hi_bound s _ (hm _ (by simp))).2⟩,
         ⟨(lo_hi_bound s _ (hm _ (by simp))).1, (lo_hi_bound s _ (hm _ (by simp))).2⟩⟩

/-- the outside rule changes direction flags only -/
theorem fixDirs_pos (s : Scene) : ∀ c ∈ s.fixDirs, ∃ c' ∈ s.conns, c'.x = c.x ∧ c'.y = c.y := by
  intro c hc
  unfold Scene.fixDirs at hc
  obtain ⟨c', hc', rfl⟩ := List.mem_map.mp hc
  refine ⟨c', hc', ?_, ?_⟩ <;> (simp only; split <;> rfl)

/-! ### assembly -/

/-- the horizontal lines of the model are good -/
theorem hLines_good (s : Scene) : ∀ p ∈ s.lines.hs,
    Good (HasConnIn s.conns) s.rects p.1 ∧ ∀ q ∈ p.2, p.1.b ≤ q.t ∧ q.t ≤ p.1.f := by
  intro p hp
  unfold Scene.lines at hp
  simp only at hp
  obtain ⟨h, hh, rfl⟩ := List.mem_map.mp hp
  have g : Good (HasConnIn s.fixDirs) s.rects h :=
    mergeAll_good (rawH_good _ _ _ _ (fun v hv => (rect_bounds s v hv).1)) h hh
  have g' : Good (HasConnIn s.conns) s.rects h :=
    g.mono (fun R ⟨c, hc, hin⟩ => by
      obtain ⟨c', hc', e1, e2⟩ := fixDirs_pos s c hc
      exact ⟨c', hc', by rw [e1, e2]; exact hin⟩)
  exact ⟨g', hVerts_range _ _ _ h g.wf g.inr⟩

/-- the vertical lines of the model are good in the transposed scene -/
theorem vLines_good (s : Scene) : ∀ p ∈ s.lines.vs,
    Good (HasConnIn (s.conns.map Conn.tr)) (s.rects.map Rect.tr) p.1 ∧ ∀ q ∈ p.2, p.1.b ≤ q.t ∧ q.t ≤ p.1.f := by
  intro p hp
  unfold Scene.lines at hp
  simp only at hp
  obtain ⟨v, hv, rfl⟩ := List.mem_map.mp hp
  have g : Good (HasConnIn (s.fixDirs.map Conn.tr)) (s.rects.map Rect.tr) v := by
    apply mergeAll_good (rawV_good _ _ _ _ ?_) v hv
    intro r hr
    obtain ⟨r', hr', rfl⟩ := List.mem_map.mp hr
    exact (rect_bounds s r' hr').2
  have g' : Good (HasConnIn (s.conns.map Conn.tr)) (s.rects.map Rect.tr) v :=
    g.mono (fun R ⟨c, hc, hin⟩ => by
      obtain ⟨c0, hc0, rfl⟩ := List.mem_map.mp hc
      obtain ⟨c', hc', e1, e2⟩ := fixDirs_pos s c0 hc0
      refine ⟨c'.tr, List.mem_map.mpr ⟨c', hc', rfl⟩, ?_⟩
      simp only [Conn.tr] at hin ⊢
      rw [e1, e2]; exact hin)
  exact ⟨g', vVerts_range _ _ _ v g.wf⟩

end AdaptaVerif.Lemmas.OrthVis
