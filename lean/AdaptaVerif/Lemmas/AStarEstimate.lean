/-
Consistency of libavoid's estimator `estimatedCostSpecific` with the orthogonal `cost()` on every hop
that (a) does not double back and (b) does not end at the cost target: the value at the hop's start is at
most hop length + bend penalty of the hop + the value at its end.  (On hops of kind (a)/(b) it is false:
Props/C05AStar `estimator_inconsistent_*`.)  Proof: `bends` depends on the points only through the signs
of the displacement (Lemmas/Bends `bends_tbl`); one finite table check over signs × headings.
-/
import AdaptaVerif.Lemmas.Bends
import AdaptaVerif.Model.AStar
namespace AdaptaVerif.Lemmas.AStarEstimate
open AdaptaVerif.Model.Bends AdaptaVerif.Spec.OrthPath AdaptaVerif.Lemmas.Bends
open AdaptaVerif.Model.Geometry (Pt)

/-- bends charged by `cost()` for leaving a vertex entered with heading `cd` in direction `nd` -/
def turn (cd nd : Dir) : Nat := if nd = cd then 0 else 1

/-- signs a coordinate difference (target − position) can have after the position moved in the
    positive direction of that axis -/
def dec (s : Int) : List Int := if s > 0 then [-1, 0, 1] else [-1]
/-- … in the negative direction -/
def inc (s : Int) : List Int := if s < 0 then [-1, 0, 1] else [1]

/-- possible sign pairs of (target − next) after a hop of positive length with heading `nd`, given the
    sign pair of (target − curr).  (y points down: S = +y.) -/
def after (nd : Dir) (sx sy : Int) : List (Int × Int) :=
  match nd with
  | .E => (dec sx).map fun s => (s, sy)
  | .W => (inc sx).map fun s => (s, sy)
  | .S => (dec sy).map fun s => (sx, s)
  | .N => (inc sy).map fun s => (sx, s)

def leOpt2 (a b : Option Nat) (t : Nat) : Bool :=
  match a, b with
  | some x, some y => decide (x ≤ t + y)
  | _, _ => false

theorem leOpt2_spec {a b : Option Nat} {t : Nat} (h : leOpt2 a b t = true) :
    ∃ x y, a = some x ∧ b = some y ∧ x ≤ t + y := by
  cases a <;> cases b <;> simp [leOpt2] at h
  exact ⟨_, _, rfl, rfl, h⟩

/-- the finite table: one non-reversing hop changes the bend count by at most its own turn -/
theorem tbl_consistent : ∀ sx ∈ signs, ∀ sy ∈ signs, ∀ cd ∈ Dir.all, ∀ nd ∈ Dir.all, ∀ dd ∈ Dir.all,
    nd ≠ cd.rev → (sx, sy) ≠ (0, 0) → ∀ p ∈ after nd sx sy, p ≠ (0, 0) →
      leOpt2 (tbl sx sy cd dd) (tbl p.1 p.2 nd dd) (turn cd nd) = true := by decide

/-- a hop with a single heading: the displacement signs -/
theorem od_single (a b : Pt) (d : Dir) (h : orthogonalDirection a b = d.mask) :
    match d with
    | .E => b.y = a.y ∧ a.x < b.x
    | .W => b.y = a.y ∧ b.x < a.x
    | .S => b.x = a.x ∧ a.y < b.y
    | .N => b.x = a.x ∧ b.y < a.y := by
  rw [od_signs] at h
  rcases dimDirection_cases (b.x - a.x) with ⟨hx, ex⟩ | ⟨hx, ex⟩ | ⟨hx, ex⟩ <;>
  rcases dimDirection_cases (b.y - a.y) with ⟨hy, ey⟩ | ⟨hy, ey⟩ | ⟨hy, ey⟩ <;>
  rw [ex, ey] at h <;> cases d <;> simp only [] <;>
  first
  | (exfalso; revert h; decide)
  | (constructor <;> linarith)

theorem mem_dec (s : Rat) (l : Rat) (hl : 0 < l) : dimDirection (s - l) ∈ dec (dimDirection s) := by
  rcases dimDirection_cases s with ⟨h, e⟩ | ⟨h, e⟩ | ⟨h, e⟩ <;> rw [e]
  · have : dimDirection (s - l) = -1 := by unfold dimDirection; rw [if_neg (by linarith), if_pos (by linarith)]
    rw [this]; decide
  · have : dimDirection (s - l) = -1 := by unfold dimDirection; rw [if_neg (by linarith), if_pos (by linarith)]
    rw [this]; decide
  · have := dimDirection_mem (s - l)
    simpa [dec, signs] using this

theorem mem_inc (s : Rat) (l : Rat) (hl : 0 < l) : dimDirection (s + l) ∈ inc (dimDirection s) := by
  rcases dimDirection_cases s with ⟨h, e⟩ | ⟨h, e⟩ | ⟨h, e⟩ <;> rw [e]
  · have := dimDirection_mem (s + l)
    simpa [inc, signs] using this
  · have : dimDirection (s + l) = 1 := by unfold dimDirection; rw [if_pos (by linarith)]
    rw [this]; decide
  · have : dimDirection (s + l) = 1 := by unfold dimDirection; rw [if_pos (by linarith)]
    rw [this]; decide

/-- the signs of (tar − next) are among those the table quantifies over -/
theorem after_mem (curr next tar : Pt) (nd : Dir) (hnd : orthogonalDirection curr next = nd.mask) :
    (dimDirection (tar.x - next.x), dimDirection (tar.y - next.y)) ∈
      after nd (dimDirection (tar.x - curr.x)) (dimDirection (tar.y - curr.y)) := by
  have h := od_single curr next nd hnd
  cases nd <;> simp only [] at h <;> obtain ⟨h1, h2⟩ := h <;> simp only [after, List.mem_map]
  · -- N: next.x = curr.x, next.y < curr.y
    refine ⟨dimDirection (tar.y - next.y), ?_, by rw [h1]⟩
    have := mem_inc (tar.y - curr.y) (curr.y - next.y) (by linarith)
    have e : tar.y - curr.y + (curr.y - next.y) = tar.y - next.y := by linarith
    rwa [e] at this
  · -- E
    refine ⟨dimDirection (tar.x - next.x), ?_, by rw [h1]⟩
    have := mem_dec (tar.x - curr.x) (next.x - curr.x) (by linarith)
    have e : tar.x - curr.x - (next.x - curr.x) = tar.x - next.x := by linarith
    rwa [e] at this
  · -- S
    refine ⟨dimDirection (tar.y - next.y), ?_, by rw [h1]⟩
    have := mem_dec (tar.y - curr.y) (next.y - curr.y) (by linarith)
    have e : tar.y - curr.y - (next.y - curr.y) = tar.y - next.y := by linarith
    rwa [e] at this
  · -- W
    refine ⟨dimDirection (tar.x - next.x), ?_, by rw [h1]⟩
    have := mem_inc (tar.x - curr.x) (curr.x - next.x) (by linarith)
    have e : tar.x - curr.x + (curr.x - next.x) = tar.x - next.x := by linarith
    rwa [e] at this

theorem signs_ne_zero {a b : Pt} (hne : a ≠ b) :
    (dimDirection (b.x - a.x), dimDirection (b.y - a.y)) ≠ (0, 0) := by
  intro h
  simp only [Prod.mk.injEq] at h
  obtain ⟨hx, hy⟩ := h
  have h0 := ne_disp hne
  apply h0
  constructor
  · rcases dimDirection_cases (b.x - a.x) with ⟨_, e⟩ | ⟨h, _⟩ | ⟨_, e⟩
    · rw [e] at hx; exact absurd hx (by decide)
    · exact h
    · rw [e] at hx; exact absurd hx (by decide)
  · rcases dimDirection_cases (b.y - a.y) with ⟨_, e⟩ | ⟨h, _⟩ | ⟨_, e⟩
    · rw [e] at hy; exact absurd hy (by decide)
    · exact h
    · rw [e] at hy; exact absurd hy (by decide)

/-- `bends` across one non-reversing hop that does not end at the target -/
theorem bends_hop (curr next tar : Pt) (cd nd dd : Dir) (hnd : orthogonalDirection curr next = nd.mask)
    (hnr : nd ≠ cd.rev) (hct : curr ≠ tar) (hnt : next ≠ tar) :
    ∃ x y, bends curr cd.mask tar dd.mask = some x ∧ bends next nd.mask tar dd.mask = some y ∧
      x ≤ turn cd nd + y := by
  rw [bends_tbl, bends_tbl]
  exact leOpt2_spec (tbl_consistent _ (dimDirection_mem _) _ (dimDirection_mem _) cd (Dir.mem_all _) nd (Dir.mem_all _)
    dd (Dir.mem_all _) hnr (signs_ne_zero hct) _ (after_mem curr next tar nd hnd) (signs_ne_zero hnt))

/-- one `std::min` step: the result is the old value or the (enabled) `bends` value -/
theorem minStep_cases (bc dirs : Nat) (D : Dir) (curr tar : Pt) (cd : Dir) :
    ∃ r, minStep (some bc) dirs D.mask curr cd.mask tar = some r ∧ r ≤ bc ∧
      (dirs &&& D.mask ≠ 0 → ∃ b, bends curr cd.mask tar D.mask = some b ∧ r ≤ b) ∧
      (r = bc ∨ (dirs &&& D.mask ≠ 0 ∧ bends curr cd.mask tar D.mask = some r)) := by
  obtain ⟨b, hb⟩ := bends_isSome curr tar cd D
  unfold minStep
  dsimp only
  by_cases hm : dirs &&& D.mask ≠ 0
  · rw [if_pos hm, hb]
    refine ⟨min bc b, rfl, Nat.min_le_left _ _, fun _ => ⟨b, rfl, Nat.min_le_right _ _⟩, ?_⟩
    rcases Nat.le_total bc b with h | h
    · left; exact Nat.min_eq_left h
    · right; refine ⟨hm, ?_⟩; rw [Nat.min_eq_right h]
  · rw [if_neg hm]
    exact ⟨bc, rfl, Nat.le_refl _, fun h => absurd h hm, Or.inl rfl⟩

theorem dist_pos {curr tar : Pt} (hne : curr ≠ tar) : manhattanDist curr tar > 0 := by
  unfold manhattanDist
  have h1 := absR_nonneg (curr.x - tar.x); have h2 := absR_nonneg (curr.y - tar.y)
  by_contra hc
  have hx : absR (curr.x - tar.x) = 0 := by linarith
  have hy : absR (curr.y - tar.y) = 0 := by linarith
  rw [absR_zero_iff] at hx hy
  apply hne; cases curr; cases tar; simp only [Pt.mk.injEq] at *; constructor <;> linarith

/-- the bend count of the estimator at a point ≠ target with a single heading: at most 10, at most every
    enabled `bends` value, and equal to 10 or to one of them -/
theorem bendCount_char (last curr tar : Pt) (cd : Dir) (hdir : orthogonalDirection last curr = cd.mask)
    (dirs : Nat) (hne : curr ≠ tar) :
    ∃ r, bendCount (some last) curr tar dirs = some r ∧ r ≤ 10 ∧
      (∀ dd : Dir, dirs &&& dd.mask ≠ 0 → ∃ b, bends curr cd.mask tar dd.mask = some b ∧ r ≤ b) ∧
      (r = 10 ∨ ∃ dd : Dir, dirs &&& dd.mask ≠ 0 ∧ bends curr cd.mask tar dd.mask = some r) := by
  have hdist := dist_pos hne
  have hsingle : cd.mask > 0 ∧ orthogonalDirectionsCount cd.mask = 1 := by cases cd <;> decide
  obtain ⟨r1, e1, l1, f1, c1⟩ := minStep_cases 10 dirs Dir.N curr tar cd
  obtain ⟨r2, e2, l2, f2, c2⟩ := minStep_cases r1 dirs Dir.E curr tar cd
  obtain ⟨r3, e3, l3, f3, c3⟩ := minStep_cases r2 dirs Dir.S curr tar cd
  obtain ⟨r4, e4, l4, f4, c4⟩ := minStep_cases r3 dirs Dir.W curr tar cd
  have hbc : bendCount (some last) curr tar dirs = some r4 := by
    unfold bendCount
    simp only [hdist, if_true, hdir, hsingle, and_self]
    show minStep (minStep (minStep (minStep (some 10) dirs Dir.N.mask curr cd.mask tar) dirs Dir.E.mask curr cd.mask tar) dirs Dir.S.mask curr cd.mask tar) dirs Dir.W.mask curr cd.mask tar = some r4
    rw [e1, e2, e3, e4]
  refine ⟨r4, hbc, by omega, ?_, ?_⟩
  · intro dd hdd
    cases dd with
    | N => obtain ⟨b, hb, hle⟩ := f1 hdd; exact ⟨b, hb, by omega⟩
    | E => obtain ⟨b, hb, hle⟩ := f2 hdd; exact ⟨b, hb, by omega⟩
    | S => obtain ⟨b, hb, hle⟩ := f3 hdd; exact ⟨b, hb, by omega⟩
    | W => obtain ⟨b, hb, hle⟩ := f4 hdd; exact ⟨b, hb, by omega⟩
  · rcases c4 with c4 | ⟨m4, b4⟩
    · rcases c3 with c3 | ⟨m3, b3⟩
      · rcases c2 with c2 | ⟨m2, b2⟩
        · rcases c1 with c1 | ⟨m1, b1⟩
          · left; omega
          · right; exact ⟨Dir.N, m1, by rw [c4, c3, c2]; exact b1⟩
        · right; exact ⟨Dir.E, m2, by rw [c4, c3]; exact b2⟩
      · right; exact ⟨Dir.S, m3, by rw [c4]; exact b3⟩
    · right; exact ⟨Dir.W, m4, b4⟩

theorem manhattan_triangle (a b c : Pt) : manhattanDist a c ≤ manhattanDist a b + manhattanDist b c := by
  unfold manhattanDist
  have hx := absR_add_le (a.x - b.x) (b.x - c.x)
  have hy := absR_add_le (a.y - b.y) (b.y - c.y)
  have ex : a.x - b.x + (b.x - c.x) = a.x - c.x := by linarith
  have ey : a.y - b.y + (b.y - c.y) = a.y - c.y := by linarith
  rw [ex] at hx; rw [ey] at hy
  linarith

/-- **Consistency of `estimatedCostSpecific` with the orthogonal `cost()`** on a hop curr → next with a
    single heading `nd` (axis-parallel, positive length) taken after arriving at `curr` with heading `cd`,
    provided the hop does not double back and does not end at the cost target. -/
theorem estimate_consistent (last curr next tar : Pt) (cd nd : Dir) (dirs : Nat) (pen : Rat) (hpen : 0 < pen)
    (hcd : orthogonalDirection last curr = cd.mask) (hnd : orthogonalDirection curr next = nd.mask)
    (hnr : nd ≠ cd.rev) (hnt : next ≠ tar) :
    ∃ e1 e2, estimatedCostSpecific (some last) curr tar dirs pen = some e1 ∧
      estimatedCostSpecific (some curr) next tar dirs pen = some e2 ∧
      e1 ≤ manhattanDist curr next + (if nd = cd then 0 else pen) + e2 := by
  obtain ⟨r2, hb2, h10, _, hatt⟩ := bendCount_char curr next tar nd hnd dirs hnt
  have htri := manhattan_triangle curr next tar
  have hdn : 0 ≤ manhattanDist next tar := le_of_lt (dist_pos hnt)
  have hcn : 0 ≤ manhattanDist curr next := by
    unfold manhattanDist
    have h1 := absR_nonneg (curr.x - next.x); have h2 := absR_nonneg (curr.y - next.y); linarith
  have hr2 : (0 : Rat) ≤ (r2 : Rat) := by exact_mod_cast Nat.zero_le r2
  have hturn : (0 : Rat) ≤ (if nd = cd then 0 else pen) := by split_ifs <;> linarith
  by_cases hct : curr = tar
  · subst hct
    have hd0 : manhattanDist curr curr = 0 := by unfold manhattanDist; simp [absR]
    refine ⟨0, manhattanDist next curr + (r2 : Rat) * pen, ?_, ?_, ?_⟩
    · unfold estimatedCostSpecific bendCount; simp [hpen, hd0]
    · unfold estimatedCostSpecific; simp [hpen, hb2]
    · have := mul_nonneg hr2 (le_of_lt hpen); linarith
  · obtain ⟨r1, hb1, h10', hle1, _⟩ := bendCount_char last curr tar cd hcd dirs hct
    refine ⟨manhattanDist curr tar + (r1 : Rat) * pen, manhattanDist next tar + (r2 : Rat) * pen, ?_, ?_, ?_⟩
    · unfold estimatedCostSpecific; simp [hpen, hb1]
    · unfold estimatedCostSpecific; simp [hpen, hb2]
    · have hr : r1 ≤ turn cd nd + r2 := by
        rcases hatt with h | ⟨dd, hdd, hbd⟩
        · omega
        · obtain ⟨b1, hb1', hle⟩ := hle1 dd hdd
          obtain ⟨x, y, hx, hy, hxy⟩ := bends_hop curr next tar cd nd dd hnd hnr hct hnt
          rw [hb1'] at hx; cases hx
          rw [hbd] at hy; cases hy
          omega
      have hrR : (r1 : Rat) ≤ (turn cd nd : Rat) + (r2 : Rat) := by exact_mod_cast hr
      have hmul := mul_le_mul_of_nonneg_right hrR (le_of_lt hpen)
      have hturnEq : (turn cd nd : Rat) * pen = (if nd = cd then 0 else pen) := by
        unfold turn; split_ifs <;> simp
      have : ((turn cd nd : Rat) + (r2 : Rat)) * pen = (if nd = cd then 0 else pen) + (r2 : Rat) * pen := by
        rw [add_mul, hturnEq]
      rw [this] at hmul
      linarith

end AdaptaVerif.Lemmas.AStarEstimate

/-! ### the search's heuristic `estimatedCost`: minimum over the cost targets of estimate + displacement -/
namespace AdaptaVerif.Lemmas.AStarEstimate
open AdaptaVerif.Model.Bends AdaptaVerif.Spec.OrthPath AdaptaVerif.Lemmas.Bends
open AdaptaVerif.Model.Geometry (Pt)
open AdaptaVerif.Model.AStar (Graph costTargets estimatedCost minOpt)

theorem mapM_pair {α : Type} (F1 F2 : α → Option Rat) (K : Rat) (l : List α)
    (h : ∀ a ∈ l, ∃ x y, F1 a = some x ∧ F2 a = some y ∧ x ≤ K + y) :
    ∃ xs ys, l.mapM F1 = some xs ∧ l.mapM F2 = some ys ∧ List.Forall₂ (fun x y => x ≤ K + y) xs ys ∧
      xs.length = l.length := by
  induction l with
  | nil => exact ⟨[], [], by simp, by simp, List.Forall₂.nil, rfl⟩
  | cons a rest ih =>
    obtain ⟨x, y, h1, h2, hxy⟩ := h a (List.mem_cons_self ..)
    obtain ⟨xs, ys, e1, e2, hf, hlen⟩ := ih (fun b hb => h b (List.mem_cons_of_mem _ hb))
    refine ⟨x :: xs, y :: ys, ?_, ?_, List.Forall₂.cons hxy hf, by simp [hlen]⟩
    · simp [List.mapM_cons, h1, e1]
    · simp [List.mapM_cons, h2, e2]

theorem minOpt_pair (K : Rat) (xs ys : List Rat) (h : List.Forall₂ (fun x y => x ≤ K + y) xs ys)
    (hne : xs ≠ []) : ∃ m1 m2, minOpt xs = some m1 ∧ minOpt ys = some m2 ∧ m1 ≤ K + m2 := by
  induction h with
  | nil => exact absurd rfl hne
  | @cons x y xs' ys' hxy hrest ih =>
    cases hrest with
    | nil => exact ⟨x, y, by simp [minOpt], by simp [minOpt], hxy⟩
    | @cons x2 y2 xs2 ys2 h2 hr2 =>
      obtain ⟨m1, m2, e1, e2, hm⟩ := ih (by simp)
      refine ⟨if x < m1 then x else m1, if y < m2 then y else m2, ?_, ?_, ?_⟩
      · simp only [minOpt] at e1 ⊢; rw [e1]
      · simp only [minOpt] at e2 ⊢; rw [e2]
      · split_ifs <;> linarith

theorem costTargets_ne_nil (g : Graph) : costTargets g ≠ [] := by
  unfold costTargets
  simp only
  split
  · simp
  · rename_i h; intro h2; rw [h2] at h; simp at h

/-- **Consistency of the search's heuristic** `AStarPathPrivate::estimatedCost` (minimum over all cost
    targets of `estimatedCostSpecific` + displacement) with the orthogonal `cost()`, on every hop with a
    single heading that does not double back and does not end at the point of a cost target. -/
theorem estimatedCost_consistent (g : Graph) (hpen : 0 < g.segPen) (last curr next : Pt) (cd nd : Dir)
    (hcd : orthogonalDirection last curr = cd.mask) (hnd : orthogonalDirection curr next = nd.mask)
    (hnr : nd ≠ cd.rev) (hnt : ∀ ct ∈ costTargets g, next ≠ g.pt ct.1) :
    ∃ e1 e2, estimatedCost g (some last) curr = some e1 ∧ estimatedCost g (some curr) next = some e2 ∧
      e1 ≤ manhattanDist curr next + (if nd = cd then 0 else g.segPen) + e2 := by
  have hall : ∀ ct ∈ costTargets g, ∃ x y,
      ((estimatedCostSpecific (some last) curr (g.pt ct.1) ct.2.1 g.segPen).map (· + ct.2.2)) = some x ∧
      ((estimatedCostSpecific (some curr) next (g.pt ct.1) ct.2.1 g.segPen).map (· + ct.2.2)) = some y ∧
      x ≤ (manhattanDist curr next + (if nd = cd then 0 else g.segPen)) + y := by
    intro ct hct
    obtain ⟨e1, e2, h1, h2, hle⟩ :=
      estimate_consistent last curr next (g.pt ct.1) cd nd ct.2.1 g.segPen hpen hcd hnd hnr (hnt ct hct)
    exact ⟨e1 + ct.2.2, e2 + ct.2.2, by rw [h1]; rfl, by rw [h2]; rfl, by linarith⟩
  obtain ⟨xs, ys, m1, m2, hf, hlen⟩ := mapM_pair _ _ _ _ hall
  have hne : xs ≠ [] := by
    intro hx
    rw [hx] at hlen
    have hl := costTargets_ne_nil g
    cases hc : costTargets g with
    | nil => exact hl hc
    | cons a rest => rw [hc] at hlen; simp at hlen
  obtain ⟨a, b, ha, hb, hab⟩ := minOpt_pair _ xs ys hf hne
  refine ⟨a, b, ?_, ?_, hab⟩
  · unfold estimatedCost; rw [m1]; exact ha
  · unfold estimatedCost; rw [m2]; exact hb

end AdaptaVerif.Lemmas.AStarEstimate
