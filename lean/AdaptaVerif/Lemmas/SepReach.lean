/-
C18: the structural invariant of the SepMatrix model (sorted by key, records filed under their own
(src, tgt) with src < tgt) holds in every state reachable by an operation history; hence the
matrix-level TGLF round trip applies to all reachable states whose values are multiples of 10^-prec.
-/
import AdaptaVerif.Lemmas.SepTglfMatrix
namespace AdaptaVerif.Lemmas.Sep
open AdaptaVerif.Num AdaptaVerif.Model.Sep AdaptaVerif.Spec.Sep
open AdaptaVerif.Model.Sep.SepMatrix

theorem keyLt_iff (a b : Nat × Nat) : keyLt a b = true ↔ (a.1 < b.1 ∨ (a.1 = b.1 ∧ a.2 < b.2)) := by
  simp [keyLt]

theorem keyLt_trans {a b c : Nat × Nat} (h₁ : keyLt a b = true) (h₂ : keyLt b c = true) : keyLt a c = true := by
  rw [keyLt_iff] at *; omega

theorem keyLt_ne {a b : Nat × Nat} (h : keyLt a b = true) : a ≠ b := by
  rw [keyLt_iff] at h; intro e; subst e; omega

theorem keyLt_total {a b : Nat × Nat} (hne : a ≠ b) (h : ¬ keyLt a b = true) : keyLt b a = true := by
  rw [keyLt_iff] at *
  have : a.1 ≠ b.1 ∨ a.2 ≠ b.2 := by
    by_cases h1 : a.1 = b.1
    · right; intro h2; exact hne (Prod.ext h1 h2)
    · left; exact h1
  omega

/-- sorted by key like the nested `std::map`s -/
def SortedL (l : List ((Nat × Nat) × SepPair)) : Prop := l.Pairwise fun x y => keyLt x.1 y.1 = true

theorem mem_upsertL (k : Nat × Nat) (sp : SepPair) (l : List ((Nat × Nat) × SepPair)) :
    ∀ e ∈ upsertL k sp l, e = (k, sp) ∨ e ∈ l := by
  induction l with
  | nil => intro e he; simp [upsertL] at he; exact Or.inl he
  | cons hd tl ih =>
    obtain ⟨k', sp'⟩ := hd
    intro e he
    simp only [upsertL] at he
    split at he
    · rcases List.mem_cons.mp he with h | h
      · exact Or.inl h
      · exact Or.inr (List.mem_cons_of_mem _ h)
    · split at he
      · rcases List.mem_cons.mp he with h | h
        · exact Or.inl h
        · exact Or.inr h
      · rcases List.mem_cons.mp he with h | h
        · exact Or.inr (by rw [h]; exact List.mem_cons_self)
        · rcases ih e h with h' | h'
          · exact Or.inl h'
          · exact Or.inr (List.mem_cons_of_mem _ h')

theorem sorted_upsertL (k : Nat × Nat) (sp : SepPair) (l : List ((Nat × Nat) × SepPair)) (hs : SortedL l) :
    SortedL (upsertL k sp l) := by
  induction l with
  | nil => simp [upsertL, SortedL]
  | cons hd tl ih =>
    obtain ⟨k', sp'⟩ := hd
    simp only [SortedL, List.pairwise_cons] at hs
    obtain ⟨hhd, htl⟩ := hs
    simp only [upsertL]
    split
    · rename_i hk
      subst hk
      exact List.pairwise_cons.mpr ⟨hhd, htl⟩
    · split
      · rename_i hne hlt
        refine List.pairwise_cons.mpr ⟨?_, List.pairwise_cons.mpr ⟨hhd, htl⟩⟩
        intro y hy
        rcases List.mem_cons.mp hy with h | h
        · rw [h]; exact hlt
        · exact keyLt_trans hlt (hhd y h)
      · rename_i hne hlt
        refine List.pairwise_cons.mpr ⟨?_, ih htl⟩
        intro y hy
        rcases mem_upsertL k sp tl y hy with h | h
        · rw [h]; exact keyLt_total (fun e => hne e.symm) hlt
        · exact hhd y h

theorem nodup_of_sorted (l : List ((Nat × Nat) × SepPair)) (hs : SortedL l) : (l.map Prod.fst).Nodup := by
  unfold List.Nodup
  rw [List.pairwise_map]
  exact hs.imp fun h => keyLt_ne h



/-- the structural invariant of a SepMatrix: sorted by key, every record filed under its own
    `(src, tgt)` with `src < tgt` -/
structure StructOK (m : SepMatrix) : Prop where
  sorted : SortedL m.pairs
  keys : ∀ e ∈ m.pairs, e.1 = (e.2.src, e.2.tgt) ∧ e.2.src < e.2.tgt

theorem lookupL_mem (k : Nat × Nat) (sp : SepPair) (l : List ((Nat × Nat) × SepPair))
    (h : lookupL k l = some sp) : (k, sp) ∈ l := by
  induction l with
  | nil => simp [lookupL] at h
  | cons hd tl ih =>
    obtain ⟨k', sp'⟩ := hd
    simp only [lookupL] at h
    split at h
    · rename_i hk; cases h; subst hk; exact List.mem_cons_self
    · exact List.mem_cons_of_mem _ (ih h)

theorem structOK_upsert (m : SepMatrix) (hm : StructOK m) (k : Nat × Nat) (sp : SepPair)
    (hk : k = (sp.src, sp.tgt)) (hlt : sp.src < sp.tgt) : StructOK (m.upsert k sp) :=
  ⟨sorted_upsertL k sp m.pairs hm.sorted, fun e he => by
    rcases mem_upsertL k sp m.pairs e he with h | h
    · rw [h]; exact ⟨hk, hlt⟩
    · exact hm.keys e h⟩

theorem structOK_mapPairs (m : SepMatrix) (hm : StructOK m) (f : (Nat × Nat) → SepPair → SepPair)
    (hf : ∀ k sp, (f k sp).src = sp.src ∧ (f k sp).tgt = sp.tgt) : StructOK (m.mapPairs f) := by
  constructor
  · show SortedL (m.pairs.map _)
    unfold SortedL
    rw [List.pairwise_map]
    exact hm.sorted
  · intro e he
    obtain ⟨e', he', rfl⟩ := List.mem_map.mp he
    obtain ⟨h1, h2⟩ := hm.keys e' he'
    obtain ⟨k, sp⟩ := e'
    simp only [(hf k sp).1, (hf k sp).2]
    exact ⟨h1, h2⟩

theorem structOK_filter (m : SepMatrix) (hm : StructOK m) (p : (Nat × Nat) × SepPair → Bool) :
    StructOK { m with pairs := m.pairs.filter p } :=
  ⟨hm.sorted.filter p, fun e he => hm.keys e (List.mem_filter.mp he).1⟩

theorem transform_src_tgt (tf : SepTransform) (sp : SepPair) :
    (sp.transform tf).src = sp.src ∧ (sp.transform tf).tgt = sp.tgt := by
  cases tf <;> exact ⟨rfl, rfl⟩

theorem addSep_src_tgt (sp : SepPair) (gt : GapType) (sd : SepDir) (st : SepType) (g : SZ) :
    (sp.addSep gt sd st g).src = sp.src ∧ (sp.addSep gt sd st g).tgt = sp.tgt := by
  cases sd <;> cases st <;> simp [SepPair.addSep]

theorem key_fst_lt_snd {a b : Nat} (h : a ≠ b) : (key a b).1 < (key a b).2 := by
  unfold key; split <;> simp <;> omega

/-- what `getSepPair` hands out is filed under `key id1 id2` -/
theorem getSepPair_ok (ff : Bool) (m : SepMatrix) (hm : StructOK m) (a b : Nat) (sp : SepPair)
    (h : getSepPair ff m a b = some sp) : key a b = (sp.src, sp.tgt) ∧ sp.src < sp.tgt := by
  unfold getSepPair at h
  split at h
  · cases h
  · rename_i hab
    simp only at h
    cases hl : m.lookup (key a b) with
    | none =>
      simp only [hl, Option.some.injEq] at h
      subst h
      exact ⟨rfl, key_fst_lt_snd hab⟩
    | some sp' =>
      simp only [hl, Option.some.injEq] at h
      have := hm.keys _ (lookupL_mem _ _ _ hl)
      subst h
      cases ff <;> simpa using this

theorem structOK_addSep (ff : Bool) (m : SepMatrix) (hm : StructOK m) (a b : Nat) (gt : GapType)
    (sd : SepDir) (st : SepType) (g : SZ) (m' : SepMatrix) (h : m.addSep ff a b gt sd st g = some m') :
    StructOK m' := by
  unfold SepMatrix.addSep at h
  cases hg : getSepPair ff m a b with
  | none => simp [hg] at h
  | some sp =>
    simp only [hg, Option.some.injEq] at h
    subst h
    obtain ⟨h1, h2⟩ := getSepPair_ok ff m hm a b sp hg
    have hs := addSep_src_tgt sp gt sd st (if sp.flippedRetrieval then -g else g)
    exact structOK_upsert m hm _ _ (by rw [hs.1, hs.2]; exact h1) (by rw [hs.1, hs.2]; exact h2)

theorem structOK_addFixed (ff : Bool) (m : SepMatrix) (hm : StructOK m) (a b : Nat) (dx dy : SZ)
    (m' : SepMatrix) (h : m.addFixedRelativeSep ff a b dx dy = some m') : StructOK m' := by
  unfold SepMatrix.addFixedRelativeSep at h
  cases hg : getSepPair ff m a b with
  | none => simp [hg] at h
  | some sp =>
    simp only [hg, Option.some.injEq] at h
    subst h
    obtain ⟨h1, h2⟩ := getSepPair_ok ff m hm a b sp hg
    apply structOK_upsert m hm
    · simp only [(addSep_src_tgt _ _ _ _ _).1, (addSep_src_tgt _ _ _ _ _).2]; exact h1
    · simp only [(addSep_src_tgt _ _ _ _ _).1, (addSep_src_tgt _ _ _ _ _).2]; exact h2

theorem structOK_checkSepPair (m : SepMatrix) (hm : StructOK m) (a b : Nat) :
    StructOK (checkSepPair m a b).1 := by
  unfold checkSepPair
  split
  · exact hm
  · simp only
    cases hl : m.lookup (key a b) with
    | none => exact hm
    | some sp =>
      have := hm.keys _ (lookupL_mem _ _ _ hl)
      exact structOK_upsert m hm _ _ this.1 this.2

theorem structOK_step (ff : Bool) (m : SepMatrix) (hm : StructOK m) (op : Op) : StructOK (op.step ff m).1 := by
  cases op with
  | addSep a b gt sd st g =>
    simp only [Op.step]
    cases h : m.addSep ff a b gt sd st g with
    | none => exact hm
    | some m' => exact structOK_addSep ff m hm a b gt sd st g m' h
  | addFixedRelativeSep a b dx dy =>
    simp only [Op.step]
    cases h : m.addFixedRelativeSep ff a b dx dy with
    | none => exact hm
    | some m' => exact structOK_addFixed ff m hm a b dx dy m' h
  | setCardinalOP a b d =>
    simp only [Op.step, SepMatrix.setCardinalOP]
    cases h : m.addSep ff a b .bdry (cardinalDirToSepDir d) .ineq SZ.zero with
    | none => exact hm
    | some m' => exact structOK_addSep ff m hm _ _ _ _ _ _ m' h
  | hAlign a b =>
    simp only [Op.step, SepMatrix.hAlign]
    cases h : m.addSep ff a b .centre .down .eq SZ.zero with
    | none => exact hm
    | some m' => exact structOK_addSep ff m hm _ _ _ _ _ _ m' h
  | vAlign a b =>
    simp only [Op.step, SepMatrix.vAlign]
    cases h : m.addSep ff a b .centre .right .eq SZ.zero with
    | none => exact hm
    | some m' => exact structOK_addSep ff m hm _ _ _ _ _ _ m' h
  | alignByEquatedCoord a b d =>
    cases d <;> simp only [Op.step, SepMatrix.alignByEquatedCoord, SepMatrix.hAlign, SepMatrix.vAlign]
    · cases h : m.addSep ff a b .centre .right .eq SZ.zero with
      | none => exact hm
      | some m' => exact structOK_addSep ff m hm _ _ _ _ _ _ m' h
    · cases h : m.addSep ff a b .centre .down .eq SZ.zero with
      | none => exact hm
      | some m' => exact structOK_addSep ff m hm _ _ _ _ _ _ m' h
  | free a b =>
    simp only [Op.step, SepMatrix.free]
    split
    · exact hm
    · exact structOK_filter m hm _
  | removeNode a => exact structOK_filter m hm _
  | clear => exact ⟨List.Pairwise.nil, fun e he => by cases he⟩
  | transform tf => exact structOK_mapPairs m hm _ fun _ sp => transform_src_tgt tf sp
  | transformClosed tf ids =>
    show StructOK (m.mapPairs fun k sp => if ids.contains k.1 && ids.contains k.2 then sp.transform tf else sp)
    apply structOK_mapPairs m hm
    intro k sp
    split
    · exact transform_src_tgt tf sp
    · exact ⟨rfl, rfl⟩
  | transformOpen tf ids =>
    show StructOK (m.mapPairs fun k sp => if ids.contains k.1 || ids.contains k.2 then sp.transform tf else sp)
    apply structOK_mapPairs m hm
    intro k sp
    split
    · exact transform_src_tgt tf sp
    · exact ⟨rfl, rfl⟩
  | roundGapsUpward =>
    have := structOK_mapPairs m hm (fun _ sp => sp.roundGapsUpAbs) fun _ _ => ⟨rfl, rfl⟩
    exact ⟨this.sorted, this.keys⟩
  | setExtraBdryGap e => exact ⟨hm.sorted, hm.keys⟩
  | getCardinalDir a b =>
    have := structOK_checkSepPair m hm a b
    simp only [Op.step, SepMatrix.getCardinalDir]
    generalize checkSepPair m a b = r at this
    obtain ⟨m', o⟩ := r
    cases o with
    | none => exact this
    | some sp =>
      dsimp only
      split <;> exact this
  | areHAligned a b =>
    have := structOK_checkSepPair m hm a b
    simp only [Op.step, SepMatrix.areHAligned]
    generalize checkSepPair m a b = r at this
    obtain ⟨m', o⟩ := r
    cases o <;> exact this
  | areVAligned a b =>
    have := structOK_checkSepPair m hm a b
    simp only [Op.step, SepMatrix.areVAligned]
    generalize checkSepPair m a b = r at this
    obtain ⟨m', o⟩ := r
    cases o <;> exact this

/-- every matrix reachable from the empty one by an operation history has the structural invariant -/
theorem reachable_structOK' (ff : Bool) (ops : List Op) : StructOK (runOps ff .empty ops) := by
  have : ∀ (ops : List Op) (m : SepMatrix), StructOK m → StructOK (runOps ff m ops) := by
    intro ops
    induction ops with
    | nil => intro m hm; exact hm
    | cons op rest ih => intro m hm; exact ih _ (structOK_step ff m hm op)
  exact this ops _ ⟨List.Pairwise.nil, fun e he => by cases he⟩

/-- the values-are-multiples part of `MatrixOK` -/
def ValuesOK (m : SepMatrix) : Prop :=
  ∀ e ∈ m.pairs, IsMultipleOfPrec e.2.tglfPrecision e.2.xgap ∧ IsMultipleOfPrec e.2.tglfPrecision e.2.ygap ∧
    RatMultiple e.2.tglfPrecision m.extraBdryGap

theorem matrixOK_of_structOK (m : SepMatrix) (hs : StructOK m) (hv : ValuesOK m) : MatrixOK m :=
  ⟨nodup_of_sorted m.pairs hs.sorted, fun e he =>
    ⟨(hs.keys e he).1, (hs.keys e he).2, (hv e he).1, (hv e he).2.1, (hv e he).2.2⟩⟩

end AdaptaVerif.Lemmas.Sep
