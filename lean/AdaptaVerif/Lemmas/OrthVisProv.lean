/-
Lemmas about `Model/OrthVis.lean`, part 6 (core Lean only): sorting keeps membership; where the vertices of
a merged line come from (connector end point vertices: from the candidate segment of that end point).
-/
import AdaptaVerif.Lemmas.OrthVisCover
import AdaptaVerif.Lemmas.OrthVisOrder

namespace AdaptaVerif.Lemmas.OrthVis
open AdaptaVerif.Model.OrthVis

/-! ### membership is kept by sorting -/

theorem LV.eq_of_not_lt {a b : LV} (h1 : a.lt b = false) (h2 : b.lt a = false) : a = b := by
  rcases a with ⟨ta, ka⟩
  rcases b with ⟨tb, kb⟩
  unfold LV.lt at h1 h2
  simp only [Bool.or_eq_false_iff, decide_eq_false_iff_not, Bool.and_eq_false_iff] at h1 h2
  have ht : ta = tb := by grind
  subst ht
  cases ka <;> cases kb <;> simp_all
  omega

theorem mem_insertLV_self (a : LV) (l : List LV) : a ∈ insertLV a l := by
  induction l with
  | nil => simp [insertLV]
  | cons b r ih =>
    unfold insertLV
    split
    · simp
    · split
      · simp [ih]
      · rename_i h1 h2
        have : a = b := LV.eq_of_not_lt (by simpa using h1) (by simpa using h2)
        simp [this]

theorem mem_insertLV_of_mem {a x : LV} {l : List LV} (h : x ∈ l) : x ∈ insertLV a l := by
  induction l with
  | nil => simp at h
  | cons b r ih =>
    unfold insertLV
    split
    · simp [h]
    · split
      · rcases List.mem_cons.mp h with rfl | h
        · simp
        · simp [ih h]
      · exact h

theorem mem_sortLV_of_mem {x : LV} {l : List LV} (h : x ∈ l) : x ∈ sortLV l := by
  induction l with
  | nil => simp at h
  | cons a r ih =>
    show x ∈ insertLV a (sortLV r)
    rcases List.mem_cons.mp h with rfl | h
    · exact mem_insertLV_self _ _
    · exact mem_insertLV_of_mem (ih h)

theorem mem_toBPs_of_mem {dirs : VK → Bool × Bool} {l : List LV} {q : LV} (h : q ∈ l) :
    (⟨q.t, q.k, (dirs q.k).1, (dirs q.k).2⟩ : BP) ∈ toBPs dirs l := by
  unfold toBPs
  exact List.mem_map.mpr ⟨q, mem_sortLV_of_mem h, rfl⟩

/-! ### what the crossing phase adds (core-only copies of the lemmas of OrthVisLines) -/

theorem mem_ensure' {vs : List LV} {t : Rat} {q : LV} (h : q ∈ ensure vs t) : q ∈ vs ∨ q = ⟨t, .node⟩ := by
  unfold ensure at h
  split at h
  · exact Or.inl h
  · rcases List.mem_append.mp h with h | h
    · exact Or.inl h
    · simp only [List.mem_singleton] at h; exact Or.inr h

theorem mem_ensureFin' {inf : Rat} {vs : List LV} {t : Rat} {q : LV} (h : q ∈ ensureFin inf vs t) :
    q ∈ vs ∨ q = ⟨t, .node⟩ := by
  unfold ensureFin at h
  split at h
  · exact Or.inl h
  · exact mem_ensure' h

theorem mem_foldl_ensure' {ts : List Rat} {vs : List LV} {q : LV} (h : q ∈ ts.foldl ensure vs) :
    q ∈ vs ∨ q.k = .node := by
  induction ts generalizing vs with
  | nil => exact Or.inl h
  | cons t r ih =>
    rcases ih h with h | h
    · rcases mem_ensure' h with h | h
      · exact Or.inl h
      · exact Or.inr (by rw [h])
    · exact Or.inr h

/-! ### provenance of connector end point vertices -/

theorem foldl_merge_vs (ov : List Seg) (m : Seg) (q : LV) (h : q ∈ (ov.foldl Seg.merge m).vs) :
    q ∈ m.vs ∨ ∃ c ∈ ov, q ∈ c.vs := by
  induction ov generalizing m with
  | nil => exact Or.inl h
  | cons c r ih =>
    simp only [List.foldl_cons] at h
    rcases ih (m.merge c) h with h | ⟨c', hc', h⟩
    · unfold Seg.merge at h
      simp only at h
      rcases List.mem_append.mp h with h | h
      · exact Or.inl h
      · exact Or.inr ⟨c, by simp, h⟩
    · exact Or.inr ⟨c', by simp [hc'], h⟩

/-- every vertex of a merged line comes from a candidate segment at the same position -/
theorem mergeAll_vs_from_raw (raw : List Seg) : ∀ m ∈ mergeAll raw, ∀ q ∈ m.vs, ∃ r ∈ raw, r.p = m.p ∧ q ∈ r.vs := by
  unfold mergeAll
  suffices H : ∀ (acc : List Seg), (∀ m ∈ acc, ∀ q ∈ m.vs, ∃ r ∈ raw, r.p = m.p ∧ q ∈ r.vs) →
      ∀ (todo : List Seg), (∀ r ∈ todo, r ∈ raw) →
      ∀ m ∈ todo.foldl insertSeg acc, ∀ q ∈ m.vs, ∃ r ∈ raw, r.p = m.p ∧ q ∈ r.vs from
    H [] (by simp) raw (fun r hr => hr)
  intro acc hacc todo
  induction todo generalizing acc with
  | nil => intro _ m hm q hq; exact hacc m hm q hq
  | cons s rest ih =>
    intro htodo
    simp only [List.foldl_cons]
    apply ih (insertSeg acc s) ?_ (fun r hr => htodo r (by simp [hr]))
    intro m hm q hq
    unfold insertSeg at hm
    rcases List.mem_append.mp hm with hm | hm
    · exact hacc m (List.mem_filter.mp hm).1 q hq
    · simp only [List.mem_singleton] at hm
      subst hm
      have hp := foldl_merge_p (acc.filter fun c => c.overlaps s) s
      rcases foldl_merge_vs _ _ q hq with h | ⟨c, hc, h⟩
      · exact ⟨s, htodo s (by simp), hp.symm, h⟩
      · obtain ⟨hc1, hc2⟩ := List.mem_filter.mp hc
        obtain ⟨r, hr, hrp, hrq⟩ := hacc c hc1 q h
        exact ⟨r, hr, by rw [hrp, hp]; exact overlaps_p hc2, hrq⟩

/-- a connector end point vertex on a horizontal line of the model is the vertex of a live end point
    lying on that line -/
theorem conn_vertex_provenance (s : Scene) (p : Seg × List LV) (hp : p ∈ s.lines.hs) (t : Rat) (k : Nat)
    (hq : (⟨t, .conn k⟩ : LV) ∈ p.2) : ∃ c, s.fixDirs[k]? = some c ∧ c.x = t ∧ c.y = p.1.p := by
  obtain ⟨hm, e⟩ := lines_hs_form s p hp
  rw [e] at hq
  -- the crossing phase only adds dummy vertices
  have hin : (⟨t, .conn k⟩ : LV) ∈ p.1.vs := by
    unfold hVerts at hq
    rcases mem_foldl_ensure' hq with hq | hq
    · rcases mem_ensureFin' hq with hq | hq
      · rcases mem_ensureFin' hq with hq | hq
        · unfold hBase at hq
          rcases List.mem_append.mp hq with hq | hq
          · exact hq
          · obtain ⟨_, _, h⟩ := List.mem_map.mp hq; cases h
        · cases hq
      · cases hq
    · simp at hq
  obtain ⟨r, hr, hrp, hrq⟩ := mergeAll_vs_from_raw _ p.1 hm _ hin
  unfold rawH at hr
  rcases List.mem_append.mp hr with hr | hr
  · -- rectangle sides carry dummy vertices only
    obtain ⟨⟨v, i⟩, _, hr⟩ := List.mem_flatMap.mp hr
    exfalso
    simp only at hr
    have hside : ∀ y, r ∈ sideSegsH s.lo s.hi s.rects i v y → False := by
      intro y hr
      unfold sideSegsH at hr
      simp only at hr
      split at hr
      · simp only [List.mem_singleton] at hr; subst hr; simp at hrq
      · rcases List.mem_append.mp hr with hr | hr
        · split at hr
          · simp only [List.mem_singleton] at hr; subst hr; simp at hrq
          · simp at hr
        · split at hr
          · simp only [List.mem_singleton] at hr; subst hr; simp at hrq
          · simp at hr
    rcases List.mem_append.mp hr with hr | hr
    · exact hside _ hr
    · exact hside _ hr
  · obtain ⟨⟨c, i⟩, hci, rfl⟩ := List.mem_map.mp hr
    have hget := List.mem_zipIdx_iff_getElem?.mp (List.mem_filter.mp hci).1
    simp only at hget
    simp only [connSegH] at hrq hrp
    rcases List.mem_cons.mp hrq with h | h
    · injection h with h1 h2
      injection h2 with h3
      subst h3
      exact ⟨c, hget, h1.symm, hrp⟩
    · split at h
      · simp at h
      · simp at h

end AdaptaVerif.Lemmas.OrthVis
