/-
Lemmas about the model of `Tree::symmetricLayout`, part 8: the two `std::sort` calls.  The model sorts with an
insertion sort; the C++ uses `std::sort`, whose only contract is "the result is a permutation that is sorted
w.r.t. the comparator".  Both comparators are strict total orders on the elements they are applied to (plain
string order; `classLt` = lexicographic order on (±breadth, ±depth, string) with pairwise different strings),
so *every* sorted permutation equals the model's result.
-/
import AdaptaVerif.Lemmas.TreeLayoutPerm
import Mathlib.Data.String.Basic
import Mathlib.Data.Prod.Lex
import Mathlib.Tactic.Linarith
namespace AdaptaVerif.Lemmas.TreeLayout
open AdaptaVerif.Model.TreeLayout

section generic
variable {α κ : Type} [LinearOrder κ] (key : α → κ) (lt : α → α → Bool)

theorem insertBy_sorted (hlt : ∀ a b, lt a b = true ↔ key a < key b) (x : α) :
    ∀ l : List α, l.Pairwise (fun a b => key a ≤ key b) → (insertBy lt x l).Pairwise (fun a b => key a ≤ key b)
  | [], _ => by simp [insertBy]
  | b :: bs, h => by
    rw [List.pairwise_cons] at h
    unfold insertBy
    split
    · rename_i hxb
      have hxb' := (hlt x b).1 hxb
      refine List.Pairwise.cons ?_ (List.Pairwise.cons h.1 h.2)
      intro y hy
      rcases List.mem_cons.1 hy with rfl | hy
      · exact le_of_lt hxb'
      · exact le_trans (le_of_lt hxb') (h.1 y hy)
    · rename_i hxb
      have hxb' : key b ≤ key x := not_lt.1 (fun hh => hxb ((hlt x b).2 hh))
      refine List.Pairwise.cons ?_ (insertBy_sorted hlt x bs h.2)
      intro y hy
      rcases List.mem_cons.1 ((insertBy_perm lt x bs).mem_iff.1 hy) with rfl | hy
      · exact hxb'
      · exact h.1 y hy

theorem isort_sorted (hlt : ∀ a b, lt a b = true ↔ key a < key b) :
    ∀ l : List α, (isort lt l).Pairwise (fun a b => key a ≤ key b)
  | [] => List.Pairwise.nil
  | a :: l => insertBy_sorted key lt hlt a _ (isort_sorted hlt l)

/-- any permutation of `l` that is sorted in the sense of `std::sort` (no later element is `lt` an earlier
    one) is the model's `isort lt l`, provided `lt` is the strict order of an injective key -/
theorem sorted_perm_unique (hlt : ∀ a b, lt a b = true ↔ key a < key b) (hinj : Function.Injective key)
    (l out : List α) (hperm : out.Perm l) (hsorted : out.Pairwise (fun a b => lt b a = false)) :
    out = isort lt l := by
  refine List.Perm.eq_of_pairwise (le := fun a b => key a ≤ key b) ?_ ?_ (isort_sorted key lt hlt l)
    (hperm.trans (isort_perm lt l).symm)
  · intro a b _ _ h1 h2; exact hinj (le_antisymm h1 h2)
  · refine hsorted.imp ?_
    intro a b h
    exact not_lt.1 (fun hh => by rw [(hlt b a).2 hh] at h; cases h)

end generic

/-! ### the sort of the tuple strings of a level -/

theorem sortStr_unique (l out : List String) (hperm : out.Perm l)
    (hsorted : out.Pairwise (fun a b => ¬ b < a)) : out = sortStr l := by
  refine sorted_perm_unique (key := id) (fun a b => decide (a < b)) (fun a b => by simp) (fun _ _ h => h)
    l out hperm (hsorted.imp (fun h => by simpa using h))

/-! ### the sort of the isomorphism classes -/

/-- sort key of a class string: (∓breadth, ∓depth, string), lexicographic -/
def ckey (cv : Bool) (rep : String → Nat × Nat) (s : String) : ℤ ×ₗ (ℤ ×ₗ String) :=
  toLex (if cv then -((rep s).1 : ℤ) else ((rep s).1 : ℤ),
    toLex (if cv then -((rep s).2 : ℤ) else ((rep s).2 : ℤ), s))

theorem ckey_injective (cv : Bool) (rep : String → Nat × Nat) : Function.Injective (ckey cv rep) := by
  intro a b h
  have := congrArg (fun k => (ofLex (ofLex k).2).2) h
  simpa [ckey] using this

theorem classLt_iff (cv : Bool) (rep : String → Nat × Nat) (a b : String) :
    classLt cv rep a b = true ↔ ckey cv rep a < ckey cv rep b := by
  unfold classLt ckey
  rcases rep a with ⟨ba, da⟩
  rcases rep b with ⟨bb, db⟩
  simp only [Prod.Lex.toLex_lt_toLex, gt_iff_lt]
  cases cv
  · simp only [Bool.false_eq_true, if_false, Bool.not_false, Nat.cast_lt, Nat.cast_inj]
    by_cases h1 : bb < ba
    · simp only [h1, if_true, Bool.false_eq_true, false_iff]
      rintro (h | ⟨h, _⟩) <;> omega
    · by_cases h2 : ba < bb
      · simp [h1, h2]
      · have e : ba = bb := by omega
        subst e
        simp only [lt_self_iff_false, if_false, true_and, false_or]
        by_cases h3 : db < da
        · simp only [h3, if_true, Bool.false_eq_true, false_iff]
          rintro (h | ⟨h, _⟩) <;> omega
        · by_cases h4 : da < db
          · simp [h3, h4]
          · have e : da = db := by omega
            subst e
            simp
  · simp only [if_true, Bool.not_true, neg_lt_neg_iff, neg_inj, Nat.cast_lt, Nat.cast_inj]
    by_cases h1 : bb < ba
    · simp [h1]
    · by_cases h2 : ba < bb
      · simp only [h1, h2, if_false, if_true, Bool.false_eq_true, false_iff]
        rintro (h | ⟨h, _⟩) <;> omega
      · have e : ba = bb := by omega
        subst e
        simp only [lt_self_iff_false, if_false, true_and, false_or]
        by_cases h3 : db < da
        · simp [h3]
        · by_cases h4 : da < db
          · simp only [h3, h4, if_false, if_true, Bool.false_eq_true, false_iff]
            rintro (h | ⟨h, _⟩) <;> omega
          · have e : da = db := by omega
            subst e
            simp

/-- Whatever `std::sort` returns for the class strings — any permutation `out` of them in which no later
    string is `classLt` an earlier one — is the sequence the model computes. -/
theorem class_sort_unique (cv : Bool) (rep : String → Nat × Nat) (l out : List String) (hperm : out.Perm l)
    (hsorted : out.Pairwise (fun a b => classLt cv rep b a = false)) :
    out = isort (classLt cv rep) l :=
  sorted_perm_unique (ckey cv rep) (classLt cv rep) (classLt_iff cv rep) (ckey_injective cv rep) l out hperm hsorted

end AdaptaVerif.Lemmas.TreeLayout
