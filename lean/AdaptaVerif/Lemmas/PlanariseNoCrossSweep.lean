/-
Threading the piece geometry `Pc` (Lemmas/PlanariseNoCross.lean) through one x-part and the whole sweep;
`piece_within`, `no_pieces_cross`.
-/
import AdaptaVerif.Lemmas.PlanariseNoCross
namespace AdaptaVerif.Lemmas.Planarise
open AdaptaVerif.Model.Planarise

variable {S : List Seg} {st : SwState}

/-- inside a part: piece geometry, plus where the end node of a vertical's OPEN event of this part can be -/
structure J3 (S : List Seg) (P0 : Nat → Prop) (X : Rat) (oh0 pre : List Nat) (st : SwState) : Prop where
  pc : Pc S st
  exV : ∀ (k : Nat) (sk : Seg) (ov : Ev), S[k]? = some sk → sk.ori = .V → sk.cc = X → st.evs[2 * k]? = some ov →
    ov.endpt.p.y = sk.lo ∨ ∃ (i' : Nat) (si' : Seg), S[i']? = some si' ∧ si'.ori = .H ∧ 2 * i' ∈ pre ∧ 2 * i' ∈ oh0 ∧
      ov.endpt.p.y = si'.cc

section
variable {P0 : Nat → Prop} {X : Rat} {part oh0 : List Nat} {st0 : SwState} {cross0 : List Pt}
  {pre post : List Nat}

theorem J3.mono {st' : SwState} (h : J3 S P0 X oh0 pre st) (x : Nat) (hpc : Pc S st')
    (hev : ∀ (y : Nat) (e : Ev), st'.evs[y]? = some e → ∃ e0 : Ev, st.evs[y]? = some e0 ∧ e.endpt = e0.endpt) :
    J3 S P0 X oh0 (pre ++ [x]) st' := by
  refine ⟨hpc, ?_⟩
  intro k sk ov hs hV hX ho
  obtain ⟨e0, h0, hend⟩ := hev _ _ ho
  rw [hend]
  rcases h.exV k sk e0 hs hV hX h0 with a | ⟨i', si', a, b, c, d, f⟩
  · exact Or.inl a
  · exact Or.inr ⟨i', si', a, b, List.mem_append_left _ c, d, f⟩

theorem J3.simple {st' : SwState} (h : J3 S P0 X oh0 pre st) (x : Nat) (h1 : st'.segs = st.segs)
    (h2 : st'.evs = st.evs) (h3 : st'.cross = st.cross) : J3 S P0 X oh0 (pre ++ [x]) st' :=
  h.mono x (h.pc.same h1 h2 h3) (fun y e hy => ⟨e, by rw [← h2]; exact hy, rfl⟩)

theorem J3.setTy {st' : SwState} (h : J3 S P0 X oh0 pre st) (x : Nat) {y : Nat} {eo : Ev}
    (hy : st.evs[y]? = some eo) (ty : EvType) (h1 : st'.segs = st.segs)
    (h2 : st'.evs = st.evs.set y { eo with ty := ty }) (h3 : st'.cross = st.cross) :
    J3 S P0 X oh0 (pre ++ [x]) st' := by
  refine h.mono x (h.pc.setTy hy ty h1 h2 h3) ?_
  intro z e hz
  rw [h2, List.getElem?_set] at hz
  split at hz
  · rename_i hyz; subst hyz
    split at hz
    · cases hz; exact ⟨eo, hy, rfl⟩
    · cases hz
  · exact ⟨e, hz, rfl⟩

theorem J3_openH (hG : Good S) (hC : PartCtx S P0 X part) (hI0 : Inv S P0 st0) {i : Nat} {si : Seg}
    (hsc : SC (akey st0.evs) pre post (2 * i) st0.openH part) (hs : S[i]? = some si) (hH : si.ori = .H)
    (hin : 2 * i ∈ part) (hJ : J S P0 X part st0.openH cross0 pre st) (hJ3 : J3 S P0 X st0.openH pre st) :
    J3 S P0 X st0.openH (pre ++ [2 * i]) (processEvent st (2 * i)) := by
  have hX : si.on.p.x = X := (hC.hpart i si hs).1.1 hin
  have hnP0 : ¬ P0 (2 * i) := by rw [(hC.hP0 i si hs).1, hX]; exact Rat.lt_irrefl
  have hnP : ¬ (P0 (2 * i) ∨ (2 * i ∈ pre ∧ 2 * i ∈ part)) := by
    rintro (h | h)
    · exact hnP0 h
    · exact hsc.npre h.1
  obtain ⟨eo, heo, hpe⟩ := pe_openH hJ.inv hs hH hnP
  rw [hpe]
  exact hJ3.setTy (2 * i) heo .sustain rfl rfl rfl

theorem J3_sus (hG : Good S) (hC : PartCtx S P0 X part) (hI0 : Inv S P0 st0) {i : Nat} {si : Seg}
    (hsc : SC (akey st0.evs) pre post (2 * i) st0.openH part) (hs : S[i]? = some si) (hH : si.ori = .H)
    (hoh : 2 * i ∈ st0.openH) (hJ : J S P0 X part st0.openH cross0 pre st) (hJ2 : J2 S P0 X pre st)
    (hJ3 : J3 S P0 X st0.openH pre st) :
    J3 S P0 X st0.openH (pre ++ [2 * i]) (processEvent st (2 * i)) := by
  obtain ⟨i', si', hs', hi', _, hp0, hnp1⟩ := (hI0.oh _).1 hoh
  have : i' = i := by omega
  subst this; rw [hs] at hs'; cases hs'
  have shi := hG.segH hs hH
  have hKi : akey st0.evs (2 * i') = si.cc + 1 / 4 := key_Hsus hG hI0 hs hH hp0
  have hne : ∀ k sk, S[k]? = some sk → sk.ori = .V → 2 * i' ≠ 2 * k ∧ 2 * i' ≠ 2 * k + 1 := by
    intro k sk hsk hV; have := H_not_V hs hH hsk hV; omega
  have hXhi : X ≤ si.hi := by
    have := fun h => hnp1 ((hC.hP0 i' si hs).2.2 h)
    rw [shi.2.2.2.2.1] at this; exact Rat.not_lt.1 this
  have hloX : si.lo < X := by
    have := (hC.hP0 i' si hs).1.1 hp0; rw [shi.2.2.2.1] at this; exact this
  obtain ⟨ev, hev, hpe⟩ := pe_sustain hJ.inv hs hH (Or.inl hp0)
  rw [hpe]
  cases hov : st.openV with
  | none => exact hJ3.simple (2 * i') rfl rfl rfl
  | some j =>
    obtain ⟨k, sk, hsk, hVk, hXk, rfl, hk_pre, hk1_npre⟩ := hJ.ov2 j hov
    obtain ⟨_, hc0, hc1, hk0, hk1, _, _⟩ := Vfacts hG hC hI0 hsk hVk hXk
    obtain ⟨ap1, ap2⟩ := apart_V_H hG hs hsk hH hVk
    have hpost : 2 * k + 1 ∈ post := by
      rcases (hsc.mem (2 * k + 1)).2 (Or.inr hc1) with r | r | r
      · exact absurd r hk1_npre
      · exact absurd r.symm (hne k sk hsk hVk).2
      · exact r
    have hlo : sk.lo < si.cc := by
      have := hsc.k1 _ hk_pre; rw [hk0, hKi] at this; unfold Apart at ap1; grind
    have hhi : si.cc < sk.hi := by
      have := hsc.k2 _ hpost; rw [hKi, hk1] at this; unfold Apart at ap2; grind
    obtain ⟨ov, _, hovv, _⟩ := hJ.inv.ev k sk hsk
    simp only [hovv]
    have hXe : ev.endpt.p.x ≤ sk.cc := by
      rw [hXk]
      rcases hJ2.ex i' si ev hs hH hev with a | ⟨k', sk', a, b, c, d⟩ | ⟨k', sk', a, b, c, d, f⟩
      · rw [a]; exact Rat.le_of_lt hloX
      · have sv' := hG.segV a b
        have := (hC.hP0 k' sk' a).1.1 c
        rw [sv'.2.1] at this; rw [d]; exact Rat.le_of_lt this
      · exact absurd f hsc.npre
    have hYe : ov.endpt.p.y ≤ si.cc := by
      rcases hJ3.exV k sk ov hsk hVk hXk hovv with a | ⟨i2, si2, a, b, c, d, f⟩
      · rw [a]; exact Rat.le_of_lt hlo
      · obtain ⟨i3, si3, hs3, hi3, _, hp3, _⟩ := (hI0.oh _).1 d
        have : i3 = i2 := by omega
        subst this; rw [a] at hs3; cases hs3
        have hk2 := key_Hsus hG hI0 a b hp3
        have := hsc.k1 _ c
        rw [hk2, hKi] at this; rw [f]; grind
    have hpc := pc_cross hG hJ.inv hJ2.tr hJ3.pc hs hH hsk hVk hev hovv hXe (by rw [hXk]; exact hloX)
      (by rw [hXk]; exact hXhi) hYe hlo hhi
    refine ⟨hpc, ?_⟩
    intro k2 sk2 o2 hs2 hV2 hX2 ho2
    obtain ⟨so, sv, _, _, _, hecc, hovcc, F⟩ := cross_facts hJ.inv hs hH hsk hVk hev hovv
    rcases F.ev_inv k2 o2 ho2 with ⟨rfl, _, a3⟩ | ⟨rfl, _, _⟩ | ⟨a1, a2, a3⟩
    · exact Or.inr ⟨i', si, hs, hH, by simp, hoh, by rw [a3]; simp only; exact hecc⟩
    · rw [hs] at hs2; cases hs2; rw [hH] at hV2; cases hV2
    · rcases hJ3.exV k2 sk2 o2 hs2 hV2 hX2 a3 with a | ⟨i2, si2, a, b, c, d, f⟩
      · exact Or.inl a
      · exact Or.inr ⟨i2, si2, a, b, List.mem_append_left _ c, d, f⟩

theorem part_sweep3 (hG : Good S) (hC : PartCtx S P0 X part) (hnd : part.Nodup) (hI0 : Inv S P0 st0)
    (hT0 : Tr S st0) (hE0 : ExH S P0 X [] st0) (hP0 : Pc S st0) :
    ∃ L, J2 S P0 X L (sweepPart st0 part) ∧ J3 S P0 X st0.openH L (sweepPart st0 part) := by
  unfold sweepPart
  simp only
  generalize hL : stdSort (cmpEv st0.evs) (st0.openH ++ part) = L
  have hperm : L.Perm (st0.openH ++ part) := hL ▸ stdSort_perm _ _
  have hmem : ∀ x, x ∈ L ↔ x ∈ st0.openH ∨ x ∈ part := fun x => by rw [hperm.mem_iff, List.mem_append]
  have hdisj : ∀ x, x ∈ st0.openH → x ∉ part := by
    intro x hx hp
    obtain ⟨i, s, hs, rfl, _, hp0, _⟩ := (hI0.oh _).1 hx
    have h1 := (hC.hpart i s hs).1.1 hp
    have h2 := (hC.hP0 i s hs).1.1 hp0
    rw [h1] at h2; exact Rat.lt_irrefl h2
  have hLnd : L.Nodup := by
    rw [hperm.nodup_iff, List.nodup_append]
    refine ⟨hI0.ohs.imp (fun h => Nat.ne_of_lt h), hnd, ?_⟩
    intro a ha b hb hab; subst hab; exact hdisj a ha hb
  have hsorted : L.Pairwise (fun a b => akey st0.evs a ≤ akey st0.evs b) := by
    rw [← hL]
    apply stdSort_sorted_key
    intro a ha b hb
    obtain ⟨ea, sa, hea, hsa, hya⟩ := snap_y hG hC hI0 (List.mem_append.1 ha)
    obtain ⟨eb, sb, heb, hsb, hyb⟩ := snap_y hG hC hI0 (List.mem_append.1 hb)
    refine cmpEv_key _ a b ea eb hea heb ?_
    rcases hya with h | h <;> rcases hyb with h' | h' <;> rw [h, h'] <;>
      exact hG.sepY sa hsa sb hsb _ (by simp) _ (by simp)
  -- the state before the first event
  have hI1 : Inv S P0 { st0 with openV := none } :=
    hI0.transfer rfl rfl (fun _ => Iff.rfl) hI0.oh hI0.ohs
  have hJ0 : J S P0 X part st0.openH (st0.cross.map (·.p)) [] { st0 with openV := none } := by
    refine ⟨hI1.congr (fun x => by simp), ?_, ?_, ?_⟩
    · intro k sk _ _ _ h; simp at h
    · intro j hj; simp at hj
    · intro p; simp
  -- induction along the sorted list
  have hJ20 : J2 S P0 X [] { st0 with openV := none } :=
    ⟨hT0.same rfl rfl rfl, fun i si e hs hH he => hE0 i si e hs hH he⟩
  have hJ30 : J3 S P0 X st0.openH [] { st0 with openV := none } := by
    refine ⟨hP0.same rfl rfl rfl, ?_⟩
    intro k sk ov hs hV hX ho
    have sv := hG.segV hs hV
    obtain ⟨eo, _, h0, _, _, _, _, _, _, _, _, _, h10⟩ := hI0.ev k sk hs
    simp only at ho
    rw [ho] at h0; cases h0
    have hn : ¬ P0 (2 * k) := by
      rw [(hC.hP0 k sk hs).1, sv.2.1, hX]; exact Rat.lt_irrefl
    exact Or.inl ((h10 hV).2 hn)
  have key : ∀ (post pre : List Nat) (st : SwState), pre ++ post = L →
      J S P0 X part st0.openH (st0.cross.map (·.p)) pre st ∧ J2 S P0 X pre st ∧ J3 S P0 X st0.openH pre st →
      J S P0 X part st0.openH (st0.cross.map (·.p)) L (post.foldl processEvent st) ∧
      J2 S P0 X L (post.foldl processEvent st) ∧ J3 S P0 X st0.openH L (post.foldl processEvent st) := by
    intro post
    induction post with
    | nil => intro pre st h hJ; simp at h; subst h; simpa using hJ
    | cons e post ih =>
      intro pre st h hJJ
      obtain ⟨hJ, hJ2, hJ3⟩ := hJJ
      rw [List.foldl_cons]
      refine ih (pre ++ [e]) _ (by simp [h]) ?_
      -- position facts
      have hnd' := hLnd; rw [← h] at hnd'
      have hso := hsorted; rw [← h] at hso
      rw [List.nodup_append] at hnd'
      rw [List.pairwise_append] at hso
      have hnc := List.nodup_cons.1 hnd'.2.1
      have hsc : SC (akey st0.evs) pre post e st0.openH part := by
        refine ⟨?_, ?_, hnc.1, ?_, ?_, ?_, ?_⟩
        · intro x; rw [← hmem, ← h]; simp
        · intro hp; exact hnd'.2.2 e hp e (by simp) rfl
        · intro x hx hx'; exact hnd'.2.2 x hx x (by simp [hx']) rfl
        · intro a ha; exact hso.2.2 a ha e (by simp)
        · intro b hb; exact (List.pairwise_cons.1 hso.2.1).1 b hb
        · intro a ha b hb; exact hso.2.2 a ha b (by simp [hb])
      have heL : e ∈ st0.openH ∨ e ∈ part := (hmem e).1 (by rw [← h]; simp)
      rcases heL with he | he
      · obtain ⟨i, s, hs, rfl, hH, hp0, _⟩ := (hI0.oh _).1 he
        exact ⟨J_sus hG hC hI0 hsc hs hH he hp0 hJ, J2_sus hG hC hI0 hsc hs hH he hJ hJ2,
          J3_sus hG hC hI0 hsc hs hH he hJ hJ2 hJ3⟩
      · have hlt := hC.hlt e he
        have hj : e / 2 < S.length := by omega
        have hs : S[e / 2]? = some S[e / 2] := List.getElem?_eq_getElem hj
        rcases Nat.mod_two_eq_zero_or_one e with hpar | hpar
        · have he2 : e = 2 * (e / 2) := by omega
          rw [he2] at hsc he ⊢
          rcases hG.shape _ (List.getElem_mem hj) with sh | sv
          · exact ⟨J_openH hG hC hI0 hsc hs sh.1 he hJ, J2_openH hG hC hI0 hsc hs sh.1 he hJ hJ2,
              J3_openH hG hC hI0 hsc hs sh.1 he hJ hJ3⟩
          · exact ⟨J_openV hG hC hI0 hsc hs sv.1 he hJ, by rw [pe_openV hJ.inv hs sv.1]; exact hJ2.simple _ rfl rfl rfl,
              by rw [pe_openV hJ.inv hs sv.1]; exact hJ3.simple _ rfl rfl rfl⟩
        · have he2 : e = 2 * (e / 2) + 1 := by omega
          rw [he2] at hsc he ⊢
          rcases hG.shape _ (List.getElem_mem hj) with sh | sv
          · exact ⟨J_closeH hG hC hI0 hsc hs sh.1 he hJ, by rw [pe_close hJ.inv hs, if_pos sh.1]; exact hJ2.simple _ rfl rfl rfl,
              by rw [pe_close hJ.inv hs, if_pos sh.1]; exact hJ3.simple _ rfl rfl rfl⟩
          · exact ⟨J_closeV hG hC hI0 hsc hs sv.1 he hJ, by rw [pe_close hJ.inv hs, if_neg (by rw [sv.1]; simp)]; exact hJ2.simple _ rfl rfl rfl,
              by rw [pe_close hJ.inv hs, if_neg (by rw [sv.1]; simp)]; exact hJ3.simple _ rfl rfl rfl⟩
  exact ⟨L, (key L [] _ (by simp) ⟨hJ0, hJ20, hJ30⟩).2⟩



end

section
theorem sweep_parts3 (hG : Good S) (ps : List (List Nat))
    (hflat : ∀ e, e ∈ ps.flatten ↔ e < 2 * S.length) (hflatnd : ps.flatten.Nodup)
    (hconst : ∀ q ∈ ps, q ≠ [] ∧ ∃ X, ∀ a ∈ q, evX (mkEvents 0 S) a = X)
    (hinc : ps.Pairwise (fun q r => ∀ a ∈ q, ∀ b ∈ r, evX (mkEvents 0 S) a < evX (mkEvents 0 S) b)) :
    ∀ (rest done : List (List Nat)) (st : SwState), done ++ rest = ps →
      Inv S (fun x => x ∈ done.flatten) st → (∀ p, p ∈ st.cross.map (·.p) ↔ CrossSpec S done.flatten p) →
      Tr S st → ExH S (fun x => x ∈ done.flatten) 0 [] st → Pc S st →
      Pc S (rest.foldl sweepPart st) := by
  intro rest
  induction rest with
  | nil => intro done st h hI hc hT hE hP; simpa using hP
  | cons part rest ih =>
    intro done st h hI hc hT hE hP
    rw [List.foldl_cons]
    have hpm : part ∈ ps := by rw [← h]; simp
    obtain ⟨hne, X, hX⟩ := hconst part hpm
    obtain ⟨b0, hb0⟩ := List.exists_mem_of_ne_nil part hne
    have hinc' := hinc; rw [← h, List.pairwise_append] at hinc'
    have hpr := List.pairwise_cons.1 hinc'.2.1
    -- where an event lies relative to X
    have loc : ∀ e, e < 2 * S.length →
        (e ∈ done.flatten ↔ evX (mkEvents 0 S) e < X) ∧ (e ∈ part ↔ evX (mkEvents 0 S) e = X) := by
      intro e he
      have hin : e ∈ done.flatten ∨ e ∈ part ∨ e ∈ rest.flatten := by
        have := (hflat e).2 he; rw [← h] at this; simpa using this
      have hd : e ∈ done.flatten → evX (mkEvents 0 S) e < X := by
        intro hd; obtain ⟨q, hq, heq⟩ := List.mem_flatten.1 hd
        have := hinc'.2.2 q hq part (by simp) e heq b0 hb0; rw [hX b0 hb0] at this; exact this
      have hr : e ∈ rest.flatten → X < evX (mkEvents 0 S) e := by
        intro hd; obtain ⟨q, hq, heq⟩ := List.mem_flatten.1 hd
        have := hpr.1 q hq b0 hb0 e heq; rw [hX b0 hb0] at this; exact this
      have hp : e ∈ part → evX (mkEvents 0 S) e = X := hX e
      constructor
      · refine ⟨hd, fun hlt => ?_⟩
        rcases hin with h1 | h1 | h1
        · exact h1
        · have := hp h1; grind
        · have := hr h1; grind
      · refine ⟨hp, fun heq => ?_⟩
        rcases hin with h1 | h1 | h1
        · have := hd h1; grind
        · exact h1
        · have := hr h1; grind
    have hlen : ∀ i s, S[i]? = some s → 2 * i < 2 * S.length ∧ 2 * i + 1 < 2 * S.length := by
      intro i s hs; obtain ⟨hi, _⟩ := List.getElem?_eq_some_iff.1 hs; omega
    have hC : PartCtx S (fun x => x ∈ done.flatten) X part := by
      refine ⟨?_, ?_, ?_⟩
      · intro i s hs
        have l0 := (loc _ (hlen i s hs).1).1; have l1 := (loc _ (hlen i s hs).2).1
        rw [evX_even hs] at l0; rw [evX_odd hs] at l1; exact ⟨l0, l1⟩
      · intro i s hs
        have l0 := (loc _ (hlen i s hs).1).2; have l1 := (loc _ (hlen i s hs).2).2
        rw [evX_even hs] at l0; rw [evX_odd hs] at l1; exact ⟨l0, l1⟩
      · intro e he; exact (hflat e).1 (by rw [← h]; simp [he])
    have hnd : part.Nodup := hflatnd.sublist (List.sublist_flatten_of_mem hpm)
    obtain ⟨hI', hc'⟩ := part_sweep hG hC hnd hI
    have hE' : ExH S (fun x => x ∈ done.flatten) X [] st := by
      intro i si e hs hH he
      rcases hE i si e hs hH he with a | a | ⟨_, _, _, _, _, _, f⟩
      · exact Or.inl a
      · exact Or.inr (Or.inl a)
      · simp at f
    obtain ⟨L, hJ2, hJ3⟩ := part_sweep3 hG hC hnd hI hT hE' hP
    refine ih (done ++ [part]) _ (by simp [h]) (hI'.congr (fun x => by simp)) ?_ hJ2.tr ?_ hJ3.pc
    rotate_left
    · intro i si e hs hH he
      rcases hJ2.ex i si e hs hH he with a | ⟨k, sk, a, b, c, d⟩ | ⟨k, sk, a, b, c, d, _⟩
      · exact Or.inl a
      · exact Or.inr (Or.inl ⟨k, sk, a, b, by simp [c], d⟩)
      · have sv := hG.segV a b
        have := (hC.hpart k sk a).1.2 (by rw [sv.2.1, c])
        exact Or.inr (Or.inl ⟨k, sk, a, b, by simp [this], by rw [d, c]⟩)
    intro p
    rw [hc', hc]
    unfold CrossSpec
    constructor
    · rintro (⟨i, k, si, sk, a, b, c, d, f, rest⟩ | ⟨i, k, si, sk, a, b, c, d, f, g, l1, l2, rfl⟩)
      · exact ⟨i, k, si, sk, a, b, c, d, by simp [f], rest⟩
      · have sh := hG.segH a c
        have sv := hG.segV b d
        obtain ⟨j, t, ht, hj, _, hp1, hp2⟩ := (hI.oh _).1 g
        have : j = i := by omega
        subst this; rw [a] at ht; cases ht
        have q1 := (hC.hP0 j si a).1.1 hp1
        have q2 := fun hlt => hp2 ((hC.hP0 j si a).2.2 hlt)
        rw [sh.2.2.2.1] at q1; rw [sh.2.2.2.2.1] at q2
        refine ⟨j, k, si, sk, a, b, c, d, ?_, by rw [f]; exact q1, by rw [f]; exact Rat.not_lt.1 q2, l1, l2, by rw [f]⟩
        have := (hC.hpart k sk b).1.2 (by rw [sv.2.1, f])
        simp [this]
    · rintro ⟨i, k, si, sk, a, b, c, d, f, g1, g2, l1, l2, rfl⟩
      have sh := hG.segH a c
      have sv := hG.segV b d
      have f' : 2 * k ∈ done.flatten ∨ 2 * k ∈ part := by simpa using f
      rcases f' with f' | f'
      · exact Or.inl ⟨i, k, si, sk, a, b, c, d, f', g1, g2, l1, l2, rfl⟩
      · right
        have hXk : sk.cc = X := by rw [← sv.2.1]; exact (hC.hpart k sk b).1.1 f'
        refine ⟨i, k, si, sk, a, b, c, d, hXk, ?_, l1, l2, by rw [hXk]⟩
        refine (hI.oh _).2 ⟨i, si, a, rfl, c, ?_, ?_⟩
        · exact (hC.hP0 i si a).1.2 (by rw [sh.2.2.2.1, ← hXk]; exact g1)
        · intro hh; have := (hC.hP0 i si a).2.1 hh
          rw [sh.2.2.2.2.1, ← hXk] at this; grind



theorem computeCrossings_pc (hG : Good S) (nid : Nat) : Pc S (computeCrossings S nid) := by
  unfold computeCrossings xParts
  simp only
  have hlen := mkEvents_length S 0
  obtain ⟨hperm, hconst, hinc⟩ := partition_spec (evX (mkEvents 0 S)) tolX tolX_nonneg tolX_lt_one
    (List.range (mkEvents 0 S).length)
    (by intro a ha b hb
        rw [List.mem_range, hlen] at ha hb
        exact evX_apart hG ha hb)
  have hflat : ∀ e, e ∈ (partition (evX (mkEvents 0 S)) tolX (List.range (mkEvents 0 S).length)).flatten ↔
      e < 2 * S.length := by
    intro e; rw [hperm.mem_iff, List.mem_range, hlen]
  have hnd : (partition (evX (mkEvents 0 S)) tolX (List.range (mkEvents 0 S).length)).flatten.Nodup := by
    rw [hperm.nodup_iff]; exact List.nodup_range
  have hT0 : Tr S { segs := S, evs := mkEvents 0 S, nextId := nid } := by
    refine ⟨?_, ?_, ?_, ?_⟩
    · intro i s hs
      exact Reach.edge ⟨s, List.mem_of_getElem? hs, Or.inl ⟨rfl, rfl⟩⟩
    · intro i j ei ej hi hj hseg
      simp only at hi hj
      have li : i < S.length := by have := (List.getElem?_eq_some_iff.1 hi).1; rw [hlen] at this; omega
      have lj : j < S.length := by have := (List.getElem?_eq_some_iff.1 hj).1; rw [hlen] at this; omega
      have gi := (mkEvents_get S 0 i _ (List.getElem?_eq_getElem li)).1
      have gj := (mkEvents_get S 0 j _ (List.getElem?_eq_getElem lj)).1
      rw [hi] at gi; rw [hj] at gj; cases gi; cases gj
      simpa [mkEv] using hseg
    · intro k sk ov hs hV ho
      simp only at ho ⊢
      have g := (mkEvents_get S 0 k sk hs).1
      rw [ho] at g; cases g
      have sv := hG.segV hs hV
      refine ⟨by simp [mkEv, sv.2.2.2.1]; exact sv.2.2.2.2.2, sk, by simp [mkEv, hs], rfl⟩
    · intro i si e hs hH he _
      simp only at he ⊢
      have g := (mkEvents_get S 0 i si hs).1
      rw [he] at g; cases g
      exact ⟨si, by simp [mkEv, hs], rfl⟩
  have hE0 : ExH S (fun x => x ∈ ([] : List (List Nat)).flatten) 0 [] { segs := S, evs := mkEvents 0 S, nextId := nid } := by
    intro i si e hs hH he
    simp only at he
    have g := (mkEvents_get S 0 i si hs).1
    rw [he] at g; cases g
    have sh := hG.segH hs hH
    exact Or.inl (by simp [mkEv, sh.2.2.2.1])
  have hPc0 : Pc S { segs := S, evs := mkEvents 0 S, nextId := nid } := by
    refine ⟨?_, ?_, ?_, ?_⟩
    · intro i si e hs hH he
      simp only at he ⊢
      have g := (mkEvents_get S 0 i si hs).1
      rw [he] at g; cases g
      have sh := hG.segH hs hH
      refine ⟨si, by simp [mkEv, hs], ?_, ?_, ?_, ?_⟩
      · simp only [mkEv]; rw [pt_eta si.on.p, sh.2.1]
      · rw [pt_eta si.cn.p, sh.2.2.1, sh.2.2.2.2.1]
      · simp only [mkEv]; rw [sh.2.2.2.1]; exact Rat.le_refl
      · simp only [mkEv]; rw [sh.2.2.2.1]; exact Rat.le_of_lt sh.2.2.2.2.2
    · intro k sk ov hs hV ho
      simp only at ho ⊢
      have g := (mkEvents_get S 0 k sk hs).1
      rw [ho] at g; cases g
      have sv := hG.segV hs hV
      refine ⟨sk, by simp [mkEv, hs], ?_, ?_, ?_, ?_⟩
      · simp only [mkEv]; rw [pt_eta sk.on.p, sv.2.1]
      · rw [pt_eta sk.cn.p, sv.2.2.1, sv.2.2.2.2.1]
      · simp only [mkEv]; rw [sv.2.2.2.1]; exact Rat.le_refl
      · simp only [mkEv]; rw [sv.2.2.2.1]; exact Rat.le_of_lt sv.2.2.2.2.2
    · intro a t ht hnt
      exfalso
      simp only at ht hnt
      have g := (mkEvents_get S 0 a t ht).1
      exact hnt a _ g (by simp [mkEv])
    · intro a t c _ hc; simp at hc
  exact sweep_parts3 hG _ hflat hnd hconst hinc
    (partition (evX (mkEvents 0 S)) tolX (List.range (mkEvents 0 S).length)) []
    { segs := S, evs := mkEvents 0 S, nextId := nid } (by simp)
    ((init_inv hG nid).congr (fun x => by simp)) (by intro p; simp [CrossSpec]) hT0 hE0 hPc0

end

section
theorem computeCrossings_len (hG : Good S) (nid : Nat) :
    (computeCrossings S nid).evs.length = 2 * S.length := by
  unfold computeCrossings xParts
  simp only
  have hlen := mkEvents_length S 0
  obtain ⟨hperm, hconst, hinc⟩ := partition_spec (evX (mkEvents 0 S)) tolX tolX_nonneg tolX_lt_one
    (List.range (mkEvents 0 S).length)
    (by intro a ha b hb
        rw [List.mem_range, hlen] at ha hb
        exact evX_apart hG ha hb)
  have hflat : ∀ e, e ∈ (partition (evX (mkEvents 0 S)) tolX (List.range (mkEvents 0 S).length)).flatten ↔
      e < 2 * S.length := by
    intro e; rw [hperm.mem_iff, List.mem_range, hlen]
  have hnd : (partition (evX (mkEvents 0 S)) tolX (List.range (mkEvents 0 S).length)).flatten.Nodup := by
    rw [hperm.nodup_iff]; exact List.nodup_range
  exact (sweep_parts hG _ hflat hnd hconst hinc
    (partition (evX (mkEvents 0 S)) tolX (List.range (mkEvents 0 S).length)) []
    { segs := S, evs := mkEvents 0 S, nextId := nid } (by simp)
    ((init_inv hG nid).congr (fun x => by simp)) (by intro p; simp [CrossSpec])).1.len

/-- the horizontal piece `p` and the vertical piece `q` cross transversally -/
def PiecesCross (p q : Seg) : Prop :=
  p.on.p.y = p.cn.p.y ∧ q.on.p.x = q.cn.p.x ∧
  ((p.on.p.x < q.on.p.x ∧ q.on.p.x < p.cn.p.x) ∨ (p.cn.p.x < q.on.p.x ∧ q.on.p.x < p.on.p.x)) ∧
  ((q.on.p.y < p.on.p.y ∧ p.on.p.y < q.cn.p.y) ∨ (q.cn.p.y < p.on.p.y ∧ p.on.p.y < q.on.p.y))

/-- every final piece lies inside one original segment -/
theorem piece_within (hG : Good S) (nid : Nat) (t : Seg) (ht : t ∈ (computeCrossings S nid).segs) :
    ∃ (j : Nat) (sj : Seg), S[j]? = some sj ∧
      ((sj.ori = .H ∧ t.on.p.y = sj.cc ∧ t.cn.p.y = sj.cc ∧ sj.lo ≤ t.on.p.x ∧ t.on.p.x ≤ sj.hi ∧
          sj.lo ≤ t.cn.p.x ∧ t.cn.p.x ≤ sj.hi) ∨
       (sj.ori = .V ∧ t.on.p.x = sj.cc ∧ t.cn.p.x = sj.cc ∧ sj.lo ≤ t.on.p.y ∧ t.on.p.y ≤ sj.hi ∧
          sj.lo ≤ t.cn.p.y ∧ t.cn.p.y ≤ sj.hi)) := by
  have hPc := computeCrossings_pc hG nid
  have hlen := computeCrossings_len hG nid
  obtain ⟨a, ha⟩ := List.getElem?_of_mem ht
  by_cases htail : ∃ (j : Nat) (ej : Ev), (computeCrossings S nid).evs[2 * j]? = some ej ∧ ej.seg = a
  · obtain ⟨j, ej, hj, hja⟩ := htail
    have hjl : j < S.length := by
      have := (List.getElem?_eq_some_iff.1 hj).1; rw [hlen] at this; omega
    have hsj : S[j]? = some S[j] := List.getElem?_eq_getElem hjl
    refine ⟨j, S[j], hsj, ?_⟩
    rcases hG.shape _ (List.getElem_mem hjl) with sh | sv
    · obtain ⟨t', ht', r1, r2, r3, r4⟩ := hPc.tailH j _ ej hsj sh.1 hj
      rw [hja, ha] at ht'; cases ht'
      left
      rw [r1, r2]; simp only
      exact ⟨sh.1, trivial, trivial, r3, r4, Rat.le_of_lt sh.2.2.2.2.2, Rat.le_refl⟩
    · obtain ⟨t', ht', r1, r2, r3, r4⟩ := hPc.tailV j _ ej hsj sv.1 hj
      rw [hja, ha] at ht'; cases ht'
      right
      rw [r1, r2]; simp only
      exact ⟨sv.1, trivial, trivial, r3, r4, Rat.le_of_lt sv.2.2.2.2.2, Rat.le_refl⟩
  · obtain ⟨j, sj, ej, b1, b2, b3⟩ := hPc.frozen a t ha (by intro j ej hj h; exact htail ⟨j, ej, hj, h⟩)
    refine ⟨j, sj, b1, ?_⟩
    rcases b3 with ⟨c0, c1, c2, c3, c4, c5, c6, c7⟩ | ⟨c0, c1, c2, c3, c4, c5, c6, c7⟩
    · exact Or.inl ⟨c0, c1, c2, c3, by grind, c5, by grind⟩
    · exact Or.inr ⟨c0, c1, c2, c3, by grind, c5, by grind⟩

/-- **No two pieces of the result cross**: if they did, the sweep would have put a crossing node there
(completeness) and cut both pieces at it. -/
theorem no_pieces_cross (hG : Good S) (nid : Nat) :
    ∀ p ∈ (computeCrossings S nid).segs, ∀ q ∈ (computeCrossings S nid).segs, ¬ PiecesCross p q := by
  intro p hp q hq hx
  have hPc := computeCrossings_pc hG nid
  obtain ⟨j, sj, hsj, hpj⟩ := piece_within hG nid p hp
  obtain ⟨k, sk, hsk, hqk⟩ := piece_within hG nid q hq
  obtain ⟨x1, x2, x3, x4⟩ := hx
  rcases hpj with ⟨p0, p1, p2, p3, p4, p5, p6⟩ | ⟨p0, p1, p2, _⟩
  · rcases hqk with ⟨q0, q1, q2, _⟩ | ⟨q0, q1, q2, q3, q4, q5, q6⟩
    · rw [q1, q2] at x4; grind
    · have hc := (computeCrossings_spec hG nid ⟨sk.cc, sj.cc⟩).2
        ⟨j, k, sj, sk, hsj, hsk, p0, q0, by grind, by grind, by grind, by grind, rfl⟩
      obtain ⟨c, hc1, hc2⟩ := List.mem_map.1 hc
      obtain ⟨a, ha⟩ := List.getElem?_of_mem hp
      refine hPc.ni a p c ha hc1 ?_
      unfold InsideP; left
      rw [hc2]; simp only
      refine ⟨x1, p1.symm, ?_⟩
      rw [q1] at x3; exact x3
  · rw [p1, p2] at x3; grind

end


end AdaptaVerif.Lemmas.Planarise
