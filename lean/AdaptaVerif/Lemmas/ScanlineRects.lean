/-
C09, rectangle level: start invariant from a valid event order, separation for the whole sweep,
chains / cycles, and the exact-arithmetic facts about `Rectangle::moveCentreX/Y`.
-/
import AdaptaVerif.Lemmas.Scanline
import Mathlib.Tactic.Ring
namespace AdaptaVerif.Lemmas.Scanline
open AdaptaVerif.Model.Scanline AdaptaVerif.Spec.Rects

/-! ### from a valid event order to the start invariant -/

theorem inv_init {ax : Axis} {lt} {n : Nat} {evs : List Ev} (hv : ValidOrder ax n evs)
    (hgood : ∀ i, i < n → 0 ≤ ax.sz i ∧ ax.opn i ≤ ax.cls i) :
    Inv ax lt evs [] PMap.empty PMap.empty := by
  obtain ⟨hpw, hnd, hmem⟩ := hv
  refine ⟨hpw, hnd, ?_, ?_, ?_, List.Pairwise.nil, ?_⟩
  · intro x hx; cases hx
  · intro x hx
    rcases hx with hx | hx
    · cases hx
    · have hxn : x < n := (hmem ⟨false, x⟩).1 hx
      exact ⟨(hmem ⟨true, x⟩).2 hxn, (hgood x hxn).1⟩
  · intro x hx
    have hxn : x < n := (hmem ⟨true, x⟩).1 hx
    exact ⟨Or.inr ((hmem ⟨false, x⟩).2 hxn), (hgood x hxn).2⟩
  · intro x hx; cases hx

/-- Separation for the whole sweep started on an empty scan line. -/
theorem scanPtr_separates {ax : Axis} {rank : Nat → Nat} (inj : RankInjective rank) {n : Nat}
    {evs : List Ev} (hv : ValidOrder ax n evs)
    (hgood : ∀ i, i < n → 0 ≤ ax.sz i ∧ ax.opn i ≤ ax.cls i)
    {y : Nat → Rat} (hsat : Sat y (scanPtr ax (keyLt ax rank) evs [] PMap.empty PMap.empty))
    {u v : Nat} (hu : u < n) (hvn : v < n) (huv : u ≠ v) (hmeet : ScanMeet ax u v) :
    y u + (ax.sz u + ax.sz v) / 2 ≤ y v ∨ y v + (ax.sz u + ax.sz v) / 2 ≤ y u := by
  have st := keyLt_strictTotal ax inj
  have hinv : Inv ax (keyLt ax rank) evs [] PMap.empty PMap.empty := inv_init hv hgood
  have hue : (⟨false, u⟩ : Ev) ∈ evs := (hv.2.2 _).2 hu
  have hve : (⟨false, v⟩ : Ev) ∈ evs := (hv.2.2 _).2 hvn
  rcases st.total u v huv with h | h
  · left
    have := sep_of_scanMeet ax st evs [] _ _ hinv y hsat u v (Or.inr hue) (Or.inr hve) hmeet h
    unfold gapOf at this; linarith
  · right
    have := sep_of_scanMeet ax st evs [] _ _ hinv y hsat v u (Or.inr hve) (Or.inr hue)
      ⟨hmeet.2, hmeet.1⟩ h
    unfold gapOf at this; linarith

/-! ### chains and cycles -/

theorem chain_lt {lt : Nat → Nat → Bool} {cs : List Con}
    (tr : ∀ a b c, lt a b = true → lt b c = true → lt a c = true)
    (hm : ∀ c ∈ cs, lt c.l c.r = true) {a b : Nat} (h : Chain cs a b) : lt a b = true := by
  induction h with
  | single hc => exact hm _ hc
  | cons hc _ ih => exact tr _ _ _ (hm _ hc) ih

theorem acyclic_of_mono {lt : Nat → Nat → Bool} {cs : List Con}
    (ir : ∀ a, lt a a = false)
    (tr : ∀ a b c, lt a b = true → lt b c = true → lt a c = true)
    (hm : ∀ c ∈ cs, lt c.l c.r = true) : Acyclic cs := by
  intro a h
  have := chain_lt tr hm h
  rw [ir] at this; cases this

/-- a chain whose gaps cover the half lengths separates its end points -/
theorem chain_separates {sz : Nat → Rat} {cs : List Con} {y : Nat → Rat}
    (hsz : ∀ c ∈ cs, 0 ≤ sz c.l ∧ 0 ≤ sz c.r)
    (hgap : ∀ c ∈ cs, (sz c.l + sz c.r) / 2 ≤ c.gap) (hsat : Sat y cs)
    {a b : Nat} (h : Chain cs a b) : y a + (sz a + sz b) / 2 ≤ y b := by
  induction h with
  | single hc => have := hsat _ hc; have := hgap _ hc; linarith
  | cons hc _ ih =>
    have := hsat _ hc; have := hgap _ hc; have := (hsz _ hc).2
    linarith

/-! ### rectangles -/

theorem moveCentreX_width (r : Rect) (bx x : Rat) : (r.moveCentreX bx x).width bx = r.width bx := by
  simp only [Rect.moveCentreX, Rect.moveMinX, Rect.width, Rect.getMaxX, Rect.getMinX]; ring
theorem moveCentreX_height (r : Rect) (bx b x : Rat) : (r.moveCentreX bx x).height b = r.height b := rfl
theorem moveCentreX_centre (r : Rect) (bx x : Rat) : (r.moveCentreX bx x).centreX bx = x := by
  simp only [Rect.moveCentreX, Rect.moveMinX, Rect.centreX, Rect.width, Rect.getMaxX, Rect.getMinX]; ring
theorem moveCentreY_height (r : Rect) (b y : Rat) : (r.moveCentreY b y).height b = r.height b := by
  simp only [Rect.moveCentreY, Rect.moveMinY, Rect.height, Rect.getMaxY, Rect.getMinY]; ring
theorem moveCentreY_width (r : Rect) (bx b y : Rat) : (r.moveCentreY b y).width bx = r.width bx := rfl
theorem moveCentreY_centre (r : Rect) (b y : Rat) : (r.moveCentreY b y).centreY b = y := by
  simp only [Rect.moveCentreY, Rect.moveMinY, Rect.centreY, Rect.height, Rect.getMaxY, Rect.getMinY]; ring
theorem moveCentreY_getMinY (r : Rect) (b y : Rat) : (r.moveCentreY b y).getMinY b = y - r.height b / 2 := by
  simp only [Rect.moveCentreY, Rect.moveMinY, Rect.height, Rect.getMaxY, Rect.getMinY]; ring
theorem moveCentreY_getMaxY (r : Rect) (b y : Rat) : (r.moveCentreY b y).getMaxY b = y + r.height b / 2 := by
  simp only [Rect.moveCentreY, Rect.moveMinY, Rect.height, Rect.getMaxY, Rect.getMinY]; ring
theorem moveCentreX_getMinX (r : Rect) (bx x : Rat) : (r.moveCentreX bx x).getMinX bx = x - r.width bx / 2 := by
  simp only [Rect.moveCentreX, Rect.moveMinX, Rect.width, Rect.getMaxX, Rect.getMinX]; ring
theorem moveCentreX_getMaxX (r : Rect) (bx x : Rat) : (r.moveCentreX bx x).getMaxX bx = x + r.width bx / 2 := by
  simp only [Rect.moveCentreX, Rect.moveMinX, Rect.width, Rect.getMaxX, Rect.getMinX]; ring

/-- centres at least half the two lengths apart: the open extents share no point -/
theorem separation_no_meet {c1 c2 l1 l2 : Rat} (h : c1 + (l1 + l2) / 2 ≤ c2 ∨ c2 + (l1 + l2) / 2 ≤ c1) :
    ¬ IntervalsMeet (c1 - l1 / 2) (c1 + l1 / 2) (c2 - l2 / 2) (c2 + l2 / 2) := by
  rintro ⟨x, h1, h2, h3, h4⟩
  rcases h with h | h <;> linarith

theorem ptrMono_empty (lt : Nat → Nat → Bool) : PtrMono lt PMap.empty PMap.empty := by
  constructor <;> intro x a h <;> cases h

theorem nbrMono_empty (lt : Nat → Nat → Bool) : NbrMono lt SMap.empty SMap.empty := by
  constructor <;> intro x a h <;> cases h

/-- shrinking the borders cannot create an overlap -/
theorem overlap_border_mono {u v : Rect} {bx b ex ey : Rat} (hx : 0 ≤ ex) (hy : 0 ≤ ey)
    (h : Overlap (bordered u bx b) (bordered v bx b)) :
    Overlap (bordered u (bx + ex) (b + ey)) (bordered v (bx + ex) (b + ey)) := by
  obtain ⟨x, y, h1, h2, h3, h4, h5, h6, h7, h8⟩ := h
  simp only [bordered, Rect.getMinX, Rect.getMaxX, Rect.getMinY, Rect.getMaxY] at *
  exact ⟨x, y, by linarith, by linarith, by linarith, by linarith, by linarith, by linarith,
    by linarith, by linarith⟩

/-- the scan-line comparator depends on the rank only through the order it induces -/
theorem keyLt_congr (ax : Axis) {rank rank' : Nat → Nat}
    (h : ∀ i j, rank i < rank j ↔ rank' i < rank' j) : keyLt ax rank = keyLt ax rank' := by
  funext u v
  simp only [keyLt, h u v]


end AdaptaVerif.Lemmas.Scanline
