/-
C12: the modelled rewrites compose — tree, junction bookkeeping and junction conservation along any
finite sequence of `removeZeroLengthEdges` traversals, junction moves and coordinate shifts.
-/
import AdaptaVerif.Lemmas.HyperTreeJBridge
namespace AdaptaVerif.Lemmas.HyperTreeCompose
open AdaptaVerif.Model.HyperTree AdaptaVerif.Lemmas.HyperTree AdaptaVerif.Lemmas.HyperTreeRzle
open AdaptaVerif.Lemmas.HyperTreeJunctions AdaptaVerif.Lemmas.HyperTreeJBridge
open AdaptaVerif.Lemmas.HyperTreeMove (JFresh NewJFresh mem_junctionsOf FullyKeeps)

/-- a contraction step of `removeZeroLengthEdges` allocates no junction or connector number -/
theorem rzleStep_counters {s s2 : Imp} (h : RzleStep s s2) : s2.nextJ = s.nextJ ∧ s2.newJ = s.newJ := by
  obtain ⟨e, sn, tg, src, s1, t2, _, _, _, hdec, _, rfl⟩ := h.step
  unfold rzleDec at hdec
  split at hdec
  · split at hdec
    · simp at hdec
    · split at hdec
      · simp at hdec
      · unfold rzleDecide at hdec
        split at hdec
        · simp only [Option.some.injEq, Prod.mk.injEq] at hdec
          obtain ⟨_, _, rfl⟩ := hdec; exact ⟨rfl, rfl⟩
        · simp only [Option.some.injEq, Prod.mk.injEq] at hdec
          obtain ⟨_, _, rfl⟩ := hdec; exact ⟨rfl, rfl⟩
        · simp only [Option.some.injEq, Prod.mk.injEq] at hdec
          obtain ⟨_, _, rfl⟩ := hdec; exact ⟨rfl, rfl⟩
        · split at hdec
          · simp only [Option.some.injEq, Prod.mk.injEq] at hdec
            obtain ⟨_, _, rfl⟩ := hdec; exact ⟨rfl, rfl⟩
          · simp at hdec
  · simp at hdec

/-- everything the theorems need of an improver state -/
structure Good (s : Imp) : Prop where
  tree : Tree s.t
  jinv : JInv s
  jfresh : JFresh s
  newJFresh : NewJFresh s

/-- junction conservation from `s` to `s'`: attached-or-reported-deleted afterwards = attached-or-
    reported-deleted before, plus the junctions newly reported in the new-junction list; the lists only grow -/
structure Conserved (s s' : Imp) : Prop where
  junctions : ∀ j, (Carried s'.t j ∨ j ∈ s'.delJ) ↔ (Carried s.t j ∨ j ∈ s.delJ ∨ (j ∈ s'.newJ ∧ j ∉ s.newJ))
  newJ : ∃ L, s'.newJ = s.newJ ++ L

theorem Conserved.refl (s : Imp) : Conserved s s :=
  ⟨fun j => by constructor
               · rintro (h | h)
                 · exact Or.inl h
                 · exact Or.inr (Or.inl h)
               · rintro (h | h | ⟨h, h'⟩)
                 · exact Or.inl h
                 · exact Or.inr h
                 · exact absurd h h', ⟨[], by simp⟩⟩

theorem Conserved.trans {a b c : Imp} (h1 : Conserved a b) (h2 : Conserved b c) : Conserved a c := by
  obtain ⟨L1, hL1⟩ := h1.newJ
  obtain ⟨L2, hL2⟩ := h2.newJ
  refine ⟨?_, ⟨L1 ++ L2, by rw [hL2, hL1, List.append_assoc]⟩⟩
  intro j
  rw [h2.junctions j]
  have hab : j ∈ a.newJ → j ∈ b.newJ := fun h => by rw [hL1]; exact List.mem_append_left _ h
  have hbc : j ∈ b.newJ → j ∈ c.newJ := fun h => by rw [hL2]; exact List.mem_append_left _ h
  constructor
  · rintro (h | h | ⟨h, h'⟩)
    · rcases (h1.junctions j).mp (Or.inl h) with h | h | h
      · exact Or.inl h
      · exact Or.inr (Or.inl h)
      · exact Or.inr (Or.inr ⟨hbc h.1, h.2⟩)
    · rcases (h1.junctions j).mp (Or.inr h) with h | h | h
      · exact Or.inl h
      · exact Or.inr (Or.inl h)
      · exact Or.inr (Or.inr ⟨hbc h.1, h.2⟩)
    · exact Or.inr (Or.inr ⟨h, fun ha => h' (hab ha)⟩)
  · rintro (h | h | ⟨h, h'⟩)
    · rcases (h1.junctions j).mpr (Or.inl h) with h | h
      · exact Or.inl h
      · exact Or.inr (Or.inl h)
    · rcases (h1.junctions j).mpr (Or.inr (Or.inl h)) with h | h
      · exact Or.inl h
      · exact Or.inr (Or.inl h)
    · by_cases hb : j ∈ b.newJ
      · rcases (h1.junctions j).mpr (Or.inr (Or.inr ⟨hb, h'⟩)) with h | h
        · exact Or.inl h
        · exact Or.inr (Or.inl h)
      · exact Or.inr (Or.inr ⟨h, hb⟩)

theorem carried_lt {s : Imp} (h : JFresh s) {j : Nat} (hc : Carried s.t j) : j < s.nextJ :=
  h.1 j (mem_junctionsOf.mpr (carried_iff.mp hc))

/-- one contraction step of `removeZeroLengthEdges` -/
theorem rzleStep_good {s s2 : Imp} (hg : Good s) (h : RzleStep s s2) : Good s2 ∧ Conserved s s2 := by
  obtain ⟨hJ, hC, hN⟩ := rzleStep_jinv hg.tree hg.jinv h
  obtain ⟨hnx, _⟩ := rzleStep_counters h
  have hlt : ∀ j, (Carried s2.t j ∨ j ∈ s2.delJ) → j < s2.nextJ := by
    intro j hj
    rw [hnx]
    rcases (hC j).mp hj with h' | h'
    · exact carried_lt hg.jfresh h'
    · exact hg.jfresh.2 j h'
  refine ⟨⟨rzleStep_tree hg.tree h, hJ, ⟨?_, ?_⟩, ?_⟩, ⟨?_, ⟨[], by rw [hN]; simp⟩⟩⟩
  · intro j hj
    exact hlt j (Or.inl (carried_iff.mpr (mem_junctionsOf.mp hj)))
  · intro j hj
    exact hlt j (Or.inr hj)
  · intro j hj
    rw [hnx]
    rw [hN] at hj
    exact hg.newJFresh j hj
  · intro j
    rw [hC j, hN]
    constructor
    · rintro (h' | h')
      · exact Or.inl h'
      · exact Or.inr (Or.inl h')
    · rintro (h' | h' | ⟨h', h''⟩)
      · exact Or.inl h'
      · exact Or.inr h'
      · exact absurd h' h''

/-- the traversal -/
theorem rzleNode_good {f : Nat} {s : Imp} {self : Nat} {ign : Option Nat} {s' : Imp} (hg : Good s)
    (h : rzleNode f s self ign = some s') : Good s' ∧ Conserved s s' :=
  (rzle_inv_all (fun x => Good x ∧ Conserved s x)
    (fun a b hP hstep => by
      obtain ⟨hg2, hc2⟩ := rzleStep_good hP.1 hstep
      exact ⟨hg2, hP.2.trans hc2⟩) f).1 s self ign s' ⟨hg, Conserved.refl s⟩ h

/-- the junction move -/
theorem moveJunctionStep_good {s : Imp} {j : Nat} {r : MoveResult} (hg : Good s)
    (h : moveJunctionStep s j = some r) : Good r.s ∧ Conserved s r.s := by
  have hk : FullyKeeps s r.s := AdaptaVerif.Lemmas.HyperTreeMove.moveJunctionStep_fullyKeeps hg.tree
    ((jinv_iff hg.tree.1).mp hg.jinv) hg.jfresh hg.newJFresh h
  refine ⟨⟨hk.tree, (jinv_iff hk.tree.1).mpr hk.jinv, hk.jfresh, hk.newJFresh⟩, ⟨?_, hk.newJ⟩⟩
  intro j
  rw [hk.delJ, carried_iff, carried_iff, hk.junctions j]
  constructor
  · rintro ((h' | h') | h')
    · exact Or.inl h'
    · exact Or.inr (Or.inr h')
    · exact Or.inr (Or.inl h')
  · rintro (h' | h' | h')
    · exact Or.inl (Or.inl h')
    · exact Or.inr h'
    · exact Or.inl (Or.inr h')

/-- a coordinate change -/
theorem shift_good {s : Imp} (hg : Good s) (n : Nat) (p : AdaptaVerif.Model.Geometry.Pt) :
    Good { s with t := s.t.modNode n (fun x => { x with point := p }) } ∧
      Conserved s { s with t := s.t.modNode n (fun x => { x with point := p }) } := by
  have hnodes : ∀ n1, n1 ∈ (s.t.modNode n (fun x => { x with point := p })).nodes ↔
      ∃ m ∈ s.t.nodes, n1 = if m.id == n then { m with point := p } else m := by
    intro n1
    show n1 ∈ s.t.nodes.map _ ↔ _
    simp only [List.mem_map]
    constructor
    · rintro ⟨m, hm, rfl⟩; exact ⟨m, hm, rfl⟩
    · rintro ⟨m, hm, rfl⟩; exact ⟨m, hm, rfl⟩
  have hsj : SameJunctions s.t (s.t.modNode n (fun x => { x with point := p })) s.t.next := by
    refine ⟨?_, ?_, ?_⟩
    · intro n1 hn1
      obtain ⟨m, hm, rfl⟩ := (hnodes n1).mp hn1
      refine ⟨m, hm, ?_, ?_⟩ <;> split <;> rfl
    · intro m hm _
      refine ⟨_, (hnodes _).mpr ⟨m, hm, rfl⟩, ?_, ?_⟩ <;> split <;> rfl
    · intro m hm hid
      have := hg.tree.1.fresh.1 m hm
      omega
  have hcar : ∀ j, Carried (s.t.modNode n (fun x => { x with point := p })) j ↔ Carried s.t j :=
    fun j => hsj.carried j
  refine ⟨⟨modNode_Tree _ _ _ (fun _ => rfl) (fun _ => rfl) hg.tree, hg.jinv.transfer hsj, ⟨?_, hg.jfresh.2⟩,
    hg.newJFresh⟩, ⟨?_, ⟨[], by simp⟩⟩⟩
  · intro j hj
    exact carried_lt hg.jfresh ((hcar j).mp (carried_iff.mpr (mem_junctionsOf.mp hj)))
  · intro j
    show (Carried (s.t.modNode n _) j ∨ j ∈ s.delJ) ↔ _
    rw [hcar j]
    constructor
    · rintro (h' | h')
      · exact Or.inl h'
      · exact Or.inr (Or.inl h')
    · rintro (h' | h' | ⟨h', h''⟩)
      · exact Or.inl h'
      · exact Or.inr h'
      · exact absurd h' h''

end AdaptaVerif.Lemmas.HyperTreeCompose
