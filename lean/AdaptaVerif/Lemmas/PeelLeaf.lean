/-
C19 — a finite tree with at least two nodes has a leaf (node of degree one); consequently a
connected acyclic simple graph without degree-one nodes has at most one node. Core Lean only.
Uses the BFS parent/depth witness of `PeelCheck.acyclicB_complete`.
-/
import AdaptaVerif.Lemmas.PeelCheck

namespace AdaptaVerif.Lemmas.PeelLeaf
open AdaptaVerif.Spec.UGraph AdaptaVerif.Model.Peel AdaptaVerif.Spec.GraphParts
open AdaptaVerif.Check.GraphParts AdaptaVerif.Lemmas.PeelCheck

theorem exists_max (d : Nat → Nat) :
    ∀ (l : List Nat), l ≠ [] → ∃ m, m ∈ l ∧ ∀ x, x ∈ l → d x ≤ d m
  | [], h => absurd rfl h
  | [a], _ => ⟨a, List.mem_singleton.2 rfl, fun x hx => by
      rw [List.mem_singleton.1 hx]; exact Nat.le_refl _⟩
  | a :: b :: t, _ => by
    obtain ⟨m, hm, hmax⟩ := exists_max d (b :: t) (fun h => nomatch h)
    by_cases h : d m ≤ d a
    · refine ⟨a, List.mem_cons_self, fun x hx => ?_⟩
      rcases List.mem_cons.1 hx with rfl | hx
      · exact Nat.le_refl _
      · exact Nat.le_trans (hmax x hx) h
    · refine ⟨m, List.mem_cons_of_mem _ hm, fun x hx => ?_⟩
      rcases List.mem_cons.1 hx with rfl | hx
      · omega
      · exact hmax x hx

theorem exists_ne_of_two {ns : List Nat} (hnd : ns.Nodup) (h2 : 2 ≤ ns.length) (m : Nat) :
    ∃ x, x ∈ ns ∧ x ≠ m := by
  cases ns with
  | nil => simp at h2
  | cons a t =>
    cases t with
    | nil => simp at h2
    | cons b t =>
      by_cases h : a = m
      · refine ⟨b, by simp, fun hb => ?_⟩
        apply (List.nodup_cons.1 hnd).1
        rw [h, ← hb]
        exact List.mem_cons_self
      · exact ⟨a, List.mem_cons_self, h⟩

/-- every edge of a tree joins a node to its parent one level up, for suitable parent/depth maps -/
theorem tree_edge_witness {ns : List Nat} {es : List (Nat × Nat)} (hs : Simple ns es)
    (ht : IsTree ns es) :
    ∃ (p d : Nat → Nat), ∀ a b, (a, b) ∈ es →
      (p a = b ∧ d a = d b + 1) ∨ (p b = a ∧ d b = d a + 1) := by
  obtain ⟨hne, hc, hac⟩ := ht
  cases ns with
  | nil => exact absurd rfl hne
  | cons r rest =>
    have h := acyclicB_complete (r := r) List.mem_cons_self hs hc hac
    simp only [acyclicB, forestWitnessB] at h
    refine ⟨parOf (bfsP es (bfsFuel es) [(r, r, 0)] []),
      depOf (bfsP es (bfsFuel es) [(r, r, 0)] []), fun a b hab => ?_⟩
    have := List.all_eq_true.1 h (a, b) hab
    simpa using this

/-- a duplicate-free list whose members are all one of two values, not both occurring, has at
    most one element -/
theorem length_le_one_of_two {α : Type} {L : List α} {x y : α} (hnd : L.Nodup)
    (hK : ∀ e, e ∈ L → e = x ∨ e = y) (hxy : x ∈ L → y ∉ L) : L.length ≤ 1 := by
  match L, hnd, hK, hxy with
  | [], _, _, _ => exact Nat.zero_le _
  | [_], _, _, _ => exact Nat.le_refl _
  | e1 :: e2 :: t, hnd, hK, hxy =>
    exfalso
    have hne : e1 ≠ e2 := fun h => (List.nodup_cons.1 hnd).1 (h ▸ List.mem_cons_self)
    have m1 : e1 ∈ e1 :: e2 :: t := List.mem_cons_self
    have m2 : e2 ∈ e1 :: e2 :: t := List.mem_cons_of_mem _ List.mem_cons_self
    rcases hK e1 m1 with h1 | h1 <;> rcases hK e2 m2 with h2 | h2
    · exact hne (h1.trans h2.symm)
    · exact hxy (h1 ▸ m1) (h2 ▸ m2)
    · exact hxy (h2 ▸ m2) (h1 ▸ m1)
    · exact hne (h1.trans h2.symm)

/-- a finite tree with at least two nodes has a node of degree one -/
theorem tree_has_leaf {ns : List Nat} {es : List (Nat × Nat)} (hs : Simple ns es)
    (ht : IsTree ns es) (h2 : 2 ≤ ns.length) : ∃ v, v ∈ ns ∧ degree es v = 1 := by
  obtain ⟨p, d, hE⟩ := tree_edge_witness hs ht
  obtain ⟨hne, hc, _⟩ := ht
  obtain ⟨hnd, hends, hend, hrev⟩ := hs
  obtain ⟨m, hm, hmax⟩ := exists_max d ns hne
  obtain ⟨x, hx, hxm⟩ := exists_ne_of_two hnd h2 m
  refine ⟨m, hm, ?_⟩
  -- every incident edge goes to the parent
  have hK : ∀ e, e ∈ es.filter (incident m) → e = (m, p m) ∨ e = (p m, m) := by
    intro e he
    obtain ⟨hes, hinc⟩ := List.mem_filter.1 he
    obtain ⟨a, b⟩ := e
    have hab := hends _ hes
    simp only [incident, Bool.or_eq_true, beq_iff_eq] at hinc
    rcases hinc with h | h
    · subst h
      rcases hE _ _ hes with h' | h'
      · exact Or.inl (by rw [h'.1])
      · have := hmax b hab.2.1
        omega
    · subst h
      rcases hE _ _ hes with h' | h'
      · have := hmax a hab.1
        omega
      · exact Or.inr (by rw [h'.1])
  have hLnd : (es.filter (incident m)).Nodup := hend.sublist List.filter_sublist
  have hle : (es.filter (incident m)).length ≤ 1 :=
    length_le_one_of_two hLnd hK
      (fun h1 h2 => hrev _ _ (List.mem_filter.1 h1).1 (List.mem_filter.1 h2).1)
  -- at least one incident edge: m is joined to another node
  have hge : 1 ≤ (es.filter (incident m)).length := by
    have hr := hc m hm x hx
    cases hr with
    | refl => exact absurd rfl hxm
    | step hadj _ =>
      rcases hadj with h | h
      · exact List.length_pos_of_mem (List.mem_filter.2 ⟨h, by simp [incident]⟩)
      · exact List.length_pos_of_mem (List.mem_filter.2 ⟨h, by simp [incident]⟩)
  show (es.filter (incident m)).length = 1
  omega

theorem tree_noDegreeOne_small {ns : List Nat} {es : List (Nat × Nat)} (hs : Simple ns es)
    (hc : Connected ns es) (hac : Acyclic es) (hd : NoDegreeOne ns es) : ns.length ≤ 1 := by
  apply Classical.byContradiction
  intro hlen
  have h2 : 2 ≤ ns.length := by omega
  have hne : ns ≠ [] := by
    intro h
    rw [h] at h2
    simp at h2
  obtain ⟨v, hv, hdeg⟩ := tree_has_leaf hs ⟨hne, hc, hac⟩ h2
  exact hd v hv hdeg

end AdaptaVerif.Lemmas.PeelLeaf
