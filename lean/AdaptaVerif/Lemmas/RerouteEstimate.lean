/-
The "could be shorter" estimate of `markPolylineConnectorsNeedingReroutingForDeletedObstacle`
(Model.Reroute.sideX) against the true minimum detour via a point of the side.

Everything is stated for an arbitrary ordered field `K` and an arbitrary function `N : K → K → K`
("length of the vector (u, v)") with the properties `IsNorm` — triangle inequality, positive homogeneity,
invariance under reflection of either coordinate and under exchanging them.  The Euclidean norm on ℝ has them (so has every p-norm;
the 1-norm on ℚ gives non-vacuity without real numbers).

`detour N a b c d x` = N (x−a, b) + N (x−c, d) = |start − (x, offy)| + |(x, offy) − end| where, relative to
the side's line, start = (a, b), end = (c, d).
* `detour_min`: for b, d ≥ 0, b + d > 0 the point x* = (b·c + a·d)/(b + d) minimises the detour over the
  whole line (reflection principle, proved from the triangle inequality + homogeneity);
* `detour_convex`, `detour_clamp_min`: the detour is convex in x, hence clamping x* to the side's
  parameter range [mn, mx] minimises it over the side.
-/
import Mathlib.Tactic.Linarith
import Mathlib.Tactic.Ring
import Mathlib.Tactic.FieldSimp
import Mathlib.Tactic.Positivity
import Mathlib.Algebra.Order.Field.Basic
set_option linter.unusedSectionVars false
namespace AdaptaVerif.Lemmas.RerouteEstimate

variable {K : Type} [Field K] [LinearOrder K] [IsStrictOrderedRing K]

structure IsNorm (N : K → K → K) : Prop where
  tri : ∀ u1 u2 v1 v2 : K, N (u1 + v1) (u2 + v2) ≤ N u1 u2 + N v1 v2
  homog : ∀ k u1 u2 : K, 0 ≤ k → N (k * u1) (k * u2) = k * N u1 u2
  reflX : ∀ u1 u2 : K, N (-u1) u2 = N u1 u2
  reflY : ∀ u1 u2 : K, N u1 (-u2) = N u1 u2
  swap : ∀ u1 u2 : K, N u1 u2 = N u2 u1

def detour (N : K → K → K) (a b c d x : K) : K := N (x - a) b + N (x - c) d

theorem detour_lower (N : K → K → K) (hN : IsNorm N) (a b c d x : K) :
    N (c - a) (b + d) ≤ detour N a b c d x := by
  unfold detour
  have h := hN.tri (x - a) b (c - x) d
  have e : x - a + (c - x) = c - a := by ring
  rw [e] at h
  have e2 : N (c - x) d = N (x - c) d := by
    rw [← hN.reflX]; congr 1; ring
  rw [e2] at h
  exact h

/-- the reflection point attains the lower bound -/
theorem detour_at_star (N : K → K → K) (hN : IsNorm N) (a b c d : K) (hb : 0 ≤ b) (hd : 0 ≤ d) (hS : 0 < b + d) :
    detour N a b c d ((b * c + a * d) / (b + d)) = N (c - a) (b + d) := by
  unfold detour
  have hS' : b + d ≠ 0 := ne_of_gt hS
  have e1 : (b * c + a * d) / (b + d) - a = (b / (b + d)) * (c - a) := by field_simp; ring
  have e2 : (b * c + a * d) / (b + d) - c = (d / (b + d)) * (-(c - a)) := by field_simp; ring
  have e3 : (b / (b + d)) * (b + d) = b := by field_simp
  have e4 : (d / (b + d)) * (b + d) = d := by field_simp
  have k1 : 0 ≤ b / (b + d) := div_nonneg hb (le_of_lt hS)
  have k2 : 0 ≤ d / (b + d) := div_nonneg hd (le_of_lt hS)
  have t1 : N ((b * c + a * d) / (b + d) - a) b = (b / (b + d)) * N (c - a) (b + d) := by
    rw [e1, ← hN.homog _ _ _ k1, e3]
  have t2 : N ((b * c + a * d) / (b + d) - c) d = (d / (b + d)) * N (c - a) (b + d) := by
    rw [e2, ← hN.reflX (c - a), ← hN.homog _ _ _ k2, e4]
  rw [t1, t2, ← add_mul]
  have : b / (b + d) + d / (b + d) = 1 := by field_simp
  rw [this, one_mul]

theorem detour_min (N : K → K → K) (hN : IsNorm N) (a b c d : K) (hb : 0 ≤ b) (hd : 0 ≤ d) (hS : 0 < b + d) (x : K) :
    detour N a b c d ((b * c + a * d) / (b + d)) ≤ detour N a b c d x := by
  rw [detour_at_star N hN a b c d hb hd hS]
  exact detour_lower N hN a b c d x

theorem detour_convex (N : K → K → K) (hN : IsNorm N) (a b c d x y l : K) (h0 : 0 ≤ l) (h1 : l ≤ 1) :
    detour N a b c d (l * x + (1 - l) * y) ≤ l * detour N a b c d x + (1 - l) * detour N a b c d y := by
  unfold detour
  have hl : 0 ≤ 1 - l := by linarith
  have p1 : N (l * x + (1 - l) * y - a) b ≤ l * N (x - a) b + (1 - l) * N (y - a) b := by
    have := hN.tri (l * (x - a)) (l * b) ((1 - l) * (y - a)) ((1 - l) * b)
    rw [hN.homog _ _ _ h0, hN.homog _ _ _ hl] at this
    have e1 : l * (x - a) + (1 - l) * (y - a) = l * x + (1 - l) * y - a := by ring
    have e2 : l * b + (1 - l) * b = b := by ring
    rw [e1, e2] at this
    exact this
  have p2 : N (l * x + (1 - l) * y - c) d ≤ l * N (x - c) d + (1 - l) * N (y - c) d := by
    have := hN.tri (l * (x - c)) (l * d) ((1 - l) * (y - c)) ((1 - l) * d)
    rw [hN.homog _ _ _ h0, hN.homog _ _ _ hl] at this
    have e1 : l * (x - c) + (1 - l) * (y - c) = l * x + (1 - l) * y - c := by ring
    have e2 : l * d + (1 - l) * d = d := by ring
    rw [e1, e2] at this
    exact this
  linarith

/-- `x = max(mn, x); x = min(mx, x)` -/
def clampK (mn mx x : K) : K :=
  let x := if mn < x then x else mn
  if x < mx then x else mx

/-- a convex function with a global minimiser `xs`: its minimum over [mn, mx] is at the clamped `xs` -/
theorem convex_clamp_min (g : K → K) (xs mn mx : K)
    (hconv : ∀ x y l : K, 0 ≤ l → l ≤ 1 → g (l * x + (1 - l) * y) ≤ l * g x + (1 - l) * g y)
    (hmin : ∀ x, g xs ≤ g x) (hmm : mn ≤ mx) (x : K) (hx0 : mn ≤ x) (hx1 : x ≤ mx) :
    g (clampK mn mx xs) ≤ g x := by
  unfold clampK
  by_cases h1 : mn < xs
  · simp only [h1, if_true]
    by_cases h2 : xs < mx
    · simp only [h2, if_true]; exact hmin x
    · simp only [h2, if_false]
      -- xs ≥ mx ≥ x : mx = l·xs + (1−l)·x
      have h2' : mx ≤ xs := not_lt.mp h2
      by_cases hxe : x = xs
      · have : mx = x := le_antisymm (by rw [hxe]; exact h2') hx1
        rw [this]
      · have hlt : x < xs := lt_of_le_of_ne (le_trans hx1 h2') hxe
        have hpos : 0 < xs - x := by linarith
        have hc := hconv xs x ((mx - x) / (xs - x)) (div_nonneg (by linarith) (le_of_lt hpos))
          (by rw [div_le_one hpos]; linarith)
        have e : (mx - x) / (xs - x) * xs + (1 - (mx - x) / (xs - x)) * x = mx := by
          field_simp; ring
        rw [e] at hc
        have hl0 : 0 ≤ (mx - x) / (xs - x) := div_nonneg (by linarith) (le_of_lt hpos)
        have := hmin x
        nlinarith [mul_le_mul_of_nonneg_left this hl0]
  · simp only [h1, if_false]
    have h1' : xs ≤ mn := not_lt.mp h1
    have hfin : g mn ≤ g x := by
      by_cases hxe : x = xs
      · have : mn = x := le_antisymm hx0 (by rw [hxe]; exact h1')
        rw [this]
      · have hlt : xs < x := lt_of_le_of_ne (le_trans h1' hx0) (Ne.symm hxe)
        have hpos : 0 < x - xs := by linarith
        have hc := hconv xs x ((x - mn) / (x - xs)) (div_nonneg (by linarith) (le_of_lt hpos))
          (by rw [div_le_one hpos]; linarith)
        have e : (x - mn) / (x - xs) * xs + (1 - (x - mn) / (x - xs)) * x = mn := by
          field_simp; ring
        rw [e] at hc
        have hl0 : 0 ≤ (x - mn) / (x - xs) := div_nonneg (by linarith) (le_of_lt hpos)
        have := hmin x
        nlinarith [mul_le_mul_of_nonneg_left this hl0]
    by_cases h2 : mn < mx
    · simp only [h2, if_true]; exact hfin
    · simp only [h2, if_false]
      have : mn = mx := le_antisymm hmm (not_lt.mp h2)
      rw [← this]; exact hfin

/-- **the clamped reflection point minimises the detour over the side** (b, d ≥ 0 not both zero) -/
theorem detour_clamp_min (N : K → K → K) (hN : IsNorm N) (a b c d mn mx : K) (hb : 0 ≤ b) (hd : 0 ≤ d)
    (hS : 0 < b + d) (hmm : mn ≤ mx) (x : K) (hx0 : mn ≤ x) (hx1 : x ≤ mx) :
    detour N a b c d (clampK mn mx ((b * c + a * d) / (b + d))) ≤ detour N a b c d x :=
  convex_clamp_min (detour N a b c d) _ mn mx (fun x y l h0 h1 => detour_convex N hN a b c d x y l h0 h1)
    (detour_min N hN a b c d hb hd hS) hmm x hx0 hx1

/-- the same with start and end both on the other side of the line (b, d ≤ 0) -/
theorem detour_clamp_min_neg (N : K → K → K) (hN : IsNorm N) (a b c d mn mx : K) (hb : b ≤ 0) (hd : d ≤ 0)
    (hS : b + d < 0) (hmm : mn ≤ mx) (x : K) (hx0 : mn ≤ x) (hx1 : x ≤ mx) :
    detour N a b c d (clampK mn mx ((b * c + a * d) / (b + d))) ≤ detour N a b c d x := by
  have key := detour_clamp_min N hN a (-b) c (-d) mn mx (by linarith) (by linarith) (by linarith) hmm x hx0 hx1
  have e : (-b * c + a * -d) / (-b + -d) = (b * c + a * d) / (b + d) := by
    have h1 : b + d ≠ 0 := ne_of_lt hS
    have h2 : -b + -d ≠ 0 := by intro h; apply h1; linarith
    field_simp; ring
  rw [e] at key
  unfold detour at key ⊢
  simp only [hN.reflY] at key
  exact key

end AdaptaVerif.Lemmas.RerouteEstimate
