/-
Helper lemmas for the C13 state checkers (Check/Topo.lean).
-/
import AdaptaVerif.Check.Topo
import AdaptaVerif.Lemmas.RouteRect
import Mathlib.Tactic.Linarith
import Mathlib.Tactic.Ring
import Mathlib.Order.Lattice
import Mathlib.Algebra.Order.Field.Basic
namespace AdaptaVerif.Lemmas.Topo
open AdaptaVerif.Check.RouteRect AdaptaVerif.Check.Topo AdaptaVerif.Lemmas.RouteRect

theorem eps_pos : (0 : Rat) < eps := by unfold eps; norm_num

/-- the two open intervals, each shrunk by eps/2 at both ends, share a point -/
def Overlap1 (a0 a1 b0 b1 : Rat) : Prop :=
  ∃ x : Rat, a0 + eps / 2 < x ∧ x < a1 - eps / 2 ∧ b0 + eps / 2 < x ∧ x < b1 - eps / 2

theorem overlap1_iff (a0 a1 b0 b1 : Rat) : overlap1 a0 a1 b0 b1 = true ↔ Overlap1 a0 a1 b0 b1 := by
  unfold overlap1 Overlap1
  simp only [Bool.and_eq_true, decide_eq_true_eq]
  constructor
  · rintro ⟨⟨⟨h1, h2⟩, h3⟩, h4⟩
    have hL : max a0 b0 + eps / 2 < min a1 b1 - eps / 2 := by
      have : max a0 b0 + eps < min a1 b1 := by
        rcases max_cases a0 b0 with ⟨hm, _⟩ | ⟨hm, _⟩ <;> rcases min_cases a1 b1 with ⟨hn, _⟩ | ⟨hn, _⟩ <;>
          rw [hm, hn] <;> linarith
      linarith
    obtain ⟨x, hx1, hx2⟩ := exists_between hL
    have ha0 := le_max_left a0 b0
    have hb0 := le_max_right a0 b0
    have ha1 := min_le_left a1 b1
    have hb1 := min_le_right a1 b1
    exact ⟨x, by linarith, by linarith, by linarith, by linarith⟩
  · rintro ⟨x, h1, h2, h3, h4⟩
    exact ⟨⟨⟨by linarith, by linarith⟩, by linarith⟩, by linarith⟩

theorem crossesLine_split (ac vc bc c : Rat)
    (hmono : (ac ≤ vc ∧ vc ≤ bc) ∨ (bc ≤ vc ∧ vc ≤ ac)) :
    (crossesLine ac bc c = true) ↔ ((crossesLine ac vc c = true) ∨ (crossesLine vc bc c = true)) := by
  unfold crossesLine
  simp only [Bool.or_eq_true, Bool.and_eq_true, decide_eq_true_eq]
  rcases hmono with ⟨h1, h2⟩ | ⟨h1, h2⟩
  · constructor
    · rintro (⟨h3, h4⟩ | ⟨h3, h4⟩)
      · by_cases hc : c < vc
        · exact Or.inl (Or.inl ⟨h3, hc⟩)
        · exact Or.inr (Or.inl ⟨not_lt.mp hc, h4⟩)
      · exfalso; linarith
    · rintro ((⟨h3, h4⟩ | ⟨h3, h4⟩) | (⟨h3, h4⟩ | ⟨h3, h4⟩))
      · exact Or.inl ⟨h3, by linarith⟩
      · exfalso; linarith
      · exact Or.inl ⟨by linarith, h4⟩
      · exfalso; linarith
  · constructor
    · rintro (⟨h3, h4⟩ | ⟨h3, h4⟩)
      · exfalso; linarith
      · by_cases hc : c < vc
        · exact Or.inr (Or.inr ⟨h3, hc⟩)
        · exact Or.inl (Or.inr ⟨not_lt.mp hc, h4⟩)
    · rintro ((⟨h3, h4⟩ | ⟨h3, h4⟩) | (⟨h3, h4⟩ | ⟨h3, h4⟩))
      · exfalso; linarith
      · exact Or.inr ⟨by linarith, h4⟩
      · exfalso; linarith
      · exact Or.inr ⟨h3, by linarith⟩

/-- the two alternatives of `crossesLine_split` exclude each other: the count is additive -/
theorem crossesLine_split_excl (ac vc bc c : Rat)
    (hmono : (ac ≤ vc ∧ vc ≤ bc) ∨ (bc ≤ vc ∧ vc ≤ ac)) :
    ¬ (crossesLine ac vc c = true ∧ crossesLine vc bc c = true) := by
  unfold crossesLine
  simp only [Bool.or_eq_true, Bool.and_eq_true, decide_eq_true_eq]
  rintro ⟨(⟨h3, h4⟩ | ⟨h3, h4⟩), (⟨h5, h6⟩ | ⟨h5, h6⟩)⟩ <;>
    rcases hmono with ⟨h1, h2⟩ | ⟨h1, h2⟩ <;> linarith

/-- half-open rule: a leg crosses the line iff exactly one of its ends is "low" (≤ c) -/
theorem crossesLine_eq_low_xor (ac bc c : Rat) :
    crossesLine ac bc c = (decide (ac ≤ c) != decide (bc ≤ c)) := by
  unfold crossesLine
  by_cases h1 : ac ≤ c <;> by_cases h2 : bc ≤ c <;>
    simp [h1, h2, not_le.mp, not_lt.mpr]

end AdaptaVerif.Lemmas.Topo
