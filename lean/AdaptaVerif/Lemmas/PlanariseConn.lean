/-
Connections through the computeCrossings sweep: cutting two segments at a new node preserves every
connection (`joined_cross`, `reach_reroute`); tail tracking; every original segment stays connected end to
end through crossing nodes only.
-/
import AdaptaVerif.Lemmas.PlanariseSweep
namespace AdaptaVerif.Lemmas.Planarise
open AdaptaVerif.Model.Planarise

/-! ### cutting two segments at a new node preserves every connection -/

/-- some segment joins `a` and `b` (in either direction) -/
def Joined (segs : List Seg) (a b : Node) : Prop :=
  ∃ t ∈ segs, (t.on = a ∧ t.cn = b) ∨ (t.on = b ∧ t.cn = a)

/-- `b` is reachable from `a` along segments, all intermediate nodes being in `new` -/
inductive Reach (segs : List Seg) (new : List Node) : Node → Node → Prop
  | edge {a b : Node} : Joined segs a b → Reach segs new a b
  | step {a m b : Node} : Joined segs a m → m ∈ new → Reach segs new m b → Reach segs new a b

theorem Joined.symm {segs : List Seg} {a b : Node} (h : Joined segs a b) : Joined segs b a := by
  obtain ⟨t, ht, h⟩ := h; exact ⟨t, ht, h.symm⟩

theorem reach_reroute {segs segs' : List Seg} {new : List Node} {cr : Node}
    (hJ : ∀ a b, Joined segs a b → Joined segs' a b ∨ (Joined segs' a cr ∧ Joined segs' cr b))
    {a b : Node} (h : Reach segs new a b) : Reach segs' (cr :: new) a b := by
  induction h with
  | edge hj =>
    rcases hJ _ _ hj with h | ⟨h1, h2⟩
    · exact Reach.edge h
    · exact Reach.step h1 (by simp) (Reach.edge h2)
  | step hj hm _ ih =>
    rcases hJ _ _ hj with h | ⟨h1, h2⟩
    · exact Reach.step h (by simp [hm]) ih
    · exact Reach.step h1 (by simp) (Reach.step h2 (by simp [hm]) ih)

/-- `a – m₁ – … – mₖ – b` consecutively joined by segments of `segs` -/
def Linked (segs : List Seg) : List Node → Prop
  | a :: b :: rest => Joined segs a b ∧ Linked segs (b :: rest)
  | _ => True

theorem linked_of_reach {segs : List Seg} {new : List Node} {a b : Node} (h : Reach segs new a b) :
    ∃ mids : List Node, (∀ m ∈ mids, m ∈ new) ∧ Linked segs (a :: mids ++ [b]) := by
  induction h with
  | edge hj => exact ⟨[], by simp, by simp [Linked, hj]⟩
  | @step a m b hj hm _ ih =>
    obtain ⟨mids, h1, h2⟩ := ih
    refine ⟨m :: mids, ?_, ?_⟩
    · intro m hm'; rcases List.mem_cons.1 hm' with rfl | h
      · exact hm
      · exact h1 m h
    · simp only [List.cons_append, Linked]; exact ⟨hj, h2⟩


theorem mkSeg_ends (a b : Node) : ((mkSeg a b).on = a ∧ (mkSeg a b).cn = b) ∨ ((mkSeg a b).on = b ∧ (mkSeg a b).cn = a) := by
  unfold mkSeg
  simp only
  by_cases h1 : absR (b.p.y - a.p.y) ≤ absR (b.p.x - a.p.x) <;> by_cases h2 : b.p.x - a.p.x > 0 <;>
    by_cases h3 : b.p.y - a.p.y > 0 <;> simp [h1, h2, h3]

theorem joined_cross {segs : List Seg} {a1 a2 : Nat} {t1 t2 : Seg} {cr c1 c2 : Node}
    (h1 : segs[a1]? = some t1) (h2 : segs[a2]? = some t2) (hne : a1 ≠ a2)
    (hc1 : t1.cn = c1) (hc2 : t2.cn = c2) {a b : Node}
    (h : Joined segs a b) :
    let segs' := ((segs.set a1 (t1.setNewClosing cr)).set a2 (t2.setNewClosing cr)) ++ [mkSeg cr c1] ++ [mkSeg cr c2]
    Joined segs' a b ∨ (Joined segs' a cr ∧ Joined segs' cr b) := by
  intro segs'
  obtain ⟨t, ht, hab⟩ := h
  obtain ⟨idx, hidx⟩ := List.getElem?_of_mem ht
  have l1 : a1 < segs.length := (List.getElem?_eq_some_iff.1 h1).1
  have l2 : a2 < segs.length := (List.getElem?_eq_some_iff.1 h2).1
  have m1 : t1.setNewClosing cr ∈ segs' := by
    apply List.mem_append_left; apply List.mem_append_left
    apply List.mem_of_getElem? (i := a1)
    rw [List.getElem?_set, if_neg (Ne.symm hne), List.getElem?_set]; simp [l1]
  have m2 : t2.setNewClosing cr ∈ segs' := by
    apply List.mem_append_left; apply List.mem_append_left
    apply List.mem_of_getElem? (i := a2)
    rw [List.getElem?_set]; simp [l2]
  have n1 : mkSeg cr c1 ∈ segs' := by simp [segs']
  have n2 : mkSeg cr c2 ∈ segs' := by simp [segs']
  have jc1 : Joined segs' cr c1 := ⟨_, n1, mkSeg_ends cr c1⟩
  have jc2 : Joined segs' cr c2 := ⟨_, n2, mkSeg_ends cr c2⟩
  have jo1 : Joined segs' t1.on cr := ⟨_, m1, Or.inl ⟨rfl, rfl⟩⟩
  have jo2 : Joined segs' t2.on cr := ⟨_, m2, Or.inl ⟨rfl, rfl⟩⟩
  by_cases e1 : idx = a1
  · subst e1; rw [h1] at hidx; cases hidx
    right
    rcases hab with ⟨rfl, rfl⟩ | ⟨rfl, rfl⟩
    · exact ⟨jo1, hc1 ▸ jc1⟩
    · exact ⟨(hc1 ▸ jc1).symm, jo1.symm⟩
  · by_cases e2 : idx = a2
    · subst e2; rw [h2] at hidx; cases hidx
      right
      rcases hab with ⟨rfl, rfl⟩ | ⟨rfl, rfl⟩
      · exact ⟨jo2, hc2 ▸ jc2⟩
      · exact ⟨(hc2 ▸ jc2).symm, jo2.symm⟩
    · left
      refine ⟨t, ?_, hab⟩
      apply List.mem_append_left; apply List.mem_append_left
      apply List.mem_of_getElem? (i := idx)
      rw [List.getElem?_set, if_neg (Ne.symm e2), List.getElem?_set, if_neg (Ne.symm e1)]; exact hidx

variable {S : List Seg} {P : Nat → Prop} {st : SwState}

/-- tail tracking: the segment an OPEN/SUSTAIN event points to ends at the original closing node, as long as
the event's end node has not reached it -/
structure Tr (S : List Seg) (st : SwState) : Prop where
  reach : ∀ (i : Nat) (s : Seg), S[i]? = some s → Reach st.segs st.cross s.on s.cn
  inj : ∀ (i j : Nat) (ei ej : Ev), st.evs[2 * i]? = some ei → st.evs[2 * j]? = some ej → ei.seg = ej.seg → i = j
  tailV : ∀ (k : Nat) (sk : Seg) (ov : Ev), S[k]? = some sk → sk.ori = .V → st.evs[2 * k]? = some ov →
    ov.endpt.p.y < sk.hi ∧ ∃ t, st.segs[ov.seg]? = some t ∧ t.cn = sk.cn
  tailH : ∀ (i : Nat) (si : Seg) (e : Ev), S[i]? = some si → si.ori = .H → st.evs[2 * i]? = some e → e.endpt.p.x < si.hi →
    ∃ t, st.segs[e.seg]? = some t ∧ t.cn = si.cn

theorem Tr.same {st' : SwState} (hT : Tr S st) (h1 : st'.segs = st.segs) (h2 : st'.evs = st.evs)
    (h3 : st'.cross = st.cross) : Tr S st' := by
  refine ⟨?_, ?_, ?_, ?_⟩
  · rw [h1, h3]; exact hT.reach
  · rw [h2]; exact hT.inj
  · rw [h1, h2]; exact hT.tailV
  · rw [h1, h2]; exact hT.tailH

/-- the OPEN arm of a horizontal only changes the type of its event -/
theorem Tr.setTy (hT : Tr S st) {x : Nat} {eo : Ev} (hx : st.evs[x]? = some eo) (ty : EvType)
    {st' : SwState} (h1 : st'.segs = st.segs) (h2 : st'.evs = st.evs.set x { eo with ty := ty })
    (h3 : st'.cross = st.cross) : Tr S st' := by
  have hget : ∀ (y : Nat) (e : Ev), st'.evs[y]? = some e → ∃ e0 : Ev, st.evs[y]? = some e0 ∧ e.seg = e0.seg ∧ e.endpt = e0.endpt := by
    intro y e hy
    rw [h2, List.getElem?_set] at hy
    split at hy
    · rename_i hxy; subst hxy
      split at hy
      · cases hy; exact ⟨eo, hx, rfl, rfl⟩
      · cases hy
    · exact ⟨e, hy, rfl, rfl⟩
  refine ⟨?_, ?_, ?_, ?_⟩
  · rw [h1, h3]; exact hT.reach
  · intro i j ei ej hi hj hs
    obtain ⟨ei0, a1, a2, _⟩ := hget _ _ hi
    obtain ⟨ej0, b1, b2, _⟩ := hget _ _ hj
    exact hT.inj i j ei0 ej0 a1 b1 (by rw [← a2, ← b2]; exact hs)
  · intro k sk ov hs hV ho
    obtain ⟨e0, a1, a2, a3⟩ := hget _ _ ho
    rw [h1, a2, a3]; exact hT.tailV k sk e0 hs hV a1
  · intro i si e hs hH he hlt
    obtain ⟨e0, a1, a2, a3⟩ := hget _ _ he
    rw [h1, a2]; rw [a3] at hlt; exact hT.tailH i si e0 hs hH a1 hlt

theorem cross_setup (hI : Inv S P st) {i k : Nat} {si sk : Seg}
    (hsi : S[i]? = some si) (hHi : si.ori = .H) (hsk : S[k]? = some sk) (hVk : sk.ori = .V)
    {e ov : Ev} (he : st.evs[2 * i]? = some e) (hov : st.evs[2 * k]? = some ov) :
    ∃ (so sv : Seg) (ec ec' : Ev), st.segs[e.seg]? = some so ∧ st.segs[ov.seg]? = some sv ∧ e.seg ≠ ov.seg ∧
      st.evs[2 * i + 1]? = some ec ∧ st.evs[2 * k + 1]? = some ec' ∧ ec.endpt = si.cn ∧ ec'.endpt = sk.cn ∧
      e.cc = si.cc ∧ ov.cc = sk.cc ∧ e.comp = 2 * i + 1 ∧ ov.comp = 2 * k + 1 ∧
      crossAt st (2 * i) (2 * k) e ov =
      { st with
        segs := ((st.segs.set e.seg (so.setNewClosing ⟨st.nextId, ⟨ov.cc, e.cc⟩⟩)).set ov.seg
                  (sv.setNewClosing ⟨st.nextId, ⟨ov.cc, e.cc⟩⟩)) ++ [mkSeg ⟨st.nextId, ⟨ov.cc, e.cc⟩⟩ ec.endpt]
                  ++ [mkSeg ⟨st.nextId, ⟨ov.cc, e.cc⟩⟩ ec'.endpt],
        evs := (((st.evs.set e.comp { ec with seg := st.segs.length }).set ov.comp
                  { ec' with seg := st.segs.length + 1 }).set (2 * i)
                  { e with seg := st.segs.length, endpt := ⟨st.nextId, ⟨ov.cc, e.cc⟩⟩, vc := ov.cc }).set (2 * k)
                  { ov with seg := st.segs.length + 1, endpt := ⟨st.nextId, ⟨ov.cc, e.cc⟩⟩, vc := e.cc },
        cross := ⟨st.nextId, ⟨ov.cc, e.cc⟩⟩ :: st.cross, nextId := st.nextId + 1 } := by
  have hik : i ≠ k := H_not_V hsi hHi hsk hVk
  obtain ⟨eo, ec, h0, h1, h2, h3, h4, h5, h6, h7, h8, h9, h10⟩ := hI.ev i si hsi
  rw [he] at h0; cases h0
  obtain ⟨eo', ec', k0, k1, k2, k3, k4, k5, k6, k7, k8, k9, k10⟩ := hI.ev k sk hsk
  rw [hov] at k0; cases k0
  obtain ⟨so, hso, hsoo⟩ := oriAt_some h7
  obtain ⟨sv, hsv, hsvo⟩ := oriAt_some k7
  have hseg_ne : e.seg ≠ ov.seg := by
    intro h; rw [h] at hso; rw [hso] at hsv; cases hsv; rw [hsoo] at hsvo; rw [hHi, hVk] at hsvo; cases hsvo
  have h2' : (st.segs.set e.seg (so.setNewClosing ⟨st.nextId, ⟨ov.cc, e.cc⟩⟩))[ov.seg]? = some sv := by
    rw [List.getElem?_set, if_neg hseg_ne]; exact hsv
  have h3' : st.evs[e.comp]? = some ec := by rw [h3]; exact h1
  have h4' : (st.evs.set e.comp { ec with seg := st.segs.length })[ov.comp]? = some ec' := by
    rw [List.getElem?_set, if_neg (by rw [h3, k3]; omega), k3]; exact k1
  exact ⟨so, sv, ec, ec', hso, hsv, hseg_ne, h1, k1, h6, k6, h2, k2, h3, k3,
    crossAt_eq st (2 * i) (2 * k) e ov so sv ec ec' hso h2' h3' h4'⟩

theorem mkSeg_fwd_H {a b : Node} (hy : a.p.y = b.p.y) (hx : a.p.x < b.p.x) : (mkSeg a b).cn = b := by
  unfold mkSeg
  have h0 : b.p.y - a.p.y = 0 := by grind
  have h1 : absR (b.p.y - a.p.y) ≤ absR (b.p.x - a.p.x) := by
    rw [h0]; have := absR_nonneg (b.p.x - a.p.x); unfold absR at *; grind
  have h2 : b.p.x - a.p.x > 0 := by grind
  simp [h1, h2]

theorem mkSeg_fwd_V {a b : Node} (hx : a.p.x = b.p.x) (hy : a.p.y < b.p.y) : (mkSeg a b).cn = b := by
  unfold mkSeg
  have h0 : b.p.x - a.p.x = 0 := by grind
  have h1 : ¬ absR (b.p.y - a.p.y) ≤ absR (b.p.x - a.p.x) := by
    rw [h0]; have := absR_pos (r := b.p.y - a.p.y) (by grind); unfold absR at *; grind
  have h2 : b.p.y - a.p.y > 0 := by grind
  simp [h1, h2]

theorem tr_cross (hG : Good S) (hI : Inv S P st) (hT : Tr S st) {i k : Nat} {si sk : Seg}
    (hsi : S[i]? = some si) (hHi : si.ori = .H) (hsk : S[k]? = some sk) (hVk : sk.ori = .V)
    {e ov : Ev} (he : st.evs[2 * i]? = some e) (hov : st.evs[2 * k]? = some ov)
    (hlt : e.endpt.p.x < si.hi) (hcc : si.cc < sk.hi) :
    Tr S (crossAt st (2 * i) (2 * k) e ov) := by
  have hik : i ≠ k := H_not_V hsi hHi hsk hVk
  have shi := hG.segH hsi hHi
  have shk := hG.segV hsk hVk
  obtain ⟨so, sv, ec, ec', hso, hsv, hne, h1, k1, h6, k6, h2, k2, h3, k3, heq⟩ :=
    cross_setup hI hsi hHi hsk hVk he hov
  obtain ⟨t1, ht1, hc1⟩ := hT.tailH i si e hsi hHi he hlt
  rw [hso] at ht1; cases ht1
  obtain ⟨hyv, t2, ht2, hc2⟩ := hT.tailV k sk ov hsk hVk hov
  rw [hsv] at ht2; cases ht2
  rw [heq]
  -- old segment indices are in range
  have hrange : ∀ j ej, st.evs[2 * j]? = some ej → ej.seg < st.segs.length := by
    intro j ej hj
    have hjl : j < S.length := by
      have := (List.getElem?_eq_some_iff.1 hj).1; rw [hI.len] at this; omega
    obtain ⟨eo, _, g0, _, _, _, _, _, _, g7, _⟩ := hI.ev j _ (List.getElem?_eq_getElem hjl)
    rw [hj] at g0; cases g0
    obtain ⟨t, ht, _⟩ := oriAt_some g7
    exact (List.getElem?_eq_some_iff.1 ht).1
  -- events at even indices after the cut
  have hev : ∀ j ej,
      ((((st.evs.set e.comp { ec with seg := st.segs.length }).set ov.comp
        { ec' with seg := st.segs.length + 1 }).set (2 * i)
        { e with seg := st.segs.length, endpt := ⟨st.nextId, ⟨ov.cc, e.cc⟩⟩, vc := ov.cc }).set (2 * k)
        { ov with seg := st.segs.length + 1, endpt := ⟨st.nextId, ⟨ov.cc, e.cc⟩⟩, vc := e.cc })[2 * j]? = some ej →
      (j = k ∧ ej = { ov with seg := st.segs.length + 1, endpt := ⟨st.nextId, ⟨ov.cc, e.cc⟩⟩, vc := e.cc }) ∨
      (j = i ∧ ej = { e with seg := st.segs.length, endpt := ⟨st.nextId, ⟨ov.cc, e.cc⟩⟩, vc := ov.cc }) ∨
      (j ≠ i ∧ j ≠ k ∧ st.evs[2 * j]? = some ej) := by
    intro j ej hj
    rw [List.getElem?_set] at hj
    split at hj
    · rename_i hkj
      have : j = k := by omega
      split at hj
      · cases hj; exact Or.inl ⟨this, rfl⟩
      · cases hj
    · rename_i hkj
      rw [List.getElem?_set] at hj
      split at hj
      · rename_i hij
        have : j = i := by omega
        split at hj
        · cases hj; exact Or.inr (Or.inl ⟨this, rfl⟩)
        · cases hj
      · rename_i hij
        rw [List.getElem?_set, if_neg (by rw [k3]; omega), List.getElem?_set, if_neg (by rw [h3]; omega)] at hj
        exact Or.inr (Or.inr ⟨by omega, by omega, hj⟩)
  -- segments after the cut
  have hsegL : ∀ (x y : Seg), ((((st.segs.set e.seg (so.setNewClosing ⟨st.nextId, ⟨ov.cc, e.cc⟩⟩)).set ov.seg
      (sv.setNewClosing ⟨st.nextId, ⟨ov.cc, e.cc⟩⟩)) ++ [x]) ++ [y])[st.segs.length]? = some x := by
    intro x y
    rw [List.getElem?_append_left (by simp), List.getElem?_append_right (by simp)]; simp
  have hsegL1 : ∀ (x y : Seg), ((((st.segs.set e.seg (so.setNewClosing ⟨st.nextId, ⟨ov.cc, e.cc⟩⟩)).set ov.seg
      (sv.setNewClosing ⟨st.nextId, ⟨ov.cc, e.cc⟩⟩)) ++ [x]) ++ [y])[st.segs.length + 1]? = some y := by
    intro x y
    rw [List.getElem?_append_right (by simp)]; simp
  have hsegOld : ∀ (x y : Seg) (idx : Nat) (t : Seg), st.segs[idx]? = some t → idx ≠ e.seg → idx ≠ ov.seg →
      ((((st.segs.set e.seg (so.setNewClosing ⟨st.nextId, ⟨ov.cc, e.cc⟩⟩)).set ov.seg
      (sv.setNewClosing ⟨st.nextId, ⟨ov.cc, e.cc⟩⟩)) ++ [x]) ++ [y])[idx]? = some t := by
    intro x y idx t ht n1 n2
    have hl := (List.getElem?_eq_some_iff.1 ht).1
    rw [List.getElem?_append_left (by simp; omega), List.getElem?_append_left (by simp; omega),
      List.getElem?_set, if_neg (Ne.symm n2), List.getElem?_set, if_neg (Ne.symm n1)]
    exact ht
  refine ⟨?_, ?_, ?_, ?_⟩
  · intro j s hs
    exact reach_reroute (fun a b hj => joined_cross hso hsv hne (hc1.trans h6.symm) (hc2.trans k6.symm) hj)
      (hT.reach j s hs)
  · intro a b ea eb ha hb hseg
    simp only at ha hb
    rcases hev a ea ha with ⟨rfl, rfl⟩ | ⟨rfl, rfl⟩ | ⟨a1, a2, a3⟩ <;>
      rcases hev b eb hb with ⟨rfl, rfl⟩ | ⟨rfl, rfl⟩ | ⟨b1, b2, b3⟩
    · rfl
    · simp at hseg
    · have := hrange _ _ b3; simp only at hseg; omega
    · simp at hseg
    · rfl
    · have := hrange _ _ b3; simp only at hseg; omega
    · have := hrange _ _ a3; simp only at hseg; omega
    · have := hrange _ _ a3; simp only at hseg; omega
    · exact hT.inj a b ea eb a3 b3 hseg
  · intro k' sk' ov' hs' hV' ho'
    simp only at ho' ⊢
    rcases hev k' ov' ho' with ⟨rfl, rfl⟩ | ⟨rfl, rfl⟩ | ⟨a1, a2, a3⟩
    · rw [hsk] at hs'; cases hs'
      simp only
      refine ⟨by rw [h2]; exact hcc, _, hsegL1 _ _, ?_⟩
      rw [k6]
      apply mkSeg_fwd_V
      · simp only; rw [k2, shk.2.2.1]
      · simp only; rw [h2, shk.2.2.2.2.1]; exact hcc
    · rw [hsi] at hs'; cases hs'; rw [hHi] at hV'; cases hV'
    · obtain ⟨hy, t, ht, hc⟩ := hT.tailV k' sk' ov' hs' hV' a3
      refine ⟨hy, t, hsegOld _ _ _ _ ht ?_ ?_, hc⟩
      · intro h; exact a1 (hT.inj k' i ov' e a3 he h)
      · intro h; exact a2 (hT.inj k' k ov' ov a3 hov h)
  · intro i' si' e' hs' hH' he' hlt'
    simp only at he' ⊢
    rcases hev i' e' he' with ⟨rfl, rfl⟩ | ⟨rfl, rfl⟩ | ⟨a1, a2, a3⟩
    · rw [hsk] at hs'; cases hs'; rw [hVk] at hH'; cases hH'
    · rw [hsi] at hs'; cases hs'
      simp only at hlt' ⊢
      refine ⟨_, hsegL _ _, ?_⟩
      rw [h6]
      apply mkSeg_fwd_H
      · simp only; rw [h2, shi.2.2.1]
      · simp only; rw [shi.2.2.2.2.1]; exact hlt'
    · obtain ⟨t, ht, hc⟩ := hT.tailH i' si' e' hs' hH' a3 hlt'
      refine ⟨t, hsegOld _ _ _ _ ht ?_ ?_, hc⟩
      · intro h; exact a1 (hT.inj i' i e' e a3 he h)
      · intro h; exact a2 (hT.inj i' k e' ov a3 hov h)


end AdaptaVerif.Lemmas.Planarise
