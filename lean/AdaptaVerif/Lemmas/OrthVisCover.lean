/-
Lemmas about `Model/OrthVis.lean`, part 5 (core Lean only): nothing is lost by merging — every candidate
segment is covered (extent and vertices) by a merged line; the vertices of a line survive the crossing
phase; hence every connector end point lies on a horizontal line that reaches the limits its sweep
computed, and on the vertical line through it.
-/
import AdaptaVerif.Lemmas.OrthVisEdges

namespace AdaptaVerif.Lemmas.OrthVis
open AdaptaVerif.Model.OrthVis

/-- `m` covers `s`: same position, extent and vertices contain those of `s` -/
def Covers (m s : Seg) : Prop := m.p = s.p ∧ m.b ≤ s.b ∧ s.f ≤ m.f ∧ ∀ q ∈ s.vs, q ∈ m.vs

theorem Covers.refl (s : Seg) : Covers s s := ⟨rfl, Rat.le_refl, Rat.le_refl, fun _ h => h⟩

theorem Covers.trans {a b c : Seg} (h1 : Covers a b) (h2 : Covers b c) : Covers a c := by
  obtain ⟨p1, b1, f1, v1⟩ := h1
  obtain ⟨p2, b2, f2, v2⟩ := h2
  exact ⟨p1.trans p2, by grind, by grind, fun q hq => v1 q (v2 q hq)⟩

theorem merge_covers_left (a b : Seg) : Covers (a.merge b) a := by
  unfold Seg.merge Covers
  refine ⟨rfl, by simp only; grind, by simp only; grind, fun q hq => by simp [hq]⟩

theorem merge_covers_right (a b : Seg) (hp : a.p = b.p) : Covers (a.merge b) b := by
  unfold Seg.merge Covers
  refine ⟨hp, by simp only; grind, by simp only; grind, fun q hq => by simp [hq]⟩

theorem overlaps_p {a b : Seg} (h : a.overlaps b = true) : a.p = b.p := by
  unfold Seg.overlaps at h
  simp only [Bool.and_eq_true, beq_iff_eq] at h
  exact h.1

theorem foldl_merge_p (ov : List Seg) (m : Seg) : (ov.foldl Seg.merge m).p = m.p := by
  induction ov generalizing m with
  | nil => rfl
  | cons c r ih => simp only [List.foldl_cons]; rw [ih]; rfl

theorem foldl_merge_covers (ov : List Seg) (m : Seg) (hp : ∀ c ∈ ov, c.p = m.p) :
    Covers (ov.foldl Seg.merge m) m ∧ ∀ c ∈ ov, Covers (ov.foldl Seg.merge m) c := by
  induction ov generalizing m with
  | nil => exact ⟨Covers.refl m, by simp⟩
  | cons c r ih =>
    simp only [List.foldl_cons]
    have hc : m.p = c.p := (hp c (by simp)).symm
    obtain ⟨i1, i2⟩ := ih (m.merge c) (fun c' hc' => by rw [hp c' (by simp [hc'])]; rfl)
    refine ⟨i1.trans (merge_covers_left m c), ?_⟩
    intro c' hc'
    rcases List.mem_cons.mp hc' with rfl | hc'
    · exact i1.trans (merge_covers_right m c' hc)
    · exact i2 c' hc'

theorem insertSeg_covers (l : List Seg) (s x : Seg) (hx : x = s ∨ x ∈ l) :
    ∃ m ∈ insertSeg l s, Covers m x := by
  unfold insertSeg
  have hfc := foldl_merge_covers (l.filter fun c => c.overlaps s) s
    (fun c hc => overlaps_p (List.mem_filter.mp hc).2)
  rcases hx with rfl | hx
  · exact ⟨_, by simp, hfc.1⟩
  · by_cases ho : x.overlaps s = true
    · exact ⟨_, by simp, hfc.2 x (List.mem_filter.mpr ⟨hx, ho⟩)⟩
    · refine ⟨x, ?_, Covers.refl x⟩
      apply List.mem_append_left
      exact List.mem_filter.mpr ⟨hx, by simpa using ho⟩

theorem mergeAll_covers (raw : List Seg) : ∀ x ∈ raw, ∃ m ∈ mergeAll raw, Covers m x := by
  unfold mergeAll
  suffices H : ∀ (acc : List Seg) (x : Seg), (x ∈ raw ∨ ∃ m ∈ acc, Covers m x) →
      ∃ m ∈ raw.foldl insertSeg acc, Covers m x from fun x hx => H [] x (Or.inl hx)
  induction raw with
  | nil =>
    intro acc x hx
    rcases hx with hx | hx
    · simp at hx
    · exact hx
  | cons s r ih =>
    intro acc x hx
    simp only [List.foldl_cons]
    apply ih
    rcases hx with hx | ⟨m, hm, hc⟩
    · rcases List.mem_cons.mp hx with rfl | hx
      · exact Or.inr (insertSeg_covers acc x x (Or.inl rfl))
      · exact Or.inl hx
    · obtain ⟨m', hm', hc'⟩ := insertSeg_covers acc s m (Or.inr hm)
      exact Or.inr ⟨m', hm', hc'.trans hc⟩

/-! ### vertices survive the crossing phase -/

theorem mem_ensure_of_mem {vs : List LV} {t : Rat} {q : LV} (h : q ∈ vs) : q ∈ ensure vs t := by
  unfold ensure; split
  · exact h
  · exact List.mem_append_left _ h

theorem mem_ensureFin_of_mem {inf : Rat} {vs : List LV} {t : Rat} {q : LV} (h : q ∈ vs) :
    q ∈ ensureFin inf vs t := by
  unfold ensureFin; split
  · exact h
  · exact mem_ensure_of_mem h

theorem mem_foldl_ensure_of_mem {ts : List Rat} {vs : List LV} {q : LV} (h : q ∈ vs) :
    q ∈ ts.foldl ensure vs := by
  induction ts generalizing vs with
  | nil => exact h
  | cons t r ih => exact ih (mem_ensure_of_mem h)

theorem mem_hVerts_of_mem (lo hi : Rat) (vls : List Seg) (h : Seg) {q : LV} (hq : q ∈ h.vs) :
    q ∈ hVerts lo hi vls h := by
  unfold hVerts
  apply mem_foldl_ensure_of_mem
  apply mem_ensureFin_of_mem
  apply mem_ensureFin_of_mem
  unfold hBase
  exact List.mem_append_left _ hq

theorem mem_vVerts_of_from (lo hi : Rat) (hls : List (Seg × List LV)) (v : Seg) (p : Seg × List LV)
    (hp : p ∈ hls) {q : LV} (hq : q ∈ vFrom v p.1 p.2) : q ∈ vVerts lo hi hls v := by
  unfold vVerts
  apply mem_ensureFin_of_mem
  apply mem_ensureFin_of_mem
  exact List.mem_flatMap.mpr ⟨p, hp, hq⟩

/-! ### `maxL` / `minL` attain -/

theorem maxL_mem (a : Rat) (l : List Rat) : maxL a l = a ∨ maxL a l ∈ l := by
  unfold maxL
  induction l generalizing a with
  | nil => simp
  | cons b r ih =>
    simp only [List.foldl_cons]
    rcases ih (max a b) with h | h
    · rw [h]
      by_cases hab : a ≤ b
      · right; simp [Rat.max_def, hab]
      · left; simp [Rat.max_def, hab]
    · right; simp [h]

theorem minL_mem (a : Rat) (l : List Rat) : minL a l = a ∨ minL a l ∈ l := by
  unfold minL
  induction l generalizing a with
  | nil => simp
  | cons b r ih =>
    simp only [List.foldl_cons]
    rcases ih (min a b) with h | h
    · rw [h]
      by_cases hab : a ≤ b
      · left; simp [Rat.min_def, hab]
      · right; simp [Rat.min_def, hab]
    · right; simp [h]

/-! ### access to the lines of a scene -/

theorem Dirs.tr_none (d : Dirs) : d.tr.none = d.none := by
  rcases d with ⟨u, dn, l, r⟩
  cases u <;> cases dn <;> cases l <;> cases r <;> rfl

theorem mem_lines_hs (s : Scene) (h : Seg) (hh : h ∈ mergeAll (rawH s.lo s.hi s.rects s.fixDirs)) :
    (h, hVerts s.lo s.hi (mergeAll (rawV s.lo s.hi (s.rects.map Rect.tr) (s.fixDirs.map Conn.tr))) h) ∈ s.lines.hs := by
  unfold Scene.lines
  exact List.mem_map.mpr ⟨h, hh, rfl⟩

theorem mem_lines_vs (s : Scene) (v : Seg)
    (hv : v ∈ mergeAll (rawV s.lo s.hi (s.rects.map Rect.tr) (s.fixDirs.map Conn.tr))) :
    (v, vVerts s.lo s.hi s.lines.hs v) ∈ s.lines.vs := by
  unfold Scene.lines
  exact List.mem_map.mpr ⟨v, hv, rfl⟩


theorem hasAt_iff {vs : List LV} {t : Rat} : hasAt vs t = true ↔ ∃ q ∈ vs, q.t = t := by
  unfold hasAt
  simp only [List.any_eq_true, beq_iff_eq]

theorem exists_at_ensure (vs : List LV) (t : Rat) : ∃ q ∈ ensure vs t, q.t = t := by
  unfold ensure
  split
  · rename_i h; exact hasAt_iff.mp h
  · exact ⟨⟨t, .node⟩, by simp, rfl⟩

theorem exists_at_foldl_ensure (ts : List Rat) (vs : List LV) (t : Rat) (ht : t ∈ ts) :
    ∃ q ∈ ts.foldl ensure vs, q.t = t := by
  induction ts generalizing vs with
  | nil => simp at ht
  | cons a r ih =>
    simp only [List.foldl_cons]
    rcases List.mem_cons.mp ht with rfl | ht
    · obtain ⟨q, hq, hqt⟩ := exists_at_ensure vs t
      exact ⟨q, mem_foldl_ensure_of_mem hq, hqt⟩
    · exact ih _ ht

theorem lines_hs_form (s : Scene) (p : Seg × List LV) (hp : p ∈ s.lines.hs) :
    p.1 ∈ mergeAll (rawH s.lo s.hi s.rects s.fixDirs) ∧
    p.2 = hVerts s.lo s.hi (mergeAll (rawV s.lo s.hi (s.rects.map Rect.tr) (s.fixDirs.map Conn.tr))) p.1 := by
  unfold Scene.lines at hp
  obtain ⟨h, hh, rfl⟩ := List.mem_map.mp hp
  exact ⟨hh, rfl⟩

theorem lines_vs_form (s : Scene) (p : Seg × List LV) (hp : p ∈ s.lines.vs) :
    p.1 ∈ mergeAll (rawV s.lo s.hi (s.rects.map Rect.tr) (s.fixDirs.map Conn.tr)) ∧
    p.2 = vVerts s.lo s.hi s.lines.hs p.1 := by
  unfold Scene.lines at hp
  obtain ⟨v, hv, rfl⟩ := List.mem_map.mp hp
  exact ⟨hv, rfl⟩


/-! ### merged lines are pairwise disjoint -/

/-- the two closed segments lie on one line and share a point -/
def Meets (a b : Seg) : Prop := a.p = b.p ∧ ∃ u, a.b ≤ u ∧ u ≤ a.f ∧ b.b ≤ u ∧ u ≤ b.f

theorem overlaps_iff_meets {a b : Seg} (wa : a.b ≤ a.f) (wb : b.b ≤ b.f) : a.overlaps b = true ↔ Meets a b := by
  unfold Seg.overlaps Meets
  simp only [Bool.and_eq_true, Bool.or_eq_true, decide_eq_true_eq, beq_iff_eq]
  constructor
  · rintro ⟨hp, h⟩
    refine ⟨hp, ?_⟩
    rcases h with ⟨h1, h2⟩ | ⟨h1, h2⟩
    · exact ⟨a.b, Rat.le_refl, wa, h1, h2⟩
    · exact ⟨b.b, h1, h2, Rat.le_refl, wb⟩
  · rintro ⟨hp, u, u1, u2, u3, u4⟩
    refine ⟨hp, ?_⟩
    by_cases h : b.b ≤ a.b
    · left; exact ⟨h, by grind⟩
    · right; exact ⟨by grind, by grind⟩

theorem merge_wf {a b : Seg} (wa : a.b ≤ a.f) : (a.merge b).b ≤ (a.merge b).f := by
  unfold Seg.merge; simp only; grind

/-- a segment meeting the hull of two segments that share a point meets one of them -/
theorem meets_merge {x a b : Seg} (hab : Meets a b) (h : Meets x (a.merge b)) : Meets x a ∨ Meets x b := by
  obtain ⟨hp, u, u1, u2, u3, u4⟩ := hab
  obtain ⟨hxp, w, w1, w2, w3, w4⟩ := h
  unfold Seg.merge at hxp w3 w4
  simp only at hxp w3 w4
  -- w lies in the hull [min a.b b.b, max a.f b.f]; move it into a or b keeping it inside x
  by_cases hwa : a.b ≤ w ∧ w ≤ a.f
  · exact Or.inl ⟨hxp, w, w1, w2, hwa.1, hwa.2⟩
  by_cases hwb : b.b ≤ w ∧ w ≤ b.f
  · exact Or.inr ⟨hxp.trans hp, w, w1, w2, hwb.1, hwb.2⟩
  -- w is in neither although both contain u: impossible, the hull is the union
  exfalso
  grind

/-- invariant of the segment list: well formed, pairwise not meeting -/
def Disjoint (l : List Seg) : Prop :=
  (∀ s ∈ l, s.b ≤ s.f) ∧ l.Pairwise (fun a b => ¬ Meets a b)

theorem pairwise_ne {α} {R : α → α → Prop} (hs : ∀ a b, R a b → R b a) {l : List α} (hp : l.Pairwise R)
    {x y : α} (hx : x ∈ l) (hy : y ∈ l) (hne : x ≠ y) : R x y := by
  induction l with
  | nil => simp at hx
  | cons a r ih =>
    obtain ⟨h1, h2⟩ := List.pairwise_cons.mp hp
    rcases List.mem_cons.mp hx with rfl | hx'
    · rcases List.mem_cons.mp hy with rfl | hy'
      · exact absurd rfl hne
      · exact h1 y hy'
    · rcases List.mem_cons.mp hy with rfl | hy'
      · exact hs _ _ (h1 x hx')
      · exact ih h2 hx' hy'

theorem meets_symm {a b : Seg} (h : Meets a b) : Meets b a := by
  obtain ⟨hp, u, u1, u2, u3, u4⟩ := h
  exact ⟨hp.symm, u, u3, u4, u1, u2⟩

/-- the fold of `insertSeg`: `m` = hull so far (contains `s`), every merged piece meets `s` -/
theorem foldl_merge_meets (s : Seg) (x : Seg) :
    ∀ (ov : List Seg) (m : Seg), (m.p = s.p ∧ m.b ≤ s.b ∧ s.f ≤ m.f ∧ m.b ≤ m.f) →
      (∀ c ∈ ov, c.b ≤ c.f ∧ Meets c s) → Meets x (ov.foldl Seg.merge m) →
      Meets x m ∨ ∃ c ∈ ov, Meets x c := by
  intro ov
  induction ov with
  | nil => intro m _ _ h; exact Or.inl h
  | cons c r ih =>
    intro m hm hov hx
    obtain ⟨hp, hb, hf, wm⟩ := hm
    obtain ⟨wc, hcs⟩ := hov c (by simp)
    have hmc : Meets m c := by
      obtain ⟨hcp, u, u1, u2, u3, u4⟩ := hcs
      exact ⟨hp.trans hcp.symm, u, by grind, by grind, u1, u2⟩
    simp only [List.foldl_cons] at hx
    have := ih (m.merge c) ⟨hp, by unfold Seg.merge; simp only; grind, by unfold Seg.merge; simp only; grind,
      merge_wf wm⟩ (fun c' hc' => hov c' (by simp [hc'])) hx
    rcases this with h | ⟨c', hc', h⟩
    · rcases meets_merge hmc h with h | h
      · exact Or.inl h
      · exact Or.inr ⟨c, by simp, h⟩
    · exact Or.inr ⟨c', by simp [hc'], h⟩

theorem foldl_merge_wf (ov : List Seg) (m : Seg) (wm : m.b ≤ m.f) : (ov.foldl Seg.merge m).b ≤ (ov.foldl Seg.merge m).f := by
  induction ov generalizing m with
  | nil => exact wm
  | cons c r ih => exact ih _ (merge_wf wm)

theorem insertSeg_disjoint {l : List Seg} {s : Seg} (hl : Disjoint l) (ws : s.b ≤ s.f) :
    Disjoint (insertSeg l s) := by
  obtain ⟨hwf, hpw⟩ := hl
  unfold insertSeg
  constructor
  · intro x hx
    rcases List.mem_append.mp hx with hx | hx
    · exact hwf x (List.mem_filter.mp hx).1
    · simp only [List.mem_singleton] at hx; subst hx
      exact foldl_merge_wf _ _ ws
  · rw [List.pairwise_append]
    refine ⟨hpw.sublist List.filter_sublist, by simp, ?_⟩
    intro x hx y hy
    simp only [List.mem_singleton] at hy; subst hy
    obtain ⟨hxl, hxo⟩ := List.mem_filter.mp hx
    have wx := hwf x hxl
    have hxs : ¬ Meets x s := by
      intro h
      have := (overlaps_iff_meets wx ws).mpr h
      simp [this] at hxo
    intro hm
    have := foldl_merge_meets s x (l.filter fun c => c.overlaps s) s ⟨rfl, Rat.le_refl, Rat.le_refl, ws⟩
      (fun c hc => by
        obtain ⟨hc1, hc2⟩ := List.mem_filter.mp hc
        exact ⟨hwf c hc1, (overlaps_iff_meets (hwf c hc1) ws).mp hc2⟩) hm
    rcases this with h | ⟨c, hc, h⟩
    · exact hxs h
    · obtain ⟨hc1, hc2⟩ := List.mem_filter.mp hc
      -- x and c are two different members of the old list (one overlaps s, the other does not)
      have hne : x ≠ c := by
        intro e; subst e; simp [hc2] at hxo
      exact pairwise_ne (fun a b hab hba => hab (meets_symm hba)) hpw hxl hc1 hne h

theorem mergeAll_disjoint (raw : List Seg) (hw : ∀ s ∈ raw, s.b ≤ s.f) : Disjoint (mergeAll raw) := by
  unfold mergeAll
  suffices H : ∀ (acc : List Seg), Disjoint acc → (∀ s ∈ raw, s.b ≤ s.f) → Disjoint (raw.foldl insertSeg acc) from
    H [] ⟨by simp, by simp⟩ hw
  induction raw with
  | nil => intro acc ha _; exact ha
  | cons s r ih =>
    intro acc ha hr
    exact ih (fun s' hs' => hw s' (by simp [hs'])) (insertSeg acc s) (insertSeg_disjoint ha (hr s (by simp)))
      (fun s' hs' => hr s' (by simp [hs']))


/-! ### separated boxes -/

/-- two routing boxes are separated (disjoint as closed rectangles) -/
def Sep (a b : Rect) : Prop := a.x1 < b.x0 ∨ b.x1 < a.x0 ∨ a.y1 < b.y0 ∨ b.y1 < a.y0

theorem mem_eraseIdx_ne {α} (l : List α) (i : Nat) (x : α) (hx : x ∈ l.eraseIdx i) :
    ∃ j, j ≠ i ∧ l[j]? = some x := by
  induction l generalizing i with
  | nil => simp at hx
  | cons a r ih =>
    cases i with
    | zero =>
      simp at hx
      obtain ⟨j, hj⟩ := List.getElem?_of_mem hx
      exact ⟨j + 1, by omega, by simpa using hj⟩
    | succ k =>
      simp at hx
      rcases hx with rfl | hx
      · exact ⟨0, by omega, by simp⟩
      · obtain ⟨j, hj, hget⟩ := ih k hx
        exact ⟨j + 1, by omega, by simpa using hget⟩

/-- for pairwise separated boxes of positive width no other box of the scan line overlaps a side in x:
    `findFirstPointAboveAndBelow` is always in its "no overlapping shapes" case -/
theorem separated_normal (lo hi : Rat) (rects : List Rect) (i : Nat) (v : Rect) (hv : rects[i]? = some v)
    (hsep : ∀ (j k : Nat) (a b : Rect), j ≠ k → rects[j]? = some a → rects[k]? = some b → Sep a b)
    (hw : v.x0 ≤ v.x1) (hh : v.y0 ≤ v.y1) (y : Rat) (hy : y = v.y0 ∨ y = v.y1) :
    (findLimits lo hi (activeAt (rects.eraseIdx i) y) v y).minLimitMax ≥
      (findLimits lo hi (activeAt (rects.eraseIdx i) y) v y).maxLimitMin := by
  have hnone : (activeAt (rects.eraseIdx i) y).filter (ovl v y) = [] := by
    rw [List.filter_eq_nil_iff]
    intro c hc
    unfold activeAt at hc
    obtain ⟨hce, hcy⟩ := List.mem_filter.mp hc
    simp only [decide_eq_true_eq] at hcy
    obtain ⟨j, hj, hget⟩ := mem_eraseIdx_ne rects i c hce
    have hs := hsep j i c v hj hget hv
    unfold ovl leftOf
    unfold Sep at hs
    simp only [Bool.and_eq_true, Bool.not_eq_true', decide_eq_false_iff_not, not_and, Bool.not_eq_false]
    intro h1
    exfalso
    rcases hy with rfl | rfl <;> grind
  unfold findLimits
  simp only [hnone, List.map_nil, maxL, minL, List.foldl_nil]
  exact hw


end AdaptaVerif.Lemmas.OrthVis
