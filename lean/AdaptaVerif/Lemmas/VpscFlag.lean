/-
Soundness of the "directed active path" flagging step of `IncSolver::satisfy`
(`if(lb->isActiveDirectedPathBetween(v->right,v->left)) v->unsatisfiable=true`), for the model,
assuming the block invariant holds in the state where the step is taken.
-/
import AdaptaVerif.Lemmas.VpscModel
namespace AdaptaVerif.Lemmas.VpscFlag
open AdaptaVerif.Model.Vpsc
open AdaptaVerif.Check.Vpsc (C Edge walkEnd sumW edgesOf)
open AdaptaVerif.Spec.Vpsc
open AdaptaVerif.Lemmas.VpscModel (conEdge)

def toC (c : Con) : C := ⟨c.l, c.r, c.gap, c.eq⟩

/-- part of the block invariant: active constraints are tight in scaled coordinates -/
def TightActive (st : St) : Prop :=
  ∀ c ∈ st.cons, c.active = true → st.uval c.l + c.gap = st.uval c.r

/-- structural invariant of `Variable::out`: constraint `ci` is in `out` of its left variable only -/
def OutsLinked (st : St) : Prop :=
  ∀ (u ci : Nat), ci ∈ (st.vars[u]!).outs → (st.cons[ci]!).l = u

theorem walk_sum_ge (u : Nat → Rat) :
    ∀ (es : List Edge) (a b : Nat), walkEnd a es = some b →
      (∀ e ∈ es, u e.b ≤ u e.a + e.w) → u b ≤ u a + sumW es := by
  intro es
  induction es with
  | nil =>
    intro a b h _
    simp only [walkEnd, Option.some.injEq] at h
    subst h
    simp [sumW]
  | cons e es ih =>
    intro a b h hall
    simp only [walkEnd] at h
    split at h
    · rename_i hea
      have h1 := ih e.b b h (fun x hx => hall x (List.mem_cons_of_mem _ hx))
      have h2 := hall e (List.mem_cons_self)
      simp only [sumW]
      rw [hea] at h2
      linarith
    · exact absurd h (by simp)

theorem active_mem (cons : Array Con) (ci : Nat) (h : (cons[ci]!).active = true) :
    cons[ci]! ∈ cons := by
  by_cases hlt : ci < cons.size
  · rw [getElem!_pos cons ci hlt]
    exact Array.getElem_mem hlt
  · rw [getElem!_neg cons ci hlt] at h
    exact absurd h (by decide)

/-- invariant-carrying fold used by `isActiveDirectedPathBetween` -/
theorem path_fold (st : St) (bid fuel v u : Nat) (_hlink : OutsLinked st)
    (ih : ∀ u' : Nat, (isActiveDirectedPathBetween st bid fuel u' v).1 = true →
        ∃ p : List Con, (∀ c ∈ p, c ∈ st.cons ∧ c.active = true) ∧
          walkEnd u' (p.map conEdge) = some v) :
    ∀ (outs : List Nat) (acc : Bool × Bool), (∀ ci ∈ outs, (st.cons[ci]!).l = u) →
      (acc.1 = true → ∃ p : List Con, (∀ c ∈ p, c ∈ st.cons ∧ c.active = true) ∧
          walkEnd u (p.map conEdge) = some v) →
      ((outs.foldl (fun (acc : Bool × Bool) ci =>
          if acc.1 then (acc.1, acc.2) else
          let c := st.cons[ci]!
          if canFollowRight st bid c none then
            ((isActiveDirectedPathBetween st bid fuel c.r v).1,
              acc.2 && (isActiveDirectedPathBetween st bid fuel c.r v).2)
          else (acc.1, acc.2)) acc).1 = true →
        ∃ p : List Con, (∀ c ∈ p, c ∈ st.cons ∧ c.active = true) ∧
          walkEnd u (p.map conEdge) = some v) := by
  intro outs
  induction outs with
  | nil => intro acc _ hacc h; exact hacc h
  | cons ci outs ihl =>
    intro acc hl hacc h
    simp only [List.foldl_cons] at h
    refine ihl _ (fun x hx => hl x (List.mem_cons_of_mem _ hx)) ?_ h
    intro hnew
    by_cases hf : acc.1 = true
    · simp only [hf, if_true] at hnew
      exact hacc hf
    · simp only [hf] at hnew
      by_cases hcf : canFollowRight st bid (st.cons[ci]!) none = true
      · simp only [hcf, if_true, Bool.false_eq_true, if_false] at hnew
        obtain ⟨p, hp, hw⟩ := ih _ hnew
        have hact : (st.cons[ci]!).active = true := by
          simp only [canFollowRight, Bool.and_eq_true] at hcf
          exact hcf.1.2
        refine ⟨st.cons[ci]! :: p, ?_, ?_⟩
        · intro c hc
          rcases List.mem_cons.1 hc with rfl | hc
          · exact ⟨active_mem _ _ hact, hact⟩
          · exact hp c hc
        · simp only [List.map_cons, walkEnd, conEdge, hl ci List.mem_cons_self, if_true]
          exact hw
      · simp only [hcf, Bool.false_eq_true, if_false] at hnew

/-- if the model's `isActiveDirectedPathBetween(u, v)` answers true there is a directed walk of
    active constraints from `u` to `v` -/
theorem path_exists (st : St) (bid : Nat) (hlink : OutsLinked st) :
    ∀ (fuel u v : Nat), (isActiveDirectedPathBetween st bid fuel u v).1 = true →
      ∃ p : List Con, (∀ c ∈ p, c ∈ st.cons ∧ c.active = true) ∧
        walkEnd u (p.map conEdge) = some v := by
  intro fuel
  induction fuel with
  | zero => intro u v h; simp [isActiveDirectedPathBetween] at h
  | succ fuel ih =>
    intro u v h
    unfold isActiveDirectedPathBetween at h
    by_cases huv : (u == v) = true
    · have : u = v := by simpa using huv
      subst this
      exact ⟨[], by simp, by simp [walkEnd]⟩
    · simp only [huv, Bool.false_eq_true, if_false] at h
      rw [← Array.foldl_toList] at h
      refine path_fold st bid fuel v u hlink (fun u' => ih u' v) (st.vars[u]!).outs.toList (false, true)
        ?_ (by simp) h
      intro ci hci
      exact hlink u ci (by simpa using hci)

/-- a directed walk of tight active constraints from `v.right` to `v.left` together with a violated
    `v` is a positive-gap cycle of the constraint set -/
theorem flag_walk_sound (st : St) (vi : Nat) (p : List Con)
    (hp : ∀ c ∈ p, c ∈ st.cons ∧ c.active = true)
    (hw : walkEnd (st.cons[vi]!).r (p.map conEdge) = some (st.cons[vi]!).l)
    (htight : TightActive st) (hmem : st.cons[vi]! ∈ st.cons)
    (hviol : st.uval (st.cons[vi]!).r - (st.cons[vi]!).gap - st.uval (st.cons[vi]!).l < 0) :
    PosCycle (st.cons.toList.map toC) := by
  have hedge : ∀ c ∈ st.cons, conEdge c ∈ edgesOf (st.cons.toList.map toC) := by
    intro c hc
    simp only [edgesOf, List.mem_flatMap, List.mem_map]
    refine ⟨toC c, ⟨c, by simpa using hc, rfl⟩, ?_⟩
    by_cases he : c.eq = true <;> simp [toC, conEdge, he]
  refine ⟨conEdge (st.cons[vi]!) :: p.map conEdge, ?_, ⟨_, _, rfl, ?_⟩, ?_⟩
  · intro e he
    rcases List.mem_cons.1 he with rfl | he
    · exact hedge _ hmem
    · obtain ⟨c, hc, rfl⟩ := List.mem_map.1 he
      exact hedge c (hp c hc).1
  · simp only [walkEnd, conEdge, if_true]
    exact hw
  · have hge := walk_sum_ge st.uval (p.map conEdge) _ _ hw (by
      intro e he
      obtain ⟨c, hc, rfl⟩ := List.mem_map.1 he
      have := htight c (hp c hc).1 (hp c hc).2
      simp only [conEdge]
      linarith)
    simp only [sumW, conEdge] at hge ⊢
    linarith

/-- **flag_sound, directed-path branch (the invariant is a hypothesis)**:
    in a model state whose active constraints are tight and whose `out` lists are well linked, if
    `isActiveDirectedPathBetween(v.right, v.left)` answers true and `v` is violated, then the
    constraints known to the solver contain a positive-gap cycle. -/
theorem flag_path_sound (st : St) (bid fuel vi : Nat)
    (hlink : OutsLinked st) (htight : TightActive st) (hmem : st.cons[vi]! ∈ st.cons)
    (hpath : (isActiveDirectedPathBetween st bid fuel (st.cons[vi]!).r (st.cons[vi]!).l).1 = true)
    (hviol : st.uval (st.cons[vi]!).r - (st.cons[vi]!).gap - st.uval (st.cons[vi]!).l < 0) :
    PosCycle (st.cons.toList.map toC) := by
  obtain ⟨p, hp, hw⟩ := path_exists st bid hlink fuel _ _ hpath
  exact flag_walk_sound st vi p hp hw htight hmem hviol

end AdaptaVerif.Lemmas.VpscFlag
