/-
Lemmas for C18 (1)/(2): one-dimensional reflection lemma, equivariance of `SepPair.transform`,
composition table.
-/
import AdaptaVerif.Spec.Sep
namespace AdaptaVerif.Lemmas.Sep
open AdaptaVerif.Num AdaptaVerif.Model.Sep AdaptaVerif.Spec.Sep

theorem toRat_mk_false (m : Rat) : (SZ.mk false m).toRat = m := by simp [SZ.toRat]
theorem toRat_mk_true (m : Rat) : (SZ.mk true m).toRat = -m := by simp [SZ.toRat]

/-- Reflecting the axis (`s ↦ -s`, `t ↦ -t`) and flipping the sign **bit** of the gap gives the same
    one-dimensional constraint. Sizes may be given in either order. -/
theorem conHolds_neg (st : SepType) (gt : GapType) (g : SZ) (e a b s t : Rat) :
    conHolds (genCon st gt (-g) e a b) (-s) (-t) ↔ conHolds (genCon st gt g e a b) s t := by
  obtain ⟨n, m⟩ := g
  cases st <;> cases gt <;> cases n <;>
    simp [genCon, conHolds, SZ.neg_def, SZ.signbit, toRat_mk_false] <;> grind

/-- the generated constraint does not depend on the order in which the two sizes are given -/
theorem genCon_size_comm (st : SepType) (gt : GapType) (g : SZ) (e a b : Rat) :
    genCon st gt g e a b = genCon st gt g e b a := by
  obtain ⟨n, m⟩ := g
  cases st <;> cases gt <;> cases n <;> simp [genCon, SZ.signbit] <;> grind

theorem transform_equivariant' (extra : Rat) (sp : SepPair) (tf : SepTransform) (p : Placement) :
    Sat extra sp p ↔ Sat extra (sp.transform tf) (p.apply tf) := by
  cases tf <;>
    simp only [Sat, SepPair.transform, Placement.apply, SepTransform.applyPt,
      SepTransform.swapsAxes, conHolds_neg, Bool.false_eq_true, if_false, if_true] <;>
    first
      | exact Iff.rfl
      | exact and_comm

/-! ### composition -/

theorem transform_comp (a b : SepTransform) (sp : SepPair) :
    (sp.transform b).transform a = sp.transform (a.comp b) := by
  cases a <;> cases b <;> simp [SepPair.transform, SepTransform.comp]

theorem applyPt_comp (a b : SepTransform) (x y : Rat) :
    a.applyPt (b.applyPt x y).1 (b.applyPt x y).2 = (a.comp b).applyPt x y := by
  cases a <;> cases b <;> simp [SepTransform.applyPt, SepTransform.comp, Rat.neg_neg]

theorem comp_assoc (a b c : SepTransform) : (a.comp b).comp c = a.comp (b.comp c) := by
  cases a <;> cases b <;> cases c <;> rfl

/-- the eight plane maps are pairwise different (they differ at the point (1, 2)) -/
theorem applyPt_injective (a b : SepTransform) (h : a.applyPt 1 2 = b.applyPt 1 2) : a = b := by
  cases a <;> cases b <;> first | rfl | (exfalso; revert h; simp [SepTransform.applyPt]; done) | (exfalso; revert h; decide)

theorem placement_apply_comp (a b : SepTransform) (p : Placement) :
    (p.apply b).apply a = p.apply (a.comp b) := by
  cases a <;> cases b <;>
    simp [Placement.apply, SepTransform.applyPt, SepTransform.comp, SepTransform.swapsAxes, Rat.neg_neg]


end AdaptaVerif.Lemmas.Sep
