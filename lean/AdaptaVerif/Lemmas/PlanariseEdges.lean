/-
Whole `planarise` on separated inputs: every original edge stays connected from source to target through new nodes
(bend nodes and crossing nodes) only.
-/
import AdaptaVerif.Lemmas.PlanariseInput
namespace AdaptaVerif.Lemmas.Planarise
open AdaptaVerif.Model.Planarise

/-! ### every original edge stays connected through new nodes only -/

theorem Reach.symm {segs : List Seg} {new : List Node} {a b : Node} (h : Reach segs new a b) :
    Reach segs new b a := by
  induction h with
  | edge hj => exact Reach.edge hj.symm
  | step hj hm _ ih => exact ih.trans hm (Reach.edge hj.symm)

theorem reach_chain {segs : List Seg} {new : List Node} : ∀ (l : List Node) (a b : Node),
    (∀ p ∈ consecutive (a :: l ++ [b]), Reach segs new p.1 p.2) → (∀ m ∈ l, m ∈ new) → Reach segs new a b
  | [], a, b, h, _ => h (a, b) (by simp [consecutive])
  | m :: r, a, b, h, hm => by
    have h1 := h (a, m) (by simp [consecutive])
    have h2 := reach_chain r m b (fun p hp => h p (by
      simp only [List.cons_append, consecutive, List.mem_cons]; exact Or.inr hp)) (fun x hx => hm x (List.mem_cons_of_mem _ hx))
    exact h1.trans (hm m (by simp)) h2

/-- no node centre lies strictly inside a route segment -/
def NoCentreInside (inp : Input) : Prop :=
  ∀ e ∈ inp.edges, ∀ pq ∈ ptPairs e.route, ∀ n ∈ inp.nodes,
    ¬ ((n.p.y = pq.1.y ∧ n.p.y = pq.2.y ∧ ((pq.1.x < n.p.x ∧ n.p.x < pq.2.x) ∨ (pq.2.x < n.p.x ∧ n.p.x < pq.1.x))) ∨
       (n.p.x = pq.1.x ∧ n.p.x = pq.2.x ∧ ((pq.1.y < n.p.y ∧ n.p.y < pq.2.y) ∨ (pq.2.y < n.p.y ∧ n.p.y < pq.1.y))))

theorem paired_get {P : EdgeIn → List Node → Prop} : ∀ {edges : List EdgeIn} {bends : List (List Node)},
    Paired P edges bends → ∀ e ∈ edges, ∃ bs, P e bs ∧ ∀ s ∈ edgeSegs e.src e.tgt bs, s ∈ zipEdgeSegs edges bends
  | _, _, Paired.nil, e, h => by simp at h
  | _, _, Paired.cons (e := e0) (bs := bs) hp hr, e, h => by
    rcases List.mem_cons.1 h with rfl | h
    · exact ⟨bs, hp, fun s hs => by simp only [zipEdgeSegs, List.mem_append]; exact Or.inl hs⟩
    · obtain ⟨bs', h1, h2⟩ := paired_get hr e h
      exact ⟨bs', h1, fun s hs => by simp only [zipEdgeSegs, List.mem_append]; exact Or.inr (h2 s hs)⟩

theorem chainSegs_of_cons : ∀ {l : List Node} {a b : Node}, (a, b) ∈ consecutive l → mkSeg a b ∈ chainSegs l
  | [], _, _, h => by simp [consecutive] at h
  | [_], _, _, h => by simp [consecutive] at h
  | x :: y :: r, a, b, h => by
    simp only [consecutive, List.mem_cons] at h
    simp only [chainSegs, List.mem_cons]
    rcases h with h | h
    · cases h; exact Or.inl rfl
    · exact Or.inr (chainSegs_of_cons (l := y :: r) h)

theorem planarise_bendNodes (inp : Input) :
    (planarise inp).bendNodes = (uniqueBends { nextId := firstFreeId inp.nodes } inp.edges).1.store := by
  simp [planarise]

/-- **Every original edge stays connected**: source and target of every edge are joined in the planar graph by a chain
whose intermediate nodes are all new (bend nodes or crossing nodes). -/
theorem edges_connected {inp : Input} (hS : SepInput inp) (hN : NoCentreInside inp) :
    ∀ e ∈ inp.edges,
      Reach (planarise inp).segs ((planarise inp).crossNodes ++ (planarise inp).bendNodes) e.src e.tgt := by
  intro e he
  have hA := sepInput_goodA hS
  obtain ⟨hst, hends⟩ := segsA_ends hS
  have hfam : ∀ q ∈ inp.edges.flatMap (fun e => interior e.route),
      q ∈ inp.nodes.map (·.p) ++ inp.edges.flatMap (·.route) := by
    intro q hq
    obtain ⟨e, he, hqe⟩ := List.mem_flatMap.1 hq
    exact List.mem_append_right _ (List.mem_flatMap.2 ⟨e, he, interior_sub hqe⟩)
  have hIP : CoordsApart (inp.edges.flatMap (fun e => interior e.route)) :=
    ⟨fun a ha b hb => hS.apart.1 a (hfam a ha) b (hfam b hb), fun a ha b hb => hS.apart.2 a (hfam a ha) b (hfam b hb)⟩
  obtain ⟨_, u2, _⟩ := uniqueBends_spec hIP inp.edges { nextId := firstFreeId inp.nodes }
    ⟨by simp, by simp, by simp, by simp⟩ (Nat.le_refl _)
    (fun e he q hq => List.mem_flatMap.2 ⟨e, he, hq⟩)
  obtain ⟨bs, ⟨hbp, hbs⟩, hsub⟩ := paired_get u2 e he
  obtain ⟨hsrc, htgt, hroute⟩ := hS.ends e he
  have hmap : (e.src :: bs ++ [e.tgt]).map (·.p) = e.route := by
    rw [hroute]; simp [hbp]
  rw [planarise_bendNodes]
  refine reach_chain bs e.src e.tgt ?_ (fun m hm => List.mem_append_right _ (hbs m hm))
  intro p hp
  have hseg : mkSeg p.1 p.2 ∈ segsAOf inp := hsub _ (chainSegs_of_cons hp)
  have hpq := cons_map_p hp
  rw [hmap] at hpq
  have hor := hS.ortho e he _ hpq
  obtain ⟨hshape, hen⟩ := mkSeg_shape (a := p.1) (b := p.2) hor
  obtain ⟨inner, hin, hr⟩ := pipeline_connections hA _ hseg
  -- intermediate segment ends strictly inside the segment are bend nodes
  have hinner : ∀ m ∈ inner, m ∈ (uniqueBends { nextId := firstFreeId inp.nodes } inp.edges).1.store := by
    intro m hm
    obtain ⟨⟨t, ht, hmt⟩, hcc, hv1, hv2⟩ := hin m hm
    have hcls : m ∈ inp.nodes ∨ m ∈ (uniqueBends { nextId := firstFreeId inp.nodes } inp.edges).1.store := by
      rcases hmt with rfl | rfl
      · exact (hends t ht).2.1
      · exact (hends t ht).2.2.1
    rcases hcls with hnode | hstore
    · exfalso
      refine hN e he _ hpq m hnode ?_
      rcases hshape with sh | sv
      · left
        rw [sh.1] at hcc hv1 hv2
        simp only [ccOf, vcOf, if_true] at hcc hv1 hv2
        rcases hen with ⟨h1, h2⟩ | ⟨h1, h2⟩
        · rw [h1] at hv1; rw [h2] at hv2
          refine ⟨?_, ?_, Or.inl ⟨hv1, hv2⟩⟩
          · rw [hcc, ← sh.2.1, h1]
          · rw [hcc, ← sh.2.2.1, h2]
        · rw [h1] at hv1; rw [h2] at hv2
          refine ⟨?_, ?_, Or.inr ⟨hv1, hv2⟩⟩
          · rw [hcc, ← sh.2.2.1, h2]
          · rw [hcc, ← sh.2.1, h1]
      · right
        rw [sv.1] at hcc hv1 hv2
        simp only [ccOf, vcOf, show (Ori.V = Ori.H) = False from by simp, if_false] at hcc hv1 hv2
        rcases hen with ⟨h1, h2⟩ | ⟨h1, h2⟩
        · rw [h1] at hv1; rw [h2] at hv2
          refine ⟨?_, ?_, Or.inl ⟨hv1, hv2⟩⟩
          · rw [hcc, ← sv.2.1, h1]
          · rw [hcc, ← sv.2.2.1, h2]
        · rw [h1] at hv1; rw [h2] at hv2
          refine ⟨?_, ?_, Or.inr ⟨hv1, hv2⟩⟩
          · rw [hcc, ← sv.2.2.1, h2]
          · rw [hcc, ← sv.2.1, h1]
    · exact hstore
  have hr' := hr.mono (new' := (planarise inp).crossNodes ++ (uniqueBends { nextId := firstFreeId inp.nodes } inp.edges).1.store)
    (by
      intro m hm
      rcases List.mem_append.1 hm with h | h
      · exact List.mem_append_left _ h
      · exact List.mem_append_right _ (hinner m h))
  rcases hen with ⟨h1, h2⟩ | ⟨h1, h2⟩
  · rw [h1, h2] at hr'; exact hr'
  · rw [h1, h2] at hr'; exact hr'.symm


end AdaptaVerif.Lemmas.Planarise
