/-
Soundness of the executable KKT checker's components (`Check/Kkt.lean`) w.r.t. the
propositions of `Spec/Qp.lean`.
-/
import AdaptaVerif.Check.Kkt
import AdaptaVerif.Lemmas.QpOpt

namespace AdaptaVerif.Lemmas.Qp
open AdaptaVerif.Spec.Qp AdaptaVerif.Check.Kkt

theorem checkWF_sound (P : Problem) (h : checkWF P = true) : WF P := by
  unfold checkWF at h
  simp only [Bool.and_eq_true, List.all_eq_true, List.mem_range, decide_eq_true_eq] at h
  exact ⟨h.1, h.2⟩

theorem holdsB_sound (s : Nat → Rat) (c : Con) (x : Nat → Rat) (h : holdsB s c x = true) :
    c.Holds s x := by
  unfold holdsB at h
  unfold Con.Holds
  cases he : c.eq <;> simp [he] at h ⊢ <;> exact h

theorem feasibleB_sound (P : Problem) (x : Nat → Rat) (h : feasibleB P x = true) : Feasible P x := by
  unfold feasibleB at h
  simp only [List.all_eq_true] at h
  exact fun c hc => holdsB_sound P.s c x (h c hc)

theorem stationaryB_sound (P : Problem) (x : Nat → Rat) (cl : List (Con × Rat))
    (h : stationaryB P x cl = true) :
    ∀ i, i < P.n → 2 * P.w i * (x i - P.d i) = conGrad P.s cl i := by
  unfold stationaryB at h
  simp only [List.all_eq_true, List.mem_range, decide_eq_true_eq] at h
  exact h

theorem signCompB_sound (P : Problem) (x : Nat → Rat) (cl : List (Con × Rat))
    (h : signCompB P x cl = true) :
    ∀ p ∈ cl, (p.1.eq = true ∨ 0 ≤ p.2) ∧ p.2 * slack P.s p.1 x = 0 := by
  unfold signCompB at h
  simp only [List.all_eq_true, Bool.and_eq_true, Bool.or_eq_true, decide_eq_true_eq] at h
  exact h

theorem checkKkt_kkt (P : Problem) (x : Nat → Rat) (lam : List Rat)
    (h : checkKkt P x lam = true) : WF P ∧ KKT P x lam := by
  unfold checkKkt at h
  simp only [Bool.and_eq_true, decide_eq_true_eq] at h
  obtain ⟨⟨⟨⟨hwf, hlen⟩, hfe⟩, hst⟩, hsc⟩ := h
  exact ⟨checkWF_sound P hwf, hlen, feasibleB_sound P x hfe,
    stationaryB_sound P x _ hst, signCompB_sound P x _ hsc⟩

end AdaptaVerif.Lemmas.Qp
