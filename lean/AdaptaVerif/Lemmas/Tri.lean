/-
Helper lemmas for C13 about `TriConstraint::slack` / `maxSafeAlpha` (Model/Tri.lean).
-/
import AdaptaVerif.Model.Tri
import AdaptaVerif.Spec.Tri
import Mathlib.Tactic.Linarith
import Mathlib.Tactic.Ring
import Mathlib.Tactic.FieldSimp
import Mathlib.Algebra.Order.Field.Basic
namespace AdaptaVerif.Lemmas.Tri
open AdaptaVerif.Model.Tri AdaptaVerif.Spec.Tri

/-- sign carried by `leftOf` -/
def sgn (l : Bool) : Rat := if l then 1 else -1

theorem slack_eq (p g : Rat) (l : Bool) (u v w : Rat) :
    slack p g l u v w = sgn l * ((1 - p) * u + p * v - w + g) := by
  unfold slack sgn
  cases l <;> simp <;> ring

theorem slack_true_eq_neg (p g u v w : Rat) :
    slack p g true u v w = - slack p g false u v w := by
  simp only [slack_eq, sgn]; simp

/-- the slack is affine along the segment initial → final -/
theorem slack_line (p g : Rat) (l : Bool) (u1 u2 v1 v2 w1 w2 α : Rat) :
    slack p g l (u1 + α * (u2 - u1)) (v1 + α * (v2 - v1)) (w1 + α * (w2 - w1))
      = slack p g l u1 v1 w1 + α * (slack p g l u2 v2 w2 - slack p g l u1 v1 w1) := by
  simp only [slack_eq]; ring

theorem msaNum_eq (p g u1 v1 w1 : Rat) : msaNum p g u1 v1 w1 = slack p g false u1 v1 w1 := by
  simp only [slack_eq, sgn, msaNum]; simp; ring

theorem msaDen_eq (p g u1 u2 v1 v2 w1 w2 : Rat) :
    msaDen p u1 u2 v1 v2 w1 w2 = slack p g false u1 v1 w1 - slack p g false u2 v2 w2 := by
  simp only [slack_eq, sgn, msaDen]; simp; ring

/-- numerator / denominator expressed with the constraint's own orientation -/
theorem num_div_den (p g : Rat) (l : Bool) (u1 u2 v1 v2 w1 w2 : Rat) :
    msaNum p g u1 v1 w1 / msaDen p u1 u2 v1 v2 w1 w2
      = slack p g l u1 v1 w1 / (slack p g l u1 v1 w1 - slack p g l u2 v2 w2) := by
  rw [msaNum_eq, msaDen_eq p g]
  cases l
  · rfl
  · rw [slack_true_eq_neg, slack_true_eq_neg]
    rw [show (-slack p g false u1 v1 w1 - -slack p g false u2 v2 w2)
          = -(slack p g false u1 v1 w1 - slack p g false u2 v2 w2) by ring, neg_div_neg_eq]

theorem den_eq_zero_iff (p g : Rat) (l : Bool) (u1 u2 v1 v2 w1 w2 : Rat) :
    msaDen p u1 u2 v1 v2 w1 w2 = 0 ↔ slack p g l u1 v1 w1 = slack p g l u2 v2 w2 := by
  rw [msaDen_eq p g]
  cases l
  · constructor <;> intro h <;> linarith
  · rw [slack_true_eq_neg, slack_true_eq_neg]; constructor <;> intro h <;> linarith

/-- feasible at the initial positions and violated at the final ones: `maxSafeAlpha` takes the
    division branch and returns `s1/(s1-s2)`, which lies in `[0,1)` -/
theorem msa_of_violated (p g : Rat) (l : Bool) (u1 u2 v1 v2 w1 w2 : Rat)
    (h1 : 0 ≤ slack p g l u1 v1 w1) (h2 : slack p g l u2 v2 w2 < 0) :
    maxSafeAlpha p g l u1 u2 v1 v2 w1 w2
      = slack p g l u1 v1 w1 / (slack p g l u1 v1 w1 - slack p g l u2 v2 w2) := by
  have hd : 0 < slack p g l u1 v1 w1 - slack p g l u2 v2 w2 := by linarith
  unfold maxSafeAlpha
  simp only []
  rw [if_neg (by simpa using h2)]
  have hne : ¬ msaDen p u1 u2 v1 v2 w1 w2 = 0 := by
    rw [den_eq_zero_iff p g l]; intro h; linarith
  rw [if_neg hne, num_div_den p g l]
  rw [if_neg]
  have := div_nonneg h1 (le_of_lt hd)
  exact not_lt.mpr this

theorem msa_of_final_feasible (p g : Rat) (l : Bool) (u1 u2 v1 v2 w1 w2 : Rat)
    (h2 : 0 ≤ slack p g l u2 v2 w2) : maxSafeAlpha p g l u1 u2 v1 v2 w1 w2 = 1 := by
  unfold maxSafeAlpha
  simp only []
  rw [if_pos (by simpa using h2)]

/-- single constraint: every step `0 ≤ α ≤ 1`, `α ≤ maxSafeAlpha` keeps the slack non-negative -/
theorem single_safe (p g : Rat) (l : Bool) (u1 u2 v1 v2 w1 w2 α : Rat)
    (h1 : 0 ≤ slack p g l u1 v1 w1) (h0 : 0 ≤ α) (hle1 : α ≤ 1)
    (hα : slack p g l u2 v2 w2 < 0 → α ≤ maxSafeAlpha p g l u1 u2 v1 v2 w1 w2) :
    0 ≤ slack p g l (u1 + α * (u2 - u1)) (v1 + α * (v2 - v1)) (w1 + α * (w2 - w1)) := by
  rw [slack_line]
  by_cases h2 : slack p g l u2 v2 w2 < 0
  · have hd : 0 < slack p g l u1 v1 w1 - slack p g l u2 v2 w2 := by linarith
    have hα' := hα h2
    rw [msa_of_violated p g l _ _ _ _ _ _ h1 h2, le_div_iff₀ hd] at hα'
    linarith
  · have h2' : 0 ≤ slack p g l u2 v2 w2 := not_lt.mp h2
    have : 0 ≤ (1 - α) * slack p g l u1 v1 w1 + α * slack p g l u2 v2 w2 :=
      add_nonneg (mul_nonneg (by linarith) h1) (mul_nonneg h0 h2')
    linarith

/-! ### the minimum loop -/

theorem minAlphaFrom_le_init (m : Rat) (cs : List TriConstraint) (ini fin : Pos) :
    minAlphaFrom m cs ini fin ≤ m := by
  induction cs generalizing m with
  | nil => simp [minAlphaFrom]
  | cons c rest ih =>
    simp only [minAlphaFrom]
    refine le_trans (ih _) ?_
    split <;> [exact le_of_lt ‹_›; exact le_refl _]

theorem minAlphaFrom_le_mem (m : Rat) (cs : List TriConstraint) (ini fin : Pos)
    (c : TriConstraint) (hc : c ∈ cs) : minAlphaFrom m cs ini fin ≤ c.msa ini fin := by
  induction cs generalizing m with
  | nil => cases hc
  | cons d rest ih =>
    simp only [minAlphaFrom]
    rcases List.mem_cons.mp hc with rfl | h
    · refine le_trans (minAlphaFrom_le_init _ _ _ _) ?_
      split
      · exact le_refl _
      · exact not_lt.mp ‹_›
    · exact ih _ h

/-- the value the loop returns is either the start value or one of the `maxSafeAlpha`s -/
theorem minAlphaFrom_mem (m : Rat) (cs : List TriConstraint) (ini fin : Pos) :
    minAlphaFrom m cs ini fin = m ∨ ∃ c ∈ cs, minAlphaFrom m cs ini fin = c.msa ini fin := by
  induction cs generalizing m with
  | nil => left; rfl
  | cons d rest ih =>
    simp only [minAlphaFrom]
    rcases ih (if d.msa ini fin < m then d.msa ini fin else m) with h | ⟨c, hc, h⟩
    · by_cases hd : d.msa ini fin < m
      · right; exact ⟨d, List.mem_cons_self, by rw [h, if_pos hd]⟩
      · left; rw [h, if_neg hd]
    · right; exact ⟨c, List.mem_cons_of_mem _ hc, h⟩

end AdaptaVerif.Lemmas.Tri
