/-
Lemmas about the model of the static VPSC solver (`Model/VpscStatic.lean`):
 * the block invariant `InvC` of the IncSolver model (active constraints of a block = a tight spanning
   tree, in/out lists exact) is preserved by `mergeLeft`, `mergeRight`, `Blocks::split`, the loops of
   `Solver::satisfy` and `Solver::refine`, for all inputs;
 * the exit scans.
The heap side (`HS`) never writes the variable / constraint / block arrays, so most of the work is
frames; the two merges go through `merge_core`, the split through `split_core`.
-/
import AdaptaVerif.Model.VpscStatic
import AdaptaVerif.Lemmas.VpscLoop
namespace AdaptaVerif.Lemmas.VpscStatic
open AdaptaVerif.Model.Vpsc AdaptaVerif.Model.VpscStatic
open AdaptaVerif.Lemmas.VpscInv AdaptaVerif.Lemmas.VpscMerge AdaptaVerif.Lemmas.VpscSplit
open AdaptaVerif.Lemmas.VpscLoop AdaptaVerif.Lemmas.VpscTraverse
open AdaptaVerif.Model.PairingHeap (PTree findMin link)

/-- the block invariant on a state of the static solver: `InvC` with "every constraint" as the list of
    constraints that may be inactive (the static solver keeps no such list) -/
def IC (st : St) : Prop := InvC st.vars st.cons st.blocks.size (Array.range st.cons.size)

/-- … unless one of the tree traversals of `Block::split` ran out of fuel -/
def SJ (st : St) : Prop := st.fuelOut = true ∨ IC st

theorem InvC.toRange {vars : Array Var} {cons : Array Con} {n : Nat} {ia : Array Nat}
    (h : InvC vars cons n ia) : InvC vars cons n (Array.range cons.size) :=
  { h with
    cover := fun j hj => Or.inr (Or.inr (Array.mem_range.2 hj))
    inact_lt := fun j hj => Array.mem_range.1 hj }

/-- agreement on everything `SJ` reads -/
def Same (a b : St) : Prop :=
  a.vars = b.vars ∧ a.cons = b.cons ∧ a.blocks.size = b.blocks.size ∧ a.fuelOut = b.fuelOut

theorem SJ.of_same {a b : St} (hs : Same a b) (h : SJ b) : SJ a := by
  obtain ⟨hv, hc, hb, hf⟩ := hs
  unfold SJ IC at *
  rw [hv, hc, hb, hf]
  exact h

theorem same_insertBlocks (st : St) (a b : Nat) : Same (st.insertBlocks a b) st := ⟨rfl, rfl, rfl, rfl⟩
theorem same_cleanup (st : St) : Same st.cleanup st := ⟨rfl, rfl, rfl, rfl⟩
theorem same_setPosn (st : St) (b : Nat) (p : Rat) : Same (setPosn st b p) st := by
  simp [Same, setPosn]
theorem same_markDeleted (st : St) (b : Nat) : Same (st.markDeleted b) st := by
  simp [Same, St.markDeleted]
theorem same_refreshBlock (st : St) (b : Nat) : Same (st.refreshBlock b) st := by
  obtain ⟨a, b', c, _, e⟩ := refreshBlock_core st b
  exact ⟨a, b', c, e⟩

theorem findMinLM_SJ (st : St) (b : Nat) (h : SJ st) : SJ (st.findMinLM b).1 := by
  obtain ⟨hv, hc, hb, _, hf, _⟩ := findMinLM_spec st b
  by_cases hfo : (st.findMinLM b).1.fuelOut = true
  · exact Or.inl hfo
  · have hfo' : (st.findMinLM b).1.fuelOut = false := by simpa using hfo
    rcases h with h | h
    · rw [hf hfo'] at h; exact absurd h (by simp)
    · right
      unfold IC
      rw [hv, hc, hb]
      exact h

/-! ### `Block::merge(b, c, dist)` -/

theorem mergeDir_core (st : St) (ci dst src : Nat) (d : Rat) :
    (mergeDir st ci dst src d).vars = shiftVars st.vars src dst d ∧
    (mergeDir st ci dst src d).cons = st.cons.set! ci { st.cons[ci]! with active := true } ∧
    (mergeDir st ci dst src d).blocks.size = st.blocks.size ∧
    (mergeDir st ci dst src d).fuelOut = st.fuelOut := by
  simp [mergeDir, St.refreshBlock]

theorem default_con_lr : (default : Con).l = (default : Con).r := rfl

theorem ext_lt (st : St) (ci : Nat)
    (hne : blk st.vars (st.cons[ci]!).l ≠ blk st.vars (st.cons[ci]!).r) : ci < st.cons.size := by
  by_contra hge
  apply hne
  rw [getElem!_neg st.cons ci hge, default_con_lr]

/-- a merge across a constraint that joins two different blocks, in either direction, keeps the
    invariant -/
theorem mergeDir_SJ (st : St) (ci dst src : Nat) (d : Rat) (h : SJ st)
    (hne : blk st.vars (st.cons[ci]!).l ≠ blk st.vars (st.cons[ci]!).r)
    (hsd : (src = blk st.vars (st.cons[ci]!).l ∧ dst = blk st.vars (st.cons[ci]!).r ∧
              d = offs st.vars (st.cons[ci]!).r - offs st.vars (st.cons[ci]!).l - (st.cons[ci]!).gap) ∨
           (src = blk st.vars (st.cons[ci]!).r ∧ dst = blk st.vars (st.cons[ci]!).l ∧
              d = -(offs st.vars (st.cons[ci]!).r - offs st.vars (st.cons[ci]!).l - (st.cons[ci]!).gap))) :
    SJ (mergeDir st ci dst src d) := by
  obtain ⟨hv, hc, hb, hf⟩ := mergeDir_core st ci dst src d
  rcases h with h | h
  · left; rw [hf]; exact h
  · right
    unfold IC
    rw [hv, hc, hb]
    have hci := ext_lt st ci hne
    have := merge_core st.vars st.cons st.blocks.size _ h ci hci hne src dst d hsd
    rw [set!_size]
    exact this

theorem internal_false (st : St) (c : Nat) (h : internal st c = false) :
    blk st.vars (st.cons[c]!).l ≠ blk st.vars (st.cons[c]!).r := by
  unfold internal blkOf at h
  simpa [blk] using h

/-! ### the root of a repaired heap is never an internal constraint -/

theorem findMin_link {lt : Nat → Nat → Bool} (a b : PTree Nat) (x : Nat × Nat)
    (h : findMin (link lt a b) = some x) : findMin a = some x ∨ findMin b = some x := by
  cases a with
  | nil => cases b <;> simp_all [link]
  | node ka ia ca sa =>
    cases b with
    | nil => left; simpa [link] using h
    | node kb ib cb sb =>
      simp only [link] at h
      split at h
      · right; simpa [findMin] using h
      · left; simpa [findMin] using h

theorem findMin_insert {lt : Nat → Nat → Bool} (h : PTree Nat) (k i : Nat) (x : Nat × Nat)
    (hx : findMin (AdaptaVerif.Model.PairingHeap.insert lt h k i) = some x) : x = (k, i) ∨ findMin h = some x := by
  unfold AdaptaVerif.Model.PairingHeap.insert at hx
  split at hx
  · left; simpa [findMin] using hx.symm
  · rcases findMin_link _ _ x hx with h1 | h1
    · right; exact h1
    · left; simpa [findMin] using h1.symm

/-- "the root, if any, is not internal" -/
def RootExt (st : St) (h : Heap) : Prop := ∀ x, findMin h = some x → internal st x.1 = false

theorem rootExt_nil (st : St) : RootExt st .nil := fun x hx => by simp [findMin] at hx

theorem findMinOutLoop_root (st : St) : ∀ (fuel : Nat) (hs : HS) (h : Heap),
    RootExt st (findMinOutLoop st fuel hs h).2
  | 0, _, _ => rootExt_nil st
  | fuel + 1, hs, h => by
    unfold findMinOutLoop
    split
    · rename_i hn
      intro x hx
      rw [hn] at hx; cases hx
    · rename_i v i hv
      split
      · exact findMinOutLoop_root st fuel _ _
      · rename_i hi
        intro x hx
        rw [hv] at hx
        cases hx
        simpa using hi

theorem findMinOut_ext (st : St) (hs : HS) (b c : Nat) (h : (findMinOut st hs b).2 = some c) :
    internal st c = false := by
  unfold findMinOut at h
  simp only [Option.map_eq_some_iff] at h
  obtain ⟨x, hx, rfl⟩ := h
  exact findMinOutLoop_root st _ _ _ x hx

theorem findMinInLoop_root (st : St) : ∀ (fuel : Nat) (hs : HS) (h : Heap) (ood : List Nat),
    (∀ v ∈ ood, internal st v = false) →
    RootExt st (findMinInLoop st fuel hs h ood).2.1 ∧
    ∀ v ∈ (findMinInLoop st fuel hs h ood).2.2, internal st v = false
  | 0, _, _, _, _ => ⟨rootExt_nil st, fun v hv => by simp [findMinInLoop] at hv⟩
  | fuel + 1, hs, h, ood, ho => by
    unfold findMinInLoop
    split
    · rename_i hn
      exact ⟨fun x hx => (by rw [hn] at hx; cases hx), ho⟩
    · rename_i v i hv
      split
      · exact findMinInLoop_root st fuel _ _ _ ho
      · rename_i hi
        split
        · apply findMinInLoop_root st fuel _ _ _
          intro w hw
          simp only [List.mem_append, List.mem_singleton] at hw
          rcases hw with hw | rfl
          · exact ho w hw
          · simpa using hi
        · refine ⟨fun x hx => ?_, ho⟩
          rw [hv] at hx
          cases hx
          simpa using hi

theorem reinsert_root (st : St) : ∀ (l : List Nat) (acc : HS × Heap),
    RootExt st acc.2 → (∀ v ∈ l, internal st v = false) → RootExt st (l.foldl (reinsertStep st) acc).2
  | [], _, h, _ => h
  | v :: rest, acc, h, hl => by
    rw [List.foldl_cons]
    apply reinsert_root st rest
    · intro x hx
      unfold reinsertStep at hx
      simp only at hx
      rcases findMin_insert _ _ _ x hx with h0 | h1
      · rw [h0]; exact hl v (by simp)
      · exact h x h1
    · intro w hw
      exact hl w (by simp [hw])

theorem findMinInHeap_ext (st : St) (hs : HS) (h : Heap) (c : Nat)
    (hc : (findMinInHeap st hs h).2.2 = some c) : internal st c = false := by
  unfold findMinInHeap at hc
  simp only [Option.map_eq_some_iff] at hc
  obtain ⟨x, hx, rfl⟩ := hc
  have hl := findMinInLoop_root st ((heapElems h).length + 1) (hs.noteKeys st (heapElems h)) h []
    (fun v hv => by cases hv)
  exact reinsert_root st _ _ hl.1 hl.2 x hx

theorem findMinIn_ext (st : St) (hs : HS) (b c : Nat) (h : (findMinIn st hs b).2 = some c) :
    internal st c = false :=
  findMinInHeap_ext st hs _ c h

/-! ### `Blocks::mergeLeft` -/

theorem mergeLeftStep_st (s : SSt) (r c : Nat) :
    (mergeLeftStep s r c).1.st =
      mergeDir s.st c
        (if blockSize s.st r < blockSize s.st (blkOf s.st (s.st.cons[c]!).l) then blkOf s.st (s.st.cons[c]!).l else r)
        (if blockSize s.st r < blockSize s.st (blkOf s.st (s.st.cons[c]!).l) then r else blkOf s.st (s.st.cons[c]!).l)
        (if blockSize s.st r < blockSize s.st (blkOf s.st (s.st.cons[c]!).l) then
          -((s.st.vars[(s.st.cons[c]!).r]!).offset - (s.st.vars[(s.st.cons[c]!).l]!).offset - (s.st.cons[c]!).gap)
         else (s.st.vars[(s.st.cons[c]!).r]!).offset - (s.st.vars[(s.st.cons[c]!).l]!).offset - (s.st.cons[c]!).gap) := rfl

theorem mergeLeftStep_SJ (s : SSt) (r c : Nat) (h : SJ s.st) (hint : internal s.st c = false)
    (hr : blkOf s.st (s.st.cons[c]!).r = r) : SJ (mergeLeftStep s r c).1.st := by
  rw [mergeLeftStep_st]
  have hne := internal_false s.st c hint
  apply mergeDir_SJ _ _ _ _ _ h hne
  split
  · right; exact ⟨hr.symm, rfl, rfl⟩
  · left; exact ⟨rfl, hr.symm, rfl⟩

theorem mergeLeftLoop_SJ : ∀ (fuel : Nat) (s : SSt) (r : Nat), SJ s.st → SJ (mergeLeftLoop fuel s r).st
  | 0, s, r, h => h
  | fuel + 1, s, r, h => by
    unfold mergeLeftLoop
    simp only
    split
    · exact h
    · rename_i c hc
      split
      · split
        · exact h
        · rename_i hg
          simp only [bne_iff_ne, ne_eq, Decidable.not_not] at hg
          apply mergeLeftLoop_SJ
          exact mergeLeftStep_SJ _ _ _ h (findMinIn_ext _ _ _ _ hc) hg
      · exact h

theorem mergeLeft_SJ (s : SSt) (r : Nat) (h : SJ s.st) : SJ (mergeLeft s r).st := by
  unfold mergeLeft
  exact mergeLeftLoop_SJ _ _ _ h

/-! ### `Blocks::mergeRight` -/

theorem mergeRightStep_st (s : SSt) (l c : Nat) :
    (mergeRightStep s l c).1.st =
      mergeDir s.st c
        (if blockSize s.st l > blockSize s.st (blkOf s.st (s.st.cons[c]!).r) then blkOf s.st (s.st.cons[c]!).r else l)
        (if blockSize s.st l > blockSize s.st (blkOf s.st (s.st.cons[c]!).r) then l else blkOf s.st (s.st.cons[c]!).r)
        (if blockSize s.st l > blockSize s.st (blkOf s.st (s.st.cons[c]!).r) then
          -((s.st.vars[(s.st.cons[c]!).l]!).offset + (s.st.cons[c]!).gap - (s.st.vars[(s.st.cons[c]!).r]!).offset)
         else (s.st.vars[(s.st.cons[c]!).l]!).offset + (s.st.cons[c]!).gap - (s.st.vars[(s.st.cons[c]!).r]!).offset) := rfl

theorem mergeRightStep_SJ (s : SSt) (l c : Nat) (h : SJ s.st) (hint : internal s.st c = false)
    (hl : blkOf s.st (s.st.cons[c]!).l = l) : SJ (mergeRightStep s l c).1.st := by
  rw [mergeRightStep_st]
  have hne := internal_false s.st c hint
  apply mergeDir_SJ _ _ _ _ _ h hne
  split
  · left
    refine ⟨hl.symm, rfl, ?_⟩
    simp only [offs]; grind
  · right
    refine ⟨rfl, hl.symm, ?_⟩
    simp only [offs]; grind

theorem mergeRightLoop_SJ : ∀ (fuel : Nat) (s : SSt) (l : Nat), SJ s.st → SJ (mergeRightLoop fuel s l).st
  | 0, s, l, h => h
  | fuel + 1, s, l, h => by
    unfold mergeRightLoop
    simp only
    split
    · exact h
    · rename_i c hc
      split
      · split
        · exact h
        · rename_i hg
          simp only [bne_iff_ne, ne_eq, Decidable.not_not] at hg
          apply mergeRightLoop_SJ
          exact mergeRightStep_SJ _ _ _ h (findMinOut_ext _ _ _ _ hc) hg
      · exact h

theorem mergeRight_SJ (s : SSt) (l : Nat) (h : SJ s.st) : SJ (mergeRight s l).st := by
  unfold mergeRight
  exact mergeRightLoop_SJ _ _ _ h

/-! ### `Solver::satisfy` -/

theorem satisfyStep_SJ (s : SSt) (v : Nat) (h : SJ s.st) : SJ (satisfyStep s v).st := by
  unfold satisfyStep
  simp only
  split
  · exact h
  · exact mergeLeft_SJ _ _ h

theorem foldl_satisfyStep_SJ : ∀ (l : List Nat) (s : SSt), SJ s.st → SJ (l.foldl satisfyStep s).st
  | [], _, h => h
  | v :: rest, s, h => by
    rw [List.foldl_cons]
    exact foldl_satisfyStep_SJ rest _ (satisfyStep_SJ s v h)

theorem satisfyCore_SJ (s : SSt) (h : SJ s.st) : SJ (satisfyCore s).st := by
  unfold satisfyCore SSt.cleanup
  simp only
  exact SJ.of_same (same_cleanup _) (foldl_satisfyStep_SJ _ _ h)

/-- what a call of `satisfy` can return -/
theorem satisfy_cases (s : SSt) :
    (s.satisfy).1.st = (satisfyCore s).st ∧
    (∀ pos ret, (s.satisfy).2 = .ok pos ret →
      (s.satisfy).1.bad = false ∧ scanStatic (s.satisfy).1.st = true ∧ pos = (s.satisfy).1.st.positions) := by
  unfold SSt.satisfy
  simp only
  split
  · exact ⟨rfl, fun _ _ h => by cases h⟩
  · split
    · rename_i hb hs
      refine ⟨rfl, fun pos ret h => ?_⟩
      simp only [Outcome.ok.injEq] at h
      exact ⟨by simpa using hb, hs, h.1.symm⟩
    · exact ⟨rfl, fun _ _ h => by cases h⟩

theorem satisfy_SJ (s : SSt) (h : SJ s.st) : SJ (s.satisfy).1.st := by
  rw [(satisfy_cases s).1]
  exact satisfyCore_SJ s h

/-! ### `Blocks::split` -/

theorem split_ia (st : St) (ci : Nat) (ia : Array Nat) (h : InvC st.vars st.cons st.blocks.size ia)
    (hci : ci < st.cons.size) (hact : (st.cons[ci]!).active = true)
    (hfo : (st.split (blk st.vars (st.cons[ci]!).l) ci).1.fuelOut = false) :
    InvC (st.split (blk st.vars (st.cons[ci]!).l) ci).1.vars
      (st.split (blk st.vars (st.cons[ci]!).l) ci).1.cons
      (st.split (blk st.vars (st.cons[ci]!).l) ci).1.blocks.size
      (ia.push ci) := by
  unfold St.split at hfo ⊢
  simp only [St.refreshBlock] at hfo ⊢
  simp only [Bool.or_eq_false_iff, Bool.not_eq_false'] at hfo
  obtain ⟨⟨_, hok1⟩, hok2⟩ := hfo
  have := (split_core st.vars st.cons st.blocks.size ia h ci hci hact (st.vars.size + 1) #[] #[]
    hok1 hok2).1
  simpa using this

theorem split_fuel_true (st : St) (old ci : Nat) (h : st.fuelOut = true) :
    (st.split old ci).1.fuelOut = true := by
  unfold St.split
  simp [St.refreshBlock, h]

theorem split_SJ (st : St) (ci : Nat) (h : SJ st) (hact : (st.cons[ci]!).active = true) :
    SJ (st.split (blk st.vars (st.cons[ci]!).l) ci).1 := by
  by_cases hfo : (st.split (blk st.vars (st.cons[ci]!).l) ci).1.fuelOut = true
  · exact Or.inl hfo
  · have hfo' : (st.split (blk st.vars (st.cons[ci]!).l) ci).1.fuelOut = false := by simpa using hfo
    rcases h with h | h
    · rw [split_fuel_true st _ ci h] at hfo'; exact absurd hfo' (by simp)
    · right
      exact InvC.toRange (split_ia st ci _ h (active_lt _ _ hact) hact hfo')

theorem splitPre_st (s : SSt) (b c : Nat) :
    (splitPre s b c).1.st =
      setPosn ((s.st.split b c).1.insertBlocks (s.st.split b c).2.1 (s.st.split b c).2.2)
        (s.st.split b c).2.2 (s.st.blocks[b]!).posn := rfl

theorem splitMid_st (s : SSt) (c : Nat) :
    (splitMid s c).1.st = s.st.refreshBlock (blkOf s.st (s.st.cons[c]!).r) := rfl

theorem splitStatic_st (s : SSt) (b c : Nat) :
    (splitStatic s b c).st =
      St.markDeleted (mergeRight (splitMid (mergeLeft (splitPre s b c).1 (splitPre s b c).2) c).1
        (splitMid (mergeLeft (splitPre s b c).1 (splitPre s b c).2) c).2).st b := rfl

theorem splitStatic_SJ (s : SSt) (b c : Nat) (h : SJ s.st) (hact : (s.st.cons[c]!).active = true)
    (hb : blkOf s.st (s.st.cons[c]!).l = b) : SJ (splitStatic s b c).st := by
  rw [splitStatic_st]
  apply SJ.of_same (same_markDeleted _ _)
  apply mergeRight_SJ
  rw [splitMid_st]
  apply SJ.of_same (same_refreshBlock _ _)
  apply mergeLeft_SJ
  rw [splitPre_st]
  apply SJ.of_same (same_setPosn _ _ _)
  apply SJ.of_same (same_insertBlocks _ _ _)
  rw [← hb]
  exact split_SJ s.st c h hact

/-- every constraint whose `lm` is assigned by `compute_dfdv` in block `bid` is active and has an end in
    block `bid` -/
theorem computeDfdv_post_blk (st : St) (bid : Nat) :
    ∀ (fuel : Nat) (lm : Array Rat) (post : Array Nat) (v : Nat) (u : Option Nat),
      (∀ ci ∈ post, (st.cons[ci]!).active = true ∧
        (blk st.vars (st.cons[ci]!).r = bid ∨ blk st.vars (st.cons[ci]!).l = bid)) →
      ∀ ci ∈ (computeDfdv st bid fuel lm post v u).2.1, (st.cons[ci]!).active = true ∧
        (blk st.vars (st.cons[ci]!).r = bid ∨ blk st.vars (st.cons[ci]!).l = bid) := by
  intro fuel
  induction fuel with
  | zero => intro lm post v u h; simpa [computeDfdv] using h
  | succ fuel ih =>
    intro lm post v u h
    unfold computeDfdv
    simp only
    apply Array.foldl_induction
      (motive := fun _ (acc : Array Rat × Array Nat × Rat × Bool) => ∀ ci ∈ acc.2.1,
        (st.cons[ci]!).active = true ∧
        (blk st.vars (st.cons[ci]!).r = bid ∨ blk st.vars (st.cons[ci]!).l = bid))
    · apply Array.foldl_induction
        (motive := fun _ (acc : Array Rat × Array Nat × Rat × Bool) => ∀ ci ∈ acc.2.1,
          (st.cons[ci]!).active = true ∧
          (blk st.vars (st.cons[ci]!).r = bid ∨ blk st.vars (st.cons[ci]!).l = bid))
      · exact h
      · intro i acc hm
        split
        · rename_i hcf
          intro ci hci
          rcases Array.mem_push.1 hci with hci | rfl
          · exact ih _ _ _ _ hm ci hci
          · simp only [canFollowRight, Bool.and_eq_true, beq_iff_eq] at hcf
            exact ⟨hcf.1.2, Or.inl hcf.1.1⟩
        · exact hm
    · intro i acc hm
      split
      · rename_i hcf
        intro ci hci
        rcases Array.mem_push.1 hci with hci | rfl
        · exact ih _ _ _ _ hm ci hci
        · simp only [canFollowLeft, Bool.and_eq_true, beq_iff_eq] at hcf
          exact ⟨hcf.1.2, Or.inr hcf.1.1⟩
      · exact hm

/-- `Block::findMinLM` of block `bid` returns a constraint of block `bid` -/
theorem findMinLM_blk (st : St) (bid : Nat) {n : Nat} {ia : Array Nat} (h : InvC st.vars st.cons n ia)
    (ci : Nat) (lmv gap : Rat) (hr : (st.findMinLM bid).2 = some (ci, lmv, gap)) :
    blk st.vars (st.cons[ci]!).l = bid := by
  unfold St.findMinLM at hr
  simp only at hr
  have hm := argMinFirst_mem _ _ _ _ hr
  simp only [Array.mem_map, Array.mem_filter] at hm
  obtain ⟨cj, ⟨hcj, _⟩, heq⟩ := hm
  simp only [Prod.mk.injEq] at heq
  obtain ⟨rfl, _⟩ := heq
  have hempty : ∀ ci ∈ (#[] : Array Nat), (st.cons[ci]!).active = true ∧
      (blk st.vars (st.cons[ci]!).r = bid ∨ blk st.vars (st.cons[ci]!).l = bid) :=
    fun ci hh => absurd hh (Array.not_mem_empty ci)
  obtain ⟨ha, hb⟩ := computeDfdv_post_blk st bid (st.vars.size + 1) st.lm #[] _ none hempty cj hcj
  rcases hb with hb | hb
  · rw [(h.tight cj (active_lt _ _ ha) ha).1]; exact hb
  · exact hb

/-- once a traversal has run out of fuel every later state keeps the flag -/
theorem mergeDir_fuel (st : St) (ci dst src : Nat) (d : Rat) : (mergeDir st ci dst src d).fuelOut = st.fuelOut :=
  (mergeDir_core st ci dst src d).2.2.2

theorem mergeLeftLoop_fuel : ∀ (fuel : Nat) (s : SSt) (r : Nat), s.st.fuelOut = true →
    (mergeLeftLoop fuel s r).st.fuelOut = true
  | 0, _, _, h => h
  | fuel + 1, s, r, h => by
    unfold mergeLeftLoop
    simp only
    split
    · exact h
    · split
      · split
        · exact h
        · apply mergeLeftLoop_fuel
          rw [mergeLeftStep_st, mergeDir_fuel]; exact h
      · exact h

theorem mergeRightLoop_fuel : ∀ (fuel : Nat) (s : SSt) (l : Nat), s.st.fuelOut = true →
    (mergeRightLoop fuel s l).st.fuelOut = true
  | 0, _, _, h => h
  | fuel + 1, s, l, h => by
    unfold mergeRightLoop
    simp only
    split
    · exact h
    · split
      · split
        · exact h
        · apply mergeRightLoop_fuel
          rw [mergeRightStep_st, mergeDir_fuel]; exact h
      · exact h

theorem splitStatic_fuel (s : SSt) (b c : Nat) (h : s.st.fuelOut = true) :
    (splitStatic s b c).st.fuelOut = true := by
  rw [splitStatic_st]
  simp only [St.markDeleted]
  unfold mergeRight
  apply mergeRightLoop_fuel
  rw [splitMid_st]
  rw [(refreshBlock_core _ _).2.2.2.2]
  unfold mergeLeft
  apply mergeLeftLoop_fuel
  rw [splitPre_st]
  simp only [setPosn, St.insertBlocks]
  exact split_fuel_true _ _ _ h

/-! ### `Solver::refine` -/

theorem refineSetUp_st (s : SSt) : (refineSetUp s).st = s.st := rfl

theorem refineTry_SJ (s : SSt) (b : Nat) (h : SJ s.st) : SJ (refineTry s b).1.st := by
  have h1 := findMinLM_SJ s.st b h
  obtain ⟨hv, hc, _, _, hfo, hact⟩ := findMinLM_spec s.st b
  unfold refineTry
  simp only
  split
  · exact h1
  · rename_i ci lmv gap heq
    split
    · have ha : ((s.st.findMinLM b).1.cons[ci]!).active = true := by
        rw [hc]; exact hact ci lmv gap heq
      apply SJ.of_same (same_cleanup _)
      rcases h1 with hf | hi
      · -- a traversal already ran out of fuel: every later state keeps the flag
        exact Or.inl (splitStatic_fuel _ _ _ hf)
      · have hblk : blkOf (s.st.findMinLM b).1 ((s.st.findMinLM b).1.cons[ci]!).l = b := by
          have hic : InvC s.st.vars s.st.cons (s.st.findMinLM b).1.blocks.size
              (Array.range (s.st.findMinLM b).1.cons.size) := by
            have := hi; unfold IC at this; rw [hv, hc] at this; rw [hc]; exact this
          have := findMinLM_blk s.st b hic ci lmv gap heq
          unfold blkOf; rw [hv, hc]; exact this
        exact splitStatic_SJ _ _ _ (Or.inr hi) ha hblk
    · exact h1

theorem refineScan_SJ : ∀ (l : List Nat) (s : SSt), SJ s.st → SJ (refineScan s l).1.st
  | [], _, h => h
  | b :: rest, s, h => by
    unfold refineScan
    have h1 := refineTry_SJ s b h
    simp only
    split
    · exact h1
    · exact refineScan_SJ rest _ h1

theorem refineLoop_SJ : ∀ (tries : Nat) (s : SSt), SJ s.st → SJ (refineLoop tries s).st
  | 0, _, h => h
  | tries + 1, s, h => by
    unfold refineLoop
    simp only
    have h1 : SJ (refineScan (refineSetUp { s with hs := { s.hs with nRounds := s.hs.nRounds + 1 } })
        (refineSetUp { s with hs := { s.hs with nRounds := s.hs.nRounds + 1 } }).st.order.toList).1.st :=
      refineScan_SJ _ _ h
    split
    · exact refineLoop_SJ tries _ h1
    · exact h1

theorem refineCore_SJ (s : SSt) (h : SJ s.st) : SJ (refineCore s).st := refineLoop_SJ 100 s h

/-- what a call of `solve` can return -/
theorem solve_cases (s : SSt) :
    (∀ pos ret, (s.solve).2 = .ok pos ret →
      (s.solve).1.bad = false ∧ scanStatic (s.solve).1.st = true ∧ pos = (s.solve).1.st.positions ∧
      (s.solve).1.st = (refineCore (s.satisfy).1).st ∧ ∃ p r, (s.satisfy).2 = .ok p r) ∧
    (SJ s.st → SJ (s.solve).1.st) := by
  unfold SSt.solve
  split
  · rename_i s1 p r heq
    have e1 : (s.satisfy).1 = s1 := by rw [heq]
    have hSJ : SJ s.st → SJ (refineCore s1).st := fun h =>
      refineCore_SJ _ (by rw [← e1]; exact satisfy_SJ s h)
    simp only
    split
    · exact ⟨fun _ _ h => (by cases h), hSJ⟩
    · split
      · rename_i hb hs
        refine ⟨fun pos ret h => ?_, hSJ⟩
        simp only [Outcome.ok.injEq] at h
        exact ⟨by simpa using hb, hs, h.1.symm, by rw [e1], ⟨p, r, by rw [heq]⟩⟩
      · exact ⟨fun _ _ h => (by cases h), hSJ⟩
  · rename_i r hne
    refine ⟨fun pos ret h => ?_, fun h => satisfy_SJ s h⟩
    exfalso
    cases hr : s.satisfy with
    | mk a o =>
      rw [hr] at h
      simp only at h
      exact hne a pos ret (by rw [hr, h])

theorem solve_SJ (s : SSt) (h : SJ s.st) : SJ (s.solve).1.st := (solve_cases s).2 h

/-! ### the constructor -/

theorem init_SJ (vs : Array (Rat × Rat × Rat)) (cs : Array Con)
    (hv : ∀ c ∈ cs, c.l < vs.size ∧ c.r < vs.size ∧ c.unsat = false) : SJ (SSt.init vs cs).st :=
  Or.inr (InvC.toRange (init_inv vs cs hv))

/-! ### the exit scans -/

theorem scanStatic_iff (st : St) :
    scanStatic st = true ↔ ∀ ci : Nat, ci < st.cons.size → ZERO_UPPERBOUND ≤ rawSlack st ci := by
  unfold scanStatic
  simp [List.all_eq_true]

theorem bad_false (s : SSt) (h : s.bad = false) :
    s.st.fuelOut = false ∧ s.hs.fuelOut = false ∧ s.hs.corrupt = false := by
  unfold SSt.bad at h
  simp only [Bool.or_eq_false_iff] at h
  exact ⟨h.2, h.1.1, h.1.2⟩

end AdaptaVerif.Lemmas.VpscStatic
