/-
Lemmas about the model of the static VPSC solver (`Model/VpscStatic.lean`):
 * the block invariant `InvC` of the IncSolver model (active constraints of a block = a tight spanning
   tree, in/out lists exact) is preserved by `mergeLeft`, `mergeRight`, `Blocks::split`, the loops of
   `Solver::satisfy` and `Solver::refine`, for all inputs;
 * the exit scans.
The heap side (`HS`) never writes the variable / constraint / block arrays, so most of the work is
frames; the two merges go through `merge_core`, the split through `split_core`.
-/
import AdaptaVerif.Model.VpscStatic
import AdaptaVerif.Lemmas.VpscLoop
namespace AdaptaVerif.Lemmas.VpscStatic
open AdaptaVerif.Model.Vpsc AdaptaVerif.Model.VpscStatic
open AdaptaVerif.Lemmas.VpscInv AdaptaVerif.Lemmas.VpscMerge AdaptaVerif.Lemmas.VpscSplit
open AdaptaVerif.Lemmas.VpscLoop AdaptaVerif.Lemmas.VpscTraverse
open AdaptaVerif.Model.PairingHeap (PTree findMin link)

/-- the block invariant on a state of the static solver: `InvC` with "every constraint" as the list of
    constraints that may be inactive (the static solver keeps no such list) -/
def IC (st : St) : Prop := InvC st.vars st.cons st.blocks.size (Array.range st.cons.size)

/-- … unless one of the tree traversals of `Block::split` ran out of fuel -/
def SJ (st : St) : Prop := st.fuelOut = true ∨ IC st

theorem InvC.toRange {vars : Array Var} {cons : Array Con} {n : Nat} {ia : Array Nat}
    (h : InvC vars cons n ia) : InvC vars cons n (Array.range cons.size) :=
  { h with
    cover := fun j hj => Or.inr (Or.inr (Array.mem_range.2 hj))
    inact_lt := fun j hj => Array.mem_range.1 hj }

/-- agreement on everything `SJ` reads -/
def Same (a b : St) : Prop :=
  a.vars = b.vars ∧ a.cons = b.cons ∧ a.blocks.size = b.blocks.size ∧ a.fuelOut = b.fuelOut

theorem SJ.of_same {a b : St} (hs : Same a b) (h : SJ b) : SJ a := by
  obtain ⟨hv, hc, hb, hf⟩ := hs
  unfold SJ IC at *
  rw [hv, hc, hb, hf]
  exact h

theorem same_insertBlocks (st : St) (a b : Nat) : Same (st.insertBlocks a b) st := ⟨rfl, rfl, rfl, rfl⟩
theorem same_cleanup (st : St) : Same st.cleanup st := ⟨rfl, rfl, rfl, rfl⟩
theorem same_setPosn (st : St) (b : Nat) (p : Rat) : Same (setPosn st b p) st := by
  simp [Same, setPosn]
theorem same_markDeleted (st : St) (b : Nat) : Same (st.markDeleted b) st := by
  simp [Same, St.markDeleted]
theorem same_refreshBlock (st : St) (b : Nat) : Same (st.refreshBlock b) st := by
  obtain ⟨a, b', c, _, e⟩ := refreshBlock_core st b
  exact ⟨a, b', c, e⟩

theorem findMinLM_SJ (st : St) (b : Nat) (h : SJ st) : SJ (st.findMinLM b).1 := by
  obtain ⟨hv, hc, hb, _, hf, _⟩ := findMinLM_spec st b
  by_cases hfo : (st.findMinLM b).1.fuelOut = true
  · exact Or.inl hfo
  · have hfo' : (st.findMinLM b).1.fuelOut = false := by simpa using hfo
    rcases h with h | h
    · rw [hf hfo'] at h; exact absurd h (by simp)
    · right
      unfold IC
      rw [hv, hc, hb]
      exact h

/-! ### `Block::merge(b, c, dist)` -/

theorem mergeDir_core (st : St) (ci dst src : Nat) (d : Rat) :
    (mergeDir st ci dst src d).vars = shiftVars st.vars src dst d ∧
    (mergeDir st ci dst src d).cons = st.cons.set! ci { st.cons[ci]! with active := true } ∧
    (mergeDir st ci dst src d).blocks.size = st.blocks.size ∧
    (mergeDir st ci dst src d).fuelOut = st.fuelOut := by
  simp [mergeDir, St.refreshBlock]

theorem default_con_lr : (default : Con).l = (default : Con).r := rfl

theorem ext_lt (st : St) (ci : Nat)
    (hne : blk st.vars (st.cons[ci]!).l ≠ blk st.vars (st.cons[ci]!).r) : ci < st.cons.size := by
  by_contra hge
  apply hne
  rw [getElem!_neg st.cons ci hge, default_con_lr]

/-- a merge across a constraint that joins two different blocks, in either direction, keeps the
    invariant -/
theorem mergeDir_SJ (st : St) (ci dst src : Nat) (d : Rat) (h : SJ st)
    (hne : blk st.vars (st.cons[ci]!).l ≠ blk st.vars (st.cons[ci]!).r)
    (hsd : (src = blk st.vars (st.cons[ci]!).l ∧ dst = blk st.vars (st.cons[ci]!).r ∧
              d = offs st.vars (st.cons[ci]!).r - offs st.vars (st.cons[ci]!).l - (st.cons[ci]!).gap) ∨
           (src = blk st.vars (st.cons[ci]!).r ∧ dst = blk st.vars (st.cons[ci]!).l ∧
              d = -(offs st.vars (st.cons[ci]!).r - offs st.vars (st.cons[ci]!).l - (st.cons[ci]!).gap))) :
    SJ (mergeDir st ci dst src d) := by
  obtain ⟨hv, hc, hb, hf⟩ := mergeDir_core st ci dst src d
  rcases h with h | h
  · left; rw [hf]; exact h
  · right
    unfold IC
    rw [hv, hc, hb]
    have hci := ext_lt st ci hne
    have := merge_core st.vars st.cons st.blocks.size _ h ci hci hne src dst d hsd
    rw [set!_size]
    exact this

theorem internal_false (st : St) (c : Nat) (h : internal st c = false) :
    blk st.vars (st.cons[c]!).l ≠ blk st.vars (st.cons[c]!).r := by
  unfold internal blkOf at h
  simpa [blk] using h

/-! ### the root of a repaired heap is never an internal constraint -/

theorem findMin_link {lt : Nat → Nat → Bool} (a b : PTree Nat) (x : Nat × Nat)
    (h : findMin (link lt a b) = some x) : findMin a = some x ∨ findMin b = some x := by
  cases a with
  | nil => cases b <;> simp_all [link]
  | node ka ia ca sa =>
    cases b with
    | nil => left; simpa [link] using h
    | node kb ib cb sb =>
      simp only [link] at h
      split at h
      · right; simpa [findMin] using h
      · left; simpa [findMin] using h

theorem findMin_insert {lt : Nat → Nat → Bool} (h : PTree Nat) (k i : Nat) (x : Nat × Nat)
    (hx : findMin (AdaptaVerif.Model.PairingHeap.insert lt h k i) = some x) : x = (k, i) ∨ findMin h = some x := by
  unfold AdaptaVerif.Model.PairingHeap.insert at hx
  split at hx
  · left; simpa [findMin] using hx.symm
  · rcases findMin_link _ _ x hx with h1 | h1
    · right; exact h1
    · left; simpa [findMin] using h1.symm

/-- "the root, if any, is not internal" -/
def RootExt (st : St) (h : Heap) : Prop := ∀ x, findMin h = some x → internal st x.1 = false

theorem rootExt_nil (st : St) : RootExt st .nil := fun x hx => by simp [findMin] at hx

theorem findMinOutLoop_root (st : St) : ∀ (fuel : Nat) (hs : HS) (h : Heap),
    RootExt st (findMinOutLoop st fuel hs h).2
  | 0, _, _ => rootExt_nil st
  | fuel + 1, hs, h => by
    unfold findMinOutLoop
    split
    · rename_i hn
      intro x hx
      rw [hn] at hx; cases hx
    · rename_i v i hv
      split
      · exact findMinOutLoop_root st fuel _ _
      · rename_i hi
        intro x hx
        rw [hv] at hx
        cases hx
        simpa using hi

theorem findMinOut_ext (st : St) (hs : HS) (b c : Nat) (h : (findMinOut st hs b).2 = some c) :
    internal st c = false := by
  unfold findMinOut at h
  simp only [Option.map_eq_some_iff] at h
  obtain ⟨x, hx, rfl⟩ := h
  exact findMinOutLoop_root st _ _ _ x hx

theorem findMinInLoop_root (st : St) : ∀ (fuel : Nat) (hs : HS) (h : Heap) (ood : List Nat),
    (∀ v ∈ ood, internal st v = false) →
    RootExt st (findMinInLoop st fuel hs h ood).2.1 ∧
    ∀ v ∈ (findMinInLoop st fuel hs h ood).2.2, internal st v = false
  | 0, _, _, _, _ => ⟨rootExt_nil st, fun v hv => by simp [findMinInLoop] at hv⟩
  | fuel + 1, hs, h, ood, ho => by
    unfold findMinInLoop
    split
    · rename_i hn
      exact ⟨fun x hx => (by rw [hn] at hx; cases hx), ho⟩
    · rename_i v i hv
      split
      · exact findMinInLoop_root st fuel _ _ _ ho
      · rename_i hi
        split
        · apply findMinInLoop_root st fuel _ _ _
          intro w hw
          simp only [List.mem_append, List.mem_singleton] at hw
          rcases hw with hw | rfl
          · exact ho w hw
          · simpa using hi
        · refine ⟨fun x hx => ?_, ho⟩
          rw [hv] at hx
          cases hx
          simpa using hi

theorem reinsert_root (st : St) : ∀ (l : List Nat) (acc : HS × Heap),
    RootExt st acc.2 → (∀ v ∈ l, internal st v = false) → RootExt st (l.foldl (reinsertStep st) acc).2
  | [], _, h, _ => h
  | v :: rest, acc, h, hl => by
    rw [List.foldl_cons]
    apply reinsert_root st rest
    · intro x hx
      unfold reinsertStep at hx
      simp only at hx
      rcases findMin_insert _ _ _ x hx with h0 | h1
      · rw [h0]; exact hl v (by simp)
      · exact h x h1
    · intro w hw
      exact hl w (by simp [hw])

theorem findMinInHeap_ext (st : St) (hs : HS) (h : Heap) (c : Nat)
    (hc : (findMinInHeap st hs h).2.2 = some c) : internal st c = false := by
  unfold findMinInHeap at hc
  simp only [Option.map_eq_some_iff] at hc
  obtain ⟨x, hx, rfl⟩ := hc
  have hl := findMinInLoop_root st ((heapElems h).length + 1) (hs.noteKeys st (heapElems h)) h []
    (fun v hv => by cases hv)
  exact reinsert_root st _ _ hl.1 hl.2 x hx

theorem findMinIn_ext (st : St) (hs : HS) (b c : Nat) (h : (findMinIn st hs b).2 = some c) :
    internal st c = false :=
  findMinInHeap_ext st hs _ c h

/-! ### `Blocks::mergeLeft` -/

theorem mergeLeftStep_st (s : SSt) (r c : Nat) :
    (mergeLeftStep s r c).1.st =
      mergeDir s.st c
        (if blockSize s.st r < blockSize s.st (blkOf s.st (s.st.cons[c]!).l) then blkOf s.st (s.st.cons[c]!).l else r)
        (if blockSize s.st r < blockSize s.st (blkOf s.st (s.st.cons[c]!).l) then r else blkOf s.st (s.st.cons[c]!).l)
        (if blockSize s.st r < blockSize s.st (blkOf s.st (s.st.cons[c]!).l) then
          -((s.st.vars[(s.st.cons[c]!).r]!).offset - (s.st.vars[(s.st.cons[c]!).l]!).offset - (s.st.cons[c]!).gap)
         else (s.st.vars[(s.st.cons[c]!).r]!).offset - (s.st.vars[(s.st.cons[c]!).l]!).offset - (s.st.cons[c]!).gap) := rfl

theorem mergeLeftStep_SJ (s : SSt) (r c : Nat) (h : SJ s.st) (hint : internal s.st c = false)
    (hr : blkOf s.st (s.st.cons[c]!).r = r) : SJ (mergeLeftStep s r c).1.st := by
  rw [mergeLeftStep_st]
  have hne := internal_false s.st c hint
  apply mergeDir_SJ _ _ _ _ _ h hne
  split
  · right; exact ⟨hr.symm, rfl, rfl⟩
  · left; exact ⟨rfl, hr.symm, rfl⟩

/-! ### `Blocks::mergeRight` -/

theorem mergeRightStep_st (s : SSt) (l c : Nat) :
    (mergeRightStep s l c).1.st =
      mergeDir s.st c
        (if blockSize s.st l > blockSize s.st (blkOf s.st (s.st.cons[c]!).r) then blkOf s.st (s.st.cons[c]!).r else l)
        (if blockSize s.st l > blockSize s.st (blkOf s.st (s.st.cons[c]!).r) then l else blkOf s.st (s.st.cons[c]!).r)
        (if blockSize s.st l > blockSize s.st (blkOf s.st (s.st.cons[c]!).r) then
          -((s.st.vars[(s.st.cons[c]!).l]!).offset + (s.st.cons[c]!).gap - (s.st.vars[(s.st.cons[c]!).r]!).offset)
         else (s.st.vars[(s.st.cons[c]!).l]!).offset + (s.st.cons[c]!).gap - (s.st.vars[(s.st.cons[c]!).r]!).offset) := rfl

theorem mergeRightStep_SJ (s : SSt) (l c : Nat) (h : SJ s.st) (hint : internal s.st c = false)
    (hl : blkOf s.st (s.st.cons[c]!).l = l) : SJ (mergeRightStep s l c).1.st := by
  rw [mergeRightStep_st]
  have hne := internal_false s.st c hint
  apply mergeDir_SJ _ _ _ _ _ h hne
  split
  · left
    refine ⟨hl.symm, rfl, ?_⟩
    simp only [offs]; grind
  · right
    refine ⟨rfl, hl.symm, ?_⟩
    simp only [offs]; grind

/-! ### `Solver::satisfy` -/

/-- what a call of `satisfy` can return -/
theorem satisfy_cases (s : SSt) :
    (s.satisfy).1.st = (satisfyCore s).st ∧
    (∀ pos ret, (s.satisfy).2 = .ok pos ret →
      (s.satisfy).1.bad = false ∧ scanStatic (s.satisfy).1.st = true ∧ pos = (s.satisfy).1.st.positions) := by
  unfold SSt.satisfy
  simp only
  split
  · exact ⟨rfl, fun _ _ h => by cases h⟩
  · split
    · rename_i hb hs
      refine ⟨rfl, fun pos ret h => ?_⟩
      simp only [Outcome.ok.injEq] at h
      exact ⟨by simpa using hb, hs, h.1.symm⟩
    · exact ⟨rfl, fun _ _ h => by cases h⟩

/-! ### `Blocks::split` -/

theorem split_ia (st : St) (ci : Nat) (ia : Array Nat) (h : InvC st.vars st.cons st.blocks.size ia)
    (hci : ci < st.cons.size) (hact : (st.cons[ci]!).active = true)
    (hfo : (st.split (blk st.vars (st.cons[ci]!).l) ci).1.fuelOut = false) :
    InvC (st.split (blk st.vars (st.cons[ci]!).l) ci).1.vars
      (st.split (blk st.vars (st.cons[ci]!).l) ci).1.cons
      (st.split (blk st.vars (st.cons[ci]!).l) ci).1.blocks.size
      (ia.push ci) := by
  unfold St.split at hfo ⊢
  simp only [St.refreshBlock] at hfo ⊢
  simp only [Bool.or_eq_false_iff, Bool.not_eq_false'] at hfo
  obtain ⟨⟨_, hok1⟩, hok2⟩ := hfo
  have := (split_core st.vars st.cons st.blocks.size ia h ci hci hact (st.vars.size + 1) #[] #[]
    hok1 hok2).1
  simpa using this

theorem split_fuel_true (st : St) (old ci : Nat) (h : st.fuelOut = true) :
    (st.split old ci).1.fuelOut = true := by
  unfold St.split
  simp [St.refreshBlock, h]

theorem split_SJ (st : St) (ci : Nat) (h : SJ st) (hact : (st.cons[ci]!).active = true) :
    SJ (st.split (blk st.vars (st.cons[ci]!).l) ci).1 := by
  by_cases hfo : (st.split (blk st.vars (st.cons[ci]!).l) ci).1.fuelOut = true
  · exact Or.inl hfo
  · have hfo' : (st.split (blk st.vars (st.cons[ci]!).l) ci).1.fuelOut = false := by simpa using hfo
    rcases h with h | h
    · rw [split_fuel_true st _ ci h] at hfo'; exact absurd hfo' (by simp)
    · right
      exact InvC.toRange (split_ia st ci _ h (active_lt _ _ hact) hact hfo')

theorem splitPre_st (s : SSt) (b c : Nat) :
    (splitPre s b c).1.st =
      setPosn ((s.st.split b c).1.insertBlocks (s.st.split b c).2.1 (s.st.split b c).2.2)
        (s.st.split b c).2.2 (s.st.blocks[b]!).posn := rfl

theorem splitMid_st (s : SSt) (c : Nat) :
    (splitMid s c).1.st = s.st.refreshBlock (blkOf s.st (s.st.cons[c]!).r) := rfl

theorem splitStatic_st (s : SSt) (b c : Nat) :
    (splitStatic s b c).st =
      St.markDeleted (mergeRight (splitMid (mergeLeft (splitPre s b c).1 (splitPre s b c).2) c).1
        (splitMid (mergeLeft (splitPre s b c).1 (splitPre s b c).2) c).2).st b := rfl

/-- every constraint whose `lm` is assigned by `compute_dfdv` in block `bid` is active and has an end in
    block `bid` -/
theorem computeDfdv_post_blk (st : St) (bid : Nat) :
    ∀ (fuel : Nat) (lm : Array Rat) (post : Array Nat) (v : Nat) (u : Option Nat),
      (∀ ci ∈ post, (st.cons[ci]!).active = true ∧
        (blk st.vars (st.cons[ci]!).r = bid ∨ blk st.vars (st.cons[ci]!).l = bid)) →
      ∀ ci ∈ (computeDfdv st bid fuel lm post v u).2.1, (st.cons[ci]!).active = true ∧
        (blk st.vars (st.cons[ci]!).r = bid ∨ blk st.vars (st.cons[ci]!).l = bid) := by
  intro fuel
  induction fuel with
  | zero => intro lm post v u h; simpa [computeDfdv] using h
  | succ fuel ih =>
    intro lm post v u h
    unfold computeDfdv
    simp only
    apply Array.foldl_induction
      (motive := fun _ (acc : Array Rat × Array Nat × Rat × Bool) => ∀ ci ∈ acc.2.1,
        (st.cons[ci]!).active = true ∧
        (blk st.vars (st.cons[ci]!).r = bid ∨ blk st.vars (st.cons[ci]!).l = bid))
    · apply Array.foldl_induction
        (motive := fun _ (acc : Array Rat × Array Nat × Rat × Bool) => ∀ ci ∈ acc.2.1,
          (st.cons[ci]!).active = true ∧
          (blk st.vars (st.cons[ci]!).r = bid ∨ blk st.vars (st.cons[ci]!).l = bid))
      · exact h
      · intro i acc hm
        split
        · rename_i hcf
          intro ci hci
          rcases Array.mem_push.1 hci with hci | rfl
          · exact ih _ _ _ _ hm ci hci
          · simp only [canFollowRight, Bool.and_eq_true, beq_iff_eq] at hcf
            exact ⟨hcf.1.2, Or.inl hcf.1.1⟩
        · exact hm
    · intro i acc hm
      split
      · rename_i hcf
        intro ci hci
        rcases Array.mem_push.1 hci with hci | rfl
        · exact ih _ _ _ _ hm ci hci
        · simp only [canFollowLeft, Bool.and_eq_true, beq_iff_eq] at hcf
          exact ⟨hcf.1.2, Or.inr hcf.1.1⟩
      · exact hm

/-- `Block::findMinLM` of block `bid` returns a constraint of block `bid` -/
theorem findMinLM_blk (st : St) (bid : Nat) {n : Nat} {ia : Array Nat} (h : InvC st.vars st.cons n ia)
    (ci : Nat) (lmv gap : Rat) (hr : (st.findMinLM bid).2 = some (ci, lmv, gap)) :
    blk st.vars (st.cons[ci]!).l = bid := by
  unfold St.findMinLM at hr
  simp only at hr
  have hm := argMinFirst_mem _ _ _ _ hr
  simp only [Array.mem_map, Array.mem_filter] at hm
  obtain ⟨cj, ⟨hcj, _⟩, heq⟩ := hm
  simp only [Prod.mk.injEq] at heq
  obtain ⟨rfl, _⟩ := heq
  have hempty : ∀ ci ∈ (#[] : Array Nat), (st.cons[ci]!).active = true ∧
      (blk st.vars (st.cons[ci]!).r = bid ∨ blk st.vars (st.cons[ci]!).l = bid) :=
    fun ci hh => absurd hh (Array.not_mem_empty ci)
  obtain ⟨ha, hb⟩ := computeDfdv_post_blk st bid (st.vars.size + 1) st.lm #[] _ none hempty cj hcj
  rcases hb with hb | hb
  · rw [(h.tight cj (active_lt _ _ ha) ha).1]; exact hb
  · exact hb

/-- what a call of `solve` can return -/
theorem solve_cases (s : SSt) :
    (∀ pos ret, (s.solve).2 = .ok pos ret →
      (s.solve).1.bad = false ∧ scanStatic (s.solve).1.st = true ∧ pos = (s.solve).1.st.positions) ∧
    ((s.solve).1.st = (refineCore (s.satisfy).1).st ∨ (s.solve).1.st = (s.satisfy).1.st) := by
  unfold SSt.solve
  split
  · rename_i s1 p r heq
    have e1 : (s.satisfy).1 = s1 := by rw [heq]
    simp only
    split
    · exact ⟨fun _ _ h => (by cases h), Or.inl (by rw [e1])⟩
    · split
      · rename_i hb hs
        refine ⟨fun pos ret h => ?_, Or.inl (by rw [e1])⟩
        simp only [Outcome.ok.injEq] at h
        exact ⟨by simpa using hb, hs, h.1.symm⟩
      · exact ⟨fun _ _ h => (by cases h), Or.inl (by rw [e1])⟩
  · rename_i r hne
    refine ⟨fun pos ret h => ?_, Or.inr rfl⟩
    exfalso
    cases hr : s.satisfy with
    | mk a o =>
      rw [hr] at h
      simp only at h
      exact hne a pos ret (by rw [hr, h])

/-! ### the constructor -/

theorem init_SJ (vs : Array (Rat × Rat × Rat)) (cs : Array Con)
    (hv : ∀ c ∈ cs, c.l < vs.size ∧ c.r < vs.size ∧ c.unsat = false) : SJ (SSt.init vs cs).st :=
  Or.inr (InvC.toRange (init_inv vs cs hv))

/-! ### the exit scans -/

theorem scanStatic_iff (st : St) :
    scanStatic st = true ↔ ∀ ci : Nat, ci < st.cons.size → ZERO_UPPERBOUND ≤ rawSlack st ci := by
  unfold scanStatic
  simp [List.all_eq_true]

theorem bad_false (s : SSt) (h : s.bad = false) : s.st.fuelOut = false ∧ s.hs.fuelOut = false := by
  unfold SSt.bad at h
  simp only [Bool.or_eq_false_iff] at h
  exact ⟨h.2, h.1⟩

end AdaptaVerif.Lemmas.VpscStatic
