/-
Geometry of the pieces during the computeCrossings sweep (`Pc`): tails, frozen pieces, and "no crossing node lies
strictly inside a piece"; preserved by every cut (`pc_cross`).
-/
import AdaptaVerif.Lemmas.PlanariseConnSweep
namespace AdaptaVerif.Lemmas.Planarise
open AdaptaVerif.Model.Planarise

variable {S : List Seg} {st : SwState}

/-! ### no crossing node strictly inside a piece -/

/-- `p` lies strictly inside the axis-parallel piece `t` -/
def InsideP (p : Pt) (t : Seg) : Prop :=
  (t.on.p.y = t.cn.p.y ∧ p.y = t.on.p.y ∧ ((t.on.p.x < p.x ∧ p.x < t.cn.p.x) ∨ (t.cn.p.x < p.x ∧ p.x < t.on.p.x))) ∨
  (t.on.p.x = t.cn.p.x ∧ p.x = t.on.p.x ∧ ((t.on.p.y < p.y ∧ p.y < t.cn.p.y) ∨ (t.cn.p.y < p.y ∧ p.y < t.on.p.y)))

/-- geometry of the pieces: the tail of every segment spans from its event's end node to the original far end;
every other piece is frozen, inside its original segment and not beyond the tail start; no crossing node lies
strictly inside a piece -/
structure Pc (S : List Seg) (st : SwState) : Prop where
  tailH : ∀ (i : Nat) (si : Seg) (e : Ev), S[i]? = some si → si.ori = .H → st.evs[2 * i]? = some e →
    ∃ t, st.segs[e.seg]? = some t ∧ t.on.p = ⟨e.endpt.p.x, si.cc⟩ ∧ t.cn.p = ⟨si.hi, si.cc⟩ ∧
      si.lo ≤ e.endpt.p.x ∧ e.endpt.p.x ≤ si.hi
  tailV : ∀ (k : Nat) (sk : Seg) (ov : Ev), S[k]? = some sk → sk.ori = .V → st.evs[2 * k]? = some ov →
    ∃ t, st.segs[ov.seg]? = some t ∧ t.on.p = ⟨sk.cc, ov.endpt.p.y⟩ ∧ t.cn.p = ⟨sk.cc, sk.hi⟩ ∧
      sk.lo ≤ ov.endpt.p.y ∧ ov.endpt.p.y ≤ sk.hi
  frozen : ∀ (a : Nat) (t : Seg), st.segs[a]? = some t → (∀ (j : Nat) (ej : Ev), st.evs[2 * j]? = some ej → ej.seg ≠ a) →
    ∃ (j : Nat) (sj : Seg) (ej : Ev), S[j]? = some sj ∧ st.evs[2 * j]? = some ej ∧
      ((sj.ori = .H ∧ t.on.p.y = sj.cc ∧ t.cn.p.y = sj.cc ∧ sj.lo ≤ t.on.p.x ∧ t.on.p.x ≤ ej.endpt.p.x ∧
          sj.lo ≤ t.cn.p.x ∧ t.cn.p.x ≤ ej.endpt.p.x ∧ ej.endpt.p.x ≤ sj.hi) ∨
       (sj.ori = .V ∧ t.on.p.x = sj.cc ∧ t.cn.p.x = sj.cc ∧ sj.lo ≤ t.on.p.y ∧ t.on.p.y ≤ ej.endpt.p.y ∧
          sj.lo ≤ t.cn.p.y ∧ t.cn.p.y ≤ ej.endpt.p.y ∧ ej.endpt.p.y ≤ sj.hi))
  ni : ∀ (a : Nat) (t : Seg) (c : Node), st.segs[a]? = some t → c ∈ st.cross → ¬ InsideP c.p t

theorem Pc.same {st' : SwState} (h : Pc S st) (h1 : st'.segs = st.segs) (h2 : st'.evs = st.evs)
    (h3 : st'.cross = st.cross) : Pc S st' := by
  refine ⟨?_, ?_, ?_, ?_⟩
  · rw [h1, h2]; exact h.tailH
  · rw [h1, h2]; exact h.tailV
  · rw [h1, h2]; exact h.frozen
  · rw [h1, h3]; exact h.ni

theorem Pc.setTy (h : Pc S st) {x : Nat} {eo : Ev} (hx : st.evs[x]? = some eo) (ty : EvType)
    {st' : SwState} (h1 : st'.segs = st.segs) (h2 : st'.evs = st.evs.set x { eo with ty := ty })
    (h3 : st'.cross = st.cross) : Pc S st' := by
  have hget : ∀ (y : Nat) (e : Ev), st'.evs[y]? = some e →
      ∃ e0 : Ev, st.evs[y]? = some e0 ∧ e.seg = e0.seg ∧ e.endpt = e0.endpt := by
    intro y e hy
    rw [h2, List.getElem?_set] at hy
    split at hy
    · rename_i hxy; subst hxy
      split at hy
      · cases hy; exact ⟨eo, hx, rfl, rfl⟩
      · cases hy
    · exact ⟨e, hy, rfl, rfl⟩
  have hget' : ∀ (y : Nat) (e0 : Ev), st.evs[y]? = some e0 →
      ∃ e : Ev, st'.evs[y]? = some e ∧ e.seg = e0.seg ∧ e.endpt = e0.endpt := by
    intro y e0 hy
    rw [h2, List.getElem?_set]
    split
    · rename_i hxy; subst hxy
      have := (List.getElem?_eq_some_iff.1 hy).1
      rw [hx] at hy; cases hy
      exact ⟨{ eo with ty := ty }, by simp [this], rfl, rfl⟩
    · exact ⟨e0, hy, rfl, rfl⟩
  refine ⟨?_, ?_, ?_, ?_⟩
  · intro i si e hs hH he
    obtain ⟨e0, a1, a2, a3⟩ := hget _ _ he
    rw [h1, a2, a3]; exact h.tailH i si e0 hs hH a1
  · intro k sk ov hs hV ho
    obtain ⟨e0, a1, a2, a3⟩ := hget _ _ ho
    rw [h1, a2, a3]; exact h.tailV k sk e0 hs hV a1
  · intro a t ht hnt
    rw [h1] at ht
    obtain ⟨j, sj, ej, b1, b2, b3⟩ := h.frozen a t ht (by
      intro j ej hj
      obtain ⟨e', c1, c2, _⟩ := hget' _ _ hj
      rw [← c2]; exact hnt j e' c1)
    obtain ⟨e', c1, _, c3⟩ := hget' _ _ b2
    exact ⟨j, sj, e', b1, c1, by rw [c3]; exact b3⟩
  · rw [h1, h3]; exact h.ni

/-- everything about the state after one cut, in lookup form -/
structure CrossFacts (st st' : SwState) (i k : Nat) (e ov : Ev) (so sv : Seg) (ci ck : Node) : Prop where
  cross : st'.cross = ⟨st.nextId, ⟨ov.cc, e.cc⟩⟩ :: st.cross
  ev_inv : ∀ (j : Nat) (ej : Ev), st'.evs[2 * j]? = some ej →
      (j = k ∧ ej.seg = st.segs.length + 1 ∧ ej.endpt.p = ⟨ov.cc, e.cc⟩) ∨
      (j = i ∧ ej.seg = st.segs.length ∧ ej.endpt.p = ⟨ov.cc, e.cc⟩) ∨
      (j ≠ i ∧ j ≠ k ∧ st.evs[2 * j]? = some ej)
  ev_i : ∃ ei : Ev, st'.evs[2 * i]? = some ei ∧ ei.seg = st.segs.length ∧ ei.endpt.p = ⟨ov.cc, e.cc⟩
  ev_k : ∃ ek : Ev, st'.evs[2 * k]? = some ek ∧ ek.seg = st.segs.length + 1 ∧ ek.endpt.p = ⟨ov.cc, e.cc⟩
  ev_old : ∀ (j : Nat) (ej : Ev), j ≠ i → j ≠ k → st.evs[2 * j]? = some ej → st'.evs[2 * j]? = some ej
  seg_L : st'.segs[st.segs.length]? = some (mkSeg ⟨st.nextId, ⟨ov.cc, e.cc⟩⟩ ci)
  seg_L1 : st'.segs[st.segs.length + 1]? = some (mkSeg ⟨st.nextId, ⟨ov.cc, e.cc⟩⟩ ck)
  seg_i : st'.segs[e.seg]? = some (so.setNewClosing ⟨st.nextId, ⟨ov.cc, e.cc⟩⟩)
  seg_k : st'.segs[ov.seg]? = some (sv.setNewClosing ⟨st.nextId, ⟨ov.cc, e.cc⟩⟩)
  seg_old : ∀ (a : Nat) (t : Seg), a ≠ e.seg → a ≠ ov.seg → st.segs[a]? = some t → st'.segs[a]? = some t
  seg_inv : ∀ (a : Nat) (t : Seg), st'.segs[a]? = some t →
      a = st.segs.length ∨ a = st.segs.length + 1 ∨ a = e.seg ∨ a = ov.seg ∨ st.segs[a]? = some t

theorem cross_facts {P : Nat → Prop} (hI : Inv S P st) {i k : Nat} {si sk : Seg}
    (hsi : S[i]? = some si) (hHi : si.ori = .H) (hsk : S[k]? = some sk) (hVk : sk.ori = .V)
    {e ov : Ev} (he : st.evs[2 * i]? = some e) (hov : st.evs[2 * k]? = some ov) :
    ∃ (so sv : Seg), st.segs[e.seg]? = some so ∧ st.segs[ov.seg]? = some sv ∧ e.seg ≠ ov.seg ∧
      e.cc = si.cc ∧ ov.cc = sk.cc ∧
      CrossFacts st (crossAt st (2 * i) (2 * k) e ov) i k e ov so sv si.cn sk.cn := by
  have hik : i ≠ k := H_not_V hsi hHi hsk hVk
  obtain ⟨so, sv, ec, ec', hso, hsv, hne, h1, k1, h6, k6, h2, k2, h3, k3, heq⟩ :=
    cross_setup hI hsi hHi hsk hVk he hov
  have l1 : e.seg < st.segs.length := (List.getElem?_eq_some_iff.1 hso).1
  have l2 : ov.seg < st.segs.length := (List.getElem?_eq_some_iff.1 hsv).1
  have li : 2 * i < st.evs.length := (List.getElem?_eq_some_iff.1 he).1
  have lk : 2 * k < st.evs.length := (List.getElem?_eq_some_iff.1 hov).1
  refine ⟨so, sv, hso, hsv, hne, h2, k2, ?_⟩
  rw [heq, h6, k6]
  refine ⟨rfl, ?_, ?_, ?_, ?_, ?_, ?_, ?_, ?_, ?_, ?_⟩
  · intro j ej hj
    simp only at hj
    rw [List.getElem?_set] at hj
    split at hj
    · rename_i hkj
      have : j = k := by omega
      split at hj
      · cases hj; exact Or.inl ⟨this, rfl, rfl⟩
      · cases hj
    · rename_i hkj
      rw [List.getElem?_set] at hj
      split at hj
      · rename_i hij
        have : j = i := by omega
        split at hj
        · cases hj; exact Or.inr (Or.inl ⟨this, rfl, rfl⟩)
        · cases hj
      · rename_i hij
        rw [List.getElem?_set, if_neg (by rw [k3]; omega), List.getElem?_set, if_neg (by rw [h3]; omega)] at hj
        exact Or.inr (Or.inr ⟨by omega, by omega, hj⟩)
  · refine ⟨{ e with seg := st.segs.length, endpt := ⟨st.nextId, ⟨ov.cc, e.cc⟩⟩, vc := ov.cc }, ?_, rfl, rfl⟩
    simp only
    rw [List.getElem?_set, if_neg (by omega), List.getElem?_set]
    simp [li]
  · refine ⟨{ ov with seg := st.segs.length + 1, endpt := ⟨st.nextId, ⟨ov.cc, e.cc⟩⟩, vc := e.cc }, ?_, rfl, rfl⟩
    simp only
    rw [List.getElem?_set]
    simp [lk]
  · intro j ej hji hjk hj
    simp only
    rw [List.getElem?_set, if_neg (by omega), List.getElem?_set, if_neg (by omega),
      List.getElem?_set, if_neg (by rw [k3]; omega), List.getElem?_set, if_neg (by rw [h3]; omega)]
    exact hj
  · simp only
    rw [List.getElem?_append_left (by simp), List.getElem?_append_right (by simp)]; simp
  · simp only
    rw [List.getElem?_append_right (by simp)]; simp
  · simp only
    rw [List.getElem?_append_left (by simp; omega), List.getElem?_append_left (by simp; omega),
      List.getElem?_set, if_neg (Ne.symm hne), List.getElem?_set]
    simp [l1]
  · simp only
    rw [List.getElem?_append_left (by simp; omega), List.getElem?_append_left (by simp; omega),
      List.getElem?_set]
    simp [l2]
  · intro a t n1 n2 ht
    have hl := (List.getElem?_eq_some_iff.1 ht).1
    simp only
    rw [List.getElem?_append_left (by simp; omega), List.getElem?_append_left (by simp; omega),
      List.getElem?_set, if_neg (Ne.symm n2), List.getElem?_set, if_neg (Ne.symm n1)]
    exact ht
  · intro a t ht
    simp only at ht
    by_cases ha : a < st.segs.length
    · rw [List.getElem?_append_left (by simp; omega), List.getElem?_append_left (by simp; omega),
        List.getElem?_set] at ht
      split at ht
      · rename_i h; exact Or.inr (Or.inr (Or.inr (Or.inl h.symm)))
      · rw [List.getElem?_set] at ht
        split at ht
        · rename_i h; exact Or.inr (Or.inr (Or.inl h.symm))
        · exact Or.inr (Or.inr (Or.inr (Or.inr ht)))
    · have hlen := (List.getElem?_eq_some_iff.1 ht).1
      simp at hlen
      omega

theorem mkSeg_H_pts {a b : Node} (hy : a.p.y = b.p.y) (hx : a.p.x ≤ b.p.x) :
    (mkSeg a b).on.p = a.p ∧ (mkSeg a b).cn.p = b.p := by
  have hab : a.p.x = b.p.x → a.p = b.p := by
    intro h; cases ha : a.p; cases hb : b.p; simp [ha, hb] at hy h ⊢; exact ⟨h, hy⟩
  rcases mkSeg_ends a b with ⟨h1, h2⟩ | ⟨h1, h2⟩
  · rw [h1, h2]; exact ⟨rfl, rfl⟩
  · by_cases hlt : a.p.x < b.p.x
    · have := mkSeg_fwd_H hy hlt
      rw [h2] at this
      rw [h1, h2]; rw [this]; exact ⟨rfl, rfl⟩
    · have : a.p.x = b.p.x := by grind
      have := hab this
      rw [h1, h2]; exact ⟨this.symm, this⟩

theorem insideP_sub_H {p : Pt} {t t' : Seg} {x0 x1 x0' x1' y : Rat}
    (ht : t.on.p = ⟨x0, y⟩ ∧ t.cn.p = ⟨x1, y⟩) (ht' : t'.on.p = ⟨x0', y⟩ ∧ t'.cn.p = ⟨x1', y⟩)
    (h0 : x0 ≤ x0') (h1 : x0' ≤ x1') (h2 : x1' ≤ x1) (h : InsideP p t') : InsideP p t := by
  unfold InsideP at *
  rw [ht.1, ht.2]; rw [ht'.1, ht'.2] at h
  simp only at h ⊢
  grind

theorem insideP_sub_V {p : Pt} {t t' : Seg} {y0 y1 y0' y1' x : Rat}
    (ht : t.on.p = ⟨x, y0⟩ ∧ t.cn.p = ⟨x, y1⟩) (ht' : t'.on.p = ⟨x, y0'⟩ ∧ t'.cn.p = ⟨x, y1'⟩)
    (h0 : y0 ≤ y0') (h1 : y0' ≤ y1') (h2 : y1' ≤ y1) (h : InsideP p t') : InsideP p t := by
  unfold InsideP at *
  rw [ht.1, ht.2]; rw [ht'.1, ht'.2] at h
  simp only at h ⊢
  grind

theorem seg_of_ev {P : Nat → Prop} (hI : Inv S P st) {j : Nat} {ej : Ev} (hj : st.evs[2 * j]? = some ej) :
    ∃ sj, S[j]? = some sj := by
  have hjl : j < S.length := by
    have := (List.getElem?_eq_some_iff.1 hj).1; rw [hI.len] at this; omega
  exact ⟨_, List.getElem?_eq_getElem hjl⟩

theorem pt_eta (p : Pt) : p = ⟨p.x, p.y⟩ := by cases p; rfl

theorem pc_cross {P : Nat → Prop} (hG : Good S) (hI : Inv S P st) (hT : Tr S st) (hPc : Pc S st)
    {i k : Nat} {si sk : Seg}
    (hsi : S[i]? = some si) (hHi : si.ori = .H) (hsk : S[k]? = some sk) (hVk : sk.ori = .V)
    {e ov : Ev} (he : st.evs[2 * i]? = some e) (hov : st.evs[2 * k]? = some ov)
    (hXe : e.endpt.p.x ≤ sk.cc) (hloX : si.lo < sk.cc) (hXhi : sk.cc ≤ si.hi)
    (hYe : ov.endpt.p.y ≤ si.cc) (hlo : sk.lo < si.cc) (hhi : si.cc < sk.hi) :
    Pc S (crossAt st (2 * i) (2 * k) e ov) := by
  have hik : i ≠ k := H_not_V hsi hHi hsk hVk
  have shi := hG.segH hsi hHi
  have shk := hG.segV hsk hVk
  obtain ⟨so, sv, hso, hsv, hne, hecc, hovcc, F⟩ := cross_facts hI hsi hHi hsk hVk he hov
  obtain ⟨so', hso', sop1, sop2, sob1, sob2⟩ := hPc.tailH i si e hsi hHi he
  rw [hso] at hso'; cases hso'
  obtain ⟨sv', hsv', svp1, svp2, svb1, svb2⟩ := hPc.tailV k sk ov hsk hVk hov
  rw [hsv] at hsv'; cases hsv'
  obtain ⟨ei, hei, heis, heip⟩ := F.ev_i
  obtain ⟨ek, hek, heks, hekp⟩ := F.ev_k
  -- the four pieces around the new node
  have cnI : si.cn.p = ⟨si.hi, si.cc⟩ := by rw [pt_eta si.cn.p, shi.2.2.2.2.1, shi.2.2.1]
  have cnK : sk.cn.p = ⟨sk.cc, sk.hi⟩ := by rw [pt_eta sk.cn.p, shk.2.2.1, shk.2.2.2.2.1]
  have pL := mkSeg_H_pts (a := ⟨st.nextId, ⟨ov.cc, e.cc⟩⟩) (b := si.cn)
    (by simp only; rw [hecc, shi.2.2.1]) (by simp only; rw [hovcc, shi.2.2.2.2.1]; exact hXhi)
  have pL1 : (mkSeg ⟨st.nextId, ⟨ov.cc, e.cc⟩⟩ sk.cn).on.p = ⟨ov.cc, e.cc⟩ ∧
      (mkSeg ⟨st.nextId, ⟨ov.cc, e.cc⟩⟩ sk.cn).cn.p = sk.cn.p := by
    have hc := mkSeg_fwd_V (a := ⟨st.nextId, ⟨ov.cc, e.cc⟩⟩) (b := sk.cn)
      (by simp only; rw [hovcc, shk.2.2.1]) (by simp only; rw [hecc, shk.2.2.2.2.1]; exact hhi)
    rcases mkSeg_ends ⟨st.nextId, ⟨ov.cc, e.cc⟩⟩ sk.cn with ⟨h1, h2⟩ | ⟨h1, h2⟩
    · rw [h1, h2]; exact ⟨rfl, rfl⟩
    · rw [h2] at hc
      have : (⟨st.nextId, ⟨ov.cc, e.cc⟩⟩ : Node).p.y = sk.cn.p.y := by rw [hc]
      simp only at this; rw [hecc, shk.2.2.2.2.1] at this; grind
  have pI : (so.setNewClosing ⟨st.nextId, ⟨ov.cc, e.cc⟩⟩).on.p = ⟨e.endpt.p.x, si.cc⟩ ∧
      (so.setNewClosing ⟨st.nextId, ⟨ov.cc, e.cc⟩⟩).cn.p = ⟨ov.cc, si.cc⟩ := by
    simp only [Seg.setNewClosing]; exact ⟨sop1, by rw [hecc]⟩
  have pK : (sv.setNewClosing ⟨st.nextId, ⟨ov.cc, e.cc⟩⟩).on.p = ⟨sk.cc, ov.endpt.p.y⟩ ∧
      (sv.setNewClosing ⟨st.nextId, ⟨ov.cc, e.cc⟩⟩).cn.p = ⟨sk.cc, e.cc⟩ := by
    simp only [Seg.setNewClosing]; exact ⟨svp1, by rw [hovcc]⟩
  refine ⟨?_, ?_, ?_, ?_⟩
  · -- tails of horizontals
    intro i2 si2 e2 hs2 hH2 he2
    rcases F.ev_inv i2 e2 he2 with ⟨rfl, _, _⟩ | ⟨rfl, a2, a3⟩ | ⟨a1, a2, a3⟩
    · rw [hsk] at hs2; cases hs2; rw [hVk] at hH2; cases hH2
    · rw [hsi] at hs2; cases hs2
      refine ⟨_, by rw [a2]; exact F.seg_L, ?_, ?_, ?_, ?_⟩
      · rw [pL.1, a3, hecc]
      · rw [pL.2, cnI]
      · rw [a3]; simp only; rw [hovcc]; exact Rat.le_of_lt hloX
      · rw [a3]; simp only; rw [hovcc]; exact hXhi
    · obtain ⟨t, ht, r1, r2, r3, r4⟩ := hPc.tailH i2 si2 e2 hs2 hH2 a3
      refine ⟨t, F.seg_old _ _ ?_ ?_ ht, r1, r2, r3, r4⟩
      · intro h; exact a1 (hT.inj i2 i e2 e a3 he h)
      · intro h; exact a2 (hT.inj i2 k e2 ov a3 hov h)
  · -- tails of verticals
    intro k2 sk2 o2 hs2 hV2 ho2
    rcases F.ev_inv k2 o2 ho2 with ⟨rfl, a2, a3⟩ | ⟨rfl, _, _⟩ | ⟨a1, a2, a3⟩
    · rw [hsk] at hs2; cases hs2
      refine ⟨_, by rw [a2]; exact F.seg_L1, ?_, ?_, ?_, ?_⟩
      · rw [pL1.1, a3, hovcc]
      · rw [pL1.2, cnK]
      · rw [a3]; simp only; rw [hecc]; exact Rat.le_of_lt hlo
      · rw [a3]; simp only; rw [hecc]; exact Rat.le_of_lt hhi
    · rw [hsi] at hs2; cases hs2; rw [hHi] at hV2; cases hV2
    · obtain ⟨t, ht, r1, r2, r3, r4⟩ := hPc.tailV k2 sk2 o2 hs2 hV2 a3
      refine ⟨t, F.seg_old _ _ ?_ ?_ ht, r1, r2, r3, r4⟩
      · intro h; exact a1 (hT.inj k2 i o2 e a3 he h)
      · intro h; exact a2 (hT.inj k2 k o2 ov a3 hov h)
  · -- frozen pieces
    intro a t ht hnt
    rcases F.seg_inv a t ht with rfl | rfl | rfl | rfl | hold
    · exact absurd heis (hnt i ei hei)
    · exact absurd heks (hnt k ek hek)
    · rw [F.seg_i] at ht; cases ht
      refine ⟨i, si, ei, hsi, hei, Or.inl ⟨hHi, ?_, ?_, ?_, ?_, ?_, ?_, ?_⟩⟩
      · rw [pI.1]
      · rw [pI.2]
      · rw [pI.1]; exact sob1
      · rw [pI.1, heip]; simp only; rw [hovcc]; exact hXe
      · rw [pI.2]; simp only; rw [hovcc]; exact Rat.le_of_lt hloX
      · rw [pI.2, heip]; exact Rat.le_refl
      · rw [heip]; simp only; rw [hovcc]; exact hXhi
    · rw [F.seg_k] at ht; cases ht
      refine ⟨k, sk, ek, hsk, hek, Or.inr ⟨hVk, ?_, ?_, ?_, ?_, ?_, ?_, ?_⟩⟩
      · rw [pK.1]
      · rw [pK.2]
      · rw [pK.1]; exact svb1
      · rw [pK.1, hekp]; simp only; rw [hecc]; exact hYe
      · rw [pK.2]; simp only; rw [hecc]; exact Rat.le_of_lt hlo
      · rw [pK.2, hekp]; exact Rat.le_refl
      · rw [hekp]; simp only; rw [hecc]; exact Rat.le_of_lt hhi
    · by_cases hae : a = e.seg
      · subst hae; rw [F.seg_i] at ht; cases ht
        refine ⟨i, si, ei, hsi, hei, Or.inl ⟨hHi, ?_, ?_, ?_, ?_, ?_, ?_, ?_⟩⟩
        · rw [pI.1]
        · rw [pI.2]
        · rw [pI.1]; exact sob1
        · rw [pI.1, heip]; simp only; rw [hovcc]; exact hXe
        · rw [pI.2]; simp only; rw [hovcc]; exact Rat.le_of_lt hloX
        · rw [pI.2, heip]; exact Rat.le_refl
        · rw [heip]; simp only; rw [hovcc]; exact hXhi
      · by_cases hao : a = ov.seg
        · subst hao; rw [F.seg_k] at ht; cases ht
          refine ⟨k, sk, ek, hsk, hek, Or.inr ⟨hVk, ?_, ?_, ?_, ?_, ?_, ?_, ?_⟩⟩
          · rw [pK.1]
          · rw [pK.2]
          · rw [pK.1]; exact svb1
          · rw [pK.1, hekp]; simp only; rw [hecc]; exact hYe
          · rw [pK.2]; simp only; rw [hecc]; exact Rat.le_of_lt hlo
          · rw [pK.2, hekp]; exact Rat.le_refl
          · rw [hekp]; simp only; rw [hecc]; exact Rat.le_of_lt hhi
        · obtain ⟨j, sj, ej, b1, b2, b3⟩ := hPc.frozen a t hold (by
            intro j ej hj
            by_cases hji : j = i
            · subst hji; rw [he] at hj; cases hj; exact fun h => hae h.symm
            · by_cases hjk : j = k
              · subst hjk; rw [hov] at hj; cases hj; exact fun h => hao h.symm
              · exact hnt j ej (F.ev_old j ej hji hjk hj))
          by_cases hji : j = i
          · subst hji; rw [he] at b2; cases b2; rw [hsi] at b1; cases b1
            refine ⟨j, si, ei, hsi, hei, ?_⟩
            rcases b3 with ⟨c0, c1, c2, c3, c4, c5, c6, c7⟩ | ⟨c0, _⟩
            · refine Or.inl ⟨c0, c1, c2, c3, ?_, c5, ?_, ?_⟩ <;> rw [heip] <;> simp only <;> rw [hovcc] <;> grind
            · rw [hHi] at c0; cases c0
          · by_cases hjk : j = k
            · subst hjk; rw [hov] at b2; cases b2; rw [hsk] at b1; cases b1
              refine ⟨j, sk, ek, hsk, hek, ?_⟩
              rcases b3 with ⟨c0, _⟩ | ⟨c0, c1, c2, c3, c4, c5, c6, c7⟩
              · rw [hVk] at c0; cases c0
              · refine Or.inr ⟨c0, c1, c2, c3, ?_, c5, ?_, ?_⟩ <;> rw [hekp] <;> simp only <;> rw [hecc] <;> grind
            · exact ⟨j, sj, ej, b1, F.ev_old j ej hji hjk b2, b3⟩
  · -- no crossing node strictly inside a piece
    intro a t c ht hc
    rw [F.cross] at hc
    have hsub : ∀ c' ∈ st.cross, ¬ InsideP c'.p so ∧ ¬ InsideP c'.p sv :=
      fun c' hc' => ⟨hPc.ni _ _ _ hso hc', hPc.ni _ _ _ hsv hc'⟩
    have hcr : ∀ (t' : Seg), (t'.on.p = ⟨ov.cc, e.cc⟩ ∨ t'.cn.p = ⟨ov.cc, e.cc⟩) →
        ¬ InsideP (⟨ov.cc, e.cc⟩ : Pt) t' := by
      intro t' h hin
      unfold InsideP at hin
      rcases h with h | h <;> rw [h] at hin <;> simp only at hin <;> grind
    have hLfac : ∀ c' : Node, InsideP c'.p (mkSeg ⟨st.nextId, ⟨ov.cc, e.cc⟩⟩ si.cn) → InsideP c'.p so :=
      fun c' h => insideP_sub_H ⟨sop1, sop2⟩ ⟨by rw [pL.1, hecc], by rw [pL.2, cnI]⟩
        (by rw [hovcc]; exact hXe) (by rw [hovcc]; exact hXhi) Rat.le_refl h
    have hL1fac : ∀ c' : Node, InsideP c'.p (mkSeg ⟨st.nextId, ⟨ov.cc, e.cc⟩⟩ sk.cn) → InsideP c'.p sv :=
      fun c' h => insideP_sub_V ⟨svp1, svp2⟩ ⟨by rw [pL1.1, hovcc], by rw [pL1.2, cnK]⟩
        (by rw [hecc]; exact hYe) (by rw [hecc]; exact Rat.le_of_lt hhi) Rat.le_refl h
    have hIfac : ∀ c' : Node, InsideP c'.p (so.setNewClosing ⟨st.nextId, ⟨ov.cc, e.cc⟩⟩) → InsideP c'.p so :=
      fun c' h => insideP_sub_H ⟨sop1, sop2⟩ pI Rat.le_refl (by rw [hovcc]; exact hXe) (by rw [hovcc]; exact hXhi) h
    have hKfac : ∀ c' : Node, InsideP c'.p (sv.setNewClosing ⟨st.nextId, ⟨ov.cc, e.cc⟩⟩) → InsideP c'.p sv :=
      fun c' h => insideP_sub_V ⟨svp1, svp2⟩ ⟨pK.1, by rw [pK.2]⟩ Rat.le_refl (by rw [hecc]; exact hYe)
        (by rw [hecc]; exact Rat.le_of_lt hhi) h
    have four : ∀ (t' : Seg), (t'.on.p = ⟨ov.cc, e.cc⟩ ∨ t'.cn.p = ⟨ov.cc, e.cc⟩) →
        (∀ c' : Node, InsideP c'.p t' → InsideP c'.p so ∨ InsideP c'.p sv) → ¬ InsideP c.p t' := by
      intro t' hend hfac hin
      rcases List.mem_cons.1 hc with rfl | hc'
      · exact hcr t' hend hin
      · rcases hfac c hin with h | h
        · exact (hsub c hc').1 h
        · exact (hsub c hc').2 h
    by_cases haL : a = st.segs.length
    · subst haL; rw [F.seg_L] at ht; cases ht
      exact four _ (Or.inl pL.1) (fun c' h => Or.inl (hLfac c' h))
    by_cases haL1 : a = st.segs.length + 1
    · subst haL1; rw [F.seg_L1] at ht; cases ht
      exact four _ (Or.inl pL1.1) (fun c' h => Or.inr (hL1fac c' h))
    by_cases hae : a = e.seg
    · subst hae; rw [F.seg_i] at ht; cases ht
      exact four _ (Or.inr (by rw [pI.2, hecc])) (fun c' h => Or.inl (hIfac c' h))
    by_cases hao : a = ov.seg
    · subst hao; rw [F.seg_k] at ht; cases ht
      exact four _ (Or.inr (by rw [pK.2, hovcc])) (fun c' h => Or.inr (hKfac c' h))
    have hold : st.segs[a]? = some t := by
      rcases F.seg_inv a t ht with h | h | h | h | h
      · exact absurd h haL
      · exact absurd h haL1
      · exact absurd h hae
      · exact absurd h hao
      · exact h
    rcases List.mem_cons.1 hc with rfl | hc'
    · -- the new node against an untouched piece
      simp only
      intro hin
      by_cases htail : ∃ (j : Nat) (ej : Ev), st.evs[2 * j]? = some ej ∧ ej.seg = a
      · obtain ⟨j, ej, hj, hja⟩ := htail
        have hji : j ≠ i := by rintro rfl; rw [he] at hj; cases hj; exact hae hja.symm
        have hjk : j ≠ k := by rintro rfl; rw [hov] at hj; cases hj; exact hao hja.symm
        obtain ⟨sj, hsj⟩ := seg_of_ev hI hj
        rcases hG.shape sj (List.mem_of_getElem? hsj) with shj | svj
        · obtain ⟨t', ht', r1, r2, r3, r4⟩ := hPc.tailH j sj ej hsj shj.1 hj
          rw [hja, hold] at ht'; cases ht'
          have hno := hG.noOverlap_get hsi hsj (Ne.symm hji) (by rw [hHi, shj.1])
          unfold InsideP at hin; rw [r1, r2] at hin; simp only at hin
          rw [hecc, hovcc] at hin
          grind
        · obtain ⟨t', ht', r1, r2, r3, r4⟩ := hPc.tailV j sj ej hsj svj.1 hj
          rw [hja, hold] at ht'; cases ht'
          have hno := hG.noOverlap_get hsk hsj (Ne.symm hjk) (by rw [hVk, svj.1])
          unfold InsideP at hin; rw [r1, r2] at hin; simp only at hin
          rw [hecc, hovcc] at hin
          grind
      · obtain ⟨j, sj, ej, b1, b2, b3⟩ := hPc.frozen a t hold (by
          intro j ej hj h; exact htail ⟨j, ej, hj, h⟩)
        unfold InsideP at hin
        rw [hecc, hovcc] at hin
        rcases b3 with ⟨c0, c1, c2, c3, c4, c5, c6, c7⟩ | ⟨c0, c1, c2, c3, c4, c5, c6, c7⟩
        · by_cases hji : j = i
          · subst hji; rw [he] at b2; cases b2; grind
          · have hno := hG.noOverlap_get hsi b1 (Ne.symm hji) (by rw [hHi, c0])
            rw [pt_eta t.on.p, pt_eta t.cn.p] at hin; simp only at hin
            grind
        · by_cases hjk : j = k
          · subst hjk; rw [hov] at b2; cases b2; grind
          · have hno := hG.noOverlap_get hsk b1 (Ne.symm hjk) (by rw [hVk, c0])
            rw [pt_eta t.on.p, pt_eta t.cn.p] at hin; simp only at hin
            grind
    · exact hPc.ni a t c hold hc'


end AdaptaVerif.Lemmas.Planarise
