/-
C19 — the bucket-based mirror `peelB` of the leaf-stripping loop computes the same result as
the degree-based model `peel`. Core Lean only.
-/
import AdaptaVerif.Lemmas.PeelModel

namespace AdaptaVerif.Lemmas.PeelBuckets
open AdaptaVerif.Spec.UGraph AdaptaVerif.Model.Peel
open AdaptaVerif.Lemmas.PeelModel (mem_leavesOf)

/-! ### association-list lookups -/

theorem lookup_cons_eq (B : List (Nat × Nat)) (w d : Nat) :
    List.lookup w ((w, d) :: B) = some d := by
  rw [List.lookup_cons]
  simp only [beq_self_eq_true]

theorem lookup_cons_ne {B : List (Nat × Nat)} {w k d : Nat} (h : w ≠ k) :
    List.lookup w ((k, d) :: B) = List.lookup w B := by
  rw [List.lookup_cons]
  have : (w == k) = false := beq_eq_false_iff_ne.2 h
  rw [this]

/-- filtering on keys does not change the lookup of a key that passes the filter -/
theorem lookup_filter {q : Nat → Bool} {w : Nat} (hq : q w = true) :
    ∀ B : List (Nat × Nat), List.lookup w (B.filter (fun p => q p.1)) = List.lookup w B := by
  intro B
  induction B with
  | nil => rfl
  | cons p rest ih =>
    obtain ⟨k, d⟩ := p
    by_cases hk : w = k
    · subst hk
      rw [List.filter_cons]
      simp only [hq, if_true, lookup_cons_eq]
    · rw [List.filter_cons]
      split
      · rw [lookup_cons_ne hk, lookup_cons_ne hk, ih]
      · rw [lookup_cons_ne hk, ih]

theorem lookup_map_degree (es : List (Nat × Nat)) {v : Nat} :
    ∀ ns : List Nat, v ∈ ns →
      List.lookup v (ns.map (fun v => (v, degree es v))) = some (degree es v) := by
  intro ns
  induction ns with
  | nil => intro h; cases h
  | cons a rest ih =>
    intro h
    rw [List.map_cons]
    by_cases ha : v = a
    · subst ha; exact lookup_cons_eq _ _ _
    · rw [lookup_cons_ne ha]
      cases List.mem_cons.1 h with
      | inl h1 => exact absurd h1 ha
      | inr h1 => exact ih h1

theorem foldl_max_ge (l : List Nat) : ∀ a : Nat, a ≤ l.foldl max a := by
  induction l with
  | nil => intro a; exact Nat.le_refl _
  | cons x rest ih =>
    intro a
    rw [List.foldl_cons]
    exact Nat.le_trans (Nat.le_max_left a x) (ih _)

theorem le_foldl_max {l : List Nat} {x : Nat} : ∀ a : Nat, x ∈ l → x ≤ l.foldl max a := by
  induction l with
  | nil => intro a h; cases h
  | cons y rest ih =>
    intro a h
    rw [List.foldl_cons]
    cases List.mem_cons.1 h with
    | inl h1 => subst h1; exact Nat.le_trans (Nat.le_max_right a x) (foldl_max_ge rest _)
    | inr h1 => exact ih _ h1

/-! ### `moveNode` -/

theorem moveNode_lookup_ne (M : Nat) (B : Buckets) {v w : Nat} (o n : Nat) (h : w ≠ v) :
    List.lookup w (moveNode M B v o n) = List.lookup w B := by
  unfold moveNode
  split
  · rfl
  · split
    · rw [lookup_cons_ne h]
      exact lookup_filter (q := fun x => x != v) (by simpa using h) B
    · rfl

theorem moveNode_lookup_eq {M : Nat} {B : Buckets} {v o n : Nat} (ho : o ≤ M) (hn : n ≤ M)
    (h : List.lookup v B = some o) : List.lookup v (moveNode M B v o n) = some n := by
  unfold moveNode
  have h1 : (decide (o > M) || decide (n > M)) = false := by
    simp only [Bool.or_eq_false_iff, decide_eq_false_iff_not]
    omega
  rw [h1]
  simp only [Bool.false_eq_true, if_false, bucketOf, h, beq_self_eq_true, if_true]
  exact lookup_cons_eq _ _ _

/-! ### degrees under removal of a node's edges -/

theorem length_filter_split (p q : Nat × Nat → Bool) (E : List (Nat × Nat)) :
    (E.filter p).length =
      ((E.filter q).filter p).length + ((E.filter (fun e => !q e)).filter p).length := by
  induction E with
  | nil => rfl
  | cons a rest ih =>
    cases hq : q a <;> cases hp : p a <;>
      simp only [List.filter_cons, hq, hp, Bool.not_true, Bool.not_false, if_true, if_false,
        Bool.false_eq_true, List.length_cons] <;> omega

theorem degree_split (E : List (Nat × Nat)) (u w : Nat) :
    degree E w = ((E.filter (incident u)).filter (incident w)).length +
      degree (E.filter (fun e => !incident u e)) w :=
  length_filter_split (incident w) (incident u) E

theorem degree_filter_le (E : List (Nat × Nat)) (q : Nat × Nat → Bool) (w : Nat) :
    degree (E.filter q) w ≤ degree E w :=
  (List.filter_sublist.filter _).length_le

theorem otherEnd_of_incident {u w : Nat} {e : Nat × Nat} (hu : incident u e = true)
    (hw : incident w e = true) (hne : w ≠ u) : otherEnd u e = w := by
  simp only [incident, Bool.or_eq_true, beq_iff_eq] at hu hw
  unfold otherEnd
  by_cases h1 : e.1 = u
  · simp only [h1, beq_self_eq_true, if_true]
    cases hw with
    | inl h => exact absurd (h.symm.trans h1) hne
    | inr h => exact h
  · have : (e.1 == u) = false := beq_eq_false_iff_ne.2 h1
    simp only [this, Bool.false_eq_true, if_false]
    cases hw with
    | inl h => exact h
    | inr h =>
      cases hu with
      | inl h' => exact absurd h' h1
      | inr h' => exact absurd (h.symm.trans h') hne

theorem incident_otherEnd {u : Nat} {e : Nat × Nat} (_hu : incident u e = true) :
    incident (otherEnd u e) e = true := by
  simp only [incident, Bool.or_eq_true, beq_iff_eq]
  unfold otherEnd
  by_cases h1 : e.1 = u
  · simp only [h1, beq_self_eq_true, if_true, or_true]
  · have : (e.1 == u) = false := beq_eq_false_iff_ne.2 h1
    simp only [this, Bool.false_eq_true, if_false, true_or]

/-! ### `severNodes` -/

/-- one iteration of the leaf loop of `severNodes` -/
def sever1 (M : Nat) (eb : List (Nat × Nat) × Buckets) (u : Nat) : List (Nat × Nat) × Buckets :=
  let inc := eb.1.filter (incident u)
  let es' := eb.1.filter (fun e => !incident u e)
  (es', inc.foldl (fun b e =>
      moveNode M b (otherEnd u e) (degree es' (otherEnd u e) + 1) (degree es' (otherEnd u e)))
    eb.2)

theorem severNodes_eq (M : Nat) (ls : List Nat) (E : List (Nat × Nat)) (B : Buckets) :
    severNodes M ls E B = ls.foldl (sever1 M) (E, B) := rfl

/-- the bucket invariant on the surviving nodes `N` -/
def J (M : Nat) (N : List Nat) (E : List (Nat × Nat)) (B : Buckets) : Prop :=
  ∀ w, w ∈ N → List.lookup w B = some (degree E w) ∧ degree E w ≤ M

theorem sever1_fst (M : Nat) (eb : List (Nat × Nat) × Buckets) (u : Nat) :
    (sever1 M eb u).1 = eb.1.filter (fun e => !incident u e) := rfl

theorem sever1_J {M : Nat} {N : List Nat} {E : List (Nat × Nat)} {B : Buckets} {u : Nat}
    (hu : u ∉ N) (hd : degree E u ≤ 1) (hJ : J M N E B) :
    J M N (sever1 M (E, B) u).1 (sever1 M (E, B) u).2 := by
  intro w hw
  obtain ⟨hl, hb⟩ := hJ w hw
  have hwu : w ≠ u := fun e => hu (e ▸ hw)
  have hsplit := degree_split E u w
  simp only [sever1]
  -- the incident list has at most one element
  match hinc : E.filter (incident u), (show (E.filter (incident u)).length ≤ 1 from hd) with
  | [], _ =>
    rw [hinc] at hsplit
    simp only [List.filter_nil, List.length_nil, Nat.zero_add] at hsplit
    simp only [List.foldl_nil]
    rw [← hsplit]
    exact ⟨hl, hb⟩
  | [e], _ =>
    have heu : incident u e = true := by
      have : e ∈ E.filter (incident u) := by rw [hinc]; exact List.mem_singleton.2 rfl
      exact (List.mem_filter.1 this).2
    rw [hinc] at hsplit
    simp only [List.foldl_cons, List.foldl_nil]
    by_cases hwv : w = otherEnd u e
    · have hinc_w : incident w e = true := hwv ▸ incident_otherEnd heu
      simp only [List.filter_cons, hinc_w, if_true, List.filter_nil, List.length_cons,
        List.length_nil] at hsplit
      rw [← hwv]
      refine ⟨moveNode_lookup_eq (by omega) (by omega) ?_, by omega⟩
      rw [hl]; congr 1; omega
    · have hinc_w : incident w e = false := by
        cases h : incident w e with
        | false => rfl
        | true => exact absurd (otherEnd_of_incident heu h hwu).symm hwv
      simp only [List.filter_cons, hinc_w, Bool.false_eq_true, if_false, List.filter_nil,
        List.length_nil, Nat.zero_add] at hsplit
      rw [moveNode_lookup_ne _ _ _ _ hwv, ← hsplit]
      exact ⟨hl, hb⟩
  | _ :: _ :: _, h2 => simp only [List.length_cons] at h2; omega

/-- result of the whole leaf loop -/
theorem severNodes_spec (M : Nat) (N : List Nat) : ∀ (ls : List Nat) (E : List (Nat × Nat))
    (B : Buckets), (∀ u, u ∈ ls → u ∉ N ∧ degree E u ≤ 1) → J M N E B →
    (severNodes M ls E B).1 = E.filter (fun e => !(ls.contains e.1 || ls.contains e.2)) ∧
    J M N (severNodes M ls E B).1 (severNodes M ls E B).2 := by
  intro ls
  induction ls with
  | nil =>
    intro E B _ hJ
    refine ⟨?_, hJ⟩
    show E = _
    symm
    apply List.filter_eq_self.2
    intro e _
    rfl
  | cons u rest ih =>
    intro E B hls hJ
    rw [severNodes_eq, List.foldl_cons, ← severNodes_eq]
    have hu := hls u List.mem_cons_self
    have hJ' := sever1_J hu.1 hu.2 hJ
    have hrest : ∀ x, x ∈ rest → x ∉ N ∧ degree (sever1 M (E, B) u).1 x ≤ 1 := by
      intro x hx
      obtain ⟨h1, h2⟩ := hls x (List.mem_cons_of_mem _ hx)
      refine ⟨h1, Nat.le_trans ?_ h2⟩
      rw [sever1_fst]
      exact degree_filter_le _ _ _
    obtain ⟨e1, e2⟩ := ih (sever1 M (E, B) u).1 (sever1 M (E, B) u).2 hrest hJ'
    refine ⟨?_, e2⟩
    rw [e1, sever1_fst, List.filter_filter]
    apply List.filter_congr
    intro e _
    simp only [List.contains_cons, incident]
    cases (e.1 == u) <;> cases (e.2 == u) <;> cases (rest.contains e.1) <;>
      cases (rest.contains e.2) <;> rfl

/-! ### lockstep of `roundB` and `round` -/

/-- the bucket state `b` mirrors the plain state `s` -/
structure Rel (M : Nat) (b : BState) (s : PState) : Prop where
  nodes : b.nodes = s.nodes
  edges : b.edges = s.edges
  stems : b.stems = s.stems
  buckets : J M s.nodes s.edges b.buckets

theorem roundB_eq (M : Nat) (b : BState) :
    roundB M b =
      (let ls := b.nodes.filter (fun v => bucketOf b.buckets v == some 1)
       if ls.isEmpty then none else
        let sv := severNodes M ls b.edges (b.buckets.filter (fun p => !ls.contains p.1))
        let ns := b.nodes.filter (fun v => !ls.contains v)
        some ⟨ns, sv.1, b.stems ++ (if ns.isEmpty then (ls.map (stemOf b.edges)).dropLast
          else ls.map (stemOf b.edges)), sv.2⟩) := rfl

theorem takeLeaves_eq {M : Nat} {b : BState} {s : PState} (hrel : Rel M b s) :
    b.nodes.filter (fun v => bucketOf b.buckets v == some 1) = leavesOf s.nodes s.edges := by
  rw [hrel.nodes]
  unfold leavesOf
  apply List.filter_congr
  intro v hv
  rw [bucketOf, (hrel.buckets v hv).1]
  rw [Bool.eq_iff_iff]
  simp only [beq_iff_eq, Option.some.injEq]

theorem round_lockstep {M : Nat} {b : BState} {s : PState} (hrel : Rel M b s) :
    (roundB M b = none ∧ round s = none) ∨
    ∃ b' s', roundB M b = some b' ∧ round s = some s' ∧ Rel M b' s' := by
  have hls := takeLeaves_eq hrel
  rw [roundB_eq]
  simp only [hls]
  unfold round
  simp only
  by_cases hemp : (leavesOf s.nodes s.edges).isEmpty = true
  · left
    simp only [hemp, if_true, and_self]
  · right
    simp only [hemp, Bool.false_eq_true, if_false]
    refine ⟨_, _, rfl, rfl, ?_⟩
    -- the leaf loop
    have hJ0 : J M (s.nodes.filter (fun v => !(leavesOf s.nodes s.edges).contains v)) s.edges
        (b.buckets.filter (fun p => !(leavesOf s.nodes s.edges).contains p.1)) := by
      intro w hw
      obtain ⟨hwn, hwl⟩ := List.mem_filter.1 hw
      rw [lookup_filter (q := fun x => !(leavesOf s.nodes s.edges).contains x) hwl]
      exact hrel.buckets w hwn
    have hleaf : ∀ u, u ∈ leavesOf s.nodes s.edges →
        u ∉ s.nodes.filter (fun v => !(leavesOf s.nodes s.edges).contains v) ∧
          degree s.edges u ≤ 1 := by
      intro u hu
      refine ⟨?_, Nat.le_of_eq (mem_leavesOf.1 hu).2⟩
      intro hm
      have := (List.mem_filter.1 hm).2
      simp only [List.contains_eq_mem, hu, decide_true, Bool.not_true, Bool.false_eq_true] at this
    obtain ⟨e1, e2⟩ := severNodes_spec M _ (leavesOf s.nodes s.edges) s.edges _ hleaf hJ0
    have e2' := e2
    rw [e1] at e2'
    rw [hrel.edges]
    exact ⟨by rw [hrel.nodes], e1, by rw [hrel.nodes, hrel.stems], e2'⟩

theorem rounds_lockstep (M : Nat) : ∀ (f : Nat) (b : BState) (s : PState), Rel M b s →
    (roundsB M f b = none ∧ rounds f s = none) ∨
    ∃ b' s', roundsB M f b = some b' ∧ rounds f s = some s' ∧ Rel M b' s' := by
  intro f
  induction f with
  | zero => intro b s _; exact Or.inl ⟨rfl, rfl⟩
  | succ f ih =>
    intro b s hrel
    unfold roundsB rounds
    cases round_lockstep hrel with
    | inl h =>
      rw [h.1, h.2]
      exact Or.inr ⟨b, s, rfl, rfl, hrel⟩
    | inr h =>
      obtain ⟨b', s', h1, h2, hrel'⟩ := h
      rw [h1, h2]
      exact ih b' s' hrel'

/-- the bucket model computes the same result as the degree model (no hypothesis needed) -/
theorem peelB_eq_peel' (ns : List Nat) (es : List (Nat × Nat)) : peelB ns es = peel ns es := by
  have hrel : Rel ((ns.map (degree es)).foldl max 0)
      ⟨ns, es, [], ns.map (fun v => (v, degree es v))⟩ ⟨ns, es, []⟩ := by
    refine ⟨rfl, rfl, rfl, ?_⟩
    intro w hw
    exact ⟨lookup_map_degree es ns hw, le_foldl_max 0 (List.mem_map.2 ⟨w, hw, rfl⟩)⟩
  unfold peelB peel
  simp only
  cases rounds_lockstep _ (ns.length + 1) _ _ hrel with
  | inl h => rw [h.1, h.2]
  | inr h =>
    obtain ⟨b', s', h1, h2, hrel'⟩ := h
    rw [h1, h2]
    simp only [hrel'.nodes, hrel'.edges, hrel'.stems]

theorem peelB_eq_peel {ns : List Nat} {es : List (Nat × Nat)} (_hs : Simple ns es) :
    peelB ns es = peel ns es :=
  peelB_eq_peel' ns es

end AdaptaVerif.Lemmas.PeelBuckets
