def hello := "world"
