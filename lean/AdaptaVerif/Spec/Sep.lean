/-
Specification side of C18: what it means for a placement of the two nodes of a SepPair to satisfy
the pair (`Sat`), the action of the eight symmetries of the square on placements, and the
observational equivalence of stored constraints. Independent of how the C++ stores directions.
-/
import AdaptaVerif.Model.Sep
namespace AdaptaVerif.Spec.Sep
open AdaptaVerif.Num AdaptaVerif.Model.Sep

/-- centres and sizes of the src and tgt node of a pair -/
structure Placement where
  sx : Rat
  sy : Rat
  sw : Rat
  sh : Rat
  tx : Rat
  ty : Rat
  tw : Rat
  th : Rat
  deriving DecidableEq, Repr, Inhabited

/-- a generated one-dimensional constraint holds for the coordinates `s` (src) and `t` (tgt):
    `left + gap ≤ right`, `=` for an equality; no constraint = `True` -/
def conHolds (c : Option GenCon) (s t : Rat) : Prop :=
  match c with
  | none => True
  | some c =>
    if c.leftIsSrc then (if c.equality then s + c.gap = t else s + c.gap ≤ t)
    else (if c.equality then t + c.gap = s else t + c.gap ≤ s)

instance (c : Option GenCon) (s t : Rat) : Decidable (conHolds c s t) := by
  unfold conHolds; cases c <;> simp only <;> infer_instance

/-- `Sat extra sp p`: the VPSC constraints that `generateSeparationConstraint` produces for `sp` in
    both dimensions (with global extra boundary gap `extra`) hold for the placement `p`. -/
def Sat (extra : Rat) (sp : SepPair) (p : Placement) : Prop :=
  conHolds (genCon sp.xst sp.xgt sp.xgap extra p.sw p.tw) p.sx p.tx ∧
  conHolds (genCon sp.yst sp.ygt sp.ygap extra p.sh p.th) p.sy p.ty

instance (extra : Rat) (sp : SepPair) (p : Placement) : Decidable (Sat extra sp p) := by
  unfold Sat; infer_instance

/-- a `vpsc::Constraint` with ids holds for an assignment of positions to ids -/
def VCon.holds (c : VCon) (pos : Nat → Rat) : Prop :=
  if c.equality then pos c.left + c.gap = pos c.right else pos c.left + c.gap ≤ pos c.right

/-- the action of a transform on a placement: centres go through the plane map, widths and heights
    are exchanged by the transforms that exchange the axes -/
def Placement.apply (tf : SepTransform) (p : Placement) : Placement :=
  let s := tf.applyPt p.sx p.sy
  let t := tf.applyPt p.tx p.ty
  if tf.swapsAxes then
    { sx := s.1, sy := s.2, sw := p.sh, sh := p.sw, tx := t.1, ty := t.2, tw := p.th, th := p.tw }
  else
    { sx := s.1, sy := s.2, sw := p.sw, sh := p.sh, tx := t.1, ty := t.2, tw := p.tw, th := p.th }

/-- exchanging the roles of src and tgt -/
def Placement.swap (p : Placement) : Placement :=
  { sx := p.tx, sy := p.ty, sw := p.tw, sh := p.th, tx := p.sx, ty := p.sy, tw := p.sw, th := p.sh }

/-- observational equivalence of two stored pairs (each with the extra boundary gap of its matrix):
    the same placements satisfy them -/
def PairEquiv (e₁ : Rat) (sp₁ : SepPair) (e₂ : Rat) (sp₂ : SepPair) : Prop :=
  ∀ p : Placement, Sat e₁ sp₁ p ↔ Sat e₂ sp₂ p

/-- observational equivalence of what two matrices say about the pair of ids `{a, b}`;
    an absent pair constrains nothing -/
def SatOpt (e : Rat) (o : Option SepPair) (p : Placement) : Prop :=
  match o with
  | none => True
  | some sp => Sat e sp p

def MatrixEquivAt (m₁ m₂ : SepMatrix) (k : Nat × Nat) : Prop :=
  ∀ p : Placement, SatOpt m₁.extraBdryGap (m₁.lookup k) p ↔ SatOpt m₂.extraBdryGap (m₂.lookup k) p

def MatrixEquiv (m₁ m₂ : SepMatrix) : Prop := ∀ k, MatrixEquivAt m₁ m₂ k

/-- a gap is a multiple of `10^-p` -/
def IsMultipleOfPrec (p : Nat) (g : SZ) : Prop := ∃ n : Nat, g.mag = (n : Rat) / (pow10 p : Rat)

end AdaptaVerif.Spec.Sep
