/-
C11 mathematical specification (Props only; independent of the checkers).
-/
import AdaptaVerif.Model.Pins
namespace AdaptaVerif.Spec.Pins
open AdaptaVerif.Model.Pins

/-- `c` lies on the closed segment `a b` -/
def OnSeg (a b c : P2) : Prop :=
  ∃ t : Rat, 0 ≤ t ∧ t ≤ 1 ∧ c.x = a.x + t * (b.x - a.x) ∧ c.y = a.y + t * (b.y - a.y)

/-- The polyline `route` visits the points `cps` in this order: walking along the polyline one
    meets `cps[0]`, then (at the same place or later) `cps[1]`, … .  After a checkpoint `c` has been
    met on the segment `a b`, the rest of the walk is the polyline `c :: b :: rest`. -/
inductive Visits : List P2 → List P2 → Prop
  | done (route : List P2) : Visits route []
  | here {a b c : P2} {rest cs : List P2} :
      OnSeg a b c → Visits (c :: b :: rest) cs → Visits (a :: b :: rest) (c :: cs)
  | later {a : P2} {route cps : List P2} : Visits route cps → Visits (a :: route) cps

/-- `p` lies on some segment of the polyline -/
def OnRoute : List P2 → P2 → Prop
  | a :: b :: rest, p => OnSeg a b p ∨ OnRoute (b :: rest) p
  | _, _ => False

/-- unit vector of a `ConnDirFlag` bit: Up = −y, Down = +y, Left = −x, Right = +x -/
def dirVec : Nat → P2
  | 0 => ⟨0, -1⟩
  | 1 => ⟨0, 1⟩
  | 2 => ⟨-1, 0⟩
  | _ => ⟨1, 0⟩

/-- the leg `a → b` runs in one of the directions permitted by `mask` (with positive length) -/
def LeavesIn (a b : P2) (mask : Nat) : Prop :=
  ∃ bit : Nat, bit < 4 ∧ mask.testBit bit = true ∧
    ∃ l : Rat, 0 < l ∧ b.x = a.x + l * (dirVec bit).x ∧ b.y = a.y + l * (dirVec bit).y

/-- the pin lies inside or on the bounding box -/
def InBox (b : Box) (p : P2) : Prop := b.minX ≤ p.x ∧ p.x ≤ b.maxX ∧ b.minY ≤ p.y ∧ p.y ≤ b.maxY

/-- one axis of "offsets in range" -/
def AxisInRange (proportional : Bool) (off inside lo hi : Rat) : Prop :=
  lo ≤ hi ∧ 0 ≤ inside ∧ inside ≤ hi - lo ∧
    (if proportional then 0 ≤ off ∧ off ≤ 1 else off = -1 ∨ (0 ≤ off ∧ off ≤ hi - lo))

def InRange (s : PinSpec) (b : Box) : Prop :=
  AxisInRange s.proportional s.xOff s.inside b.minX b.maxX ∧
  AxisInRange s.proportional s.yOff s.inside b.minY b.maxY

end AdaptaVerif.Spec.Pins
