/-
Small list-based theory of finite undirected graphs for C19 (libdialect decompositions).
A graph is a node-id list `ns : List Nat` plus an edge list `es : List (Nat × Nat)`; an edge
`(u, v)` is undirected (orientation only records source/target as the C++ stores it).
Core Lean only (no Mathlib), deliberately not Mathlib's `SimpleGraph`.
(File/namespace `UGraph`: `Spec/Graph.lean` is C17's weighted-walk spec.)
-/
namespace AdaptaVerif.Spec.UGraph

abbrev Edge := Nat × Nat

/-- `u` and `v` are joined by an edge (either orientation) -/
def Adj (es : List Edge) (u v : Nat) : Prop := (u, v) ∈ es ∨ (v, u) ∈ es

/-- there is a walk from `u` to `v` -/
inductive Reach (es : List Edge) : Nat → Nat → Prop
  | refl (u : Nat) : Reach es u u
  | step {u v w : Nat} : Adj es u v → Reach es v w → Reach es u w

/-- every two listed nodes are joined by a walk -/
def Connected (ns : List Nat) (es : List Edge) : Prop :=
  ∀ u, u ∈ ns → ∀ v, v ∈ ns → Reach es u v

/-- `c` lists the vertices of a simple cycle: at least three pairwise distinct vertices,
    cyclically consecutive ones adjacent. (`getD` only avoids dependent index proofs; all
    indices used are in range.) -/
def IsCycle (es : List Edge) (c : List Nat) : Prop :=
  3 ≤ c.length ∧ c.Nodup ∧
  ∀ i, i < c.length → Adj es (c.getD i 0) (c.getD ((i + 1) % c.length) 0)

/-- no simple cycle -/
def Acyclic (es : List Edge) : Prop := ∀ c, ¬ IsCycle es c

/-- simple graph on `ns`: distinct nodes, edges join two different listed nodes, no edge twice
    (in either orientation) -/
def Simple (ns : List Nat) (es : List Edge) : Prop :=
  ns.Nodup ∧ (∀ e, e ∈ es → e.1 ∈ ns ∧ e.2 ∈ ns ∧ e.1 ≠ e.2) ∧ es.Nodup ∧
  (∀ u v, (u, v) ∈ es → (v, u) ∉ es)

/-- a tree: non-empty, connected, acyclic -/
def IsTree (ns : List Nat) (es : List Edge) : Prop :=
  ns ≠ [] ∧ Connected ns es ∧ Acyclic es

/-- no node of `ns` has exactly one incident edge -/
def NoDegreeOne (ns : List Nat) (es : List Edge) : Prop :=
  ∀ v, v ∈ ns → (es.filter (fun e => e.1 == v || e.2 == v)).length ≠ 1

theorem Adj.symm {es : List Edge} {u v : Nat} (h : Adj es u v) : Adj es v u := Or.symm h

theorem Adj.mono {es es' : List Edge} (hsub : ∀ e, e ∈ es → e ∈ es') {u v : Nat}
    (h : Adj es u v) : Adj es' u v := by
  cases h with
  | inl h => exact Or.inl (hsub _ h)
  | inr h => exact Or.inr (hsub _ h)

theorem Reach.trans {es : List Edge} {u v w : Nat} (h1 : Reach es u v) (h2 : Reach es v w) :
    Reach es u w := by
  induction h1 with
  | refl _ => exact h2
  | step a _ ih => exact Reach.step a (ih h2)

theorem Reach.single {es : List Edge} {u v : Nat} (h : Adj es u v) : Reach es u v :=
  Reach.step h (Reach.refl v)

theorem Reach.tail {es : List Edge} {u v w : Nat} (h1 : Reach es u v) (h2 : Adj es v w) :
    Reach es u w := h1.trans (Reach.single h2)

theorem Reach.symm {es : List Edge} {u v : Nat} (h : Reach es u v) : Reach es v u := by
  induction h with
  | refl _ => exact Reach.refl _
  | step a _ ih => exact ih.tail a.symm

theorem Reach.mono {es es' : List Edge} (hsub : ∀ e, e ∈ es → e ∈ es') {u v : Nat}
    (h : Reach es u v) : Reach es' u v := by
  induction h with
  | refl _ => exact Reach.refl _
  | step a _ ih => exact Reach.step (a.mono hsub) ih

/-- a set closed under adjacency is closed under reachability -/
theorem Reach.closed {es : List Edge} {P : Nat → Prop}
    (hP : ∀ a b, P a → Adj es a b → P b) {u v : Nat} (h : Reach es u v) (hu : P u) : P v := by
  induction h with
  | refl _ => exact hu
  | step a _ ih => exact ih (hP _ _ hu a)

theorem Acyclic.mono {es es' : List Edge} (hsub : ∀ e, e ∈ es → e ∈ es') (h : Acyclic es') :
    Acyclic es := by
  intro c hc
  exact h c ⟨hc.1, hc.2.1, fun i hi => (hc.2.2 i hi).mono hsub⟩

end AdaptaVerif.Spec.UGraph
