/-
Mathematical specification for property C01 (VPSC separation constraints).
Placements are total functions `Nat → Rat` (variable index ↦ position); scales are a function too.
-/
import AdaptaVerif.Check.Vpsc
namespace AdaptaVerif.Spec.Vpsc
open AdaptaVerif.Check.Vpsc

/-- the constraint `scale_l·x_l + gap ≤ scale_r·x_r` (`=` for equalities) holds exactly -/
def Holds (scale pos : Nat → Rat) (c : C) : Prop :=
  if c.eq then scale c.l * pos c.l + c.gap = scale c.r * pos c.r
  else scale c.l * pos c.l + c.gap ≤ scale c.r * pos c.r

/-- … holds to within `tol` (the property's "to within 1e-6") -/
def HoldsWithin (tol : Rat) (scale pos : Nat → Rat) (c : C) : Prop :=
  if c.eq then -tol ≤ slack scale pos c ∧ slack scale pos c ≤ tol
  else -tol ≤ slack scale pos c

/-- some placement satisfies every constraint -/
def Feasible (scale : Nat → Rat) (cs : List C) : Prop :=
  ∃ pos : Nat → Rat, ∀ c ∈ cs, Holds scale pos c

/-- a difference constraint `u_a + w ≤ u_b` in scaled coordinates -/
def EdgeHolds (u : Nat → Rat) (e : Edge) : Prop := u e.a + e.w ≤ u e.b

/-- `cyc` is a non-empty closed walk (each edge starts where the previous one ended, the last ends
    where the first starts) -/
def ClosedWalk (cyc : List Edge) : Prop :=
  ∃ e rest, cyc = e :: rest ∧ walkEnd e.a cyc = some e.a

/-- the constraint graph (equalities contribute both directions) has a closed walk of positive
    total gap — the property's "positive-gap cycle" -/
def PosCycle (cs : List C) : Prop :=
  ∃ cyc : List Edge, (∀ e ∈ cyc, e ∈ edgesOf cs) ∧ ClosedWalk cyc ∧ 0 < sumW cyc

end AdaptaVerif.Spec.Vpsc
