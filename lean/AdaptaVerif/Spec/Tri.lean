/-
Specification vocabulary for C13 (TriConstraint part): what "affine", "feasible" and
"safe step" mean, independent of how the code computes them.
-/
import AdaptaVerif.Model.Tri
namespace AdaptaVerif.Spec.Tri
open AdaptaVerif.Model.Tri

/-- `f` is an affine function of three rational arguments -/
def IsAffine3 (f : Rat → Rat → Rat → Rat) : Prop :=
  ∃ a b c d : Rat, ∀ u v w, f u v w = a * u + b * v + c * w + d

/-- every constraint of the system has non-negative slack at positions `x`
    (no node is on the wrong side of the segment it is constrained against) -/
def Feasible (cs : List TriConstraint) (x : Pos) : Prop :=
  ∀ c ∈ cs, 0 ≤ c.slackAt x

/-- `α` is a safe step length from `ini` towards `fin` for the system `cs` -/
def SafeStep (cs : List TriConstraint) (ini fin : Pos) (α : Rat) : Prop :=
  Feasible cs (posOnLine ini fin α)

end AdaptaVerif.Spec.Tri
