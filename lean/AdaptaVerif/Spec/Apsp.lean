/-
C17 — mathematical specification: walks in a weighted undirected multigraph and
"`d` is the shortest-path distance from `i` to `j`".  Independent of the algorithms.
-/
import AdaptaVerif.Model.ShortestPaths
namespace AdaptaVerif.Spec.Apsp
open AdaptaVerif.Model.ShortestPaths

/-- `{u,v}` with weight `w` occurs in the edge list (in either orientation): the graph is
    undirected; parallel edges and self-loops are allowed -/
def HasEdge (g : Graph) (u v : Nat) (w : Rat) : Prop :=
  (u, v, w) ∈ g.edges ∨ (v, u, w) ∈ g.edges

/-- `Walk g i j c`: there is a walk (vertices and edges may repeat) from `i` to `j` of total
    weight `c`; the empty walk at a vertex of the graph has weight 0 -/
inductive Walk (g : Graph) (i : Nat) : Nat → Rat → Prop where
  | nil : i < g.n → Walk g i i 0
  | snoc {j k : Nat} {c w : Rat} : Walk g i j c → HasEdge g j k w → Walk g i k (c + w)

/-- the same notion with the walk spelled out as a list of steps `(next vertex, edge weight)` -/
def IsStepList (g : Graph) : Nat → List (Nat × Rat) → Nat → Prop
  | i, [], j => i = j ∧ i < g.n
  | i, (v, w) :: rest, j => HasEdge g i v w ∧ IsStepList g v rest j

def stepWeight : List (Nat × Rat) → Rat
  | [] => 0
  | (_, w) :: rest => w + stepWeight rest

/-- end points in range, weights non-negative -/
def Valid (g : Graph) : Prop := ∀ e ∈ g.edges, e.1 < g.n ∧ e.2.1 < g.n ∧ 0 ≤ e.2.2

/-- two edge-list entries join the same unordered pair of vertices -/
def SameEnds (e f : Nat × Nat × Rat) : Prop :=
  (e.1 = f.1 ∧ e.2.1 = f.2.1) ∨ (e.1 = f.2.1 ∧ e.2.1 = f.1)

/-- no self-loops, no parallel edges -/
def Simple (g : Graph) : Prop :=
  (∀ e ∈ g.edges, e.1 ≠ e.2.1) ∧ g.edges.Pairwise (fun e f => ¬ SameEnds e f)

/-- `d` (with `none` = the "unreachable" sentinel) is the minimum weight over all walks from
    `i` to `j`; `none` iff there is no walk, i.e. `i` and `j` are in different components -/
def IsDist (g : Graph) (i j : Nat) : Dist → Prop
  | some d => Walk g i j d ∧ ∀ c, Walk g i j c → d ≤ c
  | none => ∀ c, ¬ Walk g i j c

/-- `D` is the all-pairs shortest-path matrix of `g` -/
def IsApsp (g : Graph) (D : Nat → Nat → Dist) : Prop :=
  ∀ i j, i < g.n → j < g.n → IsDist g i j (D i j)

end AdaptaVerif.Spec.Apsp
