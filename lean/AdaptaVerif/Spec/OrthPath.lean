/-
Specification side of C05's estimator claim: *orthogonal approach paths*.

An approach path from `(curr, heading cd)` to `(dest, arriving with heading dd)` is a non-empty list
of legs `(dir, len)` such that
  * the first leg has direction `cd`, the last leg has direction `dd`;
  * consecutive legs are perpendicular (a left or a right turn; never straight on, never a reversal);
  * every leg has length ≥ 0, and every *inner* leg (neither first nor last) has length > 0;
  * the legs add up to the displacement `dest - curr`.
Its number of bends is `legs - 1`.

Why zero-length first/last legs: the A* node at `curr` was entered with heading `cd`; if the
continuation leaves `curr` in a perpendicular direction that is one bend *at* `curr`, i.e. a leg of
length 0 in direction `cd` followed by the real first segment.  Symmetrically the target must be
entered with heading `dd` (the direction of the final hop from the cost target to the connector
end); arriving at `dest` with a perpendicular heading costs one more bend *at* `dest`, i.e. a
zero-length last leg.  Inner legs are segments between two graph vertices at different positions
(`if (edgeDist == 0) continue`, and the search never walks back along the edge it came by), hence
strictly positive.  Every path the search can build from `curr` therefore *is* an approach path
with the same number of bends, so a lower bound over approach paths is a lower bound over real
continuations.  (With the naive reading "all legs > 0" the code's `bends` would overestimate.)

Independent of the code: no reference to the model's `bends` here.  The y axis points down as in
libavoid: N = (0,-1), E = (1,0), S = (0,1), W = (-1,0).
-/
import AdaptaVerif.Model.Geometry
namespace AdaptaVerif.Spec.OrthPath
open AdaptaVerif.Model.Geometry (Pt)

inductive Dir where
  | N | E | S | W
  deriving DecidableEq, Repr, Inhabited

namespace Dir
/-- the C++ bit mask `CostDirection{N,E,S,W}` -/
def mask : Dir → Nat
  | N => 1 | E => 2 | S => 4 | W => 8
def ux : Dir → Rat
  | N => 0 | E => 1 | S => 0 | W => -1
def uy : Dir → Rat
  | N => -1 | E => 0 | S => 1 | W => 0
def left : Dir → Dir
  | N => W | E => N | S => E | W => S
def right : Dir → Dir
  | N => E | E => S | S => W | W => N
def rev : Dir → Dir
  | N => S | E => W | S => N | W => E
def all : List Dir := [N, E, S, W]
end Dir

structure Leg where
  dir : Dir
  len : Rat
  deriving Repr

/-- `b` is a quarter turn away from `a` -/
def Perp (a b : Dir) : Prop := b = a.left ∨ b = a.right

instance (a b : Dir) : Decidable (Perp a b) := by unfold Perp; infer_instance

/-- consecutive legs are perpendicular -/
def Chain : List Leg → Prop
  | [] => True
  | [_] => True
  | a :: b :: t => Perp a.dir b.dir ∧ Chain (b :: t)

def dispX : List Leg → Rat
  | [] => 0
  | l :: t => l.len * l.dir.ux + dispX t

def dispY : List Leg → Rat
  | [] => 0
  | l :: t => l.len * l.dir.uy + dispY t

/-- total (Manhattan) length of the path -/
def totalLen : List Leg → Rat
  | [] => 0
  | l :: t => l.len + totalLen t

/-- number of bends -/
def bendsOf (ls : List Leg) : Nat := ls.length - 1

/-- the legs that are neither first nor last -/
def inner (ls : List Leg) : List Leg := ls.tail.dropLast

structure IsApproach (curr : Pt) (cd : Dir) (dest : Pt) (dd : Dir) (ls : List Leg) : Prop where
  first : (ls.head?).map Leg.dir = some cd
  last : (ls.getLast?).map Leg.dir = some dd
  chain : Chain ls
  nonneg : ∀ l ∈ ls, 0 ≤ l.len
  innerPos : ∀ l ∈ inner ls, 0 < l.len
  dx : dispX ls = dest.x - curr.x
  dy : dispY ls = dest.y - curr.y

/-- An approach path whose initial heading is free (the search's start node has no incoming
    segment: `last == nullptr` in `estimatedCostSpecific`) and whose arrival heading is any of
    a set. -/
def IsFreeStart (curr dest : Pt) (ls : List Leg) : Prop :=
  ∃ cd dd, IsApproach curr cd dest dd ls

/-- cost of a path as charged by libavoid's `cost()` for orthogonal connectors when all other
    penalties are zero: Manhattan length + `segmentPenalty` per bend -/
def pathCost (penalty : Rat) (ls : List Leg) : Rat := totalLen ls + (bendsOf ls : Rat) * penalty

end AdaptaVerif.Spec.OrthPath
