/-
Specification of the separation-constraint quadratic program solved by VPSC (property C02).

Variables `0 … n-1` with desired position `d i`, weight `w i` and scale `s i`; a constraint
`c = (l, r, gap, eq)` requires `s l * x l + gap ≤ s r * x r` (`=` when `eq`), exactly the
quantity `Constraint::slack()` of libvpsc (`right->scale*right->position() - gap -
left->scale*left->position()`); the objective is `Σ w i * (x i - d i)^2` over the reported
positions (`Block::cost`, `Variable::dfdv` is its derivative).

Core Lean only (no Mathlib): the definitions are executable and are linked into the driver.
Placements are total functions `Nat → Rat`; only the values at indices `< n` matter.
-/
namespace AdaptaVerif.Spec.Qp

/-- `sumTo n f = f 0 + … + f (n-1)` -/
def sumTo : Nat → (Nat → Rat) → Rat
  | 0, _ => 0
  | n + 1, f => sumTo n f + f n

/-- sum of `f` over a list -/
def listSum {α : Type} (f : α → Rat) : List α → Rat
  | [] => 0
  | a :: as => f a + listSum f as

structure Con where
  l : Nat
  r : Nat
  gap : Rat
  eq : Bool
  deriving Repr, DecidableEq, Inhabited

structure Problem where
  n : Nat
  d : Nat → Rat
  w : Nat → Rat
  s : Nat → Rat
  cons : List Con

/-- `Constraint::slack()`: `s_r x_r - gap - s_l x_l` -/
def slack (s : Nat → Rat) (c : Con) (x : Nat → Rat) : Rat :=
  s c.r * x c.r - c.gap - s c.l * x c.l

/-- a single constraint holds at `x` -/
def Con.Holds (s : Nat → Rat) (c : Con) (x : Nat → Rat) : Prop :=
  if c.eq then slack s c x = 0 else 0 ≤ slack s c x

def Feasible (P : Problem) (x : Nat → Rat) : Prop :=
  ∀ c ∈ P.cons, c.Holds P.s x

/-- the objective minimised by VPSC: `Σ_{i<n} w_i (x_i - d_i)^2` -/
def cost (P : Problem) (x : Nat → Rat) : Rat :=
  sumTo P.n (fun i => P.w i * ((x i - P.d i) * (x i - P.d i)))

/-- weights positive, constraints mention only variables `< n` -/
def WF (P : Problem) : Prop :=
  (∀ i, i < P.n → 0 < P.w i) ∧ (∀ c ∈ P.cons, c.l < P.n ∧ c.r < P.n)

def IsOptimum (P : Problem) (x : Nat → Rat) : Prop :=
  Feasible P x ∧ ∀ y, Feasible P y → cost P x ≤ cost P y

/-- `∂/∂x_i` of `Σ_c λ_c · slack_c`, for a list of (constraint, multiplier) pairs -/
def conGrad (s : Nat → Rat) : List (Con × Rat) → Nat → Rat
  | [], _ => 0
  | (c, lam) :: rest, i =>
    ((if c.r = i then lam * s i else 0) - (if c.l = i then lam * s i else 0)) + conGrad s rest i

/-- Karush–Kuhn–Tucker conditions with one multiplier per constraint (same order as
    `P.cons`): feasibility, stationarity `2 w_i (x_i - d_i) = Σ_c λ_c ∂slack_c/∂x_i`,
    `λ_c ≥ 0` for inequalities (free sign for equalities), complementary slackness. -/
def KKT (P : Problem) (x : Nat → Rat) (lam : List Rat) : Prop :=
  lam.length = P.cons.length ∧
  Feasible P x ∧
  (∀ i, i < P.n → 2 * P.w i * (x i - P.d i) = conGrad P.s (P.cons.zip lam) i) ∧
  (∀ p ∈ P.cons.zip lam, (p.1.eq = true ∨ 0 ≤ p.2) ∧ p.2 * slack P.s p.1 x = 0)

/-- ε-relaxed sign condition (what a solver that splits only when `lm < -ε` guarantees) -/
def KKTeps (eps : Rat) (P : Problem) (x : Nat → Rat) (lam : List Rat) : Prop :=
  lam.length = P.cons.length ∧
  Feasible P x ∧
  (∀ i, i < P.n → 2 * P.w i * (x i - P.d i) = conGrad P.s (P.cons.zip lam) i) ∧
  (∀ p ∈ P.cons.zip lam, (p.1.eq = true ∨ -eps ≤ p.2) ∧ p.2 * slack P.s p.1 x = 0)

/-- total slack of the inequality constraints at `y` (appears in the ε-bound) -/
def ineqSlackSum (P : Problem) (y : Nat → Rat) : Rat :=
  listSum (fun c : Con => if c.eq then 0 else slack P.s c y) P.cons

/-- renaming of variables in a constraint -/
def Con.rename (σ : Nat → Nat) (c : Con) : Con := { c with l := σ c.l, r := σ c.r }

/-- `σ` is a permutation of `{0,…,n-1}` with inverse `τ` -/
def IsPerm (n : Nat) (σ τ : Nat → Nat) : Prop :=
  (∀ i, i < n → σ i < n ∧ τ (σ i) = i) ∧ (∀ j, j < n → τ j < n ∧ σ (τ j) = j)

/-- the problem with variable `i` renamed to `σ i` (`τ` = inverse) and the given constraint list -/
def Problem.permute (P : Problem) (τ : Nat → Nat) (cons' : List Con) : Problem :=
  { n := P.n, d := fun j => P.d (τ j), w := fun j => P.w (τ j), s := fun j => P.s (τ j), cons := cons' }

/-- all desired positions shifted by `t` -/
def Problem.shift (P : Problem) (t : Rat) : Problem :=
  { P with d := fun i => P.d i + t }

/-- cost of a rigid block: member `k < m` sits at `a k * p + b k` when the block is at `p`
    (`a = blockscale/scale_k`, `b = offset_k/scale_k` in `PositionStats::addVariable`) -/
def blockCost (m : Nat) (w a b d : Nat → Rat) (p : Rat) : Rat :=
  sumTo m (fun k => w k * ((a k * p + b k - d k) * (a k * p + b k - d k)))

/-- `posn = (AD - AB) / A2` of `Block::updateWeightedPosition` -/
def blockPosn (m : Nat) (w a b d : Nat → Rat) : Rat :=
  (sumTo m (fun k => w k * a k * d k) - sumTo m (fun k => w k * a k * b k)) /
    sumTo m (fun k => w k * a k * a k)

end AdaptaVerif.Spec.Qp
