/-
Mathematical specification for C03 / C04 route validity (Props, independent of the checkers).

Interior of a convex polygon: a convex polygon with vertices v0 … v_{n-1} (n ≥ 3) listed
counter-clockwise is the intersection of the closed left half-planes of its edges; its interior
is the intersection of the *open* left half-planes `area2 a b p > 0`.  For a clockwise listing all
signs flip.  `StrictlyInside` is stated for either orientation.  (For a non-convex vertex list
the intersection of half-planes is the kernel of the polygon, not its interior; every theorem that
interprets `StrictlyInside` as "interior" therefore carries the hypothesis `Convex poly`, while
the clipping theorems themselves hold for arbitrary vertex lists.)
-/
import AdaptaVerif.Check.Route
namespace AdaptaVerif.Spec.Route
open AdaptaVerif.Model.Geometry (Pt area2)
open AdaptaVerif.Check.Route

/-- every vertex lies on the closed left (s = 1) / right (s = −1) side of every edge line -/
def ConvexOriented (s : Rat) (poly : Poly) : Prop :=
  ∀ e ∈ polyEdges poly, ∀ v ∈ poly, 0 ≤ s * area2 e.1 e.2 v

/-- convex polygon with ≥ 3 vertices in counter-clockwise or clockwise order -/
def Convex (poly : Poly) : Prop :=
  3 ≤ poly.length ∧ (ConvexOriented 1 poly ∨ ConvexOriented (-1) poly)

/-- inside, with margin `tol·‖edge‖₁` in the area test of every edge, orientation s -/
def InsideOriented (s tol : Rat) (poly : Poly) (p : Pt) : Prop :=
  3 ≤ poly.length ∧ ∀ e ∈ polyEdges poly, tol * l1 e.1 e.2 < s * area2 e.1 e.2 p

def InsideBy (tol : Rat) (poly : Poly) (p : Pt) : Prop :=
  InsideOriented 1 tol poly p ∨ InsideOriented (-1) tol poly p

/-- p is in the open convex polygon -/
def StrictlyInside (poly : Poly) (p : Pt) : Prop := InsideBy 0 poly p

/-- some point of the closed segment pq is inside (margin tol) -/
def SegHitsTol (tol : Rat) (poly : Poly) (p q : Pt) : Prop :=
  ∃ t : Rat, 0 ≤ t ∧ t ≤ 1 ∧ InsideBy tol poly (lerp p q t)

/-- the closed segment pq meets the open polygon -/
def SegHits (poly : Poly) (p q : Pt) : Prop :=
  ∃ t : Rat, 0 ≤ t ∧ t ≤ 1 ∧ StrictlyInside poly (lerp p q t)

/-- the segment pq does not enter the interior of any non-excluded shape: "spec-unblocked" -/
def Unblocked (shapes : List Poly) (excl : List Nat) (p q : Pt) : Prop :=
  ∀ i, (h : i < shapes.length) → i ∉ excl → ¬ SegHits shapes[i] p q

def UnblockedTol (tol : Rat) (shapes : List Poly) (excl : List Nat) (p q : Pt) : Prop :=
  ∀ i, (h : i < shapes.length) → i ∉ excl → ¬ SegHitsTol tol shapes[i] p q

/-- C03: the route joins src and dst, has ≥ 2 points, and no point of any leg is strictly inside
    a shape other than the excluded ones (those containing an endpoint). -/
def RouteValid (shapes : List Poly) (excl : List Nat) (src dst : Pt) (route : List Pt) : Prop :=
  2 ≤ route.length ∧ route.head? = some src ∧ route.getLast? = some dst ∧
  ∀ l ∈ legs route, Unblocked shapes excl l.1 l.2

/-- tolerance version used on float output: legs may graze, but not enter deeper than `tol` -/
def RouteValidTol (tol : Rat) (shapes : List Poly) (excl : List Nat) (src dst : Pt) (route : List Pt) : Prop :=
  2 ≤ route.length ∧ route.head? = some src ∧ route.getLast? = some dst ∧
  ∀ l ∈ legs route, UnblockedTol tol shapes excl l.1 l.2

end AdaptaVerif.Spec.Route
