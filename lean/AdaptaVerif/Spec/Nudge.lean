/-
C10 specification-level definitions (Props only).
-/
import AdaptaVerif.Model.Nudge
import AdaptaVerif.Check.Nudge
import AdaptaVerif.Spec.Pins
namespace AdaptaVerif.Spec.Nudge
open AdaptaVerif.Model.Nudge AdaptaVerif.Model.Pins AdaptaVerif.Spec.Pins AdaptaVerif.Check.Nudge

/-- every generated constraint holds -/
def AllHold (p : Params) (segs : List Seg) (sol : Sol) : Prop := ∀ c ∈ genCons p segs, c.holds sol

/-- the pair gets the full separation distance: different connectors, and not a shared path with
    a common end point while nudgeSharedPathsWithCommonEndPoint is off -/
def FullGap (p : Params) (a b : Seg) : Prop :=
  a.conn ≠ b.conn ∧ ¬ (p.commonEnd a.conn b.conn = true ∧ p.nudgeCommonEnd = false)

/-- two polylines share a stretch of positive length: two distinct points lie on a segment of
    each -/
def SharedStretch (r1 r2 : List P2) : Prop :=
  ∃ s ∈ segments r1, ∃ t ∈ segments r2, ∃ p q : P2, p ≠ q ∧
    OnSeg s.1 s.2 p ∧ OnSeg s.1 s.2 q ∧ OnSeg t.1 t.2 p ∧ OnSeg t.1 t.2 q

end AdaptaVerif.Spec.Nudge
