/-
Abstract scene for C06: plain maps `id → geometry`, edited IMMEDIATELY by every API call
(no queue, no transactions). This is the reference semantics the router's action queue
(Model/ActionQueue.lean) is proved to refine (Props/C06.lean).
-/
import AdaptaVerif.Model.ActionQueue
namespace AdaptaVerif.Spec.Scene
open AdaptaVerif.Model.ActionQueue

/-- obstacles: id ↦ (is-junction flag, polygon or `[position]`); connectors: id ↦ (source, target)
    ends (`none` = not set yet; an end is a free point or an attachment to a pin class of an obstacle) -/
structure AScene where
  obst : Nat → Option (Bool × Poly)
  conn : Nat → Option (Option CEnd × Option CEnd)

def AScene.empty : AScene := ⟨fun _ => none, fun _ => none⟩

@[ext] theorem AScene.ext' {A B : AScene} (h1 : ∀ i, A.obst i = B.obst i) (h2 : ∀ i, A.conn i = B.conn i) : A = B := by
  cases A; cases B; simp only [AScene.mk.injEq]; exact ⟨funext h1, funext h2⟩

def upd {α} (f : Nat → Option α) (id : Nat) (v : Option α) : Nat → Option α :=
  fun i => if i = id then v else f i

def setEnds (ends : Option CEnd × Option CEnd) (e : End) (p : CEnd) : Option CEnd × Option CEnd :=
  match e with
  | .src => (some p, ends.2)
  | .tar => (ends.1, some p)

def endOf (ends : Option CEnd × Option CEnd) (e : End) : Option CEnd :=
  match e with
  | .src => ends.1
  | .tar => ends.2

/-- Immediate semantics of one API call. Edits of objects that do not exist are no-ops here
    (they are excluded by `legal`, so nothing is proved "for the wrong reason": every refinement
    theorem carries the legality hypothesis and has a non-vacuity example).
    * an absolute move replaces the geometry: the LAST absolute move wins;
    * a relative move translates the CURRENT abstract geometry, i.e. relative moves compose
      additively with each other and with earlier absolute moves of the same transaction;
    * `setEndpoint`: the last value per end wins — whatever else happens in the transaction: a move of
      the obstacle the end was (or will be) attached to does NOT touch the connector's ends;
    * `processTransaction` / `setTransactionUse` / `newPin` do not change the scene. -/
def applyOp (A : AScene) : Op → AScene
  | .addObst j id g => { A with obst := upd A.obst id (some (j, g)) }
  | .moveAbs _ id g _ => { A with obst := upd A.obst id ((A.obst id).map fun o => (o.1, g)) }
  | .moveRel _ id dx dy => { A with obst := upd A.obst id ((A.obst id).map fun o => (o.1, translate o.2 dx dy)) }
  | .delete _ id => { A with obst := upd A.obst id none }
  | .newConn id => { A with conn := upd A.conn id (some (none, none)) }
  | .setEndpoint c e p => { A with conn := upd A.conn c ((A.conn c).map fun ends => setEnds ends e p) }
  | .newPin _ _ _ _ => A
  | .setTransactionUse _ => A
  | .processTransaction => A

def applyOps (A : AScene) (ops : List Op) : AScene := ops.foldl applyOp A

/-- what the router currently shows: active obstacles with their geometry, connectors with their
    endpoint vertices -/
def view (sc : Scene) : AScene where
  obst id := match findObst sc id with
    | some o => if o.active then some (o.isJ, o.geom) else none
    | none => none
  conn id := (findConn sc id).map fun c => (c.src, c.dst)

/-- what the router WILL show once the pending queue is processed, read off the queue with the
    code's own `find(actionList…, ActionInfo(type, obj))` look-ups -/
def pending (st : State) : AScene where
  obst id := match findObst st.scene id with
    | none => none
    | some o =>
      if hasAct st.queue .remove id then none
      else match findAct st.queue .move id with
        | some a => some (o.isJ, a.geom)
        | none => if o.active || hasAct st.queue .add id then some (o.isJ, o.geom) else none
  conn id := (findConn st.scene id).map fun c =>
    let c' := match findAct st.queue .connChange id with
      | some a => c.applyUpdates a.conns
      | none => c
    (c'.src, c'.dst)

end AdaptaVerif.Spec.Scene
