/-
Mathematical vocabulary of C09 (independent of the scan-line code).
-/
import AdaptaVerif.Model.Scanline
namespace AdaptaVerif.Spec.Rects
open AdaptaVerif.Model.Scanline

/-- two rectangles overlap with positive area: some point lies strictly inside both -/
def Overlap (u v : Rect) : Prop :=
  ∃ x y : Rat, u.minX < x ∧ x < u.maxX ∧ v.minX < x ∧ x < v.maxX ∧
               u.minY < y ∧ y < u.maxY ∧ v.minY < y ∧ y < v.maxY

/-- the open intervals (a1,a2) and (b1,b2) share a point -/
def IntervalsMeet (a1 a2 b1 b2 : Rat) : Prop := ∃ x : Rat, a1 < x ∧ x < a2 ∧ b1 < x ∧ x < b2

/-- a placement `y` (one coordinate per variable) satisfies all separation constraints -/
def Sat (y : Nat → Rat) (cs : List Con) : Prop := ∀ c ∈ cs, y c.l + c.gap ≤ y c.r

/-- non-empty directed path in the constraint graph -/
inductive Chain (cs : List Con) : Nat → Nat → Prop
  | single {c : Con} : c ∈ cs → Chain cs c.l c.r
  | cons {c : Con} {b : Nat} : c ∈ cs → Chain cs c.r b → Chain cs c.l b

/-- the constraint graph is a DAG -/
def Acyclic (cs : List Con) : Prop := ∀ a, ¬ Chain cs a a

/-- the rectangle as the getters show it: grown by the borders -/
def bordered (r : Rect) (bx b : Rat) : Rect := ⟨r.getMinX bx, r.getMaxX bx, r.getMinY b, r.getMaxY b⟩

/-- the sweep extents of `u` and `v` meet in the code's sense: each opens no later than the other
    closes.  Because Open is processed before Close at equal positions, *touching counts*. -/
def ScanMeet (ax : Axis) (u v : Nat) : Prop := ax.opn u ≤ ax.cls v ∧ ax.opn v ≤ ax.cls u

/-- `evs` is a possible outcome of sorting the 2n events with `compare_events`: every event
    exactly once, positions non-decreasing, Open before Close at equal positions; the relative
    order of same-type events at one position is arbitrary. -/
def ValidOrder (ax : Axis) (n : Nat) (evs : List Ev) : Prop :=
  evs.Pairwise (fun a b => evLe ax a b = true) ∧ evs.Nodup ∧ ∀ e : Ev, e ∈ evs ↔ e.id < n

/-- `CmpNodePos` with an arbitrary injective tie-break (heap addresses are distinct) -/
def RankInjective (rank : Nat → Nat) : Prop := ∀ i j, rank i = rank j → i = j

end AdaptaVerif.Spec.Rects
