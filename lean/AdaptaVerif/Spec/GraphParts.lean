/-
C19 — the property text as Lean propositions, independent of the algorithms:
what it means for (trees, core) to be a peeling of a graph, and for a list of parts to be its
connected components. Uses the list-graph theory of `Spec/UGraph.lean`; the record types of
the outputs (`TreeOut`, `Comp`) are those of `Model/Peel.lean`.
-/
import AdaptaVerif.Spec.UGraph
import AdaptaVerif.Model.Peel
namespace AdaptaVerif.Spec.GraphParts
open AdaptaVerif.Spec.UGraph
open AdaptaVerif.Model.Peel (TreeOut Comp)

/-- exactly one position of the list holds an element satisfying `P` -/
def ExactlyOne {α : Type} (parts : List α) (P : α → Prop) : Prop :=
  ∃ l1 a l2, parts = l1 ++ a :: l2 ∧ P a ∧ (∀ b, b ∈ l1 → ¬ P b) ∧ (∀ b, b ∈ l2 → ¬ P b)

/-- the same undirected edge -/
def SameEdge (e f : Edge) : Prop := e = f ∨ e = (f.2, f.1)

/-- the part (an edge list) contains the undirected edge `e` -/
def HasEdge (p : List Edge) (e : Edge) : Prop := ∃ f, f ∈ p ∧ SameEdge e f

/-- "Peeling a connected graph yields trees and a core such that every node of the input
    belongs to the core or to exactly one tree (tree roots being the only nodes shared with the
    core), every tree is acyclic and connected, every edge of the input is in exactly one part,
    and a non-empty core has no node of degree one." -/
structure PeelSpec (ns : List Nat) (es : List Edge) (trees : List TreeOut)
    (coreN : List Nat) (coreE : List Edge) : Prop where
  /-- every node is in the core or in exactly one tree -/
  node_cover : ∀ v, v ∈ ns → v ∈ coreN ∨ ExactlyOne trees (fun t => v ∈ t.nodes)
  /-- no node is in two trees -/
  node_atmost : ∀ v, v ∈ ns → (∀ t, t ∈ trees → v ∉ t.nodes) ∨ ExactlyOne trees (fun t => v ∈ t.nodes)
  /-- parts only contain input nodes -/
  core_sub : ∀ v, v ∈ coreN → v ∈ ns
  tree_sub : ∀ t, t ∈ trees → ∀ v, v ∈ t.nodes → v ∈ ns
  /-- the root belongs to its tree and, when the core is non-empty, is exactly the node shared with it -/
  root_mem : ∀ t, t ∈ trees → t.root ∈ t.nodes
  shared : coreN ≠ [] → ∀ t, t ∈ trees → ∀ v, v ∈ t.nodes → (v ∈ coreN ↔ v = t.root)
  /-- every edge of the input is in exactly one part (core edge list or one tree's edge list) -/
  edge_once : ∀ e, e ∈ es → ExactlyOne (coreE :: trees.map (·.edges)) (fun p => HasEdge p e)
  /-- parts only contain input edges, between their own nodes -/
  core_edges_sub : ∀ f, f ∈ coreE → HasEdge es f ∧ f.1 ∈ coreN ∧ f.2 ∈ coreN
  tree_edges_sub : ∀ t, t ∈ trees → ∀ f, f ∈ t.edges → HasEdge es f ∧ f.1 ∈ t.nodes ∧ f.2 ∈ t.nodes
  /-- every tree is connected and acyclic -/
  trees_ok : ∀ t, t ∈ trees → IsTree t.nodes t.edges
  /-- the core has no node of degree one -/
  core_deg : NoDegreeOne coreN coreE

/-- "Connected-component extraction partitions nodes and edges the same way": every node and
    every edge in exactly one part, each part connected (by its own edges), no edge between parts. -/
structure CompsSpec (ns : List Nat) (es : List Edge) (cs : List Comp) : Prop where
  node_once : ∀ v, v ∈ ns → ExactlyOne cs (fun c => v ∈ c.nodes)
  nodes_sub : ∀ c, c ∈ cs → c.nodes ≠ [] ∧ ∀ v, v ∈ c.nodes → v ∈ ns
  edge_once : ∀ e, e ∈ es → ExactlyOne cs (fun c => HasEdge c.edges e)
  edges_sub : ∀ c, c ∈ cs → ∀ f, f ∈ c.edges → HasEdge es f ∧ f.1 ∈ c.nodes ∧ f.2 ∈ c.nodes
  connected : ∀ c, c ∈ cs → Connected c.nodes c.edges
  no_cross : ∀ c, c ∈ cs → ∀ a, a ∈ c.nodes → ∀ b, Adj es a b → b ∈ c.nodes

end AdaptaVerif.Spec.GraphParts
