/-
C20 — what "independent of the frame" means, as Props (no reference to how anything is computed).
A frame change is `F : Frame`, `p ↦ S p + t` with `S` one of the eight symmetries of the square.
-/
import AdaptaVerif.Model.Frame
namespace AdaptaVerif.Spec.Frame
open AdaptaVerif.Model.Geometry AdaptaVerif.Model.Frame

/-- a quantity computed from three / four points that is the same in every frame -/
def Invariant3 {α : Type} (f : Pt → Pt → Pt → α) : Prop :=
  ∀ (F : Frame) (a b c : Pt), f (F.act a) (F.act b) (F.act c) = f a b c
def Invariant4 {α : Type} (f : Pt → Pt → Pt → Pt → α) : Prop :=
  ∀ (F : Frame) (a b c d : Pt), f (F.act a) (F.act b) (F.act c) (F.act d) = f a b c d

/-- an orientation-like quantity: multiplied by the determinant (±1) of the frame -/
def Oriented3 (f : Pt → Pt → Pt → Int) : Prop :=
  ∀ (F : Frame) (a b c : Pt), f (F.act a) (F.act b) (F.act c) = F.det * f a b c
def Oriented4 (f : Pt → Pt → Pt → Pt → Int) : Prop :=
  ∀ (F : Frame) (a b c d : Pt), f (F.act a) (F.act b) (F.act c) (F.act d) = F.det * f a b c d

/-- a route cost that is the same in every frame -/
def CostInvariant {α : Type} (cost : Route → α) : Prop :=
  ∀ (F : Frame) (r : Route), cost (F.actRoute r) = cost r

/-- `r ↦ F r` is a bijection of all routes (two-sided inverse `F.inv`) -/
def RouteBijection (F : Frame) : Prop :=
  (∀ r, F.inv.actRoute (F.actRoute r) = r) ∧ (∀ r, F.actRoute (F.inv.actRoute r) = r)

/-- For every frame, the routing problem (scene, src, dst) and its image have "the same" valid
    routes: `r ↦ F r` is a bijection that maps valid routes onto valid routes of the image problem
    and preserves `cost`.  Consequently the optimal cost (and the set of attained costs) of the two
    problems coincide, although the optimal ROUTE need not be the image of the optimal route when
    several routes share the optimal cost. -/
def RoutingFrameIndependent {α : Type} (valid : Scene → Pt → Pt → Route → Prop) (cost : Route → α) : Prop :=
  ∀ (F : Frame) (sc : Scene) (s d : Pt),
    RouteBijection F ∧
    (∀ r, valid (F.actScene sc) (F.act s) (F.act d) (F.actRoute r) ↔ valid sc s d r) ∧
    (∀ r, cost (F.actRoute r) = cost r)

end AdaptaVerif.Spec.Frame
