/-
Mathematical specification for C12: small, self-contained list-based graph theory.
Nothing here mentions the checker's algorithm (the vertex degree `deg` is shared, it is a plain count).
-/
import AdaptaVerif.Check.Tree
namespace AdaptaVerif.Spec.Tree
open AdaptaVerif.Check.Tree (Edge deg)

/-- undirected adjacency through one edge occurrence of the list -/
def Adj (E : List Edge) (a b : Nat) : Prop := (a, b) ∈ E ∨ (b, a) ∈ E

/-- reflexive-transitive closure of adjacency: there is a walk from `a` to `b` -/
inductive Reach (E : List Edge) : Nat → Nat → Prop
  | refl (a : Nat) : Reach E a a
  | step {a b c : Nat} : Reach E a b → Adj E b c → Reach E a c

/-- every edge end is a listed vertex (no dangling edge) -/
def WellFormed (V : List Nat) (E : List Edge) : Prop := ∀ e ∈ E, e.1 ∈ V ∧ e.2 ∈ V

/-- at least one vertex, and any two listed vertices are joined by a walk -/
def Connected (V : List Nat) (E : List Edge) : Prop :=
  V ≠ [] ∧ ∀ a ∈ V, ∀ b ∈ V, Reach E a b

/-- Acyclic multigraph = forest = *every edge occurrence is a bridge*: after removing the `i`-th
    edge its two ends are no longer joined.  (Standard characterisation: an edge lies on a cycle
    iff its ends stay connected without it.  A self-loop `(a,a)` is excluded because `Reach _ a a`
    always holds; of two parallel edges each one witnesses the other's non-bridge-ness.) -/
def Acyclic (E : List Edge) : Prop :=
  ∀ (i : Nat) (h : i < E.length), ¬ Reach (E.eraseIdx i) (E[i]'h).1 (E[i]'h).2

def IsTree (V : List Nat) (E : List Edge) : Prop :=
  WellFormed V E ∧ Connected V E ∧ Acyclic E

/-- the set of leaves (listed vertices of degree 1) equals the set `T` -/
def LeavesAre (V : List Nat) (E : List Edge) (T : List Nat) : Prop :=
  (∀ t ∈ T, t ∈ V) ∧ ∀ v ∈ V, (deg E v = 1 ↔ v ∈ T)

/-- `after = (before ∪ new) \ deleted` as sets -/
def LiveConsistent (before new deleted after : List Nat) : Prop :=
  ∀ x, x ∈ after ↔ ((x ∈ before ∨ x ∈ new) ∧ x ∉ deleted)

end AdaptaVerif.Spec.Tree
