import AdaptaVerif.Model.Compound
/-
Specification side of C07/C08: what it means for an assignment of positions to satisfy vpsc
separation constraints, and the *documented meaning* of every libcola compound constraint on the
node centres (cola/libcola/compound_constraints.h doc comments), exactly and within a tolerance.
No executable content; independent of how the code encodes the constraints.
-/
namespace AdaptaVerif.Spec.Compound
open AdaptaVerif.Model.Compound

/-- positions of vpsc variables (nodes and auxiliary variables alike), one dimension -/
abbrev Asg := Nat → Rat

/-- `pos left + gap ≤ pos right`, or `=` for an equality constraint -/
def Holds (c : Sep) (a : Asg) : Prop :=
  if c.eq then a c.left + c.gap = a c.right else a c.left + c.gap ≤ a c.right

def AllHold (cs : List Sep) (a : Asg) : Prop := ∀ c ∈ cs, Holds c a

/-- `a` and `b` agree except possibly on the listed (auxiliary) variables -/
def AgreeOff (vs : List Nat) (a b : Asg) : Prop := ∀ i, i ∉ vs → a i = b i

def update (a : Asg) (v : Nat) (val : Rat) : Asg := fun i => if i = v then val else a i

/-- the line-search update `coords = oldCoords − stepsize·(oldCoords − projected)` -/
def step (old proj : Asg) (t : Rat) : Asg := fun i => old i - t * (old i - proj i)

/-! ### documented meanings (exact) -/

/-- BoundaryConstraint: there is a line `b`; shapes with negative offset lie at least `|offset|`
    to its left, the others at least `offset` to its right -/
def BoundaryMeaning (offs : List (Nat × Rat)) (x : Asg) : Prop :=
  ∃ b : Rat, ∀ p ∈ offs, (p.2 < 0 → x p.1 ≤ b - (-p.2)) ∧ (¬ p.2 < 0 → b + p.2 ≤ x p.1)

/-- AlignmentConstraint: there is a guideline `g`; every shape sits exactly `offset` from it -/
def AlignmentMeaning (offs : List (Nat × Rat)) (x : Asg) : Prop :=
  ∃ g : Rat, ∀ p ∈ offs, x p.1 = g + p.2

/-- guideline position `g` of an alignment, as witnessed by its shapes -/
def IsGuide (offs : List (Nat × Rat)) (x : Asg) (g : Rat) : Prop := ∀ p ∈ offs, x p.1 = g + p.2

/-- SeparationConstraint: `left + gap ≤ right`, or `=` -/
def GapMeaning (eq : Bool) (l gap r : Rat) : Prop := if eq then l + gap = r else l + gap ≤ r

/-- Multi-separation / distribution over guideline positions `g` (indexed like the variables) -/
def PairsMeaning (pairs : List (Nat × Nat)) (sep : Rat) (eq : Bool) (g : Asg) : Prop :=
  ∀ p ∈ pairs, GapMeaning eq (g p.1) sep (g p.2)

/-- FixedRelativeConstraint: relative offsets captured at construction are preserved in `dim` -/
def FixedRelMeaning (dim : Dim) (rel : List RelOff) (x : Asg) : Prop :=
  ∀ o ∈ rel, o.dim = dim → x o.second = x o.first + o.off

/-- PageBoundaryConstraints with boundary positions `lo hi`: every shape (with its half size) is
    between them. The boundaries themselves are only *weighted* towards the page margins. -/
def PageMeaning (dim : Dim) (shapes : List (Nat × Rat × Rat)) (x : Asg) (lo hi : Rat) : Prop :=
  ∀ s ∈ shapes, lo + (match dim with | .x => s.2.1 | .y => s.2.2) ≤ x s.1 ∧
                x s.1 + (match dim with | .x => s.2.1 | .y => s.2.2) ≤ hi

/-! ### meanings within a tolerance, stated on node centres only (what the checkers decide) -/

def NearEq (tol a b : Rat) : Prop := a - b ≤ tol ∧ b - a ≤ tol

def GapTol (tol : Rat) (eq : Bool) (l gap r : Rat) : Prop :=
  if eq then NearEq tol (l + gap) r else l + gap ≤ r + tol

/-- every left shape / right shape pair is compatible with a common line -/
def BoundaryTol (tol : Rat) (x : Asg) (offs : List (Nat × Rat)) : Prop :=
  ∀ p ∈ offs, ∀ q ∈ offs, p.2 < 0 → ¬ q.2 < 0 → x p.1 - p.2 + q.2 ≤ x q.1 + tol

/-- all shapes agree on the guideline position -/
def AlignmentTol (tol : Rat) (x : Asg) (offs : List (Nat × Rat)) : Prop :=
  ∀ p ∈ offs, ∀ q ∈ offs, NearEq tol (x p.1 - p.2) (x q.1 - q.2)

/-- separation between two guidelines read off every pair of shapes on them -/
def GuidesTol (tol : Rat) (x : Asg) (offsL offsR : List (Nat × Rat)) (gap : Rat) (eq : Bool) : Prop :=
  ∀ p ∈ offsL, ∀ q ∈ offsR, GapTol tol eq (x p.1 - p.2) gap (x q.1 - q.2)

def FixedRelTol (tol : Rat) (pos : Dim → Asg) (rel : List RelOff) : Prop :=
  ∀ o ∈ rel, NearEq tol (pos o.dim o.second - pos o.dim o.first) o.off

/-! ### C08 -/

/-- the closed intervals `[aLo,aHi]`, `[bLo,bHi]` share a sub-interval longer than `tol` -/
def Overlap1D (tol aLo aHi bLo bHi : Rat) : Prop :=
  ∃ lo hi : Rat, hi - lo > tol ∧ aLo ≤ lo ∧ hi ≤ aHi ∧ bLo ≤ lo ∧ hi ≤ bHi

/-- the rectangles overlap by more than `tol` in both dimensions -/
def OverlapBoth (tol : Rat) (a b : Rect) : Prop :=
  Overlap1D tol a.minX a.maxX b.minX b.maxX ∧ Overlap1D tol a.minY a.maxY b.minY b.maxY

/-- rectangle with centre `c` and half size `h` in one dimension -/
def lo1 (c h : Rat) : Rat := c - h
def hi1 (c h : Rat) : Rat := c + h

/-- `r` lies within `b` -/
def Within (r b : Rect) : Prop := b.minX ≤ r.minX ∧ r.maxX ≤ b.maxX ∧ b.minY ≤ r.minY ∧ r.maxY ≤ b.maxY

/-- `r` lies within `b` up to `tol` on every side -/
def WithinTol (tol : Rat) (r b : Rect) : Prop :=
  b.minX ≤ r.minX + tol ∧ r.maxX ≤ b.maxX + tol ∧ b.minY ≤ r.minY + tol ∧ r.maxY ≤ b.maxY + tol

end AdaptaVerif.Spec.Compound
