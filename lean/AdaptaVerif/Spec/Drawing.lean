/-
C14 — mathematical statement of "a clean orthogonal drawing of the same graph whose returned
separation constraints hold", independent of the executable checkers (which are proven
equivalent / sound w.r.t. these Props in `Lemmas/Drawing*.lean`, `Props/C14.lean`).
-/
import AdaptaVerif.Check.Drawing
namespace AdaptaVerif.Spec.Drawing
open AdaptaVerif.Check.RouteRect AdaptaVerif.Check.Drawing

/-- 1. Same graph: node ids are pairwise distinct and are the same ids after the call; the
    multiset of (source id, target id) pairs of the edges is unchanged. -/
def SameGraph (before after : Drawing) : Prop :=
  before.ids.Nodup ∧ before.ids.Perm after.ids ∧ before.ekeys.Perm after.ekeys

/-- 2. Every returned node is an input node with exactly the same width and height. -/
def SizesKept (before after : Drawing) : Prop :=
  ∀ n ∈ after.nodes, ∃ m ∈ before.nodes, m.id = n.id ∧ m.w = n.w ∧ m.h = n.h

/-- a point lying strictly inside both rectangles after each was shrunk by `tol/2` per side,
    i.e. the rectangles overlap by more than `tol` in both dimensions (`tol = 0`: the open
    interiors intersect) -/
def CommonInteriorPoint (tol : Rat) (a b : Rect) : Prop :=
  ∃ p : P, StrictlyInside (a.shrink (tol / 2)) p ∧ StrictlyInside (b.shrink (tol / 2)) p

/-- 3. No two nodes (at different positions of the node list) overlap. -/
def NoNodeOverlap (tol : Rat) (d : Drawing) : Prop :=
  ∀ (i j : Nat) (hi : i < d.nodes.length) (hj : j < d.nodes.length), i ≠ j →
    ¬ CommonInteriorPoint tol (d.nodes[i]).box (d.nodes[j]).box

/-- 4. The route is a polyline with at least two points all of whose legs are exactly
    horizontal or exactly vertical. -/
def RouteOrthogonal (r : List P) : Prop :=
  2 ≤ r.length ∧ ∀ (i : Nat) (hi : i + 1 < r.length),
    (r[i]'(Nat.lt_of_succ_lt hi)).x = (r[i + 1]'hi).x ∨ (r[i]'(Nat.lt_of_succ_lt hi)).y = (r[i + 1]'hi).y

/-- `p` is within (sup-norm) distance `e` of the closed rectangle `r` -/
def InGrown (e : Rat) (r : Rect) (p : P) : Prop :=
  r.x0 - e ≤ p.x ∧ p.x ≤ r.x1 + e ∧ r.y0 - e ≤ p.y ∧ p.y ≤ r.y1 + e

/-- 5. The route begins at one end node and ends at the other, each within `e`. -/
def RouteEndsAt (e : Rat) (s t : Node) (r : List P) : Prop :=
  ∃ a z : P, r.head? = some a ∧ r.getLast? = some z ∧
    ((InGrown e s.box a ∧ InGrown e t.box z) ∨ (InGrown e t.box a ∧ InGrown e s.box z))

/-- 6. No point of any leg of the edge's route is strictly inside the box (shrunk by `s` per
    side) of a node other than the edge's two end nodes. -/
def RouteAvoidsOthers (s : Rat) (d : Drawing) (e : Edge) : Prop :=
  ∀ n ∈ d.nodes, n.id ≠ e.src → n.id ≠ e.tgt →
    ∀ (i : Nat) (hi : i + 1 < e.route.length) (t : Rat), 0 ≤ t → t ≤ 1 →
      ¬ StrictlyInside (n.box.shrink s) (lerp (e.route[i]'(Nat.lt_of_succ_lt hi)) (e.route[i + 1]'hi) t)

/-- 7. One dimension of a separation constraint, stated by *direction*: with `σ = -1` if the
    sign bit of the gap is set and `σ = +1` otherwise, the target lies at signed distance
    `d = σ·(pt - ps)` from the source; the required separation is `|gap|` (`= σ·gap`) for a CENTRE
    gap and `|gap| + (ws+wt)/2 + extra` for a BDRY gap; EQ demands `|d - sep| ≤ tol`, INEQ demands
    `d ≥ sep - tol`. -/
def DimSat (tol extra : Rat) (c : SepDim) (ps pt ws wt : Rat) : Prop :=
  let σ : Rat := if c.neg then -1 else 1
  let d := σ * (pt - ps)
  let sep := σ * c.gap + (match c.gt with | .centre => 0 | .bdry => (ws + wt) / 2 + extra)
  match c.st with
  | .none => True
  | .eq => -tol ≤ d - sep ∧ d - sep ≤ tol
  | .ineq => sep - tol ≤ d

def SepHolds (tol extra : Rat) (d : Drawing) (sp : SepPair) : Prop :=
  ∃ s t : Node, d.node? sp.src = some s ∧ d.node? sp.tgt = some t ∧
    DimSat tol extra sp.x s.cx t.cx s.w t.w ∧ DimSat tol extra sp.y s.cy t.cy s.h t.h

def SepSatisfied (tol extra : Rat) (d : Drawing) (seps : List SepPair) : Prop :=
  ∀ sp ∈ seps, SepHolds tol extra d sp

/-- per-edge part of the property -/
def EdgeOk (padE shrink : Rat) (d : Drawing) (e : Edge) : Prop :=
  RouteOrthogonal e.route ∧
  (∃ s t : Node, d.node? e.src = some s ∧ d.node? e.tgt = some t ∧ RouteEndsAt padE s t e.route) ∧
  RouteAvoidsOthers shrink d e

/-- the whole of property C14 for one call -/
def CleanDrawing (pr : Params) (before after : Drawing) (seps : List SepPair) : Prop :=
  SameGraph before after ∧ SizesKept before after ∧ NoNodeOverlap pr.overlapTol after ∧
    (∀ e ∈ after.edges, EdgeOk pr.padE pr.shrink after e) ∧
    SepSatisfied pr.sepTol pr.extraBdry after seps

end AdaptaVerif.Spec.Drawing
