/-
C15 (A) — what "sound object lifetime" means for a state of the Router lifecycle model.
Pure `Prop`s over `Model.Lifecycle.St`; the theorems are in Props/C15.lean.
-/
import AdaptaVerif.Model.Lifecycle
namespace AdaptaVerif.Spec.Lifecycle
open AdaptaVerif.Model.Lifecycle

def isShapeAct (t : AType) : Prop := t = .shapeMove ∨ t = .shapeAdd ∨ t = .shapeRemove
def isJunctionAct (t : AType) : Prop := t = .junctionMove ∨ t = .junctionAdd ∨ t = .junctionRemove

/-- No queued action that `Router::processActions` dereferences names a freed object: obstacle
    actions name an allocated shape / junction, a ConnChange names an allocated connector and every
    queued `ConnEnd` in it names an allocated obstacle.  (ConnectionPinChange entries are excluded on
    purpose: `~ShapeConnectionPin` queues one for the pin being destroyed and the code never
    dereferences them — see `Props.C15.pinChange_entry_may_dangle`.) -/
def NoDanglingAction (s : St) : Prop :=
  ∀ a ∈ s.actions,
    (isShapeAct a.type → s.hasShape a.obj = true) ∧
    (isJunctionAct a.type → s.hasJunction a.obj = true) ∧
    (a.type = .connChange →
      s.hasConn a.obj = true ∧ ∀ u ∈ a.ends, ∀ an, u.2 = some an → s.hasObst an.obj = true)

/-- nothing is freed twice, and only things that were created are freed -/
def FreedOnce (s : St) : Prop := s.freed.Nodup ∧ ∀ x ∈ s.freed, x ∈ s.created

/-- after `~Router` every object ever created has been freed (with `FreedOnce`: exactly once) -/
def AllReleased (s : St) : Prop := s.alive = false ∧ ∀ x ∈ s.created, x ∈ s.freed

/-- the model's live sets are exactly "created minus freed", without repetition -/
def LiveSetsRefine (s : St) : Prop :=
  s.allocated.Nodup ∧ s.created.Nodup ∧ ∀ x, x ∈ s.allocated ↔ (x ∈ s.created ∧ x ∉ s.freed)

def EndValid (s : St) (e : End) : Prop :=
  ∀ x, e = some x → s.hasObst x.anchor = true ∧
    ∀ p, x.pin = some p → ∃ q ∈ s.pins, q.id = p ∧ q.owner = x.anchor

/-- no end of an allocated connector refers to a freed obstacle or a freed pin; pins hang on allocated owners -/
def ConnEndsValid (s : St) : Prop :=
  (∀ c ∈ s.conns, EndValid s c.src ∧ EndValid s c.dst) ∧ (∀ p ∈ s.pins, s.hasObst p.owner = true)

/-- a connector's owned checkpoint vertices are exactly the vertices of its current checkpoint list:
    owned = created minus freed, no vertex owned twice, none freed twice -/
def CheckpointsOwned (s : St) : Prop :=
  s.allCps.Nodup ∧ s.vcreated.Nodup ∧ s.vfreed.Nodup ∧
  ∀ v, v ∈ s.allCps ↔ (v ∈ s.vcreated ∧ v ∉ s.vfreed)

/-- after `~Router` every checkpoint vertex ever created has been freed -/
def CheckpointsReleased (s : St) : Prop := s.alive = false ∧ ∀ v ∈ s.vcreated, v ∈ s.vfreed

/-- every allocated `ClusterRef` is a member of `Router::clusterRefs` (nothing is unlinked without being
    freed), so the public list is the complete set of live clusters -/
def ClustersLinked (s : St) : Prop := ∀ k ∈ s.clusters, k.active = true

/-- after `~Router` no `ClusterRef` is left and every cluster id ever created has been freed -/
def ClustersReleased (s : St) : Prop := s.alive = false ∧ s.clusters = []

/-- the model saw no use-after-free and no internal assertion (the historic `reentry` /
    `ctorBeforeRegister` faults are never raised since the upstream repairs) -/
def NoFault (s : St) : Prop := s.faults = []

/-- no cluster boundary reference into a freed obstacle was ever read (`ReferencingPolygon::at` on the
    polygon of a deleted shape, geomtypes.cpp:199) -/
def NoDanglingClusterRef (s : St) : Prop := s.refFaults = []

/-- while the router lives, every obstacle a cluster boundary references is allocated and has no removal queued -/
def ClusterRefsValid (s : St) : Prop :=
  s.alive = true → ∀ k ∈ s.clusters, ∀ r ∈ k.refs,
    s.hasObst r = true ∧ s.hasAction .shapeRemove r = false ∧ s.hasAction .junctionRemove r = false

end AdaptaVerif.Spec.Lifecycle
