/-
Key records read by the comparators of adaptagrams that order `std::set`, `std::sort`,
`std::list::sort` and the VPSC pairing heap.  Each record holds exactly the values the C++
comparator reads from its operand (member reads and nullary accessor calls); heap addresses that a
comparator compares (`u < v` on pointers, `objPtr`) appear as an explicit `addr`/`ptr : Nat`, so a
theorem can say precisely when the order depends on allocation.  Doubles are `Rat` (finite, no NaN).
The comparators themselves are GENERATED from the C++ (Gen/Comparators.lean).  Core Lean only.
-/
import AdaptaVerif.Model.Geometry
namespace AdaptaVerif.Model.CmpKeys
export AdaptaVerif.Model.Geometry (Pt)

/-- `Avoid::ShapeConnectionPin` as seen by `operator<` (connectionpin.cpp) -/
structure PinKey where
  objId : Nat        -- containingObjectId()
  classId : Nat      -- m_class_id
  visDirs : Nat      -- m_visibility_directions
  xOff : Rat
  yOff : Rat
  insideOff : Rat
  router : Nat       -- m_router (address; only in the assertion)
  deriving Repr, DecidableEq, Inhabited

/-- `Avoid::ActionInfo` as seen by `operator<` (actioninfo.cpp) -/
structure ActKey where
  type : Nat         -- ActionType
  ptr : Nat          -- objPtr (address)
  connId : Nat       -- conn()->id()      (meaningful when type = ConnChange)
  obstId : Nat       -- obstacle()->id()  (meaningful for shape/junction actions)
  deriving Repr, DecidableEq, Inhabited

/-- `Avoid::VertID` as seen by `operator<` -/
structure VertIdKey where
  objID : Nat
  vn : Nat
  deriving Repr, DecidableEq, Inhabited

/-- `Avoid::LineSegment` (orthogonal.cpp) as seen by `operator<` -/
structure LineSegKey where
  begin_ : Rat
  pos : Rat
  finish : Rat
  shapeSide : Bool
  deriving Repr, DecidableEq, Inhabited

/-- `Avoid::VertInf*` as seen by `CmpVertInf` (orthogonal.cpp) -/
structure VertInfKey where
  px : Rat
  py : Rat
  addr : Nat
  deriving Repr, DecidableEq, Inhabited

/-- `vpsc::Node*` (rectangle.cpp) as seen by `CmpNodePos` -/
structure NodeKey where
  pos : Rat
  id : Nat           -- v->id
  addr : Nat
  deriving Repr, DecidableEq, Inhabited

/-- `vpsc::Constraint*` as seen by `CompareConstraints` (constraint.cpp) -/
structure ConKey where
  blockTs : Int      -- left->block->timeStamp
  ts : Int           -- timeStamp
  lblock : Nat       -- left->block  (address)
  rblock : Nat       -- right->block (address)
  slack : Rat        -- slack()
  lid : Int          -- left->id
  rid : Int          -- right->id
  deriving Repr, DecidableEq, Inhabited

/-- `cola::ShapePair` as seen by `operator<` -/
structure ShapePairKey where
  i1 : Nat
  i2 : Nat
  deriving Repr, DecidableEq, Inhabited

end AdaptaVerif.Model.CmpKeys
