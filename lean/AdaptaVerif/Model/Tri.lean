/-
Model of `topology::TriConstraint` (cola/libtopology/topology_constraints.{h,cpp}) and of the
"move phase" of `TopologyConstraints::solve()`.

C++ (topology_constraints.cpp):

    double TriConstraint::slack(ux, vx, wx) const {
        const double lhs = wx;
        const double rhs = ux+p*(vx-ux)+g;
        return leftOf ? rhs - lhs : lhs - rhs; }

    double TriConstraint::maxSafeAlpha() const {
        u1=u->initialPos, u2=u->finalPos, v1, v2, w1, w2, fSlack=slackAtFinal();
        if(fSlack>=0) return 1;
        double numerator=w1 - g - u1 + p*(u1-v1);
        double denominator=u2-u1 + p*(u1-u2 + v2-v1) + w1-w2;
        if(denominator==0) return 1;
        double msa = numerator/denominator;
        if(msa<0) { COLA_ASSERT(iSlack>=fSlack); msa = fSlack; }
        return msa; }

    solve():  minTAlpha=1; for t in ts: a=t->c->maxSafeAlpha(); if(a<minTAlpha){minTAlpha=a;minT=t;}
              if(minTAlpha>0) for v in nodes: v->rect->moveCentreD(dim, v->posOnLine(dim,minTAlpha));
    Node::posOnLine(alpha) = i + alpha*(finalPos()-i)   with i = initialPos

Member reads (`u->initialPos(scanDim)`, `u->finalPos()`, `p`, `g`, `leftOf`) are parameters; the
three `Node*` are indices into position vectors `Nat → Rat`.  Doubles are `Rat`.  Core Lean only.
-/
namespace AdaptaVerif.Model.Tri

/-- `TriConstraint::slack(ux,vx,wx)` with the members `p g leftOf` as parameters. -/
def slack (p g : Rat) (leftOf : Bool) (ux vx wx : Rat) : Rat :=
  let lhs := wx
  let rhs := ux + p * (vx - ux) + g
  if leftOf then rhs - lhs else lhs - rhs

/-- numerator of `maxSafeAlpha` exactly as written in the C++ -/
def msaNum (p g u1 v1 w1 : Rat) : Rat := w1 - g - u1 + p * (u1 - v1)

/-- denominator of `maxSafeAlpha` exactly as written in the C++ -/
def msaDen (p u1 u2 v1 v2 w1 w2 : Rat) : Rat := u2 - u1 + p * (u1 - u2 + v2 - v1) + w1 - w2

/-- `TriConstraint::maxSafeAlpha()`; index 1 = initial position, 2 = final position. -/
def maxSafeAlpha (p g : Rat) (leftOf : Bool) (u1 u2 v1 v2 w1 w2 : Rat) : Rat :=
  let fSlack := slack p g leftOf u2 v2 w2
  if fSlack ≥ 0 then 1
  else
    let numerator := msaNum p g u1 v1 w1
    let denominator := msaDen p u1 u2 v1 v2 w1 w2
    if denominator = 0 then 1
    else
      let msa := numerator / denominator
      if msa < 0 then fSlack else msa

/-- The `COLA_ASSERT(iSlack>=fSlack)` inside the `msa<0` branch: `true` iff the assertion is not
    reached or holds. (Kept as a separate observable, never dropped.) -/
def maxSafeAlphaAssertOk (p g : Rat) (leftOf : Bool) (u1 u2 v1 v2 w1 w2 : Rat) : Bool :=
  let fSlack := slack p g leftOf u2 v2 w2
  if fSlack ≥ 0 then true
  else
    let denominator := msaDen p u1 u2 v1 v2 w1 w2
    if denominator = 0 then true
    else if msaNum p g u1 v1 w1 / denominator < 0 then
      decide (slack p g leftOf u1 v1 w1 ≥ fSlack)
    else true

/-- which branch of `maxSafeAlpha` was taken (driver statistics) -/
inductive Branch where
  | finalFeasible | zeroDen | negative | root
  deriving Repr, BEq, DecidableEq, Inhabited

def maxSafeAlphaBranch (p g : Rat) (leftOf : Bool) (u1 u2 v1 v2 w1 w2 : Rat) : Branch :=
  if slack p g leftOf u2 v2 w2 ≥ 0 then .finalFeasible
  else if msaDen p u1 u2 v1 v2 w1 w2 = 0 then .zeroDen
  else if msaNum p g u1 v1 w1 / msaDen p u1 u2 v1 v2 w1 w2 < 0 then .negative
  else .root

/-! ### a system of constraints over shared node positions -/

/-- The struct `TriConstraint`: `u v w` are node indices. -/
structure TriConstraint where
  u : Nat
  v : Nat
  w : Nat
  p : Rat
  g : Rat
  leftOf : Bool
  deriving Repr, BEq, Inhabited

/-- positions of all nodes in the scan axis -/
abbrev Pos := Nat → Rat

def TriConstraint.slackAt (c : TriConstraint) (x : Pos) : Rat :=
  slack c.p c.g c.leftOf (x c.u) (x c.v) (x c.w)

/-- `slackAtInitial` / `slackAtFinal` are `slackAt ini` / `slackAt fin`. -/
def TriConstraint.msa (c : TriConstraint) (ini fin : Pos) : Rat :=
  maxSafeAlpha c.p c.g c.leftOf (ini c.u) (fin c.u) (ini c.v) (fin c.v) (ini c.w) (fin c.w)

/-- `Node::posOnLine` for every node -/
def posOnLine (ini fin : Pos) (α : Rat) : Pos := fun i => ini i + α * (fin i - ini i)

/-- the loop `minTAlpha=1; for t: if(tAlpha<minTAlpha) minTAlpha=tAlpha` of `solve()` -/
def minAlphaFrom (m : Rat) (cs : List TriConstraint) (ini fin : Pos) : Rat :=
  match cs with
  | [] => m
  | c :: rest =>
    let a := c.msa ini fin
    minAlphaFrom (if a < m then a else m) rest ini fin

def minAlpha (cs : List TriConstraint) (ini fin : Pos) : Rat := minAlphaFrom 1 cs ini fin

/-- positions after the move phase of `solve()`: `if(minTAlpha>0)` every node goes to
    `posOnLine(minTAlpha)`, otherwise nothing moves. -/
def moveStep (cs : List TriConstraint) (ini fin : Pos) : Pos :=
  let a := minAlpha cs ini fin
  if a > 0 then posOnLine ini fin a else ini

end AdaptaVerif.Model.Tri
