/-
C20 — frames.  Core Lean only (linked into driver_c20).

* the eight symmetries of the square (`Sym`) and translations, packaged as `Frame`
  (`p ↦ S p + t`), acting on points, routes (`List Pt`), rectangles and scenes;
* route cost functions over `Rat`: Manhattan length, the list of squared Euclidean leg lengths
  (the Euclidean length itself is irrational; the list of squared leg lengths determines it),
  the bend count exactly as `cost()` in cola/libavoid/makepath.cpp charges `segmentPenalty`
  (0 for a straight continuation or a repeated point, 1 for a real bend, 2 for doubling back);
* obstacle-freeness of a route among axis-parallel rectangles (no point of a leg strictly inside);
* a small VPSC problem type (desired, weight, constraints `(l, r, gap)` meaning
  `x l + gap ≤ x r`) with `cost`, `Feasible`, `IsOptimum`, `shift`, `permute`;
* the scan-line comparator of libvpsc (`CmpNodePos`, cola/libvpsc/rectangle.cpp:154-164):
  key = (centre position, tie rank) where the tie rank stands for the heap address `u < v`.
-/
import AdaptaVerif.Model.Geometry
namespace AdaptaVerif.Model.Frame
open AdaptaVerif.Model.Geometry

/-! ## the eight symmetries of the square -/

inductive Sym where
  | id | rot90 | rot180 | rot270 | flipX | flipY | diag | anti
  deriving DecidableEq, Repr, Inhabited

namespace Sym

def all : List Sym := [id, rot90, rot180, rot270, flipX, flipY, diag, anti]

/-- index used on the harness/driver line protocol -/
def ofIdx : Nat → Sym
  | 0 => id | 1 => rot90 | 2 => rot180 | 3 => rot270
  | 4 => flipX | 5 => flipY | 6 => diag | _ => anti

def apply : Sym → Pt → Pt
  | id, p => ⟨p.x, p.y⟩
  | rot90, p => ⟨-p.y, p.x⟩
  | rot180, p => ⟨-p.x, -p.y⟩
  | rot270, p => ⟨p.y, -p.x⟩
  | flipX, p => ⟨-p.x, p.y⟩
  | flipY, p => ⟨p.x, -p.y⟩
  | diag, p => ⟨p.y, p.x⟩
  | anti, p => ⟨-p.y, -p.x⟩

/-- determinant of the matrix: +1 for the rotations, −1 for the reflections -/
def det : Sym → Int
  | id => 1 | rot90 => 1 | rot180 => 1 | rot270 => 1
  | flipX => -1 | flipY => -1 | diag => -1 | anti => -1

def inv : Sym → Sym
  | rot90 => rot270
  | rot270 => rot90
  | s => s

/-- does the symmetry exchange the x and y axes? -/
def swapsAxes : Sym → Bool
  | rot90 => true | rot270 => true | diag => true | anti => true
  | _ => false

end Sym

/-- `p ↦ S p + t` -/
structure Frame where
  sym : Sym
  t : Pt
  deriving Repr, Inhabited

namespace Frame

def act (F : Frame) (p : Pt) : Pt :=
  let q := F.sym.apply p
  ⟨q.x + F.t.x, q.y + F.t.y⟩

/-- the pure translation by `t` -/
def translation (t : Pt) : Frame := ⟨Sym.id, t⟩
/-- the pure symmetry `S` -/
def ofSym (S : Sym) : Frame := ⟨S, ⟨0, 0⟩⟩

/-- inverse map: `q ↦ S⁻¹ q − S⁻¹ t` -/
def inv (F : Frame) : Frame :=
  let u := F.sym.inv.apply F.t
  ⟨F.sym.inv, ⟨-u.x, -u.y⟩⟩

def det (F : Frame) : Int := F.sym.det

end Frame

/-! ## routes and their costs -/

abbrev Route := List Pt

def Frame.actRoute (F : Frame) (r : Route) : Route := r.map F.act

/-- consecutive pairs of a route -/
def legs : Route → List (Pt × Pt)
  | a :: b :: rest => (a, b) :: legs (b :: rest)
  | _ => []

def manhattanLen : Route → Rat
  | a :: b :: rest => manhattanDist a b + manhattanLen (b :: rest)
  | _ => 0

def sqDist (a b : Pt) : Rat := (a.x - b.x) * (a.x - b.x) + (a.y - b.y) * (a.y - b.y)

/-- squared Euclidean lengths of the legs, in route order -/
def sqLens : Route → List Rat
  | a :: b :: rest => sqDist a b :: sqLens (b :: rest)
  | _ => []

/-- cross and dot product of the two legs meeting at `b` (vectors `a − b` and `c − b`, as in
    `angleBetween` of makepath.cpp) -/
def crossAt (a b c : Pt) : Rat := (a.x - b.x) * (c.y - b.y) - (a.y - b.y) * (c.x - b.x)
def dotAt (a b c : Pt) : Rat := (a.x - b.x) * (c.x - b.x) + (a.y - b.y) * (c.y - b.y)

/-- how many `segmentPenalty`s `cost()` charges at the vertex `b` of `… a b c …`:
    repeated point or straight on (angle π) → 0; doubling back (angle 0) → 2; otherwise 1 -/
def bendWeight (a b c : Pt) : Nat :=
  if a = b ∨ b = c then 0
  else if crossAt a b c ≠ 0 then 1
  else if 0 < dotAt a b c then 2 else 0

def bends : Route → Nat
  | a :: b :: c :: rest => bendWeight a b c + bends (b :: c :: rest)
  | _ => 0

/-- `length + penalty · bends` with the Manhattan length: the quantity minimised for orthogonal
    connectors (orthogonal legs have Euclidean length = Manhattan length) -/
def orthCost (penalty : Rat) (r : Route) : Rat := manhattanLen r + penalty * (bends r : Nat)

/-- every leg is axis-parallel -/
def isOrth : Route → Bool
  | a :: b :: rest => (decide (a.x = b.x) || decide (a.y = b.y)) && isOrth (b :: rest)
  | _ => true

/-! ## rectangles, scenes, obstacle-free routes -/

/-- an axis-parallel rectangle given by two opposite corners (in any order) -/
structure Rect where
  a : Pt
  b : Pt
  deriving Repr, Inhabited, DecidableEq

/-- `p` strictly inside the rectangle -/
def Rect.inside (R : Rect) (p : Pt) : Bool :=
  strictBetween R.a.x R.b.x p.x && strictBetween R.a.y R.b.y p.y

def Frame.actRect (F : Frame) (R : Rect) : Rect := ⟨F.act R.a, F.act R.b⟩

abbrev Scene := List Rect

def Frame.actScene (F : Frame) (sc : Scene) : Scene := sc.map F.actRect

/-- the point `p + t (q − p)` -/
def lerp (p q : Pt) (t : Rat) : Pt := ⟨p.x + t * (q.x - p.x), p.y + t * (q.y - p.y)⟩

/-- no point of the closed leg `pq` is strictly inside `R` -/
def LegAvoids (R : Rect) (p q : Pt) : Prop :=
  ∀ t : Rat, 0 ≤ t → t ≤ 1 → R.inside (lerp p q t) = false

/-- a route from `src` to `dst` none of whose legs enters a rectangle of the scene -/
def RouteValid (sc : Scene) (src dst : Pt) (r : Route) : Prop :=
  r.head? = some src ∧ r.getLast? = some dst ∧
  ∀ l ∈ legs r, ∀ R ∈ sc, LegAvoids R l.1 l.2

/-- … and every leg axis-parallel -/
def OrthRouteValid (sc : Scene) (src dst : Pt) (r : Route) : Prop :=
  RouteValid sc src dst r ∧ isOrth r = true

/-- `c` is the least cost of a valid orthogonal route (attained) -/
def IsOptOrthCost (penalty : Rat) (sc : Scene) (src dst : Pt) (c : Rat) : Prop :=
  (∃ r, OrthRouteValid sc src dst r ∧ orthCost penalty r = c) ∧
  ∀ r, OrthRouteValid sc src dst r → c ≤ orthCost penalty r

/-- executable test used by the driver for diagnostics: does the closed leg `pq` contain a point
    strictly inside `R`?  (open interval of parameters cut out by the two slabs, met with [0,1]) -/
def slab (lo hi p d : Rat) : Option (Rat × Rat) :=
  -- parameters t with lo < p + t d < hi ; `none` = no t, `some (a, b)` = open interval (a, b);
  -- for d = 0 and p inside the slab every t qualifies: encoded as (-1, 2) ⊇ [0,1]
  if d = 0 then (if lo < p ∧ p < hi then some (-1, 2) else none)
  else if 0 < d then some ((lo - p) / d, (hi - p) / d)
  else some ((hi - p) / d, (lo - p) / d)

def minR (a b : Rat) : Rat := if a ≤ b then a else b
def maxR (a b : Rat) : Rat := if a ≤ b then b else a

def legHits (R : Rect) (p q : Pt) : Bool :=
  match slab (minR R.a.x R.b.x) (maxR R.a.x R.b.x) p.x (q.x - p.x),
        slab (minR R.a.y R.b.y) (maxR R.a.y R.b.y) p.y (q.y - p.y) with
  | some (a1, b1), some (a2, b2) =>
    let lo := maxR a1 a2
    let hi := minR b1 b2
    decide (lo < hi) && decide (lo < 1) && decide (0 < hi)
  | _, _ => false

def routeHits (sc : Scene) (r : Route) : Bool :=
  (legs r).any (fun l => sc.any (fun R => legHits R l.1 l.2))

/-! ## VPSC problems -/

/-- `sumTo n f = f 0 + … + f (n-1)` -/
def sumTo : Nat → (Nat → Rat) → Rat
  | 0, _ => 0
  | n + 1, f => sumTo n f + f n

/-- separation constraint `x l + gap ≤ x r` -/
structure VCon where
  l : Nat
  r : Nat
  gap : Rat
  deriving Repr, DecidableEq, Inhabited

structure VProblem where
  n : Nat
  desired : Nat → Rat
  weight : Nat → Rat
  cons : List VCon

def VCon.Holds (c : VCon) (x : Nat → Rat) : Prop := x c.l + c.gap ≤ x c.r

instance (c : VCon) (x : Nat → Rat) : Decidable (c.Holds x) := by unfold VCon.Holds; infer_instance

namespace VProblem

def Feasible (P : VProblem) (x : Nat → Rat) : Prop := ∀ c ∈ P.cons, c.Holds x

/-- `Σ_{i<n} w_i (x_i − d_i)²` -/
def cost (P : VProblem) (x : Nat → Rat) : Rat :=
  sumTo P.n (fun i => P.weight i * ((x i - P.desired i) * (x i - P.desired i)))

def IsOptimum (P : VProblem) (x : Nat → Rat) : Prop :=
  P.Feasible x ∧ ∀ y, P.Feasible y → P.cost x ≤ P.cost y

/-- weights positive, constraints mention variables `< n` only -/
def WF (P : VProblem) : Prop :=
  (∀ i, i < P.n → 0 < P.weight i) ∧ ∀ c ∈ P.cons, c.l < P.n ∧ c.r < P.n

/-- every desired position moved by `t` -/
def shift (P : VProblem) (t : Rat) : VProblem := { P with desired := fun i => P.desired i + t }

end VProblem

def VCon.rename (σ : Nat → Nat) (c : VCon) : VCon := { c with l := σ c.l, r := σ c.r }

/-- `σ` is a permutation of `{0,…,n-1}` with inverse `τ` -/
def IsPerm (n : Nat) (σ τ : Nat → Nat) : Prop :=
  (∀ i, i < n → σ i < n ∧ τ (σ i) = i) ∧ (∀ j, j < n → τ j < n ∧ σ (τ j) = j)

/-- variable `i` renamed to `σ i` (`τ` = inverse of `σ`), with constraint list `cons'` -/
def VProblem.permute (P : VProblem) (τ : Nat → Nat) (cons' : List VCon) : VProblem :=
  { n := P.n, desired := fun j => P.desired (τ j), weight := fun j => P.weight (τ j), cons := cons' }

/-- executable feasibility with slack tolerance (driver) -/
def feasibleTol (cons : List VCon) (x : Nat → Rat) (tol : Rat) : Bool :=
  cons.all (fun c => x c.l + c.gap ≤ x c.r + tol)

/-! ## the scan-line comparator of libvpsc -/

/-- `CmpNodePos`: by centre position, ties broken by `rank` (= the heap address of the Node) -/
def keyLt (pos : Nat → Rat) (rank : Nat → Nat) (u v : Nat) : Bool :=
  if pos u < pos v then true
  else if pos v < pos u then false
  else rank u < rank v

/-- `scanline.insert(v)` into a list kept sorted by `lt` -/
def insertSorted (lt : Nat → Nat → Bool) (v : Nat) : List Nat → List Nat
  | [] => [v]
  | x :: xs => if lt v x then v :: x :: xs else x :: insertSorted lt v xs

/-- scan-line operation: `true` = Open (insert), `false` = Close (erase) -/
abbrev ScanOp := Bool × Nat

def scanStep (lt : Nat → Nat → Bool) (S : List Nat) (op : ScanOp) : List Nat :=
  if op.1 then insertSorted lt op.2 S else S.filter (· != op.2)

/-- neighbours of `v` in the scan line: the nodes that compare less (nearest first) and greater -/
def before (lt : Nat → Nat → Bool) (S : List Nat) (v : Nat) : List Nat := (S.filter (fun u => lt u v)).reverse
def after (lt : Nat → Nat → Bool) (S : List Nat) (v : Nat) : List Nat := S.filter (fun u => lt v u)

/-- the trace of a sweep: after every operation, the scan line and the neighbour lists of the node
    just touched (everything `generateXConstraints`/`generateYConstraints` read from the set) -/
def scanTrace (lt : Nat → Nat → Bool) : List Nat → List ScanOp → List (List Nat × List Nat × List Nat)
  | _, [] => []
  | S, op :: ops =>
    let S' := scanStep lt S op
    (S', before lt S' op.2, after lt S' op.2) :: scanTrace lt S' ops

end AdaptaVerif.Model.Frame
