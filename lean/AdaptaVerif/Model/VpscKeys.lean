/-
Records read by the arithmetic kernels of libvpsc (`Variable::position/dfdv`, `Constraint::slack`,
`PositionStats::addVariable`): field names are the C++ member names; what a kernel reads through a
pointer chain (`block->ps.scale`, `block->posn`) is a field of the record.  The kernels themselves
are GENERATED from the C++ (Gen/VpscK.lean).  Core Lean only.
-/
namespace AdaptaVerif.Model.VpscKeys

/-- `vpsc::Variable` as seen by `position()`, `unscaledPosition()`, `dfdv()` -/
structure VarK where
  desiredPosition : Rat
  weight : Rat
  scale : Rat
  offset : Rat
  /-- `block->ps.scale` -/
  bScale : Rat
  /-- `block->posn` -/
  bPosn : Rat
  deriving Repr, DecidableEq, Inhabited

/-- `vpsc::Constraint` as seen by `slack()` -/
structure ConK where
  left : VarK
  right : VarK
  gap : Rat
  unsatisfiable : Bool
  needsScaling : Bool
  deriving Repr, DecidableEq, Inhabited

/-- `vpsc::PositionStats` -/
structure PosStats where
  scale : Rat
  AB : Rat
  AD : Rat
  A2 : Rat
  deriving Repr, DecidableEq, Inhabited

end AdaptaVerif.Model.VpscKeys
