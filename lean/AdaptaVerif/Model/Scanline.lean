/-
Model of the scan-line constraint generators of libvpsc (cola/libvpsc/rectangle.cpp):
`generateXConstraints` (with and without neighbour lists) and `generateYConstraints`.
Core Lean only (linked into the driver).

Correspondence with the C++:
* `Rect` + border parameters  = `vpsc::Rectangle` with the process-global `xBorder/yBorder`
  (the getters add the border: `getMinX = minX - xBorder` …).
* `Axis`  = what one sweep reads of node `i`: position of its Open / Close event, the scan-line
  position `Node::pos` (centre in the constraint dimension) and its length in that dimension.
* `Ev`    = `Event{type,v}`; the position is a function of (type, node), so it is not stored.
  `compare_events` puts Open before Close at equal positions and is *inconsistent* for two
  events of the same type at the same position (it answers "less" both ways), so the order
  qsort leaves such events in is unspecified.  The model therefore takes the sorted event list
  as a PARAMETER constrained by `validOrder`; `sortEvents` is one valid order (used by the driver
  for the tie-free comparison).
* the scan line `std::set<Node*,CmpNodePos>` is a list kept strictly sorted by
  `keyLt` = (pos, rank) lexicographic; `CmpNodePos` falls back to the heap address `u < v`, which
  is the PARAMETER `rank`.  Iterating from `find(v)` backwards / forwards visits exactly the
  elements that compare less / greater, nearest first: `before` / `after`.
* `scanPtr` = the firstAbove/firstBelow bookkeeping (generateYConstraints and
  generateXConstraints with useNeighbourLists=false), `scanNL` = the neighbour-set bookkeeping
  (useNeighbourLists=true, getLeftNeighbours/getRightNeighbours/setNeighbours).
-/
namespace AdaptaVerif.Model.Scanline

structure Rect where
  minX : Rat
  maxX : Rat
  minY : Rat
  maxY : Rat
  deriving Repr, BEq, Inhabited, DecidableEq

namespace Rect
/-- getters: the border is added by the getter (rectangle.h:105-108) -/
def getMinX (r : Rect) (bx : Rat) : Rat := r.minX - bx
def getMaxX (r : Rect) (bx : Rat) : Rat := r.maxX + bx
def getMinY (r : Rect) (b : Rat) : Rat := r.minY - b
def getMaxY (r : Rect) (b : Rat) : Rat := r.maxY + b
def width (r : Rect) (bx : Rat) : Rat := r.getMaxX bx - r.getMinX bx
def height (r : Rect) (b : Rat) : Rat := r.getMaxY b - r.getMinY b
def centreX (r : Rect) (bx : Rat) : Rat := r.getMinX bx + r.width bx / 2
def centreY (r : Rect) (b : Rat) : Rat := r.getMinY b + r.height b / 2

/-- `Rectangle::moveMinX` (exact arithmetic) -/
def moveMinX (r : Rect) (bx x : Rat) : Rect :=
  let w := r.width bx
  { r with minX := x + bx, maxX := x + w - bx }
def moveMinY (r : Rect) (b y : Rat) : Rect :=
  let h := r.height b
  { r with maxY := y + h - b, minY := y + b }
def moveCentreX (r : Rect) (bx x : Rat) : Rect := r.moveMinX bx (x - r.width bx / 2)
def moveCentreY (r : Rect) (b y : Rat) : Rect := r.moveMinY b (y - r.height b / 2)

/-- `u->overlapX(v)` (rectangle.h:182) -/
def overlapX (u v : Rect) (bx : Rat) : Rat :=
  let ux := u.centreX bx
  let vx := v.centreX bx
  if ux ≤ vx ∧ v.getMinX bx < u.getMaxX bx then u.getMaxX bx - v.getMinX bx
  else if vx ≤ ux ∧ u.getMinX bx < v.getMaxX bx then v.getMaxX bx - u.getMinX bx
  else 0
def overlapY (u v : Rect) (b : Rat) : Rat :=
  let uy := u.centreY b
  let vy := v.centreY b
  if uy ≤ vy ∧ v.getMinY b < u.getMaxY b then u.getMaxY b - v.getMinY b
  else if vy ≤ uy ∧ u.getMinY b < v.getMaxY b then v.getMaxY b - u.getMinY b
  else 0
end Rect

/-- a separation constraint `left + gap ≤ right` between variables (= rectangle indices) -/
structure Con where
  l : Nat
  r : Nat
  gap : Rat
  deriving Repr, BEq, Inhabited, DecidableEq

/-- What one sweep sees of node `i`. -/
structure Axis where
  /-- position of the Open event -/
  opn : Nat → Rat
  /-- position of the Close event -/
  cls : Nat → Rat
  /-- `Node::pos`: centre in the constraint dimension -/
  ctr : Nat → Rat
  /-- length in the constraint dimension (width for x, height for y) -/
  sz : Nat → Rat
  /-- `u->r->overlapX(v->r)` in the constraint dimension (only used with neighbour lists) -/
  ovC : Nat → Nat → Rat
  /-- overlap in the sweep dimension (only used with neighbour lists) -/
  ovS : Nat → Nat → Rat

def rectAt (rs : Array Rect) (i : Nat) : Rect := rs.getD i default

/-- generateYConstraints: sweep along x, constraints in y -/
def yAxis (rs : Array Rect) (bx b : Rat) : Axis where
  opn i := (rectAt rs i).getMinX bx
  cls i := (rectAt rs i).getMaxX bx
  ctr i := (rectAt rs i).centreY b
  sz i := (rectAt rs i).height b
  ovC u v := (rectAt rs u).overlapY (rectAt rs v) b
  ovS u v := (rectAt rs u).overlapX (rectAt rs v) bx

/-- generateXConstraints: sweep along y, constraints in x -/
def xAxis (rs : Array Rect) (bx b : Rat) : Axis where
  opn i := (rectAt rs i).getMinY b
  cls i := (rectAt rs i).getMaxY b
  ctr i := (rectAt rs i).centreX bx
  sz i := (rectAt rs i).width bx
  ovC u v := (rectAt rs u).overlapX (rectAt rs v) bx
  ovS u v := (rectAt rs u).overlapY (rectAt rs v) b

/-! ### events -/

structure Ev where
  close : Bool
  id : Nat
  deriving Repr, BEq, Inhabited, DecidableEq

def Ev.pos (ax : Axis) (e : Ev) : Rat := if e.close then ax.cls e.id else ax.opn e.id

/-- the events in creation order: Open 0, Close 0, Open 1, Close 1 … (rectangle.cpp:239-244) -/
def allEvents (n : Nat) : List Ev :=
  (List.range n).flatMap (fun i => [⟨false, i⟩, ⟨true, i⟩])

/-- `a` may stand before `b` in a sorted event array: smaller position, or equal position and
    not (Close before Open).  This is all that `compare_events` guarantees. -/
def evLe (ax : Axis) (a b : Ev) : Bool :=
  a.pos ax < b.pos ax || (a.pos ax == b.pos ax && !(a.close && !b.close))

def pairwiseB {α} (R : α → α → Bool) : List α → Bool
  | [] => true
  | a :: l => l.all (R a) && pairwiseB R l

/-- executable form of "evs is a possible result of the qsort": a permutation of all events
    (checked as: same length, no duplicates, all members) that respects `evLe` -/
def validOrder (ax : Axis) (n : Nat) (evs : List Ev) : Bool :=
  evs.length == 2 * n && pairwiseB (fun a b => a != b) evs
    && evs.all (fun e => e.id < n) && pairwiseB (evLe ax) evs

/-- stable insertion sort by (position, Open<Close): one valid order -/
def insertEv (ax : Axis) (e : Ev) : List Ev → List Ev
  | [] => [e]
  | x :: xs =>
    if e.pos ax < x.pos ax || (e.pos ax == x.pos ax && !e.close && x.close) then e :: x :: xs
    else x :: insertEv ax e xs

def sortEvents (ax : Axis) (n : Nat) : List Ev :=
  (allEvents n).foldr (insertEv ax) []

/-! ### scan line -/

/-- `CmpNodePos`: by `pos`, then by heap address (`rank`) -/
def keyLt (ax : Axis) (rank : Nat → Nat) (u v : Nat) : Bool :=
  ax.ctr u < ax.ctr v || (ax.ctr u == ax.ctr v && rank u < rank v)

/-- `scanline.insert(v)` -/
def insertSorted (lt : Nat → Nat → Bool) (v : Nat) : List Nat → List Nat
  | [] => [v]
  | x :: xs => if lt v x then v :: x :: xs else x :: insertSorted lt v xs

/-- `scanline.erase(v)` -/
def eraseNode (v : Nat) (S : List Nat) : List Nat := S.filter (· != v)

/-- nodes visited by `--it` from `find(v)`: the smaller ones, nearest first -/
def before (lt : Nat → Nat → Bool) (S : List Nat) (v : Nat) : List Nat :=
  (S.filter (fun u => lt u v)).reverse
/-- nodes visited by `++it` from `find(v)`: the larger ones, nearest first -/
def after (lt : Nat → Nat → Bool) (S : List Nat) (v : Nat) : List Nat :=
  S.filter (fun u => lt v u)

def prevIn (lt : Nat → Nat → Bool) (S : List Nat) (v : Nat) : Option Nat := (before lt S v).head?
def nextIn (lt : Nat → Nat → Bool) (S : List Nat) (v : Nat) : Option Nat := (after lt S v).head?

/-- pointer-valued field of the nodes: `firstAbove`, `firstBelow` -/
abbrev PMap := Nat → Option Nat
def PMap.set (m : PMap) (k : Nat) (x : Option Nat) : PMap := fun i => if i = k then x else m i
def PMap.empty : PMap := fun _ => none

/-- `sep = (v->r->length()+u->r->length())/2.0` -/
def gapOf (ax : Axis) (u v : Nat) : Rat := (ax.sz v + ax.sz u) / 2

/-- The sweep with firstAbove/firstBelow bookkeeping (rectangle.cpp:346-385 and the
    `!useNeighbourLists` branches of 248-313).  `S` scan line, `ab`/`be` = firstAbove/firstBelow.
    Open v : insert; link v with its predecessor and successor in the scan line.
    Close v: emit (firstAbove,v) and (v,firstBelow); `l->firstBelow=v->firstBelow`,
             `r->firstAbove=v->firstAbove`; erase. -/
def scanPtr (ax : Axis) (lt : Nat → Nat → Bool) : List Ev → List Nat → PMap → PMap → List Con
  | [], _, _, _ => []
  | ⟨false, v⟩ :: es, S, ab, be =>
    let S' := insertSorted lt v S
    let p := prevIn lt S' v
    let n := nextIn lt S' v
    -- a fresh Node has firstAbove = firstBelow = nullptr
    let ab1 := ab.set v p
    let be1 := match p with
      | some u => be.set u (some v)
      | none => be
    let be2 := be1.set v n
    let ab2 := match n with
      | some u => ab1.set u (some v)
      | none => ab1
    scanPtr ax lt es S' ab2 be2
  | ⟨true, v⟩ :: es, S, ab, be =>
    let l := ab v
    let r := be v
    let c1 := match l with
      | some l => [Con.mk l v (gapOf ax l v)]
      | none => []
    let be' := match l with
      | some l => be.set l (be v)
      | none => be
    let c2 := match r with
      | some r => [Con.mk v r (gapOf ax r v)]
      | none => []
    let ab' := match r with
      | some r => ab.set r (ab v)
      | none => ab
    c1 ++ c2 ++ scanPtr ax lt es (eraseNode v S) ab' be'

/-- Variant that recomputes the neighbours from the sorted scan line at Close time
    (no pointer fields).  `Lemmas/Scanline` proves it equal to `scanPtr` on valid input. -/
def scanAdj (ax : Axis) (lt : Nat → Nat → Bool) : List Ev → List Nat → List Con
  | [], _ => []
  | ⟨false, v⟩ :: es, S => scanAdj ax lt es (insertSorted lt v S)
  | ⟨true, v⟩ :: es, S =>
    let c1 := match prevIn lt S v with
      | some l => [Con.mk l v (gapOf ax l v)]
      | none => []
    let c2 := match nextIn lt S v with
      | some r => [Con.mk v r (gapOf ax r v)]
      | none => []
    c1 ++ c2 ++ scanAdj ax lt es (eraseNode v S)

/-! ### neighbour lists -/

/-- loop body shared by getLeftNeighbours / getRightNeighbours (rectangle.cpp:166-195):
    stop (inclusive) at the first node without overlap in the constraint dimension; otherwise
    keep `u` when overlapC ≤ overlapS. -/
def nbrScan (ax : Axis) (v : Nat) : List Nat → List Nat
  | [] => []
  | u :: rest =>
    if ax.ovC u v ≤ 0 then [u]
    else if ax.ovC u v ≤ ax.ovS u v then u :: nbrScan ax v rest
    else nbrScan ax v rest

def leftNbrs (ax : Axis) (lt : Nat → Nat → Bool) (S : List Nat) (v : Nat) : List Nat :=
  nbrScan ax v (before lt S v)
def rightNbrs (ax : Axis) (lt : Nat → Nat → Bool) (S : List Nat) (v : Nat) : List Nat :=
  nbrScan ax v (after lt S v)

/-- set-valued field of the nodes: `leftNeighbours`, `rightNeighbours` -/
abbrev SMap := Nat → List Nat
def SMap.set (m : SMap) (k : Nat) (x : List Nat) : SMap := fun i => if i = k then x else m i
def SMap.empty : SMap := fun _ => []
/-- `u->addXNeighbour(v)` for every `u` in `us` -/
def SMap.addAll (m : SMap) (us : List Nat) (v : Nat) : SMap :=
  fun i => if us.contains i then v :: m i else m i
/-- `u->xNeighbours->erase(v)` for every `u` in `us` -/
def SMap.eraseAll (m : SMap) (us : List Nat) (v : Nat) : SMap :=
  fun i => if us.contains i then (m i).filter (· != v) else m i

/-- The sweep with neighbour sets (useNeighbourLists = true, rectangle.cpp:253-257, 275-294). -/
def scanNL (ax : Axis) (lt : Nat → Nat → Bool) : List Ev → List Nat → SMap → SMap → List Con
  | [], _, _, _ => []
  | ⟨false, v⟩ :: es, S, ln, rn =>
    let S' := insertSorted lt v S
    let L := leftNbrs ax lt S' v
    let R := rightNbrs ax lt S' v
    -- setNeighbours(left,right): own sets, then register with every neighbour
    let ln1 := (ln.set v L).addAll R v
    let rn1 := (rn.set v R).addAll L v
    scanNL ax lt es S' ln1 rn1
  | ⟨true, v⟩ :: es, S, ln, rn =>
    let c1 := (ln v).map (fun u => Con.mk u v (gapOf ax u v))
    let rn' := rn.eraseAll (ln v) v
    let c2 := (rn v).map (fun u => Con.mk v u (gapOf ax u v))
    let ln' := ln.eraseAll (rn v) v
    c1 ++ c2 ++ scanNL ax lt es (eraseNode v S) ln' rn'

/-! ### the three generators -/

def generateYConstraints (rs : Array Rect) (bx b : Rat) (rank : Nat → Nat) (evs : List Ev) : List Con :=
  let ax := yAxis rs bx b
  scanPtr ax (keyLt ax rank) evs [] PMap.empty PMap.empty

def generateXConstraints (rs : Array Rect) (bx b : Rat) (rank : Nat → Nat) (evs : List Ev)
    (useNeighbourLists : Bool) : List Con :=
  let ax := xAxis rs bx b
  if useNeighbourLists then scanNL ax (keyLt ax rank) evs [] SMap.empty SMap.empty
  else scanPtr ax (keyLt ax rank) evs [] PMap.empty PMap.empty

/-- all scan-line keys distinct and no two events of the kind whose relative order can change
    the emitted multiset share a position: then the C++ result does not depend on heap
    addresses or on qsort's treatment of the inconsistent comparator. -/
def distinctB (xs : List Rat) : Bool := pairwiseB (fun a b => a != b) xs

def tieFree (ax : Axis) (n : Nat) (useNeighbourLists : Bool) : Bool :=
  let ids := List.range n
  distinctB (ids.map ax.ctr) &&
    (if useNeighbourLists then distinctB (ids.map ax.opn) else distinctB (ids.map ax.cls))

/-- Since CmpNodePos breaks ties between equal centres by variable id (rank := id, ids distinct),
    equal centres no longer make the result address dependent.  What remains unspecified is the
    order qsort leaves same-type events at one position in; it can change the emitted multiset
    only through two Closes (pointer sweeps) / two Opens (neighbour-list sweep) at one position. -/
def orderFree (ax : Axis) (n : Nat) (useNeighbourLists : Bool) : Bool :=
  let ids := List.range n
  if useNeighbourLists then distinctB (ids.map ax.opn) else distinctB (ids.map ax.cls)

end AdaptaVerif.Model.Scanline
