/-
Model of the constraint generation of `topology::TopologyConstraints`
(cola/libtopology/topology_constraints_constructor.cpp) and of the two rewrites `solve()` applies
when a constraint becomes tight (cola/libtopology/topology_constraints.cpp, topology_graph.cpp).

(a) the constructor's plane scan for one axis `d` (0 = XDIM: scan lines are horizontal, the scan
    position is a y coordinate; 1 = YDIM):

      events   NodeOpen(v)  at v.rect.getMinD(conj d)      NodeClose(v) at getMaxD(conj d)
               SegmentOpen(s) at min of the end points' conj coordinate, SegmentClose(s) at the max;
               NO events for segments with equal conj coordinates at both ends (parallel to the scan line)
      order    by pos; at equal pos (CompareEvents): NodeClose < SegmentOpen < SegmentClose < NodeOpen;
               events of the same kind at the same pos are not ordered by the comparator (std::sort
               decides) - the model takes that order as a parameter (`tb`, a tie-break number per event)
      process  NodeOpen : insert into openNodes (std::map keyed by the centre in d), neighbours =
                          predecessor / successor in the map, createStraightConstraints
               NodeClose: neighbours, erase, createStraightConstraints
               SegmentOpen / SegmentClose: push_back to / erase from the list openSegments
      createStraightConstraints(node, pos, L, R): for every open segment s
               skip if s is attached to node's CENTRE
               x = s->forwardIntersection(d, pos)
               skip if (x < centre(L) && L.min' < pos < L.max') || (x > centre(R) && R.min' < pos < R.max')
                    -- "not visible": blind to the fact that L / R may be the segment's own end node
               s->createStraightConstraint(d, node, pos)
      Segment::createStraightConstraint: nodeLeft = centre(node) < x, ri = the corner of `node` on the
               scan line facing the segment, nothing if that corner is already the segment's start / end
               bend, else StraightConstraint(s, node, ri, pos, p, nodeLeft) with
               TriConstraint(u = start node, v = end node, w = node, p, g, leftOf = nodeLeft),
               g = off(u) + p (off(v) - off(u)) minus (nodeLeft) or plus len(node)/2
      BendConstraint for every interior EdgePoint unless both incident segments are parallel to the
               scan line (`EdgePoint::createBendConstraint`)

    `scan` is that state machine over the sorted event list; `consAtOpen` / `consAtClose` is its
    closed form per node event (which segments / nodes are open when the event is processed, written
    as filters over the scene); Lemmas/TopoConsScan proves the two equal.

(b) `bendSatisfy` = `BendConstraint::satisfy()` (EdgePoint::prune + the replacing StraightConstraint),
    `straightSatisfy` = `StraightConstraint::satisfy()` (split, transferStraightConstraintChoose), as
    pure functions on an edge = list of EdgePoints + one StraightConstraint list per segment.

EdgePoints carry their node (id + rectangle) like the C++ `Node*`.  `ri`: TR=0 BR=1 BL=2 TL=3 CENTRE=4.
Open paths only (cluster boundary cycles are not modelled).  Doubles are `Rat`.  Core Lean only.
-/
import AdaptaVerif.Model.TopoTransfer
namespace AdaptaVerif.Model.TopoCons
open AdaptaVerif.Model.TopoTransfer

/-- `vpsc::Rectangle` through getMinX/getMaxX/getMinY/getMaxY (borders are 0 in libtopology) -/
structure Rect where
  minX : Rat
  maxX : Rat
  minY : Rat
  maxY : Rat
  deriving Repr, DecidableEq, Inhabited

/-- `vpsc::conjugate` -/
def conj (d : Nat) : Nat := if d = 0 then 1 else 0

/-- `getMinD(d)` -/
def Rect.lo (r : Rect) (d : Nat) : Rat := if d = 0 then r.minX else r.minY
/-- `getMaxD(d)` -/
def Rect.hi (r : Rect) (d : Nat) : Rat := if d = 0 then r.maxX else r.maxY
/-- `length(d)` -/
def Rect.len (r : Rect) (d : Nat) : Rat := r.hi d - r.lo d
/-- `getCentreD(d)` = `getMinD(d)+length(d)/2.0` -/
def Rect.centre (r : Rect) (d : Nat) : Rat := r.lo d + r.len d / 2

/-- `topology::Node` -/
structure Node where
  id : Nat
  r : Rect
  deriving Repr, DecidableEq, Inhabited

/-- `topology::EdgePoint` -/
structure EPt where
  node : Node
  ri : Nat
  deriving Repr, DecidableEq, Inhabited

/-- `EdgePoint::pos(dim)` -/
def EPt.pos (a : EPt) (d : Nat) : Rat :=
  if a.ri = 3 then (if d = 0 then a.node.r.minX else a.node.r.maxY)        -- TL
  else if a.ri = 0 then a.node.r.hi d                                       -- TR
  else if a.ri = 2 then a.node.r.lo d                                       -- BL
  else if a.ri = 1 then (if d = 0 then a.node.r.maxX else a.node.r.minY)   -- BR
  else a.node.r.centre d

/-- `EdgePoint::offset(dim)` -/
def EPt.offset (a : EPt) (d : Nat) : Rat :=
  if a.ri ≥ 4 then 0
  else
    let o := a.node.r.len d / 2
    if (d = 0 ∧ (a.ri = 3 ∨ a.ri = 2)) ∨ (d ≠ 0 ∧ (a.ri = 2 ∨ a.ri = 1)) then -o else o

/-- `topology::Segment` of edge `edge`, the `idx`-th of its path -/
structure Seg where
  edge : Nat
  idx : Nat
  s : EPt
  e : EPt
  deriving Repr, DecidableEq, Inhabited

/-- `getMin(d)->pos(conj d)` : where the SegmentOpen event fires -/
def Seg.lo (sg : Seg) (d : Nat) : Rat :=
  if sg.s.pos (conj d) ≤ sg.e.pos (conj d) then sg.s.pos (conj d) else sg.e.pos (conj d)
/-- `getMax(d)->pos(conj d)` : where the SegmentClose event fires -/
def Seg.hi (sg : Seg) (d : Nat) : Rat :=
  if sg.s.pos (conj d) > sg.e.pos (conj d) then sg.s.pos (conj d) else sg.e.pos (conj d)

/-- `CreateSegmentEvents`: no events for segments parallel to the scan line -/
def Seg.parallel (sg : Seg) (d : Nat) : Bool := decide (sg.s.pos (conj d) = sg.e.pos (conj d))

/-- the out-parameter `p` of `forwardIntersection(d, pos, p)` -/
def Seg.param (sg : Seg) (d : Nat) (pos : Rat) : Rat :=
  (pos - sg.s.pos (conj d)) / (sg.e.pos (conj d) - sg.s.pos (conj d))

/-- `forwardIntersection(d, pos)`: coordinate in `d` of the segment's line on the scan line `pos` -/
def Seg.inter (sg : Seg) (d : Nat) (pos : Rat) : Rat :=
  sg.s.pos d + sg.param d pos * (sg.e.pos d - sg.s.pos d)

/-- `Segment::connectedToNode` (and the first skip of `createStraightConstraints`) -/
def Seg.connected (sg : Seg) (n : Node) : Bool :=
  (sg.s.ri == 4 && sg.s.node.id == n.id) || (sg.e.ri == 4 && sg.e.node.id == n.id)

/-- a `StraightConstraint` (its segment is given by where it is stored) with the members of its
    `TriConstraint` (u = segment start node, v = segment end node, w = `node`, leftOf = `nodeLeft`) -/
structure SC where
  node : Node
  ri : Nat
  pos : Rat
  nodeLeft : Bool
  p : Rat
  g : Rat
  deriving Repr, DecidableEq, Inhabited

/-- the corner chosen in `Segment::createStraightConstraint` -/
def cornerFor (d : Nat) (n : Node) (pos : Rat) (nodeLeft : Bool) : Nat :=
  if d = 0 then
    (if pos < n.r.centre 1 then (if nodeLeft then 1 else 2) else (if nodeLeft then 0 else 3))
  else
    (if pos < n.r.centre 0 then (if nodeLeft then 3 else 2) else (if nodeLeft then 0 else 1))

/-- the `g` of the StraightConstraint constructor -/
def straightG (d : Nat) (sg : Seg) (n : Node) (p : Rat) (nodeLeft : Bool) : Rat :=
  let g := sg.s.offset d + p * (sg.e.offset d - sg.s.offset d)
  if nodeLeft then g - n.r.len d / 2 else g + n.r.len d / 2

/-- `Segment::createStraightConstraint(d, node, pos)`; `none` = returns false.  (The C++ asserts
    `!connectedToNode(node)`; every caller tests it first, so does the model.) -/
def createStraight (d : Nat) (sg : Seg) (n : Node) (pos : Rat) : Option SC :=
  if sg.connected n then none
  else if sg.parallel d then none
  else
    let nodeLeft := decide (n.r.centre d < sg.inter d pos)
    let ri := cornerFor d n pos nodeLeft
    if n.id = sg.s.node.id ∧ ri = sg.s.ri then none
    else if n.id = sg.e.node.id ∧ ri = sg.e.ri then none
    else some { node := n, ri := ri, pos := pos, nodeLeft := nodeLeft, p := sg.param d pos,
                g := straightG d sg n (sg.param d pos) nodeLeft }

/-- the scan-line neighbour `nb` hides everything beyond its centre: `lim`=true for the left
    neighbour (`p<leftLimit && pos>min && pos<max`), false for the right one -/
def blocks (d : Nat) (pos x : Rat) (left : Bool) (nb : Option Node) : Bool :=
  match nb with
  | none => false
  | some m =>
    (if left then decide (x < m.r.centre d) else decide (x > m.r.centre d))
      && decide (m.r.lo (conj d) < pos) && decide (pos < m.r.hi (conj d))

/-- `NodeEvent::createStraightConstraints` for the event of `n` at `pos` with neighbours `L`, `R`:
    the constraints created, each with the segment it is stored in -/
def nodeEventCons (d : Nat) (n : Node) (pos : Rat) (L R : Option Node) (openSegs : List Seg) :
    List (Seg × SC) :=
  openSegs.filterMap fun sg =>
    if sg.connected n then none
    else if blocks d pos (sg.inter d pos) true L || blocks d pos (sg.inter d pos) false R then none
    else (createStraight d sg n pos).map fun c => (sg, c)

/-- predecessor of `n` in the map `openNodes` (keyed by centre in `d`): the open node with the
    largest key below `n`'s -/
def leftNb (d : Nat) (n : Node) (l : List Node) : Option Node :=
  l.foldl (fun best m =>
    if m.r.centre d < n.r.centre d then
      (match best with
       | none => some m
       | some b => if b.r.centre d < m.r.centre d then some m else some b)
    else best) none

/-- successor of `n` in `openNodes` -/
def rightNb (d : Nat) (n : Node) (l : List Node) : Option Node :=
  l.foldl (fun best m =>
    if n.r.centre d < m.r.centre d then
      (match best with
       | none => some m
       | some b => if m.r.centre d < b.r.centre d then some m else some b)
    else best) none

/-! ### the state machine -/

inductive Ev where
  | nodeClose (n : Node)
  | segOpen (s : Seg)
  | segClose (s : Seg)
  | nodeOpen (n : Node)
  deriving Repr, Inhabited

/-- order of the kinds at equal position (`CompareEvents`) -/
def Ev.rank : Ev → Nat
  | .nodeClose _ => 0
  | .segOpen _ => 1
  | .segClose _ => 2
  | .nodeOpen _ => 3

def Ev.pos (d : Nat) : Ev → Rat
  | .nodeClose n => n.r.hi (conj d)
  | .segOpen s => s.lo d
  | .segClose s => s.hi d
  | .nodeOpen n => n.r.lo (conj d)

/-- all segments of a path -/
def segsOfAux (edge : Nat) : Nat → List EPt → List Seg
  | i, a :: b :: rest => ⟨edge, i, a, b⟩ :: segsOfAux edge (i + 1) (b :: rest)
  | _, _ => []

def segsOf (edge : Nat) (pts : List EPt) : List Seg := segsOfAux edge 0 pts

/-- the event vector in the order the constructor pushes it -/
def mkEvents (d : Nat) (nodes : List Node) (segs : List Seg) : List Ev :=
  (nodes.flatMap fun n => [Ev.nodeOpen n, Ev.nodeClose n]) ++
  ((segs.filter fun s => !s.parallel d).flatMap fun s => [Ev.segOpen s, Ev.segClose s])

/-- `CompareEvents` refined by the tie-break `tb` (a number per event; the comparator itself leaves
    events of equal kind and position unordered) -/
def evLe (d : Nat) (tb : Ev → Nat) (a b : Ev) : Bool :=
  decide (a.pos d < b.pos d) ||
    (decide (a.pos d = b.pos d) && (decide (a.rank < b.rank) || (decide (a.rank = b.rank) && decide (tb a ≤ tb b))))

def sortEvents (d : Nat) (tb : Ev → Nat) (evs : List Ev) : List Ev := evs.mergeSort (evLe d tb)

structure ScanSt where
  openNodes : List Node := []
  openSegs : List Seg := []
  out : List (Seg × SC) := []
  /-- `COLA_ASSERT(r.second)`: two open nodes with the same centre -/
  dupKey : Bool := false
  deriving Inhabited

def sameSeg (a b : Seg) : Bool := a.edge == b.edge && a.idx == b.idx

/-- `Event::process` -/
def step (d : Nat) (st : ScanSt) : Ev → ScanSt
  | .nodeOpen n =>
    { st with openNodes := st.openNodes ++ [n]
              dupKey := st.dupKey || st.openNodes.any (fun m => decide (m.r.centre d = n.r.centre d))
              out := st.out ++ nodeEventCons d n (n.r.lo (conj d)) (leftNb d n st.openNodes)
                                 (rightNb d n st.openNodes) st.openSegs }
  | .nodeClose n =>
    let others := st.openNodes.filter fun m => m.id != n.id
    { st with openNodes := others
              out := st.out ++ nodeEventCons d n (n.r.hi (conj d)) (leftNb d n others)
                                 (rightNb d n others) st.openSegs }
  | .segOpen s => { st with openSegs := st.openSegs ++ [s] }
  | .segClose s => { st with openSegs := st.openSegs.filter fun t => !sameSeg t s }

/-- the scan of the constructor: all StraightConstraints created, in creation order -/
def scan (d : Nat) (tb : Ev → Nat) (nodes : List Node) (segs : List Seg) : ScanSt :=
  (sortEvents d tb (mkEvents d nodes segs)).foldl (step d) {}

/-! ### closed form per node event

`before m n` = the event of `m` is processed before the event of `n` when both have the same kind
and position (the order `std::sort` happens to produce); `bO` for NodeOpen events, `bC` for NodeClose. -/

/-- segments open when NodeOpen at `pos` is processed: opened at `lo ≤ pos` (SegmentOpen first),
    closed at `hi ≤ pos` (SegmentClose first) -/
def openSegsAtOpen (d : Nat) (pos : Rat) (segs : List Seg) : List Seg :=
  segs.filter fun s => decide (s.lo d ≤ pos) && decide (pos < s.hi d)

/-- segments open when NodeClose at `pos` is processed (NodeClose comes first at its position) -/
def openSegsAtClose (d : Nat) (pos : Rat) (segs : List Seg) : List Seg :=
  segs.filter fun s => decide (s.lo d < pos) && decide (pos ≤ s.hi d)

/-- the other nodes in `openNodes` when NodeOpen of `n` is processed -/
def openNodesAtOpen (d : Nat) (before : Node → Node → Bool) (n : Node) (nodes : List Node) : List Node :=
  let pos := n.r.lo (conj d)
  nodes.filter fun m => m.id != n.id &&
    (decide (m.r.lo (conj d) < pos) || (decide (m.r.lo (conj d) = pos) && before m n)) &&
    decide (pos < m.r.hi (conj d))

/-- the other nodes in `openNodes` when NodeClose of `n` is processed -/
def openNodesAtClose (d : Nat) (before : Node → Node → Bool) (n : Node) (nodes : List Node) : List Node :=
  let pos := n.r.hi (conj d)
  nodes.filter fun m => m.id != n.id && decide (m.r.lo (conj d) < pos) &&
    (decide (pos < m.r.hi (conj d)) || (decide (m.r.hi (conj d) = pos) && before n m))

def consAtOpen (d : Nat) (before : Node → Node → Bool) (nodes : List Node) (segs : List Seg) (n : Node) :
    List (Seg × SC) :=
  let others := openNodesAtOpen d before n nodes
  nodeEventCons d n (n.r.lo (conj d)) (leftNb d n others) (rightNb d n others)
    (openSegsAtOpen d (n.r.lo (conj d)) segs)

def consAtClose (d : Nat) (before : Node → Node → Bool) (nodes : List Node) (segs : List Seg) (n : Node) :
    List (Seg × SC) :=
  let others := openNodesAtClose d before n nodes
  nodeEventCons d n (n.r.hi (conj d)) (leftNb d n others) (rightNb d n others)
    (openSegsAtClose d (n.r.hi (conj d)) segs)

/-- every StraightConstraint of the constructor, closed form -/
def consClosed (d : Nat) (bO bC : Node → Node → Bool) (nodes : List Node) (segs : List Seg) :
    List (Seg × SC) :=
  nodes.flatMap fun n => consAtOpen d bO nodes segs n ++ consAtClose d bC nodes segs n

/-! ### bend constraints -/

/-- a `BendConstraint` at path index `idx` with the members of its TriConstraint; `rev` = the
    "Reverse bend constraint" branch (reference segment = outSegment, u and w swapped) -/
structure BC where
  idx : Nat
  leftOf : Bool
  rev : Bool
  u : Nat
  v : Nat
  w : Nat
  p : Rat
  g : Rat
  deriving Repr, DecidableEq, Inhabited

def absQ (r : Rat) : Rat := if r < 0 then -r else r

/-- `EdgePoint::createBendConstraint` + the BendConstraint constructor for the interior point `v`
    between `u` and `w`; `none` = both incident segments are parallel to the scan line -/
def createBend (d : Nat) (idx : Nat) (u v w : EPt) : Option BC :=
  let c := conj d
  let inLen := absQ (v.pos c - u.pos c)
  let outLen := absQ (w.pos c - v.pos c)
  if inLen = 0 ∧ outLen = 0 then none
  else
    let leftOf := if d = 0 then (v.ri == 0 || v.ri == 1) else (v.ri == 3 || v.ri == 0)
    if inLen > outLen then
      let p := (w.pos c - u.pos c) / (v.pos c - u.pos c)
      some { idx := idx, leftOf := leftOf, rev := false, u := u.node.id, v := v.node.id, w := w.node.id, p := p,
             g := u.offset d + p * (v.offset d - u.offset d) - w.offset d }
    else
      let p := (u.pos c - w.pos c) / (v.pos c - w.pos c)
      some { idx := idx, leftOf := leftOf, rev := true, u := w.node.id, v := v.node.id, w := u.node.id, p := p,
             g := w.offset d + p * (v.offset d - w.offset d) - u.offset d }

def bendConsAux (d : Nat) : Nat → List EPt → List BC
  | i, u :: v :: w :: rest => (createBend d (i + 1) u v w).toList ++ bendConsAux d (i + 1) (v :: w :: rest)
  | _, _ => []

/-- the BendConstraints of a path (`CreateBendConstraints` over every EdgePoint) -/
def bendCons (d : Nat) (pts : List EPt) : List BC := bendConsAux d 0 pts

/-! ### the two rewrites -/

/-- an edge: its EdgePoints and, per segment, the StraightConstraints in list order -/
structure EdgeSt where
  id : Nat
  pts : List EPt
  scs : List (List SC)
  deriving Repr, DecidableEq, Inhabited

/-- `Segment::transferStraightConstraint` -/
def transfer (d : Nat) (sg : Seg) (c : SC) : Option SC :=
  if sg.connected c.node then none else createStraight d sg c.node c.pos

/-- `BendConstraint::satisfy()` for the bend at path index `i` (`0 < i`, `i + 1 < pts.length`):
    `EdgePoint::prune` merges the two segments into `s`, transfers their StraightConstraints
    (inSegment's first), then the StraightConstraint for the node the bend turned around is created -/
def bendSatisfy (d : Nat) (st : EdgeSt) (i : Nat) : Option EdgeSt :=
  if i = 0 then none else
  match st.pts[i - 1]?, st.pts[i]?, st.pts[i + 1]? with
  | some u, some v, some w =>
    let s : Seg := ⟨st.id, i - 1, u, w⟩
    let moved := ((st.scs.getD (i - 1) []) ++ (st.scs.getD i [])).filterMap (transfer d s)
    let fresh := (createStraight d s v.node (v.pos (conj d))).toList
    some { st with pts := st.pts.eraseIdx i
                   scs := st.scs.take (i - 1) ++ [moved ++ fresh] ++ st.scs.drop (i + 1) }
  | _, _, _ => none

/-- `StraightConstraint::satisfy()` for the `k`-th constraint of segment `j`: a bend at the
    constraint's corner splits the segment; every other constraint goes to the half chosen by
    `transferStraightConstraintChoose` -/
def straightSatisfy (d : Nat) (st : EdgeSt) (j k : Nat) : Option EdgeSt :=
  match st.pts[j]?, st.pts[j + 1]?, (st.scs.getD j [])[k]? with
  | some a, some b, some c =>
    let bend : EPt := ⟨c.node, c.ri⟩
    let s1 : Seg := ⟨st.id, j, a, bend⟩
    let s2 : Seg := ⟨st.id, j + 1, bend, b⟩
    -- transferStraightConstraintChoose's constructor: which half has the lower scan range
    let firstIsLeft := decide (s1.lo d < s2.hi d)
    let mid := if firstIsLeft then s1.hi d else s2.hi d
    let others := ((st.scs.getD j []).zipIdx.filter fun ci => ci.2 != k).map (·.1)
    let toFirst (c' : SC) : Bool := destIsLeft d c'.ri c'.pos mid == firstIsLeft
    let l1 := (others.filter toFirst).filterMap (transfer d s1)
    let l2 := (others.filter fun c' => !toFirst c').filterMap (transfer d s2)
    some { st with pts := st.pts.take (j + 1) ++ [bend] ++ st.pts.drop (j + 1)
                   scs := st.scs.take j ++ [l1, l2] ++ st.scs.drop (j + 1) }
  | _, _, _ => none

/-! ### the scene after a move in axis `d` (what the TriConstraints talk about) -/

/-- `moveCentreD(d, x)`: same size, centre in `d` at `x` -/
def Rect.moveCentre (r : Rect) (d : Nat) (x : Rat) : Rect :=
  if d = 0 then { r with minX := x - r.len 0 / 2, maxX := x - r.len 0 / 2 + r.len 0 }
  else { r with minY := x - r.len 1 / 2, maxY := x - r.len 1 / 2 + r.len 1 }

/-- node positions in the scan axis, by node id (`Model.Tri.Pos`) -/
abbrev Pos := Nat → Rat

def Node.movedTo (n : Node) (d : Nat) (x : Pos) : Node := { n with r := n.r.moveCentre d (x n.id) }
def EPt.movedTo (a : EPt) (d : Nat) (x : Pos) : EPt := { a with node := a.node.movedTo d x }
def Seg.movedTo (sg : Seg) (d : Nat) (x : Pos) : Seg := { sg with s := sg.s.movedTo d x, e := sg.e.movedTo d x }

/-- signed distance, on the scan line `pos`, between the segment's line and the side of the node
    that faces it (`nodeLeft`: the node's high side must stay below the segment's coordinate) -/
def gap (d : Nat) (sg : Seg) (n : Node) (pos : Rat) (nodeLeft : Bool) : Rat :=
  if nodeLeft then sg.inter d pos - n.r.hi d else n.r.lo d - sg.inter d pos

/-! ### the non-overlap constraints of the scan (`NodeClose::createNonOverlapConstraint`) -/

/-- the `1e-7` added to every gap (the C++ double literal differs from this rational by < 1e-23) -/
def noGapEps : Rat := 1 / 10000000

/-- `left->var + g <= right->var` with `g = (length(left)+length(right))/2 + 1e-7` -/
structure NOC where
  left : Node
  right : Node
  gap : Rat
  deriving Repr, DecidableEq, Inhabited

def mkNOC (d : Nat) (l r : Node) : NOC := ⟨l, r, (l.r.len d + r.r.len d) / 2 + noGapEps⟩

/-- the constraints `NodeClose::process` of `n` pushes to `cs`: with its left neighbour, then with
    its right neighbour (neighbours in `openNodes` before `n` is erased) -/
def nonOverlapAtClose (d : Nat) (bC : Node → Node → Bool) (nodes : List Node) (n : Node) : List NOC :=
  let others := openNodesAtClose d bC n nodes
  (match leftNb d n others with | some l => [mkNOC d l n] | none => []) ++
  (match rightNb d n others with | some r => [mkNOC d n r] | none => [])

/-- all non-overlap constraints of the constructor, closed form -/
def nonOverlapClosed (d : Nat) (bC : Node → Node → Bool) (nodes : List Node) : List NOC :=
  nodes.flatMap (nonOverlapAtClose d bC nodes)

/-- the scan with the `cs.push_back` of `NodeClose::process` recorded as well: the state machine of `scan` plus the
    list of non-overlap constraints in creation order -/
def stepNO (d : Nat) (acc : ScanSt × List NOC) (ev : Ev) : ScanSt × List NOC :=
  match ev with
  | .nodeClose n =>
    let others := acc.1.openNodes.filter fun m => m.id != n.id
    (step d acc.1 ev,
     acc.2 ++ (match leftNb d n others with | some l => [mkNOC d l n] | none => []) ++
              (match rightNb d n others with | some r => [mkNOC d n r] | none => []))
  | _ => (step d acc.1 ev, acc.2)

def scanNO (d : Nat) (tb : Ev → Nat) (nodes : List Node) (segs : List Seg) : ScanSt × List NOC :=
  (sortEvents d tb (mkEvents d nodes segs)).foldl (stepNO d) ({}, [])

/-- the constraint holds at node positions `x` -/
def NOC.holds (c : NOC) (x : Pos) : Prop := x c.left.id + c.gap ≤ x c.right.id

end AdaptaVerif.Model.TopoCons
