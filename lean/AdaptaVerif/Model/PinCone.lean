/-
C20 — the pin-cone rule of `ConnEnd::assignPinVisibilityTo()` (cola/libavoid/connend.cpp).  Core Lean only.

A connector end attached with `ConnEnd(shape, pinClassId)` gets an edge to every pin of the class; the edge to a pin
costs `max(0.001, connectionCost + (portDirectionPenalty if the OTHER end of the connector lies in none of the 90°
cones of the pin's visibility directions))`.  The source decides with `rotationalAngle(target − pinPosition)`
(degrees, y grows downwards): right cone = angle ≤ 45 ∨ angle ≥ 315, down = 45..135, left = 135..225, up = 225..315,
boundaries inclusive, the zero vector has angle 0.  In exact arithmetic, for the vector `v = target − pin`:

    right: 0 < v.x ∧ |v.y| ≤ v.x   (or v = 0)        down: 0 < v.y ∧ |v.x| ≤ v.y
    left : v.x < 0 ∧ |v.y| ≤ −v.x                     up  : v.y < 0 ∧ |v.x| ≤ −v.y

The rule is a function of `target − pin` only (translation invariance) and commutes with the 8 symmetries of the
square when the pin's direction flags are transformed with the frame (Props/C20.lean).
-/
import AdaptaVerif.Model.RouteCost
namespace AdaptaVerif.Model.PinCone
open AdaptaVerif.Model.Geometry AdaptaVerif.Model.Frame

/-- `ConnDirFlags` (Up = 1: −y, Down = 2: +y, Left = 4: −x, Right = 8: +x) -/
structure Dirs where
  up : Bool
  down : Bool
  left : Bool
  right : Bool
  deriving DecidableEq, Repr, Inhabited

def Dirs.ofNat (n : Nat) : Dirs := ⟨n % 2 == 1, (n / 2) % 2 == 1, (n / 4) % 2 == 1, (n / 8) % 2 == 1⟩

/-- the flags of the image pin -/
def Dirs.act : Sym → Dirs → Dirs
  | .id, d => ⟨d.up, d.down, d.left, d.right⟩
  | .rot90, d => ⟨d.left, d.right, d.down, d.up⟩      -- (x,y) ↦ (−y,x): right→down, down→left, left→up, up→right
  | .rot180, d => ⟨d.down, d.up, d.right, d.left⟩
  | .rot270, d => ⟨d.right, d.left, d.up, d.down⟩     -- (x,y) ↦ (y,−x): right→up, up→left, left→down, down→right
  | .flipX, d => ⟨d.up, d.down, d.right, d.left⟩
  | .flipY, d => ⟨d.down, d.up, d.left, d.right⟩
  | .diag, d => ⟨d.left, d.right, d.up, d.down⟩       -- (x,y) ↦ (y,x): right↔down, left↔up
  | .anti, d => ⟨d.right, d.left, d.down, d.up⟩       -- (x,y) ↦ (−y,−x): right↔up, left↔down

/-- the closed 90° cone around the positive `a` axis, apex excluded -/
def cone0 (a b : Rat) : Bool := decide (0 < a) && decide (b ≤ a) && decide (-b ≤ a)

def coneRight (x y : Rat) : Bool := cone0 x y || (decide (x = 0) && decide (y = 0))
def coneDown (x y : Rat) : Bool := cone0 y x
def coneLeft (x y : Rat) : Bool := cone0 (-x) y
def coneUp (x y : Rat) : Bool := cone0 (-y) x

/-- does the vector `(x, y)` lie in one of the cones of the directions `d`? -/
def inCone (d : Dirs) (x y : Rat) : Bool :=
  (d.right && coneRight x y) || (d.down && coneDown x y) || (d.left && coneLeft x y) || (d.up && coneUp x y)

/-- `inVisibilityRange` of assignPinVisibilityTo for a pin at `pin` with directions `d` and the other end at `target` -/
def pinSeesTarget (d : Dirs) (pin target : Pt) : Bool := inCone d (target.x - pin.x) (target.y - pin.y)

def maxRat (a b : Rat) : Rat := if a ≤ b then b else a

/-- what the edge from the connector's dummy end vertex to the pin costs beyond its length -/
def pinEdgeExtra (portPenalty connCost : Rat) (d : Dirs) (pin target : Pt) : Rat :=
  maxRat (1 / 1000) (connCost + (if pinSeesTarget d pin target then 0 else portPenalty))

/-- position of a pin whose place on the shape box `[x0,x1]×[y0,y1]` is `p`, with inside offset `ins`
    (`ShapeConnectionPin::position`: a coordinate on the min / max side of the box is moved inwards) -/
def pinPosition (x0 y0 x1 y1 : Rat) (p : Pt) (ins : Rat) : Pt :=
  ⟨if p.x = x0 then x0 + ins else if p.x = x1 then x1 - ins else p.x,
   if p.y = y0 then y0 + ins else if p.y = y1 then y1 - ins else p.y⟩

/-- the variant that looks at the target from the ORIGIN instead of from the pin (the subtraction lost) -/
def pinSeesTargetFromOrigin (d : Dirs) (_pin target : Pt) : Bool := inCone d target.x target.y

end AdaptaVerif.Model.PinCone
