/-
Executable `Rat` model of `dialect::OrthoPlanariser` (cola/libdialect/planarise.{h,cpp}) as coded.

  planarise() = removeEdgeOverlaps(); removeEdgeCrossings()

  removeEdgeOverlaps : Graph::buildUniqueBendPoints (NearbyObjectFinder, threshold 0.5) → one node per
      distinct bend point; buildSegments (EdgeSegment constructor on node CENTRES: orientation by
      |dy| ≤ |dx|, direction by the sign of dx / dy); computeNodeGroups for the horizontal and for the
      vertical segments (util.h `partition` by constCoord with running-average tolerance 0.5, events sorted
      by varCoord, set of open segments) → edges of the overlap-free graph = consecutive nodes of a group.
  removeEdgeCrossings : buildSegments on the overlap-free graph; computeCrossings (events partitioned by
      x with tolerance 0.8, per part the open horizontals + the part's events sorted by
      `CompareActiveEvents` (tolerance 1.0, CLOSE < SUSTAIN < OPEN), sweep with `openH` / `openV`, a new
      node per detected crossing, both segments cut there: `setNewClosingNode` + a new continuation
      segment, events re-pointed); one edge per final segment.

`std::sort` is modelled by libstdc++'s `__insertion_sort` (what `std::sort` runs for ≤ 16 elements;
for a comparator that is a strict weak order every sorting algorithm gives the same result up to the
order inside equivalence classes).  `std::set<Event*>` (ordered by heap address) is modelled by
allocation order.  Pointers are list indices: `segs` = `m_edgeSegments`, `evs` = the local `evts`.
Core Lean only (linked into driver_c19).
-/
namespace AdaptaVerif.Model.Planarise

structure Pt where
  x : Rat
  y : Rat
  deriving DecidableEq, Repr, Inhabited

/-- a `Node_SP`: identity = id, the centre never changes during planarisation -/
structure Node where
  id : Nat
  p : Pt
  deriving DecidableEq, Repr, Inhabited

inductive Ori | H | V
  deriving DecidableEq, Repr, Inhabited

/-- `enum class EventType { CLOSE, SUSTAIN, OPEN }` — the order is used by `CompareActiveEvents` -/
inductive EvType | close | sustain | opn
  deriving DecidableEq, Repr, Inhabited

def EvType.rank : EvType → Nat
  | .close => 0
  | .sustain => 1
  | .opn => 2

def absR (r : Rat) : Rat := if r < 0 then -r else r

/-! ### tolerances (constants of the C++ source) -/
/-- `NearbyObjectFinder<Node_SP> nof(0.5)` in `Graph::buildUniqueBendPoints` -/
def tolBend : Rat := 1 / 2
/-- `partition(segs, constCoord, 0.5)` in `computeNodeGroups` -/
def tolGroup : Rat := 1 / 2
/-- `const double tol = 0.8` in `computeCrossings`: the double nearest to 0.8 (0x1.999999999999ap-1) -/
def tolX : Rat := 3602879701896397 / 4503599627370496
/-- `const double TOLERANCE = 1.0` in `CompareActiveEvents` -/
def tolY : Rat := 1

/-! ### `std::sort` as libstdc++'s insertion sort -/

/-- `__unguarded_linear_insert` on the REVERSED sorted prefix: shift while `lt v e` -/
def insRev (lt : α → α → Bool) (v : α) : List α → List α
  | [] => [v]
  | e :: r => if lt v e then e :: insRev lt v r else v :: e :: r

/-- one iteration of `__insertion_sort`; `acc` is the sorted prefix reversed. If `v` is less than
the FIRST element it is moved to the front without further comparisons. -/
def insStep (lt : α → α → Bool) (acc : List α) (v : α) : List α :=
  match acc.getLast? with
  | none => [v]
  | some f => if lt v f then acc ++ [v] else insRev lt v acc

def stdSort (lt : α → α → Bool) (l : List α) : List α := (l.foldl (insStep lt) []).reverse

/-! ### util.h `partition` -/

def partGo (key : α → Rat) (tol : Rat) : List α → List α → Rat → Nat → List (List α)
  | [], cur, _, _ => [cur.reverse]
  | it :: rest, cur, avg, n =>
    let k := key it
    if absR (k - avg) ≤ tol then
      partGo key tol rest (it :: cur) (((n : Rat) * avg + k) / ((n : Rat) + 1)) (n + 1)
    else cur.reverse :: partGo key tol rest [it] k 1

def partition (key : α → Rat) (tol : Rat) (items : List α) : List (List α) :=
  match stdSort (fun a b => decide (key a < key b)) items with
  | [] => []
  | f :: rest => partGo key tol rest [f] (key f) 1

/-! ### `EdgeSegment` -/

structure Seg where
  ori : Ori
  cc : Rat          -- constCoord
  lo : Rat          -- lowerBound
  hi : Rat          -- upperBound
  on : Node         -- openingNode
  cn : Node         -- closingNode
  deriving DecidableEq, Repr, Inhabited

/-- `EdgeSegment::EdgeSegment(node1, node2)` -/
def mkSeg (n1 n2 : Node) : Seg :=
  let dx := n2.p.x - n1.p.x
  let dy := n2.p.y - n1.p.y
  if absR dy ≤ absR dx then
    if dx > 0 then { ori := .H, cc := n1.p.y, lo := n1.p.x, hi := n2.p.x, on := n1, cn := n2 }
    else { ori := .H, cc := n1.p.y, lo := n2.p.x, hi := n1.p.x, on := n2, cn := n1 }
  else
    if dy > 0 then { ori := .V, cc := n1.p.x, lo := n1.p.y, hi := n2.p.y, on := n1, cn := n2 }
    else { ori := .V, cc := n1.p.x, lo := n2.p.y, hi := n1.p.y, on := n2, cn := n1 }

/-- `EdgeSegment::setNewClosingNode` -/
def Seg.setNewClosing (s : Seg) (u : Node) : Seg :=
  { s with cn := u, hi := if s.ori = .H then u.p.x else u.p.y }

/-! ### `Graph::buildUniqueBendPoints` -/

/-- `std::round` (half away from zero) followed by the cast to `int` -/
def roundHA (r : Rat) : Int := if 0 ≤ r then (r + 1 / 2).floor else -((-r + 1 / 2).floor)

def bucketLt (a b : Node) : Bool :=
  roundHA a.p.x < roundHA b.p.x || (roundHA a.p.x == roundHA b.p.x && roundHA a.p.y < roundHA b.p.y)

/-- keep the earlier object in bucket scan order (strict comparison: the first inserted wins a tie) -/
def pickFirst (best : Option Node) (s : Node) : Option Node :=
  match best with
  | none => some s
  | some b => if bucketLt s b then some s else some b

/-- `NearbyObjectFinder::findObject`: the first stored object, in bucket scan order (rounded x, then
rounded y, then insertion order), inside the OPEN box of half-width `th` around `q`. `store` is in
insertion order. (A stored point inside the open box always lies in the scanned bucket range because
rounding is monotone.) -/
def findNear (th : Rat) (store : List Node) (q : Pt) : Option Node :=
  (store.filter (fun s => absR (q.x - s.p.x) < th && absR (q.y - s.p.y) < th)).foldl pickFirst none

structure EdgeIn where
  src : Node
  tgt : Node
  route : List Pt
  deriving Repr, Inhabited

/-- interior route points (`route[1..N-2]`, none when `N < 3`) -/
def interior (r : List Pt) : List Pt := (r.drop 1).dropLast

structure BendState where
  store : List Node := []      -- bend nodes in creation order (= the finder's insertion order)
  nextId : Nat
  deriving Repr

def bendsOfRoute (st : BendState) : List Pt → BendState × List Node
  | [] => (st, [])
  | q :: rest =>
    match findNear tolBend st.store q with
    | some b =>
      let (st', bs) := bendsOfRoute st rest
      (st', b :: bs)
    | none =>
      let b : Node := ⟨st.nextId, q⟩
      let (st', bs) := bendsOfRoute { store := st.store ++ [b], nextId := st.nextId + 1 } rest
      (st', b :: bs)

/-- bend nodes of every edge (edges in edge-id order), threading the finder -/
def uniqueBends (st : BendState) : List EdgeIn → BendState × List (List Node)
  | [] => (st, [])
  | e :: es =>
    let (st1, bs) := bendsOfRoute st (interior e.route)
    let (st2, rest) := uniqueBends st1 es
    (st2, bs :: rest)

/-! ### `buildSegments` -/

def chainSegs : List Node → List Seg
  | a :: b :: rest => mkSeg a b :: chainSegs (b :: rest)
  | _ => []

/-- segments of one edge: src, its bend nodes, tgt -/
def edgeSegs (src tgt : Node) (bends : List Node) : List Seg := chainSegs (src :: bends ++ [tgt])

/-! ### `computeNodeGroups` -/

/-- event of the overlap pass: segment index, end node, varCoord, is-OPEN -/
structure GEv where
  seg : Nat
  endpt : Node
  vc : Rat
  isOpen : Bool
  deriving Repr, Inhabited

def segEventsG (is : Nat × Seg) : List GEv :=
  let s := is.2
  let vcOf (n : Node) : Rat := if s.ori = .H then n.p.x else n.p.y
  [ { seg := is.1, endpt := s.on, vc := vcOf s.on, isOpen := true },
    { seg := is.1, endpt := s.cn, vc := vcOf s.cn, isOpen := false } ]

structure GState where
  group : List Node := []       -- reversed
  openSegs : List Nat := []
  groups : List (List Node) := []   -- reversed
  deriving Repr

def gStep (st : GState) (e : GEv) : GState :=
  let group := match st.group with
    | [] => [e.endpt]
    | b :: r => if b.id = e.endpt.id then b :: r else e.endpt :: b :: r
  if e.isOpen then
    { st with group := group, openSegs := if st.openSegs.contains e.seg then st.openSegs else e.seg :: st.openSegs }
  else
    let os := st.openSegs.erase e.seg
    if os.isEmpty then { group := [], openSegs := [], groups := group.reverse :: st.groups }
    else { st with group := group, openSegs := os }

/-- groups of one part; group/openSegs are local to the part in the C++ (declared inside the loop) -/
def groupsOfPart (part : List (Nat × Seg)) : List (List Node) :=
  let evts := part.flatMap segEventsG
  let sorted := stdSort (fun a b => decide (a.vc < b.vc)) evts
  (sorted.foldl gStep {}).groups.reverse

def zipIdxFrom : Nat → List α → List (Nat × α)
  | _, [] => []
  | i, a :: r => (i, a) :: zipIdxFrom (i + 1) r

def computeNodeGroups (segs : List Seg) : List (List Node) :=
  (partition (fun is : Nat × Seg => is.2.cc) tolGroup (zipIdxFrom 0 segs)).flatMap groupsOfPart

def consecutive : List Node → List (Node × Node)
  | a :: b :: rest => (a, b) :: consecutive (b :: rest)
  | _ => []

/-! ### `computeCrossings` -/

structure Ev where
  seg : Nat
  endpt : Node
  cc : Rat
  vc : Rat
  ty : EvType
  comp : Nat
  deriving Repr, Inhabited

/-- `Event::Event(seg, endpt, type)` -/
def mkEv (segIdx : Nat) (s : Seg) (endpt : Node) (ty : EvType) (comp : Nat) : Ev :=
  { seg := segIdx, endpt := endpt,
    cc := if s.ori = .H then endpt.p.y else endpt.p.x,
    vc := if s.ori = .H then endpt.p.x else endpt.p.y,
    ty := ty, comp := comp }

/-- `getEvents` for every segment: event `2i` opens segment `i`, `2i+1` closes it -/
def mkEvents : Nat → List Seg → List Ev
  | _, [] => []
  | i, s :: r => mkEv i s s.on .opn (2 * i + 1) :: mkEv i s s.cn .close (2 * i) :: mkEvents (i + 1) r

/-- what `CompareActiveEvents` reads of an `Event*` (key record of the regenerated comparator, Gen/PlanariseCmp.lean) -/
structure EvKey where
  y : Rat
  ty : Nat
  deriving Repr, Inhabited

/-- `CompareActiveEvents` on the y-coordinates of the end nodes and the types -/
def compareActive (ya : Rat) (ta : EvType) (yb : Rat) (tb : EvType) : Bool :=
  if yb - ya > tolY then true
  else if ya - yb > tolY then false
  else ta.rank < tb.rank

def cmpEv (evs : List Ev) (a b : Nat) : Bool :=
  match evs[a]?, evs[b]? with
  | some ea, some eb => compareActive ea.endpt.p.y ea.ty eb.endpt.p.y eb.ty
  | _, _ => false

structure SwState where
  segs : List Seg
  evs : List Ev
  openH : List Nat := []        -- ascending (model of the address order of std::set<Event*>)
  openV : Option Nat := none
  cross : List Node := []       -- reverse creation order
  nextId : Nat
  deriving Repr

def insertAsc (i : Nat) : List Nat → List Nat
  | [] => [i]
  | j :: r => if i < j then i :: j :: r else if i = j then j :: r else j :: insertAsc i r

/-- the SUSTAIN arm with an open vertical `j`: a new crossing node, both segments cut -/
def crossAt (st : SwState) (i j : Nat) (e ov : Ev) : SwState :=
  let cr : Node := ⟨st.nextId, ⟨ov.cc, e.cc⟩⟩
  -- evt->seg->setNewClosingNode(cr); openV->seg->setNewClosingNode(cr);
  let segs := match st.segs[e.seg]? with
    | some s => st.segs.set e.seg (s.setNewClosing cr) | none => st.segs
  let segs := match segs[ov.seg]? with
    | some s => segs.set ov.seg (s.setNewClosing cr) | none => segs
  -- hseg = new EdgeSegment(cr, evt->companion->endpt); evt->companion->seg = hseg; push_back
  let nh := segs.length
  let (segs, evs) := match st.evs[e.comp]? with
    | some ce => (segs ++ [mkSeg cr ce.endpt], st.evs.set e.comp { ce with seg := nh })
    | none => (segs, st.evs)
  -- vseg = new EdgeSegment(cr, openV->companion->endpt); openV->companion->seg = vseg; push_back
  let nv := segs.length
  let (segs, evs) := match evs[ov.comp]? with
    | some cv => (segs ++ [mkSeg cr cv.endpt], evs.set ov.comp { cv with seg := nv })
    | none => (segs, evs)
  let evs := evs.set i { e with seg := nh, endpt := cr, vc := ov.cc }
  let evs := evs.set j { ov with seg := nv, endpt := cr, vc := e.cc }
  { st with segs := segs, evs := evs, cross := cr :: st.cross, nextId := st.nextId + 1 }

/-- body of the `switch` for one active event (index `i`); the `none` arms are unreachable
(indices are always in range) -/
def processEvent (st : SwState) (i : Nat) : SwState :=
  match st.evs[i]? with
  | none => st
  | some e =>
    match st.segs[e.seg]? with
    | none => st
    | some s =>
      match e.ty with
      | .close =>
        if s.ori = .H then { st with openH := st.openH.erase e.comp } else { st with openV := none }
      | .opn =>
        if s.ori = .H then
          { st with evs := st.evs.set i { e with ty := .sustain }, openH := insertAsc i st.openH }
        else { st with openV := some i }
      | .sustain =>
        match st.openV with
        | none => st
        | some j =>
          match st.evs[j]? with
          | none => st
          | some ov => crossAt st i j e ov

/-- one x-part: `openV = nullptr`; active = openH ++ part, sorted, processed in order -/
def sweepPart (st : SwState) (part : List Nat) : SwState :=
  let st := { st with openV := none }
  (stdSort (cmpEv st.evs) (st.openH ++ part)).foldl processEvent st

def evX (evs : List Ev) (i : Nat) : Rat :=
  match evs[i]? with
  | some e => e.endpt.p.x
  | none => 0

def xParts (evs : List Ev) : List (List Nat) :=
  partition (evX evs) tolX (List.range evs.length)

/-- `computeCrossings` on the current `m_edgeSegments` -/
def computeCrossings (segs : List Seg) (nextId : Nat) : SwState :=
  let evs := mkEvents 0 segs
  (xParts evs).foldl sweepPart { segs := segs, evs := evs, nextId := nextId }

/-! ### `planarise` -/

structure Input where
  nodes : List Node          -- in id order
  edges : List EdgeIn        -- in edge-id order
  deriving Repr, Inhabited

structure Output where
  bends : List (List Node)           -- per edge: `Edge::getBendNodes()` after the run
  bendNodes : List Node              -- new bend nodes, creation order
  ofEdges : List (Node × Node)       -- overlap-free graph edges, creation order
  crossNodes : List Node             -- crossing nodes, creation order
  nodes : List Node                  -- planar graph nodes: originals, bend nodes, crossing nodes
  segs : List Seg                    -- final m_edgeSegments
  edges : List (Nat × Nat)           -- planar graph edges (opening id, closing id), one per final segment
  deriving Repr, Inhabited

def firstFreeId (ns : List Node) : Nat := ns.foldl (fun m n => max m (n.id + 1)) 0

def overlapFreeEdges (segs : List Seg) : List (Node × Node) :=
  let hs := segs.filter (fun s => s.ori = .H)
  let vs := segs.filter (fun s => s.ori = .V)
  (computeNodeGroups hs ++ computeNodeGroups vs).flatMap consecutive

def zipEdgeSegs : List EdgeIn → List (List Node) → List Seg
  | e :: es, b :: bs => edgeSegs e.src e.tgt b ++ zipEdgeSegs es bs
  | _, _ => []

def planarise (inp : Input) : Output :=
  let (bst, bends) := uniqueBends { nextId := firstFreeId inp.nodes } inp.edges
  let segsA := zipEdgeSegs inp.edges bends
  let ofEdges := overlapFreeEdges segsA
  let segsB := ofEdges.map (fun e => mkSeg e.1 e.2)
  let st := computeCrossings segsB bst.nextId
  let crossNodes := st.cross.reverse
  { bends := bends, bendNodes := bst.store, ofEdges := ofEdges, crossNodes := crossNodes,
    nodes := inp.nodes ++ bst.store ++ crossNodes, segs := st.segs,
    edges := st.segs.map (fun s => (s.on.id, s.cn.id)) }

/-- the route segments of an input: `buildSegments` after `buildUniqueBendPoints` (what `planarise` calls `segsA`) -/
def segsAOf (inp : Input) : List Seg :=
  zipEdgeSegs inp.edges (uniqueBends { nextId := firstFreeId inp.nodes } inp.edges).2

/-- the segment list handed to `computeCrossings` (what `planarise` calls `segsB`) -/
def segsBOf (inp : Input) : List Seg := (overlapFreeEdges (segsAOf inp)).map (fun e => mkSeg e.1 e.2)

end AdaptaVerif.Model.Planarise
