/-
C14 (final routing of doHOLA) — model of the rule by which libavoid's
`buildOrthogonalNudgingSegments()` (cola/libavoid/orthogonal.cpp) decides how far the FIRST / LAST
segment of an orthogonal connector may be shifted when the routing option
`nudgeOrthogonalSegmentsConnectedToShapes` is on (doHOLA's final routing turns it on):

    minLim = -CHANNEL_MAX;  maxLim = CHANNEL_MAX;  endsInShapes = 0
    for every obstacle k (shapeLimits[k] = bounding box of the shape, zero buffer):
        if insideRectBounds(ps[i-1], shapeLimits[k]) { clamp to [shapeMin, shapeMax]; endsInShapes |= 0x01 }
        if insideRectBounds(ps[i],   shapeLimits[k]) { clamp to [shapeMin, shapeMax]; endsInShapes |= 0x10 }
    if endsInShapes == 0 { clamp to [pos - 15, pos + 15] }          // freeConnBuffer
    minLim == maxLim  =>  fixed segment, otherwise shiftable within [minLim, maxLim]

`a` = ps[i-1], `z` = ps[i] (the two ends of the segment, which is parallel to the other axis), `dimX = true` means
the segment is vertical and is shifted along x (`dim = 0`).  Core Lean only (linked into the driver).
Theorems: `Props/C14Limits.lean`; tie: `Driver/C14.lean` compares the limits of every shiftable final
segment dumped by the nudging hook during doHOLA with this model on the returned node boxes.
-/
import AdaptaVerif.Check.RouteRect
namespace AdaptaVerif.Model.FinalSegLimits
open AdaptaVerif.Check.RouteRect

/-- `CHANNEL_MAX` (libavoid/scanline.h) -/
def channelMax : Rat := 100000000
/-- `freeConnBuffer` -/
def freeConnBuffer : Rat := 15

def rmax (a b : Rat) : Rat := if a ≤ b then b else a
def rmin (a b : Rat) : Rat := if a ≤ b then a else b

/-- coordinate of a point in the shift dimension -/
def P.co (p : P) (dimX : Bool) : Rat := if dimX then p.x else p.y
/-- the point with its shift-dimension coordinate replaced by `v` -/
def P.setCo (p : P) (dimX : Bool) (v : Rat) : P := if dimX then ⟨v, p.y⟩ else ⟨p.x, v⟩
/-- extent of a rectangle in the shift dimension -/
def Rect.lo (r : Rect) (dimX : Bool) : Rat := if dimX then r.x0 else r.y0
def Rect.hi (r : Rect) (dimX : Bool) : Rat := if dimX then r.x1 else r.y1

/-- `insideRectBounds`: closed containment; the all-zero rectangle is the "invalid" one and contains nothing -/
def insideBounds (p : P) (r : Rect) : Bool :=
  !(decide (r.x0 = 0) && decide (r.y0 = 0) && decide (r.x1 = 0) && decide (r.y1 = 0))
    && decide (r.x0 ≤ p.x) && decide (p.x ≤ r.x1) && decide (r.y0 ≤ p.y) && decide (p.y ≤ r.y1)

/-- the running state of the loop over the obstacles: limits and the two `endsInShapes` bits -/
structure Lim where
  lo : Rat
  hi : Rat
  first : Bool      -- bit 0x01: ps[i-1] lies in some shape
  last : Bool       -- bit 0x10: ps[i]   lies in some shape
  deriving Repr, Inhabited, DecidableEq

def Lim.init : Lim := ⟨-channelMax, channelMax, false, false⟩

/-- clamp the limits to the extent of `r` -/
def Lim.clamp (l : Lim) (dimX : Bool) (r : Rect) : Lim :=
  { l with lo := rmax l.lo (Rect.lo r dimX), hi := rmin l.hi (Rect.hi r dimX) }

/-- loop body for one obstacle -/
def stepShape (dimX : Bool) (a z : P) (l : Lim) (r : Rect) : Lim :=
  let l1 := if insideBounds a r then { (l.clamp dimX r) with first := true } else l
  if insideBounds z r then { (l1.clamp dimX r) with last := true } else l1

/-- the loop over all obstacles -/
def shapeLimits (dimX : Bool) (a z : P) (shapes : List Rect) : Lim :=
  shapes.foldl (stepShape dimX a z) Lim.init

/-- the loop followed by the free-connector buffer (`pos = ps[i-1][dim]`) -/
def finalLimits (dimX : Bool) (a z : P) (shapes : List Rect) : Lim :=
  let l := shapeLimits dimX a z shapes
  if l.first || l.last then l
  else { l with lo := rmax l.lo (P.co a dimX - freeConnBuffer), hi := rmin l.hi (P.co a dimX + freeConnBuffer) }

/-- `minLim == maxLim`: the segment is registered as fixed -/
def Lim.isFixed (l : Lim) : Bool := decide (l.lo = l.hi)

end AdaptaVerif.Model.FinalSegLimits
