/-
The problem libavoid's POLYLINE router hands to the A* loop of Model/AStar.lean (Part 1), built from a dumped
visibility graph (core Lean only).  Read off `AStarPathPrivate::search` (makepath.cpp) for a polyline connector
without pins, checkpoints, clusters or rubber-band routing:
  * the edges of the expanded vertex are examined in visList order, each consuming a time stamp;
  * skipped: the edge we arrived along, connector end points other than the target, zero-length edges, and bends
    that `validateBendPoint` rejects;
  * step cost = getDist + segmentPenalty · bends of `cost()` (0 straight on, 2 doubling back, else 1; the first leg
    has no bend); h = euclideanDist to the target (0 at the target), as dumped.
The bend count and `validateBendPoint` are those of the search space of Check/OwnGraph.lean.
-/
import AdaptaVerif.Model.AStar
import AdaptaVerif.Check.OwnGraph
namespace AdaptaVerif.Model.PolyAStar
open AdaptaVerif.Model.AStar AdaptaVerif.Check.OwnGraph

structure PolyGraph where
  /-- bend count, `validateBendPoint`, penalty (the edge list of the space is not used here) -/
  S : Space
  /-- per vertex: its enabled edges in visList order (other vertex, getDist) -/
  adj : Array (List (Nat × Rat))
  /-- per vertex: euclideanDist to the target -/
  hs : Array Rat
  /-- is the vertex a shape corner (false: a connector end point) -/
  corner : Nat → Bool
  src : Nat
  tar : Nat
  eps : Rat

/-- the heuristic value of a node at w -/
def hOf (g : PolyGraph) (w : Nat) : Rat := if w = g.tar then 0 else g.hs.getD w 0

/-- one examined edge v → w of length d, coming from pv: `none` = skipped -/
def succOf (g : PolyGraph) (pv : Option Nat) (v : Nat) (wd : Nat × Rat) : Option Succ :=
  let w := wd.1
  if pv = some w then none
  else if !g.corner w && w ≠ g.tar then none
  else if wd.2 = 0 then none
  else match pv with
    | none => some { w := w, c := wd.2, h := hOf g w }
    | some p =>
      if !g.S.ok p v w then none
      else some { w := w, c := wd.2 + g.S.pen * (g.S.bend p v w : Nat), h := hOf g w }

def problem (g : PolyGraph) : Problem where
  src := g.src
  tar := g.tar
  h0 := hOf g g.src
  eps := g.eps
  succs := fun pv v => (g.adj.getD v []).map (succOf g pv v)

/-- the heuristic is consistent with the edge lengths (a triangle inequality on the dumped numbers) -/
def consistent (g : PolyGraph) : Bool :=
  (List.range g.adj.size).all fun v => (g.adj.getD v []).all fun wd => decide (hOf g v ≤ wd.2 + hOf g wd.1)

def fuel (g : PolyGraph) : Nat := 2 * (g.adj.foldl (fun a l => a + l.length) 0) + 4

def run (g : PolyGraph) : Outcome := search (problem g) (fuel g) (init (problem g))

end AdaptaVerif.Model.PolyAStar
