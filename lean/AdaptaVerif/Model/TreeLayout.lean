/-
Executable model of `dialect::Tree::symmetricLayout` (/repo/cola/libdialect/trees.cpp l.151-340) together
with `Tree::flip`, `Tree::translate`, `Tree::getBounds`, `Tree::computeIsomString` and the part of the
`Tree` constructor that the layout reads (`m_depth`, `m_breadth`).  Core Lean only (linked into driver_c19).

Numbers: `Rat` for `double`.  The layout only uses `+ − ×½ max min` and comparisons, so on dyadic inputs
of moderate size the C++ doubles are exact and the tie (Driver/C19.lean, `checkLayoutExact`) compares every
centre coordinate with `=`.

Data refinement (stated, not hidden): the C++ `Tree` keeps `m_nodes` (id ↦ node), `m_nodesByRank` and
`m_boundsByRank` as three containers; the model keeps one list of `Level`s, level `r` = the rank-`r`
bounds `[lo, hi]` plus the nodes of rank `r`.  A c-tree's rank `r-1` lies on its parent's rank `r`, which is
the `tail` of the parent's level list (`St.rest`).  Nodes are shared between a tree and its c-trees in the C++
(translate/flip of a c-tree moves the parent's nodes); in the model the parent takes over the moved nodes.

As coded, including the oddities:
 * the start values of the running max / min are `numeric_limits<double>::min()` (the smallest *positive*
   normal double, 2⁻¹⁰²², not the lowest) and `::max()`; `dblMin`, `dblMax` below are those numbers;
 * both `getBounds` calls pad by `nodeSep`, so neighbouring subtrees end up `2·nodeSep` apart;
 * the recursive calls on the c-trees use the default `convexOrdering = true`, whatever the caller passed;
 * `computeIsomString` never increments its class counter `k`, so every non-leaf gets isomNumber 1 and
   the "isomorphism string" only records, per rank, how many leaf / non-leaf children every non-leaf has;
 * the side placement overwrites the parent's rank bound with the subtree's bound unconditionally.
-/
namespace AdaptaVerif.Model.TreeLayout

/-- `dialect::CardinalDir` -/
inductive Dir where
  | east | south | west | north
  deriving DecidableEq, Repr, Inhabited

/-- `Compass::isVertical((CompassDir) growthDir)` -/
def Dir.isVertical : Dir → Bool
  | .north => true
  | .south => true
  | _ => false

structure Pt where
  x : Rat
  y : Rat
  deriving DecidableEq, Repr, Inhabited

/-- a node with its current centre and its dimensions (`Node::getDimensions`: first = w, second = h) -/
structure PNode where
  id : Nat
  c : Pt
  w : Rat
  h : Rat
  deriving DecidableEq, Repr, Inhabited

/-- rank `r` of a (sub)tree: `m_boundsByRank[r] = [lo, hi]` and the nodes of that rank -/
structure Level where
  lo : Rat
  hi : Rat
  nodes : List PNode
  deriving Repr, Inhabited

/-- the laid-out state of a `Tree`: per-rank data (`levels.length = m_depth`), `m_lb`, `m_ub` -/
structure Lay where
  levels : List Level
  lb : Rat
  ub : Rat
  deriving Repr, Inhabited

/-- rooted ordered forest in first-child / next-sibling form: `cons id w h kids rest` is a tree with
    root `(id, w, h)` and child forest `kids` (in `Node::getChildren` order), followed by the trees `rest` -/
inductive Forest where
  | nil
  | cons (id : Nat) (w h : Rat) (kids : Forest) (rest : Forest)
  deriving Repr, Inhabited

structure Cfg where
  dir : Dir
  nodeSep : Rat
  rankSep : Rat
  deriving Repr, Inhabited

/-- `std::max(a, b)` = `(a < b) ? b : a` -/
def rmax (a b : Rat) : Rat := if a < b then b else a
/-- `std::min(a, b)` = `(b < a) ? b : a` -/
def rmin (a b : Rat) : Rat := if b < a then b else a

/-- `std::numeric_limits<double>::min()` = 2⁻¹⁰²² -/
def dblMin : Rat := 1 / (2 ^ 1022 : Nat)
/-- `std::numeric_limits<double>::max()` = (2⁵³ − 1)·2⁹⁷¹ -/
def dblMax : Rat := (((2 ^ 53 - 1) * 2 ^ 971 : Nat) : Rat)

/-! ### `Tree::flip`, `Tree::translate` -/

/-- node part of `Tree::flip`: mirror in the y-axis for NORTH/SOUTH growth, in the x-axis otherwise -/
def flipPt (d : Dir) (q : Pt) : Pt := if d.isVertical then ⟨-q.x, q.y⟩ else ⟨q.x, -q.y⟩

def PNode.flip (d : Dir) (n : PNode) : PNode := { n with c := flipPt d n.c }

def PNode.translate (v : Pt) (n : PNode) : PNode := { n with c := ⟨n.c.x + v.x, n.c.y + v.y⟩ }

/-- bounds are swapped and negated -/
def Level.flip (d : Dir) (l : Level) : Level := ⟨-l.hi, -l.lo, l.nodes.map (PNode.flip d)⟩

def Lay.flip (d : Dir) (t : Lay) : Lay := ⟨t.levels.map (Level.flip d), -t.ub, -t.lb⟩

/-- `disp` of `Tree::translate`: the component of the vector transverse to the growth direction -/
def disp (d : Dir) (v : Pt) : Rat := if d.isVertical then v.x else v.y

def Level.translate (d : Dir) (v : Pt) (l : Level) : Level :=
  ⟨l.lo + disp d v, l.hi + disp d v, l.nodes.map (PNode.translate v)⟩

def Lay.translate (d : Dir) (v : Pt) (t : Lay) : Lay :=
  ⟨t.levels.map (Level.translate d v), t.lb + disp d v, t.ub + disp d v⟩

/-- the `switch (growthDir)` that sets `baseTrans` -/
def baseTrans (d : Dir) (rankSep : Rat) : Pt :=
  match d with
  | .east => ⟨rankSep, 0⟩
  | .south => ⟨0, rankSep⟩
  | .west => ⟨-rankSep, 0⟩
  | .north => ⟨0, -rankSep⟩

/-! ### placing the c-trees -/

/-- the per-rank loops "Tree t's rank r-1 lies on our own rank r": combine the subtree's levels `ts`
    with the parent's levels from rank 1 on.  The parent has `m_depth ≥ t->m_depth + 1` levels, so the
    second equation is never used on real data (it keeps the subtree's nodes instead of dropping them). -/
def overlay (f : Level → Level → Level) : List Level → List Level → List Level
  | [], ps => ps
  | t :: ts, [] => t :: ts
  | t :: ts, p :: ps => f t p :: overlay f ts ps

/-- central tree: both bounds of the rank are taken from the subtree -/
def fCentral (t p : Level) : Level := ⟨t.lo, t.hi, p.nodes ++ t.nodes⟩
/-- positive side (`a = 1`): the upper bound is overwritten -/
def fPos (t p : Level) : Level := ⟨p.lo, t.hi, p.nodes ++ t.nodes⟩
/-- negative side (`a = 0`): the lower bound is overwritten -/
def fNeg (t p : Level) : Level := ⟨t.lo, p.hi, p.nodes ++ t.nodes⟩

/-- loop state of "place the c-trees alternating around the centre" -/
structure St where
  /-- rank 0: `[-half, half]` and the root node -/
  root : Level
  /-- ranks 1 … m_depth-1 -/
  rest : List Level
  lb : Rat
  ub : Rat
  positiveNext : Bool
  mustCentral : Bool
  deriving Repr, Inhabited

/-- `if (mustPlaceCentralTree) { … }` -/
def placeCentral (cfg : Cfg) (st : St) (t : Lay) : St :=
  let t' := t.translate cfg.dir (baseTrans cfg.dir cfg.rankSep)
  let rest' := overlay fCentral t'.levels st.rest
  let lb := t'.levels.foldl (fun a l => if l.lo < a then l.lo else a) 0
  let ub := t'.levels.foldl (fun a l => if l.hi > a then l.hi else a) 0
  { st with rest := rest', lb := lb, ub := ub, mustCentral := false }

/-- the candidates `getBounds(r + 1, nodeSep)[a] - t->getBounds(r, nodeSep)[b]`, `r = 0 … t->m_depth-1` -/
def candidates (pos : Bool) (nodeSep : Rat) (rest : List Level) (ts : List Level) : List Rat :=
  List.zipWith (fun (p tl : Level) =>
    if pos then (p.hi + nodeSep) - (tl.lo - nodeSep) else (p.lo - nodeSep) - (tl.hi + nodeSep)) rest ts

def rootPosOf (pos : Bool) (cands : List Rat) : Rat :=
  if pos then cands.foldl rmax dblMin else cands.foldl rmin dblMax

/-- the subtree as the side branch finally positions it: flipped if it goes to the negative side, then
    translated by `(rootPos, baseTrans.y)` resp. `(baseTrans.x, rootPos)` -/
def sideMoved (cfg : Cfg) (st : St) (t : Lay) : Lay :=
  let pos := st.positiveNext
  let t1 := if pos then t else t.flip cfg.dir
  let rootPos := rootPosOf pos (candidates pos cfg.nodeSep st.rest t1.levels)
  let bt := baseTrans cfg.dir cfg.rankSep
  let trans : Pt := if cfg.dir.isVertical then ⟨rootPos, bt.y⟩ else ⟨bt.x, rootPos⟩
  t1.translate cfg.dir trans

/-- `else { … }`: place on the positive / negative side, update that side's bounds, alternate -/
def placeSide (cfg : Cfg) (st : St) (t : Lay) : St :=
  let pos := st.positiveNext
  let t2 := sideMoved cfg st t
  let rest' := overlay (if pos then fPos else fNeg) t2.levels st.rest
  let extreme :=
    if pos then (st.root :: rest').foldl (fun e l => rmax e l.hi) dblMin
    else (st.root :: rest').foldl (fun e l => rmin e l.lo) dblMax
  { st with rest := rest',
            ub := if pos then extreme else st.ub,
            lb := if pos then st.lb else extreme,
            positiveNext := !pos }

def place (cfg : Cfg) (st : St) (t : Lay) : St :=
  if st.mustCentral then placeCentral cfg st t else placeSide cfg st t

def maxDepth (ls : List Lay) : Nat := ls.foldl (fun m l => max m l.levels.length) 0

/-- state before the placement loop: root at (0,0), rank-0 bounds `±half`, all other rank bounds 0 -/
def initSt (cfg : Cfg) (id : Nat) (w h : Rat) (kidDepth : Nat) (haveCentral : Bool) : St :=
  let half := if cfg.dir.isVertical then w / 2 else h / 2
  { root := ⟨-half, half, [⟨id, ⟨0, 0⟩, w, h⟩]⟩,
    rest := List.replicate kidDepth ⟨0, 0, []⟩,
    lb := -half, ub := half, positiveNext := true, mustCentral := haveCentral }

def St.toLay (st : St) : Lay := ⟨st.root :: st.rest, st.lb, st.ub⟩

/-- root `(id, w, h)`, the already laid-out c-trees in placement order -/
def placeAll (cfg : Cfg) (id : Nat) (w h : Rat) (ordered : List Lay) (haveCentral : Bool) : Lay :=
  (ordered.foldl (place cfg) (initSt cfg id w h (maxDepth ordered) haveCentral)).toLay

/-! ### what the ordering of the c-trees reads: depth, breadth, isomorphism string, symmetry flag -/

/-- combinatorial data of a (sub)tree -/
structure Key where
  /-- number of nodes per rank; `m_depth = counts.length`, `m_breadth = max counts` -/
  counts : List Nat
  /-- for every rank that has non-leaves: the `isomTupleString`s of the non-leaves of that rank -/
  tuples : List (List String)
  /-- `m_isSymmetric` after `symmetricLayout` -/
  sym : Bool
  deriving Repr, Inhabited

def zipLong {α : Type} (f : α → α → α) : List α → List α → List α
  | [], ys => ys
  | x :: xs, [] => x :: xs
  | x :: xs, y :: ys => f x y :: zipLong f xs ys

def Key.depth (k : Key) : Nat := k.counts.length
def Key.breadth (k : Key) : Nat := k.counts.foldl max 0
def Key.isLeaf (k : Key) : Bool := k.counts.length ≤ 1

/-- insertion sort with a strict "less than" (`std::sort` with that comparator: for a strict weak order the
    sorted sequence is unique up to the order of equivalent elements; the two uses below sort plain strings,
    where equivalent = equal, and pairwise different class strings under the total order `classLt`).
    Structural recursion, so closed instances of the model reduce in the kernel.  That every sorted permutation
    equals this result is proved: Props/C19Layout `class_sort_is_determined`, `tuple_sort_is_determined`. -/
def insertBy {α : Type} (lt : α → α → Bool) (a : α) : List α → List α
  | [] => [a]
  | b :: bs => if lt a b then a :: b :: bs else b :: insertBy lt a bs

def isort {α : Type} (lt : α → α → Bool) : List α → List α
  | [] => []
  | a :: l => insertBy lt a (isort lt l)

def sortStr (l : List String) : List String := isort (fun a b => decide (a < b)) l

/-- `Tree::computeIsomString`: level strings from the deepest non-leaf rank up to the root, joined by ':';
    a level string is the sorted tuple strings of its non-leaves joined by ';' -/
def Key.isom (k : Key) : String :=
  ":".intercalate (k.tuples.reverse.map (fun ts => ";".intercalate (sortStr ts)))

/-- tuple string of a node: sorted isomNumbers of its children (0 for a leaf, 1 for any non-leaf: `k`
    is never incremented in the C++), joined by ',' -/
def tupleStr (ks : List Key) : String :=
  let a := (ks.filter (·.isLeaf)).length
  let b := (ks.filter (fun k => !k.isLeaf)).length
  ",".intercalate (List.replicate a "0" ++ List.replicate b "1")

/-- the distinct strings of a list, first occurrences in order (the keys of `classes`) -/
def dedup : List String → List String
  | [] => []
  | a :: l => a :: (dedup l).filter (fun b => b != a)

/-- indices of the c-trees in class `s`, in c-tree order (`classes[s]`) -/
def classIdx (isoms : List String) (s : String) : List Nat :=
  (List.range isoms.length).filter (fun i => isoms[i]? == some s)

/-- the classes of odd order -/
def oddClasses (isoms : List String) : List String :=
  (dedup isoms).filter (fun s => (classIdx isoms s).length % 2 == 1)

/-- `m_isSymmetric`: no odd class → true; several → false; exactly one → its first member's flag -/
def symOf (ks : List Key) : Bool :=
  let isoms := ks.map Key.isom
  match oddClasses isoms with
  | [] => true
  | [o] => match (classIdx isoms o).head? with
           | some i => (ks[i]?.map (·.sym)).getD false
           | none => false
  | _ => false

def mkKey (ks : List Key) : Key :=
  { counts := 1 :: (ks.map (·.counts)).foldl (zipLong (· + ·)) [],
    tuples := if ks.isEmpty then [] else [tupleStr ks] :: (ks.map (·.tuples)).foldl (zipLong (· ++ ·)) [],
    sym := symOf ks }

/-- keys of the trees of a forest -/
def keys : Forest → List Key
  | .nil => []
  | .cons _ _ _ kids rest => mkKey (keys kids) :: keys rest

/-- (id, key) of the subtree rooted at every node of a forest, in preorder -/
def allKeys : Forest → List (Nat × Key)
  | .nil => []
  | .cons id _ _ kids rest => (id, mkKey (keys kids)) :: (allKeys kids ++ allKeys rest)

/-- the comparator of the `std::sort` of the isom strings (`rep s` = breadth and depth of `classes[s][0]`) -/
def classLt (convex : Bool) (rep : String → Nat × Nat) (a b : String) : Bool :=
  let (bA, dA) := rep a
  let (bB, dB) := rep b
  if bA > bB then convex
  else if bB > bA then !convex
  else if dA > dB then convex
  else if dB > dA then !convex
  else decide (a < b)

/-- An ordering of the c-trees: from `convexOrdering` and the c-trees' keys to the placement sequence
    (indices into the c-tree list) and `haveCentralTree`. -/
abbrev Order := Bool → List Key → List Nat × Bool

/-- The ordering as coded: classes by isom string, class strings sorted with `classLt` (a strict total
    order on distinct strings, so every correct sort gives the same sequence), the single odd class moved
    to the front. -/
def isomOrder : Order := fun convex ks =>
  let isoms := ks.map Key.isom
  let rep : String → Nat × Nat := fun s =>
    match ks.find? (fun k => k.isom == s) with
    | some k => (k.breadth, k.depth)
    | none => (0, 0)
  let sorted := isort (classLt convex rep) (dedup isoms)
  match oddClasses isoms with
  | [o] => ((o :: sorted.erase o).flatMap (classIdx isoms), true)
  | _ => (sorted.flatMap (classIdx isoms), false)

def pick (perm : List Nat) (ls : List Lay) : List Lay := perm.filterMap (fun i => ls[i]?)

/-! ### the recursion -/

/-- one `symmetricLayout` call once the c-trees are laid out -/
def layoutNode (ord : Order) (cfg : Cfg) (convex : Bool) (id : Nat) (w h : Rat)
    (kidLays : List Lay) (kidKeys : List Key) : Lay :=
  let o := ord convex kidKeys
  placeAll cfg id w h (pick o.1 kidLays) o.2

/-- the recursive calls `c->symmetricLayout(growthDir, nodeSep, rankSep)` (convexOrdering defaulted to true) -/
def layoutAll (ord : Order) (cfg : Cfg) : Forest → List Lay
  | .nil => []
  | .cons id w h kids rest =>
    layoutNode ord cfg true id w h (layoutAll ord cfg kids) (keys kids) :: layoutAll ord cfg rest

/-- `Tree(G, root).symmetricLayout(dir, nodeSep, rankSep, convexOrdering)` for the tree with root
    `(id, w, h)` and child forest `kids`, for an arbitrary ordering of the c-trees -/
def layoutWith (ord : Order) (cfg : Cfg) (convex : Bool) (id : Nat) (w h : Rat) (kids : Forest) : Lay :=
  layoutNode ord cfg convex id w h (layoutAll ord cfg kids) (keys kids)

/-- … with the ordering as coded -/
def symmetricLayout (cfg : Cfg) (convex : Bool) (id : Nat) (w h : Rat) (kids : Forest) : Lay :=
  layoutWith isomOrder cfg convex id w h kids

/-- `isSymmetrical()` afterwards -/
def isSymmetrical (kids : Forest) : Bool := symOf (keys kids)

def Lay.nodes (t : Lay) : List PNode := t.levels.flatMap (·.nodes)

/-- the order in which the C++ placed the c-trees, as indices (for the driver's statistics) -/
def placementOf (convex : Bool) (kids : Forest) : List Nat × Bool := isomOrder convex (keys kids)

/-! ### boxes -/

/-- the boxes `[cx ± w/2] × [cy ± h/2]` of two nodes do not overlap with positive area -/
def noOverlap (m n : PNode) : Prop :=
  m.c.x + m.w / 2 ≤ n.c.x - n.w / 2 ∨ n.c.x + n.w / 2 ≤ m.c.x - m.w / 2 ∨
  m.c.y + m.h / 2 ≤ n.c.y - n.h / 2 ∨ n.c.y + n.h / 2 ≤ m.c.y - m.h / 2

instance (m n : PNode) : Decidable (noOverlap m n) := by unfold noOverlap; infer_instance

end AdaptaVerif.Model.TreeLayout
