/-
What `estimatedCostSpecific` (libavoid/makepath.cpp) reads of the connector being routed.
Field values come from `lineRef->routingType()` and
`lineRef->router()->routingParameter(segmentPenalty)`.  Core Lean only.
-/
import AdaptaVerif.Model.Geometry
namespace AdaptaVerif.Model.EstimateKeys
export AdaptaVerif.Model.Geometry (Pt)

structure ConnK where
  /-- `ConnType`: 1 = ConnType_PolyLine, 2 = ConnType_Orthogonal -/
  connType : Nat
  segmentPenalty : Rat
  deriving Repr, DecidableEq, Inhabited

end AdaptaVerif.Model.EstimateKeys
