/-
Model of libavoid's *naive* polyline visibility test (`router->UseLeesAlgorithm = false`):
`EdgeInf::checkVis` / `EdgeInf::firstBlocker` (cola/libavoid/graph.cpp) over the geometry kernels
of Model/Geometry (`segmentShapeIntersect`, `inValidRegion`).  Core Lean only.

The C++ walks the router's vertex list shape by shape, feeding the shape edges (k->shPrev, k) to
`segmentShapeIntersect` with one in/out flag `seenIntersectionAtEndpoint` that is reset at every
new shape; shapes in `contains[endpoint]` are skipped.  `Router::newBlockingShape` applies the same
per-shape loop (edges (p_i, p_{i+1})) to existing edges when a shape is added later; the result of
the per-shape loop does not depend on the edge order (true iff some proper crossing, or ≥ 2
endpoint touches), so the final visibility-edge set of a transaction that adds all shapes is
`visible` evaluated on the final scene.
-/
import AdaptaVerif.Model.Geometry
namespace AdaptaVerif.Model.Visibility
open AdaptaVerif.Model.Geometry (Pt vecDir segmentShapeIntersect inValidRegion inPoly)

/-- a vertex of the visibility graph -/
structure VVert where
  pt : Pt
  /-- connector endpoint (`VertID::isConnPt`) -/
  isConn : Bool
  /-- shape index (corners only) -/
  shape : Nat := 0
  /-- `shPrev->point`, `shNext->point` (corners only) -/
  prev : Pt := ⟨0, 0⟩
  next : Pt := ⟨0, 0⟩
  /-- `router->contains[id]` (connector endpoints only): indices of shapes with the point strictly inside -/
  contains : List Nat := []
  deriving Repr, Inhabited

/-- the per-shape loop of `firstBlocker`: edges in loop order, flag threaded through -/
def shapeBlocksGo (a b : Pt) : List (Pt × Pt) → Bool → Bool
  | [], _ => false
  | e :: es, seen =>
    let r := segmentShapeIntersect a b e.1 e.2 seen
    if r.1 then true else shapeBlocksGo a b es r.2

/-- does this shape block the segment ab according to the code -/
def shapeBlocks (poly : List Pt) (a b : Pt) : Bool :=
  shapeBlocksGo a b (Geometry.edges poly) false

/-- `EdgeInf::firstBlocker`: index of the first shape (not in `skip`) that blocks ab -/
def firstBlockerFrom (skip : List Nat) (a b : Pt) : List (List Pt) → Nat → Option Nat
  | [], _ => none
  | s :: ss, i =>
    if skip.contains i then firstBlockerFrom skip a b ss (i + 1)
    else if shapeBlocks s a b then some i
    else firstBlockerFrom skip a b ss (i + 1)

def firstBlocker (shapes : List (List Pt)) (i j : VVert) : Option Nat :=
  let skip := (if i.isConn then i.contains else []) ++ (if j.isConn then j.contains else [])
  firstBlockerFrom skip i.pt j.pt shapes 0

/-- the `cone1` / `cone2` computation of `checkVis` for endpoint i looking at j -/
def cone (ignoreRegions : Bool) (i j : VVert) : Bool :=
  if !i.isConn then inValidRegion ignoreRegions i.prev i.pt i.next j.pt
  else if !ignoreRegions then !((!j.isConn) && i.contains.contains j.shape)
  else true

/-- `checkVis`: the edge i–j is put into the visibility graph -/
def visible (ignoreRegions : Bool) (shapes : List (List Pt)) (i j : VVert) : Bool :=
  cone ignoreRegions i j && cone ignoreRegions j i && (firstBlocker shapes i j).isNone

/-- corner vertices of shape number `si` -/
def cornersOf (si : Nat) (poly : List Pt) : List VVert :=
  let n := poly.length
  (List.range n).map fun k =>
    { pt := poly.getD k ⟨0, 0⟩, isConn := false, shape := si,
      prev := poly.getD ((k + n - 1) % n) ⟨0, 0⟩, next := poly.getD ((k + 1) % n) ⟨0, 0⟩ }

def containsOf (shapes : List (List Pt)) (p : Pt) : List Nat :=
  (List.range shapes.length).filter fun i => inPoly (shapes.getD i []) p false

def connVert (shapes : List (List Pt)) (p : Pt) : VVert :=
  { pt := p, isConn := true, contains := containsOf shapes p }

end AdaptaVerif.Model.Visibility
