/-
Hand-written executable model of the incremental VPSC solver
(cola/libvpsc/{solve_VPSC.cpp, block.cpp, constraint.h, variable.h}; the fork in
cola/libavoid/vpsc.cpp is the same algorithm) over exact rationals.  Core Lean only.

Mirrors, function by function:
  IncSolver::{IncSolver, addConstraint, satisfy, solve, moveBlocks, splitBlocks, mostViolated, copyResult}
  Block::{merge (both overloads), split, splitBetween, findMinLM, findMinLMBetween, compute_dfdv,
          split_path, populateSplitBlock, isActiveDirectedPathBetween, updateWeightedPosition, cost}
  Blocks::{cleanup, insert, cost},  Constraint::slack,  Variable::{position, dfdv}
Pointers become indices; `Blocks::m_blocks` is `order` (a vector of block ids, same push/compaction
order as the code); blocks that were `new`ed but not yet inserted simply are not in `order`.
All loops / tree recursions take fuel; running out of fuel is reported (`fuelOut`), never hidden.

Every order decision (`<` on doubles in the code) records its margin |a-b| in `St.margin`
(DESIGN.md section 3, margin-guarded strict correspondence).

The static `Solver` (Blocks::mergeLeft/mergeRight + pairing heaps) is NOT modelled here; its outputs
are validated by the proven checkers of `Check/Vpsc.lean` only.
-/
namespace AdaptaVerif.Model.Vpsc

/-- `static const double ZERO_UPPERBOUND=-1e-10;` (solve_VPSC.cpp:46) -/
def ZERO_UPPERBOUND : Rat := -1 / 10000000000
/-- `static const double LAGRANGIAN_TOLERANCE=-1e-4;` (solve_VPSC.cpp:47) -/
def LAGRANGIAN_TOLERANCE : Rat := -1 / 10000
/-- the `0.0001` of `IncSolver::solve`'s cost-change loop -/
def COST_EPS : Rat := 1 / 10000

def BIG : Rat := 1000000000000000000000000000000

def rabs (x : Rat) : Rat := if x < 0 then -x else x
def rmin (a b : Rat) : Rat := if b < a then b else a

structure Var where
  desired : Rat
  weight : Rat
  scale : Rat
  offset : Rat := 0
  block : Nat := 0
  ins : Array Nat := #[]
  outs : Array Nat := #[]
  deriving Repr, Inhabited

structure Con where
  l : Nat
  r : Nat
  gap : Rat
  eq : Bool
  active : Bool := false
  unsat : Bool := false
  deriving Repr, Inhabited

structure Block where
  vars : Array Nat := #[]
  /-- `ps.scale` : scale of the first variable added -/
  scale : Rat := 1
  posn : Rat := 0
  deleted : Bool := false
  deriving Repr, Inhabited

structure St where
  vars : Array Var
  cons : Array Con
  /-- `Constraint::lm`, kept beside `cons` -/
  lm : Array Rat
  /-- every block ever allocated, indexed by block id -/
  blocks : Array Block
  /-- `Blocks::m_blocks` -/
  order : Array Nat
  inactive : Array Nat
  /-- smallest margin of an order decision so far -/
  margin : Rat := BIG
  fuelOut : Bool := false
  nMerge : Nat := 0
  nSplit : Nat := 0        -- splitBlocks splits
  nSplitBetween : Nat := 0 -- in-block splits in satisfy
  nFlagPath : Nat := 0     -- flagged via isActiveDirectedPathBetween
  nFlagNoSplit : Nat := 0  -- flagged via UnsatisfiableException (no split point)
  nResat : Nat := 0        -- "v was satisfied by the above split"
  deriving Inhabited

def St.note (st : St) (m : Rat) : St := { st with margin := rmin st.margin (rabs m) }

/-! ### small named updates (keeps the terms of the step functions small) -/

def St.insertBlocks (st : St) (a b : Nat) : St := { st with order := (st.order.push a).push b }
def St.insertBlock (st : St) (a : Nat) : St := { st with order := st.order.push a }
def St.pushInactive (st : St) (v : Nat) : St := { st with inactive := st.inactive.push v }
def St.okAnd (st : St) (ok : Bool) : St := { st with fuelOut := st.fuelOut || !ok }
def St.setLm (st : St) (lm : Array Rat) : St := { st with lm := lm }
def St.incSplit (st : St) : St := { st with nSplit := st.nSplit + 1 }
def St.incSplitBetween (st : St) : St := { st with nSplitBetween := st.nSplitBetween + 1 }
def St.incFlagPath (st : St) : St := { st with nFlagPath := st.nFlagPath + 1 }
def St.incFlagNoSplit (st : St) : St := { st with nFlagNoSplit := st.nFlagNoSplit + 1 }
def St.incResat (st : St) : St := { st with nResat := st.nResat + 1 }

/-! ### positions -/

/-- `Variable::position()` given the variable and its block -/
def posOf (v : Var) (b : Block) : Rat := (b.scale * b.posn + v.offset) / v.scale

def St.pos (st : St) (i : Nat) : Rat :=
  let v := st.vars[i]!
  posOf v st.blocks[v.block]!

/-- scaled coordinate `scale_i * position_i` = `ps.scale*posn + offset` -/
def St.uval (st : St) (i : Nat) : Rat :=
  let v := st.vars[i]!
  let b := st.blocks[v.block]!
  b.scale * b.posn + v.offset

/-- `Constraint::slack()`; `none` = DBL_MAX (flagged unsatisfiable) -/
def St.slack (st : St) (ci : Nat) : Option Rat :=
  let c := st.cons[ci]!
  if c.unsat then none else some (st.uval c.r - c.gap - st.uval c.l)

/-- `Block::updateWeightedPosition` / the `ps` bookkeeping of `addVariable`: returns (ps.scale, posn) -/
def blockPosn (vars : Array Var) (members : Array Nat) : Rat × Rat :=
  let s := (vars[members[0]!]!).scale
  let (ab, ad, a2) := members.foldl (init := ((0 : Rat), (0 : Rat), (0 : Rat))) fun (ab, ad, a2) i =>
    let v := vars[i]!
    let ai := s / v.scale
    let bi := v.offset / v.scale
    (ab + v.weight * ai * bi, ad + v.weight * ai * v.desired, a2 + v.weight * ai * ai)
  (s, (ad - ab) / a2)

def St.refreshBlock (st : St) (bid : Nat) : St :=
  let b := st.blocks[bid]!
  let (s, p) := blockPosn st.vars b.vars
  { st with blocks := st.blocks.set! bid { b with scale := s, posn := p } }

/-! ### construction, addConstraint -/

def mkCon (l r : Nat) (gap : Rat) (eq : Bool) : Con := { l := l, r := r, gap := gap, eq := eq }

def St.linkCon (st : St) (ci : Nat) (c : Con) : St :=
  let vl := st.vars[c.l]!
  let vars := st.vars.set! c.l { vl with outs := vl.outs.push ci }
  let vr := vars[c.r]!
  let vars := vars.set! c.r { vr with ins := vr.ins.push ci }
  { st with vars := vars }

/-- `IncSolver::addConstraint` (the caller pushes the constraint on its own vector as well) -/
def St.addConstraint (st : St) (c : Con) : St :=
  let ci := st.cons.size
  let st := { st with cons := st.cons.push { c with active := false }, lm := st.lm.push 0,
                      inactive := st.inactive.push ci }
  st.linkCon ci c

/-- `IncSolver::IncSolver(vs, cs)`: one block per variable, all constraints inactive -/
def St.init (vs : Array (Rat × Rat × Rat)) (cs : Array Con) : St :=
  let vars : Array Var := vs.mapIdx fun i (d, w, s) => { desired := d, weight := w, scale := s, block := i }
  let blocks : Array Block := vs.mapIdx fun i (d, _, s) => { vars := #[i], scale := s, posn := d }
  let st : St := { vars := vars, cons := #[], lm := #[], blocks := blocks,
                   order := Array.range vs.size, inactive := #[] }
  cs.foldl (fun st c => st.addConstraint c) st

def St.setDesired (st : St) (i : Nat) (d : Rat) : St :=
  { st with vars := st.vars.set! i { st.vars[i]! with desired := d } }

/-! ### traversals of the active tree -/

def canFollowRight (st : St) (bid : Nat) (c : Con) (last : Option Nat) : Bool :=
  (st.vars[c.r]!).block == bid && c.active && last != some c.r

def canFollowLeft (st : St) (bid : Nat) (c : Con) (last : Option Nat) : Bool :=
  (st.vars[c.l]!).block == bid && c.active && last != some c.l

/-- `Variable::dfdv()` -/
def St.dfdv (st : St) (i : Nat) : Rat :=
  let v := st.vars[i]!
  2 * v.weight * (st.pos i - v.desired)

/-- `Block::compute_dfdv(v,u[,min_lm])`: returns the updated `lm` array, the constraints in the order
    in which the code assigns their `lm` (post-order), the value `dfdv/scale`, and a fuel-ok flag. -/
def computeDfdv (st : St) (bid : Nat) : Nat → Array Rat → Array Nat → Nat → Option Nat →
    Array Rat × Array Nat × Rat × Bool
  | 0, lm, post, _, _ => (lm, post, 0, false)
  | fuel + 1, lm, post, v, u =>
    let var := st.vars[v]!
    let acc := var.outs.foldl (init := (lm, post, st.dfdv v, true)) fun (lm, post, d, ok) ci =>
      let c := st.cons[ci]!
      if canFollowRight st bid c u then
        let (lm, post, sub, ok') := computeDfdv st bid fuel lm post c.r (some v)
        (lm.set! ci sub, post.push ci, d + sub * (st.vars[c.l]!).scale, ok && ok')
      else (lm, post, d, ok)
    let acc := var.ins.foldl (init := acc) fun (lm, post, d, ok) ci =>
      let c := st.cons[ci]!
      if canFollowLeft st bid c u then
        let (lm, post, sub, ok') := computeDfdv st bid fuel lm post c.l (some v)
        let l := -sub
        (lm.set! ci l, post.push ci, d - l * (st.vars[c.r]!).scale, ok && ok')
      else (lm, post, d, ok)
    let (lm, post, d, ok) := acc
    (lm, post, d / var.scale, ok)

/-- first strict minimum of a list of (index, value) in list order, as the code's
    `min==nullptr || x < min->x` loops compute it; also the gap to the runner-up (BIG if alone) -/
def argMinFirst (xs : Array (Nat × Rat)) : Option (Nat × Rat × Rat) :=
  let xs' := xs.mapIdx fun k (p : Nat × Rat) => (k, p.1, p.2)
  match xs'.foldl (init := (none : Option (Nat × Nat × Rat))) (fun best p =>
      match best with
      | none => some p
      | some (_, _, bx) => if p.2.2 < bx then some p else best) with
  | none => none
  | some (k, i, x) =>
    let gap := xs'.foldl (init := BIG) fun g (p : Nat × Nat × Rat) => if p.1 == k then g else rmin g (p.2.2 - x)
    some (i, x, gap)

/-- `Block::findMinLM()`: (state with lm set, min constraint, its lm, arg-min margin) -/
def St.findMinLM (st : St) (bid : Nat) : St × Option (Nat × Rat × Rat) :=
  let b := st.blocks[bid]!
  let (lm, post, _, ok) := computeDfdv st bid (st.vars.size + 1) st.lm #[] b.vars[0]! none
  let st := { st with lm := lm, fuelOut := st.fuelOut || !ok }
  let cands := (post.filter fun ci => !(st.cons[ci]!).eq).map fun ci => (ci, lm[ci]!)
  (st, argMinFirst cands)

/-- `Block::isActiveDirectedPathBetween(u, v)` -/
def isActiveDirectedPathBetween (st : St) (bid : Nat) : Nat → Nat → Nat → Bool × Bool
  | 0, _, _ => (false, false)
  | fuel + 1, u, v =>
    if u == v then (true, true) else
    (st.vars[u]!).outs.foldl (init := (false, true)) fun (found, ok) ci =>
      if found then (found, ok) else
      let c := st.cons[ci]!
      if canFollowRight st bid c none then
        let (f, ok') := isActiveDirectedPathBetween st bid fuel c.r v
        (f, ok && ok')
      else (found, ok)

/-- `Block::split_path(r, v, u, m)` (desperation=false): `none` = no path; `some cands` = the
    non-equality constraints traversed left-to-right on the path, in the order the code compares them
    (nearest to `r` first). -/
def splitPath (st : St) (bid : Nat) (r : Nat) : Nat → Nat → Option Nat → Option (Array Nat) × Bool
  | 0, _, _ => (none, false)
  | fuel + 1, v, u =>
    let var := st.vars[v]!
    let res := var.ins.foldl (init := ((none : Option (Array Nat)), true)) fun (found, ok) ci =>
      if found.isSome then (found, ok) else
      let c := st.cons[ci]!
      if canFollowLeft st bid c u then
        if c.l == r then (some #[], ok)
        else
          let (f, ok') := splitPath st bid r fuel c.l (some v)
          (f, ok && ok')
      else (found, ok)
    var.outs.foldl (init := res) fun (found, ok) ci =>
      if found.isSome then (found, ok) else
      let c := st.cons[ci]!
      if canFollowRight st bid c u then
        if c.r == r then (some (if c.eq then #[] else #[ci]), ok)
        else
          let (f, ok') := splitPath st bid r fuel c.r (some v)
          match f with
          | some cands => (some (if c.eq then cands else cands.push ci), ok && ok')
          | none => (none, ok && ok')
      else (found, ok)

/-- `Block::populateSplitBlock(b, v, u)`: moves `v` and everything reachable in the active tree
    (not back over `u`) from block `old` to block `nb`; returns vars and the member list in visit order -/
def populateSplit (cons : Array Con) (old nb : Nat) : Nat → Array Var → Array Nat → Nat → Option Nat →
    Array Var × Array Nat × Bool
  | 0, vars, mem, _, _ => (vars, mem, false)
  | fuel + 1, vars, mem, v, u =>
    let var := vars[v]!
    let vars := vars.set! v { var with block := nb }
    let mem := mem.push v
    let acc := var.ins.foldl (init := (vars, mem, true)) fun (vars, mem, ok) ci =>
      let c := cons[ci]!
      if (vars[c.l]!).block == old && c.active && u != some c.l then
        let (vars, mem, ok') := populateSplit cons old nb fuel vars mem c.l (some v)
        (vars, mem, ok && ok')
      else (vars, mem, ok)
    var.outs.foldl (init := acc) fun (vars, mem, ok) ci =>
      let c := cons[ci]!
      if (vars[c.r]!).block == old && c.active && u != some c.r then
        let (vars, mem, ok') := populateSplit cons old nb fuel vars mem c.r (some v)
        (vars, mem, ok && ok')
      else (vars, mem, ok)

/-- `Block::split(l, r, c)`: deactivates `c`, allocates two new blocks; returns their ids.
    The old block is *not* marked deleted here (callers do that). -/
def St.split (st : St) (old : Nat) (ci : Nat) : St × Nat × Nat :=
  let c := st.cons[ci]!
  let cons := st.cons.set! ci { c with active := false }
  let lid := st.blocks.size
  let rid := lid + 1
  let fuel := st.vars.size + 1
  let (vars, lmem, ok1) := populateSplit cons old lid fuel st.vars #[] c.l (some c.r)
  let (vars, rmem, ok2) := populateSplit cons old rid fuel vars #[] c.r (some c.l)
  let blocks := (st.blocks.push { vars := lmem }).push { vars := rmem }
  let st := { st with cons := cons, vars := vars, blocks := blocks, fuelOut := st.fuelOut || !ok1 || !ok2 }
  ((st.refreshBlock lid).refreshBlock rid, lid, rid)

/-! ### merge -/

/-- the variable update of `Block::merge(b, c, dist)`: every variable of block `src` gets
    `offset += dist` and moves to block `dst` -/
def shiftVars (vars : Array Var) (src dst : Nat) (dist : Rat) : Array Var :=
  vars.map fun v => if v.block == src then { v with offset := v.offset + dist, block := dst } else v

/-- `Block* Block::merge(Block* b, Constraint* c)` : merge the blocks of `c`'s two ends across `c`,
    the smaller into the larger (ties: right into left); returns the surviving block id -/
def St.mergeAcross (st : St) (ci : Nat) : St × Nat :=
  let c := st.cons[ci]!
  let vl := st.vars[c.l]!
  let vr := st.vars[c.r]!
  let dist := vr.offset - vl.offset - c.gap
  let lb := vl.block
  let rb := vr.block
  let (dst, src, d) :=
    if (st.blocks[lb]!).vars.size < (st.blocks[rb]!).vars.size then (rb, lb, dist) else (lb, rb, -dist)
  let cons := st.cons.set! ci { c with active := true }
  let vars := shiftVars st.vars src dst d
  let bd := st.blocks[dst]!
  let bs := st.blocks[src]!
  let blocks := st.blocks.set! dst { bd with vars := bd.vars ++ bs.vars }
  let blocks := blocks.set! src { bs with deleted := true }
  let st := { st with cons := cons, vars := vars, blocks := blocks, nMerge := st.nMerge + 1 }
  (st.refreshBlock dst, dst)

/-! ### Blocks -/

/-- `Blocks::cleanup()` -/
def St.cleanup (st : St) : St :=
  { st with order := st.order.filter fun b => !(st.blocks[b]!).deleted }

def St.markDeleted (st : St) (bid : Nat) : St :=
  { st with blocks := st.blocks.set! bid { st.blocks[bid]! with deleted := true } }

/-- `Blocks::cost()` -/
def St.cost (st : St) : Rat :=
  st.order.foldl (init := 0) fun acc bid =>
    (st.blocks[bid]!).vars.foldl (init := acc) fun acc i =>
      let v := st.vars[i]!
      let diff := st.pos i - v.desired
      acc + v.weight * diff * diff

/-- `IncSolver::moveBlocks()` -/
def St.moveBlocks (st : St) : St :=
  st.order.foldl (fun st bid => st.refreshBlock bid) st

/-- the split as all callers perform it: `Block::split` on constraint `ci` of block `old`, the old
    block is marked deleted, and `ci` goes back on the `inactive` list; returns the new block ids
    (the callers then insert them into `Blocks::m_blocks`) -/
def St.splitOn (st : St) (old : Nat) (ci : Nat) : St × Nat × Nat :=
  let r := st.split old ci
  ((r.1.markDeleted old).pushInactive ci, r.2.1, r.2.2)

/-- body of the loop of `IncSolver::splitBlocks()` for the block at position `i` of `m_blocks` -/
def St.splitBlockStep (st : St) (i : Nat) : St :=
  let bid := st.order[i]!
  let r := st.findMinLM bid
  match r.2 with
  | none => r.1
  | some (ci, lmv, gap) =>
    let st := r.1.note (lmv - LAGRANGIAN_TOLERANCE)
    if lmv < LAGRANGIAN_TOLERANCE then
      let st := st.note gap
      let old := (st.vars[(st.cons[ci]!).l]!).block
      let q := st.splitOn old ci
      (q.1.insertBlocks q.2.1 q.2.2).incSplit
    else st

/-- `IncSolver::splitBlocks()` -/
def St.splitBlocks (st : St) : St :=
  let st := st.moveBlocks
  let len := st.order.size
  ((List.range len).foldl St.splitBlockStep st).cleanup

/-- `IncSolver::mostViolated(inactive)`; returns the chosen constraint (if any), with the inactive
    list updated exactly as the code does (swap-with-last removal under the same condition) -/
def St.mostViolated (st : St) : St × Option Nat :=
  let l := st.inactive
  if l.size == 0 then (st, none) else
  -- first equality wins outright
  match l.findIdx? (fun ci => (st.cons[ci]!).eq) with
  | some k =>
    -- candidates before k only matter if no equality: the loop breaks at k with mostViolated = l[k]
    let ci := l[k]!
    let l' := (l.set! k l[l.size - 1]!).pop
    ({ st with inactive := l' }, some ci)
  | none =>
    let sl := l.filterMap fun ci => (st.slack ci).map fun s => (ci, s)
    match argMinFirst sl with
    | none => (st, none)   -- every entry flagged (slack = DBL_MAX): the code returns nullptr
    | some (ci, s, gap) =>
      let st := st.note (s - ZERO_UPPERBOUND)
      let c := st.cons[ci]!
      if s < ZERO_UPPERBOUND && !c.active then
        let st := st.note gap
        match l.findIdx? (· == ci) with
        | some k => ({ st with inactive := (l.set! k l[l.size - 1]!).pop }, some ci)
        | none => (st, some ci)
      else (st, some ci)

/-! ### satisfy / solve -/

inductive Outcome where
  | ok (pos : Array Rat) (ret : Bool)
  | threw
  | outOfFuel
  deriving Repr, Inhabited

/-- `v->unsatisfiable=true` -/
def St.flag (st : St) (v : Nat) : St :=
  { st with cons := st.cons.set! v { st.cons[v]! with unsat := true } }

/-- the tail of the in-block case of `IncSolver::satisfy` after `splitBetween` produced the new
    blocks `lid`, `rid`: either `v` got satisfied by the split, or the two blocks are merged across `v` -/
def St.afterSplit (st : St) (v lid rid : Nat) : St :=
  match st.slack v with
  | none => st
  | some s =>
    let st := st.note s
    if s ≥ 0 then
      ((st.pushInactive v).insertBlocks lid rid).incResat
    else
      let r := st.mergeAcross v
      r.1.insertBlock r.2

/-- `Block::findMinLMBetween`, first half: recompute the multipliers of the block and search the
    active path from `v.left` to `v.right` (`split_path`); returns the candidate split constraints
    (the non-equality constraints traversed left-to-right on the path), `none` if no path was found -/
def St.searchSplit (st : St) (v : Nat) : St × Option (Array Nat) :=
  let c := st.cons[v]!
  let lb := (st.vars[c.l]!).block
  let fuel := st.vars.size + 1
  let d := computeDfdv st lb fuel st.lm #[] (st.blocks[lb]!).vars[0]! none
  let st1 := (st.setLm d.1).okAnd d.2.2.2
  let p := splitPath st1 lb c.r fuel c.l none
  (st1.okAnd p.2, p.1)

/-- second half of `splitBetween`: choose the candidate with the smallest multiplier and split there
    (then re-merge or re-queue `v`), or flag `v` when there is no split point
    (`UnsatisfiableException`) -/
def St.splitBetweenWith (st : St) (v : Nat) (path : Option (Array Nat)) : St :=
  let lb := (st.vars[(st.cons[v]!).l]!).block
  let cands := (path.getD #[]).map fun ci => (ci, st.lm[ci]!)
  match argMinFirst cands with
  | none => (st.flag v).incFlagNoSplit
  | some (sc, _, gap) =>
    let q := (st.note gap).splitOn lb sc
    q.1.incSplitBetween.afterSplit v q.2.1 q.2.2

/-- the in-block case of `IncSolver::satisfy` when no directed active path runs from right to left -/
def St.splitBetween (st : St) (v : Nat) : St :=
  let r := st.searchSplit v
  r.1.splitBetweenWith v r.2

/-- body of the `while` loop of `IncSolver::satisfy` for the chosen constraint `v` -/
def St.process (st : St) (v : Nat) : St :=
  let c := st.cons[v]!
  let lb := (st.vars[c.l]!).block
  let rb := (st.vars[c.r]!).block
  if lb != rb then
    (st.mergeAcross v).1
  else
    let fuel := st.vars.size + 1
    let dp := isActiveDirectedPathBetween st lb fuel c.r c.l
    let st := st.okAnd dp.2
    if dp.1 then (st.flag v).incFlagPath
    else st.splitBetween v

/-- loop condition of `IncSolver::satisfy`:
    `v->equality || ((v->slack() < ZERO_UPPERBOUND) && !v->active)` -/
def St.goCond (st : St) (v : Nat) : Bool :=
  (st.cons[v]!).eq || (match st.slack v with
                       | some s => s < ZERO_UPPERBOUND && !(st.cons[v]!).active
                       | none => false)

/-- the `while` loop of `IncSolver::satisfy` -/
def St.satisfyLoop : Nat → St → St
  | 0, st => { st with fuelOut := true }
  | fuel + 1, st =>
    let (st, mv) := st.mostViolated
    match mv with
    | none => st
    | some v =>
      if st.goCond v then St.satisfyLoop fuel (st.process v) else st

/-- reported positions (`copyResult`) -/
def St.positions (st : St) : Array Rat := (Array.range st.vars.size).map st.pos

/-- `scale_r·pos_r − gap − scale_l·pos_l` at given positions -/
def slackAt (vars : Array Var) (pos : Array Rat) (c : Con) : Rat :=
  (vars[c.r]!).scale * pos[c.r]! - c.gap - (vars[c.l]!).scale * pos[c.l]!

/-- the exit scan of `IncSolver::satisfy` (`if(v->slack() < ZERO_UPPERBOUND) throw`), evaluated on the
    positions that `copyResult` then reports -/
def scanOk (vars : Array Var) (cons : Array Con) (pos : Array Rat) : Bool :=
  cons.all fun c => c.unsat || decide (ZERO_UPPERBOUND ≤ slackAt vars pos c)

def St.loopFuel (st : St) : Nat := 20 * (st.cons.size + st.vars.size) + 100

/-- `IncSolver::satisfy()` -/
def St.satisfy (st : St) : St × Outcome :=
  let st := st.splitBlocks
  let st := St.satisfyLoop st.loopFuel st
  let st := st.cleanup
  let pos := st.positions
  if st.fuelOut then (st, .outOfFuel)
  else if scanOk st.vars st.cons pos then (st, .ok pos (st.cons.any (·.active)))
  else (st, .threw)

def St.solveLoop : Nat → St → Rat → Rat → St × Option Outcome
  | 0, st, _, _ => ({ st with fuelOut := true }, some .outOfFuel)
  | fuel + 1, st, lastcost, cost =>
    let d := rabs (lastcost - cost)
    let st := st.note (d - COST_EPS)
    if d > COST_EPS then
      match st.satisfy with
      | (st, .ok _ _) => St.solveLoop fuel st cost st.cost
      | (st, o) => (st, some o)
    else (st, none)

/-- `IncSolver::solve()` -/
def St.solve (st : St) : St × Outcome :=
  match st.satisfy with
  | (st, .ok _ _) =>
    -- lastcost = DBL_MAX: the loop body runs at least once
    match st.satisfy with
    | (st1, .ok _ _) =>
      (match St.solveLoop 200 st1 st.cost st1.cost with
       | (st2, none) => (st2, .ok st2.positions (st2.order.size != st2.vars.size))
       | (st2, some o) => (st2, o))
    | (st1, o) => (st1, o)
  | (st, o) => (st, o)

/-! ### the block invariant, as an executable predicate (evaluated by the driver on every model
    state after `satisfy`/`solve`; proved preserved by `merge` only — see Props/C01) -/

/-- every active constraint joins two variables of one block and is tight in offsets; every block in
    `order` is live, its members point back to it, and it has exactly `size − 1` active constraints
    (spanning tree count); every constraint is exactly one of active / flagged / in the inactive list -/
def St.invOk (st : St) : Bool :=
  let consOk := st.cons.all fun c =>
    !c.active || ((st.vars[c.l]!).block == (st.vars[c.r]!).block &&
                  (st.vars[c.r]!).offset - c.gap - (st.vars[c.l]!).offset == 0 && !c.unsat)
  let blocksOk := st.order.all fun bid =>
    let b := st.blocks[bid]!
    !b.deleted && b.vars.size > 0 && b.vars.all (fun i => (st.vars[i]!).block == bid) &&
    (st.cons.filter fun c => c.active && (st.vars[c.l]!).block == bid).size + 1 == b.vars.size
  let coverOk := (st.order.foldl (fun acc bid => acc + (st.blocks[bid]!).vars.size) 0) == st.vars.size
  let listOk := (List.range st.cons.size).all fun ci =>
    let c := st.cons[ci]!
    let inList := st.inactive.contains ci
    (if c.active then 1 else 0) + (if c.unsat then 1 else 0) + (if inList then 1 else 0) == (1 : Nat)
  consOk && blocksOk && coverOk && listOk

/-- on a normal return every unflagged equality is active (hence, by the invariant, tight) -/
def St.eqActive (st : St) : Bool :=
  st.cons.all fun c => !c.eq || c.unsat || c.active

end AdaptaVerif.Model.Vpsc
