/-
C10/C11 model, segment construction (core Lean only): `buildOrthogonalNudgingSegments`
(cola/libavoid/orthogonal.cpp) followed by `buildOrthogonalChannelInfo` (cola/libavoid/scanline.cpp)
for ONE dimension: from the display routes of the orthogonal connectors (with the
`checkpointsOnRoute` cache as the code built it), the obstacles and the options to the list of
`NudgingShiftSegment`s that `nudgeOrthogonalRoutes` then groups into regions.

  * `shapeLimit` = the cached `shapeLimits` entry of an obstacle (shape: bounding box of the polygon;
    junction: its position twice; anything else: the value-initialised "invalid" rectangle);
    `insideRectBounds`, the loop over `shapeLimits` and the ±15 band for first / last segments are
    IMPORTED from `Model/FinalSegLimits.lean` (fixer fC14: `insideBounds`, `finalLimits`), so the
    theorems of Props/C14Limits.lean are theorems about this model;
  * `cpsOnSegment` = `Polygon::checkpointsOnSegment` on the cache;
  * `segAt … i` = the body of the loop over the route points for index `i` (which route segments
    become shift segments; fixed or not; `finalSegment`, `endsInShape`, `singleConnectedSegment`;
    the ±15 band; `sBend` / `zBend`; checkpoint limits from the adjoining segments);
  * `connSegs`, `buildSegs` = the two outer loops;
  * the scan line: for a segment at position `p` with extent `[lo, hi]` the sweep looks at it four
    times: its own SegOpen (pass 4 at `lo`) and SegClose (pass 1 at `hi`) events, where
    `firstObstacleAbove/Below` walk the scan line (ordered by the obstacles' MID coordinate, not by
    their sides) to the first obstacle lying completely on that side; and the Open (pass 4) / Close
    (pass 1) events of every obstacle that happen while the segment is in the scan line, where
    `markShiftSegmentsAbove/Below` walk from the obstacle outwards until an obstacle whose mid lies
    beyond the starting obstacle's near side stops the walk.  `scanMin` / `scanMax` compute exactly
    that from the obstacle list (no event queue: the set of obstacles in the scan line at an event is
    given by the closed form `act4` / `act1`).  Nodes with EQUAL scan-line position are ordered by
    heap address in the C++ (`CmpNodePos`); the parameter `tie` resolves every such comparison one
    way (`tie = true`: an obstacle whose mid equals the segment's position counts as lying between),
    the driver runs both and accepts a dumped limit between the two results.
-/
import AdaptaVerif.Model.NudgeRegion
import AdaptaVerif.Model.FinalSegLimits
namespace AdaptaVerif.Model.NudgeSegs
open AdaptaVerif.Model.NudgeRegion

/-- points and rectangles are those of `Check/RouteRect.lean`, so that the rule for first / last segments is literally
    fixer fC14's `Model/FinalSegLimits.lean` (`finalLimits`, theorems in Props/C14Limits.lean) and not a second copy -/
abbrev Pt := AdaptaVerif.Check.RouteRect.P
abbrev Rect := AdaptaVerif.Check.RouteRect.Rect

/-- `p[d]` -/
def Pt.c (p : Pt) (d : Nat) : Rat := if d = 0 then p.x else p.y
/-- `(dim + 1) % 2` -/
def alt (d : Nat) : Nat := if d = 0 then 1 else 0
/-- `rectBounds.first[d]`, `rectBounds.second[d]` -/
def Rect.mnc (r : Rect) (d : Nat) : Rat := if d = 0 then r.x0 else r.y0
def Rect.mxc (r : Rect) (d : Nat) : Rat := if d = 0 then r.x1 else r.y1

inductive ObsKind where
  | shape | junction | other
  deriving Repr, DecidableEq, Inhabited

/-- one entry of `router->m_obstacles` -/
structure Obs where
  kind : ObsKind
  /-- shape: `polygon().offsetBoundingBox(0)`; junction: `position()` twice -/
  box : Rect
  /-- `routingBox()` (bounding box grown by shapeBufferDistance): what the scan line uses -/
  rbox : Rect
  /-- false for junctions that are free to move (`!positionFixed()`): not in the scan line -/
  inScan : Bool
  deriving Repr, DecidableEq, Inhabited

/-- the cached `shapeLimits[k]` -/
def shapeLimit (o : Obs) : Rect :=
  match o.kind with
  | .shape => o.box
  | .junction => o.box
  | .other => ⟨0, 0, 0, 0⟩

/-- one orthogonal connector as `buildOrthogonalNudgingSegments` reads it -/
structure Conn where
  id : Nat
  fixedRoute : Bool
  ps : List Pt
  /-- `displayRoute.checkpointsOnRoute`: (2·vertex index | 2·segment index + 1, checkpoint) -/
  cache : List (Nat × Pt)
  deriving Repr, DecidableEq, Inhabited

/-- `displayRoute.checkpointsOnSegment(seg, modifier)`; `mode` 0: both ends included, 1 (`+1`): the
    lower vertex excluded, 2 (`-1`): the upper vertex excluded -/
def cpsOnSegment (cache : List (Nat × Pt)) (seg : Nat) (mode : Nat) : List Pt :=
  let lower := if mode = 1 then 2 * seg + 1 else 2 * seg
  let upper := if mode = 2 then 2 * seg + 1 else 2 * seg + 2
  (cache.filter (fun e => decide (lower ≤ e.1) && decide (e.1 ≤ upper))).map (·.2)

/-- a shift segment: the two route indexes it was created with and the record the region code sees -/
structure MSeg where
  idxLow : Nat
  idxHigh : Nat
  seg : RSeg
  deriving Repr, DecidableEq, Inhabited

/-- the constructor "for fixed segments" -/
def fixedSeg (conn : Nat) (il ih : Nat) (lo hi pos : Rat) : MSeg :=
  ⟨il, ih, { conn := conn, lo := lo, hi := hi, pos := pos, minLim := pos, maxLim := pos, fixed := true, finalSeg := false,
             endsInShape := false, single := false, sBend := false, zBend := false, cps := [] }⟩

/-- the constructor "for shiftable segments" -/
def freeSeg (conn : Nat) (il ih : Nat) (lo hi pos : Rat) (sB zB : Bool) (mn mx : Rat) : MSeg :=
  ⟨il, ih, { conn := conn, lo := lo, hi := hi, pos := pos, minLim := mn, maxLim := mx, fixed := false, finalSeg := false,
             endsInShape := false, single := false, sBend := sB, zBend := zB, cps := [] }⟩

/-- limits from the checkpoints on an adjoining segment (one of the two `for cp` loops) -/
def cpLimits (dim : Nat) (thisPos : Rat) (cps : List Pt) (acc : Rat × Rat) : Rat × Rat :=
  cps.foldl (fun (acc : Rat × Rat) cp =>
    if cp.c dim < thisPos then (max acc.1 (cp.c dim), acc.2)
    else if cp.c dim > thisPos then (acc.1, min acc.2 (cp.c dim))
    else acc) acc

/-- body of the loop `for (i = 1; i < displayRoute.size(); ++i)` for one `i`;
    `nf` = nudgeOrthogonalSegmentsConnectedToShapes, `lims` = `shapeLimits` (empty when `nf` is off) -/
def segAt (nf : Bool) (lims : List Rect) (dim : Nat) (c : Conn) (i : Nat) : Option MSeg :=
  if i = 0 then none else
  match c.ps[i - 1]?, c.ps[i]? with
  | some a, some b =>
    if a.c dim ≠ b.c dim then none
    else if a.c (alt dim) = b.c (alt dim) then none
    else
      let swap := decide (a.c (alt dim) > b.c (alt dim))
      let il := if swap then i else i - 1
      let ih := if swap then i - 1 else i
      let lo := if swap then b.c (alt dim) else a.c (alt dim)
      let hi := if swap then a.c (alt dim) else b.c (alt dim)
      let posLow := if swap then b.c dim else a.c dim
      let cps := cpsOnSegment c.cache (i - 1) 0
      if !cps.isEmpty && !nf then some (fixedSeg c.id il ih lo hi posLow)
      else
        let thisPos := b.c dim
        let n := c.ps.length
        if i = 1 ∨ i + 1 = n then
          if nf then
            -- the loop over `shapeLimits` and the ±15 band: Model/FinalSegLimits.lean
            let l := AdaptaVerif.Model.FinalSegLimits.finalLimits (decide (dim = 0)) a b lims
            if l.isFixed || c.fixedRoute then some (fixedSeg c.id il ih lo hi posLow)
            else
              let s := freeSeg c.id il ih lo hi posLow false false l.lo l.hi
              some { s with seg := { s.seg with finalSeg := true, endsInShape := l.first || l.last, single := decide (n = 2) && l.first && l.last } }
          else some (fixedSeg c.id il ih lo hi posLow)
        else
          match c.ps[i - 2]?, c.ps[i + 1]? with
          | some pv, some nx =>
            let nextCps := cpsOnSegment c.cache i 1
            let prevCps := cpsOnSegment c.cache (i - 2) 2
            let lim := cpLimits dim thisPos prevCps (cpLimits dim thisPos nextCps (-channelMax, channelMax))
            let prevPos := pv.c dim
            let nextPos := nx.c dim
            let (mn, mx, sB, zB) :=
              if cps.isEmpty then
                if prevPos < thisPos ∧ nextPos > thisPos then (max lim.1 prevPos, min lim.2 nextPos, false, true)
                else if prevPos > thisPos ∧ nextPos < thisPos then (max lim.1 nextPos, min lim.2 prevPos, true, false)
                else (lim.1, lim.2, false, false)
              else (lim.1, lim.2, false, false)
            let s := freeSeg c.id il ih lo hi posLow sB zB mn mx
            some { s with seg := { s.seg with cps := cps.map (fun p => (p.c dim, p.c (alt dim))) } }
          | _, _ => none
  | _, _ => none

/-- all shift segments of one connector, in the order of the loop -/
def connSegs (nf : Bool) (lims : List Rect) (dim : Nat) (c : Conn) : List MSeg :=
  (List.range c.ps.length).filterMap (segAt nf lims dim c)

/-- `buildOrthogonalNudgingSegments(router, dim, segmentList)`: `penaltyZero` =
    `routingParameter(segmentPenalty) == 0`; `conns` = the orthogonal connectors in `connRefs` order -/
def buildSegs (penaltyZero nf : Bool) (obs : List Obs) (dim : Nat) (conns : List Conn) : List MSeg :=
  if penaltyZero then []
  else
    let lims := if nf then obs.map shapeLimit else []
    conns.flatMap (connSegs nf lims dim)

/-! ### the scan line of `buildOrthogonalChannelInfo` -/

/-- an obstacle as a scan-line node for dimension `dim`: `mid` = the node's position, `[mn, mx]` its
    extent in `dim`, `[amin, amax]` in the other dimension (= positions of its Open / Close events) -/
structure SO where
  mid : Rat
  mn : Rat
  mx : Rat
  amin : Rat
  amax : Rat
  deriving Repr, DecidableEq, Inhabited

def scanObs (dim : Nat) (obs : List Obs) : List SO :=
  (obs.filter (·.inScan)).map (fun o =>
    let mn := o.rbox.mnc dim
    let mx := o.rbox.mxc dim
    ⟨mn + (mx - mn) / 2, mn, mx, o.rbox.mnc (alt dim), o.rbox.mxc (alt dim)⟩)

/-- in the scan line while pass 4 of position `P` runs (closers at `P` removed, openers at `P` inserted) -/
def act4 (P : Rat) (o : SO) : Bool := decide (o.amin ≤ P) && decide (P < o.amax)
/-- in the scan line while pass 1 of position `P` runs (nothing at `P` removed or inserted yet) -/
def act1 (P : Rat) (o : SO) : Bool := decide (o.amin < P) && decide (P ≤ o.amax)

/-- `max` of an optional bound and a value -/
def omax (a : Option Rat) (b : Rat) : Rat := match a with | some x => max x b | none => b
def omin (a : Option Rat) (b : Rat) : Rat := match a with | some x => min x b | none => b

/-- `firstObstacleAbove`: of the obstacles in the scan line before the segment (mid < p) that lie
    completely at or before `p`, the one with the LARGEST mid; its far side. Equal mids: `tie` picks -/
def firstAbove (tie : Bool) (act : List SO) (p : Rat) : Option Rat :=
  (act.filter (fun o => decide (o.mid < p) && decide (o.mx ≤ p))).foldl (fun (best : Option (Rat × Rat)) o =>
    match best with
    | none => some (o.mid, o.mx)
    | some (m, v) => if m < o.mid then some (o.mid, o.mx)
                     else if m = o.mid then some (m, if tie then max v o.mx else min v o.mx) else some (m, v)) none
  |>.map (·.2)

def firstBelow (tie : Bool) (act : List SO) (p : Rat) : Option Rat :=
  (act.filter (fun o => decide (p < o.mid) && decide (p ≤ o.mn))).foldl (fun (best : Option (Rat × Rat)) o =>
    match best with
    | none => some (o.mid, o.mn)
    | some (m, v) => if o.mid < m then some (o.mid, o.mn)
                     else if m = o.mid then some (m, if tie then max v o.mn else min v o.mn) else some (m, v)) none
  |>.map (·.2)

/-- `markShiftSegmentsBelow` from obstacle `v` reaches a segment at `p` (`v.mx ≤ p`) unless an obstacle
    in the scan line whose mid is ≥ `v.mx` lies between them -/
def reachedBelow (tie : Bool) (act : List SO) (v : SO) (p : Rat) : Bool :=
  decide (v.mx ≤ p) && !act.any (fun u => decide (v.mx ≤ u.mid) && (decide (u.mid < p) || (tie && decide (u.mid = p))))

/-- `markShiftSegmentsAbove` from obstacle `v` reaches a segment at `p` (`p ≤ v.mn`) -/
def reachedAbove (tie : Bool) (act : List SO) (v : SO) (p : Rat) : Bool :=
  decide (p ≤ v.mn) && !act.any (fun u => decide (u.mid ≤ v.mn) && (decide (p < u.mid) || (tie && decide (u.mid = p))))

/-- all lower bounds the sweep applies to a segment at `p` with extent `[lo, hi]` -/
def scanMinBounds (tie : Bool) (so : List SO) (p lo hi : Rat) : List Rat :=
  (firstAbove tie (so.filter (act4 lo)) p).toList ++ (firstAbove tie (so.filter (act1 hi)) p).toList ++
  (so.filter (fun v => decide (lo ≤ v.amin) && decide (v.amin < hi) && reachedBelow (!tie) (so.filter (act4 v.amin)) v p)).map (·.mx) ++
  (so.filter (fun v => decide (lo < v.amax) && decide (v.amax ≤ hi) && reachedBelow (!tie) (so.filter (act1 v.amax)) v p)).map (·.mx)

def scanMaxBounds (tie : Bool) (so : List SO) (p lo hi : Rat) : List Rat :=
  (firstBelow tie (so.filter (act4 lo)) p).toList ++ (firstBelow tie (so.filter (act1 hi)) p).toList ++
  (so.filter (fun v => decide (lo ≤ v.amin) && decide (v.amin < hi) && reachedAbove tie (so.filter (act4 v.amin)) v p)).map (·.mn) ++
  (so.filter (fun v => decide (lo < v.amax) && decide (v.amax ≤ hi) && reachedAbove tie (so.filter (act1 v.amax)) v p)).map (·.mn)

/-- the segment after `buildOrthogonalChannelInfo` -/
def withChannel (tie : Bool) (so : List SO) (s : MSeg) : MSeg :=
  { s with seg := { s.seg with
      minLim := (scanMinBounds tie so s.seg.pos s.seg.lo s.seg.hi).foldl max s.seg.minLim,
      maxLim := (scanMaxBounds tie so s.seg.pos s.seg.lo s.seg.hi).foldl min s.seg.maxLim } }

/-- segments and limits as `nudgeOrthogonalRoutes` receives them -/
def passSegs (tie penaltyZero nf : Bool) (obs : List Obs) (dim : Nat) (conns : List Conn) : List MSeg :=
  (buildSegs penaltyZero nf obs dim conns).map (withChannel tie (scanObs dim obs))

/-! ### `linesort`'s merging of aligned segments of one connector -/

/-- `NudgingShiftSegment::mergeWith` on the records: limits intersected, the new position is the mid point of the two
    positions clamped into the new limits (`max` first, then `min`, as the code does), the extent is the span of the
    sorted union of the indexes; flags and checkpoints of the surviving segment `a` stay -/
def mergeSeg (a b : RSeg) : RSeg :=
  let mn := max a.minLim b.minLim
  let mx := min a.maxLim b.maxLim
  let mid := if b.pos < a.pos then a.pos - (a.pos - b.pos) / 2 else if b.pos > a.pos then a.pos + (b.pos - a.pos) / 2 else a.pos
  { a with minLim := mn, maxLim := mx, pos := min mx (max mn mid), lo := min a.lo b.lo, hi := max a.hi b.hi }

/-- the inner loop of the merging step for one surviving segment: absorb, in list order, every segment that
    `shouldAlignWith` the (growing) survivor; `none` as soon as one of them should not -/
def mergeChain (o : ROpts) (a : RSeg) (rest : List RSeg) : Option RSeg :=
  rest.foldl (fun (acc : Option RSeg) b =>
    match acc with
    | none => none
    | some x => if shouldAlignWith o x b then some (mergeSeg x b) else none) (some a)

/-! ### symmetries used by Props/C10Segs -/

def Pt.swap (p : Pt) : Pt := ⟨p.y, p.x⟩
def Rect.swap (r : Rect) : Rect := ⟨r.y0, r.x0, r.y1, r.x1⟩
def Obs.swap (o : Obs) : Obs := { o with box := o.box.swap, rbox := o.rbox.swap }
def Conn.swap (c : Conn) : Conn := { c with ps := c.ps.map Pt.swap, cache := c.cache.map (fun e => (e.1, e.2.swap)) }

/-- the connector travelled the other way round: points reversed, cache indexes mirrored
    (`2·(n−1) − k`) and listed in the reverse order -/
def Conn.rev (c : Conn) : Conn :=
  { c with ps := c.ps.reverse, cache := (c.cache.map (fun e => (2 * (c.ps.length - 1) - e.1, e.2))).reverse }

/-- what reversal does to one segment: indexes mirrored, s-bend ↔ z-bend, checkpoints in reverse order -/
def MSeg.mirror (n : Nat) (s : MSeg) : MSeg :=
  { idxLow := n - 1 - s.idxLow, idxHigh := n - 1 - s.idxHigh,
    seg := { s.seg with sBend := s.seg.zBend, zBend := s.seg.sBend, cps := s.seg.cps.reverse } }

end AdaptaVerif.Model.NudgeSegs
