/-
The orthogonal A* search of libavoid for connectors attached to connection pins and for the legs of a
checkpoint connector: the instance of `Model.AStar.search` (the loop of `AStarPathPrivate::search`,
Model/AStar.lean part 1, imported unchanged) that `ConnRef::generatePath` runs — Model/AStar.lean part 2
covers connectors with free end points only.  Core Lean only.

Added here, as coded in cola/libavoid/makepath.cpp, connector.cpp, connend.cpp, obstacle.cpp:
* vertex kinds (`VertID` props ConnPoint 1, ConnectionPin 4, ConnCheckpoint 8, DummyPinHelper 16): the
  dummy end vertex of a pin-attached end (at the shape centre) with its temporary edges to the pin
  vertices (`ConnEnd::assignPinVisibilityTo`);
* the cost targets of a dummy target: one level further, behind each pin vertex
  (`determineEndPointLocation(…, replacementTar, other, 2)`), none for a checkpoint target;
* edge order `CmpVisEdgeRotation` including its non-orthogonal part (dummy edges first, by their points);
* the skip rules for pin vertices ("don't check connection pins if they don't have the target vertex as
  a direct neighbour, or are directly leaving the source vertex") and foreign connector end points;
* the step into a dummy pin helper costs nothing; from a cost target into a pin vertex or the target: g
  unchanged, h = 0;
* the start of a later checkpoint leg: a dummy DONE node at `start->pathNext`, so that the start node has
  a previous vertex (collinear continuation is cheaper, the way back is skipped);
* disabled edges (`VertInf::setVisibleDirections`) are skipped before they consume a time stamp;
* **the end-point list of the turn pruning** (`endPoints = lineRef->possibleDstPinPoints()` + the
  target's point) computed from the MODEL's pin state: `possiblePinPoints`.
-/
import AdaptaVerif.Model.AStar
import AdaptaVerif.Model.Pins
namespace AdaptaVerif.Model.AStarPins
open AdaptaVerif.Model.Geometry (Pt)
open AdaptaVerif.Model.AStar
open AdaptaVerif.Model

/-! ## the end-point list -/

/-- `Obstacle::possiblePinPoints(pinClassId)` (obstacle.cpp), clean source:
    ```
    if ((currPin->m_class_id == pinClassId) &&
            (!currPin->m_exclusive || currPin->m_connend_users.empty()))
        points.push_back(currPin->m_vertex->point);
    ```
    i.e. a pin is a candidate end point iff it has the class and is non-exclusive or has no user — the
    same test (`Pins.isFree`) by which `ConnEnd::assignPinVisibilityTo` gives the dummy end vertex an
    edge to the pin.  `pos` = position of the pin's vertex. -/
def possiblePinPoints (s : Pins.State) (pos : Nat → Option Pt) (shape cls : Nat) : List Pt :=
  (Pins.freePins s shape cls).filterMap (fun p => pos p.id)

/-- the pins `assignPinVisibilityTo` offers to the dummy vertex of an end attached to (shape, cls) -/
def offeredPins (s : Pins.State) (shape cls : Nat) : List Pins.PinState :=
  s.filter (fun p => p.shape == shape && p.classId == cls && (!p.exclusive || p.users.isEmpty))

/-! ## the graph a search sees -/

/-- one entry of `VertInf::orthogVisList`, disabled ones included (`hasNeighbour` and the cost targets
    do not look at `isDisabled()`) -/
structure PEdge where
  to : Nat
  dist : Rat
  dummy : Bool
  disabled : Bool
  deriving Repr, Inhabited, DecidableEq

structure PGraph where
  pts : Array Pt
  adj : Array (List PEdge)
  vflags : Array Nat
  props : Array Nat
  /-- `src`, `tar` of this call of `search` (a checkpoint leg: checkpoint vertices) -/
  src : Nat
  tar : Nat
  /-- `start->pathNext` if not null -/
  prevOfStart : Option Nat := none
  /-- `lineRef->src()`, `lineRef->dst()` -/
  lineSrc : Nat
  lineDst : Nat
  segPen : Rat
  /-- `lineRef->possibleDstPinPoints()` -/
  endPts : List Pt := []
  prune : Bool := true
  eps : Rat := epsDouble
  deriving Repr, Inhabited

namespace PGraph

def pt (g : PGraph) (v : Nat) : Pt := g.pts.getD v ⟨0, 0⟩
def prop (g : PGraph) (v bit : Nat) : Bool := (g.props.getD v 0) &&& bit != 0
def isConnPt (g : PGraph) (v : Nat) : Bool := g.prop v 1
def isPin (g : PGraph) (v : Nat) : Bool := g.prop v 4
def isCheckpoint (g : PGraph) (v : Nat) : Bool := g.prop v 8
def isHelper (g : PGraph) (v : Nat) : Bool := g.prop v 16
def edges (g : PGraph) (v : Nat) : List PEdge := g.adj.getD v []

/-- `VertInf::hasNeighbour(target, true)` -/
def hasNeighbour (g : PGraph) (v target : Nat) : Bool := (g.edges v).any (·.to == target)

/-- the part of the graph Model/AStar.lean's scalar functions read (`cost`, `prunedAsCoded`, `rotKey`) -/
def base (g : PGraph) : Graph :=
  { pts := g.pts, adj := g.adj.map (fun l => (l.filter (!·.disabled)).map (fun e => ⟨e.to, e.dist, e.dummy⟩)),
    vflags := g.vflags, connPt := g.props.map (fun p => p &&& 1 != 0), src := g.src, tar := g.tar,
    segPen := g.segPen, pinPts := g.endPts, prune := g.prune, eps := g.eps }

/-- `m_cost_targets` (vertex, directions, displacement) as `search` fills them -/
def costTargets (g : PGraph) : List (Nat × Nat × Rat) :=
  let tp := g.pt g.tar
  let l : List (Nat × Nat × Rat) :=
    if g.isConnPt g.tar && !g.isCheckpoint g.tar then
      (g.edges g.tar).flatMap fun e =>
        let o := e.to
        if g.isPin o then
          (g.edges o).filterMap fun e2 =>
            let o2 := e2.to
            if o2 = g.tar ∨ g.pt o2 = tp then none
            else some (o2, Bends.orthogonalDirection (g.pt o2) (g.pt o), Bends.manhattanDist (g.pt o2) (g.pt o))
        else [(o, Bends.orthogonalDirection (g.pt o) tp, Bends.manhattanDist (g.pt o) tp)]
    else []
  if l.isEmpty then [(g.tar, 15, 0)] else l

/-- `AStarPathPrivate::estimatedCost` -/
def estimatedCost (g : PGraph) (cts : List (Nat × Nat × Rat)) (last : Option Pt) (curr : Pt) : Option Rat := do
  let es ← cts.mapM fun (ct : Nat × Nat × Rat) =>
    (Bends.estimatedCostSpecific last curr (g.pt ct.1) ct.2.1 g.segPen).map (· + ct.2.2)
  minOpt es

def ptLess (a b : Pt) : Bool := if a.x = b.x then decide (a.y < b.y) else decide (a.x < b.x)

/-- `EdgeInf::isOrthogonal()` of the edge best – w: geometric -/
def orthE (g : PGraph) (best w : Nat) : Bool := (g.pt best).x = (g.pt w).x || (g.pt best).y = (g.pt w).y

/-- `CmpVisEdgeRotation(prev)(u, v)` on two edges of `best` (without the final comparison of addresses) -/
def edgeLess (g : PGraph) (b : Graph) (prev : Option Nat) (best : Nat) (u v : PEdge) : Bool :=
  let uo := g.orthE best u.to
  let vo := g.orthE best v.to
  if uo && vo then decide (rotKey b prev best u.to < rotKey b prev best v.to)
  else if uo != vo then vo
  else
    let ord (w : Nat) : Pt × Pt :=
      let p := g.pt best
      let q := g.pt w
      if ptLess q p then (q, p) else (p, q)
    let (u1, u2) := ord u.to
    let (v1, v2) := ord v.to
    if u1 != v1 then ptLess u1 v1 else if u2 != v2 then ptLess u2 v2 else false

/-- stable insertion: behind every entry that is not greater -/
def insertBy (less : PEdge → PEdge → Bool) (e : PEdge) : List PEdge → List PEdge
  | [] => [e]
  | a :: rest => if less e a then e :: a :: rest else a :: insertBy less e rest

def sortBy (less : PEdge → PEdge → Bool) (es : List PEdge) : List PEdge :=
  es.foldl (fun acc e => insertBy less e acc) []

/-- one edge of the loop "Check adjacent points in graph and add them to the queue" -/
def edgeSucc (g : PGraph) (b : Graph) (cts : List (Nat × Nat × Rat)) (prev : Option Nat) (best : Nat) (e : PEdge) : Option Succ :=
  let w := e.to
  let rest : Option Succ :=
    if g.prune && !e.dummy && prunedAsCoded b prev best w then none
    else if e.dist = 0 then none
    else
      let atCostTarget := cts.any fun ct => ct.1 = best
      if atCostTarget && (g.isPin w || w = g.tar) then some ⟨w, 0, 0⟩
      else
        let h : Rat := if w = g.tar then 0 else (g.estimatedCost cts (some (g.pt best)) (g.pt w)).getD 0
        let c : Rat := if g.isHelper w then 0 else cost b e.dist prev best w
        some ⟨w, c, h⟩
  if prev = some w then none
  else if g.isPin w && !g.isCheckpoint w then
    if !(best = g.lineSrc && g.isHelper g.lineSrc) && !(g.hasNeighbour w g.lineDst && g.isHelper g.lineDst) then none
    else rest
  else if g.isConnPt w then (if w ≠ g.tar then none else rest)
  else rest

def succs (g : PGraph) (b : Graph) (cts : List (Nat × Nat × Rat)) (prev : Option Nat) (best : Nat) : List (Option Succ) :=
  (sortBy (g.edgeLess b prev best) ((g.edges best).filter (!·.disabled))).map (g.edgeSucc b cts prev best)

def problem (g : PGraph) : Problem :=
  let b := g.base
  let cts := g.costTargets
  { succs := g.succs b cts, src := g.src, tar := g.tar,
    h0 := (g.estimatedCost cts none (g.pt g.src)).getD 0, eps := g.eps }

/-- the state `search` starts its loop in: the start node, behind a dummy DONE node at `start->pathNext`
    when that is set ("we add a dummy node as if it were already in the Done set") -/
def initSt (g : PGraph) (P : Problem) : St :=
  match g.prevOfStart with
  | none => init P
  | some pn =>
    { pending := [{ v := g.src, pv := some pn, prev := some 0, g := 0, h := P.h0, ts := 2 }],
      done := [{ v := pn, pv := none, prev := none, g := 0, h := 0, ts := 1 }], time := 3 }

def fuel (g : PGraph) : Nat := (g.adj.foldl (fun n l => n + l.length) 0) + 3

def run (g : PGraph) : Outcome := let P := g.problem; search P g.fuel (g.initSt P)

/-- vertices of the route `pathNext` yields after `run` (source first), `none` = no path -/
def route (g : PGraph) : Option (List Nat) :=
  match g.run with
  | .found b done =>
    let chain := pathOf done done.length b
    let chain := if g.prevOfStart.isSome then chain.dropLast else chain
    some (routeOfChain chain.length chain).reverse
  | _ => none

end PGraph

end AdaptaVerif.Model.AStarPins
