/-
C18 — the node-id assignment of `Graph::writeTglf(useExternalIds)` (libdialect/graphs.cpp):
nodes that carry an external id are written under it; the others under `base_id + internal id`, where
`base_id = max_ext_id + 1` unless the first internal id lacking an external id is already larger than
every external id (then `base_id = 0`, "to avoid shifting internal IDs unless necessary").
Core Lean only (linked into driver_c18).  `m_nodes` is a `std::map` keyed by the internal id, so the
nodes arrive in strictly increasing order of internal id.
-/
namespace AdaptaVerif.Model.TglfIds

/-- one node as `writeTglf` sees it: internal id, external id (`-1` = not set) -/
structure NodeId where
  id : Nat
  ext : Int
  deriving DecidableEq, Repr, Inhabited

/-- `max_ext_id` after the first loop (starts at −1) -/
def maxExt (ns : List NodeId) : Int := ns.foldl (fun m n => max m n.ext) (-1)

/-- `first_int_id_lacking_ext` after the first loop (−1 = every node has an external id) -/
def firstLacking (ns : List NodeId) : Int :=
  match ns.find? (fun n => n.ext == -1) with
  | some n => (n.id : Int)
  | none => -1

/-- `base_id` -/
def baseId (ns : List NodeId) : Int :=
  if firstLacking ns > maxExt ns then 0 else maxExt ns + 1

/-- the id a node is written under (`useExternalIds = true`) -/
def writtenId (ns : List NodeId) (n : NodeId) : Int :=
  if n.ext < 0 then baseId ns + n.id else n.ext

/-- all written ids, in map order -/
def writtenIds (useExt : Bool) (ns : List NodeId) : List Int :=
  if useExt then ns.map (writtenId ns) else ns.map (fun n => (n.id : Int))

/-- what the caller has to provide: internal ids strictly increasing (map order), external ids either
    unset (−1) or non-negative and pairwise distinct -/
def WellFormed (ns : List NodeId) : Prop :=
  ns.Pairwise (fun a b => a.id < b.id) ∧
  (∀ n ∈ ns, n.ext = -1 ∨ 0 ≤ n.ext) ∧
  ns.Pairwise (fun a b => a.ext = -1 ∨ b.ext = -1 ∨ a.ext ≠ b.ext)

/-- the variant with `>=` in place of `>` in the "no shift needed" test (a seeded change): kept as a
    definition so that the witness theorem below documents why the strict comparison matters -/
def baseIdGe (ns : List NodeId) : Int :=
  if firstLacking ns ≥ maxExt ns then 0 else maxExt ns + 1

end AdaptaVerif.Model.TglfIds
