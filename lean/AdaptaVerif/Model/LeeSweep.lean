/-
Model of libavoid's DEFAULT polyline visibility algorithm (`router->UseLeesAlgorithm = true`):
Lee's rotational sweep, cola/libavoid/visibility.cpp — `PointPair`, `EdgePair`, `sweepVisible()`,
`vertexSweep()` — together with the part of `Router::processActions()` that decides the polyline
visibility graph of ONE transaction which adds shapes (in id order: `newBlockingShape()` on the existing
visible edges, then one sweep per vertex of the new shape) and then connectors (in id order: one sweep
from the source, one from the target).  Core Lean only (linked into driver_c03).

Numbers.  The C++ orders sweep points by `rotationalAngle` (atan, degrees) and compares Euclidean
distances (`sqrt`).  The model orders directions exactly (half-plane class + cross product) and compares
SQUARED distances.  On scenes whose coordinates are small dyadic numbers (k/64, the driver's `exact`
scenes) the two agree: collinear directions give bit-identical quotients y/x, distinct directions differ
by far more than an ulp, `sqrt` is monotone, and an edge that passes exactly through a lattice point is
intersected exactly by `rayIntersectPoint`.  This is an ASSUMPTION of the tie (checked on every run by the
exact comparison of the edge sets, not proved).

Identity.  `VertInf*` / `VertID` identity is the global index `idx` (ids are unique in the harness).

The decision rule proper is `closestBlocks` / `sweepVisible`; the set `onBorderIDs` is `onBorderIDs`
(`recordsBorder` per swept vertex).  Theorems: Props/C03Lee.lean.
-/
import AdaptaVerif.Model.Geometry
import AdaptaVerif.Model.Visibility
namespace AdaptaVerif.Model.LeeSweep
open AdaptaVerif.Model.Geometry

/-- `DBL_MAX` (x-coordinate of the far end of the initial sweep ray) -/
def dblMax : Rat := 2 ^ 1024 - 2 ^ 971

/-- squared Euclidean distance -/
def d2 (a b : Pt) : Rat := (a.x - b.x) * (a.x - b.x) + (a.y - b.y) * (a.y - b.y)

/-- a vertex known to the router (`VertInf`) -/
structure SV where
  idx : Nat
  obj : Nat
  vn : Nat
  conn : Bool
  pt : Pt
  /-- `shPrev` / `shNext`: (idx, point); `none` for connector endpoints -/
  prev : Option (Nat × Pt) := none
  next : Option (Nat × Pt) := none
  /-- `router->contains[id]` (connector endpoints) -/
  contains : List Nat := []
  deriving Inhabited

/-- `PointPair`: a swept-to point seen from the centre; `dist` is the SQUARED distance -/
structure PP where
  v : SV
  vec : Pt
  dist : Rat
  deriving Inhabited

def mkPP (c : Pt) (v : SV) : PP := { v := v, vec := ⟨v.pt.x - c.x, v.pt.y - c.y⟩, dist := d2 c v.pt }

/-- class of `rotationalAngle`: 0 ↔ angle 0 (incl. the zero vector), 1 ↔ (0,180), 2 ↔ 180, 3 ↔ (180,360) -/
def angCls (v : Pt) : Nat :=
  if v.y = 0 then (if v.x < 0 then 2 else 0) else if 0 < v.y then 1 else 3

/-- exact order of `rotationalAngle` values -/
def angCmp (u v : Pt) : Ordering :=
  let cu := angCls u
  let cv := angCls v
  if cu < cv then .lt else if cv < cu then .gt
  else if cu == 0 || cu == 2 then .eq
  else
    let c := u.x * v.y - v.x * u.y
    if 0 < c then .lt else if c < 0 then .gt else .eq

def idLt (a b : SV) : Bool := a.obj < b.obj || (a.obj == b.obj && a.vn < b.vn)

/-- `PointPair::operator<` -/
def ppLt (a b : PP) : Bool :=
  match angCmp a.vec b.vec with
  | .lt => true
  | .gt => false
  | .eq => if a.dist = b.dist then idLt a.v b.v else decide (a.dist < b.dist)

/-- stable insertion sort (`std::set` order for points, `std::list::sort` for the edge list) -/
def insertBy {α : Type} (lt : α → α → Bool) (x : α) : List α → List α
  | [] => [x]
  | y :: ys => if lt y x then y :: insertBy lt x ys else x :: y :: ys

def sortBy {α : Type} (lt : α → α → Bool) (l : List α) : List α := l.foldr (insertBy lt) []

/-- `EdgePair`: an obstacle edge in the sweep status; all distances squared; `ang = none` is the
    negative angle given to the edges that cross the initial ray -/
structure EP where
  i1 : Nat
  p1 : Pt
  /-- `vInf1->id.objID` -/
  obj1 : Nat
  i2 : Nat
  p2 : Pt
  dist1 : Rat
  dist2 : Rat
  ang : Option Pt
  adist : Rat
  deriving Inhabited

/-- `EdgePair(p1, v)` -/
def mkEP (c : Pt) (t : PP) (nb : Nat × Pt) : EP :=
  { i1 := t.v.idx, p1 := t.v.pt, obj1 := t.v.obj, i2 := nb.1, p2 := nb.2,
    dist1 := t.dist, dist2 := d2 nb.2 c, ang := some t.vec, adist := t.dist }

/-- `EdgePair::operator==` -/
def EP.same (a b : EP) : Bool := (a.i1 == b.i1 && a.i2 == b.i2) || (a.i1 == b.i2 && a.i2 == b.i1)

/-- `EdgePair::operator<` -/
def epLt (a b : EP) : Bool := if a.adist = b.adist then decide (a.dist2 < b.dist2) else decide (a.adist < b.adist)

def rminR (a b : Rat) : Rat := if b < a then b else a

/-- `p.angle != angle` -/
def angDiffers (ang : Option Pt) (v : Pt) : Bool :=
  match ang with
  | none => true
  | some a => angCmp v a != .eq

/-- `EdgePair::setCurrAngle` -/
def EP.setCurr (c : Pt) (e : EP) (p : PP) : EP :=
  if p.v.pt = e.p1 then { e with adist := e.dist1, ang := some p.vec }
  else if p.v.pt = e.p2 then { e with adist := e.dist2, ang := some p.vec }
  else if angDiffers e.ang p.vec then
    let r := rayIntersectPoint e.p1 e.p2 c p.v.pt
    if r.1 != DO_INTERSECT then { e with ang := some p.vec, adist := rminR e.dist1 e.dist2 }
    else { e with ang := some p.vec, adist := d2 ⟨r.2.1, r.2.2⟩ c }
  else e

/-! ### the decision rule of `sweepVisible()` -/

/-- the test applied to the closest relevant edge: it blocks if it is strictly nearer than the point, or
    exactly at the point while the sweep centre lies on the border of that edge's shape -/
def closestBlocks (pointDist closestDist : Rat) (closestOnBorder : Bool) : Bool :=
  decide (closestDist < pointDist) || (decide (pointDist = closestDist) && closestOnBorder)

/-- leading edges that end at the swept-to point are ignored -/
def skipEnds (p : Pt) : List EP → List EP
  | [] => []
  | e :: es => if p = e.p1 || p = e.p2 then skipEnds p es else e :: es

/-- connector endpoints: leading edges of shapes that contain the endpoint are ignored -/
def skipContaining (rss : List Nat) : List EP → List EP
  | [] => []
  | e :: es => if rss.contains e.obj1 then skipContaining rss es else e :: es

/-- `sweepVisible(T, point, onBorderIDs, &blocker)` (T sorted) -/
def sweepVisible (T : List EP) (p : PP) (onB : List Nat) : Bool :=
  match skipEnds p.v.pt T with
  | [] => true
  | e :: es =>
    if p.v.conn then
      match skipContaining p.v.contains (e :: es) with
      | [] => true
      | f :: _ => !closestBlocks p.dist f.adist (onB.contains f.obj1)
    else !closestBlocks p.dist e.adist (onB.contains e.obj1)

/-! ### `vertexSweep()` -/

/-- `vecDir(centre, xaxis, q) == AHEAD` -/
def ahead (c q : Pt) : Bool := vecDir c ⟨dblMax, c.y⟩ q == 1

/-- the neighbour of `k` that the initialisation loop looks at: `shPrev` if it is not the centre and is
    AHEAD of the initial ray, else `shNext` under the same condition -/
def initNbr (c : SV) (k : SV) : Option (Nat × Pt) :=
  match k.prev with
  | some kp =>
    if kp.1 != c.idx && ahead c.pt kp.2 then some kp
    else match k.next with
      | some kn => if kn.1 != c.idx && ahead c.pt kn.2 then some kn else none
      | none => none
  | none =>
    match k.next with
    | some kn => if kn.1 != c.idx && ahead c.pt kn.2 then some kn else none
    | none => none

/-- does the initialisation loop record `k`'s shape in `onBorderIDs` -/
def recordsBorder (c : SV) (k : SV) : Bool :=
  match initNbr c k with
  | some nb => pointOnLine nb.2 k.pt c.pt
  | none => false

/-- `onBorderIDs` (a set: computed from the points in any order) -/
def onBorderIDs (c : SV) (vs : List SV) : List Nat := (vs.filter (recordsBorder c)).map (·.obj)

/-- the edges that cross the initial ray, in sweep order -/
def initEdges (c : SV) (v : List PP) : List EP :=
  v.filterMap fun t =>
    match initNbr c t.v with
    | some nb => if segmentIntersect c.pt ⟨dblMax, c.pt.y⟩ nb.2 t.v.pt then some (mkEP c.pt t nb) else none
    | none => none

/-- the points swept from centre `c` (`VertSet v`), unsorted -/
def sweepPoints (c : SV) (verts : List SV) : List SV :=
  verts.filter fun inf =>
    if inf.idx == c.idx then false
    else if c.conn && !inf.conn && c.contains.contains inf.obj then false
    else if inf.conn then (if c.conn then inf.obj == c.obj else true)
    else true

/-- what the sweep does to the edge centre–point: `some true` = `setDist` (visible),
    `some false` = `addBlocker` (invisible), `none` = nothing -/
abbrev Dec := Option Bool

/-- status update after the point `t` (a shape vertex) has been handled -/
def updStatus (c : SV) (t : PP) (T : List EP) (nb : Option (Nat × Pt)) : List EP :=
  match nb with
  | none => T
  | some n =>
    if n.1 == c.idx then T else
    let dir := vecDir c.pt t.v.pt n.2
    let pr := mkEP c.pt t n
    if dir == -1 then T.filter (fun x => !x.same pr)
    else if dir == 1 then pr :: T
    else T

def sweepStep (ign invisG : Bool) (c : SV) (onB : List Nat) (st : List EP × List (Nat × Dec)) (t : PP) :
    List EP × List (Nat × Dec) :=
  let T := sortBy epLt (st.1.map (fun e => e.setCurr c.pt t))
  let vis := sweepVisible T t onB
  let cone1 := if c.conn then true else
    match c.prev, c.next with
    | some a, some b => inValidRegion ign a.2 c.pt b.2 t.v.pt
    | _, _ => true
  let cone2 := if t.v.conn then true else
    match t.v.prev, t.v.next with
    | some a, some b => inValidRegion ign a.2 t.v.pt b.2 c.pt
    | _, _ => true
  let dec : Dec :=
    if !(cone1 && cone2) then (if invisG then some false else none)
    else if vis then some true
    else if invisG then some false else none
  let T' := if t.v.conn then T else updStatus c t (updStatus c t T t.v.prev) t.v.next
  (T', (t.v.idx, dec) :: st.2)

/-- `vertexSweep(centre)`: the decisions for all swept points (in reverse sweep order) -/
def vertexSweep (ign invisG : Bool) (c : SV) (verts : List SV) : List (Nat × Dec) :=
  let pts := sweepPoints c verts
  let v := sortBy ppLt (pts.map (mkPP c.pt))
  let onB := onBorderIDs c pts
  let e0 := (initEdges c v).map fun e => { e with ang := none }
  (v.foldl (sweepStep ign invisG c onB) (e0, [])).2

/-! ### one transaction: shapes in id order, then connectors in id order -/

/-- state of the edge table: n×n, `some true` visible, `some false` in the invisibility graph -/
structure Tab where
  n : Nat
  a : Array (Option Bool)

def Tab.key (t : Tab) (i j : Nat) : Nat := if i ≤ j then i * t.n + j else j * t.n + i
def Tab.get (t : Tab) (i j : Nat) : Option Bool := t.a.getD (t.key i j) none
def Tab.set (t : Tab) (i j : Nat) (v : Option Bool) : Tab := { t with a := t.a.setIfInBounds (t.key i j) v }

def applyDecs (t : Tab) (ci : Nat) (ds : List (Nat × Dec)) : Tab :=
  ds.foldr (fun d t => match d.2 with | some b => t.set ci d.1 (some b) | none => t) t

/-- `Router::newBlockingShape(poly)`: re-test every visible edge of positive length against the new shape -/
def newBlockingShape (invisG : Bool) (all : Array SV) (poly : List Pt) (t : Tab) : Tab := Id.run do
  let mut t := t
  for i in [0:t.n] do
    for j in [i+1:t.n] do
      if t.get i j == some true then
        let a := all[i]!
        let b := all[j]!
        if a.pt != b.pt then
          let epIn := (a.conn && inPoly poly a.pt false) || (b.conn && inPoly poly b.pt false)
          if !epIn && Visibility.shapeBlocks poly a.pt b.pt then
            t := t.set i j (if invisG then some false else none)
  return t

/-- vertices of shape `obj` with polygon `poly`, global indices from `base` -/
def shapeVerts (base obj : Nat) (poly : List Pt) : List SV :=
  let n := poly.length
  (List.range n).map fun k =>
    { idx := base + k, obj := obj, vn := k, conn := false, pt := poly.getD k ⟨0, 0⟩,
      prev := some (base + (k + n - 1) % n, poly.getD ((k + n - 1) % n) ⟨0, 0⟩),
      next := some (base + (k + 1) % n, poly.getD ((k + 1) % n) ⟨0, 0⟩) }

/-- The visible polyline edges after one transaction that adds `shapes` (id, routing polygon; sorted by id)
    and then the connectors `conns` (id, source, target; sorted by id) to an empty router.
    Result: pairs of (objID, vn). -/
def transactionEdges (ign invisG : Bool) (shapes : List (Nat × List Pt)) (conns : List (Nat × Pt × Pt)) :
    List ((Nat × Nat) × (Nat × Nat)) := Id.run do
  let polys := shapes.map (·.2)
  -- all vertices, global order: shapes then connector ends
  let mut all : Array SV := #[]
  for (obj, poly) in shapes do
    all := all ++ (shapeVerts all.size obj poly).toArray
  let nShapeVerts := all.size
  for (cid, s, d) in conns do
    all := all.push { idx := all.size, obj := cid, vn := 1, conn := true, pt := s, contains := (Visibility.containsOf polys s).map fun i => (shapes.getD i (0, [])).1 }
    all := all.push { idx := all.size, obj := cid, vn := 2, conn := true, pt := d, contains := (Visibility.containsOf polys d).map fun i => (shapes.getD i (0, [])).1 }
  let n := all.size
  let mut tab : Tab := { n := n, a := Array.replicate (n * n) none }
  let mut present : List SV := []
  let mut base := 0
  for (_, poly) in shapes do
    let vs := (all.extract base (base + poly.length)).toList
    present := present ++ vs
    tab := newBlockingShape invisG all poly tab
    for c in vs do
      tab := applyDecs tab c.idx (vertexSweep ign invisG c present)
    base := base + poly.length
  for k in [nShapeVerts:n] do
    let c := all[k]!
    present := present ++ [c]
    tab := applyDecs tab c.idx (vertexSweep ign invisG c present)
  let mut out : List ((Nat × Nat) × (Nat × Nat)) := []
  for i in [0:n] do
    for j in [i+1:n] do
      if tab.get i j == some true then
        out := ((all[i]!.obj, all[i]!.vn), (all[j]!.obj, all[j]!.vn)) :: out
  return out

end AdaptaVerif.Model.LeeSweep
