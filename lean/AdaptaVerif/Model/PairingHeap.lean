/-
C17 — functional model of `PairingHeap<T,TCompare>` (cola/libvpsc/pairing_heap.h), mirroring the
pointer structure: a node has a key, an identity (the address of the `PairNode`), its
`leftChild` and its `nextSibling`.  Core Lean only.

  compareAndLink(first, second)  ↦ `link`            (ties: `second` goes under `first`)
  insert                         ↦ `insert`
  findMin / deleteMin            ↦ `findMin` / `deleteMin` (two-pass `combineSiblings`)
  merge                          ↦ `merge`
  decreaseKey(p, newVal)         ↦ `decreaseKey` (cut the subtree of `p`, re-link with the root)
-/
namespace AdaptaVerif.Model.PairingHeap

inductive PTree where
  | nil
  | node (key : Rat) (id : Nat) (child sibling : PTree)
  deriving Repr, Inhabited

/-- `compareAndLink(first, second)`; `first->nextSibling` is null on entry, the result takes the
    place of `first` and keeps `second`'s sibling. `lessThan(second, first)` ⇒ `first` becomes the
    leftmost child of `second`, otherwise `second` becomes the leftmost child of `first`. -/
def link : PTree → PTree → PTree
  | a, .nil => a
  | .nil, b => b
  | .node ka ia ca _, .node kb ib cb sb =>
    if kb < ka then .node kb ib (.node ka ia ca cb) sb
    else .node ka ia (.node kb ib cb ca) sb

def insert (h : PTree) (key : Rat) (id : Nat) : PTree :=
  match h with
  | .nil => .node key id .nil .nil
  | _ => link h (.node key id .nil .nil)

def findMin : PTree → Option (Rat × Nat)
  | .nil => none
  | .node k i _ _ => some (k, i)

/-- the sibling chain as a list of detached trees (`siblingsTreeArray`, links broken) -/
def siblings : PTree → List PTree
  | .nil => []
  | .node k i c s => .node k i c .nil :: siblings s

/-- first pass: combine two at a time, left to right -/
def pass1 : List PTree → List PTree
  | a :: b :: rest => link a b :: pass1 rest
  | l => l

/-- odd leftover into the last pair, then right to left -/
def pass2 : List PTree → PTree
  | [] => .nil
  | [a] => a
  | a :: rest => link a (pass2 rest)

def combineSiblings (t : PTree) : PTree := pass2 (pass1 (siblings t))

def deleteMin : PTree → PTree
  | .nil => .nil
  | .node _ _ c _ => combineSiblings c

def merge (h rhs : PTree) : PTree :=
  match h with
  | .nil => rhs
  | _ => link h rhs

/-- remove the subtree rooted at `id` from a forest: (rest, detached subtree with its sibling cleared) -/
def detach (id : Nat) : PTree → PTree × Option PTree
  | .nil => (.nil, none)
  | .node k i c s =>
    if i = id then (s, some (.node k i c .nil))
    else
      match detach id c with
      | (c', some t) => (.node k i c' s, some t)
      | (_, none) =>
        match detach id s with
        | (s', r) => (.node k i c s', r)

def setKey (nk : Rat) : PTree → PTree
  | .nil => .nil
  | .node _ i c s => .node nk i c s

def decreaseKey (h : PTree) (id : Nat) (nk : Rat) : PTree :=
  match h with
  | .nil => .nil
  | .node k i c s =>
    if i = id then .node nk i c s
    else
      match detach id c with
      | (c', some t) => link (.node k i c' s) (setKey nk t)
      | (_, none) => h

/-- all `(key, id)` pairs stored -/
def elems : PTree → List (Rat × Nat)
  | .nil => []
  | .node k i c s => (k, i) :: (elems c ++ elems s)

end AdaptaVerif.Model.PairingHeap
