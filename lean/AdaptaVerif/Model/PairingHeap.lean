/-
C17 — functional model of `PairingHeap<T,TCompare>` (cola/libvpsc/pairing_heap.h), mirroring the
pointer structure: a node has a key, an identity (the address of the `PairNode`), its
`leftChild` and its `nextSibling`.  Core Lean only.

  compareAndLink(first, second)  ↦ `link`            (ties: `second` goes under `first`)
  insert                         ↦ `insert`
  findMin / deleteMin            ↦ `findMin` / `deleteMin` (two-pass `combineSiblings`)
  merge                          ↦ `merge`
  decreaseKey(p, newVal)         ↦ `decreaseKey` (cut the subtree of `p`, re-link with the root)

The key type `κ` and the comparison `lt` (`TCompare`) are parameters: the heap-operation
correspondence uses `Rat` keys (`ltRat`), Dijkstra uses `Option Rat` keys with `none` = DBL_MAX
(`ltDist` = `CompareNodes`: `u->d < v->d`).
-/
namespace AdaptaVerif.Model.PairingHeap

inductive PTree (κ : Type) where
  | nil
  | node (key : κ) (id : Nat) (child sibling : PTree κ)
  deriving Repr, Inhabited

variable {κ : Type}

def ltRat (a b : Rat) : Bool := decide (a < b)

/-- `CompareNodes`: `u->d < v->d` with `none` = DBL_MAX -/
def ltDist : Option Rat → Option Rat → Bool
  | none, _ => false
  | some _, none => true
  | some x, some y => decide (x < y)

/-- `compareAndLink(first, second)`; `first->nextSibling` is null on entry, the result takes the
    place of `first` and keeps `second`'s sibling. `lessThan(second, first)` ⇒ `first` becomes the
    leftmost child of `second`, otherwise `second` becomes the leftmost child of `first`. -/
def link (lt : κ → κ → Bool) : PTree κ → PTree κ → PTree κ
  | a, .nil => a
  | .nil, b => b
  | .node ka ia ca _, .node kb ib cb sb =>
    if lt kb ka = true then .node kb ib (.node ka ia ca cb) sb
    else .node ka ia (.node kb ib cb ca) sb

def insert (lt : κ → κ → Bool) (h : PTree κ) (key : κ) (id : Nat) : PTree κ :=
  match h with
  | .nil => .node key id .nil .nil
  | _ => link lt h (.node key id .nil .nil)

def findMin : PTree κ → Option (κ × Nat)
  | .nil => none
  | .node k i _ _ => some (k, i)

/-- the sibling chain as a list of detached trees (`siblingsTreeArray`, links broken) -/
def siblings : PTree κ → List (PTree κ)
  | .nil => []
  | .node k i c s => .node k i c .nil :: siblings s

/-- first pass: combine two at a time, left to right -/
def pass1 (lt : κ → κ → Bool) : List (PTree κ) → List (PTree κ)
  | a :: b :: rest => link lt a b :: pass1 lt rest
  | l => l

/-- odd leftover into the last pair, then right to left -/
def pass2 (lt : κ → κ → Bool) : List (PTree κ) → PTree κ
  | [] => .nil
  | [a] => a
  | a :: rest => link lt a (pass2 lt rest)

def combineSiblings (lt : κ → κ → Bool) (t : PTree κ) : PTree κ := pass2 lt (pass1 lt (siblings t))

def deleteMin (lt : κ → κ → Bool) : PTree κ → PTree κ
  | .nil => .nil
  | .node _ _ c _ => combineSiblings lt c

def merge (lt : κ → κ → Bool) (h rhs : PTree κ) : PTree κ :=
  match h with
  | .nil => rhs
  | _ => link lt h rhs

/-- remove the subtree rooted at `id` from a forest: (rest, detached subtree with its sibling cleared) -/
def detach (id : Nat) : PTree κ → PTree κ × Option (PTree κ)
  | .nil => (.nil, none)
  | .node k i c s =>
    if i = id then (s, some (.node k i c .nil))
    else
      match detach id c with
      | (c', some t) => (.node k i c' s, some t)
      | (_, none) =>
        match detach id s with
        | (s', r) => (.node k i c s', r)

def setKey (nk : κ) : PTree κ → PTree κ
  | .nil => .nil
  | .node _ i c s => .node nk i c s

def decreaseKey (lt : κ → κ → Bool) (h : PTree κ) (id : Nat) (nk : κ) : PTree κ :=
  match h with
  | .nil => .nil
  | .node k i c s =>
    if i = id then .node nk i c s
    else
      match detach id c with
      | (c', some t) => link lt (.node k i c' s) (setKey nk t)
      | (_, none) => h

/-- all `(key, id)` pairs stored -/
def elems : PTree κ → List (κ × Nat)
  | .nil => []
  | .node k i c s => (k, i) :: (elems c ++ elems s)

end AdaptaVerif.Model.PairingHeap
