import AdaptaVerif.Model.Compound
import AdaptaVerif.Model.Vpsc
/-
Executable model of the control flow of `ConstrainedFDLayout::makeFeasible`
(cola/libcola/colafd.cpp ≈ l.604–900) on top of the models of the compound constraints
(`Model/Compound.lean`: variables and `getCurrSubConstraintAlternatives`) and of the incremental
VPSC solver (`Model/Vpsc.lean`).  Core Lean only (linked into the C07 driver).

What is mirrored, statement by statement:
  * `vs[dim][i] = new Variable(i, centre, 1)`; `generateVariables(idleConstraints, dim, vs[dim])`
    over the SORTED list `idleConstraints` (x first, then y);
  * the work list: `idleConstraints` sorted by priority (lowest first), taken from the BACK;
  * per compound constraint: `markAllSubConstraintsAsInactive()`, then for every sub-constraint its
    alternatives (sorted by cost), and per alternative one *trial*:
      priorPos := finalPosition of the first n (node) variables;
      `valid[dim].push_back(c)`; a new `IncSolver(vs[dim], valid[dim])` if there is none, else
      `solver[dim]->addConstraint(c)`; `solver[dim]->satisfy()` (a thrown `char*` = not satisfiable);
      scan of ALL constraints of `valid[dim]` for `unsatisfiable` (flags are cleared);
      not satisfiable ⇒ the solver is discarded, the node variables get priorPos back (the auxiliary
      variables keep what the failed solve wrote), `valid[dim].pop_back()`, next alternative;
      satisfiable ⇒ `break`;
    `markCurrSubConstraintAsActive(subConstraintSatisfiable)` with the value of the LAST trial;
  * at the end the node rectangles are moved to `finalPosition` of the node variables.
Not modelled here: `shouldCombineSubConstraints` (cluster containment), the lazily generated
non-overlap constraints (their alternatives depend on the live positions) and the topology add-on;
`Item.subs` is nevertheless a list of *lists* of alternatives, so the theorems cover the
alternatives loop.
-/
namespace AdaptaVerif.Model.MakeFeasible
open AdaptaVerif.Model
open AdaptaVerif.Model.Compound (Dim Sep CC Aux Rect GenResult)
open AdaptaVerif.Model.Vpsc (St Con Outcome mkCon)

/-- one alternative of a sub-constraint: the dimension it lives in and the vpsc constraint -/
structure Alt where
  dim : Dim
  con : Con
  deriving Repr, Inhabited

/-- one entry of the work list: compound constraint `cc` with, per sub-constraint, its alternatives
    in the order `alternatives.sort()` leaves them -/
structure Item where
  cc : Nat
  subs : List (List Alt)
  /-- `shouldCombineSubConstraints()`: FixedRelativeConstraint (and cluster containment) promise to be
      satisfiable; all their sub-constraints are added WITHOUT a trial and marked satisfied, then both
      dimensions are solved once and the `unsatisfiable` flags are NOT looked at -/
  combine : Bool := false
  deriving Repr, Inhabited

/-- what makeFeasible keeps per dimension -/
structure DimSt where
  /-- `vs[dim]` as the solver sees it: (desiredPosition, weight, scale) -/
  vars : Array (Rat × Rat × Rat)
  /-- `valid[dim]` -/
  valid : Array Con := #[]
  /-- (ghost) which (compound constraint, sub-constraint) every entry of `valid` came from -/
  owner : Array (Nat × Nat) := #[]
  /-- `solver[dim]` (`none` = nullptr) -/
  solver : Option St := none
  /-- `vs[dim][i]->finalPosition` -/
  final : Array Rat
  deriving Inhabited

/-- record of one trial (one pass through the body of the alternatives loop) -/
structure Trial where
  cc : Nat
  sub : Nat
  alt : Nat
  dim : Dim
  con : Con
  /-- `satisfy()` returned normally (no `char*` thrown) -/
  returned : Bool
  /-- some constraint of `valid[dim]` carried the `unsatisfiable` flag after the solve -/
  flagged : Bool
  /-- `subConstraintSatisfiable` after the scan -/
  accepted : Bool
  /-- owners (cc, sub) of the flagged entries of `valid[dim]`; the tried constraint itself is its own (cc, sub) -/
  flaggedOwners : List (Nat × Nat) := []
  deriving Repr, Inhabited

structure MF where
  /-- number of node variables (`boundingBoxes.size()` = `priorPos.size()`) -/
  n : Nat
  x : DimSt
  y : DimSt
  log : Array Trial := #[]
  /-- `_subConstraintInfo[sub]->satisfied` as written by `markCurrSubConstraintAsActive`: (cc, sub, flag) -/
  marks : Array (Nat × Nat × Bool) := #[]
  /-- smallest margin of an order decision of any solve -/
  margin : Rat := Vpsc.BIG
  /-- a solver loop ran out of fuel (reported by the driver, never hidden) -/
  fuelOut : Bool := false
  /-- the C++ would spin: a sub-constraint without alternatives whose cursor is not advanced -/
  stuck : Bool := false
  /-- `satisfy()` threw inside the combined branch: the `char*` escapes makeFeasible (no write-back) -/
  escaped : Bool := false
  /-- a combined solve left an `unsatisfiable` flag behind (nobody looks at it there):
      (combined cc, dim, owners (cc, sub) of the flagged entries of valid[dim]) -/
  combineFlags : Array (Nat × Dim × List (Nat × Nat)) := #[]
  deriving Inhabited

def MF.dim (mf : MF) : Dim → DimSt
  | .x => mf.x
  | .y => mf.y

def MF.setDim (mf : MF) (d : Dim) (ds : DimSt) : MF :=
  match d with
  | .x => { mf with x := ds }
  | .y => { mf with y := ds }

/-- "Restore previous values for variables": the first `n` entries come from `prior`, the rest
    (auxiliary variables of compound constraints) keep the value of the failed solve -/
def restore (n : Nat) (prior cur : Array Rat) : Array Rat :=
  cur.mapIdx fun i p => if i < n then prior[i]! else p

/-- the solver state the trial works on: a fresh `IncSolver(vs, valid + c)` or `addConstraint(c)` -/
def DimSt.solverFor (ds : DimSt) (c : Con) : St :=
  match ds.solver with
  | none => St.init ds.vars (ds.valid.push c)
  | some st => st.addConstraint c

/-- result of one trial in one dimension -/
structure TrialOut where
  ds : DimSt
  returned : Bool
  flagged : Bool
  accepted : Bool
  margin : Rat
  fuelOut : Bool
  flaggedOwners : List (Nat × Nat) := []

/-- one trial: add `c` to `valid[dim]`, solve, scan for flags, keep or back out -/
def DimSt.tryCon (n : Nat) (ds : DimSt) (c : Con) (own : Nat × Nat := (0, 0)) : TrialOut :=
  let r := (ds.solverFor c).satisfy
  match r.2 with
  | .ok pos _ =>
    let flagged := r.1.cons.any (·.unsat)
    if flagged then
      { ds := { ds with solver := none, final := restore n ds.final pos },
        returned := true, flagged := true, accepted := false, margin := r.1.margin, fuelOut := false,
        flaggedOwners := ((List.range r.1.cons.size).filter fun i => (r.1.cons[i]!).unsat).map fun i => ds.owner.getD i own }
    else
      { ds := { ds with solver := some r.1, valid := ds.valid.push c, owner := ds.owner.push own, final := pos },
        returned := true, flagged := false, accepted := true, margin := r.1.margin, fuelOut := false }
  | .threw =>
    -- `copyResult` was not reached: finalPosition still holds priorPos
    { ds := { ds with solver := none }, returned := false, flagged := r.1.cons.any (·.unsat),
      accepted := false, margin := r.1.margin, fuelOut := false }
  | .outOfFuel =>
    { ds := { ds with solver := none }, returned := false, flagged := false, accepted := false,
      margin := r.1.margin, fuelOut := true }

/-- one pass through the body of `while (!alternatives.empty())` for alternative number `k` -/
def MF.trial (mf : MF) (cc sub k : Nat) (a : Alt) : MF × Bool :=
  let o := (mf.dim a.dim).tryCon mf.n a.con (cc, sub)
  let mf := mf.setDim a.dim o.ds
  ({ mf with log := mf.log.push { cc := cc, sub := sub, alt := k, dim := a.dim, con := a.con,
                                   returned := o.returned, flagged := o.flagged, accepted := o.accepted,
                                   flaggedOwners := o.flaggedOwners },
             margin := Vpsc.rmin mf.margin o.margin,
             fuelOut := mf.fuelOut || o.fuelOut }, o.accepted)

/-- the alternatives loop: try them in order until one is accepted; the result flag is
    `subConstraintSatisfiable` when the loop is left -/
def MF.tryAlts (mf : MF) (cc sub : Nat) : Nat → List Alt → MF × Bool
  | _, [] => (mf, false)
  | k, a :: rest =>
    let r := mf.trial cc sub k a
    if r.2 then (r.1, true) else r.1.tryAlts cc sub (k + 1) rest

/-- one sub-constraint: its alternatives, then `markCurrSubConstraintAsActive(flag)` -/
def MF.runSub (mf : MF) (cc sub : Nat) (alts : List Alt) : MF :=
  match alts with
  | [] => { mf with stuck := true }
  | _ =>
    let r := mf.tryAlts cc sub 0 alts
    { r.1 with marks := r.1.marks.push (cc, sub, r.2) }

def MF.runSubs (mf : MF) (cc : Nat) : Nat → List (List Alt) → MF
  | _, [] => mf
  | i, alts :: rest => (mf.runSub cc i alts).runSubs cc (i + 1) rest

/-! the combined branch (`cc->shouldCombineSubConstraints()`) -/

/-- `valid[dim].push_back(c); if (solver[dim]) solver[dim]->addConstraint(c);` -/
def DimSt.pushCon (ds : DimSt) (c : Con) (own : Nat × Nat := (0, 0)) : DimSt :=
  { ds with valid := ds.valid.push c, owner := ds.owner.push own, solver := ds.solver.map fun st => st.addConstraint c }

/-- the `while (cc->subConstraintsRemaining())` loop of the combined branch: the single alternative of
    every sub-constraint is pushed, `markCurrSubConstraintAsActive(true)` -/
def MF.combinePush (mf : MF) (cc : Nat) : Nat → List (List Alt) → MF
  | _, [] => mf
  | i, alts :: rest =>
    match alts with
    | [a] =>
      let mf := mf.setDim a.dim ((mf.dim a.dim).pushCon a.con (cc, i))
      ({ mf with marks := mf.marks.push (cc, i, true) }).combinePush cc (i + 1) rest
    | _ => { mf with stuck := true }     -- `COLA_ASSERT(alternatives.size() == 1)`

/-- `if (solver[dim] == nullptr) solver[dim] = new IncSolver(vs[dim], valid[dim]); solver[dim]->satisfy();`
    — the flags the solve raises stay where they are -/
def MF.combineSolve (mf : MF) (cc : Nat) (d : Dim) : MF :=
  if mf.escaped then mf else
  let ds := mf.dim d
  let st0 := match ds.solver with
    | none => St.init ds.vars ds.valid
    | some st => st
  let r := st0.satisfy
  let flaggedIdx := ((List.range r.1.cons.size).filter fun i => (r.1.cons[i]!).unsat).map fun i => ds.owner.getD i (0, 0)
  let mf := { mf with margin := Vpsc.rmin mf.margin r.1.margin,
                      combineFlags := if flaggedIdx.isEmpty then mf.combineFlags else mf.combineFlags.push (cc, d, flaggedIdx) }
  match r.2 with
  | .ok pos _ => mf.setDim d { ds with solver := some r.1, final := pos }
  | .threw => { mf with escaped := true }
  | .outOfFuel => { mf with fuelOut := true }

/-- one compound constraint taken from the back of `idleConstraints` -/
def MF.runItem (mf : MF) (it : Item) : MF :=
  if mf.escaped then mf
  else if it.combine then ((mf.combinePush it.cc 0 it.subs).combineSolve it.cc .x).combineSolve it.cc .y
  else mf.runSubs it.cc 0 it.subs

/-- the main loop over the work list (already in processing order: back of the sorted list first) -/
def MF.run (mf : MF) (items : List Item) : MF := items.foldl MF.runItem mf

def MF.init (n : Nat) (vx vy : Array (Rat × Rat × Rat)) : MF :=
  { n := n, x := { vars := vx, final := vx.map (·.1) }, y := { vars := vy, final := vy.map (·.1) } }

/-- `makeFeasible` on a prepared work list -/
def makeFeasible (n : Nat) (vx vy : Array (Rat × Rat × Rat)) (items : List Item) : MF :=
  (MF.init n vx vy).run items

/-! ### observables -/

/-- was sub-constraint `(cc, sub)` marked satisfied?  (`none`: never reached) -/
def MF.mark? (mf : MF) (cc sub : Nat) : Option Bool :=
  (mf.marks.find? fun m => m.1 == cc && m.2.1 == sub).map (·.2.2)

/-- the DROPPED sub-constraints: all alternatives exhausted -/
def MF.dropped (mf : MF) : List (Nat × Nat) :=
  (mf.marks.toList.filter fun m => !m.2.2).map fun m => (m.1, m.2.1)

/-- compound constraints a combined (unchecked) solve flagged unsatisfiable: they are marked satisfied and
    stay in `valid`, but nothing makes them hold -/
def MF.brokenCCs (mf : MF) : List Nat :=
  (mf.combineFlags.toList.flatMap fun e => e.2.2.map (·.1)).eraseDups

/-- compound constraints with at least one dropped sub-constraint -/
def MF.droppedCCs (mf : MF) : List Nat := (mf.dropped.map (·.1)).eraseDups

/-- final centre of node `i` in dimension `d` -/
def MF.nodePos (mf : MF) (d : Dim) (i : Nat) : Rat := (mf.dim d).final[i]!

/-- `scale_r·g_r − gap − scale_l·g_l`: the slack of `c` at positions `g` with the scales of `vars`
    (all scales are 1 in makeFeasible) -/
def slackOf (vars : Array (Rat × Rat × Rat)) (g : Array Rat) (c : Con) : Rat :=
  (vars[c.r]!).2.2 * g[c.r]! - c.gap - (vars[c.l]!).2.2 * g[c.l]!

/-! ### the work list of a scene of user constraints (no overlap avoidance, no clusters) -/

/-- `generateVariables(idleConstraints, dim, vars)` over the sorted list given as indices `order` -/
def genVarsOrdered (dim : Dim) (ccs : Array CC) : List Nat → Array Compound.Var → List Aux → Array Compound.Var × List Aux
  | [], vars, aux => (vars, aux)
  | j :: rest, vars, aux =>
    let r := Compound.genVarsOne dim (ccs.getD j default) vars (aux.getD j {})
    genVarsOrdered dim ccs rest r.1 (aux.set j r.2)

def solverVars (vs : Array Compound.Var) : Array (Rat × Rat × Rat) := vs.map fun v => (v.desired, v.weight, 1)

/-- `order` is `idleConstraints` after the sort: a permutation of the indices, priorities ascending
    (user constraints all carry DEFAULT_CONSTRAINT_PRIORITY, so any permutation is sorted; which one
    `std::sort` leaves is an input of the model) -/
def validOrder (m : Nat) (order : List Nat) : Bool :=
  order.length == m && (List.range m).all fun j => order.contains j

structure Scene where
  n : Nat
  vx : Array (Rat × Rat × Rat)
  vy : Array (Rat × Rat × Rat)
  items : List Item
  deriving Inhabited

/-- the sub-constraints of compound constraint `idx` with their (single) alternatives; `none` when the
    C++ would throw from `getCurrSubConstraintAlternatives` (invalid index / alignment without variable) -/
def subsOf (gx gy : GenResult) (idx : Nat) (cc : CC) : Option (List (List Alt)) :=
  let okGen : Bool :=
    match cc with
    | .pageBounds .. | .fixedRel .. => true
    | .boundary d .. | .alignment d .. | .separation d .. | .sepAlign d .. | .multiSep d .. | .distribution d .. =>
      let g := match d with | .x => gx | .y => gy
      (Compound.genSepsOne d g.vars.size g.aux idx cc).2.isNone
  if okGen then
    some ((Compound.alternativesOf gx gy idx cc).map fun p => [{ dim := p.1, con := mkCon p.2.left p.2.right p.2.gap p.2.eq }])
  else none

/-- variables and work list of `makeFeasible` for user constraints `ccs` on rectangles `rects` -/
def mkScene (rects : Array Rect) (ccs : List CC) (order : List Nat) : Option Scene :=
  if !validOrder ccs.length order then none else
  let arr := ccs.toArray
  let aux0 : List Aux := List.replicate ccs.length {}
  let (vx, auxX) := genVarsOrdered .x arr order (Compound.nodeVars .x rects) aux0
  let (vy, auxY) := genVarsOrdered .y arr order (Compound.nodeVars .y rects) auxX
  let gx : GenResult := { vars := vx, aux := auxX, seps := [], err := none }
  let gy : GenResult := { vars := vy, aux := auxY, seps := [], err := none }
  let items := order.reverse.mapM fun j => (subsOf gx gy j (arr.getD j default)).map fun s =>
    ({ cc := j, subs := s, combine := match arr.getD j default with | .fixedRel .. => true | _ => false } : Item)
  items.map fun its => { n := rects.size, vx := solverVars vx, vy := solverVars vy, items := its }

/-- well-formedness of a work list: every constraint refers to existing variables and is not pre-flagged -/
def Alt.wf (vx vy : Nat) (a : Alt) : Bool :=
  let m := match a.dim with | .x => vx | .y => vy
  decide (a.con.l < m) && decide (a.con.r < m) && !a.con.unsat

def itemsWf (vx vy : Nat) (items : List Item) : Bool :=
  items.all fun it => it.subs.all fun alts => alts.all (Alt.wf vx vy)

/-! ### the lazily generated non-overlap constraints (plain shapes; cc_nonoverlapconstraints.cpp)

`NonOverlapConstraints` is appended to the work list with PRIORITY_NONOVERLAP (lower than every user
constraint), so it is processed LAST.  Its sub-constraints are the shape pairs; which pair is current and
which four alternatives it offers depends on the live `finalPosition`s:
`getCurrSubConstraintAlternatives` (initial `computeAndSortOverlap`, lazy recomputation for the front pair,
re-sort when the front pair no longer overlaps, stop when the sorted front has no overlap),
`computeOverlapForShapePairInfo` (overlapMax, containment penalty), `ShapePairInfo::operator<`,
`markCurrSubConstraintAsActive` (the pair goes to the back, processed, overlapMax = 0). -/

structure PairInfo where
  v1 : Nat
  v2 : Nat
  satisfied : Bool := false
  processed : Bool := false
  overlapMax : Rat := 0
  /-- (ghost) `overlapMax` was computed from positions that are still the exact dyadic inputs -/
  exactKey : Bool := true
  deriving Repr, Inhabited

/-- `ShapePairInfo::operator<` (order is 1 for all pairs of plain shapes) -/
def pairLt (a b : PairInfo) : Bool :=
  if a.processed != b.processed then !a.processed && b.processed
  else decide (a.overlapMax > b.overlapMax)

/-- stable sort (`std::list::sort` is stable; for a strict weak order the result of a stable sort is unique) -/
def insertPair (a : PairInfo) : List PairInfo → List PairInfo
  | [] => [a]
  | b :: t => if pairLt b a then b :: insertPair a t else a :: b :: t
def sortPairs (l : List PairInfo) : List PairInfo := l.foldr insertPair []

structure Noc where
  /-- `shapeOffsets[i].halfDim` -/
  half : Array (Rat × Rat)
  /-- `pairInfoList` -/
  pairs : List PairInfo
  sorted : Bool := false
  initialSort : Bool := false
  /-- `_currSubConstraintIndex = pairInfoList.size()` -/
  done : Bool := false
  /-- smallest margin of a discrete decision taken on computed (inexact) positions -/
  margin : Rat := Vpsc.BIG
  deriving Inhabited

/-- the pairs `addShape(0), addShape(1), …` create: for every new id, one pair with every earlier id, ascending -/
def Noc.ofSizes (half : Array (Rat × Rat)) : Noc :=
  { half := half,
    pairs := (List.range half.size).flatMap fun i => (List.range i).map fun j => { v1 := j, v2 := i } }

def rmax (a b : Rat) : Rat := if a < b then b else a

/-- robustness margin of a conjunction of comparisons, each given as (holds, |difference|): when all hold, the
    smallest margin; when some fail, the largest margin among the failing ones (one clear failure decides) -/
def conjMargin (l : List (Bool × Rat)) : Rat :=
  if l.all (·.1) then l.foldl (fun m p => Vpsc.rmin m p.2) Vpsc.BIG
  else l.foldl (fun m p => if p.1 then m else rmax m p.2) 0

/-- `computeOverlapForShapePairInfo`: overlapMax and the margin of its discrete decisions; `ex`/`ey` = the x / y
    positions of both shapes are still the exact dyadic inputs (their comparisons are exact in doubles too) -/
def overlapOf (half : Array (Rat × Rat)) (fx fy : Array Rat) (p : PairInfo) (ex ey : Bool := false) : Rat × Rat :=
  let h1 := half[p.v1]!
  let h2 := half[p.v2]!
  let left1 := fx[p.v1]! - h1.1; let right1 := fx[p.v1]! + h1.1
  let bottom1 := fy[p.v1]! - h1.2; let top1 := fy[p.v1]! + h1.2
  let left2 := fx[p.v2]! - h2.1; let right2 := fx[p.v2]! + h2.1
  let bottom2 := fy[p.v2]! - h2.2; let top2 := fy[p.v2]! + h2.2
  let spaceR := left2 - right1; let spaceL := left1 - right2
  let spaceA := bottom2 - top1; let spaceB := bottom1 - top2
  let mg (exact : Bool) (d : Rat) : Rat := if exact then Vpsc.BIG else Vpsc.rabs d
  let xOverlap := decide (spaceR < 0) && decide (spaceL < 0)
  let yOverlap := decide (spaceB < 0) && decide (spaceA < 0)
  let m0 := conjMargin [(decide (spaceR < 0), mg ex spaceR), (decide (spaceL < 0), mg ex spaceL),
                        (decide (spaceB < 0), mg ey spaceB), (decide (spaceA < 0), mg ey spaceA)]
  if !(xOverlap && yOverlap) then (0, m0)
  else
    let ov := rmax (rmax (rmax (-spaceL) (-spaceR)) (-spaceB)) (-spaceA)
    let in12 := [(decide (left1 ≥ left2), mg ex (left1 - left2)), (decide (right1 ≤ right2), mg ex (right1 - right2)),
                 (decide (bottom1 ≥ bottom2), mg ey (bottom1 - bottom2)), (decide (top1 ≤ top2), mg ey (top1 - top2))]
    let in21 := [(decide (left2 ≥ left1), mg ex (left1 - left2)), (decide (right2 ≤ right1), mg ex (right1 - right2)),
                 (decide (bottom2 ≥ bottom1), mg ey (bottom1 - bottom2)), (decide (top2 ≤ top1), mg ey (top1 - top2))]
    if in12.all (·.1) then
      (100000 + (right1 - left1) * (top1 - bottom1), Vpsc.rmin m0 (conjMargin in12))
    else if in21.all (·.1) then
      (100000 + (right2 - left2) * (top2 - bottom2), Vpsc.rmin m0 (Vpsc.rmin (conjMargin in12) (conjMargin in21)))
    else (ov, Vpsc.rmin m0 (Vpsc.rmin (conjMargin in12) (conjMargin in21)))

/-- smallest gap between the sort keys of neighbours in a sorted pair list (unprocessed part) -/
def keyGaps : List PairInfo → Rat
  | a :: b :: t =>
    -- two keys that are both exactly 0 ("no overlap") are equal in doubles as well
    if !a.processed && !b.processed && !(a.overlapMax == 0 && b.overlapMax == 0) && !(a.exactKey && b.exactKey) then
      Vpsc.rmin (Vpsc.rabs (a.overlapMax - b.overlapMax)) (keyGaps (b :: t))
    else keyGaps (b :: t)
  | _ => Vpsc.BIG

/-- `computeAndSortOverlap`; `exact` = the positions are still the (dyadic) inputs, every comparison is exact
    in doubles too, so no margin is recorded -/
def Noc.computeAndSort (noc : Noc) (fx fy : Array Rat) (exact : Bool) (ix iy : Array Rat := #[]) : Noc :=
  let exAt (f i0 : Array Rat) (p : PairInfo) : Bool := exact || (f[p.v1]! == i0.getD p.v1 (f[p.v1]! + 1) && f[p.v2]! == i0.getD p.v2 (f[p.v2]! + 1))
  -- recompute until the first processed pair
  let rec go : List PairInfo → Bool → Rat → List PairInfo × Rat
    | [], _, m => ([], m)
    | p :: t, stop, m =>
      if stop || p.processed then
        let r := go t true m
        (p :: r.1, r.2)
      else
        let o := overlapOf noc.half fx fy p (exAt fx ix p) (exAt fy iy p)
        let r := go t false (Vpsc.rmin m o.2)
        ({ p with overlapMax := o.1, exactKey := exAt fx ix p && exAt fy iy p } :: r.1, r.2)
  let r := go noc.pairs false Vpsc.BIG
  let sorted := sortPairs r.1
  let m := Vpsc.rmin r.2 (keyGaps sorted)
  { noc with pairs := sorted, margin := if exact then noc.margin else Vpsc.rmin noc.margin m }

/-- a non-overlap alternative with its cost -/
structure CostAlt where
  alt : Alt
  cost : Rat
  deriving Inhabited

def insertCost (a : CostAlt) : List CostAlt → List CostAlt
  | [] => [a]
  | b :: t => if b.cost < a.cost then b :: insertCost a t else a :: b :: t

/-- the four alternatives (L, R, B, T) of the pair, then `alternatives.sort()` (stable, by cost);
    costs only involve the (exact, dyadic) desired positions and half sizes -/
def pairAlternatives (half : Array (Rat × Rat)) (dx dy : Array Rat) (p : PairInfo) : List Alt :=
  let h1 := half[p.v1]!
  let h2 := half[p.v2]!
  let xSep := h1.1 + h2.1
  let ySep := h1.2 + h2.2
  let eps : Rat := 1 / 1000000000
  let costR := xSep - (dx[p.v2]! - dx[p.v1]!)
  let costL := xSep - (dx[p.v1]! - dx[p.v2]!)
  let costT := ySep - (dy[p.v2]! - dy[p.v1]!)
  let costB := ySep - (dy[p.v1]! - dy[p.v2]!)
  let l : List CostAlt :=
    [ { alt := { dim := .x, con := mkCon p.v2 p.v1 (xSep + eps) false }, cost := costL },
      { alt := { dim := .x, con := mkCon p.v1 p.v2 (xSep + eps) false }, cost := costR },
      { alt := { dim := .y, con := mkCon p.v2 p.v1 (ySep + eps) false }, cost := costB },
      { alt := { dim := .y, con := mkCon p.v1 p.v2 (ySep + eps) false }, cost := costT } ]
  (l.foldr insertCost []).map (·.alt)

/-- `getCurrSubConstraintAlternatives` of NonOverlapConstraints -/
def Noc.getCurr (noc : Noc) (mf : MF) (exact : Bool) : Noc × List Alt :=
  let fx := mf.x.final
  let fy := mf.y.final
  let ix := mf.x.vars.map (·.1)
  let iy := mf.y.vars.map (·.1)
  let exAt (f i0 : Array Rat) (p : PairInfo) : Bool := exact || (f[p.v1]! == i0.getD p.v1 (f[p.v1]! + 1) && f[p.v2]! == i0.getD p.v2 (f[p.v2]! + 1))
  let noc := if noc.initialSort then noc
             else { (noc.computeAndSort fx fy exact ix iy) with sorted := true, initialSort := true }
  match noc.pairs with
  | [] => ({ noc with done := true }, [])
  | front :: rest =>
    let (front, noc) :=
      if noc.sorted then (front, noc)
      else
        let o := overlapOf noc.half fx fy front (exAt fx ix front) (exAt fy iy front)
        let f := { front with overlapMax := o.1, exactKey := exAt fx ix front && exAt fy iy front }
        (f, { noc with pairs := f :: rest, margin := if exact then noc.margin else Vpsc.rmin noc.margin o.2 })
    if front.overlapMax == 0 then
      if noc.sorted then ({ noc with done := true }, [])
      else ({ (noc.computeAndSort fx fy exact ix iy) with sorted := true }, [])
    else
      (noc, pairAlternatives noc.half (mf.x.vars.map (·.1)) (mf.y.vars.map (·.1)) front)

/-- `markCurrSubConstraintAsActive(satisfiable)` of NonOverlapConstraints -/
def Noc.mark (noc : Noc) (sat : Bool) : Noc :=
  match noc.pairs with
  | [] => noc
  | front :: rest =>
    { noc with pairs := rest ++ [{ front with processed := true, satisfied := sat, overlapMax := 0 }], sorted := false }

def MF.positionsExact (mf : MF) : Bool :=
  mf.x.final == mf.x.vars.map (·.1) && mf.y.final == mf.y.vars.map (·.1)

/-- the `while (cc->subConstraintsRemaining())` loop for the NonOverlapConstraints item `cc`;
    `none` = the fuel ran out (the C++ would still be looping: the known livelock of a rigidly overlapping pair) -/
def MF.runNoc (cc : Nat) : Nat → MF → Noc → Option (MF × Noc)
  | 0, _, _ => none
  | fuel + 1, mf, noc =>
    if noc.done || noc.pairs.isEmpty then some (mf, noc) else
    let g := noc.getCurr mf mf.positionsExact
    match g.2 with
    | [] => MF.runNoc cc fuel mf g.1
    | alts =>
      let r := mf.tryAlts cc mf.marks.size 0 alts
      let mf' := { r.1 with marks := r.1.marks.push (cc, r.1.marks.size, r.2) }
      MF.runNoc cc fuel mf' (g.1.mark r.2)

end AdaptaVerif.Model.MakeFeasible
