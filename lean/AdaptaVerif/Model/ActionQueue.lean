/-
Executable model of libavoid's transaction queue (cola/libavoid/router.cpp:
`Router::addShape / moveShape (both overloads) / deleteShape / addJunction / moveJunction (both) /
deleteJunction / modifyConnector / setTransactionUse / processTransaction / processActions`,
cola/libavoid/actioninfo.{h,cpp}: `ActionInfo::operator==, operator<, addConnEndUpdate`).
Core Lean only (linked into the driver).

What is modelled: the *scene edits* and their queueing / de-duplication / ordering, i.e. which
`ShapeRef`/`JunctionRef`/`ConnRef` objects exist, whether an obstacle is active (in
`Router::m_obstacles`), its `polygon()` / `position()`, the connector ends (`CEnd`: a free point, or
`ConnEnd(shape, pinClassId)` / `ConnEnd(junction)` = attached to a pin class of an obstacle), the
pending `actionList`, and the `m_consolidate_actions` flag.  Connector ends attached to pins: the
consolidation rule of `ActionInfo::addConnEndUpdate` with its `isConnPinMoveUpdate` flag as coded, and
the internal "pin moved with its shape" updates that the first loop of `processActions` queues through
`ShapeRef::moveAttachedConns` / `JunctionRef::moveAttachedConns` for every connector end attached to a
moved obstacle (`genPinMoves`).  NOT represented: the transient state between the first and the last loop
in which `Obstacle::makeInactive` has turned the attached ends into manual points (the last loop
re-attaches every one of them: by the pin-move update or by the user's queued change); which pins exist
on a shape and where they are (Driver/C06 resolves a pin end to `pinPosition` of the model polygon).
An end left attached to a DELETED obstacle becomes a manual point at a routing-dependent position in the
C++; such transactions are outside `legal` (`attachOk`).
What is NOT modelled: visibility graphs, `contains`, rerouting (audited per run by Driver/C06).

Shapes and junctions are both `Obstacle`s in the C++ and the junction entry points are literal
copies of the shape entry points (router.cpp:659-778 vs :255-400), differing only in the enum
values (hence the sort rank), in `setPosition` vs `setNewPoly`, and in the absence of `firstMove`.
They are therefore modelled by ONE obstacle kind with a flag `isJ`; the geometry payload `geom` is
the polygon for a shape and the one-point list `[position]` for a junction (so that the relative
move is `translate` for both; `JunctionRef::m_polygon` = `makeRectangle(position)` is derived).

Code facts mirrored here (checked against the source, each has a line reference):
* `ActionInfo::operator==` compares (type, objPtr): at most one action per (type, object)      (actioninfo.cpp:165)
* `ShapeRef::ShapeRef` calls `addShape` (shape.cpp:42): push `ShapeAdd` unless already queued  (router.cpp:255-278)
* `moveShape(shape, poly, first_move)`: asserts no queued `ShapeRemove`; if a `ShapeAdd` is queued the
  polygon is written into the shape AT ONCE (`setNewPoly`) and the function RETURNS — also skipping the
  `if (!m_consolidate_actions) processTransaction()` tail; else a queued `ShapeMove` gets its `newPoly`
  overwritten but KEEPS its `firstMove`; else a new `ShapeMove` is pushed                     (router.cpp:360-400)
* `moveShape(shape, dx, dy)`: base polygon = queued `ShapeMove`'s `newPoly` if any, else
  `shape->polygon()`; translated; then the absolute overload with `first_move=false`          (router.cpp:319-339)
* `deleteShape`: asserts no queued `ShapeAdd`; erases a queued `ShapeMove`; pushes `ShapeRemove`
  unless already queued                                                                        (router.cpp:281-309)
* `modifyConnector(conn, type, connEnd, connPinMoveUpdate)`: push `ConnChange` with one update, or
  `addConnEndUpdate`: a queued update for the same end is overwritten by a user change and LEFT ALONE by a
  pin-move update (`isConnPinMoveUpdate`); else append                                         (router.cpp:187-211, actioninfo.cpp:125-162)
* `ShapeRef::moveAttachedConns` / `JunctionRef::moveAttachedConns` (first loop of `processActions`, Move
  actions only): `modifyConnector(conn, endpointType, *connEnd, true)` for every `ConnEnd` in
  `m_following_conns`; the new `ConnChange` entries go to the END of the list being traversed and are
  skipped by the first two loops, processed by the last                                        (shape.cpp:57-76, junction.cpp:170-192, router.cpp:521-532)
* `new ShapeConnectionPin(shape, …)`: `Router::modifyConnectionPin` queues a `ConnectionPinChange` (no
  scene edit, not modelled) and ends with the `if (!m_consolidate_actions) processTransaction()` tail
* every entry point ends with `if (!m_consolidate_actions) processTransaction();`
* `processTransaction`: returns false (does nothing) if the list is empty (no hyperedge
  reroutes, no settings change)                                                                (router.cpp:640-656)
* `processActions`: `actionList.sort()` (stable, by (type, id), actioninfo.cpp:171-193);
  pass 1 over Remove/Move: `makeInactive`, Remove ⇒ `delete obstacle`;
  pass 2 over Add/Move: `makeActive`, Move ⇒ `setNewPoly(newPoly)` / `setPosition(newPosition)`;
  pass 3 over ConnChange: `updateEndPoint` for each queued update in list order; clear         (router.cpp:464-638)
-/
namespace AdaptaVerif.Model.ActionQueue

structure Pt where
  x : Rat
  y : Rat
  deriving Repr, DecidableEq, Inhabited

abbrev Poly := List Pt

/-- `Polygon::translate(dx, dy)` / `newPosition.x += xDiff; newPosition.y += yDiff` -/
def translate (g : Poly) (dx dy : Rat) : Poly := g.map fun p => ⟨p.x + dx, p.y + dy⟩

/-- connector end: `VertID::src` (1) / `VertID::tar` (2) -/
inductive End where
  | src | tar
  deriving Repr, DecidableEq, Inhabited

/-- a `ConnEnd`: a free point (`anchor = 0`; `x y` = the point), or `ConnEnd(shape, pinClassId)` /
    `ConnEnd(junction)` (`anchor` = id of the obstacle ≠ 0, `cls` = `m_connection_pin_class_id`; `x y` = 0:
    where the pin is follows from the obstacle's polygon, it is not part of the end) -/
structure CEnd where
  x : Rat
  y : Rat
  anchor : Nat := 0
  cls : Nat := 0
  deriving Repr, DecidableEq, Inhabited

/-- `ConnEnd(Point)` -/
def CEnd.pt (p : Pt) : CEnd := { x := p.x, y := p.y }
/-- `ConnEnd(ShapeRef*, classId)` / `ConnEnd(JunctionRef*)` -/
def CEnd.pin (anchor cls : Nat) : CEnd := { x := 0, y := 0, anchor := anchor, cls := cls }
def CEnd.isPin (e : CEnd) : Bool := e.anchor != 0

/-- `enum ActionType` restricted to the values the modelled entry points create; for obstacles the
    shape/junction distinction is the `isJ` flag of the action -/
inductive Kind where
  | move | add | remove | connChange
  deriving Repr, DecidableEq, Inhabited

structure Action where
  kind : Kind
  isJ : Bool := false
  id : Nat
  /-- `newPoly` (shape move) / `[newPosition]` (junction move) -/
  geom : Poly := []
  firstMove : Bool := false
  /-- `ConnUpdateList conns` -/
  conns : List (End × CEnd) := []
  deriving Repr, DecidableEq, Inhabited

/-- position of the action's type in `enum ActionType { ShapeMove, ShapeAdd, ShapeRemove,
    JunctionMove, JunctionAdd, JunctionRemove, ConnChange, … }` -/
def Action.rank (a : Action) : Nat :=
  match a.kind with
  | .move => if a.isJ then 3 else 0
  | .add => if a.isJ then 4 else 1
  | .remove => if a.isJ then 5 else 2
  | .connChange => 6

def Action.isConn (a : Action) : Bool := a.kind == .connChange

/-- `ActionInfo::operator<` as a (total) `≤`: by type, then by object id -/
def Action.le (a b : Action) : Bool :=
  a.rank < b.rank || (a.rank == b.rank && a.id ≤ b.id)

/-- a `ShapeRef` / `JunctionRef` object -/
structure Obst where
  id : Nat
  isJ : Bool
  geom : Poly
  /-- `Obstacle::m_active`: in `Router::m_obstacles` and its vertices in the vertex list -/
  active : Bool
  deriving Repr, DecidableEq, Inhabited

/-- a `ConnRef` object; an end is `none` while `m_src_vert` / `m_dst_vert` is still null -/
structure Conn where
  id : Nat
  src : Option CEnd := none
  dst : Option CEnd := none
  deriving Repr, DecidableEq, Inhabited

structure Scene where
  obsts : List Obst := []
  conns : List Conn := []
  deriving Repr, DecidableEq, Inhabited

structure State where
  scene : Scene := {}
  /-- `Router::actionList` -/
  queue : List Action := []
  /-- `Router::m_consolidate_actions` -/
  useTxn : Bool := true
  deriving Repr, DecidableEq, Inhabited

def init : State := {}

inductive Op where
  /-- `new ShapeRef(router, poly, id)` (`j = false`, geom = polygon) or
      `new JunctionRef(router, pos, id)` (`j = true`, geom = `[pos]`) -/
  | addObst (j : Bool) (id : Nat) (g : Poly)
  /-- `moveShape(shape, newPoly, first_move)` / `moveJunction(junction, newPosition)` -/
  | moveAbs (j : Bool) (id : Nat) (g : Poly) (firstMove : Bool)
  /-- `moveShape(shape, dx, dy)` / `moveJunction(junction, dx, dy)` -/
  | moveRel (j : Bool) (id : Nat) (dx dy : Rat)
  /-- `deleteShape(shape)` / `deleteJunction(junction)` -/
  | delete (j : Bool) (id : Nat)
  /-- `new ConnRef(router, id)`: queues nothing -/
  | newConn (id : Nat)
  /-- `conn->setEndpoint(which, connEnd)` (= `setSourceEndpoint` / `setDestEndpoint`) with
      `connEnd` = `ConnEnd(p)`, `ConnEnd(shape, classId)` or `ConnEnd(junction)` -/
  | setEndpoint (conn : Nat) (which : End) (p : CEnd)
  /-- `new ShapeConnectionPin(shape, classId, xOffset, yOffset, proportional, 0, dirs)`: no scene edit;
      reaches the `processTransaction` tail of `Router::modifyConnectionPin` -/
  | newPin (obst cls : Nat) (xo yo : Rat)
  | setTransactionUse (b : Bool)
  | processTransaction
  deriving Repr, DecidableEq, Inhabited

/-! ### lookups -/

def findObst (sc : Scene) (id : Nat) : Option Obst := sc.obsts.find? (·.id == id)
def findConn (sc : Scene) (id : Nat) : Option Conn := sc.conns.find? (·.id == id)

/-- the queued obstacle action for object `id` (`find(actionList…, ActionInfo(type, obj))` for any
    obstacle type; under the queue invariant there is at most one) -/
def findObstAct (q : List Action) (id : Nat) : Option Action :=
  q.find? (fun a => !a.isConn && a.id == id)

def findAct (q : List Action) (k : Kind) (id : Nat) : Option Action :=
  q.find? (fun a => a.kind == k && a.id == id)

def hasAct (q : List Action) (k : Kind) (id : Nat) : Bool := (findAct q k id).isSome

/-! ### scene updates -/

def mapObst (sc : Scene) (id : Nat) (f : Obst → Obst) : Scene :=
  { sc with obsts := sc.obsts.map fun o => if o.id == id then f o else o }

def eraseObst (sc : Scene) (id : Nat) : Scene :=
  { sc with obsts := sc.obsts.filter fun o => !(o.id == id) }

def mapConn (sc : Scene) (id : Nat) (f : Conn → Conn) : Scene :=
  { sc with conns := sc.conns.map fun c => if c.id == id then f c else c }

def Conn.setEnd (c : Conn) (e : End) (p : CEnd) : Conn :=
  match e with
  | .src => { c with src := some p }
  | .tar => { c with dst := some p }

/-- all queued updates of one `ConnChange` applied to a connector, in list order -/
def Conn.getEnd (c : Conn) (e : End) : Option CEnd :=
  match e with
  | .src => c.src
  | .tar => c.dst

def Conn.applyUpdates (c : Conn) (us : List (End × CEnd)) : Conn :=
  us.foldl (fun c u => c.setEnd u.1 u.2) c

/-- replace the first element satisfying `p` (the `found->… = …` updates through a `find` iterator) -/
def updFirst {α} (p : α → Bool) (f : α → α) : List α → List α
  | [] => []
  | a :: l => if p a then f a :: l else a :: updFirst p f l

/-- `actionList.erase(found)` -/
def eraseFirst {α} (p : α → Bool) : List α → List α
  | [] => []
  | a :: l => if p a then l else a :: eraseFirst p l

/-- `ActionInfo::addConnEndUpdate(type, connEnd, isConnPinMoveUpdate)`: a queued change to the same end
    is overwritten by a user change, and left alone by a pin-move update ("leave the user created update
    that was found, since it may be moving the connection to connect to a different shape/pin");
    no queued change to that end: append -/
def addConnEndUpdate (us : List (End × CEnd)) (e : End) (p : CEnd) (isPinMove : Bool) : List (End × CEnd) :=
  if us.any (·.1 == e) then
    if !isPinMove then updFirst (·.1 == e) (fun _ => (e, p)) us else us
  else us ++ [(e, p)]

/-- `Router::modifyConnector(conn, type, connEnd, connPinMoveUpdate)` without its `processTransaction` tail -/
def modifyConnector (q : List Action) (c : Nat) (e : End) (p : CEnd) (isPinMove : Bool) : List Action :=
  if hasAct q .connChange c then
    updFirst (fun a => a.kind == .connChange && a.id == c)
      (fun a => { a with conns := addConnEndUpdate a.conns e p isPinMove }) q
  else q ++ [{ kind := .connChange, id := c, conns := [(e, p)] }]

/-! ### the entry points: queueing part. The `Bool` tells whether control reaches the
    `if (!m_consolidate_actions) processTransaction();` tail. -/

def enqMoveAbs (st : State) (j : Bool) (id : Nat) (g : Poly) (fm : Bool) : State × Bool :=
  if hasAct st.queue .add id then
    -- "The Add is enough": found->shape()->setNewPoly(newPoly); return;
    ({ st with scene := mapObst st.scene id fun o => { o with geom := g } }, false)
  else if hasAct st.queue .move id then
    -- overwrite the polygon, leave firstMove alone
    ({ st with queue := updFirst (fun a => a.kind == .move && a.id == id) (fun a => { a with geom := g }) st.queue }, true)
  else
    ({ st with queue := st.queue ++ [{ kind := .move, isJ := j, id := id, geom := g, firstMove := fm }] }, true)

/-- base geometry used by the relative overloads -/
def relBase (st : State) (id : Nat) : Poly :=
  match findAct st.queue .move id with
  | some a => a.geom
  | none => match findObst st.scene id with
    | some o => o.geom
    | none => []

def enqueue (st : State) : Op → State × Bool
  | .addObst j id g =>
    let sc := { st.scene with obsts := st.scene.obsts ++ [{ id := id, isJ := j, geom := g, active := false }] }
    let q := if hasAct st.queue .add id then st.queue else st.queue ++ [{ kind := .add, isJ := j, id := id }]
    ({ st with scene := sc, queue := q }, true)
  | .moveAbs j id g fm => enqMoveAbs st j id g fm
  | .moveRel j id dx dy => enqMoveAbs st j id (translate (relBase st id) dx dy) false
  | .delete j id =>
    let q := eraseFirst (fun a => a.kind == .move && a.id == id) st.queue
    let q := if hasAct q .remove id then q else q ++ [{ kind := .remove, isJ := j, id := id }]
    ({ st with queue := q }, true)
  | .newConn id =>
    ({ st with scene := { st.scene with conns := st.scene.conns ++ [{ id := id }] } }, false)
  | .setEndpoint c e p => ({ st with queue := modifyConnector st.queue c e p false }, true)
  | .newPin _ _ _ _ => (st, true)
  | .setTransactionUse b => ({ st with useTxn := b }, false)
  | .processTransaction => (st, false)

/-! ### processActions -/

/-- insertion of one action before the first queued action that is not smaller -/
def insertAct (a : Action) : List Action → List Action
  | [] => [a]
  | b :: l => if Action.le a b then a :: b :: l else b :: insertAct a l

/-- `actionList.sort()`: stable sort by `ActionInfo::operator<` (a structural insertion sort, so
    that concrete histories can be evaluated by `decide`; stability = `std::list::sort`) -/
def sortActions (q : List Action) : List Action := q.foldr insertAct []

/-- first loop of `processActions` for one action -/
def pass1One (sc : Scene) (a : Action) : Scene :=
  match a.kind with
  | .remove => eraseObst sc a.id                                   -- makeInactive; delete obstacle
  | .move => mapObst sc a.id fun o => { o with active := false }   -- makeInactive
  | _ => sc

/-- third (add/move) loop for one action -/
def pass2One (sc : Scene) (a : Action) : Scene :=
  match a.kind with
  | .add => mapObst sc a.id fun o => { o with active := true }                     -- makeActive
  | .move => mapObst sc a.id fun o => { o with active := true, geom := a.geom }    -- makeActive; setNewPoly
  | _ => sc

/-- last loop for one action: `updateEndPoint` per queued update, in list order -/
def pass3One (sc : Scene) (a : Action) : Scene :=
  match a.kind with
  | .connChange => a.conns.foldl (fun sc u => mapConn sc a.id fun c => c.setEnd u.1 u.2) sc
  | _ => sc

def runPasses (sc : Scene) (q : List Action) : Scene :=
  q.foldl pass3One (q.foldl pass2One (q.foldl pass1One sc))

/-! ### pin-move updates generated inside `processActions` -/

/-- `Obstacle::m_following_conns` of obstacle `m`: the connector ends currently attached to one of its
    pins, as (connector, end, copy of the `ConnEnd`). (A `std::set<ConnEnd *>`: the C++ visits them in
    address order; the order only permutes queue entries, `pin_moves_preserve_view`.) -/
def attachedEnds (sc : Scene) (m : Nat) : List (Nat × End × CEnd) :=
  sc.conns.flatMap fun c =>
    (match c.src with | some s => if s.anchor == m then [(c.id, End.src, s)] else [] | none => []) ++
    (match c.dst with | some d => if d.anchor == m then [(c.id, End.tar, d)] else [] | none => [])

/-- `ShapeRef::moveAttachedConns` / `JunctionRef::moveAttachedConns`:
    `modifyConnector(connEnd->m_conn_ref, connEnd->endpointType(), *connEnd, connPinUpdate = true)` -/
def moveAttachedConns (sc : Scene) (q : List Action) (m : Nat) : List Action :=
  (attachedEnds sc m).foldl (fun q t => modifyConnector q t.1 t.2.1 t.2.2 true) q

/-- the action list as the first loop of `processActions` leaves it: for every Move action, in list
    order, the pin-move updates of the obstacle's attached connector ends are merged into / appended to
    the list that is being traversed -/
def genPinMoves (sc : Scene) (q : List Action) : List Action :=
  q.foldl (fun acc a => if a.kind == .move then moveAttachedConns sc acc a.id else acc) q

/-- `Router::processActions`: sort; the first loop queues the pin-move updates (`genPinMoves`; the entries
    it appends are `ConnChange`s, which the first two loops skip); the three loops run over that list -/
def processActions (st : State) : State :=
  { st with scene := runPasses st.scene (genPinMoves st.scene (sortActions st.queue)), queue := [] }

/-- `Router::processTransaction` (no hyperedge reroutes registered, no settings change pending,
    `SimpleRouting == false`) -/
def processTransaction (st : State) : State :=
  if st.queue.isEmpty then st else processActions st

/-- one API call -/
def step (st : State) (op : Op) : State :=
  match op with
  | .processTransaction => processTransaction st
  | _ =>
    let r := enqueue st op
    if !r.1.useTxn && r.2 then processTransaction r.1 else r.1

def run (st : State) (ops : List Op) : State := ops.foldl step st

/-! ### documented preconditions -/

def idUsed (st : State) (id : Nat) : Bool :=
  st.scene.obsts.any (·.id == id) || st.scene.conns.any (·.id == id)

def obstIs (st : State) (j : Bool) (id : Nat) : Bool :=
  match findObst st.scene id with
  | some o => o.isJ == j
  | none => false

/-- The documented / asserted preconditions of each call, as a decidable predicate of the
    current state:
    * ids are non-zero and unique among the objects that currently exist (`assignId`: "we trust the
      ID given is unique"); a shape polygon has ≥ 3 points, a junction one position;
    * move / delete refer to an existing object of the right class ("You should not use the shape
      reference again after [deleteShape]");
    * move: no `Remove` queued (COLA_ASSERT router.cpp:366), same number of polygon points
      (`setNewPoly` COLA_ASSERT obstacle.cpp:101); junctions have no `first_move`;
    * delete: no `Add` queued (COLA_ASSERT router.cpp:286) — "no add+delete of one shape in one
      transaction" — and not already queued for deletion;
    * setEndpoint: the connector exists; a pin end names an existing obstacle that is not queued for
      deletion ("You should not use the shape reference again after [deleteShape]");
    * newPin: the shape exists and is not queued for deletion. -/
def legalCall (st : State) : Op → Bool
  | .addObst j id g => id != 0 && !idUsed st id && (if j then g.length == 1 else g.length ≥ 3)
  | .moveAbs j id g fm =>
    obstIs st j id && !hasAct st.queue .remove id && (relBaseLen st id == g.length) && (!j || !fm)
  | .moveRel j id _ _ => obstIs st j id && !hasAct st.queue .remove id
  | .delete j id => obstIs st j id && !hasAct st.queue .add id && !hasAct st.queue .remove id
  | .newConn id => id != 0 && !idUsed st id
  | .setEndpoint c _ p =>
    (findConn st.scene c).isSome &&
      (p.anchor == 0 || ((findObst st.scene p.anchor).isSome && !hasAct st.queue .remove p.anchor))
  | .newPin o _ _ _ => obstIs st false o && !hasAct st.queue .remove o
  | .setTransactionUse _ => true
  | .processTransaction => true
where
  relBaseLen (st : State) (id : Nat) : Nat :=
    match findObst st.scene id with
    | some o => o.geom.length
    | none => 0

/-- the end a connector will have once the queue is processed: the queued user change, else its current end -/
def effEnd (st : State) (c : Conn) (e : End) : Option CEnd :=
  match findAct st.queue .connChange c.id with
  | some a => (c.applyUpdates a.conns).getEnd e
  | none => c.getEnd e

/-- no connector end is left attached to an obstacle that the pending transaction deletes (in the C++
    `Obstacle::makeInactive` turns such an end into a manual point at `ConnEnd::position()`, which depends on
    the pin the last routing chose: outside this model) -/
def attachOk (st : State) : Bool :=
  st.scene.conns.all fun c => [End.src, End.tar].all fun e =>
    match effEnd st c e with
    | some p => p.anchor == 0 || !hasAct st.queue .remove p.anchor
    | none => true

/-- does the call run `processActions` on a non-trivial state: `processTransaction()` itself, or any call
    reaching its `if (!m_consolidate_actions) processTransaction()` tail with transactions off -/
def processes (st : State) (op : Op) : Bool :=
  match op with
  | .processTransaction => true
  | _ => !(enqueue st op).1.useTxn && (enqueue st op).2

/-- documented preconditions of the call (`legalCall`), and if the call processes the queue: no connector end
    stays attached to an obstacle deleted by that transaction (`attachOk`) -/
def legal (st : State) (op : Op) : Bool :=
  legalCall st op && (!processes st op || attachOk (enqueue st op).1)

/-- every call of the history is legal in the state it is made in -/
def legalRun (st : State) : List Op → Bool
  | [] => true
  | op :: ops => legal st op && legalRun (step st op) ops

/-- the documented preconditions of one call as a decidable proposition -/
def Legal (st : State) (op : Op) : Prop := legal st op = true
instance (st : State) (op : Op) : Decidable (Legal st op) := inferInstanceAs (Decidable (legal st op = true))

/-- a history all of whose calls are legal when they are made, starting from a new router -/
def LegalHistory (ops : List Op) : Prop := legalRun init ops = true
instance (ops : List Op) : Decidable (LegalHistory ops) := inferInstanceAs (Decidable (legalRun init ops = true))

end AdaptaVerif.Model.ActionQueue
