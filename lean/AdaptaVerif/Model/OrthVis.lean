/-
Executable model of libavoid's static orthogonal visibility graph builder
(`generateStaticOrthogonalVisGraph`, cola/libavoid/orthogonal.cpp; scan-line helpers in scanline.cpp)
for scenes of axis-parallel rectangles (routing boxes = shape ± shapeBufferDistance) and connector end
points with direction flags.  Exact `Rat`; core Lean only (linked into driver_c05).

The model is *declarative per line*, not event by event:

* vertical sweep (`processEventVert`): for every rectangle side `y = min.y / max.y` and every connector
  end point the candidate horizontal segment(s), whose extent is what `Node::findFirstPointAboveAndBelow`
  / `firstPointAbove/Below` compute from the rectangles that are in the scan line at that position
  (= the rectangles with `min.y ≤ y ≤ max.y`, because an Open is inserted in pass 1 and a Close removed in
  pass 3 of its position); the scan-line *order* is irrelevant for these functions (they walk the
  whole list in both directions), so the pointer tie-breaks of `CmpNodePos` / `compare_events` do not
  enter;
* `SegmentListWrapper::insert`: collinear segments that overlap or touch are merged, vertex sets united
  (`mergeAll`; the list is kept pairwise non-overlapping, so the result is the set of connected
  components whatever the insertion order);
* horizontal sweep (`processEventHori`) = the same on the transposed scene, with its own emission rule
  (one segment per side, corner vertices only used as `beginVertInf/finishVertInf`);
* `intersectSegments`: a vertical line `v` meets a horizontal line `h` iff
  `v.b ≤ h.p ≤ v.f ∧ h.b ≤ v.p ≤ h.f`; at the meeting point `h` gets a dummy vertex unless it already
  has a vertex (of any kind) there, `v` receives all vertices `h` has there; finite line ends get dummy
  vertices (`horiCommitBegin/Finish`, the begin/finish points of
  `generateVisibilityEdgesFromBreakpointSet`); infinite ends (±DBL_MAX, here the sentinels `lo`/`hi`)
  are cut back to the outermost breakpoint;
* `LineSegment::generateVisibilityEdgesFromBreakpointSet`, literally, on the sorted breakpoint list:
  all pairs between consecutive position groups, the direction restrictions of connector end points
  (`getPosVertInfDirections`), and the bypass edges over runs of connector end points.

Vertices are identified up to: exact point + "is a connector end point (which one)".  All dummy vertices
(`dummyOrthogID`, `dummyOrthogShapeID`: `VertID::operator==` ignores `props`, so `PosVertInf::operator<`
treats any two of them at one position as equal) collapse to one `node` per point, as they do inside every
`BreakpointSet`.

`fixConnectionPointVisibilityOnOutsideOfVisibilityGraph` is `Scene.fixDirs`;
`LineSegment::setLongRangeVisibilityFlags` (`VertInf::orthogVisPropFlags`) is `Scene.flagParts` (last section).
A connector end point is any vertex of the `conns` part of the router's vertex list that has a direction:
connector ends and `ShapeConnectionPin` vertices alike (the harness lists them in vertex-id order).
Theorems: `Props/C05OrthVis.lean`; tie: `Driver/C05OrthVis.lean` (exact edge-set equality with the dumped
`Router::visOrthogGraph`).
-/
namespace AdaptaVerif.Model.OrthVis

/-- routing box `[x0,x1] × [y0,y1]` (min.x, min.y, max.x, max.y) -/
structure Rect where
  x0 : Rat
  y0 : Rat
  x1 : Rat
  y1 : Rat
  deriving Repr, BEq, DecidableEq, Inhabited

def Rect.tr (r : Rect) : Rect := ⟨r.y0, r.x0, r.y1, r.x1⟩

/-- `ConnDirFlags` (libavoid's y axis points down: `up` = towards smaller y) -/
structure Dirs where
  up : Bool
  down : Bool
  left : Bool
  right : Bool
  deriving Repr, BEq, DecidableEq, Inhabited

def Dirs.none (d : Dirs) : Bool := !(d.up || d.down || d.left || d.right)
def Dirs.tr (d : Dirs) : Dirs := ⟨d.left, d.right, d.up, d.down⟩

/-- connector end point (a `VertInf` of the `conns` part of the vertex list with its `visDirections`) -/
structure Conn where
  x : Rat
  y : Rat
  d : Dirs
  deriving Repr, BEq, DecidableEq, Inhabited

def Conn.tr (c : Conn) : Conn := ⟨c.y, c.x, c.d.tr⟩

/-- vertex kind: a dummy vertex of the builder, or connector end point number `i` -/
inductive VK where
  | node
  | conn (i : Nat)
  deriving Repr, BEq, DecidableEq, Inhabited

def VK.isConn : VK → Bool
  | .node => false
  | .conn _ => true

/-- a vertex on a line: coordinate along the line + kind -/
structure LV where
  t : Rat
  k : VK
  deriving Repr, BEq, DecidableEq, Inhabited

/-- `LineSegment`: `[b, f]` at position `p` (horizontal: y = p, b/f are x; vertical: x = p), `vertInfs` -/
structure Seg where
  b : Rat
  f : Rat
  p : Rat
  vs : List LV
  deriving Repr, BEq, DecidableEq, Inhabited

structure Scene where
  rects : List Rect
  conns : List Conn
  deriving Repr, Inhabited

def Scene.tr (s : Scene) : Scene := ⟨s.rects.map Rect.tr, s.conns.map Conn.tr⟩

/-! ### limits -/

def maxL (a : Rat) (l : List Rat) : Rat := l.foldl max a
def minL (a : Rat) (l : List Rat) : Rat := l.foldl min a

/-- the rectangles in the scan line at sweep position `y` (pass 2) -/
def activeAt (rects : List Rect) (y : Rat) : List Rect :=
  rects.filter fun r => r.y0 ≤ y ∧ y ≤ r.y1

/-- `eventsAtSamePos` of `findFirstPointAboveAndBelow` -/
def samePos (v c : Rect) (y : Rat) : Bool :=
  (y == v.y1 && y == c.y1) || (y == v.y0 && y == c.y0)

def leftOf (v c : Rect) : Bool := c.x1 ≤ v.x0
def rightOf (v c : Rect) : Bool := !leftOf v c && decide (c.x0 ≥ v.x1)
def ovl (v : Rect) (y : Rat) (c : Rect) : Bool := !leftOf v c && !decide (c.x0 ≥ v.x1) && !samePos v c y

/-- the four results of `Node::findFirstPointAboveAndBelow(XDIM, y, …)` for rectangle `v` against the
    other rectangles `act` of the scan line; `lo`/`hi` stand for ∓DBL_MAX -/
structure Limits where
  minLimit : Rat
  maxLimit : Rat
  minLimitMax : Rat
  maxLimitMin : Rat
  deriving Repr

def findLimits (lo hi : Rat) (act : List Rect) (v : Rect) (y : Rat) : Limits :=
  { minLimit := maxL lo ((act.filter (leftOf v)).map (·.x1))
    maxLimit := minL hi ((act.filter (rightOf v)).map (·.x0))
    minLimitMax := minL v.x1 ((act.filter (ovl v y)).map (·.x0))
    maxLimitMin := maxL v.x0 ((act.filter (ovl v y)).map (·.x1)) }

/-- not "in line with an edge" of `c`: the point's y is neither side of `c` -/
def offEdge (py : Rat) (c : Rect) : Bool := !(py == c.y0 || py == c.y1)

/-- `Node::firstPointAbove(XDIM)` of a connector end point node at `(px, py)` -/
def firstAbove (lo : Rat) (act : List Rect) (px py : Rat) : Rat :=
  maxL lo ((act.filter fun c => offEdge py c && decide (c.x1 ≤ px)).map (·.x1))

/-- `Node::firstPointBelow(XDIM)` -/
def firstBelow (hi : Rat) (act : List Rect) (px py : Rat) : Rat :=
  minL hi ((act.filter fun c => offEdge py c && decide (c.x0 ≥ px)).map (·.x0))

/-- `Node::isInsideShape(XDIM)` -/
def insideShape (act : List Rect) (px : Rat) : Bool :=
  act.any fun c => c.x0 < px ∧ px < c.x1

/-! ### candidate segments of one sweep -/

/-- `processEventVert`, Open/Close of rectangle `v` (the `i`-th), side `y`; the three touching pieces of
    the non-overlapping case are emitted as the one segment they merge into -/
def sideSegsH (lo hi : Rat) (rects : List Rect) (i : Nat) (v : Rect) (y : Rat) : List Seg :=
  let L := findLimits lo hi (activeAt (rects.eraseIdx i) y) v y
  if L.minLimitMax ≥ L.maxLimitMin then
    [⟨L.minLimit, L.maxLimit, y, [⟨v.x0, .node⟩, ⟨v.x1, .node⟩]⟩]
  else
    (if L.minLimitMax > L.minLimit ∧ L.minLimitMax ≥ v.x0 then
      [⟨L.minLimit, L.minLimitMax, y, [⟨v.x0, .node⟩]⟩] else []) ++
    (if L.maxLimitMin < L.maxLimit ∧ L.maxLimitMin ≤ v.x1 then
      [⟨L.maxLimitMin, L.maxLimit, y, [⟨v.x1, .node⟩]⟩] else [])

/-- `processEventHori`, Open/Close (on the transposed scene): same limits, one segment; the corner
    vertices only serve as `beginVertInf` / `finishVertInf` -/
def sideSegsV (lo hi : Rat) (rects : List Rect) (i : Nat) (v : Rect) (y : Rat) : List Seg :=
  sideSegsH lo hi rects i v y

/-- `processEventVert`, ConnPoint `i` at `(c.x, c.y)`: left part, right part (merged), or a point segment;
    the end point's own vertex, and a dummy vertex at the same point unless it is inside a shape -/
def connSegH (lo hi : Rat) (rects : List Rect) (i : Nat) (c : Conn) : Seg :=
  let act := activeAt rects c.y
  let mn := firstAbove lo act c.x c.y
  let mx := firstBelow hi act c.x c.y
  let l1 := c.d.left && decide (mn < c.x)
  let l2 := c.d.right && decide (c.x < mx)
  ⟨if l1 then mn else c.x, if l2 then mx else c.x, c.y,
   ⟨c.x, .conn i⟩ :: (if !insideShape act c.x && (l1 || l2) then [⟨c.x, .node⟩] else [])⟩

/-- `processEventHori`, ConnPoint (transposed scene: `left` = libavoid's Up, `right` = Down): up to two
    segments without vertices -/
def connSegsV (lo hi : Rat) (rects : List Rect) (c : Conn) : List Seg :=
  let act := activeAt rects c.y
  let mn := firstAbove lo act c.x c.y
  let mx := firstBelow hi act c.x c.y
  (if c.d.left && decide (mn < c.x) then [⟨mn, c.x, c.y, []⟩] else []) ++
  (if c.d.right && decide (c.x < mx) then [⟨c.x, mx, c.y, []⟩] else [])

/-! ### `SegmentListWrapper::insert` -/

def Seg.overlaps (a b : Seg) : Bool :=
  a.p == b.p && ((decide (a.b ≥ b.b) && decide (a.b ≤ b.f)) || (decide (b.b ≥ a.b) && decide (b.b ≤ a.f)))

def Seg.merge (a b : Seg) : Seg := ⟨min a.b b.b, max a.f b.f, a.p, a.vs ++ b.vs⟩

def insertSeg (l : List Seg) (s : Seg) : List Seg :=
  (l.filter fun c => !c.overlaps s) ++ [(l.filter fun c => c.overlaps s).foldl Seg.merge s]

def mergeAll (raw : List Seg) : List Seg := raw.foldl insertSeg []

/-! ### the two sweeps -/

def rawH (lo hi : Rat) (rects : List Rect) (conns : List Conn) : List Seg :=
  (rects.zipIdx.flatMap fun (v, i) => sideSegsH lo hi rects i v v.y0 ++ sideSegsH lo hi rects i v v.y1) ++
  (conns.zipIdx.filter (fun (c, _) => !c.d.none)).map fun (c, i) => connSegH lo hi rects i c

def rawV (lo hi : Rat) (rects : List Rect) (conns : List Conn) : List Seg :=
  (rects.zipIdx.flatMap fun (v, i) => sideSegsV lo hi rects i v v.y0 ++ sideSegsV lo hi rects i v v.y1) ++
  (conns.filter (fun c => !c.d.none)).flatMap fun c => connSegsV lo hi rects c

/-! ### `fixConnectionPointVisibilityOnOutsideOfVisibilityGraph` -/

/-- sweep positions of the vertical sweep -/
def eventYs (s : Scene) : List Rat :=
  s.rects.flatMap (fun r => [r.y0, r.y1]) ++ (s.conns.filter (fun c => !c.d.none)).map (·.y)

def extreme (l : List Rat) (v : Rat) : Bool :=
  match l with
  | [] => false
  | a :: r => v == minL a r || v == maxL a r

/-- end points on the first / last position of the vertical sweep see Left|Right, on the first / last
    position of the horizontal sweep Up|Down (applied in this order; an end point without any direction
    is no event in either sweep) -/
def Scene.fixDirs (s : Scene) : List Conn :=
  let ys := eventYs s
  let xs := eventYs s.tr
  s.conns.map fun c =>
    if c.d.none then c else
      let d1 : Dirs := if extreme ys c.y then { c.d with left := true, right := true } else c.d
      let d2 : Dirs := if extreme xs c.x then { d1 with up := true, down := true } else d1
      { c with d := d2 }

/-! ### crossing the lines -/

def hasAt (vs : List LV) (t : Rat) : Bool := vs.any (·.t == t)

def ensure (vs : List LV) (t : Rat) : List LV := if hasAt vs t then vs else vs ++ [⟨t, .node⟩]

def crosses (h v : Seg) : Bool :=
  decide (v.b ≤ h.p) && decide (h.p ≤ v.f) && decide (h.b ≤ v.p) && decide (v.p ≤ h.f)

/-- the vertex `insertBreakpointsBegin/Finish` take from the vertical line: its `beginVertInf()` /
    `finishVertInf()` when the horizontal line runs exactly through that end -/
def endVert (h v : Seg) : Bool :=
  (h.p == v.b && hasAt v.vs v.b) || (h.p == v.f && hasAt v.vs v.f)

/-- a dummy vertex at the finite line end `t` unless there is a vertex already; nothing at an infinite
    end (`inf` = the sentinel) -/
def ensureFin (inf : Rat) (vs : List LV) (t : Rat) : List LV := if t == inf then vs else ensure vs t

/-- the vertices of `h` plus the `beginVertInf/finishVertInf` of the vertical lines that pass exactly through
    `h`'s begin or finish and have their own end vertex there (`insertBreakpointsBegin`,
    `insertBreakpointsFinish`).  Repaired order of /repo (fix "crossing orthogonal visibility lines share one
    vertex where a horizontal line finishes on a vertical line"): at the finish, too, that vertex is committed
    BEFORE the horizontal line collects its break points, so it is a break point of both lines.  (As found it
    reached only the vertical line: `hBaseAsFound` / `vFromAsFound` at the end of this file.) -/
def hBase (vls : List Seg) (h : Seg) : List LV :=
  h.vs ++ (((vls.filter (crosses h)).filter fun v => (v.p == h.b || v.p == h.f) && endVert h v).map
    fun v => (⟨v.p, .node⟩ : LV))

/-- all vertices the horizontal line `h` ends up with (its `breakPoints`) -/
def hVerts (lo hi : Rat) (vls : List Seg) (h : Seg) : List LV :=
  ((vls.filter (crosses h)).map (·.p)).foldl ensure (ensureFin hi (ensureFin lo (hBase vls h) h.b) h.f)

/-- what one horizontal line (with its final vertices `hv`) hands to the vertical line `v`: all the vertices
    it has at the meeting point -/
def vFrom (v : Seg) (h : Seg) (hv : List LV) : List LV :=
  if crosses h v then (hv.filter (·.t == v.p)).map fun q => (⟨h.p, q.k⟩ : LV) else []

/-- the breakpoints the vertical line `v` receives from the horizontal lines, and its own end points -/
def vVerts (lo hi : Rat) (hls : List (Seg × List LV)) (v : Seg) : List LV :=
  ensureFin hi (ensureFin lo (hls.flatMap fun p => vFrom v p.1 p.2) v.b) v.f

/-! ### `generateVisibilityEdgesFromBreakpointSet` -/

/-- breakpoint (`PosVertInf`): position, kind, `dirs & VisDirDown`, `dirs & VisDirUp` -/
structure BP where
  t : Rat
  k : VK
  dn : Bool
  up : Bool
  deriving Repr, BEq, DecidableEq, Inhabited

/-- order of `PosVertInf::operator<`: position, then vertex id (all dummies = (0,0) first, connector end
    points by id = by index) -/
def LV.lt (a b : LV) : Bool :=
  a.t < b.t || (a.t == b.t && (match a.k, b.k with
    | .node, .conn _ => true
    | .conn i, .conn j => i < j
    | _, .node => false))

def insertLV (a : LV) : List LV → List LV
  | [] => [a]
  | b :: r => if a.lt b then a :: b :: r else if b.lt a then b :: insertLV a r else b :: r

/-- a `std::set<PosVertInf>`: sorted, equal elements kept once -/
def sortLV (l : List LV) : List LV := l.foldr insertLV []

/-- position groups of a sorted breakpoint list -/
def groupsOf : List BP → List (List BP)
  | [] => []
  | a :: r =>
    match groupsOf r with
    | (b :: g) :: gs => if a.t == b.t then (a :: b :: g) :: gs else [a] :: (b :: g) :: gs
    | gs => [a] :: gs

/-- `(elements before x, reversed; x; elements after x)` for every `x` of the list -/
def splits : List α → List α → List (List α × α × List α)
  | _, [] => []
  | pre, x :: r => (pre, x, r) :: splits (x :: pre) r

/-- body of the inner `while` for one pair `last` (previous group) / `vert` (current group);
    `before` = the set elements before `last` (nearest first), `after` = those after `vert` -/
def pairEdges (before : List BP) (last vert : BP) (after : List BP) : List (BP × BP) :=
  (if vert.k.isConn && last.k.isConn then
    (match before.find? (fun b => !b.k.isConn) with
      | some side => if vert.dn then [(side, vert)] else []
      | none => []) ++
    (match after.find? (fun b => !b.k.isConn) with
      | some side => if last.up then [(last, side)] else []
      | none => [])
   else []) ++
  (if (last.k.isConn && !last.up) || (vert.k.isConn && !vert.dn) then [] else [(last, vert)])

def groupEdges (revPrefix : List BP) : List (List BP) → List (BP × BP)
  | g :: g' :: more =>
    ((splits [] g).flatMap fun (bl, last, _) =>
      (splits [] g').flatMap fun (_, vert, av) =>
        pairEdges (bl ++ revPrefix) last vert (av ++ (more.flatMap id))) ++
    groupEdges (g.reverse ++ revPrefix) (g' :: more)
  | _ => []

def lineEdges (bps : List BP) : List (BP × BP) := groupEdges [] (groupsOf bps)

/-! ### the graph -/

/-- graph vertex: exact point + kind -/
structure GV where
  x : Rat
  y : Rat
  k : VK
  deriving Repr, BEq, DecidableEq, Inhabited

/-- `getPosVertInfDirections(v, XDIM)`: (towards lower x, towards higher x) -/
def dirsX (conns : List Conn) : VK → Bool × Bool
  | .node => (true, true)
  | .conn i => match conns[i]? with
    | some c => (c.d.left, c.d.right)
    | none => (false, false)

/-- `getPosVertInfDirections(v, YDIM)`: (towards lower y = libavoid's Up, towards higher y = Down) -/
def dirsY (conns : List Conn) : VK → Bool × Bool
  | .node => (true, true)
  | .conn i => match conns[i]? with
    | some c => (c.d.up, c.d.down)
    | none => (false, false)

def toBPs (dirs : VK → Bool × Bool) (l : List LV) : List BP :=
  (sortLV l).map fun q => ⟨q.t, q.k, (dirs q.k).1, (dirs q.k).2⟩

/-- sentinels standing for ∓DBL_MAX: beyond every coordinate of the scene -/
def Scene.coords (s : Scene) : List Rat :=
  s.rects.flatMap (fun r => [r.x0, r.y0, r.x1, r.y1]) ++ s.conns.flatMap (fun c => [c.x, c.y])
def Scene.lo (s : Scene) : Rat := minL 0 s.coords - 1
def Scene.hi (s : Scene) : Rat := maxL 0 s.coords + 1

structure Lines where
  /-- horizontal lines with their final vertices -/
  hs : List (Seg × List LV)
  /-- vertical lines (of the transposed sweep: `p` = x, `b`/`f` = y) with their breakpoints -/
  vs : List (Seg × List LV)
  conns : List Conn

def Scene.lines (s : Scene) : Lines :=
  let lo := s.lo
  let hi := s.hi
  let conns := s.fixDirs
  let hl := mergeAll (rawH lo hi s.rects conns)
  let vl := mergeAll (rawV lo hi (s.rects.map Rect.tr) (conns.map Conn.tr))
  let hs := hl.map fun h => (h, hVerts lo hi vl h)
  { hs := hs, vs := vl.map fun v => (v, vVerts lo hi hs v), conns := conns }

def Lines.edges (L : Lines) : List (GV × GV) :=
  (L.hs.flatMap fun (h, vs) =>
    (lineEdges (toBPs (dirsX L.conns) vs)).map fun (a, b) => (⟨a.t, h.p, a.k⟩, ⟨b.t, h.p, b.k⟩)) ++
  (L.vs.flatMap fun (v, vs) =>
    (lineEdges (toBPs (dirsY L.conns) vs)).map fun (a, b) => (⟨v.p, a.t, a.k⟩, ⟨v.p, b.t, b.k⟩))

/-- the model's orthogonal visibility graph -/
def Scene.graph (s : Scene) : List (GV × GV) := s.lines.edges

/-! ### executable edge check (used by the driver on libavoid's dumped edges) -/

/-- the open segment between `(a, y)` and `(b, y)` meets the open rectangle `R` -/
def hitsH (R : Rect) (y a b : Rat) : Bool :=
  decide (R.y0 < y) && decide (y < R.y1) && decide (max (min a b) R.x0 < min (max a b) R.x1)

/-- an edge between two points is axis-parallel and its open segment avoids the open rectangle -/
def edgeAvoids (R : Rect) (x1 y1 x2 y2 : Rat) : Bool :=
  if y1 == y2 then !hitsH R y1 x1 x2
  else if x1 == x2 then !hitsH R.tr x1 y1 y2
  else false

/-- a connector end point strictly inside `R` -/
def hasConnIn (conns : List Conn) (R : Rect) : Bool :=
  conns.any fun c => decide (R.x0 < c.x) && decide (c.x < R.x1) && decide (R.y0 < c.y) && decide (c.y < R.y1)

/-! ### `setLongRangeVisibilityFlags` (`VertInf::orthogVisPropFlags`)

Every breakpoint of a line is marked with what lies before / behind it ON THAT LINE in the order of the
`BreakpointSet`: a connector end point (`*_CONN`) and/or a shape-corner vertex (`*_EDGE`,
`dummyOrthogShapeID`).  A vertex seen at the SAME position but earlier in the set order counts too.
Which dummy vertices are shape corners is recomputed from the candidate segments of the rectangle sides
that a merged line covers (the model's `node` kind does not distinguish them). -/

def XL_EDGE : Nat := 1
def XL_CONN : Nat := 2
def XH_EDGE : Nat := 4
def XH_CONN : Nat := 8
def YL_EDGE : Nat := 16
def YL_CONN : Nat := 32
def YH_EDGE : Nat := 64
def YH_CONN : Nat := 128

/-- candidate segments of the rectangle sides only (all their vertices are shape corners) -/
def rawSides (lo hi : Rat) (rects : List Rect) : List Seg :=
  rects.zipIdx.flatMap fun (v, i) => sideSegsH lo hi rects i v v.y0 ++ sideSegsH lo hi rects i v v.y1

/-- positions of the shape-corner vertices on the merged line `h` -/
def cornersOn (sides : List Seg) (h : Seg) : List Rat :=
  (sides.filter fun r => r.p == h.p && decide (h.b ≤ r.b) && decide (r.f ≤ h.f)).flatMap fun r => r.vs.map (·.t)

/-- one pass of `setLongRangeVisibilityFlags`: the mask each element gets from the elements before it -/
def scanMask (edgeBit connBit : Nat) : Bool → Bool → List (Bool × Bool) → List Nat
  | _, _, [] => []
  | seenConn, seenEdge, (isConn, isEdge) :: r =>
    ((if seenConn then connBit else 0) + (if seenEdge then edgeBit else 0)) ::
      scanMask edgeBit connBit (seenConn || isConn) (seenEdge || isEdge) r

/-- flags of the breakpoints of one line (sorted breakpoints with "is connector end point" / "is shape
    corner"): low-side bits from the forward pass, high-side bits from the backward pass -/
def lineFlags (lowEdge lowConn highEdge highConn : Nat) (l : List (Bool × Bool)) : List Nat :=
  let f := scanMask lowEdge lowConn false false l
  let b := (scanMask highEdge highConn false false l.reverse).reverse
  List.zipWith (· + ·) f b

/-- `(point, kind, flag bits contributed by one line)` for all breakpoints of all lines -/
def Scene.flagParts (s : Scene) : List (GV × Nat) :=
  let L := s.lines
  let sidesH := rawSides s.lo s.hi s.rects
  let vl := L.vs.map (·.1)
  (L.hs.flatMap fun (h, vs) =>
    let cs := cornersOn sidesH h ++
      (if (vl.filter (crosses h)).any (fun v => v.p == h.b && endVert h v) then [h.b] else []) ++
      (if (vl.filter (crosses h)).any (fun v => v.p == h.f && endVert h v) then [h.f] else [])
    let bps := sortLV vs
    let fl := lineFlags XL_EDGE XL_CONN XH_EDGE XH_CONN (bps.map fun q => (q.k.isConn, !q.k.isConn && cs.contains q.t))
    List.zipWith (fun q f => ((⟨q.t, h.p, q.k⟩ : GV), f)) bps fl) ++
  (L.vs.flatMap fun (v, vs) =>
    -- a dummy vertex received from the horizontal line `h` is a shape corner iff it is one on `h`
    let cs := L.hs.flatMap fun (h, _) =>
      if crosses h v && ((cornersOn sidesH h).contains v.p || ((v.p == h.b || v.p == h.f) && endVert h v)) then [h.p] else []
    let bps := sortLV vs
    let fl := lineFlags YL_EDGE YL_CONN YH_EDGE YH_CONN (bps.map fun q => (q.k.isConn, !q.k.isConn && cs.contains q.t))
    List.zipWith (fun q f => ((⟨v.p, q.t, q.k⟩ : GV), f)) bps fl)

/-! ### the scan line, event by event

`generateStaticOrthogonalVisGraph` walks the sweep positions in increasing order (`qsort` with
`compare_events`); at each position pass 1 inserts the rectangles that open there, pass 2 computes segments
from the scan line, pass 3 removes the rectangles that close there.  (Connector end point nodes are inserted
and removed inside their own pass-2 step.)  `sweepLines` is that loop on the indices of the rectangles;
`Props.C05OrthVis.sweep_scanline_is_activeAt` proves that what pass 2 sees is `activeAt`. -/

def opensAt (rects : List Rect) (p : Rat) : List Nat :=
  (rects.zipIdx.filter fun q => q.1.y0 == p).map (·.2)

def closesAt (rects : List Rect) (p : Rat) : List Nat :=
  (rects.zipIdx.filter fun q => q.1.y1 == p).map (·.2)

/-- `(position, scan line in pass 2)` for the sweep positions `ps` (in the order given), starting from the
    scan line `line` -/
def sweepLines (rects : List Rect) : List Rat → List Nat → List (Rat × List Nat)
  | [], _ => []
  | p :: ps, line =>
    let seen := line ++ opensAt rects p
    (p, seen) :: sweepLines rects ps (seen.filter fun i => !(closesAt rects p).contains i)

/-! ### the crossing rule as found (before the fix in /repo)

In `intersectSegments`, branch `vertLine.pos == horiLine.finish`, `insertBreakpointsFinish` ran AFTER
`addEdgeHorizontal` had collected the horizontal line's break points: the vertical line's own end vertex
reached the vertical line only.  On the level of vertex OBJECTS this split the graph at such a point (two
dummy vertices, one per line; which one a `std::set<PosVertInf>` kept depended on heap addresses); on the
level of points it loses an edge when the horizontal line has only a connector end point vertex there
(witness: `Props.C05OrthVis`, `demoSceneFinish`). -/

def hBaseAsFound (vls : List Seg) (h : Seg) : List LV :=
  h.vs ++ (((vls.filter (crosses h)).filter fun v => v.p == h.b && endVert h v).map fun _ => (⟨h.b, .node⟩ : LV))

def hVertsAsFound (lo hi : Rat) (vls : List Seg) (h : Seg) : List LV :=
  ((vls.filter (crosses h)).map (·.p)).foldl ensure (ensureFin hi (ensureFin lo (hBaseAsFound vls h) h.b) h.f)

def vFromAsFound (v : Seg) (h : Seg) (hv : List LV) : List LV :=
  if crosses h v then
    ((hv.filter (·.t == v.p)).map fun q => (⟨h.p, q.k⟩ : LV)) ++
      (if v.p == h.f && v.p != h.b && endVert h v then [⟨h.p, .node⟩] else [])
  else []

def vVertsAsFound (lo hi : Rat) (hls : List (Seg × List LV)) (v : Seg) : List LV :=
  ensureFin hi (ensureFin lo (hls.flatMap fun p => vFromAsFound v p.1 p.2) v.b) v.f

def Scene.linesAsFound (s : Scene) : Lines :=
  let lo := s.lo
  let hi := s.hi
  let conns := s.fixDirs
  let hl := mergeAll (rawH lo hi s.rects conns)
  let vl := mergeAll (rawV lo hi (s.rects.map Rect.tr) (conns.map Conn.tr))
  let hs := hl.map fun h => (h, hVertsAsFound lo hi vl h)
  { hs := hs, vs := vl.map fun v => (v, vVertsAsFound lo hi hs v), conns := conns }

/-- the graph the builder produced before the fix (point level) -/
def Scene.graphAsFound (s : Scene) : List (GV × GV) := s.linesAsFound.edges

end AdaptaVerif.Model.OrthVis
