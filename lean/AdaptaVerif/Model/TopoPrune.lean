/-
Model of `PruneDegenerate::operator()` and `validTurn`
(cola/libtopology/topology_constraints_constructor.cpp), the pass the `TopologyConstraints`
constructor runs over every EdgePoint of every path before it creates bend constraints and scan
events:

    void operator() (EdgePoint* p) {
        if(p->inSegment && p->outSegment) {
            EdgePoint *o=p->inSegment->start, *q=p->outSegment->end;
            double inSegLen = p->inSegment->length(), outSegLen = p->outSegment->length();
            if(inSegLen>0 && outSegLen>0
                    && o->pos(conj)==p->pos(conj) && p->pos(conj)==q->pos(conj)) pruneList.push_back(p);
            if(inSegLen==0 && o->inSegment && !validTurn(o->inSegment->start,p,q)) {
                COLA_ASSERT(validTurn(o->inSegment->start,o,q));
                pruneList.push_back(p);
            } else if(outSegLen==0 && q->outSegment && !validTurn(o,p,q->outSegment->end)) {
                COLA_ASSERT(validTurn(o,q,q->outSegment->end));
                pruneList.push_back(p);
            } } }

All marks are computed on the unpruned path (the prune list is filled first, `prune()` is applied
afterwards).  When two consecutive bend points `o`, `p` coincide (a zero-length segment: the corner
of one node lies exactly on the corner of another), each of the two is judged by the turn
`n → · → q` from the point BEFORE the pair to the point AFTER the pair: it stays only if that turn
goes around its own node (or is straight).

Open paths only (a path is the list of its EdgePoints; the first point has no inSegment, the last
no outSegment).  `dim` 0 = XDIM (conjugate coordinate y), 1 = YDIM.  Core Lean only.
-/
namespace AdaptaVerif.Model.TopoPrune

/-- an EdgePoint as the pruning rule sees it: its position and the centre of its node's rectangle -/
structure BPt where
  x : Rat
  y : Rat
  cx : Rat
  cy : Rat
  deriving Repr, DecidableEq, Inhabited

/-- `topology::crossProduct` : (p1-p0) × (p2-p0); > 0 left turn, < 0 right turn -/
def cross (x0 y0 x1 y1 x2 y2 : Rat) : Rat := (x1 - x0) * (y2 - y0) - (x2 - x0) * (y1 - y0)

/-- `validTurn(u,v,w)`: the turn u → v → w is straight, or the centre of v's node lies strictly on
    the inner side of both legs -/
def validTurn (u v w : BPt) : Bool :=
  let c := cross u.x u.y v.x v.y w.x w.y
  if c = 0 then true
  else decide (0 < c * cross u.x u.y v.x v.y v.cx v.cy) && decide (0 < c * cross v.x v.y w.x w.y v.cx v.cy)

/-- `Segment::length()==0` between the two points -/
def samePos (a b : BPt) : Bool := decide (a.x = b.x) && decide (a.y = b.y)

/-- `pos(vpsc::conjugate(scanDim))` -/
def conjPos (dim : Nat) (a : BPt) : Rat := if dim = 0 then a.y else a.x

/-- first `if`: both incident segments have positive length and are parallel to the scan axis -/
def collinearRule (dim : Nat) (o p q : BPt) : Bool :=
  !samePos o p && !samePos p q && decide (conjPos dim o = conjPos dim p) && decide (conjPos dim p = conjPos dim q)

/-- second `if`: `p` is the SECOND point of a coincident pair (`o`,`p`); `n?` = the point before `o` -/
def inRule (n? : Option BPt) (o p q : BPt) : Bool :=
  samePos o p && match n? with | some n => !validTurn n p q | none => false

/-- `else if`: `p` is the FIRST point of a coincident pair (`p`,`q`); `r?` = the point after `q` -/
def outRule (o p q : BPt) (r? : Option BPt) : Bool :=
  samePos p q && match r? with | some r => !validTurn o p r | none => false

/-- is `p` (with predecessor `o`, successor `q`) put on the prune list? -/
def pruned (dim : Nat) (n? : Option BPt) (o p q : BPt) (r? : Option BPt) : Bool :=
  collinearRule dim o p q || inRule n? o p q || outRule o p q r?

/-- the `COLA_ASSERT`s inside the two zero-length branches hold (the OTHER point of the pair is a
    valid turn whenever this one is pruned) -/
def assertsOk (n? : Option BPt) (o p q : BPt) (r? : Option BPt) : Bool :=
  if inRule n? o p q then (match n? with | some n => validTurn n o q | none => true)
  else if outRule o p q r? then (match r? with | some r => validTurn o q r | none => true)
  else true

/-- mark of the point with index `i` of an open path (end points are never marked) -/
def markAt (dim : Nat) (path : List BPt) (i : Nat) : Bool :=
  match (if i = 0 then none else path[i - 1]?), path[i]?, path[i + 1]? with
  | some o, some p, some q => pruned dim (if i < 2 then none else path[i - 2]?) o p q path[i + 2]?
  | _, _, _ => false

def assertAt (path : List BPt) (i : Nat) : Bool :=
  match (if i = 0 then none else path[i - 1]?), path[i]?, path[i + 1]? with
  | some o, some p, some q => assertsOk (if i < 2 then none else path[i - 2]?) o p q path[i + 2]?
  | _, _, _ => true

def marks (dim : Nat) (path : List BPt) : List Bool := (List.range path.length).map (markAt dim path)

/-- the path after the constructor's pruning pass -/
def prune (dim : Nat) (path : List BPt) : List BPt :=
  (path.zipIdx.filter fun pi => !markAt dim path pi.2).map (·.1)

/-- indices of the surviving points -/
def keptIdx (dim : Nat) (path : List BPt) : List Nat :=
  (List.range path.length).filter fun i => !markAt dim path i

def allAssertsOk (path : List BPt) : Bool := (List.range path.length).all (assertAt path)

end AdaptaVerif.Model.TopoPrune
