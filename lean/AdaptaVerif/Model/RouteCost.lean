/-
C20 — the cost `cost()` of cola/libavoid/makepath.cpp charges an A* VERTEX PATH (every visibility-graph
vertex on it, collinear ones included), for the parameters whose contribution is a function of the path and
of the connector's two end points alone.  Core Lean only (linked into driver_c20).

    cost(P) = Σ dist(p_i, p_{i+1})                                   (Manhattan for orthogonal connectors)
            + segmentPenalty · bends P                               (`Model.Frame.bends`: 0 straight / repeated point, 1 bend, 2 doubling back)
            + reverseDirectionPenalty · #{ edges (p_i, p_{i+1}) that head against the source→destination
                                           displacement on an axis on which that displacement is not zero }
              (orthogonal connectors: all edges but the last one, which the search does not pass to cost())

The reverse-direction rule, literally as in the source (makepath.cpp, `if (reversePenalty) { … }`):

    xDir = dimDirection(dst.x - src.x);  yDir = dimDirection(dst.y - src.y);
    doesReverse = (xDir != 0 && -xDir == dimDirection(p3.x - p2.x)) || (yDir != 0 && -yDir == dimDirection(p3.y - p2.y));

It is charged once per graph EDGE (cost() is called per edge), so a long reversing segment that passes k
intermediate vertices of the orthogonal visibility graph costs (k+1) penalties: the quantity is a function of the
vertex path, not of the simplified route.  The harness obtains the vertex path through the library's
`DebugHandler::updateCurrentSearchPath`.
-/
import AdaptaVerif.Model.Frame
namespace AdaptaVerif.Model.RouteCost
open AdaptaVerif.Model.Geometry AdaptaVerif.Model.Frame

/-- `dimDirection` of makepath.cpp: sign of a difference as −1 / 0 / 1 -/
def dimDir (d : Rat) : Int := if 0 < d then 1 else if d < 0 then -1 else 0

/-- one axis of the rule: the connector has a component `disp ≠ 0` on this axis and the edge's component
    `edge` has the opposite sign -/
def axisReverses (disp edge : Rat) : Bool := dimDir disp != 0 && -dimDir disp == dimDir edge

/-- does the edge `p → q` count as "reversing" for the connector `src → dst`? -/
def reverses (src dst p q : Pt) : Bool :=
  axisReverses (dst.x - src.x) (q.x - p.x) || axisReverses (dst.y - src.y) (q.y - p.y)

/-- number of reversing edges of a vertex path -/
def revEdges (src dst : Pt) : Route → Nat
  | a :: b :: rest => (if reverses src dst a b then 1 else 0) + revEdges src dst (b :: rest)
  | _ => 0

/-- the penalty part of the cost: `segmentPenalty · bends + reverseDirectionPenalty · reversing edges` -/
def penalties (seg rev : Rat) (src dst : Pt) (P : Route) : Rat :=
  seg * ((bends P : Nat) : Rat) + rev * ((revEdges src dst P : Nat) : Rat)

/-- cost of a vertex path with every edge charged (polyline connectors: Manhattan length replaced by the Euclidean
    one, see the driver) -/
def fullPathCost (seg rev : Rat) (src dst : Pt) (P : Route) : Rat :=
  manhattanLen P + penalties seg rev src dst P

/-- cost of an orthogonal connector's vertex path AS THE SEARCH CHARGES IT: the last edge (from a neighbour of the
    target vertex — a "cost target" of `AStarPathPrivate::search` — to the target) is not passed to `cost()`: its length
    and bend are accounted for by the estimate, its reverse-direction penalty is not charged at all -/
def orthPathCost (seg rev : Rat) (src dst : Pt) (P : Route) : Rat :=
  manhattanLen P + (seg * ((bends P : Nat) : Rat) + rev * ((revEdges src dst P.dropLast : Nat) : Rat))

/-- `c` is the least cost of a valid orthogonal vertex path from `src` to `dst` (attained) -/
def IsOptOrthPathCost (seg rev : Rat) (sc : Scene) (src dst : Pt) (c : Rat) : Prop :=
  (∃ P, OrthRouteValid sc src dst P ∧ orthPathCost seg rev src dst P = c) ∧
  ∀ P, OrthRouteValid sc src dst P → c ≤ orthPathCost seg rev src dst P

/-- `r` is a subsequence of `P` (the route keeps some of the path's vertices, in order) -/
def isSubseq : Route → Route → Bool
  | [], _ => true
  | _ :: _, [] => false
  | a :: r, b :: P => if a = b then isSubseq r P else isSubseq (a :: r) P

/-- the variant of the rule in which the guard of the Y test looks at the X displacement (a copy-paste slip):
    NOT frame-invariant — see `Props.C20.reverse_rule_guard_matters` -/
def reversesSlip (src dst p q : Pt) : Bool :=
  axisReverses (dst.x - src.x) (q.x - p.x) ||
    (dimDir (dst.x - src.x) != 0 && -dimDir (dst.y - src.y) == dimDir (q.y - p.y))

/-! ### `CmpVisEdgeRotation` (makepath.cpp, after fix 992d05a): the order in which the search explores the edges of a vertex

Hand model (the translator has no `std::pair` locals): two orthogonal edges are ordered by `rotationLessThan` (a parameter
here); a dummy connection-pin edge comes before an orthogonal one; two dummy edges are ordered by their endpoint pairs,
each pair first put in `Point::operator<` order, and only if both pairs are equal by the edges' addresses. -/

/-- what the comparator reads of an `EdgeInf*` -/
structure EdgeKey where
  orth : Bool
  a : Pt
  b : Pt
  addr : Nat
  deriving Repr, DecidableEq, Inhabited

/-- `Point::operator<` (geomtypes.cpp): by x, then by y -/
def ptLt (p q : Pt) : Bool := if p.x = q.x then decide (p.y < q.y) else decide (p.x < q.x)

def EdgeKey.lo (e : EdgeKey) : Pt := if ptLt e.b e.a then e.b else e.a
def EdgeKey.hi (e : EdgeKey) : Pt := if ptLt e.b e.a then e.a else e.b

def dummyLt (u v : EdgeKey) : Bool :=
  if u.lo ≠ v.lo then ptLt u.lo v.lo else if u.hi ≠ v.hi then ptLt u.hi v.hi else decide (u.addr < v.addr)

def cmpVisEdge (rot : EdgeKey → EdgeKey → Bool) (u v : EdgeKey) : Bool :=
  if u.orth && v.orth then rot u v
  else if u.orth != v.orth then v.orth
  else dummyLt u v

end AdaptaVerif.Model.RouteCost
