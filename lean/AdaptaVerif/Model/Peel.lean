/-
Executable model of libdialect's graph decompositions (C19), core Lean only.

  * `getConnComps`  — cola/libdialect/graphs.cpp  Graph::getConnComps  (BFS per component)
  * `peel`          — cola/libdialect/peeling.cpp dialect::peel        (leaf stripping, stems,
                      regrouping by components of H, root = largest serial number)
  * `peelB`         — the same with the explicit degree buckets of `NodeBuckets`
                      (takeLeaves / moveNode / severNodes), used by the driver as a second,
                      more literal mirror; the theorems are about `peel`.

A graph is (node ids `ns`, edges `es : List (Nat × Nat)`); an edge (u, v) has source u, target v
as stored by the C++, adjacency is undirected. `std::map` iteration order is modelled by
callers passing `ns` sorted ascending and `es` in edge-id (= creation) order.
Loops run on fuel and return `none` when it is exhausted (never happens for the fuel used by
the entry points on well-formed inputs; the driver reports it as DIVERGE).
-/
namespace AdaptaVerif.Model.Peel

abbrev Edge := Nat × Nat

def incident (v : Nat) (e : Edge) : Bool := e.1 == v || e.2 == v

/-- `Edge::getOtherEnd` -/
def otherEnd (v : Nat) (e : Edge) : Nat := if e.1 == v then e.2 else e.1

/-- `Node::getDegree` -/
def degree (es : List Edge) (v : Nat) : Nat := (es.filter (incident v)).length

/-- neighbours in the order of the node's edge lookup (edge-id order) -/
def nbrs (es : List Edge) (v : Nat) : List Nat := (es.filter (incident v)).map (otherEnd v)

/-! ### getConnComps -/

/-- Inner BFS loop of `Graph::getConnComps`. The C++ queue holds (edge, node) pairs; the node
    part drives the search and is all that is kept here (the edge part only fills the
    component's edge set, which is exactly "every edge incident to a visited node").
    `vis` = nodes of `new_comp`. One unit of fuel per `pop_front`. -/
def bfs (es : List Edge) : Nat → List Nat → List Nat → Option (List Nat)
  | _, [], vis => some vis
  | 0, _ :: _, _ => none
  | f + 1, v :: q, vis =>
    if vis.contains v then bfs es f q vis else bfs es f (q ++ nbrs es v) (v :: vis)

/-- enough for every run: each visited node pushes `degree` entries, so pops ≤ 2|E| -/
def bfsFuel (es : List Edge) : Nat := 2 * es.length + 2

structure Comp where
  nodes : List Nat
  edges : List Edge
  deriving Repr, BEq, Inhabited

/-- edges added to `new_comp`: all edges that were ever queued = incident to a visited node -/
def compEdges (es : List Edge) (vis : List Nat) : List Edge :=
  es.filter (fun e => vis.contains e.1 || vis.contains e.2)

/-- outer loop: `rem` = the `remaining` map (ascending ids), take its first node, BFS, erase -/
def compsLoop (es : List Edge) : Nat → List Nat → Option (List Comp)
  | _, [] => some []
  | 0, _ :: _ => none
  | f + 1, u0 :: rem =>
    match bfs es (bfsFuel es) (nbrs es u0) [u0] with
    | none => none
    | some vis =>
      match compsLoop es f (rem.filter (fun x => !vis.contains x)) with
      | none => none
      | some cs => some (⟨vis, compEdges es vis⟩ :: cs)

def getConnComps (ns : List Nat) (es : List Edge) : Option (List Comp) :=
  compsLoop es ns.length ns

/-! ### peel -/

structure PState where
  /-- nodes still in G -/
  nodes : List Nat
  /-- edges still in G -/
  edges : List Edge
  /-- stems (leaf, root) added to H so far, in order -/
  stems : List (Nat × Nat)
  deriving Repr, Inhabited

/-- the leaf bucket at the start of a round (bucket index = current degree, see `peelB`) -/
def leavesOf (ns : List Nat) (es : List Edge) : List Nat := ns.filter (fun v => degree es v == 1)

/-- `makeStemsFromLeaves`: the leaf with the other end of its single edge -/
def stemOf (es : List Edge) (l : Nat) : Nat × Nat := (l, ((nbrs es l).head?).getD l)

/-- one pass of the `while (!leaves.empty())` loop; `none` = loop exit -/
def round (s : PState) : Option PState :=
  let ls := leavesOf s.nodes s.edges
  if ls.isEmpty then none else
    let st := ls.map (stemOf s.edges)
    let ns := s.nodes.filter (fun v => !ls.contains v)
    let es := s.edges.filter (fun e => !(ls.contains e.1 || ls.contains e.2))
    some ⟨ns, es, s.stems ++ (if ns.isEmpty then st.dropLast else st)⟩

def rounds : Nat → PState → Option PState
  | 0, _ => none
  | f + 1, s =>
    match round s with
    | none => some s
    | some s' => rounds f s'

/-- nodes of H in order of first appearance -/
def hNodes (stems : List (Nat × Nat)) : List Nat :=
  stems.foldl (fun acc s =>
    let acc := if acc.contains s.1 then acc else acc ++ [s.1]
    if acc.contains s.2 then acc else acc ++ [s.2]) []

/-- edges of H: `Edge::allocate(tree_root, tree_leaf)` -/
def hEdges (stems : List (Nat × Nat)) : List Edge := stems.map (fun s => (s.2, s.1))

/-- `m_treeSerialNumber` of every PeeledNode after all `Stem::addSelfToGraph` calls
    (association list, newest entry first) -/
def assignSerials (stems : List (Nat × Nat)) : List (Nat × Nat) :=
  (stems.foldl (fun (mc : List (Nat × Nat) × Nat) (s : Nat × Nat) =>
      let mc := if (mc.1.lookup s.1).isSome then mc else ((s.1, mc.2) :: mc.1, mc.2 + 1)
      let mc := if (mc.1.lookup s.2).isSome then mc else ((s.2, mc.2) :: mc.1, mc.2 + 1)
      ((s.2, mc.2) :: mc.1, mc.2 + 1)) ([], 0)).1

/-- `identifyRootNode`: scan in ascending id order, `>=` against a running maximum from 0 -/
def identifyRoot (ser : List (Nat × Nat)) (nodesAsc : List Nat) : Nat :=
  (nodesAsc.foldl (fun (cm : Nat × Nat) v =>
      let s := (ser.lookup v).getD 0
      if s ≥ cm.2 then (v, s) else cm) (0, 0)).1

structure TreeOut where
  nodes : List Nat
  /-- (source, target) = (root end, leaf end) -/
  edges : List Edge
  root : Nat
  deriving Repr, BEq, Inhabited

structure PeelOut where
  trees : List TreeOut
  coreNodes : List Nat
  coreEdges : List Edge
  stems : List (Nat × Nat)
  deriving Repr, Inhabited

def sortNat (l : List Nat) : List Nat := l.mergeSort (fun a b => decide (a ≤ b))

/-- assemble trees from the final loop state -/
def finish (s : PState) : Option PeelOut :=
  match getConnComps (sortNat (hNodes s.stems)) (hEdges s.stems) with
  | none => none
  | some cs =>
    let ser := assignSerials s.stems
    some ⟨cs.map (fun c => ⟨c.nodes, c.edges, identifyRoot ser (sortNat c.nodes)⟩),
          s.nodes, s.edges, s.stems⟩

/-- `dialect::peel` -/
def peel (ns : List Nat) (es : List Edge) : Option PeelOut :=
  match rounds (ns.length + 1) ⟨ns, es, []⟩ with
  | none => none
  | some s => finish s

/-! ### the same loop with explicit degree buckets (`NodeBuckets`) -/

/-- bucket contents as an association list node ↦ bucket index; a node taken by `takeLeaves`
    is in no bucket -/
abbrev Buckets := List (Nat × Nat)

def bucketOf (b : Buckets) (v : Nat) : Option Nat := b.lookup v

/-- `moveNode(id, oldDegree, newDegree)`: fails (no change) if a degree exceeds `maxDeg` or the
    node is not in the old bucket -/
def moveNode (maxDeg : Nat) (b : Buckets) (v oldD newD : Nat) : Buckets :=
  if oldD > maxDeg || newD > maxDeg then b
  else if bucketOf b v == some oldD then (v, newD) :: b.filter (fun p => p.1 != v) else b

structure BState where
  nodes : List Nat
  edges : List Edge
  stems : List (Nat × Nat)
  buckets : Buckets
  deriving Inhabited

/-- `severNodes`: for each leaf in id order sever its edges one by one; each former neighbour
    is moved from bucket `degree+1` to bucket `degree` (degree read after the cut) -/
def severNodes (maxDeg : Nat) (leaves : List Nat) (es : List Edge) (b : Buckets) :
    List Edge × Buckets :=
  leaves.foldl (fun (eb : List Edge × Buckets) u =>
    let inc := eb.1.filter (incident u)
    let es' := eb.1.filter (fun e => !incident u e)
    let b' := inc.foldl (fun b e =>
      let v := otherEnd u e
      let d := degree es' v
      moveNode maxDeg b v (d + 1) d) eb.2
    (es', b')) (es, b)

def roundB (maxDeg : Nat) (s : BState) : Option BState :=
  -- takeLeaves: copy bucket 1 (ascending id) and clear it
  let ls := s.nodes.filter (fun v => bucketOf s.buckets v == some 1)
  if ls.isEmpty then none else
    let b0 := s.buckets.filter (fun p => !ls.contains p.1)
    let st := ls.map (stemOf s.edges)
    let (es, b1) := severNodes maxDeg ls s.edges b0
    let ns := s.nodes.filter (fun v => !ls.contains v)
    some ⟨ns, es, s.stems ++ (if ns.isEmpty then st.dropLast else st), b1⟩

def roundsB (maxDeg : Nat) : Nat → BState → Option BState
  | 0, _ => none
  | f + 1, s =>
    match roundB maxDeg s with
    | none => some s
    | some s' => roundsB maxDeg f s'

def peelB (ns : List Nat) (es : List Edge) : Option PeelOut :=
  let maxDeg := (ns.map (degree es)).foldl max 0
  match roundsB maxDeg (ns.length + 1) ⟨ns, es, [], ns.map (fun v => (v, degree es v))⟩ with
  | none => none
  | some s => finish ⟨s.nodes, s.edges, s.stems⟩

/-- `Tree::size()`: number of nodes reached from the root along source→target edges
    (`Node::getChildren`), BFS as in the Tree constructor -/
def treeReach (es : List Edge) : Nat → List Nat → List Nat → List Nat
  | 0, _, vis => vis
  | _, [], vis => vis
  | f + 1, v :: q, vis =>
    if vis.contains v then treeReach es f q vis
    else treeReach es f (q ++ ((es.filter (incident v)).filterMap
            (fun e => if e.2 != v then some e.2 else none))) (v :: vis)

def treeSize (t : TreeOut) : Nat := (treeReach t.edges (2 * t.edges.length + 2) [t.root] []).length

end AdaptaVerif.Model.Peel
