/-
Executable model of libavoid's *reroute decision*: which connectors `Router::processTransaction`
looks at again (cola/libavoid/router.cpp `processActions`, `rerouteAndCallbackConnectors`,
`markPolylineConnectorsNeedingReroutingForDeletedObstacle`, `newBlockingShape`,
`ConnRerouteFlagDelegate`; connector.cpp `generatePath`, `common_updateEndPoint`, `makePathInvalid`,
`calcRouteDist`; graph.cpp `EdgeInf::addConn / alertConns`; vertices.cpp `VertInf::removeFromGraph`).
Core Lean only (linked into the driver).  On top of the scene / queue model `Model/ActionQueue.lean`.

State (`RState`), per connector (`ConnSt`):
  `route`         ConnRef::m_route (empty = never routed)
  `needsReroute`  ConnRef::m_needs_reroute_flag   (constructor: true)
  `falsePath`     ConnRef::m_false_path           (constructor: false)
  `alerted`       the bool of this connector in ConnRerouteFlagDelegate::m_mapping (what the visibility
                  edges point to); moved into `needsReroute` at the top of rerouteAndCallbackConnectors
and globally `regs`: one `Reg` per entry of some `EdgeInf::m_conns` — connector c is registered on the
visibility edge between graph vertices u and v (with their positions at registration time; an edge
disappears, and its registrations with it, as soon as one of its vertices moves).

A connector's path is recomputed by `generatePath` iff  (`needsReroute ∨ falsePath`) ∧ both ends exist.

What sets the flags during one processed transaction (configuration: InvisibilityGrph, SelectiveReroute,
no RubberBandRouting, no PartialTime — the defaults), in the order of the code:
 pass 1, per ShapeRemove/ShapeMove/JunctionRemove/JunctionMove in sorted order, obstacle O:
   * `O->removeFromGraph()`: every visibility edge at a corner of O does `alertConns()` and is deleted;
   * `markPolylineConnectorsNeedingReroutingForDeletedObstacle(O)` — test (c) below — for every polyline
     connector with a route whose `needsReroute` is still false;
 pass 2, per Add/Move in sorted order, obstacle O with its NEW routing polygon:
   * `newBlockingShape`: every visibility edge of non-zero length, neither of whose connector-end
     vertices is strictly inside the polygon (`inPoly(poly, e, false)`), that the per-shape
     `segmentShapeIntersect` loop over the sides (p_i, p_{i+1}) reports blocked does `alertConns()`
     (and becomes an invisibility edge; its registration list is cleared);
 pass 3, per ConnChange, per queued end update: `common_updateEndPoint`: `removeFromGraph` of that end
     vertex (alert + delete of its edges), `makePathInvalid()`;
 then `m_conn_reroute_flags.alertConns()`: alerted ⇒ needsReroute.
`generatePath` (polyline, path found): needsReroute := false, route := new path, `calcRouteDist`, and the
connector registers on every edge of the path; orthogonal: `falsePath := true` instead — so an
orthogonal connector is recomputed in EVERY processed transaction (and the static orthogonal graph is
always rebuilt first: `processTransaction` sets `m_static_orthogonal_graph_invalidated = true`
unconditionally before `rerouteAndCallbackConnectors`).

Test (c) exactly as coded, for a side (p1, p2) of the removed obstacle's routing polygon,
`start = route.front()`, `end = route.back()`, `conndist = m_route_dist = Σ |route_i − route_{i−1}|`:
   horizontal side (p1.y = p2.y):  offy = p1.y, (a,b) = (start.x, start.y − offy), (c,d) = (end.x, end.y − offy),
                                   [min,max] = x-range of the side;
   vertical side (p1.x = p2.x):    the same with x and y exchanged;
   otherwise a rotation by atan2/cos/sin (NOT modelled: `SidePt.rotated`, the decision is then `none`);
   b := |b|;  d := |d|;
   if b = 0 ∧ d = 0: if a and c are both < min or both > max then x := a else the side is skipped;
   else x := (b·c + a·d)/(b + d);
   x := min(max, max(min, x));  xp := the point of the side's line with parameter x;
   flag iff  |start − xp| + |xp − end|  <  conndist          (strict; doubles in the code).
The two sums of square roots are compared through an oracle `lt3` returning `some b` only when the
comparison is decided (`estLess`: certified rational enclosures `Num.sqrtLo/Hi`, and the structural case
route = [start, xp, end] where both sides are the same two square roots); `none` = too close to call, the
connector is then `unsure` and the tie does not compare it.
-/
import AdaptaVerif.Model.ActionQueue
import AdaptaVerif.Model.Visibility
import AdaptaVerif.Check.Route
import AdaptaVerif.Num.Sqrt
namespace AdaptaVerif.Model.Reroute
open AdaptaVerif.Model.Geometry (Pt inPoly)
open AdaptaVerif.Model.Visibility (shapeBlocksGo)
open AdaptaVerif.Check.Route (polyEdges legs)
open AdaptaVerif.Model.ActionQueue (Action Kind State Op Scene End)

/-- a vertex of the visibility graph: `VertID` (objID, vn, isConnPt) -/
structure VKey where
  obj : Nat
  vn : Nat
  isConn : Bool
  deriving Repr, DecidableEq, Inhabited, BEq

/-- `VertID(conn->id(), VertID::src = 1 / VertID::tar = 2, PROP_ConnPoint)` -/
def VKey.ofEnd (conn : Nat) (e : End) : VKey :=
  ⟨conn, match e with | .src => 1 | .tar => 2, true⟩

/-- one entry of an `EdgeInf::m_conns` list -/
structure Reg where
  conn : Nat
  u : VKey
  v : VKey
  pu : Pt
  pv : Pt
  deriving Repr, Inhabited

structure ConnSt where
  id : Nat
  /-- `routingType() == ConnType_PolyLine` -/
  poly : Bool := true
  route : List Pt := []
  needsReroute : Bool := true
  falsePath : Bool := false
  alerted : Bool := false
  /-- model-only: test (c) was too close to call for this connector in the current transaction -/
  unsure : Bool := false
  deriving Repr, Inhabited

structure RState where
  conns : List ConnSt := []
  regs : List Reg := []
  deriving Repr, Inhabited

/-- `Obstacle::routingPolygon()` by obstacle id -/
abbrev Polys := Nat → List Pt

def Reg.touchesObst (r : Reg) (o : Nat) : Bool :=
  (!r.u.isConn && r.u.obj == o) || (!r.v.isConn && r.v.obj == o)

def Reg.touchesKey (r : Reg) (k : VKey) : Bool := r.u == k || r.v == k

def setAlerted (hit : List Nat) (cs : List ConnSt) : List ConnSt :=
  cs.map fun c => if hit.contains c.id then { c with alerted := true } else c

/-- `EdgeInf::alertConns()` on every edge selected by `sel`; the selected edges lose their registrations
    (`m_conns.clear()`, and in pass 1 / pass 3 the edge object is deleted) -/
def alertWhere (sel : Reg → Bool) (st : RState) : RState :=
  { conns := setAlerted ((st.regs.filter sel).map (·.conn)) st.conns,
    regs := st.regs.filter fun r => !sel r }

/-! ### test (c): `markPolylineConnectorsNeedingReroutingForDeletedObstacle` -/

/-- `x = std::max(min, x); x = std::min(max, x);` -/
def clamp (mn mx x : Rat) : Rat :=
  let x := if mn < x then x else mn
  if x < mx then x else mx

def rmin (a b : Rat) : Rat := if b < a then b else a
def rmax (a b : Rat) : Rat := if a < b then b else a

/-- the parameter chosen on the side's line; `none` = `continue`.  The offsets of start and end from the
    line are taken in absolute value (`b = fabs(b); d = fabs(d);`): the detour via a point of the line depends
    only on how far they are from it, not on which side they lie. -/
def sideX (a b c d mn mx : Rat) : Option Rat :=
  let b := Geometry.absR b
  let d := Geometry.absR d
  if b = 0 ∧ d = 0 then
    if (a < mn ∧ c < mn) ∨ (a > mx ∧ c > mx) then some (clamp mn mx a) else none
  else some (clamp mn mx ((b * c + a * d) / (b + d)))

inductive SidePt where
  | skip
  | at (xp : Pt)
  | rotated
  deriving Repr, DecidableEq

/-- the point `xp` of one side (p1, p2) for `start = s`, `end = t` -/
def sidePoint (s t p1 p2 : Pt) : SidePt :=
  if p1.y = p2.y then
    match sideX s.x (s.y - p1.y) t.x (t.y - p1.y) (rmin p1.x p2.x) (rmax p1.x p2.x) with
    | none => .skip
    | some x => .at (if p1.x = p2.x then ⟨p1.y, x⟩ else ⟨x, p1.y⟩)   -- (degenerate side: the code swaps)
  else if p1.x = p2.x then
    match sideX s.y (s.x - p1.x) t.y (t.x - p1.x) (rmin p1.y p2.y) (rmax p1.y p2.y) with
    | none => .skip
    | some x => .at ⟨p1.x, x⟩
  else .rotated

/-- which branch of the estimate one side takes (coverage statistics of the driver only) -/
def sideBranch (s t p1 p2 : Pt) : String :=
  let go (a b c d mn mx : Rat) : String :=
    let b' := Geometry.absR b
    let d' := Geometry.absR d
    if b' = 0 ∧ d' = 0 then
      (if (a < mn ∧ c < mn) ∨ (a > mx ∧ c > mx) then "on-line.outside" else "on-line.skip")
    else
      let x := (b' * c + a * d') / (b' + d')
      let side := if (0 < b ∧ 0 < d) ∨ (b < 0 ∧ d < 0) then "same-side"
        else if b = 0 ∨ d = 0 then "one-on-line" else "opposite"
      side ++ (if x < mn ∨ mx < x then ".clamped" else ".inner")
  if p1.y = p2.y then go s.x (s.y - p1.y) t.x (t.y - p1.y) (rmin p1.x p2.x) (rmax p1.x p2.x)
  else if p1.x = p2.x then go s.y (s.x - p1.x) t.y (t.x - p1.x) (rmin p1.y p2.y) (rmax p1.y p2.y)
  else "rotated"

/-- three-valued comparison `|s − xp| + |xp − t| < Σ |route legs|` -/
abbrev Lt3 := Pt → Pt → Pt → List Pt → Option Bool

/-- the loop over the sides, `break` at the first flagged side -/
def sideFlags (lt3 : Lt3) (route : List Pt) (s t : Pt) : List (Pt × Pt) → Option Bool
  | [] => some false
  | e :: es =>
    match sidePoint s t e.1 e.2 with
    | .rotated => none
    | .skip => sideFlags lt3 route s t es
    | .at xp =>
      match lt3 s t xp route with
      | some true => some true
      | some false => sideFlags lt3 route s t es
      | none => match sideFlags lt3 route s t es with
        | some true => some true
        | _ => none

def couldBeShorter (lt3 : Lt3) (poly : List Pt) (route : List Pt) : Option Bool :=
  match route.head?, route.getLast? with
  | some s, some t => sideFlags lt3 route s t (polyEdges poly)
  | _, _ => some false

def markOne (lt3 : Lt3) (poly : List Pt) (c : ConnSt) : ConnSt :=
  if c.route.isEmpty || c.needsReroute || !c.poly then c
  else match couldBeShorter lt3 poly c.route with
    | some true => { c with needsReroute := true }
    | some false => c
    | none => { c with unsure := true }

def markDeleted (lt3 : Lt3) (poly : List Pt) (st : RState) : RState :=
  { st with conns := st.conns.map (markOne lt3 poly) }

/-! ### `newBlockingShape` -/

/-- is the registered edge reported blocked by the polygon -/
def edgeBlocked (poly : List Pt) (r : Reg) : Bool :=
  if r.pu = r.pv then false
  else if (r.u.isConn && inPoly poly r.pu false) || (r.v.isConn && inPoly poly r.pv false) then false
  else shapeBlocksGo r.pu r.pv (polyEdges poly) false

def newBlockingShape (poly : List Pt) (st : RState) : RState := alertWhere (edgeBlocked poly) st

/-! ### the three loops of `processActions` and the delivery of the alerts -/

def pass1One (lt3 : Lt3) (rpOld : Polys) (st : RState) (a : Action) : RState :=
  match a.kind with
  | .remove | .move => markDeleted lt3 (rpOld a.id) (alertWhere (·.touchesObst a.id) st)
  | _ => st

def pass2One (rpNew : Polys) (st : RState) (a : Action) : RState :=
  match a.kind with
  | .add | .move => newBlockingShape (rpNew a.id) st
  | _ => st

def invalidate (cid : Nat) (cs : List ConnSt) : List ConnSt :=
  cs.map fun c => if c.id == cid then { c with needsReroute := true } else c

/-- `ConnRef::common_updateEndPoint` -/
def endpointChanged (cid : Nat) (st : RState) (e : End) : RState :=
  let st := alertWhere (·.touchesKey (VKey.ofEnd cid e)) st
  { st with conns := invalidate cid st.conns }

def pass3One (st : RState) (a : Action) : RState :=
  match a.kind with
  | .connChange => a.conns.foldl (fun st u => endpointChanged a.id st u.1) st
  | _ => st

/-- `ConnRerouteFlagDelegate::alertConns()` -/
def deliver (st : RState) : RState :=
  { st with conns := st.conns.map fun c =>
      if c.alerted then { c with alerted := false, needsReroute := true } else c }

/-- flags after `processActions` + delivery, for the sorted action list `acts` -/
def flagTxn (lt3 : Lt3) (rpOld rpNew : Polys) (acts : List Action) (st : RState) : RState :=
  deliver (acts.foldl pass3One (acts.foldl (pass2One rpNew) (acts.foldl (pass1One lt3 rpOld) st)))

/-- `generatePath` does not return at its first test -/
def ConnSt.flagged (c : ConnSt) : Bool := c.needsReroute || c.falsePath

/-- three-valued: `none` when test (c) was too close to call and nothing else flags the connector -/
def ConnSt.flag3 (c : ConnSt) : Option Bool :=
  if c.flagged then some true else if c.unsure then none else some false

def bothEnds (sc : Scene) (cid : Nat) : Bool :=
  match ActionQueue.findConn sc cid with
  | some c => c.src.isSome && c.dst.isSome
  | none => false

/-- the connectors whose `generatePath` recomputes the path (= `needsRepaint()` afterwards) -/
def reroutedSet (sc : Scene) (st : RState) : List Nat :=
  (st.conns.filter fun c => c.flagged && bothEnds sc c.id).map (·.id)

/-! ### after routing -/

def regsOfPath (cid : Nat) : List (Pt × VKey) → List Reg
  | a :: b :: rest => { conn := cid, u := a.2, v := b.2, pu := a.1, pv := b.1 } :: regsOfPath cid (b :: rest)
  | _ => []

/-- `generatePath` of connector `cid` ran and found the path `path` (points with their graph vertices) -/
def routedOne (cid : Nat) (path : List (Pt × VKey)) (st : RState) : RState :=
  { conns := st.conns.map fun c =>
      if c.id == cid then
        { c with route := path.map (·.1), needsReroute := false, falsePath := !c.poly, unsure := false }
      else c,
    regs := if (st.conns.find? (·.id == cid)).any (·.poly) then st.regs ++ regsOfPath cid path else st.regs }

def clearUnsure (st : RState) : RState :=
  { st with conns := st.conns.map fun c => { c with unsure := false } }

/-- `new ConnRef(router, id)` -/
def addConn (polyline : Bool) (cid : Nat) (st : RState) : RState :=
  { st with conns := st.conns ++ [{ id := cid, poly := polyline }] }

/-! ### which API call processes a transaction -/

/-- the state handed to `processActions` by the call `op` made in state `st`, if the call processes a
    non-empty action list -/
def txnOf (st : State) (op : Op) : Option State :=
  match op with
  | .processTransaction => if st.queue.isEmpty then none else some st
  | _ =>
    let r := ActionQueue.enqueue st op
    if !r.1.useTxn && r.2 && !r.1.queue.isEmpty then some r.1 else none

/-- the whole decision for one API call: `none` when nothing is processed (then no connector is
    looked at), else the flags with which `rerouteAndCallbackConnectors` starts routing -/
def decide? (lt3 : Lt3) (rpOld rpNew : Polys) (st : State) (op : Op) (rst : RState) : Option RState :=
  (txnOf st op).map fun pre => flagTxn lt3 rpOld rpNew (ActionQueue.sortActions pre.queue) rst

/-! ### `Router::contains` (which obstacles' routing polygons strictly contain a connector end)

maintained incrementally by `processActions`: `adjustContainsWithDel(pid)` per removed / moved obstacle (pass 1),
`adjustContainsWithAdd(routingPolygon, pid)` per added / moved obstacle over all connector end vertices at their
CURRENT positions (pass 2), `generateContains(vertex)` — from scratch over `m_obstacles` — per updated end
point (pass 3, `vertexVisibility(…, gen_contains = true)`, polyline routers only). -/

structure CEntry where
  key : VKey
  pt : Pt
  ids : List Nat
  deriving Repr, Inhabited

/-- `adjustContainsWithDel` -/
def cDel (o : Nat) (cs : List CEntry) : List CEntry :=
  cs.map fun e => { e with ids := e.ids.filter (· != o) }

/-- `adjustContainsWithAdd` (`std::set::insert`) -/
def cAdd (poly : List Pt) (o : Nat) (cs : List CEntry) : List CEntry :=
  cs.map fun e => if inPoly poly e.pt false && !e.ids.contains o then { e with ids := o :: e.ids } else e

/-- `generateContains` for the end vertex `k`, now at `p` -/
def cGen (active : List Nat) (rp : Polys) (k : VKey) (p : Pt) (cs : List CEntry) : List CEntry :=
  cs.map fun e => if e.key = k then { e with pt := p, ids := active.filter fun o => inPoly (rp o) p false } else e

def cPass1 (cs : List CEntry) (a : Action) : List CEntry :=
  match a.kind with
  | .remove | .move => cDel a.id cs
  | _ => cs

def cPass2 (rpNew : Polys) (cs : List CEntry) (a : Action) : List CEntry :=
  match a.kind with
  | .add | .move => cAdd (rpNew a.id) a.id cs
  | _ => cs

def cPass3 (activeNew : List Nat) (rpNew : Polys) (cs : List CEntry) (a : Action) : List CEntry :=
  match a.kind with
  | .connChange => a.conns.foldl (fun cs u => cGen activeNew rpNew (VKey.ofEnd a.id u.1) ⟨u.2.x, u.2.y⟩ cs) cs
  | _ => cs

/-- `contains` after `processActions` (`activeNew` = ids in `m_obstacles` afterwards) -/
def cTxn (activeNew : List Nat) (rpNew : Polys) (acts : List Action) (cs : List CEntry) : List CEntry :=
  acts.foldl (cPass3 activeNew rpNew) (acts.foldl (cPass2 rpNew) (acts.foldl cPass1 cs))

/-- the from-scratch meaning of one entry -/
def CEntry.scratch (active : List Nat) (rp : Polys) (e : CEntry) : Prop :=
  ∀ o, o ∈ e.ids ↔ (o ∈ active ∧ inPoly (rp o) e.pt false = true)

/-! ### the comparison oracle used by the driver -/

def segLo (k : Nat) (p q : Pt) : Rat := Num.sqrtLo (Num.dist2 p.x p.y q.x q.y) k
def segHi (k : Nat) (p q : Pt) : Rat := Num.sqrtHi (Num.dist2 p.x p.y q.x q.y) k

def routeLo (k : Nat) (r : List Pt) : Rat := ((legs r).map fun l => segLo k l.1 l.2).foldl (· + ·) 0
def routeHi (k : Nat) (r : List Pt) : Rat := ((legs r).map fun l => segHi k l.1 l.2).foldl (· + ·) 0

/-- `some b` only if `|s−xp| + |xp−t| < Σ legs` is decided with a gap larger than `margin` — or is
    structurally an equality of the same two square roots (route = [s, xp, t]) -/
def estLess (k : Nat) (margin : Rat) : Lt3 := fun s t xp route =>
  if route = [s, xp, t] then some false
  else
    let eLo := segLo k s xp + segLo k xp t
    let eHi := segHi k s xp + segHi k xp t
    if eHi + margin < routeLo k route then some true
    else if routeHi k route + margin ≤ eLo then some false
    else none

end AdaptaVerif.Model.Reroute
