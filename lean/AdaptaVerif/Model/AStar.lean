/-
Executable model of libavoid's A* path search, `AStarPathPrivate::search` (cola/libavoid/makepath.cpp).
Core Lean only.

Part 1 — the search loop on an abstract problem: a node is (vertex, previous node); PENDING and DONE
are keyed on (vertex, previous *vertex*) exactly as the C++ compares `node.inf == ati.inf &&
node.prevNode->inf == ati.prevNode->inf`; BEST is the head of the heap ordered by `ANodeCmp`
(`worse`); a PENDING entry is overwritten only by a strictly smaller g; a DONE entry is never
re-opened; every examined edge consumes one time stamp; the loop ends when a node of the target
vertex is popped; the path is read off the `prevNode` chain.  Fuel is explicit.

Part 2 — the problem libavoid's orthogonal router hands to that loop, built from a dumped orthogonal
visibility graph: edge order by `CmpVisEdgeRotation` (`orthogTurnOrder`), the skip rules (edge we
arrived along, foreign connector end points, the orthogonal turn-pruning "optimisation" as written,
zero-length edges), the orthogonal scalar part of `cost()` (bend penalty, 2× for doubling back,
reverseDirectionPenalty), the cost targets of `determineEndPointLocation`, the zero-cost last hop from
a cost target, f = g + `estimatedCost` (minimum over the cost targets of `Model.Bends.estimatedCostSpecific`
+ displacement — the hand model the generated estimator is bridged to in Props/C05Tie).
Not modelled: connection pins / dummy pin helpers, checkpoints, rubber-band routing, clusters,
crossing / shared-path penalties (the crossing-penalty rerouting stage), polyline routing.
-/
import AdaptaVerif.Model.Bends
namespace AdaptaVerif.Model.AStar
open AdaptaVerif.Model.Geometry (Pt)

/-! ## Part 1: the search loop -/

/-- one examined edge that survived the skip rules: new vertex, cost of the step (what is added to
    `bestNode->g`), heuristic value `node.h` -/
structure Succ where
  w : Nat
  c : Rat
  h : Rat
  deriving Repr, Inhabited, DecidableEq

structure Problem where
  /-- `succs pv v`: the edges examined when a node at vertex `v` whose previous node is at vertex
      `pv` (`none`: the start node) is expanded, in examination order; `none` = an edge skipped by one
      of the `continue`s after it consumed a time stamp -/
  succs : Option Nat → Nat → List (Option Succ)
  src : Nat
  tar : Nat
  /-- heuristic of the start node: `estimatedCost(lineRef, nullptr, src->point)` -/
  h0 : Rat
  /-- the 0.0000001 of `ANodeCmp` -/
  eps : Rat

/-- `ANode`; `prev` = index of `prevNode` in the DONE list, `pv` = `prevNode->inf` -/
structure Node where
  v : Nat
  pv : Option Nat
  prev : Option Nat
  g : Rat
  h : Rat
  ts : Nat
  deriving Repr, Inhabited, DecidableEq

def Node.f (n : Node) : Rat := n.g + n.h

def absR (r : Rat) : Rat := if r < 0 then -r else r

/-- what `ANodeCmp::operator()` reads of an `ANode` (key record of the regenerated comparator,
    `Gen/AStarK.lean`) -/
structure ANodeK where
  f : Rat
  ts : Int
  deriving Repr, Inhabited, DecidableEq

/-- `ANodeCmp::operator()(a, b)`: "a comes after b" (the heap's head is the node no other node is
    better than) -/
def worse (eps : Rat) (a b : Node) : Bool :=
  if absR (a.f - b.f) > eps then decide (a.f > b.f)
  else if a.ts ≠ b.ts then decide (a.ts < b.ts)
  else false

/-- head of the heap and the remaining PENDING nodes.  (When `worse` is a strict weak order on the
    PENDING nodes — all f-differences 0 or > eps; time stamps are distinct — the head of a binary
    heap is the unique node no other node is better than, which is what this returns.) -/
def extractBest (eps : Rat) : List Node → Option (Node × List Node)
  | [] => none
  | x :: xs =>
    match extractBest eps xs with
    | none => some (x, [])
    | some (b, rest) => if worse eps x b then some (b, x :: rest) else some (x, xs)

/-- `(node.inf == ati.inf) && (node.prevNode->inf == ati.prevNode->inf)` -/
def sameKey (a b : Node) : Bool := a.v == b.v && a.pv == b.pv

/-- "Check to see if already on PENDING": first entry with the same key; it is overwritten iff
    `node.g < ati.g`.  `none` = not found. -/
def updPending (node : Node) : List Node → Option (List Node)
  | [] => none
  | a :: rest =>
    if sameKey node a then some (if node.g < a.g then node :: rest else a :: rest)
    else (updPending node rest).map (a :: ·)

structure St where
  pending : List Node
  done : List Node
  /-- the `timestamp` counter -/
  time : Nat
  deriving Repr, Inhabited

/-- body of the edge loop for one edge of `best` (which is `done[bi]`) -/
def relax (best : Node) (bi : Nat) (st : St) (e : Option Succ) : St :=
  match e with
  | none => { st with time := st.time + 1 }
  | some s =>
    let node : Node :=
      { v := s.w, pv := some best.v, prev := some bi, g := best.g + s.c, h := s.h, ts := st.time }
    match updPending node st.pending with
    | some p => { st with pending := p, time := st.time + 1 }
    | none =>
      if st.done.any (fun a => sameKey node a && a.prev.isSome) then { st with time := st.time + 1 }
      else { st with pending := st.pending ++ [node], time := st.time + 1 }

inductive Outcome where
  /-- a node of the target vertex was popped: that node and the DONE list (it is the last entry) -/
  | found (b : Node) (done : List Node)
  /-- PENDING ran empty -/
  | noPath
  | outOfFuel
  deriving Repr, Inhabited

def init (P : Problem) : St :=
  { pending := [{ v := P.src, pv := none, prev := none, g := 0, h := P.h0, ts := 1 }], done := [], time := 2 }

def search (P : Problem) : Nat → St → Outcome
  | 0, _ => .outOfFuel
  | fuel + 1, st =>
    match extractBest P.eps st.pending with
    | none => .noPath
    | some (b, rest) =>
      let bi := st.done.length
      let st1 : St := { pending := rest, done := st.done ++ [b], time := st.time }
      if b.v = P.tar then .found b st1.done
      else search P fuel ((P.succs b.pv b.v).foldl (relax b bi) st1)

/-- the `prevNode` chain of a node: vertices from the node back to the start node -/
def pathOf (done : List Node) : Nat → Node → List Nat
  | 0, n => [n.v]
  | k + 1, n =>
    match n.prev with
    | none => [n.v]
    | some i =>
      match done[i]? with
      | none => [n.v]
      | some p => n.v :: pathOf done k p

/-- the same loop as `search`, returning the whole final state (for the correspondence with the
    optional hook: `PENDING.size()` and the time-stamp counter at the moment the target node is popped) -/
def searchSt (P : Problem) : Nat → St → Option (Node × St)
  | 0, _ => none
  | fuel + 1, st =>
    match extractBest P.eps st.pending with
    | none => none
    | some (b, rest) =>
      let bi := st.done.length
      let st1 : St := { pending := rest, done := st.done ++ [b], time := st.time }
      if b.v = P.tar then some (b, st1)
      else searchSt P fuel ((P.succs b.pv b.v).foldl (relax b bi) st1)

/-- the part of `l` behind the last occurrence of `v` (all of `l` if `v` does not occur) -/
def afterLast (v : Nat) : List Nat → List Nat
  | [] => []
  | x :: xs => if v ∈ xs then afterLast v xs else if x = v then xs else x :: xs

/-- What `ConnRef::generateStandardPath` reads back.  `search` stores the result as ONE `pathNext`
    pointer per *vertex* ("Correct all the pathNext pointers": `curr->inf->pathNext =
    curr->prevNode->inf`, from the target node back to the start node), and the route is then read by
    following `pathNext` from the target.  When the node chain visits a vertex twice (possible, since
    DONE is keyed on (vertex, previous vertex)), the pointer written last — the one of the occurrence
    nearest the source — wins, so every loop of the chain is cut out of the route.
    `chain`: vertices of the node chain, target first (= `pathOf`); result: target first. -/
def routeOfChain : Nat → List Nat → List Nat
  | 0, _ => []
  | _, [] => []
  | fuel + 1, v :: rest => v :: routeOfChain fuel (afterLast v rest)

/-- g of the returned node -/
def Outcome.cost : Outcome → Option Rat
  | .found b _ => some b.g
  | _ => none

/-- vertices of the returned node chain, source first -/
def Outcome.chain : Outcome → List Nat
  | .found b done => (pathOf done done.length b).reverse
  | _ => []

/-- number of DONE nodes = `exploredCount` -/
def Outcome.explored : Outcome → Nat
  | .found _ d => d.length
  | _ => 0

/-! ## Part 2: the orthogonal router's problem on a dumped visibility graph -/

/-- the literal `0.0000001` of `ANodeCmp` as the double the compiler makes of it (the value cpp2lean
    reads from the AST; `Props.C05AStar.gen_aNodeCmp_is_model`) -/
def epsDouble : Rat := 944473296573929 / 9444732965739290427392

/-- one entry of `VertInf::orthogVisList` (disabled edges are not dumped) -/
structure Edge where
  to : Nat
  /-- `EdgeInf::getDist()` -/
  dist : Rat
  /-- `EdgeInf::isDummyConnection()` -/
  dummy : Bool := false
  deriving Repr, Inhabited, DecidableEq

structure Graph where
  pts : Array Pt
  /-- `orthogVisList` of every vertex, in list order -/
  adj : Array (List Edge)
  /-- `VertInf::orthogVisPropFlags` (XL_EDGE=1, XH_EDGE=4, YL_EDGE=16, YH_EDGE=64) -/
  vflags : Array Nat
  /-- `id.isConnPt()` -/
  connPt : Array Bool
  src : Nat
  tar : Nat
  /-- `routingParameter(segmentPenalty)` -/
  segPen : Rat
  /-- `routingParameter(reverseDirectionPenalty)` -/
  revPen : Rat := 0
  /-- `lineRef->src()->point`, `lineRef->dst()->point` (for reverseDirectionPenalty) -/
  connSrc : Pt := ⟨0, 0⟩
  connDst : Pt := ⟨0, 0⟩
  /-- `lineRef->possibleDstPinPoints()` -/
  pinPts : List Pt := []
  /-- apply the orthogonal turn-pruning rule (`true` = as coded) -/
  prune : Bool := true
  eps : Rat := epsDouble
  deriving Repr, Inhabited

def Graph.pt (g : Graph) (v : Nat) : Pt := g.pts.getD v ⟨0, 0⟩

/-- `orthogTurnOrder(a, b, c)` (graph.cpp): 0 behind, 1 left, 2 right, 3 ahead, 4 not orthogonal -/
def orthogTurnOrder (a b c : Pt) : Nat :=
  if (c.x ≠ b.x ∧ c.y ≠ b.y) ∨ (a.x ≠ b.x ∧ a.y ≠ b.y) then 4
  else
    let direction := AdaptaVerif.Model.Geometry.vecDir a b c
    if direction > 0 then 1
    else if direction < 0 then 2
    else if b.x = c.x then
      if (a.y < b.y ∧ c.y < b.y) ∨ (a.y > b.y ∧ c.y > b.y) then 0 else 3
    else
      if (a.x < b.x ∧ c.x < b.x) ∨ (a.x > b.x ∧ c.x > b.x) then 0 else 3

/-- the key `EdgeInf::rotationLessThan(lastV, ·)` compares for an edge of `common` to `other`
    ("If no lastPt, use one directly to the left") -/
def rotKey (g : Graph) (lastV : Option Nat) (common other : Nat) : Nat :=
  let c := g.pt common
  let lastPt : Pt := match lastV with | some l => g.pt l | none => ⟨c.x - 10, c.y⟩
  orthogTurnOrder lastPt c (g.pt other)

/-- stable insertion of `e` (key `k`) into a list sorted by key: after all entries with key ≤ k -/
def insertByKey (key : Edge → Nat) (e : Edge) : List Edge → List Edge
  | [] => [e]
  | a :: rest => if key e < key a then e :: a :: rest else a :: insertByKey key e rest

/-- `visList.sort(CmpVisEdgeRotation(prevInf))` — `std::list::sort` is stable -/
def sortEdges (key : Edge → Nat) (es : List Edge) : List Edge :=
  es.foldl (fun acc e => insertByKey key e acc) []

/-- `Dot`, `CrossLength` (makepath.cpp) -/
def dot (l r : Pt) : Rat := l.x * r.x + l.y * r.y
def crossLength (l r : Pt) : Rat := l.x * r.y - l.y * r.x

/-- classification of `rad = M_PI - angleBetween(p1, p2, p3)` as `cost()` uses it:
    0: `rad == 0` (collinear, or two of the points coincide), 2: `rad == M_PI` (doubling back),
    1: anything else.  (`angleBetween` = |atan2(cross, dot)|: 0 iff cross = 0 ∧ dot > 0,
    π iff cross = 0 ∧ dot < 0.) -/
def bendClass (p1 p2 p3 : Pt) : Nat :=
  if (p1.x = p2.x ∧ p1.y = p2.y) ∨ (p2.x = p3.x ∧ p2.y = p3.y) then 0
  else
    let v1 : Pt := ⟨p1.x - p2.x, p1.y - p2.y⟩
    let v2 : Pt := ⟨p3.x - p2.x, p3.y - p2.y⟩
    if crossLength v1 v2 = 0 ∧ dot v1 v2 > 0 then 2
    else if crossLength v1 v2 = 0 ∧ dot v1 v2 < 0 then 0
    else 1

/-- scalar `cost()` on points (what `cost g` computes from the vertices' points) -/
def costPts (g : Graph) (dist : Rat) (p1 : Option Pt) (p2 p3 : Pt) : Rat :=
  let r0 := dist
  let r1 :=
    match p1 with
    | none => r0
    | some q1 =>
      if g.segPen > 0 then
        match bendClass q1 p2 p3 with
        | 2 => r0 + 2 * g.segPen
        | 0 => r0
        | _ => r0 + g.segPen
      else r0
  if g.revPen ≠ 0 then
    let xDir := AdaptaVerif.Model.Bends.dimDirection (g.connDst.x - g.connSrc.x)
    let yDir := AdaptaVerif.Model.Bends.dimDirection (g.connDst.y - g.connSrc.y)
    let rev := (xDir ≠ 0 ∧ -xDir = AdaptaVerif.Model.Bends.dimDirection (p3.x - p2.x)) ∨
               (yDir ≠ 0 ∧ -yDir = AdaptaVerif.Model.Bends.dimDirection (p3.y - p2.y))
    if rev then r1 + g.revPen else r1
  else r1

/-- scalar part of `cost(lineRef, dist, inf2, inf3, inf1Node)` for an orthogonal connector outside
    the crossing-penalty rerouting stage, without clusters, anglePenalty irrelevant (orthogonal) -/
def cost (g : Graph) (dist : Rat) (inf1 : Option Nat) (inf2 inf3 : Nat) : Rat :=
  costPts g dist (inf1.map g.pt) (g.pt inf2) (g.pt inf3)

/-- `m_cost_targets` with directions and displacements (`determineEndPointLocation`) for an orthogonal
    connector whose target is a connector end point; `[(tar, 15, 0)]` if the target has no edge -/
def costTargets (g : Graph) : List (Nat × Nat × Rat) :=
  let l := (g.adj.getD g.tar []).map fun e =>
    (e.to, AdaptaVerif.Model.Bends.orthogonalDirection (g.pt e.to) (g.pt g.tar),
      AdaptaVerif.Model.Bends.manhattanDist (g.pt e.to) (g.pt g.tar))
  if l.isEmpty then [(g.tar, 15, 0)] else l

def minOpt : List Rat → Option Rat
  | [] => none
  | x :: xs => match minOpt xs with | none => some x | some m => some (if x < m then x else m)

/-- `AStarPathPrivate::estimatedCost(lineRef, last, curr)`; `none` = an assertion fails
    (`segmentPenalty > 0`, `m_cost_targets.size() > 0`, or inside `bends`) -/
def estimatedCost (g : Graph) (last : Option Pt) (curr : Pt) : Option Rat := do
  let es ← (costTargets g).mapM fun (ct : Nat × Nat × Rat) =>
    (AdaptaVerif.Model.Bends.estimatedCostSpecific last curr (g.pt ct.1) ct.2.1 g.segPen).map (· + ct.2.2)
  minOpt es

def alignedWithOneOf (p : Pt) (pts : List Pt) (dimX : Bool) : Bool :=
  pts.any fun q => if dimX then p.x = q.x else p.y = q.y

/-- the "orthogonal routing optimisation" of `search` exactly as written: is the edge best → next
    skipped?  `prev` = `prevInf` -/
def prunedAsCoded (g : Graph) (prev : Option Nat) (best next : Nat) : Bool :=
  let bestPt := g.pt best
  let nextPt := g.pt next
  let srcPt := g.pt g.src
  let endPoints := g.pinPts ++ [g.pt g.tar]
  let fl := g.vflags.getD best 0
  let notInlineX : Bool := match prev with | some p => decide ((g.pt p).x ≠ bestPt.x) | none => false
  let notInlineY : Bool := match prev with | some p => decide ((g.pt p).y ≠ bestPt.y) | none => false
  let cutV : Bool :=
    decide (bestPt.x = nextPt.x) && notInlineX && !notInlineY && decide (bestPt.y ≠ srcPt.y) &&
      (if nextPt.y < bestPt.y then decide (fl &&& 16 = 0) && !alignedWithOneOf bestPt endPoints true
       else if nextPt.y > bestPt.y then decide (fl &&& 64 = 0) && !alignedWithOneOf bestPt endPoints true
       else false)
  let cutH : Bool :=
    decide (bestPt.y = nextPt.y) && notInlineY && !notInlineX && decide (bestPt.x ≠ srcPt.x) &&
      (if nextPt.x < bestPt.x then decide (fl &&& 1 = 0) && !alignedWithOneOf bestPt endPoints false
       else if nextPt.x > bestPt.x then decide (fl &&& 4 = 0) && !alignedWithOneOf bestPt endPoints false
       else false)
  cutV || cutH

/-- one edge of the loop "Check adjacent points in graph and add them to the queue" -/
def edgeSucc (g : Graph) (prev : Option Nat) (best : Nat) (e : Edge) : Option Succ :=
  let w := e.to
  if prev = some w then none                                    -- the segment we just arrived along
  else if g.connPt.getD w false ∧ w ≠ g.tar then none           -- foreign connector end point
  else if g.prune ∧ ¬ e.dummy ∧ prunedAsCoded g prev best w then none
  else if e.dist = 0 then none
  else
    let atCostTarget := (costTargets g).any fun ct => ct.1 = best
    if atCostTarget ∧ w = g.tar then some ⟨w, 0, 0⟩             -- zero-cost last hop, h = 0
    else
      let h : Rat := if w = g.tar then 0 else (estimatedCost g (some (g.pt best)) (g.pt w)).getD 0
      some ⟨w, cost g e.dist prev best w, h⟩

def Graph.succs (g : Graph) (prev : Option Nat) (best : Nat) : List (Option Succ) :=
  (sortEdges (fun e => rotKey g prev best e.to) (g.adj.getD best [])).map (edgeSucc g prev best)

/-- every assertion the estimator can reach holds (then no `getD` above is ever a default) -/
def Graph.assertsOk (g : Graph) : Bool := decide (g.segPen > 0)

def Graph.problem (g : Graph) : Problem :=
  { succs := g.succs, src := g.src, tar := g.tar,
    h0 := (estimatedCost g none (g.pt g.src)).getD 0, eps := g.eps }

/-- the search as libavoid runs it on graph `g`; fuel: every expansion moves one (vertex, previous
    vertex) key to DONE for good, so `(number of directed edges) + 2` iterations suffice -/
def Graph.fuel (g : Graph) : Nat := (g.adj.foldl (fun n l => n + l.length) 0) + 2

def Graph.run (g : Graph) : Outcome := search g.problem g.fuel (init g.problem)

/-- as-coded cost of a polyline given by points (source first): hop lengths are Manhattan distances,
    the last hop is free when it starts at the point of a cost target -/
def routeCostPts (g : Graph) : Option Pt → List Pt → Rat
  | prev, p :: q :: rest =>
    let step : Rat :=
      if rest.isEmpty ∧ q = g.pt g.tar ∧ (costTargets g).any (fun ct => g.pt ct.1 = p) then 0
      else costPts g (AdaptaVerif.Model.Bends.manhattanDist p q) prev p q
    step + routeCostPts g (some p) (q :: rest)
  | _, _ => 0

/-- the cost the property speaks of, for a polyline given by points (source first): every hop charged —
    Manhattan length plus the bend penalty of `cost()` —, the last hop included -/
def fullCostPts (g : Graph) : Option Pt → List Pt → Rat
  | prev, p :: q :: rest =>
    costPts g (AdaptaVerif.Model.Bends.manhattanDist p q) prev p q + fullCostPts g (some p) (q :: rest)
  | _, _ => 0

/-! ## Part 3: a decidable consistency check of the estimator on a concrete graph

The hypotheses of `Props.C05AStar.search_optimal` for `g.problem`, checked exhaustively over the states
(vertex, previous vertex) the search can generate: `Hfun` = the heuristic as a function of the state,
`bonus v` = the displacement of cost target `v` (the length of the last hop that `search` does not
charge), consistency on every edge into a non-target state, and tightness on the edges into the target. -/

def Graph.Hfun (g : Graph) (v : Nat) (pv : Option Nat) : Rat :=
  if v = g.tar then 0 else (estimatedCost g (pv.map g.pt) (g.pt v)).getD 0

def Graph.bonus (g : Graph) (v : Nat) : Rat :=
  match (costTargets g).find? (fun ct => ct.1 = v) with
  | some ct => ct.2.2
  | none => 0

/-- the states (previous vertex, vertex) that can occur: the start node and (p, neighbour of p) -/
def Graph.states (g : Graph) : List (Option Nat × Nat) :=
  (none, g.src) :: (List.range g.adj.size).flatMap fun p => (g.adj.getD p []).map fun e => (some p, e.to)

def Graph.consistentAt (g : Graph) (pv : Option Nat) (v : Nat) : Bool :=
  (g.succs pv v).all fun o =>
    match o with
    | none => true
    | some s =>
      if s.w ≠ g.tar then decide (g.Hfun v pv ≤ s.c + g.Hfun s.w (some v))
      else decide (g.Hfun v pv ≤ s.c + g.bonus v) &&
           (decide (g.bonus v = 0) || decide (g.Hfun v pv = s.c + g.bonus v))

def Graph.consistent (g : Graph) : Bool :=
  decide (g.src ≠ g.tar) && (costTargets g).all (fun ct => decide (0 ≤ ct.2.2)) &&
    g.states.all fun st => g.consistentAt st.1 st.2

/-- first violated consistency condition, for reporting: (pv, v, w) -/
def Graph.firstInconsistent (g : Graph) : Option (Option Nat × Nat × Nat) :=
  g.states.findSome? fun st =>
    (g.succs st.1 st.2).findSome? fun o =>
      match o with
      | none => none
      | some s =>
        let ok : Bool :=
          if s.w ≠ g.tar then decide (g.Hfun st.2 st.1 ≤ s.c + g.Hfun s.w (some st.2))
          else decide (g.Hfun st.2 st.1 ≤ s.c + g.bonus st.2) &&
               (decide (g.bonus st.2 = 0) || decide (g.Hfun st.2 st.1 = s.c + g.bonus st.2))
        if ok then none else some (st.1, st.2, s.w)

/-- like `firstInconsistent`, but ignoring the two kinds of edges on which the estimator is known to be
    inconsistent with `cost()`: edges into a cost target (there `estimatedCostSpecific` drops the bend
    count to 0 because the distance is 0) and doubling back (`cost()` charges 2 penalties, `bends()`
    needs up to 4 bends for a U-turn). -/
def Graph.firstInconsistentOther (g : Graph) : Option (Option Nat × Nat × Nat) :=
  g.states.findSome? fun st =>
    (g.succs st.1 st.2).findSome? fun o =>
      match o with
      | none => none
      | some s =>
        let intoCT := (costTargets g).any fun ct => ct.1 = s.w
        let uturn := match st.1 with
          | some p => bendClass (g.pt p) (g.pt st.2) (g.pt s.w) = 2
          | none => false
        let ok : Bool :=
          if s.w ≠ g.tar then decide (g.Hfun st.2 st.1 ≤ s.c + g.Hfun s.w (some st.2))
          else decide (g.Hfun st.2 st.1 ≤ s.c + g.bonus st.2) &&
               (decide (g.bonus st.2 = 0) || decide (g.Hfun st.2 st.1 = s.c + g.bonus st.2))
        if ok || intoCT || uturn then none else some (st.1, st.2, s.w)

/-- the cost the property speaks of, for a vertex path (source first): every hop charged by `cost()`
    — its `getDist()` length plus the bend penalty —, the last hop included -/
def fullCost (g : Graph) : Option Nat → List Nat → Rat
  | prev, v :: w :: rest =>
    let d : Rat := match (g.adj.getD v []).find? (fun e => e.to = w) with
      | some e => e.dist
      | none => 0
    cost g d prev v w + fullCost g (some v) (w :: rest)
  | _, _ => 0

/-- consecutive vertices are joined by a (non-zero-length) entry of the first one's edge list -/
def isGraphPath (g : Graph) : List Nat → Bool
  | v :: w :: rest => (g.adj.getD v []).any (fun e => e.to = w ∧ e.dist ≠ 0) && isGraphPath g (w :: rest)
  | _ => true

/-- some hop of the path (source first) is one the turn-pruning rule as coded skips -/
def usesPrunedTurn (g : Graph) : Option Nat → List Nat → Bool
  | prev, v :: w :: rest => prunedAsCoded g prev v w || usesPrunedTurn g (some v) (w :: rest)
  | _, _ => false

/-- as-coded cost of a vertex path (source first): what `search` accumulates in `g` along it -/
def pathCost (g : Graph) : Option Nat → List Nat → Rat
  | prev, v :: w :: rest =>
    let step : Rat :=
      if w = g.tar ∧ (costTargets g).any (fun ct => ct.1 = v) then 0
      else cost g (AdaptaVerif.Model.Bends.manhattanDist (g.pt v) (g.pt w)) prev v w
    step + pathCost g (some v) (w :: rest)
  | _, _ => 0

end AdaptaVerif.Model.AStar
