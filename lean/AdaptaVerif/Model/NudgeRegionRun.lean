/-
C10 (core Lean only): comparison of one hook dump of `nudgeOrthogonalRoutes` (harness/c10_regions.h)
with Model/NudgeRegion.lean, and the property-level checks on the written positions.

`checkRegion` returns findings:
  * `diverge`: the implementation's variables / constraints / loop decisions / write-back differ from
    the model on the same ordered segments (tie broken);
  * `spec cls`: the positions the implementation wrote violate the property clause "separated segments are
    at least the (reduced) distance apart" where the theorems of Props/C10Region.lean
    (`applied_separation_R`) promise it for the model: two segments for which the MODEL generates a
    positive-gap separation constraint end closer than gap − 3e-4 (distance, either order; pairs of
    connectors with a common end point are exempt, as in the property text).
`checkPass` looks at all regions of one pass (same dimension and stage): segments of different
regions must not overlap (region formation), and inside a region the order must be consistent with
the position / fixedOrder / order rules of `CmpLineOrder` for adjacent segments.
-/
import AdaptaVerif.Model.NudgeRegion
import AdaptaVerif.Num.HexFloat
namespace AdaptaVerif.Model.NudgeRegion
open AdaptaVerif.Model.Nudge AdaptaVerif.Num

structure DAttempt where
  sepDist : Rat
  satisfied : Bool
  retry : Bool
  cons : List FCon
  unsat : List Bool
  fps : List Rat
  deriving Inhabited

structure DRegion where
  idx : Nat
  dim : Nat
  ju : Bool
  skipped : Bool
  nudgeFinal : Bool
  nudgeCommonEnd : Bool
  nudgeColinear : Bool
  fsp : Rat
  base : Rat
  satisfied : Bool
  segs : List RSeg
  wrLow : List Rat
  wrHigh : List Rat
  vars : List Var
  atts : List DAttempt
  cep : List (Nat × Nat)
  deriving Inhabited

inductive Finding where
  | diverge (msg : String)
  | spec (cls : String) (msg : String)
  deriving Inhabited

def DRegion.opts (r : DRegion) : ROpts :=
  { nudgeFinal := r.nudgeFinal, nudgeCommonEnd := r.nudgeCommonEnd, nudgeColinear := r.nudgeColinear,
    fsp := r.fsp,
    commonEnd := fun a b => r.cep.any (fun p => (p.1 == a && p.2 == b) || (p.1 == b && p.2 == a)),
    justUnifying := r.ju, base := r.base, rnd := roundDouble }

def showFCon (c : FCon) : String := s!"(v{c.left} + {ratToString c.gap} {if c.eq then "=" else "≤"} v{c.right})"
def showVar (v : Var) : String := s!"(id {v.id}, desired {ratToString v.desired}, weight {ratToString v.weight})"

/-- first position where two lists differ -/
def firstDiff {α} [BEq α] (a b : List α) : Option Nat :=
  let rec go (i : Nat) : List α → List α → Option Nat
    | [], [] => none
    | x :: xs, y :: ys => if x == y then go (i + 1) xs ys else some i
    | _, _ => some i
  go 0 a b

def describeConsDiff (model impl : List FCon) : String :=
  match firstDiff model impl with
  | none => "equal"
  | some i =>
    s!"constraint #{i}: model {(model[i]?).map showFCon |>.getD "—(none)"} / implementation {(impl[i]?).map showFCon |>.getD "—(none)"} (model has {model.length}, implementation {impl.length})"

structure RegionOut where
  findings : List Finding := []
  stats : List String := []

def RegionOut.div (o : RegionOut) (m : String) : RegionOut := { o with findings := o.findings ++ [.diverge m] }
def RegionOut.stat (o : RegionOut) (s : String) : RegionOut := { o with stats := s :: o.stats }

/-- margin below which a `satisfied` decision is not compared (the C++ evaluates
    `fabs(final − desired) > 0.0001` in doubles) -/
def marginEps : Rat := 1 / 1000000000

/-- run the nudging loop of the model along the dumped attempts -/
def runNudge (o : ROpts) (tag : String) (vars : List Var) : NState → List DAttempt → RegionOut → RegionOut × Option (NState × Bool)
  | st, [], out => (out.div s!"{tag}: no attempt dumped", some (st, false))
  | st, a :: rest, out =>
    if a.sepDist != st.sepDist then
      (out.div s!"{tag}: separation distance of attempt is {ratToString a.sepDist}, model {ratToString st.sepDist}", none)
    else if a.cons != st.cons then
      (out.div s!"{tag}: constraints handed to the solver differ: {describeConsDiff st.cons a.cons}", none)
    else if a.fps.length != vars.length then (out.div s!"{tag}: {a.fps.length} final positions for {vars.length} variables", none)
    else if satMargin vars a.fps < marginEps then (out.stat "region.margin-skip", none)
    else match nudgeStep o vars st a.fps with
      | none => (out.div s!"{tag}: the model hits a failed assertion of the unsatisfied-range bookkeeping but the implementation went on", none)
      | some step =>
        if step.satisfied != a.satisfied then
          (out.div s!"{tag}: satisfied test: model {step.satisfied}, implementation {a.satisfied}", none)
        else if step.retry != a.retry then
          (out.div s!"{tag}: loop continues: model {step.retry}, implementation {a.retry} (sepDist model {ratToString step.next.sepDist})", none)
        else if step.retry && rest.isEmpty then (out.div s!"{tag}: loop should go round again but no further attempt was dumped", none)
        else if !step.retry && !rest.isEmpty then (out.div s!"{tag}: {rest.length} more attempts dumped after the loop ended", none)
        else if step.retry then runNudge o tag vars step.next rest out
        else (out, some (st, step.satisfied))

def runUnify (o : ROpts) (tag : String) (vars : List Var) : UState → List DAttempt → RegionOut → RegionOut × Option Bool
  | _, [], out => (out.div s!"{tag}: no attempt dumped", none)
  | st, a :: rest, out =>
    if a.cons != st.cons then
      (out.div s!"{tag}: (unifying) constraints handed to the solver differ: {describeConsDiff st.cons a.cons}", none)
    else if a.fps.length != vars.length then (out.div s!"{tag}: {a.fps.length} final positions for {vars.length} variables", none)
    else if satMargin vars a.fps < marginEps then (out.stat "region.margin-skip", none)
    else match unifyStep o vars st a.fps with
      | none => (out.div s!"{tag}: (unifying) the model hits a failed assertion but the implementation went on", none)
      | some step =>
        if step.retry != a.retry then
          (out.div s!"{tag}: (unifying) loop continues: model {step.retry}, implementation {a.retry}", none)
        else if step.retry && rest.isEmpty then (out.div s!"{tag}: (unifying) loop should go round again but no further attempt was dumped", none)
        else if !step.retry && !rest.isEmpty then (out.div s!"{tag}: (unifying) {rest.length} more attempts dumped after the loop ended", none)
        else if step.retry then runUnify o tag vars step.next rest out
        else (out, some step.satisfied)

/-- tolerance of the separation check on written positions: 2·tol (two clamped ends) + 1e-4 -/
def sepSlack : Rat := 3 / 10000

/-- `exempt a b`: connectors `a` and `b` share an end point (the property makes no promise about them) -/
def checkRegion (r : DRegion) (exempt : Nat → Nat → Bool := fun _ _ => false) : RegionOut := Id.run do
  let o := r.opts
  let tag := s!"region {r.idx} (dim {r.dim}, {if r.ju then "unifying" else "nudging"}, {r.segs.length} segments)"
  let mut out : RegionOut := {}
  out := out.stat (if r.ju then "region.unify" else "region.nudge")
  -- skip rule
  if skipped o r.segs != r.skipped then
    return out.div s!"{tag}: skipped = {r.skipped}, model {skipped o r.segs}"
  if r.skipped then
    out := out.stat "region.skipped"
    if (r.segs.zip (r.wrLow.zip r.wrHigh)).any (fun (s, w) => w.1 != s.pos || w.2 != s.pos) then
      out := out.div s!"{tag}: a skipped region was written to"
    return out
  if r.segs.any (fun s => !createVarPre o s) then
    return out.div s!"{tag}: zigzag segment without channel limits (assertion of createSolverVariable) but the implementation went on"
  -- variables
  let vars := if r.ju then unifyVars o r.segs else regionVars o r.segs
  if vars != r.vars then
    let i := (firstDiff vars r.vars).getD 0
    return out.div s!"{tag}: solver variable #{i}: model {(vars[i]?).map showVar |>.getD "—"} / implementation {(r.vars[i]?).map showVar |>.getD "—"} (model {vars.length}, implementation {r.vars.length} variables)"
  -- loop
  let lastFps := (r.atts.getLast?.map (·.fps)).getD []
  if r.ju then
    let (out1, res) := runUnify o tag vars (unifyInit o r.segs) r.atts out
    out := out1
    match res with
    | none => return out
    | some sat =>
      if sat != r.satisfied then return out.div s!"{tag}: (unifying) final satisfied: model {sat}, implementation {r.satisfied}"
      for ((s, i), (wl, wh)) in (r.segs.zipIdx).zip (r.wrLow.zip r.wrHigh) do
        let w := written sat s (lastFps.getD i 0)
        if w != wl || w != wh then
          return out.div s!"{tag}: (unifying) segment {i} of connector {s.conn}: written position {ratToString wl}/{ratToString wh}, model {ratToString w}"
      return out.stat (if sat then "region.unify.satisfied" else "region.unify.unsatisfied")
  else
    let cons0 := regionCons o r.base r.segs
    if (r.segs.zipIdx).any (fun (s, i) => (r.segs.take i).any (fun p =>
        overlapsWith o s p && (!s.fixed || !p.fixed) && !gapOfPre o p s)) then
      return out.div s!"{tag}: UnsignedPair assertion (same connector, common-end lookup) fails in the model but the implementation went on"
    -- every region starts from the model's own start state (Props/C10Region.first_attempt_uses_base_distance)
    let st0 : NState := initState o r.segs
    for c in cons0 do
      out := out.stat (match c with
        | .sep _ _ g e => if e then "region.con.equality" else if g == 0 then "region.con.zero-gap" else "region.con.separation"
        | .lower _ _ => "region.con.channel"
        | .upper _ _ => "region.con.channel")
    out := out.stat s!"region.attempts.{r.atts.length}"
    let (out1, res) := runNudge o tag vars st0 r.atts out
    out := out1
    match res with
    | none => return out
    | some (st, sat) =>
      if sat != r.satisfied then return out.div s!"{tag}: final satisfied: model {sat}, implementation {r.satisfied}"
      for ((s, i), (wl, wh)) in (r.segs.zipIdx).zip (r.wrLow.zip r.wrHigh) do
        let w := written sat s (lastFps.getD (varIdx r.segs i) 0)
        if w != wl || w != wh then
          return out.div s!"{tag}: segment {i} of connector {s.conn}: written position {ratToString wl}/{ratToString wh}, model {ratToString w} (satisfied {sat})"
      out := out.stat (if sat then "region.nudge.satisfied" else "region.nudge.unsatisfied")
      if sat then
        if st.sepDist < r.base then out := out.stat "region.nudge.reduced"
        -- consequence of the theorems: separation of the written positions for every positive-gap
        -- constraint of the MODEL in the successful attempt
        let anyUnsat := (r.atts.getLast?.map (fun a => a.unsat.any id)).getD false
        if anyUnsat then out := out.stat "region.nudge.solver-dropped-constraints"
        for (c, fc) in cons0.zip st.cons do
          match c with
          | .sep j i _ _ =>
            if 0 < fc.gap && exempt (r.segs.getD j default).conn (r.segs.getD i default).conn then
              out := out.stat "region.sep-exempt-common-end"
            else if 0 < fc.gap then
              out := out.stat "region.sep-checked"
              let wj := r.wrLow.getD j 0
              let wi := r.wrLow.getD i 0
              -- the property promises the DISTANCE (a solver that dropped a constraint of an infeasible cycle may
              -- legitimately leave the pair in the other order, still `gap` apart)
              if !(fc.gap - sepSlack ≤ absQ (wi - wj)) then
                let sj := r.segs.getD j default
                let si := r.segs.getD i default
                let msg := s!"{tag}: segments {j} (connector {sj.conn}, extent [{ratToString sj.lo},{ratToString sj.hi}]) and {i} (connector {si.conn}, extent [{ratToString si.lo},{ratToString si.hi}]) overlap, are ordered {j} before {i}, the region was solved with separation {ratToString fc.gap} and applied, but they were written to {ratToString wj} and {ratToString wi}"
                out := { out with findings := out.findings ++ [.spec (if anyUnsat then "narrow-sep" else "region-sep") msg] }
          | _ => pure ()
      return out

/-- checks across the regions of one pass (same stage and dimension, consecutive in the dump) -/
def checkPass (rs : List DRegion) : RegionOut := Id.run do
  let mut out : RegionOut := {}
  match rs with
  | [] => return out
  | r0 :: _ =>
    let o := r0.opts
    -- region formation: no overlap across regions (segments are merged by linesort when
    -- nudgeFinal is on, so only without that option)
    if !r0.nudgeFinal then
      for (ra, ia) in rs.zipIdx do
        for rb in rs.drop (ia + 1) do
          for sa in ra.segs do
            for sb in rb.segs do
              if overlapsWith o sa sb || overlapsWith o sb sa then
                return out.div s!"region formation (dim {r0.dim}, {if r0.ju then "unifying" else "nudging"}): segment of connector {sa.conn} (extent [{ratToString sa.lo},{ratToString sa.hi}], limits [{ratToString sa.minLim},{ratToString sa.maxLim}]) in region {ra.idx} overlaps, by the model of overlapsWith, segment of connector {sb.conn} (extent [{ratToString sb.lo},{ratToString sb.hi}], limits [{ratToString sb.minLim},{ratToString sb.maxLim}]) in region {rb.idx}"
    -- order inside nudging regions
    if !r0.ju then
      for r in rs do
        -- `orderViolation`: sound for every comparator that agrees with the rules (Props/C10Region.linesort_respects_rules)
        match orderViolation r.base r.segs with
        | some (a, b) =>
          let why := if a.pos != b.pos then "position" else
            let fa := fixedOrder r.base a
            let fb := fixedOrder r.base b
            if (fa.2 || fb.2) && fa.1 != fb.1 then "fixedOrder" else "order (c-bend direction)"
          return out.div s!"region {r.idx} (dim {r.dim}): segment of connector {a.conn} at {ratToString a.pos} is placed directly before segment of connector {b.conn} at {ratToString b.pos} although the {why} rule of CmpLineOrder puts it after"
        | none => pure ()
    return out

end AdaptaVerif.Model.NudgeRegion
