/-
C11: the per-leg visibility-direction protocol of `ConnRef::generateCheckpointsPath`
(cola/libavoid/connector.cpp) together with `VertInf::setVisibleDirections` and
`VertInf::directionFrom` (cola/libavoid/vertices.cpp). Core Lean only.

What is modelled (line by line, see the C++ quoted at each definition):
* the visibility graph as a list of edges, each with the direction flags of either end as seen from
  the other (`otherVert->directionFrom(this)`) and the flag `EdgeInf::m_disabled`;
* `setVisibleDirections(dirs)`: every edge of the vertex gets `disabled := false` for `ConnDirAll`
  and `disabled := !(direction & dirs)` otherwise;
* the loop of `generateCheckpointsPath` over `checkpoints = src :: checkpoint vertices ++ [dst]`
  with `lastSuccessfulIndex`: restrict the start vertex by the departure mask of the checkpoint the
  leg starts from, the end vertex by the arrival mask of the checkpoint the leg goes to, search,
  restore both, advance `lastSuccessfulIndex` if a path was found.
The A* search itself is NOT modelled: it is an arbitrary function `search` of the graph it sees and
the two vertices (it only reads `isDisabled`), so every theorem holds for every search outcome,
i.e. for every pattern of reached / skipped checkpoints.

Theorems: Lemmas/CheckpointLegs.lean, Props/C11Legs.lean.
-/
namespace AdaptaVerif.Model.CheckpointLegs

/-- `ConnDirAll` -/
def connDirAll : Nat := 15

/-- `VertInf::directionFrom` as called by `setVisibleDirections`:
    `otherVert->directionFrom(this)` with `diff = otherVert->point - this->point`;
    Up=1 if `diff.y > eps`, Down=2 if `diff.y < -eps`, Right=8 if `diff.x > eps`, Left=4 if `diff.x < -eps`. -/
def directionOf (eps : Rat) (thisX thisY otherX otherY : Rat) : Nat :=
  let dx := otherX - thisX
  let dy := otherY - thisY
  (if dy > eps then 1 else 0) ||| (if dy < -eps then 2 else 0) |||
  (if dx > eps then 8 else 0) ||| (if dx < -eps then 4 else 0)

/-- the double `0.000001` of `directionFrom` (0x1.0c6f7a0b5ed8dp-20) -/
def dirEps : Rat := 4722366482869645 / 4722366482869645213696

/-- one visibility edge (`EdgeInf`): its two vertices, the direction of `b` seen from `a`
    (`b->directionFrom(a)`) and of `a` seen from `b`, and `m_disabled` -/
structure Edge (V : Type) where
  a : V
  b : V
  dirAB : Nat
  dirBA : Nat
  disabled : Bool
  deriving Repr, BEq, DecidableEq

abbrev Graph (V : Type) := List (Edge V)

variable {V : Type} [DecidableEq V]

/-- does `setVisibleDirections(dirs)` leave an edge whose other end lies in direction `dir` disabled?
    `if (directions == ConnDirAll) setDisabled(false); else setDisabled(!(direction & directions))` -/
def disabledFor (dirs dir : Nat) : Bool :=
  if dirs = connDirAll then false else (dir &&& dirs) = 0

/-- effect of `v->setVisibleDirections(dirs)` on one edge: edges in `v`'s lists (`visList`,
    `orthogVisList`) are the edges with `v` as an end -/
def Edge.setVisible (v : V) (dirs : Nat) (e : Edge V) : Edge V :=
  if e.a = v then { e with disabled := disabledFor dirs e.dirAB }
  else if e.b = v then { e with disabled := disabledFor dirs e.dirBA }
  else e

/-- `VertInf::setVisibleDirections` -/
def setVisibleDirections (v : V) (dirs : Nat) (g : Graph V) : Graph V := g.map (Edge.setVisible v dirs)

/-- a routing checkpoint: its vertex, `arrivalDirections`, `departureDirections` -/
structure Cp (V : Type) where
  v : V
  arr : Nat
  dep : Nat
  deriving Repr

/-- one call of `aStar.search(this, start, end, nullptr)` as seen by the protocol: the graph it
    searched, the two vertices, and whether `end->pathLeadsBackTo(start) >= 2` -/
structure LegRecord (V : Type) where
  index : Nat            -- loop index i (1-based; i = n+1 is the leg to dst)
  lastOk : Nat           -- lastSuccessfulIndex when the leg was searched
  start : V
  stop : V
  seen : Graph V         -- the graph during the search
  found : Bool

structure LoopState (V : Type) where
  g : Graph V
  last : Nat                       -- lastSuccessfulIndex
  legs : List (LegRecord V)        -- searches so far (oldest first)

/-- `if (mask != ConnDirAll) v->setVisibleDirections(mask)`; `mask = none` stands for an out-of-range
    access of `m_checkpoints` (never happens: `indices_in_range`) -/
def restrictBy (v : V) (mask : Option Nat) (g : Graph V) : Graph V :=
  match mask with
  | some d => if d ≠ connDirAll then setVisibleDirections v d g else g
  | none => g

/-- one iteration of the `for (size_t i = 1; i < checkpoints.size(); ++i)` loop.
    `verts = checkpoints` (src, checkpoint vertices, dst), `cps = m_checkpoints`.
    The vector accesses `checkpoints[lastSuccessfulIndex]`, `checkpoints[i]`,
    `m_checkpoints[lastSuccessfulIndex - 1]`, `m_checkpoints[i - 1]` are written with `[·]?`; that
    they are always in range is the lemma `indices_in_range` (an out-of-range access skips the
    statement here, it would be undefined behaviour in the C++). -/
def iteration (search : Graph V → V → V → Bool) (verts : List V) (cps : List (Cp V))
    (s : LoopState V) (i : Nat) : LoopState V :=
  match verts[s.last]?, verts[i]? with
  | some start, some stop =>
    -- Handle checkpoint directions by disabling some visibility edges.
    let g1 := if s.last > 0 then restrictBy start ((cps[s.last - 1]?).map (·.dep)) s.g else s.g
    let g2 := if i + 1 < verts.length then restrictBy stop ((cps[i - 1]?).map (·.arr)) g1 else g1
    -- Route the connector
    let found := search g2 start stop
    -- Restore changes made for checkpoint visibility directions.
    let g3 := if s.last > 0 then setVisibleDirections start connDirAll g2 else g2
    let g4 := if i + 1 < verts.length then setVisibleDirections stop connDirAll g3 else g3
    -- Process the path: `lastSuccessfulIndex = i` when a path was found; the two failure branches
    -- (no valid path to dst / skipping checkpoint) do not touch the graph
    { g := g4, last := if found then i else s.last,
      legs := s.legs ++ [⟨i, s.last, start, stop, g2, found⟩] }
  | _, _ => s

/-- the vector `checkpoints` of the C++: `m_checkpoint_vertices` with `src()` inserted at the front
    and `dst()` pushed at the back -/
def legVertices (src dst : V) (cps : List (Cp V)) : List V := src :: (cps.map (·.v) ++ [dst])

/-- `ConnRef::generateCheckpointsPath`, visibility-direction part: final graph, final
    `lastSuccessfulIndex`, and the record of all searches -/
def generateCheckpointsPath (search : Graph V → V → V → Bool) (src dst : V) (cps : List (Cp V))
    (g : Graph V) : LoopState V :=
  let verts := legVertices src dst cps
  (List.range' 1 (verts.length - 1)).foldl (iteration search verts cps) ⟨g, 0, []⟩

/-- no edge of the graph is disabled -/
def allEnabled (g : Graph V) : Bool := g.all (fun e => !e.disabled)

/-- vertices that currently have restricted visibility: an end of a disabled edge -/
def restrictedVertices (g : Graph V) : List V := (g.filter (·.disabled)).flatMap (fun e => [e.a, e.b])

/-! ### histories: the graph between path searches -/

/-- what happens to the visibility graph over the life of a router, as far as `m_disabled` is concerned -/
inductive Op (V : Type) where
  /-- a new `EdgeInf` (constructor sets `m_disabled(false)`) -/
  | addEdge (a b : V) (dirAB dirBA : Nat)
  /-- edges removed (vertex removed, visibility lost, orthogonal graph rebuilt): keep those satisfying `keep` -/
  | removeEdges (keep : Edge V → Bool)
  /-- a vertex moved: the direction flags of edges change, `m_disabled` is not touched -/
  | redirect (f : Edge V → Nat × Nat)
  /-- `generateCheckpointsPath` of some connector, with any search behaviour -/
  | route (search : Graph V → V → V → Bool) (src dst : V) (cps : List (Cp V))
  /-- a search that does not use checkpoints (`generateStandardPath`): reads the graph only -/
  | routePlain

def applyOp (g : Graph V) : Op V → Graph V
  | .addEdge a b d1 d2 => ⟨a, b, d1, d2, false⟩ :: g
  | .removeEdges keep => g.filter keep
  | .redirect f => g.map (fun e => { e with dirAB := (f e).1, dirBA := (f e).2 })
  | .route search src dst cps => (generateCheckpointsPath search src dst cps g).g
  | .routePlain => g

def runOps (g : Graph V) (ops : List (Op V)) : Graph V := ops.foldl applyOp g

end AdaptaVerif.Model.CheckpointLegs
