/-
Hand-written executable model of libavoid's geometry predicates (cola/libavoid/geometry.{h,cpp})
over exact rationals. Core Lean only.
-/
namespace AdaptaVerif.Model.Geometry

structure Pt where
  x : Rat
  y : Rat
  deriving Repr, BEq, DecidableEq, Inhabited

/-- twice the signed area of triangle a b c (the `area2` local of `vecDir`) -/
def area2 (a b c : Pt) : Rat := (b.x - a.x) * (c.y - a.y) - (c.x - a.x) * (b.y - a.y)

/-- `vecDir(a, b, c, maybeZero)`: 1 counter-clockwise, 0 collinear, -1 clockwise -/
def vecDir (a b c : Pt) (maybeZero : Rat := 0) : Int :=
  let ar := area2 a b c
  if ar < -maybeZero then -1 else if ar > maybeZero then 1 else 0

/-- `segmentIntersect(a, b, c, d)` -/
def segmentIntersect (a b c d : Pt) : Bool :=
  let ab_c := vecDir a b c
  if ab_c == 0 then false else
  let ab_d := vecDir a b d
  if ab_d == 0 then false else
  let cd_a := vecDir c d a
  let cd_b := vecDir c d b
  (ab_c * ab_d < 0) && (cd_a * cd_b < 0)

end AdaptaVerif.Model.Geometry
