/-
Hand-written executable model of libavoid's geometry predicates (cola/libavoid/geometry.{h,cpp})
over exact rationals. Core Lean only. The loop-free ones are also *generated* from the C++ by
tools/cpp2lean (AdaptaVerif.Gen.Geometry) and proved equal to these in Lemmas/GeometryBridge.lean.
-/
namespace AdaptaVerif.Model.Geometry

structure Pt where
  x : Rat
  y : Rat
  deriving Repr, BEq, DecidableEq, Inhabited

/-- twice the signed area of triangle a b c (the `area2` local of `vecDir`) -/
def area2 (a b c : Pt) : Rat := (b.x - a.x) * (c.y - a.y) - (c.x - a.x) * (b.y - a.y)

/-- `vecDir(a, b, c, maybeZero)`: 1 counter-clockwise, 0 collinear, -1 clockwise -/
def vecDir (a b c : Pt) (maybeZero : Rat := 0) : Int :=
  let ar := area2 a b c
  if ar < -maybeZero then -1 else if ar > maybeZero then 1 else 0

/-- `std::numeric_limits<double>::epsilon()` -/
def eps : Rat := 1 / 4503599627370496

def absR (r : Rat) : Rat := if r < 0 then -r else r

/-- strictly between (the code's `(a<c && c<b) || (b<c && c<a)`) -/
def strictBetween (a b c : Rat) : Bool := (a < c && c < b) || (b < c && c < a)

/-- `inBetween(a, b, c)`; precondition (asserted in the code): a b c collinear within eps -/
def inBetween (a b c : Pt) : Bool :=
  if absR (a.x - b.x) > eps then strictBetween a.x b.x c.x else strictBetween a.y b.y c.y

/-- `colinear(a, b, c, tolerance)` -/
def colinear (a b c : Pt) (tolerance : Rat := 0) : Bool :=
  if a = b then true
  else if a.x = b.x then a.x = c.x
  else if a.y = b.y then a.y = c.y
  else decide (vecDir a b c tolerance = 0)

/-- `pointOnLine(a, b, c, tolerance)`: c strictly inside segment ab (NB: the comment in the
    C++ says "closed segment"; the code is strict and the model follows the code) -/
def pointOnLine (a b c : Pt) (tolerance : Rat := 0) : Bool :=
  if a.x = b.x then a.x = c.x && strictBetween a.y b.y c.y
  else if a.y = b.y then a.y = c.y && strictBetween a.x b.x c.x
  else decide (vecDir a b c tolerance = 0) && inBetween a b c

/-- `segmentIntersect(a, b, c, d)` -/
def segmentIntersect (a b c d : Pt) : Bool :=
  let ab_c := vecDir a b c
  if ab_c == 0 then false else
  let ab_d := vecDir a b d
  if ab_d == 0 then false else
  let cd_a := vecDir c d a
  let cd_b := vecDir c d b
  (ab_c * ab_d < 0) && (cd_a * cd_b < 0)

/-- `segmentShapeIntersect(e1, e2, s1, s2, seenIntersectionAtEndpoint)` returning
    (result, new value of the in/out flag) -/
def segmentShapeIntersect (e1 e2 s1 s2 : Pt) (seen : Bool) : Bool × Bool :=
  if segmentIntersect e1 e2 s1 s2 then (true, seen)
  else if ((s2 = e1 || pointOnLine s1 s2 e1) && vecDir s1 s2 e2 != 0) ||
          ((s2 = e2 || pointOnLine s1 s2 e2) && vecDir s1 s2 e1 != 0) then
    if seen then (true, seen) else (false, true)
  else (false, seen)

/-- `inValidRegion(IgnoreRegions, a0, a1, a2, b)` -/
def inValidRegion (ignoreRegions : Bool) (a0 a1 a2 b : Pt) : Bool :=
  let rSide := vecDir b a0 a1
  let sSide := vecDir b a1 a2
  let rOutOn := rSide ≤ 0
  let sOutOn := sSide ≤ 0
  let rOut := rSide < 0
  let sOut := sSide < 0
  if vecDir a0 a1 a2 > 0 then
    if ignoreRegions then (rOutOn && !sOut) || (!rOut && sOutOn) else (rOutOn || sOutOn)
  else
    if ignoreRegions then false else (rOutOn && sOutOn)

/-- `cornerSide(c1, c2, c3, p)` -/
def cornerSide (c1 c2 c3 p : Pt) : Int :=
  let s123 := vecDir c1 c2 c3
  let s12p := vecDir c1 c2 p
  let s23p := vecDir c2 c3 p
  if s123 == 1 then (if s12p ≥ 0 && s23p ≥ 0 then 1 else -1)
  else if s123 == -1 then (if s12p ≤ 0 && s23p ≤ 0 then -1 else 1)
  else s12p

/-- cyclic predecessor list: `prevs [p0,…,pn-1] = [pn-1, p0, …, pn-2]` (index `(i+n-1) % n`) -/
def prevs (ps : List Pt) : List Pt :=
  match ps.getLast? with
  | some l => l :: ps.dropLast
  | none => []

/-- edges (P[prev i], P[i]) in loop order -/
def edges (ps : List Pt) : List (Pt × Pt) := (prevs ps).zip ps

/-- `inPoly(poly, q, countBorder)` — convex polygons, vertices clockwise in screen coordinates,
    i.e. the interior is on the non-negative `vecDir` side of every edge -/
def inPoly (poly : List Pt) (q : Pt) (countBorder : Bool := true) : Bool :=
  let dirs := (edges poly).map (fun e => vecDir e.1 e.2 q)
  if dirs.any (· == -1) then false
  else if !countBorder && dirs.any (· == 0) then false
  else true

/-- x-coordinate where edge (p1 → p) crosses the x-axis (as computed in `inPolyGen`) -/
def crossX (p p1 : Pt) : Rat := (p.x * p1.y - p1.x * p.y) / (p1.y - p.y)

/-- `inPolyGen(poly, q)` — crossing-number test, boundary counts as inside -/
def inPolyGen (poly : List Pt) (q : Pt) : Bool :=
  let P := poly.map (fun p => (⟨p.x - q.x, p.y - q.y⟩ : Pt))
  if P.any (fun p => p.x = 0 && p.y = 0) then true else
  let es := edges P      -- (P[i1], P[i])
  let r := es.countP (fun e => (decide (e.2.y > 0) != decide (e.1.y > 0)) && crossX e.2 e.1 > 0)
  let l := es.countP (fun e => (decide (e.2.y < 0) != decide (e.1.y < 0)) && crossX e.2 e.1 < 0)
  if r % 2 != l % 2 then true else r % 2 == 1

def DONT_INTERSECT : Int := 0
def DO_INTERSECT : Int := 1
def PARALLEL : Int := 3

/-- bounding-box rejection test of `segmentIntersectPoint` in one coordinate:
    segment [p1,p2] against [q1,q2] -/
def boxReject (p1 p2 q1 q2 : Rat) : Bool :=
  let A := p2 - p1
  let B := q1 - q2
  let (hi, lo) := if A < 0 then (p1, p2) else (p2, p1)
  if B > 0 then (hi < q2 || q1 < lo) else (hi < q1 || q2 < lo)

/-- the part of `segmentIntersectPoint` after the two bounding-box tests -/
def sipCore (a1 a2 b1 b2 : Pt) : Int × Rat × Rat :=
  let Ax := a2.x - a1.x
  let Bx := b1.x - b2.x
  let Ay := a2.y - a1.y
  let By := b1.y - b2.y
  let Cx := a1.x - b1.x
  let Cy := a1.y - b1.y
  let d := By * Cx - Bx * Cy
  let f := Ay * Bx - Ax * By
  if (if f > 0 then (d < 0 || d > f) else (d > 0 || d < f)) then (DONT_INTERSECT, 0, 0) else
  let e := Ax * Cy - Ay * Cx
  if (if f > 0 then (e < 0 || e > f) else (e > 0 || e < f)) then (DONT_INTERSECT, 0, 0) else
  if f = 0 then (PARALLEL, 0, 0) else
  (DO_INTERSECT, a1.x + d * Ax / f, a1.y + d * Ay / f)

/-- `segmentIntersectPoint(a1, a2, b1, b2, &x, &y)`: (code, x, y); x,y are 0 when not set -/
def segmentIntersectPoint (a1 a2 b1 b2 : Pt) : Int × Rat × Rat :=
  if boxReject a1.x a2.x b1.x b2.x then (DONT_INTERSECT, 0, 0) else
  if boxReject a1.y a2.y b1.y b2.y then (DONT_INTERSECT, 0, 0) else
  sipCore a1 a2 b1 b2

/-- `rayIntersectPoint` -/
def rayIntersectPoint (a1 a2 b1 b2 : Pt) : Int × Rat × Rat :=
  let Ay := a2.y - a1.y
  let By := b1.y - b2.y
  let Ax := a2.x - a1.x
  let Bx := b1.x - b2.x
  let Cx := a1.x - b1.x
  let Cy := a1.y - b1.y
  let d := By * Cx - Bx * Cy
  let f := Ay * Bx - Ax * By
  if f = 0 then (PARALLEL, 0, 0) else
  (DO_INTERSECT, a1.x + d * Ax / f, a1.y + d * Ay / f)

def manhattanDist (a b : Pt) : Rat := absR (a.x - b.x) + absR (a.y - b.y)

end AdaptaVerif.Model.Geometry
