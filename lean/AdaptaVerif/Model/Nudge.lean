/-
C10 model (core Lean only): one nudging region of `ImproveOrthogonalRoutes::nudgeOrthogonalRoutes`
(cola/libavoid/orthogonal.cpp) in the nudging pass (`justUnifying = false`).

A region is the list of `NudgingShiftSegment`s of one group of mutually overlapping segments, in
the order produced by `linesort` (the order itself — `PtOrderMap`, `CmpLineOrder` — is *not*
modelled: the region comes already sorted). For segment number `i` the code creates the variable
`vs[i]` at the current position and, in this order,
  * `channelLeft ≤ x_i`   (gap 0; a variable with weight `fixedWeight` at `minSpaceLimit`) when the
    segment is not fixed and `minSpaceLimit > -CHANNEL_MAX`,
  * for every earlier segment `j` with `overlapsWith` and not both fixed: `x_j + gap ≤ x_i`
    (an equality for the `shouldAlignWith` / common-end-point cases, gap 0 for those and for
    `canAlignWith`, else gap = the current `sepDist`),
  * `x_i ≤ channelRight` likewise.
The solver (VPSC, property C01/C02) is not modelled: theorems quantify over *every* assignment
that satisfies the generated constraints. `applyRegion` mirrors what happens with the solver
result (`satisfied` test with tolerance 1e-4, `updatePositionsFromSolver`: fixed segments are
skipped, the others are clamped into their limits; nothing is written when not satisfied).
-/
namespace AdaptaVerif.Model.Nudge

/-- one `NudgingShiftSegment`; `none` limits stand for ∓CHANNEL_MAX; `lo`/`hi` is the extent of
    the segment along its own direction (`lowPoint()[altDim]`, `highPoint()[altDim]`) -/
structure Seg where
  pos : Rat
  minLim : Option Rat
  maxLim : Option Rat
  fixed : Bool
  conn : Nat
  lo : Rat
  hi : Rat
  deriving Repr, DecidableEq, Inhabited

structure Params where
  /-- current separation distance (`sepDist`) -/
  sepDist : Rat
  /-- routing option nudgeSharedPathsWithCommonEndPoint -/
  nudgeCommonEnd : Bool
  /-- `m_shared_path_connectors_with_common_endpoints` -/
  commonEnd : Nat → Nat → Bool
  /-- `shouldAlignWith` (same connector only): the two segments are to be merged (equality) -/
  shouldAlign : Seg → Seg → Bool
  /-- tolerance of the `satisfied` test (0.0001 in the code) -/
  tol : Rat

def leOpt (a : Option Rat) (b : Option Rat) : Bool :=
  match a, b with
  | some x, some y => decide (x ≤ y)
  | _, _ => true

/-- `overlapsWith`, positive-length case: the extents overlap and the limit ranges intersect
    (the touching-at-one-end cases depend on further options and only add pairs) -/
def overlaps (a b : Seg) : Bool :=
  decide (a.lo < b.hi) && decide (b.lo < a.hi) && leOpt a.minLim b.maxLim && leOpt b.minLim a.maxLim

/-- gap and equality flag of the constraint between an earlier segment `a` and a later one `b` -/
def gapFor (p : Params) (a b : Seg) : Rat × Bool :=
  if a.conn = b.conn then (0, p.shouldAlign a b)                -- shouldAlignWith / canAlignWith
  else if p.commonEnd a.conn b.conn && !p.nudgeCommonEnd then (0, true)
  else (p.sepDist, false)

inductive Cons where
  /-- `x_j + gap ≤ x_i` (or `=` when `eq`) -/
  | sep (j i : Nat) (gap : Rat) (eq : Bool)
  /-- `cl_i ≤ x_i`, `cl_i` the channel-left variable of segment `i` (desired position `lim`) -/
  | lower (i : Nat) (lim : Rat)
  /-- `x_i ≤ cr_i` -/
  | upper (i : Nat) (lim : Rat)
  deriving Repr, DecidableEq

/-- constraints created when segment `i` (= `s`) is reached; `prev` = earlier segments with
    their indices -/
def consFor (p : Params) (prev : List (Nat × Seg)) (i : Nat) (s : Seg) : List Cons :=
  (match s.fixed, s.minLim with
    | false, some l => [Cons.lower i l]
    | _, _ => []) ++
  (prev.filterMap (fun js =>
    if overlaps s js.2 && (!s.fixed || !js.2.fixed) then
      some (Cons.sep js.1 i (gapFor p js.2 s).1 (gapFor p js.2 s).2)
    else none)) ++
  (match s.fixed, s.maxLim with
    | false, some l => [Cons.upper i l]
    | _, _ => [])

def genFrom (p : Params) (prev : List (Nat × Seg)) (i : Nat) : List Seg → List Cons
  | [] => []
  | s :: rest => consFor p prev i s ++ genFrom p (prev ++ [(i, s)]) (i + 1) rest

/-- all constraints of the region -/
def genCons (p : Params) (segs : List Seg) : List Cons := genFrom p [] 0 segs

/-- a solver result: positions of the segment variables and of the channel-edge variables -/
structure Sol where
  x : Nat → Rat
  cl : Nat → Rat
  cr : Nat → Rat

def Cons.holds (sol : Sol) : Cons → Prop
  | .sep j i gap eq => if eq then sol.x j + gap = sol.x i else sol.x j + gap ≤ sol.x i
  | .lower i _ => sol.cl i ≤ sol.x i
  | .upper i _ => sol.x i ≤ sol.cr i

def absR (r : Rat) : Rat := if r < 0 then -r else r

/-- the `satisfied` test: every variable that is not a free segment (fixed segments and channel
    edges) ended within `tol` of its desired position -/
def Satisfied (p : Params) (segs : List Seg) (sol : Sol) : Prop :=
  ∀ i (s : Seg), segs[i]? = some s →
    (s.fixed = true → absR (sol.x i - s.pos) ≤ p.tol) ∧
    (s.fixed = false → ∀ l, s.minLim = some l → absR (sol.cl i - l) ≤ p.tol) ∧
    (s.fixed = false → ∀ l, s.maxLim = some l → absR (sol.cr i - l) ≤ p.tol)

/-- executable form of `Cons.holds` (used by the driver on the positions found in displayRoute()) -/
def Cons.holdsB (sol : Sol) : Cons → Bool
  | .sep j i gap eq => if eq then decide (sol.x j + gap = sol.x i) else decide (sol.x j + gap ≤ sol.x i)
  | .lower i _ => decide (sol.cl i ≤ sol.x i)
  | .upper i _ => decide (sol.x i ≤ sol.cr i)

/-- `updatePositionsFromSolver`: `max(newPos, minSpaceLimit)` then `min(·, maxSpaceLimit)` -/
def clamp (s : Seg) (v : Rat) : Rat :=
  let v1 := match s.minLim with | some l => max v l | none => v
  match s.maxLim with | some u => min v1 u | none => v1

/-- position of segment `i` after the region has been processed -/
def finalPos (satisfied : Bool) (s : Seg) (xi : Rat) : Rat :=
  if satisfied then (if s.fixed then s.pos else clamp s xi) else s.pos

/-- the separation distance tried after `k` unsuccessful solves: `sepDist -= baseSepDist / 10` -/
def sepAfter (d : Rat) (k : Nat) : Rat := d - (k : Rat) * (d / 10)

end AdaptaVerif.Model.Nudge
