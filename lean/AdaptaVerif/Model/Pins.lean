/-
C11 model (core Lean only, linked into the driver).

* `pinPosition` / `pinDirections` mirror `ShapeConnectionPin::position()` and `::directions()`
  of cola/libavoid/connectionpin.cpp over exact rationals. The shape enters only through the
  bounding box of its polygon (`poly.offsetBoundingBox(0.0)`), exactly as in the C++.
* `State`/`Op`/`step` are an abstract model of the pin-assignment bookkeeping
  (`ShapeConnectionPin::m_connend_users`, `m_exclusive`; `ConnEnd::usePin/freeActivePin`;
  `ConnEnd::assignPinVisibilityTo` offers a pin iff `!m_exclusive || m_connend_users.empty()`;
  `Router::rerouteAndCallbackConnectors` frees every connector's pins before routing).
-/
namespace AdaptaVerif.Model.Pins

structure P2 where
  x : Rat
  y : Rat
  deriving Repr, BEq, DecidableEq, Inhabited

/-- bounding box of the shape polygon (`Box`, min/max corner) -/
structure Box where
  minX : Rat
  minY : Rat
  maxX : Rat
  maxY : Rat
  deriving Repr, BEq, DecidableEq, Inhabited

def Box.width (b : Box) : Rat := b.maxX - b.minX
def Box.height (b : Box) : Rat := b.maxY - b.minY
def Box.translate (b : Box) (t : P2) : Box :=
  ⟨b.minX + t.x, b.minY + t.y, b.maxX + t.x, b.maxY + t.y⟩
def P2.translate (p t : P2) : P2 := ⟨p.x + t.x, p.y + t.y⟩

/-- `Polygon::offsetBoundingBox(0.0)` of a non-empty point list (min / max per coordinate) -/
def bboxOf (p : P2) (ps : List P2) : Box :=
  ps.foldl (fun b q => ⟨min b.minX q.x, min b.minY q.y, max b.maxX q.x, max b.maxY q.y⟩)
    ⟨p.x, p.y, p.x, p.y⟩

/-- The constructor arguments of a `ShapeConnectionPin` on a shape. `visDirs` is the
    `ConnDirFlags` bit mask: Up=1 (−y), Down=2 (+y), Left=4 (−x), Right=8 (+x). -/
structure PinSpec where
  classId : Nat
  xOff : Rat
  yOff : Rat
  proportional : Bool
  inside : Rat
  visDirs : Nat
  deriving Repr, BEq, DecidableEq, Inhabited

def dirUp : Nat := 1
def dirDown : Nat := 2
def dirLeft : Nat := 4
def dirRight : Nat := 8
def dirAll : Nat := 15

/-- One coordinate of `ShapeConnectionPin::position()`.
    proportional: `ATTACH_POS_LEFT/TOP = 0` → `min + insideOffset`; `ATTACH_POS_RIGHT/BOTTOM = 1`
    → `max − insideOffset`; otherwise `min + off * (max − min)`.
    absolute: `ATTACH_POS_MIN_OFFSET = 0` → `min + insideOffset`; `ATTACH_POS_MAX_OFFSET = −1`
    or `off == width` → `max − insideOffset`; otherwise `min + off`. -/
def axisPos (proportional : Bool) (off inside lo hi : Rat) : Rat :=
  if proportional then
    if off = 0 then lo + inside
    else if off = 1 then hi - inside
    else lo + off * (hi - lo)
  else
    if off = 0 then lo + inside
    else if off = -1 ∨ off = hi - lo then hi - inside
    else lo + off

def pinPosition (s : PinSpec) (b : Box) : P2 :=
  ⟨axisPos s.proportional s.xOff s.inside b.minX b.maxX,
   axisPos s.proportional s.yOff s.inside b.minY b.maxY⟩

/-- `ShapeConnectionPin::directions()`: the given mask, or when it is `ConnDirNone` the default
    derived from the offsets (the C++ compares with ATTACH_POS_LEFT/RIGHT/TOP/BOTTOM = 0/1
    whether or not the offsets are proportional — mirrored as is). -/
def pinDirections (s : PinSpec) : Nat :=
  if s.visDirs ≠ 0 then s.visDirs
  else
    let h := if s.xOff = 0 then dirLeft else if s.xOff = 1 then dirRight else 0
    let v := if s.yOff = 0 then dirUp else if s.yOff = 1 then dirDown else 0
    if h + v = 0 then dirAll else h + v

/-- default of `m_exclusive` after construction: directional pins are exclusive -/
def defaultExclusive (s : PinSpec) : Bool := pinDirections s != dirAll

/-! ### pin-assignment state machine -/

/-- a connector end: (connector id, isDst) -/
abbrev EndId := Nat × Bool

structure PinState where
  id : Nat
  shape : Nat
  classId : Nat
  exclusive : Bool
  users : List EndId
  deriving Repr, BEq, DecidableEq, Inhabited

abbrev State := List PinState

/-- the test of `ConnEnd::assignPinVisibilityTo`: `!m_exclusive || m_connend_users.empty()` -/
def isFree (p : PinState) : Bool := !p.exclusive || p.users.isEmpty

inductive Op where
  /-- `new ShapeConnectionPin(shape, cls, …)` (+ optional `setExclusive` right after) -/
  | addPin (id shape cls : Nat) (excl : Bool)
  | setExclusive (id : Nat) (b : Bool)
  /-- `ConnRef::generatePath` of connector `conn`: both dummy ends are offered the pins that
      are free *before* the search; afterwards `usePinVertex` records the chosen ones -/
  | route (conn : Nat) (srcPin dstPin : Option Nat)
  /-- `ConnRef::freeActivePins` (re-route of one connector / connector deletion) -/
  | release (conn : Nat)
  /-- start of `Router::rerouteAndCallbackConnectors`: every connector frees its pins -/
  | freeAll
  /-- `delete pin` (`~ShapeConnectionPin` disconnects all users) -/
  | deletePin (id : Nat)
  /-- `Router::deleteShape`: all pins of the shape are deleted -/
  | deleteShape (shape : Nat)
  deriving Repr, DecidableEq

def connUses (s : State) (conn : Nat) : Bool :=
  s.any (fun p => p.users.any (fun u => u.1 == conn))

def routePin (conn : Nat) (srcPin dstPin : Option Nat) (p : PinState) : PinState :=
  let us1 := if srcPin = some p.id ∧ isFree p = true then (conn, false) :: p.users else p.users
  let us2 := if dstPin = some p.id ∧ isFree p = true then (conn, true) :: us1 else us1
  { p with users := us2 }

def step (s : State) : Op → State
  | .addPin id shape cls excl => s ++ [⟨id, shape, cls, excl, []⟩]
  | .setExclusive id b => s.map (fun p => if p.id = id then { p with exclusive := b } else p)
  | .route conn sp dp =>
      -- `COLA_ASSERT(m_active_pin == nullptr)` in usePin: a connector still holding a pin is
      -- not routed again (the router always frees first)
      if connUses s conn then s else s.map (routePin conn sp dp)
  | .release conn => s.map (fun p => { p with users := p.users.filter (fun u => u.1 != conn) })
  | .freeAll => s.map (fun p => { p with users := [] })
  | .deletePin id => s.filter (fun p => p.id != id)
  | .deleteShape sh => s.filter (fun p => p.shape != sh)

def run (s : State) (ops : List Op) : State := ops.foldl step s

/-- explicit guards under which the invariant is claimed -/
def Op.ok (s : State) : Op → Prop
  /- making a pin exclusive while it is shared is the caller's business: the C++ does not
     re-route on `setExclusive`, so the invariant can only be claimed from the next transaction -/
  | .setExclusive id true => ∀ p ∈ s, p.id = id → p.users.length ≤ 1
  /- the two ends of one connector are attached to different pins (the generator attaches the
     two ends to different shapes) -/
  | .route _ sp dp => sp = none ∨ dp = none ∨ sp ≠ dp
  | _ => True

def runOk : State → List Op → Prop
  | _, [] => True
  | s, op :: ops => Op.ok s op ∧ runOk (step s op) ops

/-- the invariant: an exclusive pin never has two users -/
def ExclInv (s : State) : Prop := ∀ p ∈ s, p.exclusive = true → p.users.length ≤ 1

/-- executable form of the invariant, used by the driver -/
def invB (s : State) : Bool := s.all (fun p => !p.exclusive || p.users.length ≤ 1)

/-- pins of (shape, class) that a routed end may take in state `s` -/
def freePins (s : State) (shape cls : Nat) : List PinState :=
  s.filter (fun p => p.shape == shape && p.classId == cls && isFree p)

end AdaptaVerif.Model.Pins
