/-
C15 (A) — object-lifetime logic of `Avoid::Router` (libavoid/router.cpp, obstacle.cpp, shape.cpp,
junction.cpp, connector.cpp, connend.cpp, connectionpin.cpp, actioninfo.cpp) as an executable state
machine.  Core Lean only (linked into driver_c15).

What is modelled (one line of C++ per clause, see the comments at each definition):
* which objects are allocated (`obst`, `conns`, `pins`), which of them are *active*, i.e. members of
  the public lists `Router::m_obstacles` / `Router::connRefs` (Obstacle::makeActive, ConnRef::makeActive);
* ownership: a pin belongs to its shape/junction and is freed by `Obstacle::~Obstacle`; a junction
  creates one implicit pin in its constructor;
* the pending action list (`Router::actionList`): find-before-push of every `Router::add*/delete*/
  move*/modify*`, `ActionInfo::addConnEndUpdate`, `Router::removeObjectFromQueuedActions`, and
  `Router::processActions` (remove/move pass, add/move pass, ConnChange pass, clear);
* connector ends attached to an obstacle (`ConnEnd::connect/disconnect`, `Obstacle::makeInactive`
  turning attached ends into free points, `ShapeConnectionPin::~ShapeConnectionPin` →
  `ConnEnd::freeActivePin`);
* transaction use on/off: every mutator ends with `if (!m_consolidate_actions) processTransaction();`;
* `Router::~Router`: deletes what is in `connRefs` and `m_obstacles` (the *active* objects) only;
* checkpoint vertices (`ConnRef::m_checkpoint_vertices`, a separate id space logged in `vcreated` /
  `vfreed`): `ConnRef::setRoutingCheckpoints` deletes the connector's old vertices and creates the new
  ones, `~ConnRef` deletes the connector's vertices;
* clusters (`Avoid::ClusterRef`, viscluster.cpp): the constructor takes an id from the router's common id
  space (`Router::assignId`) and calls `Router::addCluster` → `ClusterRef::makeActive`, i.e. the cluster
  is a member of the public list `Router::clusterRefs` at once (no action is queued, no transaction is
  processed); `Router::deleteCluster` unlinks (`makeInactive`) and, since /repo def6b3d, deletes it;
  `ClusterRef::setNewPoly` has no lifetime effect; `~Router` (since def6b3d) unlinks and deletes the
  members of `clusterRefs`.  `stepOld` is the same machine with the two clauses as they were before
  def6b3d (nothing ever freed a ClusterRef) — `Props.C15.pre_fix_router_leaks_clusters`;
* API calls without an effect on object lifetime (`setRoutingOption/Parameter/Penalty`, fixed routes,
  queries, output, `ShapeRef::transformConnectionPinPositions`, …) are `api*` operations: identity on the
  state, legal exactly when the object they are called on may still be used; `ConnRef::setRoutingType`
  with a different type ends in `Router::modifyConnector(conn)`, which queues a bare ConnChange
  (`touchConn`).

`faults` records the places where the C++ would dereference a freed object, re-enter
`processActions` while it is iterating, or trip an assertion that guards an undocumented
precondition.  The model keeps going after a fault (the C++ does not); theorems about fault-free
runs are stated under `Legal`.

Not modelled: geometry, routes, visibility graphs, which pin of a class a connector end picks (the
model takes the first; the choice is not observable and not compared), hyperedge rerouting's choice
of new junctions/connectors (entered as `r*` bookkeeping ops from the implementation's own report).
-/
namespace AdaptaVerif.Model.Lifecycle

abbrev Id := Nat

/-- `ActionType` of actioninfo.h, in declaration order -/
inductive AType where
  | shapeMove | shapeAdd | shapeRemove | junctionMove | junctionAdd | junctionRemove
  | connChange | pinChange
  deriving DecidableEq, Repr, Inhabited

/-- a pin-type `ConnEnd` handed in by the user: `ConnEnd(shape, classId)` or `ConnEnd(junction)` -/
structure Anchor where
  obj : Id
  cls : Nat
  deriving DecidableEq, Repr, Inhabited

/-- user-level `ConnEnd`: `none` = `ConnEnd(Point)` -/
abbrev EndSpec := Option Anchor

structure Action where
  type : AType
  obj : Id                                   -- ActionInfo::objPtr
  ends : List (Bool × EndSpec) := []         -- ActionInfo::conns  (isDst, ConnEnd)
  deriving DecidableEq, Repr, Inhabited

/-- `ConnRef::m_src_connend / m_dst_connend` when it is a pin connection -/
structure EndSt where
  anchor : Id                                -- ConnEnd::m_anchor_obj
  cls : Nat
  pin : Option Id                            -- ConnEnd::m_active_pin
  deriving DecidableEq, Repr, Inhabited

abbrev End := Option EndSt

structure Obst where
  id : Id
  junction : Bool
  active : Bool                              -- member of Router::m_obstacles
  deriving DecidableEq, Repr, Inhabited

structure Conn where
  id : Id
  active : Bool                              -- member of Router::connRefs
  src : End
  dst : End
  cps : List Id := []                        -- ConnRef::m_checkpoint_vertices (owned VertInf objects, by id)
  deriving DecidableEq, Repr, Inhabited

structure Pin where
  id : Id
  owner : Id
  cls : Nat
  deriving DecidableEq, Repr, Inhabited

structure Cluster where
  id : Id
  active : Bool                              -- ClusterRef::m_active = member of Router::clusterRefs
  /-- obstacles whose polygon the cluster's `ReferencingPolygon` points into: the boundary points that carry an
      obstacle id (`Point::id`, `Point::vn`) are kept as (pointer to that obstacle's polygon, vertex number) -/
  refs : List Id := []
  deriving DecidableEq, Repr, Inhabited

inductive Fault where
  | assertPendingAdd (o : Id)     -- router.cpp:286/690 COLA_ASSERT(no ShapeAdd/JunctionAdd queued) in deleteShape/deleteJunction
  | useAfterFree (o : Id)         -- processActions dereferences an object that has been freed
  | reentry (o : Id)              -- (historic, unused since /repo 448bcee/f871b2f) processTransaction re-entered from processActions / ~Router
  | ctorBeforeRegister (o : Id)   -- (historic, unused since /repo 3650d5c) ConnRef(router, src, dst) routed before registration
  | notAllocated (o : Id)         -- the caller passed an object that is not allocated (illegal history)
  deriving DecidableEq, Repr, Inhabited

structure St where
  alive : Bool := true
  consolidate : Bool := true                 -- Router::m_consolidate_actions
  obst : List Obst := []
  conns : List Conn := []
  pins : List Pin := []
  clusters : List Cluster := []              -- allocated ClusterRef objects
  actions : List Action := []                -- Router::actionList
  created : List Id := []                    -- log: every object ever allocated
  freed : List Id := []                      -- log: every `delete`, with multiplicity
  vcreated : List Id := []                   -- log: every checkpoint vertex ever allocated (separate id space)
  vfreed : List Id := []                     -- log: every checkpoint vertex `delete`, with multiplicity
  faults : List Fault := []
  /-- obstacles that were freed while a cluster boundary still referenced them, recorded when the router next
      reads the boundary (`ReferencingPolygon::at`, geomtypes.cpp:199, from cost() / generateContains() during
      rerouting): a use-after-free of the obstacle's polygon -/
  refFaults : List Id := []
  deriving Repr, Inhabited

def init : St := {}

/-- pin class of a junction's implicit pin (`CONNECTIONPIN_CENTRE`); any fixed value will do -/
def centreCls : Nat := 0

inductive Op where
  | newShape (id : Id)
  | newJunction (id pin : Id)
  /-- `ctor3 = true`: `new ConnRef(router, src, dst)`; `false`: `new ConnRef(router)` then `setEndpoints(src,dst)` -/
  | newConn (id : Id) (src dst : EndSpec) (ctor3 : Bool)
  | newPin (pin shape : Id) (cls : Nat)
  | deleteShape (id : Id)
  | deleteJunction (id : Id)
  | deleteConn (id : Id)
  | deletePin (pin : Id)
  | moveShape (id : Id)
  | moveJunction (id : Id)
  | setEndpoint (conn : Id) (isDst : Bool) (e : EndSpec)
  /-- `ConnRef::setRoutingCheckpoints(checkpoints)`; `vs` = ids given to the new checkpoint vertices -/
  | setRoutingCheckpoints (conn : Id) (vs : List Id)
  | processTransaction
  | setTransactionUse (b : Bool)
  | deleteRouter
  /-- bookkeeping for objects the router itself deletes/creates during hyperedge rerouting
      (`HyperedgeRerouter::newAndDeletedObjectLists`) -/
  | rDelConn (id : Id)
  | rDelJunction (id : Id)
  | rNewJunction (id pin : Id)
  | rNewConn (id : Id)
  /-- `new ClusterRef(router, poly, id)`; `refs` = the obstacle ids carried by the points of `poly` -/
  | newCluster (id : Id) (refs : List Id)
  /-- `Router::deleteCluster(cluster)` -/
  | deleteCluster (id : Id)
  /-- `ClusterRef::setNewPoly(poly)`; `refs` as for `newCluster` -/
  | setClusterPoly (id : Id) (refs : List Id)
  /-- a `ConnRef` method that ends in `Router::modifyConnector(conn)` (no ConnEnd):
      `ConnRef::setRoutingType(t)` with `t` different from the current type -/
  | touchConn (c : Id)
  /-- `Router::modifyConnectionPin(pin)` for an existing pin: `ShapeRef::transformConnectionPinPositions`
      does this once per pin of the shape (after rewriting the pin's offsets and directions in place) -/
  | touchPin (pin : Id)
  /-- a `Router` method without lifetime effect: `setRoutingOption / setRoutingParameter / setRoutingPenalty`,
      queries (`routingOption`, `existsOrthogonal…`, `objectIdIsUnused`, `newObjectId`), `outputInstanceToSVG` … -/
  | apiRouter
  /-- a `ConnRef` method without lifetime effect: `setFixedExistingRoute`, `clearFixedRoute`, `setHateCrossings`,
      `route / displayRoute / routingType / endpointConnEnds …`, `setRoutingType` with the current type -/
  | apiConn (c : Id)
  /-- a `ShapeRef` / `JunctionRef` method without lifetime effect: `transformConnectionPinPositions`,
      `setPositionFixed`, `polygon / position / attachedConnectors …` -/
  | apiObst (o : Id)
  deriving DecidableEq, Repr, Inhabited

/-! ### small queries -/

def St.hasObst (s : St) (o : Id) : Bool := s.obst.any (·.id == o)
def St.hasShape (s : St) (o : Id) : Bool := s.obst.any (fun x => x.id == o && !x.junction)
def St.hasJunction (s : St) (o : Id) : Bool := s.obst.any (fun x => x.id == o && x.junction)
def St.hasConn (s : St) (c : Id) : Bool := s.conns.any (·.id == c)
def St.hasPin (s : St) (p : Id) : Bool := s.pins.any (·.id == p)
/-- the cluster is a member of `Router::clusterRefs` -/
def St.hasCluster (s : St) (k : Id) : Bool := s.clusters.any (fun x => x.id == k && x.active)
def St.hasAction (s : St) (t : AType) (o : Id) : Bool := s.actions.any (fun a => a.type == t && a.obj == o)
def St.pinsOf (s : St) (o : Id) : List Pin := s.pins.filter (·.owner == o)
def St.addFault (s : St) (f : Fault) : St := { s with faults := s.faults ++ [f] }

def endOn (e : End) (o : Id) : Bool := match e with | some x => x.anchor == o | none => false
def Conn.attachedTo (c : Conn) (o : Id) : Bool := endOn c.src o || endOn c.dst o
def St.attachedCount (s : St) (o : Id) : Nat := (s.conns.filter (·.attachedTo o)).length

/-- every object id currently allocated -/
def St.allocated (s : St) : List Id :=
  s.obst.map (·.id) ++ s.conns.map (·.id) ++ s.pins.map (·.id) ++ s.clusters.map (·.id)

/-! ### the action list -/

/-- `find(actionList…) == end ⇒ push_back` of Router::addShape/deleteShape/moveShape/… -/
def St.enqueue (s : St) (t : AType) (o : Id) : St :=
  if s.hasAction t o then s else { s with actions := s.actions ++ [{ type := t, obj := o }] }

/-- `actionList.erase(found)` of a queued move in Router::deleteShape/deleteJunction -/
def St.dropAction (s : St) (t : AType) (o : Id) : St :=
  { s with actions := s.actions.filter (fun a => !(a.type == t && a.obj == o)) }

/-- Router::removeObjectFromQueuedActions — compares `objPtr` only -/
def St.removeFromQueue (s : St) (o : Id) : St :=
  { s with actions := s.actions.filter (fun a => a.obj != o) }

/-- ActionInfo::addConnEndUpdate -/
def mergeEnd (ends : List (Bool × EndSpec)) (isDst : Bool) (e : EndSpec) (pinMove : Bool) :
    List (Bool × EndSpec) :=
  if ends.any (·.1 == isDst) then
    if pinMove then ends else ends.map (fun p => if p.1 == isDst then (isDst, e) else p)
  else ends ++ [(isDst, e)]

/-- Router::modifyConnector(conn, type, connEnd, connPinMoveUpdate) without the trailing processTransaction -/
def modifyConn (acts : List Action) (c : Id) (isDst : Bool) (e : EndSpec) (pinMove : Bool) : List Action :=
  if acts.any (fun a => a.type == .connChange && a.obj == c) then
    acts.map (fun a => if a.type == .connChange && a.obj == c
                       then { a with ends := mergeEnd a.ends isDst e pinMove } else a)
  else acts ++ [{ type := .connChange, obj := c, ends := [(isDst, e)] }]

/-! ### pieces of destructors -/

def detachEnd (e : End) (o : Id) : End := if endOn e o then none else e
/-- Obstacle::makeInactive: every following ConnEnd is disconnected and becomes a free point -/
def detachAnchor (cs : List Conn) (o : Id) : List Conn :=
  cs.map (fun c => { c with src := detachEnd c.src o, dst := detachEnd c.dst o })

def unpinEnd (e : End) (p : Id) : End :=
  match e with
  | some x => if x.pin == some p then some { x with pin := none } else e
  | none => none
/-- ShapeConnectionPin::~ShapeConnectionPin: every user calls ConnEnd::freeActivePin -/
def unpin (cs : List Conn) (p : Id) : List Conn :=
  cs.map (fun c => { c with src := unpinEnd c.src p, dst := unpinEnd c.dst p })

/-- `delete obstacle` for an obstacle that has been made inactive: frees its pins (each pin
    destructor queues a ConnectionPinChange for itself via Obstacle::removeConnectionPin), then itself -/
def St.freeObstacle (s : St) (o : Id) : St :=
  let ps := s.pinsOf o
  { s with
    conns := detachAnchor s.conns o
    pins := s.pins.filter (fun p => p.owner != o)
    obst := s.obst.filter (fun x => x.id != o)
    freed := s.freed ++ o :: ps.map (·.id) }

/-- the checkpoint vertices owned by connector `c` -/
def St.cpsOf (s : St) (c : Id) : List Id := (s.conns.filter (fun x => x.id == c)).flatMap (·.cps)

/-- every checkpoint vertex currently owned by some connector -/
def St.allCps (s : St) : List Id := s.conns.flatMap (·.cps)

/-- ConnRef::~ConnRef (also deletes its checkpoint vertices) -/
def St.freeConn (s : St) (c : Id) : St :=
  { s.removeFromQueue c with
    conns := s.conns.filter (fun x => x.id != c)
    freed := s.freed ++ [c]
    vfreed := s.vfreed ++ s.cpsOf c }

/-- ConnRef::setRoutingCheckpoints: remove and delete the old checkpoint vertices, clear the vector,
    create one vertex per new checkpoint.  Queues nothing and does not call processTransaction. -/
def St.setCheckpoints (s : St) (c : Id) (vs : List Id) : St :=
  { s with
    conns := s.conns.map (fun x => if x.id == c then { x with cps := vs } else x)
    vfreed := s.vfreed ++ s.cpsOf c
    vcreated := s.vcreated ++ vs }

/-- ClusterRef::ClusterRef: `assignId`, `Router::addCluster` → `makeActive` -/
def St.addCluster (s : St) (k : Id) (refs : List Id := []) : St :=
  { s with clusters := s.clusters ++ [{ id := k, active := true, refs := refs }], created := s.created ++ [k] }

/-- ClusterRef::setNewPoly: `m_polygon = ReferencingPolygon(poly, m_router)` — the old references are dropped -/
def St.setClusterRefs (s : St) (k : Id) (refs : List Id) : St :=
  { s with clusters := s.clusters.map (fun x => if x.id == k then { x with refs := refs } else x) }

/-- the references of linked clusters that point into freed obstacles -/
def St.dangling (s : St) : List Id :=
  (s.clusters.filter (·.active)).flatMap (fun k => k.refs.filter (fun r => !s.hasObst r))

/-- rerouting reads every linked cluster's boundary (cost() for the crossing penalty, generateContains() for each
    connector endpoint): a reference into a freed obstacle is dereferenced -/
def St.routeClusters (s : St) : St := { s with refFaults := s.refFaults ++ s.dangling }

/-- Router::deleteCluster since /repo def6b3d, and the loop body of `~Router`: `makeInactive`, `delete` -/
def St.freeCluster (s : St) (k : Id) : St :=
  { s with clusters := s.clusters.filter (fun x => x.id != k), freed := s.freed ++ [k] }

/-- Router::deleteCluster BEFORE /repo def6b3d: `makeInactive` only — the object stays allocated -/
def St.unlinkCluster (s : St) (k : Id) : St :=
  { s with clusters := s.clusters.map (fun x => if x.id == k then { x with active := false } else x) }

/-! ### Router::processActions -/

def isRemove (t : AType) : Bool := t == .shapeRemove || t == .junctionRemove
def isMove (t : AType) : Bool := t == .shapeMove || t == .junctionMove
def isAdd (t : AType) : Bool := t == .shapeAdd || t == .junctionAdd

/-- the ends following obstacle `o`, as (connector, isDst, copy of the ConnEnd) -/
def followers (cs : List Conn) (o : Id) : List (Id × Bool × Anchor) :=
  cs.flatMap (fun c =>
    (match c.src with | some x => if x.anchor == o then [(c.id, false, ⟨x.anchor, x.cls⟩)] else [] | none => []) ++
    (match c.dst with | some x => if x.anchor == o then [(c.id, true, ⟨x.anchor, x.cls⟩)] else [] | none => []))

/-- first loop of processActions (router.cpp:476-532) for one list entry -/
def procRemoveMove (s : St) (a : Action) : St :=
  if isRemove a.type then
    if !s.hasObst a.obj then s.addFault (.useAfterFree a.obj) else
    -- the pin destructors run Obstacle::removeConnectionPin → Router::modifyConnectionPin; since /repo
    -- 448bcee processActions forces m_consolidate_actions for its own duration, so nothing re-enters
    let pinActs := (s.pinsOf a.obj).map (fun p => ({ type := .pinChange, obj := p.id } : Action))
    { s.freeObstacle a.obj with actions := s.actions ++ pinActs }
  else if isMove a.type then
    if !s.hasObst a.obj then s.addFault (.useAfterFree a.obj) else
    let fs := followers s.conns a.obj
    -- ShapeRef/JunctionRef::moveAttachedConns → Router::modifyConnector(…, connPinMoveUpdate = true) for
    -- shapes and (since /repo e0e5881) junctions alike: the refresh never overwrites a queued user change;
    -- no re-entry (448bcee)
    let acts := fs.foldl (fun acts f => modifyConn acts f.1 f.2.1 (some f.2.2) true) s.actions
    { s with
      actions := acts
      conns := detachAnchor s.conns a.obj                -- Obstacle::makeInactive
      obst := s.obst.map (fun x => if x.id == a.obj then { x with active := false } else x) }
  else s

/-- third loop (router.cpp:563-620): add / move ⇒ makeActive -/
def procAddMove (s : St) (a : Action) : St :=
  if isAdd a.type || isMove a.type then
    if !s.hasObst a.obj then s.addFault (.useAfterFree a.obj) else
    { s with obst := s.obst.map (fun x => if x.id == a.obj then { x with active := true } else x) }
  else s

def setEnd (c : Conn) (isDst : Bool) (e : End) : Conn :=
  if isDst then { c with dst := e, active := true } else { c with src := e, active := true }

/-- ConnRef::updateEndPoint for one queued (type, ConnEnd) -/
def applyEnd (s : St) (c : Id) (u : Bool × EndSpec) : St :=
  match u.2 with
  | none => { s with conns := s.conns.map (fun x => if x.id == c then setEnd x u.1 none else x) }
  | some an =>
    -- ConnEnd::position() dereferences m_anchor_obj (connend.cpp:128)
    if !s.hasObst an.obj then s.addFault (.useAfterFree an.obj) else
    { s with conns := s.conns.map (fun x =>
        if x.id == c then setEnd x u.1 (some { anchor := an.obj, cls := an.cls, pin := none }) else x) }

/-- fourth loop (router.cpp:623-635) -/
def procConnChange (s : St) (a : Action) : St :=
  if a.type == .connChange then
    if !s.hasConn a.obj then s.addFault (.useAfterFree a.obj) else
    a.ends.foldl (fun s u => applyEnd s a.obj u) s
  else s

def assignPinEnd (ps : List Pin) (e : End) : End :=
  match e with
  | some x =>
    match x.pin with
    | some _ => e
    | none => some { x with pin := (ps.find? (fun p => p.owner == x.anchor && p.cls == x.cls)).map (·.id) }
  | none => none
/-- routing attaches each pin-type end of an active connector to some pin of that class
    (ConnEnd::usePin); the model takes the first one -/
def reroute (s : St) : St :=
  { s with conns := s.conns.map (fun c =>
      if c.active then { c with src := assignPinEnd s.pins c.src, dst := assignPinEnd s.pins c.dst } else c) }

def St.processActions (s : St) : St :=
  let snap := s.actions                                   -- list entries present when the loops start
  let s := snap.foldl procRemoveMove s
  let s := snap.foldl procAddMove s
  let s := s.actions.foldl procConnChange s               -- includes entries appended by moved obstacles
  { s with actions := [] }

/-- Router::processTransaction (the hyperedge-rerouter / settings-change conditions are not modelled:
    with an empty action list nothing about object lifetime changes) -/
def St.processTransaction (s : St) : St :=
  if s.actions.isEmpty then s else (reroute s.processActions).routeClusters

/-- `if (!m_consolidate_actions) processTransaction();` -/
def St.maybeProcess (s : St) : St := if s.consolidate then s else s.processTransaction

/-! ### the operations -/

def St.addObst (s : St) (id : Id) (junction active : Bool) : St :=
  { s with obst := s.obst ++ [{ id := id, junction := junction, active := active }], created := s.created ++ [id] }
def St.addPin (s : St) (pin owner : Id) (cls : Nat) : St :=
  { s with pins := s.pins ++ [{ id := pin, owner := owner, cls := cls }], created := s.created ++ [pin] }
def St.addConn (s : St) (id : Id) (active : Bool) : St :=
  { s with conns := s.conns ++ [{ id := id, active := active, src := none, dst := none }], created := s.created ++ [id] }
/-- Router::modifyConnector without the trailing processTransaction -/
def St.modify (s : St) (c : Id) (isDst : Bool) (e : EndSpec) : St :=
  { s with actions := modifyConn s.actions c isDst e false }
/-- Obstacle::removeConnectionPin: the pin leaves its owner's set -/
def St.unlinkPin (s : St) (pin : Id) : St := { s with pins := s.pins.filter (fun p => p.id != pin) }
/-- end of ~ShapeConnectionPin: users drop the pin, memory is released -/
def St.releasePin (s : St) (pin : Id) : St := { s with conns := unpin s.conns pin, freed := s.freed ++ [pin] }
def St.closeRouter (s : St) : St := { s with alive := false, actions := [] }

def deleteObstacleOp (s : St) (o : Id) (junction : Bool) : St :=
  let tAdd := if junction then AType.junctionAdd else .shapeAdd
  let tMove := if junction then AType.junctionMove else .shapeMove
  let tRem := if junction then AType.junctionRemove else .shapeRemove
  if !(if junction then s.hasJunction o else s.hasShape o) then s.addFault (.notAllocated o) else
  if s.hasAction tAdd o then s.addFault (.assertPendingAdd o) else
  ((s.dropAction tMove o).enqueue tRem o).maybeProcess

def moveObstacleOp (s : St) (o : Id) (junction : Bool) : St :=
  let tAdd := if junction then AType.junctionAdd else .shapeAdd
  let tMove := if junction then AType.junctionMove else .shapeMove
  if !(if junction then s.hasJunction o else s.hasShape o) then s.addFault (.notAllocated o) else
  if s.hasAction tAdd o then s            -- "The Add is enough": returns before the processTransaction call
  else (s.enqueue tMove o).maybeProcess

def step (s : St) (op : Op) : St :=
  if !s.alive then s else
  match op with
  | .newShape id => ((s.addObst id false false).enqueue .shapeAdd id).maybeProcess
  | .newJunction id pin =>
    -- JunctionRef::JunctionRef: Obstacle(), new ShapeConnectionPin(this) (→ modifyConnectionPin), addJunction
    let s := (((s.addObst id true false).addPin pin id centreCls).enqueue .pinChange pin).maybeProcess
    (s.enqueue .junctionAdd id).maybeProcess
  | .newConn id src dst _ctor3 =>
    let s := s.addConn id false
    -- since /repo 3650d5c the 3-argument constructor registers the reroute flag first: both forms behave alike
    (((s.modify id false src).maybeProcess).modify id true dst).maybeProcess
  | .newPin pin shape cls =>
    if !s.hasShape shape then s.addFault (.notAllocated shape) else
    -- since /repo f871b2f the pin registers with its shape last (complete when transactions-off routing runs)
    ((s.addPin pin shape cls).enqueue .pinChange pin).maybeProcess
  | .deleteShape id => deleteObstacleOp s id false
  | .deleteJunction id => deleteObstacleOp s id true
  | .deleteConn id =>
    if !s.hasConn id then s.addFault (.notAllocated id) else s.freeConn id
  | .deletePin pin =>
    if !s.hasPin pin then s.addFault (.notAllocated pin) else
    -- ~ShapeConnectionPin: Obstacle::removeConnectionPin (erase from the owner's set, modifyConnectionPin),
    -- then the users free their active pin, then the memory goes
    (((s.unlinkPin pin).enqueue .pinChange pin).maybeProcess).releasePin pin
  | .moveShape id => moveObstacleOp s id false
  | .moveJunction id => moveObstacleOp s id true
  | .setEndpoint c isDst e =>
    if !s.hasConn c then s.addFault (.notAllocated c) else
    (s.modify c isDst e).maybeProcess
  | .setRoutingCheckpoints c vs =>
    if !s.hasConn c then s.addFault (.notAllocated c) else s.setCheckpoints c vs
  | .processTransaction => s.processTransaction
  | .setTransactionUse b => { s with consolidate := b }
  | .deleteRouter =>
    -- ~Router deletes the members of connRefs, m_obstacles and (since /repo def6b3d) clusterRefs, i.e. the
    -- active objects (since /repo 448bcee ~Router sets m_consolidate_actions: pin destructors only queue)
    let s := (s.conns.filter (·.active)).foldl (fun s c => s.freeConn c.id) s
    let s := (s.obst.filter (·.active)).foldl (fun s o => s.freeObstacle o.id) s
    let s := (s.clusters.filter (·.active)).foldl (fun s k => s.freeCluster k.id) s
    s.closeRouter
  | .rDelConn id =>
    if !s.hasConn id then s.addFault (.notAllocated id) else s.freeConn id
  | .rDelJunction id =>
    if !s.hasJunction id then s.addFault (.notAllocated id) else (s.freeObstacle id).removeFromQueue id
  | .rNewJunction id pin => (s.addObst id true true).addPin pin id centreCls
  | .rNewConn id => s.addConn id true
  | .newCluster id refs => s.addCluster id refs        -- nothing queued, `processTransaction` is not called
  | .deleteCluster id =>
    if !s.hasCluster id then s.addFault (.notAllocated id) else s.freeCluster id
  | .setClusterPoly id refs =>
    if !s.hasCluster id then s.addFault (.notAllocated id) else s.setClusterRefs id refs
  | .touchConn c =>
    if !s.hasConn c then s.addFault (.notAllocated c) else (s.enqueue .connChange c).maybeProcess
  | .touchPin pin =>
    if !s.hasPin pin then s.addFault (.notAllocated pin) else (s.enqueue .pinChange pin).maybeProcess
  | .apiRouter => s
  | .apiConn c => if !s.hasConn c then s.addFault (.notAllocated c) else s
  | .apiObst o => if !s.hasObst o then s.addFault (.notAllocated o) else s

def run (h : List Op) : St := h.foldl step init

/-- The machine as the code was BEFORE /repo def6b3d: `Router::deleteCluster` only unlinked the cluster
    from `clusterRefs`, and `~Router` never looked at that list.  Everything else is `step`. -/
def stepOld (s : St) (op : Op) : St :=
  if !s.alive then s else
  match op with
  | .deleteCluster id =>
    if !s.hasCluster id then s.addFault (.notAllocated id) else s.unlinkCluster id
  | .deleteRouter =>
    let s := (s.conns.filter (·.active)).foldl (fun s c => s.freeConn c.id) s
    let s := (s.obst.filter (·.active)).foldl (fun s o => s.freeObstacle o.id) s
    s.closeRouter
  | _ => step s op

def runOld (h : List Op) : St := h.foldl stepOld init

/-- objects the router still holds after `~Router` (never activated ⇒ never freed): a leak -/
def St.leaked (s : St) : List Id := if s.alive then [] else s.allocated

/-- checkpoint vertices still owned after `~Router` -/
def St.leakedCps (s : St) : List Id := if s.alive then [] else s.allCps

/-! ### legality -/

def specOk (s : St) (e : EndSpec) : Bool :=
  match e with
  | none => true
  | some a => s.hasObst a.obj && !s.hasAction .shapeRemove a.obj && !s.hasAction .junctionRemove a.obj

def mentions (a : Action) (o : Id) : Bool := a.ends.any (fun u => match u.2 with | some an => an.obj == o | none => false)

def St.pendingRemove (s : St) (o : Id) : Bool := s.hasAction .shapeRemove o || s.hasAction .junctionRemove o

/-- what a cluster boundary may reference: `ReferencingPolygon`'s constructor looks the id up in `m_obstacles`
    (asserting that it finds it), so the obstacle is active, and the caller still owns a reference to it -/
def refsOk (s : St) (refs : List Id) : Bool :=
  refs.all (fun r => s.obst.any (fun x => x.id == r && x.active) && !s.pendingRemove r)

/-- some cluster boundary references obstacle `o` -/
def St.referenced (s : St) (o : Id) : Bool := s.clusters.any (fun k => k.refs.contains o)

/-- **Documented preconditions only**: the router is alive, new ids are unused
    (`Router::assignId` asserts it), every object passed in is one the caller still owns a reference
    to — allocated and not already handed to deleteShape/deleteJunction ("You should not use the
    shape reference again after this call") — and pins are only put on shapes. -/
def LegalDoc (s : St) (op : Op) : Bool :=
  s.alive &&
  match op with
  | .newShape id => !s.created.contains id
  | .newJunction id pin => !s.created.contains id && !s.created.contains pin && id != pin
  | .newConn id src dst _ => !s.created.contains id && specOk s src && specOk s dst
  | .newPin pin shape _ => !s.created.contains pin && s.hasShape shape && !s.pendingRemove shape
  | .deleteShape id => s.hasShape id && !s.pendingRemove id
  | .deleteJunction id => s.hasJunction id && !s.pendingRemove id
  | .deleteConn id => s.hasConn id
  | .deletePin pin => s.pins.any (fun p => p.id == pin && s.hasShape p.owner && !s.pendingRemove p.owner)
  | .moveShape id => s.hasShape id && !s.pendingRemove id
  | .moveJunction id => s.hasJunction id && !s.pendingRemove id
  | .setEndpoint c _ e => s.hasConn c && specOk s e
  | .setRoutingCheckpoints c vs => s.hasConn c && vs.all (fun v => !s.vcreated.contains v) && decide vs.Nodup
  | .processTransaction => true
  | .setTransactionUse _ => true
  | .deleteRouter => true
  | .rDelConn id => s.hasConn id && s.actions.isEmpty
  | .rDelJunction id => s.hasJunction id && s.actions.isEmpty && !s.referenced id
  | .rNewJunction id pin => !s.created.contains id && !s.created.contains pin && id != pin && s.actions.isEmpty
  | .rNewConn id => !s.created.contains id && s.actions.isEmpty
  | .newCluster id refs => !s.created.contains id && refsOk s refs
  | .deleteCluster id => s.hasCluster id
  | .setClusterPoly id refs => s.hasCluster id && refsOk s refs
  | .touchConn c => s.hasConn c
  | .touchPin pin => s.pins.any (fun p => p.id == pin && s.hasShape p.owner && !s.pendingRemove p.owner)
  | .apiRouter => true
  | .apiConn c => s.hasConn c
  | .apiObst o => s.hasObst o && !s.pendingRemove o

/-- **Strict legality** = documented preconditions + the restrictions that keep a history away from
    the defect classes K1–K5 found on the unchanged tree (DESIGN.md §6 C15):
    K1 `~Router` only frees *active* objects (queued, never processed additions leak);
    K2 deleteShape/deleteJunction assert when the object's addition is still queued;
    (K3 — re-entrant processTransaction with transactions off — and K5 — the 3-argument ConnRef
       constructor with transactions off — were repaired in /repo 448bcee, f871b2f, 3650d5c; their
       restrictions are gone from `Legal` and the model no longer raises those faults);
    K4 a queued connector-end change that names an obstacle is used after that obstacle was freed in
       the same transaction;
    K6 a cluster boundary that references an obstacle's vertices (`ReferencingPolygon`) keeps raw pointers
       into that obstacle: deleting the obstacle leaves them dangling, the next rerouting reads them.
    -/
def Legal (s : St) (op : Op) : Bool :=
  LegalDoc s op &&
  match op with
  | .deleteShape id =>
    !s.hasAction .shapeAdd id &&                                                     -- K2
    !s.actions.any (mentions · id) &&                                                -- K4
    !s.referenced id                                                                 -- K6
  | .deleteJunction id =>
    !s.hasAction .junctionAdd id && !s.actions.any (mentions · id) && !s.referenced id
  | .deleteRouter => s.obst.all (·.active) && s.conns.all (·.active)                 -- K1
  | _ => true

/-- all ops of the history are legal in the state they are applied to -/
def legalFrom (L : St → Op → Bool) (s : St) : List Op → Bool
  | [] => true
  | op :: rest => L s op && legalFrom L (step s op) rest

def LegalHist (h : List Op) : Bool := legalFrom Legal init h
def LegalDocHist (h : List Op) : Bool := legalFrom LegalDoc init h

/-- strict legality of every op of the history in the state the PRE-def6b3d machine has reached -/
def legalFromOld (s : St) : List Op → Bool
  | [] => true
  | op :: rest => Legal s op && legalFromOld (stepOld s op) rest

def LegalHistOld (h : List Op) : Bool := legalFromOld init h

end AdaptaVerif.Model.Lifecycle
